(* Proofs for C18, part 4: the bound of evaluate on unfinished games. *)
From Coq Require Import NArith ZArith List Bool Lia ZifyN ZifyBool ZifyNat.
Require Import Board Move GameOver Masks Eval EvalSpec EvalFacts1 EvalFacts2 EvalFacts3 Threats ThreatsFacts1.
Import ListNotations.
Open Scope N_scope.
Open Scope Z_scope.

Lemma bound_square_nonneg w : 0 <= bound_square w.
Proof. unfold bound_square, aw. lia. Qed.

(* evaluate on an unfinished game, cut into named pieces *)
Definition base_score (w : weights) (p : position) : Z :=
  let c := precompute (size p) in
  let tempo := (Z.quot (wt w TopFlat) 2 + wt w Tempo)%Z in
  let score := if to_move_white p then tempo else (- tempo)%Z in
  let sc := N.lor (Caps p) (Standing p) in
  (score + pc (andnot (White p) sc) * wt w TopFlat - pc (andnot (Black p) sc) * wt w TopFlat
         + pc (N.land (White p) (Standing p)) * wt w FStanding - pc (N.land (Black p) (Standing p)) * wt w FStanding
         + pc (N.land (White p) (Caps p)) * wt w FCapstone - pc (N.land (Black p) (Caps p)) * wt w FCapstone
         + pc (andnot (White p) (cEdge c)) * wt w Center - pc (andnot (Black p) (cEdge c)) * wt w Center)%Z.
Definition loop_score (w : weights) (p : position) (s0 : Z) : Z :=
  fold_left (fun acc ih => (acc + square_score (precompute (size p)) w p (fst ih) (snd ih))%Z)
            (combine (seq 0 (length (Height p))) (Height p)) s0.
Definition lib_score (w : weights) (p : position) (score : Z) : Z :=
  let c := precompute (size p) in
  if (wt w Liberties =? 0)%Z then score else
    let wr := andnot (White p) (Standing p) in let br := andnot (Black p) (Standing p) in
    (score + wt w Liberties * pc (andnot (grow c (compl64 (Black p)) wr) (White p))
           - wt w Liberties * pc (andnot (grow c (compl64 (White p)) br) (Black p)))%Z.

Lemma evaluate_unfinished w p wg bg c0 : analyze p = Some (wg, bg) -> game_over p = Some (false, c0) ->
  evaluate w p =
  match score_groups (precompute (size p)) wg w (N.lor (Black p) (Standing p)),
        score_groups (precompute (size p)) bg w (N.lor (White p) (Standing p)) with
  | Ok gw, Ok gb =>
    let score := lib_score w p (loop_score w p (base_score w p) + gw - gb) +
                 score_threats (precompute (size p)) w p wg bg + score_control (precompute (size p)) w p in
    Ok (if to_move_white p then score else - score)
  | _, _ => Panic
  end.
Proof. intros A G. unfold evaluate. rewrite A, G. reflexivity. Qed.

Lemma evaluate_no_groups w p : analyze p = None -> evaluate w p = Panic.
Proof. intros A. unfold evaluate. rewrite A. reflexivity. Qed.

Lemma base_score_bound w p : hi0 64 (White p) -> hi0 64 (Black p) ->
  Z.abs (base_score w p) <= Z.abs (Z.quot (wt w TopFlat) 2 + wt w Tempo) + 64 * (aw w TopFlat + aw w FStanding + aw w FCapstone + aw w Center).
Proof.
  intros HW HB. unfold base_score. cbv zeta.
  pose proof (diffb (wt w TopFlat) _ _ 64 (pc64 _ (hi0_andnot 64 (White p) (N.lor (Caps p) (Standing p)) HW))
                  (pc64 _ (hi0_andnot 64 (Black p) (N.lor (Caps p) (Standing p)) HB))).
  pose proof (diffb (wt w FStanding) _ _ 64 (pc64 _ (hi0_land_l 64 (White p) (Standing p) HW)) (pc64 _ (hi0_land_l 64 (Black p) (Standing p) HB))).
  pose proof (diffb (wt w FCapstone) _ _ 64 (pc64 _ (hi0_land_l 64 (White p) (Caps p) HW)) (pc64 _ (hi0_land_l 64 (Black p) (Caps p) HB))).
  pose proof (diffb (wt w Center) _ _ 64 (pc64 _ (hi0_andnot 64 (White p) (cEdge (precompute (size p))) HW))
                  (pc64 _ (hi0_andnot 64 (Black p) (cEdge (precompute (size p))) HB))).
  unfold aw. destruct (to_move_white p); lia.
Qed.

Lemma loop_score_bound w p s0 : (3 <= size p <= 8)%N -> length (Height p) = N.to_nat (size p * size p) ->
  Forall (fun h => (h < 256)%N) (Height p) -> hi0 64 (White p) -> hi0 64 (Black p) ->
  Z.abs (loop_score w p s0 - s0) <= 64 * bound_square w.
Proof.
  intros Hs Hlen Hh HW HB. unfold loop_score.
  pose proof (fold_sum_bound (fun ih : nat * N => square_score (precompute (size p)) w p (fst ih) (snd ih))
                (combine (seq 0 (length (Height p))) (Height p)) s0 (bound_square w) (bound_square_nonneg w)) as F.
  cbv beta in F.
  assert (Hl : (length (combine (seq 0 (length (Height p))) (Height p)) <= 64)%nat).
  { rewrite combine_length, seq_length, Nat.min_id, Hlen.
    assert (size p * size p <= 64)%N by nia. lia. }
  pose proof (bound_square_nonneg w).
  etransitivity; [apply F|nia].
  intros [i h] Hin. cbn [fst snd]. apply in_combine_r in Hin.
  apply square_score_bound; try assumption. rewrite Forall_forall in Hh. now apply Hh.
Qed.

Lemma lib_score_bound w p s : hi0 64 (White p) -> hi0 64 (Black p) -> Z.abs (lib_score w p s - s) <= 64 * aw w Liberties.
Proof.
  intros HW HB. unfold lib_score. cbv zeta. pose proof (aw_nonneg w Liberties). destruct (wt w Liberties =? 0); [lia|].
  set (c := precompute (size p)).
  assert (P1 : 0 <= pc (andnot (grow c (compl64 (Black p)) (andnot (White p) (Standing p))) (White p)) <= 64)
    by (apply pc64, hi0_andnot, hi0_grow, hi0_compl64, HB).
  assert (P2 : 0 <= pc (andnot (grow c (compl64 (White p)) (andnot (Black p) (Standing p))) (Black p)) <= 64)
    by (apply pc64, hi0_andnot, hi0_grow, hi0_compl64, HW).
  unfold aw. nia.
Qed.

Theorem eval_bound : forall w p c v, shape_ok p -> game_over p = Some (false, c) -> evaluate w p = Ok v -> Z.abs v <= bound w.
Proof.
  intros w p c0 v (Hs & Hlen & Hh & HW & HB & HS & HC & _ & _) G E.
  apply lt_hi0 in HW, HB, HS, HC.
  destruct (consts_hi0 (size p) Hs) as [Hm _].
  destruct (analyze p) as [[wg bg]|] eqn:A.
  2:{ rewrite (evaluate_no_groups w p A) in E. discriminate. }
  rewrite (evaluate_unfinished w p wg bg c0 A G) in E.
  destruct (analyze_len p wg bg A) as [Lw Lb].
  destruct (score_groups _ wg w _) as [gw| |] eqn:Gw; try discriminate.
  destruct (score_groups _ bg w _) as [gb| |] eqn:Gb; try discriminate.
  apply score_groups_bound in Gw; [|now apply hi0_lor|assumption].
  apply score_groups_bound in Gb; [|now apply hi0_lor|assumption].
  pose proof (score_threats_bound (precompute (size p)) w p wg bg Hm Lw Lb) as Bt.
  pose proof (score_control_bound (precompute (size p)) w p Hm HW HB) as Bc.
  pose proof (base_score_bound w p HW HB) as B0.
  pose proof (loop_score_bound w p (base_score w p) Hs Hlen Hh HW HB) as Bl.
  pose proof (lib_score_bound w p (loop_score w p (base_score w p) + gw - gb) HW HB) as Blib.
  cbv zeta in E. inversion E; subst v. unfold bound.
  generalize dependent (score_threats (precompute (size p)) w p wg bg). intros thr Bt.
  generalize dependent (score_control (precompute (size p)) w p). intros ctl Bc.
  generalize dependent (lib_score w p (loop_score w p (base_score w p) + gw - gb)). intros lib Blib.
  generalize dependent (loop_score w p (base_score w p)). intros lp Bl.
  generalize dependent (base_score w p). intros s0 B0.
  intros.
  assert (0 <= Z.abs (wt w TopFlat ÷ 2 + wt w Tempo)) by lia.
  set (t0 := Z.abs (wt w TopFlat ÷ 2 + wt w Tempo)) in *. clearbody t0.
  pose proof (aw_nonneg w TopFlat). set (a1 := aw w TopFlat) in *. clearbody a1.
  pose proof (aw_nonneg w FStanding). set (a2 := aw w FStanding) in *. clearbody a2.
  pose proof (aw_nonneg w FCapstone). set (a3 := aw w FCapstone) in *. clearbody a3.
  pose proof (aw_nonneg w Center). set (a4 := aw w Center) in *. clearbody a4.
  pose proof (aw_nonneg w Liberties). set (a5 := aw w Liberties) in *. clearbody a5.
  pose proof (aw_nonneg w EmptyControl). set (a6 := aw w EmptyControl) in *. clearbody a6.
  pose proof (aw_nonneg w FlatControl). set (a7 := aw w FlatControl) in *. clearbody a7.
  pose proof (aw_nonneg w CenterControl). set (a8 := aw w CenterControl) in *. clearbody a8.
  assert (A1 : - bound_groups w <= gw <= bound_groups w) by lia.
  assert (A2 : - bound_groups w <= gb <= bound_groups w) by lia.
  assert (A3 : - bound_threats w <= thr <= bound_threats w) by lia.
  assert (A4 : - (64 * (a6 + a7 + a8)) <= ctl <= 64 * (a6 + a7 + a8)) by lia.
  assert (A5 : - (t0 + 64 * (a1 + a2 + a3 + a4)) <= s0 <= t0 + 64 * (a1 + a2 + a3 + a4)) by lia.
  assert (A6 : - (64 * bound_square w) <= lp - s0 <= 64 * bound_square w) by lia.
  assert (A7 : - (64 * a5) <= lib - (lp + gw - gb) <= 64 * a5) by lia.
  clear Gw Gb Bt Bc B0 Bl Blib.
  destruct (to_move_white p); lia.
Qed.
