(* C04, rules-engine half: a live position has a legal move, and AllMoves lists it.
   Over the bit-level, code-shaped model of tak/game.go + tak/move.go (Move.v, GameOver.v):
   if the model of GameOver says "not over", some move of the model of AllMoves is accepted by the
   model of MovePreallocated (a flat placement on an empty square, or - when the mover has run out
   of stones - a capstone placement).  Proofs only; the models are in Move.v / GameOver.v. *)
From Coq Require Import NArith ZArith Arith List Bool Lia ZifyN ZifyBool ZifyNat.
Require Import Board Rules Move GameOver Refine RefinePlace RefinePlace2.
Import ListNotations.
Ltac Zify.zify_post_hook ::= Z.div_mod_to_equations.
Open Scope N_scope.

(* no piece outside the size x size board (FromSquares / Move never set such a bit) *)
Definition in_mask (p : position) : Prop :=
  forall i, size p * size p <= i -> N.testbit (N.lor (White p) (Move.Black p)) i = false.

(* In the two opening plies the mover places a stone of the OPPONENT: that player must own one.
   (Holds in every position reached from New: at ply 0/1 the opponent has not placed anything.) *)
Definition opening_supply (p : position) : Prop :=
  (move p < 2)%Z -> 0 < (if to_move_white p then blackStones p else whiteStones p).

Lemma cMask_ones sz : 3 <= sz <= 8 -> cMask (precompute sz) = N.ones (sz * sz).
Proof.
  intros H. assert (E : sz = 3 \/ sz = 4 \/ sz = 5 \/ sz = 6 \/ sz = 7 \/ sz = 8) by lia.
  destruct E as [->|[->|[->|[->|[->| ->]]]]]; reflexivity.
Qed.

Lemma exists_empty_square p :
  wf p -> in_mask p -> N.lor (White p) (Move.Black p) <> cMask (precompute (size p)) ->
  exists i, i < size p * size p /\ has (N.lor (White p) (Move.Black p)) i = false.
Proof.
  intros W M Hne. pose proof (wf_size p W) as Hs. rewrite cMask_ones in Hne by assumption.
  set (wb := N.lor (White p) (Move.Black p)) in *. set (n := size p * size p) in *.
  assert (Hn : n <= 64) by (subst n; nia).
  set (d := N.ldiff (N.ones n) wb).
  assert (Hd : d <> 0).
  { intros Z. apply Hne. apply N.bits_inj. intros i.
    destruct (N.lt_ge_cases i n) as [Hi|Hi].
    - rewrite N.ones_spec_low by assumption.
      assert (T : N.testbit d i = false) by (rewrite Z; apply N.bits_0).
      unfold d in T. rewrite N.ldiff_spec, N.ones_spec_low in T by assumption.
      destruct (N.testbit wb i); [reflexivity|discriminate].
    - rewrite N.ones_spec_high by assumption. apply M. exact Hi. }
  exists (N.log2 d). pose proof (N.bit_log2 d Hd) as T. unfold d in T at 1. rewrite N.ldiff_spec in T.
  apply andb_prop in T as [T1 T2].
  assert (Hi : N.log2 d < n).
  { destruct (N.lt_ge_cases (N.log2 d) n) as [Hi|Hi]; [assumption|]. rewrite N.ones_spec_high in T1 by assumption. discriminate. }
  split; [assumption|]. rewrite has_spec by lia. now apply negb_true_iff in T2.
Qed.

Theorem live_has_legal_move p c :
  wf p -> in_mask p -> opening_supply p -> game_over p = Some (false, c) ->
  exists m q, In m (all_moves p) /\ mv p m = Ok q.
Proof.
  intros W M OS G. pose proof (wf_size p W) as Hs.
  unfold game_over in G. destruct (analyze p) as [[wg bg]|]; [|discriminate].
  destruct (has_road p wg bg); [discriminate|].
  destruct (negb (u8 (whiteStones p + whiteCaps p) =? 0) && negb (u8 (blackStones p + blackCaps p) =? 0) &&
            negb (N.lor (White p) (Move.Black p) =? cMask (precompute (size p)))) eqn:E; [|discriminate].
  apply andb_prop in E as [E E3]. apply andb_prop in E as [E1 E2].
  apply negb_true_iff, N.eqb_neq in E1, E2, E3.
  destruct (exists_empty_square p W M E3) as (i & Hi & Hemp).
  pose proof (wf_res p W) as (R1 & R2 & R3 & R4).
  pose proof (wf_lenH p W) as LH.
  assert (Hh : nthN (Height p) i = 0) by (apply (wf_occ p W i Hi); exact Hemp).
  set (sz := size p) in *.
  assert (Hm : i mod sz < sz) by (apply N.mod_lt; lia).
  assert (Hdv : i / sz < sz) by (apply N.div_lt_upper_bound; lia).
  assert (Hdm : i = sz * (i / sz) + i mod sz) by (apply N.div_mod; lia).
  set (xn := N.to_nat (i mod sz)). set (yn := N.to_nat (i / sz)).
  assert (Hx : (xn < N.to_nat sz)%nat) by (subst xn; clear - Hm; lia).
  assert (Hy : (yn < N.to_nat sz)%nat) by (subst yn; clear - Hdv; lia).
  assert (Ei : N.of_nat (yn * N.to_nat sz + xn) = i).
  { subst xn yn. rewrite Nat2N.inj_add, Nat2N.inj_mul, !N2Nat.id. rewrite Hdm at 3. lia. }
  assert (Hsq : sq_index p (Z.of_nat xn) (Z.of_nat yn) = i).
  { destruct (sq_index_on_board p (Z.of_nat xn) (Z.of_nat yn)) as [Q _]; [assumption|fold sz; lia|fold sz; lia|].
    rewrite Q. fold sz. lia. }
  assert (Hidx : idx (Height p) i = Ok 0).
  { rewrite (idx_ok _ _ 0) by (rewrite LH; fold sz; lia). f_equal. exact Hh. }
  (* which placement *)
  assert (Hbounds : ((Z.of_nat xn <? 0) || (Z.of_N sz <=? Z.of_nat xn) || (Z.of_nat yn <? 0) || (Z.of_N sz <=? Z.of_nat yn))%Z = false) by lia.
  assert (Hcell : forall tail,
     In tail (flat_map (fun x => flat_map (fun y =>
        let i := N.of_nat (y * N.to_nat sz + x) in
        let X := Z.of_nat x in let Y := Z.of_nat y in
        if nthN (Height p) i =? 0 then
          {| mX := X; mY := Y; mT := 2; mS := 0 |} ::
          (if (2 <=? move p)%Z then {| mX := X; mY := Y; mT := 3; mS := 0 |} ::
             (if (if to_move_white p then 0 <? whiteCaps p else 0 <? blackCaps p) then [{| mX := X; mY := Y; mT := 4; mS := 0 |}] else []) else [])
        else []) (seq 0 (N.to_nat sz))) (seq 0 (N.to_nat sz))) -> True) by auto.
  clear Hcell.
  assert (Hin : forall m,
     In m ({| mX := Z.of_nat xn; mY := Z.of_nat yn; mT := 2; mS := 0 |} ::
          (if (2 <=? move p)%Z then {| mX := Z.of_nat xn; mY := Z.of_nat yn; mT := 3; mS := 0 |} ::
             (if (if to_move_white p then 0 <? whiteCaps p else 0 <? blackCaps p)
              then [{| mX := Z.of_nat xn; mY := Z.of_nat yn; mT := 4; mS := 0 |}] else []) else [])) ->
     In m (all_moves p)).
  { intros m Hmm. unfold all_moves. fold sz. apply in_flat_map. exists xn. split; [apply in_seq; lia|].
    apply in_flat_map. exists yn. split; [apply in_seq; lia|]. cbv zeta. rewrite Ei, Hh. cbn [N.eqb]. exact Hmm. }
  destruct (Z.ltb_spec (move p) 2) as [Hop|Hop].
  - (* opening: the flat placement of the opponent's stone *)
    specialize (OS Hop).
    assert (Hmv : exists q, mv p {| mX := Z.of_nat xn; mY := Z.of_nat yn; mT := 2; mS := 0 |} = Ok q).
    { unfold mv, move_prealloc. cbn [mX mY mT mS]. fold sz. rewrite Hbounds. cbn [andb negb N.eqb Pos.eqb bind].
      replace (move p <? 2)%Z with true by lia. cbn [bind]. rewrite Hsq, Hemp, Hidx.
      destruct (to_move_white p); cbn [negb].
      + replace (blackStones p <=? 0) with false by lia. cbn [bind]. eexists; reflexivity.
      + replace (whiteStones p <=? 0) with false by lia. cbn [bind]. eexists; reflexivity. }
    destruct Hmv as [q Hq]. eexists _, q. split; [apply Hin; left; reflexivity|exact Hq].
  - destruct (N.eq_dec (if to_move_white p then whiteStones p else blackStones p) 0) as [Z0|NZ].
    + (* no stones left: the capstone *)
      assert (Hcap : (if to_move_white p then 0 <? whiteCaps p else 0 <? blackCaps p) = true).
      { unfold u8 in E1, E2. destruct (to_move_white p); rewrite Z0 in *; lia. }
      assert (Hmv : exists q, mv p {| mX := Z.of_nat xn; mY := Z.of_nat yn; mT := 4; mS := 0 |} = Ok q).
      { unfold mv, move_prealloc. cbn [mX mY mT mS]. fold sz. rewrite Hbounds. cbn [andb negb N.eqb Pos.eqb bind].
        replace (move p <? 2)%Z with false by lia. cbn [bind]. rewrite Hsq, Hemp, Hidx.
        destruct (to_move_white p).
        * replace (whiteCaps p <=? 0) with false by lia. cbn [bind]. eexists; reflexivity.
        * replace (blackCaps p <=? 0) with false by lia. cbn [bind]. eexists; reflexivity. }
      destruct Hmv as [q Hq]. eexists _, q. split; [|exact Hq].
      apply Hin. right. replace (2 <=? move p)%Z with true by lia. right. rewrite Hcap. left. reflexivity.
    + assert (Hmv : exists q, mv p {| mX := Z.of_nat xn; mY := Z.of_nat yn; mT := 2; mS := 0 |} = Ok q).
      { unfold mv, move_prealloc. cbn [mX mY mT mS]. fold sz. rewrite Hbounds. cbn [andb negb N.eqb Pos.eqb bind].
        replace (move p <? 2)%Z with false by lia. cbn [bind]. rewrite Hsq, Hemp, Hidx.
        destruct (to_move_white p).
        * replace (whiteStones p <=? 0) with false by lia. cbn [bind]. eexists; reflexivity.
        * replace (blackStones p <=? 0) with false by lia. cbn [bind]. eexists; reflexivity. }
      destruct Hmv as [q Hq]. eexists _, q. split; [apply Hin; left; reflexivity|exact Hq].
Qed.
Print Assumptions live_has_legal_move.
