(* C04, rules-engine half: a live position has a legal move, and AllMoves lists it.
   Over the bit-level, code-shaped model of tak/game.go + tak/move.go (Move.v, GameOver.v):
   if the model of GameOver says "not over", some move of the model of AllMoves is accepted by the
   model of MovePreallocated (a flat placement on an empty square, or - when the mover has run out
   of stones - a capstone placement).  Proofs only; the models are in Move.v / GameOver.v. *)
From Coq Require Import NArith ZArith Arith List Bool Lia ZifyN ZifyBool ZifyNat.
Require Import Board Rules Move GameOver Refine RefinePlace RefinePlace2.
Import ListNotations.
Ltac Zify.zify_post_hook ::= Z.div_mod_to_equations.
Open Scope N_scope.

(* no piece outside the size x size board (FromSquares / Move never set such a bit) *)
Definition in_mask (p : position) : Prop :=
  forall i, size p * size p <= i -> N.testbit (N.lor (White p) (Move.Black p)) i = false.

(* In the two opening plies the mover places a stone of the OPPONENT: that player must own one.
   (Holds in every position reached from New: at ply 0/1 the opponent has not placed anything.) *)
Definition opening_supply (p : position) : Prop :=
  (move p < 2)%Z -> 0 < (if to_move_white p then blackStones p else whiteStones p).

Lemma cMask_ones sz : 3 <= sz <= 8 -> cMask (precompute sz) = N.ones (sz * sz).
Proof.
  intros H. assert (E : sz = 3 \/ sz = 4 \/ sz = 5 \/ sz = 6 \/ sz = 7 \/ sz = 8) by lia.
  destruct E as [->|[->|[->|[->|[->| ->]]]]]; reflexivity.
Qed.

Lemma exists_empty_square p :
  wf p -> in_mask p -> N.lor (White p) (Move.Black p) <> cMask (precompute (size p)) ->
  exists i, i < size p * size p /\ has (N.lor (White p) (Move.Black p)) i = false.
Proof.
  intros W M Hne. pose proof (wf_size p W) as Hs. rewrite cMask_ones in Hne by assumption.
  set (wb := N.lor (White p) (Move.Black p)) in *. set (n := size p * size p) in *.
  assert (Hn : n <= 64) by (subst n; nia).
  set (d := N.ldiff (N.ones n) wb).
  assert (Hd : d <> 0).
  { intros Z. apply Hne. apply N.bits_inj. intros i.
    destruct (N.lt_ge_cases i n) as [Hi|Hi].
    - rewrite N.ones_spec_low by assumption.
      assert (T : N.testbit d i = false) by (rewrite Z; apply N.bits_0).
      unfold d in T. rewrite N.ldiff_spec, N.ones_spec_low in T by assumption.
      destruct (N.testbit wb i); [reflexivity|discriminate].
    - rewrite N.ones_spec_high by assumption. apply M. exact Hi. }
  exists (N.log2 d). pose proof (N.bit_log2 d Hd) as T. unfold d in T at 1. rewrite N.ldiff_spec in T.
  apply andb_prop in T as [T1 T2].
  assert (Hi : N.log2 d < n).
  { destruct (N.lt_ge_cases (N.log2 d) n) as [Hi|Hi]; [assumption|]. rewrite N.ones_spec_high in T1 by assumption. discriminate. }
  split; [assumption|]. rewrite has_spec by lia. now apply negb_true_iff in T2.
Qed.

(* ---- the two placements, and where AllMoves lists them ---- *)
Lemma place_flat_ok p x y i :
  ((x <? 0) || (Z.of_N (size p) <=? x) || (y <? 0) || (Z.of_N (size p) <=? y))%Z = false ->
  sq_index p x y = i -> has (N.lor (White p) (Move.Black p)) i = false -> idx (Height p) i = Ok 0 ->
  0 < (if (if (move p <? 2)%Z then negb (to_move_white p) else to_move_white p) then whiteStones p else blackStones p) ->
  exists q, mv p {| mX := x; mY := y; mT := 2; mS := 0 |} = Ok q.
Proof.
  intros Hb Hsq Hemp Hidx Hst.
  unfold mv, move_prealloc. cbn [mX mY mT mS]. rewrite Hb. cbn [andb].
  change (bind (Ok (inl KFlat)) ?f) with (f (inl KFlat)). cbv beta.
  rewrite Hsq, Hemp, Hidx.
  destruct (move p <? 2)%Z; cbn [bind]; destruct (to_move_white p); cbn [negb] in *.
  all: match goal with |- context [(?r <=? 0)%N] => replace (r <=? 0) with false by lia end.
  all: cbn [bind]; eexists; reflexivity.
Qed.

Lemma place_cap_ok p x y i :
  ((x <? 0) || (Z.of_N (size p) <=? x) || (y <? 0) || (Z.of_N (size p) <=? y))%Z = false ->
  sq_index p x y = i -> has (N.lor (White p) (Move.Black p)) i = false -> idx (Height p) i = Ok 0 ->
  (2 <= move p)%Z -> 0 < (if to_move_white p then whiteCaps p else blackCaps p) ->
  exists q, mv p {| mX := x; mY := y; mT := 4; mS := 0 |} = Ok q.
Proof.
  intros Hb Hsq Hemp Hidx Hop Hst.
  unfold mv, move_prealloc. cbn [mX mY mT mS]. rewrite Hb. cbn [andb].
  change (bind (Ok (inl KCap)) ?f) with (f (inl KCap)). cbv beta.
  rewrite Hsq, Hemp, Hidx. replace (move p <? 2)%Z with false by lia.
  cbn [bind]; destruct (to_move_white p).
  all: match goal with |- context [(?r <=? 0)%N] => replace (r <=? 0) with false by lia end.
  all: cbn [bind]; eexists; reflexivity.
Qed.

(* what AllMoves emits for an empty square (x, y) *)
Definition place_cell (p : position) (xn yn : nat) : list rmove :=
  {| mX := Z.of_nat xn; mY := Z.of_nat yn; mT := 2; mS := 0 |} ::
  (if (2 <=? move p)%Z then {| mX := Z.of_nat xn; mY := Z.of_nat yn; mT := 3; mS := 0 |} ::
     (if (if to_move_white p then 0 <? whiteCaps p else 0 <? blackCaps p)
      then [{| mX := Z.of_nat xn; mY := Z.of_nat yn; mT := 4; mS := 0 |}] else []) else []).

Lemma all_moves_place_cell p xn yn m :
  (xn < N.to_nat (size p))%nat -> (yn < N.to_nat (size p))%nat ->
  nthN (Height p) (N.of_nat (yn * N.to_nat (size p) + xn)) = 0 ->
  In m (place_cell p xn yn) -> In m (all_moves p).
Proof.
  intros Hx Hy Hh Hm. unfold all_moves. apply in_flat_map. exists xn. split; [apply in_seq; lia|].
  apply in_flat_map. exists yn. split; [apply in_seq; lia|]. cbv zeta. rewrite Hh. exact Hm.
Qed.

(* ---- what "not over" means in the model of GameOver ---- *)
Lemma game_over_unfold p : game_over p =
  match analyze p with
  | None => None
  | Some (wg, bg) =>
    match has_road p wg bg with
    | Some c => Some (true, c)
    | None =>
      if negb (u8 (whiteStones p + whiteCaps p) =? 0) && negb (u8 (blackStones p + blackCaps p) =? 0) &&
         negb (N.lor (White p) (Move.Black p) =? cMask (precompute (size p)))
      then Some (false, GNone) else Some (true, flats_winner p)
    end
  end.
Proof. reflexivity. Qed.

Lemma game_over_false_inv p c : game_over p = Some (false, c) ->
  u8 (whiteStones p + whiteCaps p) <> 0 /\ u8 (blackStones p + blackCaps p) <> 0 /\
  N.lor (White p) (Move.Black p) <> cMask (precompute (size p)).
Proof.
  intros G. rewrite game_over_unfold in G.
  destruct (analyze p) as [[wg bg]|]; [|discriminate]. destruct (has_road p wg bg); [discriminate|].
  assert (E : negb (u8 (whiteStones p + whiteCaps p) =? 0) && negb (u8 (blackStones p + blackCaps p) =? 0) &&
              negb (N.lor (White p) (Move.Black p) =? cMask (precompute (size p))) = true).
  { match type of G with (if ?c then _ else _) = _ => destruct c; [reflexivity|discriminate] end. }
  clear G. apply andb_prop in E as [E E3]. apply andb_prop in E as [E1 E2].
  apply negb_true_iff, N.eqb_neq in E1, E2, E3. auto.
Qed.

Theorem live_has_legal_move p c :
  wf p -> in_mask p -> opening_supply p -> game_over p = Some (false, c) ->
  exists m q, In m (all_moves p) /\ mv p m = Ok q.
Proof.
  intros W M OS G. pose proof (wf_size p W) as Hs.
  destruct (game_over_false_inv p c G) as (E1 & E2 & E3). clear G.
  destruct (exists_empty_square p W M E3) as (i & Hi & Hemp).
  pose proof (wf_res p W) as (R1 & R2 & R3 & R4).
  pose proof (wf_lenH p W) as LH.
  assert (Hh : nthN (Height p) i = 0) by (apply (wf_occ p W i Hi); exact Hemp).
  assert (Hm : i mod size p < size p) by (apply N.mod_lt; lia).
  assert (Hdv : i / size p < size p) by (apply N.div_lt_upper_bound; lia).
  assert (Hdm : i = size p * (i / size p) + i mod size p) by (apply N.div_mod; lia).
  remember (N.to_nat (i mod size p)) as xn eqn:Exn. remember (N.to_nat (i / size p)) as yn eqn:Eyn.
  assert (Hx : (xn < N.to_nat (size p))%nat) by (subst xn; clear - Hm; lia).
  assert (Hy : (yn < N.to_nat (size p))%nat) by (subst yn; clear - Hdv; lia).
  assert (Ei : N.of_nat (yn * N.to_nat (size p) + xn) = i).
  { subst xn yn. rewrite Nat2N.inj_add, Nat2N.inj_mul, !N2Nat.id. rewrite Hdm at 3. lia. }
  assert (Hsq : sq_index p (Z.of_nat xn) (Z.of_nat yn) = i).
  { destruct (sq_index_on_board p (Z.of_nat xn) (Z.of_nat yn)) as [Q _]; [assumption|lia|lia|].
    rewrite Q. rewrite <- Ei. lia. }
  assert (Hidx : idx (Height p) i = Ok 0).
  { rewrite (idx_ok _ _ 0) by (rewrite LH; lia). f_equal. exact Hh. }
  assert (Hbounds : ((Z.of_nat xn <? 0) || (Z.of_N (size p) <=? Z.of_nat xn) || (Z.of_nat yn <? 0) || (Z.of_N (size p) <=? Z.of_nat yn))%Z = false) by lia.
  assert (Hin : forall m, In m (place_cell p xn yn) -> In m (all_moves p)).
  { intros m. apply all_moves_place_cell; try assumption. rewrite Ei. exact Hh. }
  clear Exn Eyn Hdm Hm Hdv.
  destruct (Z.ltb_spec (move p) 2) as [Hop|Hop].
  - (* opening: the flat placement of the opponent's stone *)
    specialize (OS Hop).
    destruct (place_flat_ok p _ _ i Hbounds Hsq Hemp Hidx) as [q Hq].
    { replace (move p <? 2)%Z with true by lia. destruct (to_move_white p); exact OS. }
    eexists _, q. split; [|exact Hq]. apply Hin. left. reflexivity.
  - destruct (N.eq_dec (if to_move_white p then whiteStones p else blackStones p) 0) as [Z0|NZ].
    + (* the mover has run out of stones: the capstone *)
      assert (Hcap : 0 < (if to_move_white p then whiteCaps p else blackCaps p)).
      { unfold u8 in E1, E2. destruct (to_move_white p); rewrite Z0 in *; lia. }
      destruct (place_cap_ok p _ _ i Hbounds Hsq Hemp Hidx Hop Hcap) as [q Hq].
      eexists _, q. split; [|exact Hq]. apply Hin. unfold place_cell. right.
      replace (2 <=? move p)%Z with true by lia. right.
      replace (if to_move_white p then 0 <? whiteCaps p else 0 <? blackCaps p) with true by (destruct (to_move_white p); lia).
      left. reflexivity.
    + destruct (place_flat_ok p _ _ i Hbounds Hsq Hemp Hidx) as [q Hq].
      { replace (move p <? 2)%Z with false by lia. lia. }
      eexists _, q. split; [|exact Hq]. apply Hin. left. reflexivity.
Qed.
Print Assumptions live_has_legal_move.
