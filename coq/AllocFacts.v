(* C09 proofs, part 1: arrays, slice headers, Go's append, analyze() on one object.
   `frame arrs arrs' a lim`: the heap arrs' extends arrs, every old array keeps its length, every old array other
   than `a` is unchanged and the first `lim` cells of `a` are unchanged.  append on a slice that ends at cell `lim`
   of array `a` is such a step; so is analyze() on an object, with a = the array of its WhiteGroups header. *)
From Coq Require Import NArith ZArith List Bool Lia Arith.
Require Import Board Move GameOver Alloc.
Import ListNotations.

(* ---- set_nth ---- *)
Lemma set_nth_length {A} (l : list A) i v : length (set_nth l i v) = length l.
Proof. revert i; induction l as [|a l IH]; intros [|i]; cbn; auto. Qed.

Lemma nth_error_set_nth {A} (l : list A) i v j : (i < length l)%nat ->
  nth_error (set_nth l i v) j = if Nat.eqb j i then Some v else nth_error l j.
Proof.
  revert i j. induction l as [|a l IH]; intros i j Hi; cbn in Hi; [lia|].
  destruct i as [|i], j as [|j]; cbn; auto. apply IH. lia.
Qed.

Lemma nth_set_nth {A} (l : list A) i v j d : (i < length l)%nat ->
  nth j (set_nth l i v) d = if Nat.eqb j i then v else nth j l d.
Proof.
  revert i j. induction l as [|a l IH]; intros i j Hi; cbn in Hi; [lia|].
  destruct i as [|i], j as [|j]; cbn; auto. apply IH. lia.
Qed.

Lemma firstn_set_nth {A} (l : list A) i v n : (n <= i)%nat -> firstn n (set_nth l i v) = firstn n l.
Proof.
  revert i n. induction l as [|a l IH]; intros [|i] [|n] H; cbn; auto; try lia. f_equal. apply IH. lia.
Qed.

Lemma skipn_set_nth {A} (l : list A) off k v : skipn off (set_nth l (off + k) v) = set_nth (skipn off l) k v.
Proof.
  revert l. induction off as [|off IH]; intros l; cbn; [reflexivity|].
  destruct l as [|a l]; cbn; [destruct k; reflexivity|]. apply IH.
Qed.

Lemma firstn_S_set_nth {A} (l : list A) k v : (k < length l)%nat -> firstn (S k) (set_nth l k v) = firstn k l ++ [v].
Proof.
  revert l. induction k as [|k IH]; intros [|a l] H; cbn in *; try lia; auto.
  f_equal. apply IH. lia.
Qed.

(* ---- slices ---- *)
Definition valid (arrs : list (list N)) (r : sref) : Prop :=
  (r_arr r < length arrs)%nat /\ (r_off r + r_len r <= length (get_arr arrs (r_arr r)))%nat.

Lemma read_ref_length arrs r : valid arrs r -> length (read_ref arrs r) = r_len r.
Proof.
  intros [_ H]. unfold read_ref. rewrite firstn_length, skipn_length. lia.
Qed.

Lemma firstn_skipn_agree {A} (l l' : list A) lim off len : firstn lim l = firstn lim l' -> (off + len <= lim)%nat ->
  firstn len (skipn off l) = firstn len (skipn off l').
Proof.
  intros H Hle.
  rewrite !firstn_skipn_comm.
  assert (E : forall x : list A, firstn (off + len) x = firstn (off + len) (firstn lim x)).
  { intro x. rewrite firstn_firstn. f_equal. lia. }
  rewrite (E l), (E l'), H. reflexivity.
Qed.

Definition frame (arrs arrs' : list (list N)) (a lim : nat) : Prop :=
  (length arrs <= length arrs')%nat /\
  (forall x, (x < length arrs)%nat -> length (get_arr arrs' x) = length (get_arr arrs x)) /\
  (forall x, (x < length arrs)%nat -> x <> a -> get_arr arrs' x = get_arr arrs x) /\
  ((a < length arrs)%nat -> firstn lim (get_arr arrs' a) = firstn lim (get_arr arrs a)).

Lemma frame_refl arrs a lim : frame arrs arrs a lim.
Proof. repeat split; auto. Qed.

Lemma frame_comp arrs arrs1 arrs2 a lim a1 lim1 :
  frame arrs arrs1 a lim -> frame arrs1 arrs2 a1 lim1 ->
  (a1 = a /\ (lim <= lim1)%nat) \/ (length arrs <= a1)%nat ->
  frame arrs arrs2 a lim.
Proof.
  intros (L1 & N1 & O1 & P1) (L2 & N2 & O2 & P2) Hc. repeat split.
  - lia.
  - intros x Hx. rewrite N2 by lia. apply N1; assumption.
  - intros x Hx Hne. destruct (Nat.eq_dec x a1) as [->|Hn1].
    + destruct Hc as [[-> _]|Hc]; [contradiction|lia].
    + rewrite O2 by (auto; lia). apply O1; assumption.
  - intros Ha. destruct Hc as [[-> Hl]|Hc].
    + assert (E : forall x : list N, firstn lim x = firstn lim (firstn lim1 x)).
      { intro x. rewrite firstn_firstn. f_equal. lia. }
      rewrite E, P2 by lia. rewrite <- E. apply P1; assumption.
    + rewrite O2 by lia. apply P1; assumption.
Qed.

Lemma frame_weaken arrs arrs' a lim lim' : frame arrs arrs' a lim -> (lim' <= lim)%nat -> frame arrs arrs' a lim'.
Proof.
  intros (L & Nn & O & P) Hl. repeat split; auto. intros Ha.
  assert (E : forall x : list N, firstn lim' x = firstn lim' (firstn lim x)).
  { intro x. rewrite firstn_firstn. f_equal. lia. }
  rewrite E, P by assumption. rewrite <- E. reflexivity.
Qed.

Lemma frame_valid arrs arrs' a lim r : frame arrs arrs' a lim -> valid arrs r -> valid arrs' r.
Proof. intros (L & Nn & _) [H1 H2]. split; [lia|]. rewrite Nn by assumption. assumption. Qed.

Lemma frame_read arrs arrs' a lim r : frame arrs arrs' a lim -> valid arrs r ->
  r_arr r <> a \/ (r_off r + r_len r <= lim)%nat -> read_ref arrs' r = read_ref arrs r.
Proof.
  intros (L & Nn & O & P) [H1 H2] Hc. unfold read_ref.
  destruct (Nat.eq_dec (r_arr r) a) as [E|Hne].
  - destruct Hc as [Hc|Hc]; [contradiction|]. rewrite E in *.
    apply firstn_skipn_agree with (lim := lim); auto.
  - rewrite O by assumption. reflexivity.
Qed.

Lemma get_arr_app1 arrs x y : (x < length arrs)%nat -> get_arr (arrs ++ [y]) x = get_arr arrs x.
Proof. intros. unfold get_arr. apply app_nth1. assumption. Qed.
Lemma get_arr_app2 arrs y : get_arr (arrs ++ [y]) (length arrs) = y.
Proof. unfold get_arr. rewrite app_nth2, Nat.sub_diag by lia. reflexivity. Qed.

Lemma frame_snoc arrs y a lim : frame arrs (arrs ++ [y]) a lim.
Proof.
  repeat split.
  - rewrite app_length. lia.
  - intros. rewrite get_arr_app1; auto.
  - intros. apply get_arr_app1; auto.
  - intros. rewrite get_arr_app1; auto.
Qed.

Lemma get_arr_set_nth arrs a y x : (a < length arrs)%nat ->
  get_arr (set_nth arrs a y) x = if Nat.eqb x a then y else get_arr arrs x.
Proof. intros. unfold get_arr. apply nth_set_nth. assumption. Qed.

(* ---- append ---- *)
Definition stays_or_fresh (arrs : list (list N)) (r r' : sref) : Prop :=
  (r_arr r' = r_arr r /\ r_off r' = r_off r) \/ (length arrs <= r_arr r')%nat.

Lemma append1_spec arrs r v : valid arrs r ->
  let '(arrs', r') := append1 arrs r v in
  valid arrs' r' /\ read_ref arrs' r' = read_ref arrs r ++ [v] /\
  frame arrs arrs' (r_arr r) (r_off r + r_len r) /\ stays_or_fresh arrs r r' /\ r_len r' = S (r_len r).
Proof.
  intros [Ha Hb]. unfold append1.
  destruct (r_off r + r_len r <? length (get_arr arrs (r_arr r)))%nat eqn:E.
  - apply Nat.ltb_lt in E. set (arr := get_arr arrs (r_arr r)) in *.
    repeat split; cbn [r_arr r_off r_len].
    + rewrite set_nth_length. assumption.
    + rewrite get_arr_set_nth, Nat.eqb_refl, set_nth_length by assumption. lia.
    + unfold read_ref; cbn [r_arr r_off r_len].
      rewrite get_arr_set_nth, Nat.eqb_refl by assumption. fold arr.
      rewrite skipn_set_nth. apply firstn_S_set_nth. rewrite skipn_length. lia.
    + rewrite set_nth_length. lia.
    + intros x Hx. rewrite get_arr_set_nth by assumption.
      destruct (Nat.eqb_spec x (r_arr r)) as [->|]; [apply set_nth_length|reflexivity].
    + intros x Hx Hne. rewrite get_arr_set_nth by assumption.
      destruct (Nat.eqb_spec x (r_arr r)); [contradiction|reflexivity].
    + intros _. rewrite get_arr_set_nth, Nat.eqb_refl by assumption. apply firstn_set_nth. lia.
    + left. split; reflexivity.
  - apply Nat.ltb_ge in E.
    assert (Hl : length (read_ref arrs r) = r_len r) by (apply read_ref_length; split; assumption).
    repeat split; cbn [r_arr r_off r_len].
    + rewrite app_length. cbn. lia.
    + rewrite get_arr_app2. rewrite app_length. cbn. lia.
    + unfold read_ref at 1; cbn [r_arr r_off r_len]. rewrite get_arr_app2. cbn [skipn].
      rewrite firstn_app, Hl.
      replace (S (r_len r) - r_len r)%nat with 1%nat by lia.
      rewrite firstn_all2 by lia. reflexivity.
    + rewrite app_length. lia.
    + intros. rewrite get_arr_app1; auto.
    + intros. apply get_arr_app1; auto.
    + intros. rewrite get_arr_app1; auto.
    + right. cbn. lia.
Qed.

Lemma append_all_spec vs : forall arrs r, valid arrs r ->
  let '(arrs', r') := append_all arrs r vs in
  valid arrs' r' /\ read_ref arrs' r' = read_ref arrs r ++ vs /\
  frame arrs arrs' (r_arr r) (r_off r + r_len r) /\ stays_or_fresh arrs r r' /\ r_len r' = (r_len r + length vs)%nat.
Proof.
  induction vs as [|v vs IH]; intros arrs r Hv; cbn [append_all].
  - split; [exact Hv|]. split; [rewrite app_nil_r; reflexivity|]. split; [apply frame_refl|].
    split; [left; split; reflexivity|cbn; lia].
  - pose proof (append1_spec arrs r v Hv) as H1.
    destruct (append1 arrs r v) as [arrs1 r1].
    destruct H1 as (V1 & R1 & F1 & S1 & L1).
    specialize (IH arrs1 r1 V1). destruct (append_all arrs1 r1 vs) as [arrs2 r2].
    destruct IH as (V2 & R2 & F2 & S2 & L2).
    assert (Hlen : (length arrs <= length arrs1)%nat) by apply F1.
    split; [exact V2|]. split; [|split; [|split]].
    + rewrite R2, R1, <- app_assoc. reflexivity.
    + eapply frame_comp; [exact F1|exact F2|].
      destruct S1 as [[Ea Eo]|Hf]; [left; split; [assumption|lia]|right; assumption].
    + destruct S2 as [[Ea Eo]|Hf].
      * destruct S1 as [[Ea1 Eo1]|Hf1]; [left; split; congruence|right; lia].
      * right. lia.
    + cbn [length]. lia.
Qed.

(* ---- analyze() on one object ---- *)
Lemma nth_error_set_obj objs i o j : (i < length objs)%nat ->
  nth_error (set_obj objs i o) j = if Nat.eqb j i then Some o else nth_error objs j.
Proof. apply nth_error_set_nth. Qed.
Lemma set_obj_length objs i o : length (set_obj objs i o) = length objs.
Proof. apply set_nth_length. Qed.

Lemma analyze_obj_spec st i o : nth_error (s_objs st) i = Some o -> valid (s_arrs st) (o_wg o) ->
  exists w b,
    s_objs (analyze_obj st i) = set_obj (s_objs st) i {| o_pos := o_pos o; o_own := o_own o; o_wg := w; o_bg := b |} /\
    frame (s_arrs st) (s_arrs (analyze_obj st i)) (r_arr (o_wg o)) (r_off (o_wg o)) /\
    valid (s_arrs (analyze_obj st i)) w /\ valid (s_arrs (analyze_obj st i)) b /\
    read_ref (s_arrs (analyze_obj st i)) w = fst (analyze_total (o_pos o)) /\
    read_ref (s_arrs (analyze_obj st i)) b = snd (analyze_total (o_pos o)) /\
    (r_arr w = r_arr (o_wg o) \/ (length (s_arrs st) <= r_arr w)%nat) /\
    (r_arr b = r_arr w \/ ((length (s_arrs st) <= r_arr b)%nat /\ (r_arr w < r_arr b)%nat)).
Proof.
  intros Ei [Va Vb]. unfold analyze_obj. rewrite Ei.
  destruct (analyze_total (o_pos o)) as [wgs bgs]. cbn [fst snd].
  set (w0 := {| r_arr := r_arr (o_wg o); r_off := r_off (o_wg o); r_len := 0 |}).
  assert (Vw0 : valid (s_arrs st) w0) by (split; cbn; [assumption|lia]).
  pose proof (append_all_spec wgs (s_arrs st) w0 Vw0) as H1.
  destruct (append_all (s_arrs st) w0 wgs) as [arrs1 w].
  destruct H1 as (V1 & R1 & F1 & S1 & L1). unfold stays_or_fresh in S1. subst w0. cbn [r_arr r_off r_len] in *.
  set (b0 := {| r_arr := r_arr w; r_off := (r_off w + r_len w)%nat; r_len := 0 |}).
  assert (Vb0 : valid arrs1 b0) by (destruct V1; split; cbn; [assumption|lia]).
  pose proof (append_all_spec bgs arrs1 b0 Vb0) as H2.
  destruct (append_all arrs1 b0 bgs) as [arrs2 b].
  destruct H2 as (V2 & R2 & F2 & S2 & L2). unfold stays_or_fresh in S2. subst b0. cbn [r_arr r_off r_len] in *.
  exists w, b. cbn [s_objs s_arrs].
  assert (Hlen : (length (s_arrs st) <= length arrs1)%nat) by apply F1.
  split; [reflexivity|]. split; [|split; [|split; [exact V2|split; [|split; [|split]]]]].
  - rewrite Nat.add_0_r in F1, F2.
    eapply frame_comp; [exact F1|exact F2|].
    destruct S1 as [[Ea Eo]|Hf]; [left; split; [assumption|lia]|right; assumption].
  - exact (frame_valid _ _ _ _ w F2 V1).
  - rewrite (frame_read _ _ _ _ w F2 V1) by (right; lia). rewrite R1. reflexivity.
  - rewrite R2. reflexivity.
  - destruct S1 as [[Ea _]|Hf]; [left; assumption|right; assumption].
  - destruct S2 as [[Ea _]|Hf]; [left; assumption|right]. destruct V1. split; lia.
Qed.
