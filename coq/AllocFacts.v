(* C09 core: every object's WhiteGroups header points into its own array, always; after the repaired Clone, so does every
   returned handle's BlackGroups header *)
From Coq Require Import NArith ZArith List Bool Lia.
Require Import Board Move GameOver Tps Alloc.
Import ListNotations.

Section F.
Variable basis : list N.

Lemma nth_error_set_obj st i o j : (i < length st)%nat ->
  nth_error (set_obj st i o) j = if Nat.eqb j i then Some o else nth_error st j.
Proof.
  revert i j. induction st as [|a st IH]; intros i j Hi; cbn in Hi; [lia|].
  destruct i as [|i], j as [|j]; cbn; auto. apply IH. lia.
Qed.

Lemma set_obj_length st i o : length (set_obj st i o) = length st.
Proof. revert i; induction st as [|a st IH]; intros [|i]; cbn; auto. Qed.

Definition wg_own (st : store) : Prop := forall i o, nth_error st i = Some o -> r_owner (o_wg o) = i.

Lemma analyze_obj_wg st i : wg_own st -> wg_own (analyze_obj st i) /\ length (analyze_obj st i) = length st.
Proof.
  intros H. unfold analyze_obj. destruct (nth_error st i) as [o|] eqn:Ei; [|split; auto].
  destruct (GameOver.analyze (o_pos o)) as [[wg bg]|]; [|split; auto].
  assert (Hown := H i o Ei). rewrite Hown. rewrite Ei.
  assert (Hi : (i < length st)%nat) by (apply nth_error_Some; congruence).
  rewrite nth_error_set_obj, Nat.eqb_refl by assumption.
  split; [|now rewrite !set_obj_length].
  intros j oj Hj. rewrite nth_error_set_obj in Hj by (rewrite set_obj_length; assumption).
  destruct (Nat.eqb_spec j i) as [->|Hn].
  - injection Hj as <-. reflexivity.
  - rewrite nth_error_set_obj in Hj by assumption. destruct (Nat.eqb_spec j i); [contradiction|]. now apply H.
Qed.

Lemma analyze_obj_both st i o : wg_own st -> nth_error st i = Some o -> GameOver.analyze (o_pos o) <> None ->
  exists o', nth_error (analyze_obj st i) i = Some o' /\ r_owner (o_wg o') = i /\ r_owner (o_bg o') = i.
Proof.
  intros H Ei Ha. unfold analyze_obj. rewrite Ei.
  destruct (GameOver.analyze (o_pos o)) as [[wg bg]|]; [|congruence].
  assert (Hown := H i o Ei). rewrite Hown, Ei.
  assert (Hi : (i < length st)%nat) by (apply nth_error_Some; congruence).
  rewrite nth_error_set_obj, Nat.eqb_refl by assumption.
  eexists. split; [rewrite nth_error_set_obj, Nat.eqb_refl by (rewrite set_obj_length; assumption); reflexivity|].
  split; reflexivity.
Qed.

Lemma alloc_obj_wg st tpl : wg_own st -> wg_own (fst (alloc_obj st tpl)) /\ snd (alloc_obj st tpl) = length st
  /\ length (fst (alloc_obj st tpl)) = S (length st).
Proof.
  intros H. unfold alloc_obj; cbn [fst snd]. split; [|split; [reflexivity|rewrite app_length; cbn; lia]].
  intros i o Hi. destruct (Nat.lt_ge_cases i (length st)).
  - rewrite nth_error_app1 in Hi by assumption. now apply H.
  - rewrite nth_error_app2 in Hi by assumption. destruct (i - length st)%nat eqn:E; cbn in Hi; [|destruct n; discriminate].
    injection Hi as <-. cbn. lia.
Qed.

(* the header invariant for WhiteGroups holds in every reachable store, for the pinned and the repaired Clone alike *)
Theorem step_wg_own fixed st op : wg_own st -> wg_own (fst (step basis fixed st op)).
Proof.
  intros H. destruct op as [sz|h m|h m buf|h]; cbn [step].
  - destruct (alloc_obj_wg st (new_obj basis sz) H) as (A & B & C).
    destruct (alloc_obj st (new_obj basis sz)) as [st1 id] eqn:E. cbn [fst snd] in *. subst id.
    destruct (nth_error st1 (length st)) as [ob|] eqn:En; cbn [fst]; [|exact A].
    intros i o Hi. rewrite nth_error_set_obj in Hi by lia.
    destruct (Nat.eqb_spec i (length st)) as [->|]; [injection Hi as <-; cbn; now apply A|now apply A].
  - destruct (nth_error st h) as [src|]; cbn [fst]; [|exact H].
    destruct (alloc_obj_wg st src H) as (A & B & C).
    destruct (alloc_obj st src) as [st1 id] eqn:E. cbn [fst snd] in *. subst id.
    destruct (amv basis (o_pos src) m); cbn [fst]; try exact A.
    destruct (nth_error st1 (length st)) as [ob|] eqn:En; cbn [fst]; [|exact A].
    apply analyze_obj_wg. intros i o Hi. rewrite nth_error_set_obj in Hi by lia.
    destruct (Nat.eqb_spec i (length st)) as [->|]; [injection Hi as <-; cbn; now apply A|now apply A].
  - destruct (nth_error st h) as [src|]; [|exact H].
    destruct (nth_error st buf) as [b|] eqn:Eb; [|exact H].
    assert (Hb : (buf < length st)%nat) by (apply nth_error_Some; congruence).
    assert (H1 : wg_own (set_obj st buf {| o_pos := o_pos src; o_garr := o_garr b;
                 o_wg := {| r_owner := r_owner (o_wg b); r_off := r_off (o_wg b); r_len := 0 |}; o_bg := o_bg src |})).
    { intros i o Hi. rewrite nth_error_set_obj in Hi by assumption.
      destruct (Nat.eqb_spec i buf) as [->|]; [injection Hi as <-; cbn; now apply H|now apply H]. }
    destruct (amv basis (o_pos src) m); cbn [fst]; try exact H1.
    apply analyze_obj_wg. intros i o Hi. rewrite nth_error_set_obj in Hi by (rewrite set_obj_length; assumption).
    destruct (Nat.eqb_spec i buf) as [->|]; [injection Hi as <-; cbn; now apply H|now apply H1].
  - destruct (nth_error st h) as [src|]; cbn [fst]; [|exact H].
    destruct (alloc_obj_wg st src H) as (A & B & C).
    destruct (alloc_obj st src) as [st1 id] eqn:E. cbn [fst snd] in *.
    destruct fixed; cbn [fst]; [now apply analyze_obj_wg|exact A].
Qed.
End F.
Print Assumptions step_wg_own.
