(* C09 proofs: see AllocFacts1.v ... (being rewritten for the array-heap model) *)
From Coq Require Import NArith ZArith List Bool Lia.
Require Import Board Move GameOver Alloc.
