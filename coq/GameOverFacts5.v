(* C02, part 5: a boolean checker for the invariant, and concrete positions (non-vacuity of game_over_correct). *)
From Coq Require Import NArith ZArith Arith List Bool Lia ZifyN ZifyBool ZifyNat.
Require Import Board Stack Rules Move GameOver Refine RefinePlace RefinePlace2 RefinePlace3
               Slide1 Slide2 Slide3 Slide4 Slide5 Slide6 GameOverFacts1 GameOverFacts2 GameOverFacts3 GameOverFacts4.
Import ListNotations.

(* ---- inv is decidable: a checker ---- *)
Definition sq_okb (b : bstate) (i : N) : bool :=
  let h := nthN (bhs b) i in
  (h <=? 64)%N &&
  Bool.eqb (h =? 0)%N (negb (has (bw b) i) && negb (has (bb b) i)) &&
  negb (has (bw b) i && has (bb b) i) &&
  (negb (h =? 0)%N || (negb (has (bs b) i) && negb (has (bc b) i))) &&
  negb (has (bs b) i && has (bc b) i).

Lemma sq_okb_ok b i : sq_okb b i = true -> sq_ok b i.
Proof.
  unfold sq_okb. cbv zeta. intros H. repeat (apply andb_prop in H as [H ?]).
  apply eqb_prop in H3.
  constructor.
  - lia.
  - split.
    + intros E. rewrite E in H3. cbn in H3. symmetry in H3. apply andb_prop in H3. destruct H3 as [A B].
      apply negb_true_iff in A, B. auto.
    + intros [A B]. rewrite A, B in H3. cbn in H3. lia.
  - now apply negb_true_iff.
  - intros E. rewrite E in H1. cbn in H1. apply andb_prop in H1. destruct H1 as [A B]. apply negb_true_iff in A, B. auto.
  - now apply negb_true_iff.
Qed.

Definition invb (p : position) : bool :=
  let s := size p in let b := bview p in
  (3 <=? s)%N && (s <=? 8)%N &&
  (length (Height p) =? nsq s)%nat && (length (Stacks p) =? nsq s)%nat &&
  forallb (fun i => sq_okb b (N.of_nat i)) (seq 0 (nsq s)) &&
  (White p <? 2 ^ (s * s))%N && (Move.Black p <? 2 ^ (s * s))%N &&
  (whiteStones p + whiteCaps p <? 256)%N && (blackStones p + blackCaps p <? 256)%N.

Lemma invb_ok p : invb p = true -> inv p.
Proof.
  unfold invb. cbv zeta. intros H. repeat (apply andb_prop in H as [H ?]).
  rewrite forallb_forall in H4.
  constructor; try lia.
  - constructor; cbn [bview bhs bst]; try lia.
    intros i Hi. apply sq_okb_ok. rewrite <- (N2Nat.id i). apply H4. apply in_seq. unfold nsq. lia.
  - apply lt_below. lia.
  - apply lt_below. lia.
Qed.

(* ---- example 1: 5x5, a bending white road through a capstone, next to a black wall ----
     y=4  b b b b .
     y=3  . . . . .
     y=2  . w C w w        C = white capstone
     y=1  . w S . .        S = black standing stone
     y=0  w w . b .
          x=0 .. 4                                                             *)
Definition M t x y sl := {| mX := x; mY := y; mT := t; mS := sl |}.
Definition play (p : position) (ms : list rmove) : position :=
  fold_left (fun q m => match mv q m with Ok r => r | _ => q end) ms p.

Definition line1 : list rmove :=
  [M 2 0 4 0; M 2 0 0 0; M 2 1 0 0; M 2 1 4 0; M 2 1 1 0; M 2 2 4 0; M 2 1 2 0; M 2 3 4 0;
   M 4 2 2 0; M 3 2 1 0; M 2 3 2 0; M 2 3 0 0; M 2 4 2 0]%Z%N.
Definition ex1 : position := play (new 5 21 1) line1.
Definition path1 : list (Z * Z) := [(0, 0); (1, 0); (1, 1); (1, 2); (2, 2); (3, 2); (4, 2)]%Z.

Example ex1_inv : inv ex1.
Proof. apply invb_ok. vm_compute. reflexivity. Qed.

(* the position, read through the abstraction: 13 plies, the seven road squares, the wall *)
Example ex1_abs :
  ply (abs ex1) = 13%Z /\
  map (fun xy => stack_at (abs ex1) (fst xy) (snd xy)) path1 =
    [[(Rules.White, Flat)]; [(Rules.White, Flat)]; [(Rules.White, Flat)]; [(Rules.White, Flat)];
     [(Rules.White, Cap)]; [(Rules.White, Flat)]; [(Rules.White, Flat)]] /\
  stack_at (abs ex1) 2 1 = [(Rules.Black, Rules.Standing)].
Proof. vm_compute. repeat split; reflexivity. Qed.

(* the specification side, directly: the path is a road of the rules *)
Example ex1_road : Road (abs ex1) Rules.White.
Proof.
  exists path1. split; [discriminate|]. split; [cbn; unfold adjacent; cbn; tauto|]. split.
  - repeat (apply Forall_cons; [split; vm_compute; reflexivity|]). apply Forall_nil.
  - left. vm_compute. split; reflexivity.
Qed.

(* the engine side, by evaluation *)
Example ex1_code :
  game_over ex1 = Some (true, GWhite) /\
  win_details ex1 = Some {| wd_over := true; wd_road := true; wd_winner := GWhite; wd_wflats := 6; wd_bflats := 5 |}.
Proof. vm_compute. split; reflexivity. Qed.

(* and the theorem applied: the rules assign "White wins by road", with 6 and 5 flats on top *)
Example ex1_outcome :
  Outcome (abs ex1) (Win Rules.White true) /\ flat_count (abs ex1) Rules.White = 6%nat /\ flat_count (abs ex1) Rules.Black = 5%nat.
Proof.
  destruct ex1_code as [_ Ed].
  destruct (win_details_sound ex1 ex1_inv _ Ed) as (Ho & Hw & Hb & _). cbn [wd_wflats wd_bflats] in Hw, Hb.
  split; [exact Ho|]. split; lia.
Qed.

(* ---- example 2: 3x3 double road; the player who just moved wins ---- *)
Definition dbl (mvno : Z) : position :=
  {| size := 3; Move.black_wins_ties := false; whiteStones := 7; whiteCaps := 0; blackStones := 7; blackCaps := 0;
     move := mvno; White := 7; Move.Black := 56; Standing := 0; Caps := 0;
     Height := [1; 1; 1; 1; 1; 1; 0; 0; 0]%N; Stacks := repeat 0%N 9; hash := 0 |}.

Example dbl_inv : inv (dbl 9) /\ inv (dbl 10).
Proof. split; apply invb_ok; vm_compute; reflexivity. Qed.

Example dbl_code :
  game_over (dbl 9) = Some (true, GWhite) /\ game_over (dbl 10) = Some (true, GBlack).     (* after ply 9 White has just moved *)
Proof. vm_compute. split; reflexivity. Qed.

Example dbl_outcome :
  Road (abs (dbl 9)) Rules.White /\ Road (abs (dbl 9)) Rules.Black /\
  Outcome (abs (dbl 9)) (Win Rules.White true) /\ Outcome (abs (dbl 10)) (Win Rules.Black true).
Proof.
  destruct dbl_inv as [I9 I10].
  assert (E9 : win_details (dbl 9) = Some {| wd_over := true; wd_road := true; wd_winner := GWhite; wd_wflats := 3; wd_bflats := 3 |})
    by (vm_compute; reflexivity).
  assert (E10 : win_details (dbl 10) = Some {| wd_over := true; wd_road := true; wd_winner := GBlack; wd_wflats := 3; wd_bflats := 3 |})
    by (vm_compute; reflexivity).
  destruct (win_details_sound _ I9 _ E9) as (H9 & _). destruct (win_details_sound _ I10 _ E10) as (H10 & _).
  destruct (road_winner _ I9 _ E9 eq_refl) as (c & Ec & _ & Rc & _).
  assert (c = Rules.White) by (destruct c; [reflexivity|discriminate]). subst c.
  repeat split; try assumption.
  exists [(0, 1); (1, 1); (2, 1)]%Z. split; [discriminate|]. split; [cbn; unfold adjacent; cbn; tauto|]. split.
  - repeat (apply Forall_cons; [split; vm_compute; reflexivity|]). apply Forall_nil.
  - left. vm_compute. split; reflexivity.
Qed.

(* ---- example 3: 3x3 full board, no road: flats decide; a tie is a draw or Black's, by the tie-break setting ---- *)
(*   y=2  w b w
     y=1  b S b     S = white standing stone (4), counted for nobody
     y=0  w b w      -> 4 white flats, 4 black flats                                                 *)
Definition full (ties : bool) : position :=
  {| size := 3; Move.black_wins_ties := ties; whiteStones := 5; whiteCaps := 0; blackStones := 6; blackCaps := 0;
     move := 9; White := 1 + 4 + 16 + 64 + 256; Move.Black := 2 + 8 + 32 + 128; Standing := 16; Caps := 0;
     Height := repeat 1%N 9; Stacks := repeat 0%N 9; hash := 0 |}.

Example full_inv : inv (full false) /\ inv (full true).
Proof. split; apply invb_ok; vm_compute; reflexivity. Qed.

Example full_outcome :
  board_full (abs (full false)) = true /\
  Outcome (abs (full false)) Draw /\ Outcome (abs (full true)) (Win Rules.Black false) /\
  result_from_game {| wd_over := true; wd_road := false; wd_winner := GNone; wd_wflats := 4; wd_bflats := 4 |} = Ok RDraw.
Proof.
  destruct full_inv as [I1 I2].
  assert (E1 : win_details (full false) = Some {| wd_over := true; wd_road := false; wd_winner := GNone; wd_wflats := 4; wd_bflats := 4 |})
    by (vm_compute; reflexivity).
  assert (E2 : win_details (full true) = Some {| wd_over := true; wd_road := false; wd_winner := GBlack; wd_wflats := 4; wd_bflats := 4 |})
    by (vm_compute; reflexivity).
  destruct (win_details_sound _ I1 _ E1) as (H1 & _). destruct (win_details_sound _ I2 _ E2) as (H2 & _).
  split; [vm_compute; reflexivity|]. split; [exact H1|]. split; [exact H2|]. reflexivity.
Qed.

(* ---- example 4: the start position is undecided; and the reserve hypothesis of `inv` is exact ---- *)
Example start_undecided : inv (new 5 21 1) /\ Outcome (abs (new 5 21 1)) Undecided.
Proof.
  assert (I : inv (new 5 21 1)) by (apply invb_ok; vm_compute; reflexivity). split; [exact I|].
  assert (E : win_details (new 5 21 1) = Some {| wd_over := false; wd_road := false; wd_winner := GNone; wd_wflats := 0; wd_bflats := 0 |})
    by (vm_compute; reflexivity).
  now destruct (win_details_sound _ I _ E) as (H & _).
Qed.

(* Config{Size: 5, Pieces: 250, Capstones: 6}: every field fits its byte, yet the byte sum 250+6 wraps to 0 and the
   engine declares the empty start position finished (a draw), which the rules do not.  Outside `inv` (inv_wres). *)
Example reserves_wrap :
  game_over (new 5 250 6) = Some (true, GNone) /\
  board_full (abs (new 5 250 6)) || out_of_pieces (abs (new 5 250 6)) = false.
Proof. vm_compute. split; reflexivity. Qed.

(* stray bits outside the board (bits 9, 10, 11 on a 3x3 board) join squares (0,2) and (2,2), which are not adjacent, into one
   group touching the left and right edge masks (6 -> 9 -> 10 -> 11 -> 8 by +3, +1, +1, -3): the engine would report a road
   that the rules do not have.  Outside `inv` (inv_w), although board_ok holds: inv_w is needed. *)
Definition stray : position :=
  {| size := 3; Move.black_wins_ties := false; whiteStones := 8; whiteCaps := 0; blackStones := 10; blackCaps := 0;
     move := 4; White := 64 + 256 + 512 + 1024 + 2048; Move.Black := 0; Standing := 0; Caps := 0;
     Height := [0; 0; 0; 0; 0; 0; 1; 0; 1]%N; Stacks := repeat 0%N 9; hash := 0 |}.
Example stray_bit : board_ok 3 (bview stray) /\ game_over stray = Some (true, GWhite).
Proof.
  split; [|vm_compute; reflexivity].
  constructor; [reflexivity|reflexivity|].
  intros i Hi. apply sq_okb_ok.
  assert (H : forallb (fun i => sq_okb (bview stray) (N.of_nat i)) (seq 0 9) = true) by (vm_compute; reflexivity).
  rewrite forallb_forall in H. rewrite <- (N2Nat.id i). apply H. apply in_seq. lia.
Qed.

Example stray_no_road : ~ Road (abs stray) Rules.White.
Proof.
  assert (Hsq : forall xy, on_board (abs stray) (fst xy) (snd xy) = true /\ is_road_top Rules.White (stack_at (abs stray) (fst xy) (snd xy)) ->
                xy = (0, 2)%Z \/ xy = (2, 2)%Z).
  { intros [x y] [Ho Ht]. cbn [fst snd] in *. rewrite on_board_abs in Ho. change (Z.of_N (size stray)) with 3%Z in Ho.
    assert (Hx : (x = 0 \/ x = 1 \/ x = 2)%Z) by lia. assert (Hy : (y = 0 \/ y = 1 \/ y = 2)%Z) by lia.
    destruct Hx as [->|[->| ->]], Hy as [->|[->| ->]]; vm_compute in Ht; auto; contradiction. }
  intros (path & Hne & Hch & Hall & He).
  destruct path as [|a [|b t]]; [congruence| |].
  - inversion Hall as [|? ? Ha _]; subst. destruct (Hsq a Ha) as [-> | ->]; vm_compute in He; destruct He as [[? ?]|[? ?]]; discriminate.
  - inversion Hall as [|? ? Ha Hall']; subst. inversion Hall' as [|? ? Hb _]; subst. destruct Hch as [Hadj _].
    destruct (Hsq a Ha) as [-> | ->], (Hsq b Hb) as [-> | ->]; vm_compute in Hadj; discriminate.
Qed.
Print Assumptions ex1_outcome.
Print Assumptions stray_no_road.
