(* SearchInst.v: the engine model Search.v instantiated with the constants regenerated from /repo (hash basis, default weights),
   and the entry points the OCaml drivers of C05 / C16 call. *)
From Coq Require Import NArith ZArith List Bool.
Require Import Board Move GameOver Eval Search SearchC.
Require Import Generated.Consts.
Import ListNotations.
Open Scope Z_scope.

(* The thresholds transcribed in Search.v / Eval.v are the implementation's. *)
Lemma search_consts_current :
  gen_MaxEval = MaxEval /\ gen_MinEval = MinEval /\ gen_WinThreshold = WinThreshold /\ gen_WinBase = Eval.WinBase /\ gen_ForcedWin = Eval.ForcedWin.
Proof. repeat split; reflexivity. Qed.

(* ai.MakeEvaluator(size, nil): DefaultWeights[size]; a model panic (never observed) is mapped to 0 *)
Definition default_eval (p : position) : Z :=
  match Eval.evaluate (nth (N.to_nat (size p)) gen_DefaultWeights []) p with Ok v => v | _ => 0 end.

(* evk: 0 = default evaluator, 1 = EvaluateWinner *)
Definition mk_cfg (depth : Z) (nosort nonull noreduce multicut : bool) (evk : N) : config :=
  {| c_depth := depth; c_nosort := nosort; c_nonull := nonull; c_noreduce := noreduce; c_multicut := multicut;
     c_eval := if (evk =? 1)%N then evaluate_winner else default_eval |}.

Definition run_analyze (cfg : config) (k : Z) (s : sstate) (p : position) := analyze_cancel gen_basis cfg k s p.
Definition run_analyze_all (cfg : config) (s : sstate) (p : position) := analyze_all gen_basis cfg s p.
Definition run_analyze_pinned (cfg : config) (k : Z) (s : sstate) (p : position) := analyze_pinned gen_basis cfg k s p.
