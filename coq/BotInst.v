(* Instantiation of Bot.v with the rules engine model, the wire codec model (Playtak.v) and the
   dispatch on the text of a server line (the two switches of handleMove), for extraction.
   Model only. *)
From Coq Require Import NArith ZArith Bool Ascii.
From Coq Require Import String.
From Coq Require Import List.
Local Close Scope string_scope.
Require Import Board Move GameOver PtnMove Playtak Tps Bot Inst.
Require Import Generated.Consts.
Import ListNotations.
Local Open Scope N_scope.

Definition bs (s : String.string) : list N := map N_of_ascii (String.list_ascii_of_string s).

Definition to_rmove (m : PtnMove.move) : rmove :=
  {| Move.mX := PtnMove.mX m; Move.mY := PtnMove.mY m; Move.mT := PtnMove.mT m; Move.mS := PtnMove.mS m |}.
Definition of_rmove (m : rmove) : PtnMove.move :=
  {| PtnMove.mX := Move.mX m; PtnMove.mY := Move.mY m; PtnMove.mT := Move.mT m; PtnMove.mS := Move.mS m |}.

(* strings.Join(ws, " ") *)
Fixpoint join_sp (ws : list (list N)) : list N :=
  match ws with
  | [] => []
  | [w] => w
  | w :: r => w ++ N_of_ascii " "%char :: join_sp r
  end.

(* bits := strings.Split(line, " "); switch bits[0] {...}; switch bits[1] {...} *)
Definition classify (gamestr l : list N) : line rmove :=
  match Playtak.words l with
  | [] => LOther _
  | b0 :: rest =>
    (* case g.GameStr: / case "Tell": (no continue: falls out of the first switch); Shout, ShoutRoom, default: continue *)
    if bytes_eqb b0 gamestr || bytes_eqb b0 (bs "Tell"%string) then
      match rest with
      | [] => LBad _                                                          (* bits[1]: index out of range *)
      | b1 :: args =>
        if bytes_eqb b1 (bs "P"%string) || bytes_eqb b1 (bs "M"%string) then
          match Playtak.parse_server (join_sp rest) with
          | PtnMove.Ok m => LMove _ (to_rmove m)
          | _ => LBad _                                                       (* panic(err) *)
          end
        else if bytes_eqb b1 (bs "Abandoned."%string) then LAbandoned _
        else if bytes_eqb b1 (bs "Over"%string) then
          match args with [] => LBad _ | _ => LOver _ end                     (* g.Result = bits[2] *)
        else if bytes_eqb b1 (bs "Time"%string) then
          match args with _ :: _ :: _ => LTime _ | _ => LBad _ end            (* bits[2], bits[3]; Atoi errors ignored *)
        else if bytes_eqb b1 (bs "RequestUndo"%string) then LReqUndo _
        else if bytes_eqb b1 (bs "Undo"%string) then LUndo _
        else LOther _
      end
    else LOther _
  end.

Definition bot_apply (p : position) (m : rmove) : option position :=
  match mv_fixed p m with Move.Ok q => Some q | _ => None end.
Definition bot_over (p : position) : bool := match game_over p with Some (o, _) => o | None => false end.
(* tak.New(Config{Size}) *)
Definition bot_start (sz : N) : position :=
  from_squares gen_basis sz (repeat (repeat nil (N.to_nat sz)) (N.to_nat sz)) 0%Z.
(* g.Color: 0 = white, 1 = black, anything else = NoColor (ObserveGame) *)
Definition bot_turn (col : N) (p : position) : bool :=
  if col =? 0 then to_move_white p else if col =? 1 then negb (to_move_white p) else false.

Definition bot_init (sz col : N) : state position rmove :=
  init position rmove (bot_turn col) (bot_start sz).
Definition bot_step (sz col : N) (fixed accept : bool) (s : state position rmove) (e : event rmove) : state position rmove :=
  step position rmove bot_apply (bot_turn col) bot_over (bot_start sz) fixed accept s e.
(* playtak.FormatServer(move) *)
Definition bot_wire (m : rmove) : list N := Playtak.format_server (of_rmove m).
