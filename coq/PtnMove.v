From Coq Require Import NArith ZArith List Bool Lia Ascii.
Import ListNotations.
Open Scope N_scope.

(* bytes as N < 256; strings as list N *)
Definition byte := N.
Definition B (c : ascii) : N := N_of_ascii c. Local Open Scope char_scope. Local Open Scope N_scope.

Record move := { mX : Z; mY : Z; mT : N; mS : N }.     (* int8, int8, byte, uint32 *)
Definition PlaceFlat := 2. Definition PlaceStanding := 3. Definition PlaceCapstone := 4.
Definition SlideLeft := 5. Definition SlideRight := 6. Definition SlideUp := 7. Definition SlideDown := 8.

Inductive res (A : Type) := Ok (a : A) | Err | Panic.
Arguments Ok {A}. Arguments Err {A}. Arguments Panic {A}.

Fixpoint nibbles (fuel : nat) (s : N) : list N :=
  match fuel with O => [] | S f => if s =? 0 then [] else N.land s 15 :: nibbles f (N.shiftr s 4) end.
Definition mk_slides (ds : list N) : N := fold_right (fun d acc => N.land (N.lor (N.shiftl acc 4) d) (N.ones 32)) 0 ds.

Definition is_annot (b : N) : bool := (b =? B "!") || (b =? B "?") || (b =? B "*") || (b =? B "'").
Definition in_range (lo hi b : N) := (lo <=? b) && (b <=? hi).

(* the drop loop of ParseMove: returns (slides, remaining stack as Z) or error *)
Fixpoint parse_drops (s : list N) (stack : Z) (acc : list N) : option (list N * Z) :=
  match s with
  | [] => Some (rev acc, stack)
  | d :: rest =>
    if in_range (B "1") (B "8") d then parse_drops rest (stack - Z.of_N (d - B "0")) ((d - B "0") :: acc)
    else if is_annot d then Some (rev acc, stack)
    else None
  end.

Definition parse_move (s : list N) : res move :=
  if (length s <? 2)%nat then Err else
  match s with
  | c0 :: _ =>
    let '(ty, stack, rest) :=
      if c0 =? B "F" then (PlaceFlat, 0%Z, tl s)
      else if c0 =? B "S" then (PlaceStanding, 0%Z, tl s)
      else if c0 =? B "C" then (PlaceCapstone, 0%Z, tl s)
      else if in_range (B "1") (B "8") c0 then (0, Z.of_N (c0 - B "0"), tl s)
      else (PlaceFlat, 0%Z, s) in
    match rest with
    | cx :: cy :: rest2 =>
      if negb (in_range (B "a") (B "h") cx) then Err else
      if negb (in_range (B "1") (B "8") cy) then Err else
      let x := Z.of_N (cx - B "a") in let y := Z.of_N (cy - B "1") in
      match rest2 with
      | [] => if (stack =? 0)%Z then Ok {| mX := x; mY := y; mT := ty; mS := 0 |} else Err
      | d :: rest3 =>
        if is_annot d then (if (stack =? 0)%Z then Ok {| mX := x; mY := y; mT := ty; mS := 0 |} else Err) else
        let ty' := if d =? B "<" then Some SlideLeft else if d =? B ">" then Some SlideRight
                   else if d =? B "+" then Some SlideUp else if d =? B "-" then Some SlideDown else None in
        match ty' with
        | None => Err
        | Some t =>
          let stack := if (stack =? 0)%Z then 1%Z else stack in
          match parse_drops rest3 stack [] with
          | None => Err
          | Some (ds, st) =>
            if (st <? 0)%Z then Err else
            let ds := if (0 <? st)%Z then ds ++ [Z.to_N st] else ds in
            Ok {| mX := x; mY := y; mT := t; mS := mk_slides ds |}
          end
        end
      end
    | _ => Err
    end
  | [] => Err
  end.

Definition format_move (long : bool) (m : move) : list N :=
  let ds := nibbles 8 (mS m) in
  let stack := fold_right N.add 0 ds in
  let pre := if negb (mS m =? 0) && (long || negb (stack =? 1)) then [B "0" + stack] else [] in
  let k := if mT m =? PlaceFlat then (if long then [B "F"] else [])
           else if mT m =? PlaceCapstone then [B "C"] else if mT m =? PlaceStanding then [B "S"] else [] in
  let sqr := [B "a" + Z.to_N (mX m); B "1" + Z.to_N (mY m)] in
  let d := if mT m =? SlideLeft then [B "<"] else if mT m =? SlideRight then [B ">"]
           else if mT m =? SlideUp then [B "+"] else if mT m =? SlideDown then [B "-"] else [] in
  let drops := if negb (mS m =? 0) && (long || negb (length ds =? 1)%nat) then map (fun d => B "0" + d) ds else [] in
  pre ++ k ++ sqr ++ d ++ drops.

(* all compositions with sum <= h *)
Fixpoint comps (fuel : nat) (h : N) : list (list N) :=
  match fuel with
  | O => []
  | S f => flat_map (fun i => [i] :: map (cons i) (comps f (h - i))) (map N.of_nat (seq 1 (N.to_nat h)))
  end.

Definition all_moves_shape : list move :=
  flat_map (fun x => flat_map (fun y =>
    [ {| mX := x; mY := y; mT := PlaceFlat; mS := 0 |}; {| mX := x; mY := y; mT := PlaceStanding; mS := 0 |};
      {| mX := x; mY := y; mT := PlaceCapstone; mS := 0 |} ] ++
    flat_map (fun t => map (fun ds => {| mX := x; mY := y; mT := t; mS := mk_slides ds |}) (comps 9 8))
      [SlideLeft; SlideRight; SlideUp; SlideDown])
    [0;1;2;3;4;5;6;7]%Z) [0;1;2;3;4;5;6;7]%Z.

Definition move_eqb (a b : move) := (mX a =? mX b)%Z && (mY a =? mY b)%Z && (mT a =? mT b) && (mS a =? mS b).
Definition rt_ok (long : bool) (m : move) : bool :=
  match parse_move (format_move long m) with Ok m' => move_eqb m m' | _ => false end.


Definition coords := [0;1;2;3;4;5;6;7]%Z.
Definition moves_at (x y : Z) : list move :=
    [ {| mX := x; mY := y; mT := PlaceFlat; mS := 0 |}; {| mX := x; mY := y; mT := PlaceStanding; mS := 0 |};
      {| mX := x; mY := y; mT := PlaceCapstone; mS := 0 |} ] ++
    flat_map (fun t => map (fun ds => {| mX := x; mY := y; mT := t; mS := mk_slides ds |}) (comps 9 8))
      [SlideLeft; SlideRight; SlideUp; SlideDown].
Definition all_ok (long : bool) : bool :=
  forallb (fun x => forallb (fun y => forallb (rt_ok long) (moves_at x y)) coords) coords.
Time Eval vm_compute in length (moves_at 0 0).
Time Eval vm_compute in all_ok false.
Time Eval vm_compute in all_ok true.
Theorem short_rt : all_ok false = true.
Proof. vm_compute. reflexivity. Qed.
