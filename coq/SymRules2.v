(* C14, layer 2: the image of an abstract position and of a raw move under symmetry k (0..7, numbering of
   symmetry/canonical.go: id, flipX, flipY, diag1, diag2, rot180, rotCW, rotCCW), and
     rules_equivariant : rules_move (img k b) (tm k n m) = option_map (img k) (rules_move b m)
   for EVERY raw move value (illegal, off-board, bad type code: both sides None). *)
From Coq Require Import NArith ZArith Arith List Bool Lia ZifyN ZifyBool ZifyNat Permutation.
Require Import Rules Sym SymRules1.
Import ListNotations.
Close Scope Z_scope.

(* the image board: the stack at (sym k (x,y)) of the image is the stack at (x,y) of b; everything else unchanged *)
Definition img (k : nat) (b : apos) : apos :=
  {| n := n b; sq := permL k (n b) [] (sq b);
     wstones := wstones b; wcaps := wcaps b; bstones := bstones b; bcaps := bcaps b;
     ply := ply b; black_wins_ties := black_wins_ties b |}.

Definition well_shaped (b : apos) : Prop := 3 <= n b <= 8 /\ length (sq b) = n b * n b.

(* the action on directions (the linear part of sym k applied to the unit vector) *)
Definition tdir (k : nat) (d : dir) : dir :=
  match k with
  | 0 => d
  | 1 => match d with Left => Right | Right => Left | Up => Up | Down => Down end
  | 2 => match d with Left => Left | Right => Right | Up => Down | Down => Up end
  | 3 => match d with Left => Down | Right => Up | Up => Right | Down => Left end
  | 4 => match d with Left => Up | Right => Down | Up => Left | Down => Right end
  | 5 => match d with Left => Right | Right => Left | Up => Down | Down => Up end
  | 6 => match d with Left => Up | Right => Down | Up => Right | Down => Left end
  | _ => match d with Left => Down | Right => Up | Up => Left | Down => Right end
  end.

Definition dir_code (d : dir) : N := match d with Left => 5 | Right => 6 | Up => 7 | Down => 8 end.
Definition ttype (k : nat) (t : N) : N :=
  match t with
  | 5 => dir_code (tdir k Left) | 6 => dir_code (tdir k Right)
  | 7 => dir_code (tdir k Up) | 8 => dir_code (tdir k Down)
  | _ => t
  end%N.

(* the transformed raw move: coordinates mapped, slide direction (type codes 5..8) mapped, other type codes kept;
   the Slides word is kept for slide types and every type code >= 5, and is ZERO for type codes < 5
   (this is what symmetry.TransformMove does: `if !m.IsSlide() { out.Type = m.Type; return out }` leaves out.Slides = 0;
   the rules ignore the Slides word of a placement, so equivariance holds either way). *)
Definition tm (k : nat) (s : Z) (m : rawmove) : rawmove :=
  let xy := sym s k (mx m, my m) in
  {| mx := fst xy; my := snd xy; mtype := ttype k (mtype m);
     mslides := if (mtype m <? 5)%N then 0%N else mslides m |}.

Definition tam (k : nat) (s : Z) (a : amove) : amove :=
  match a with
  | Place kd x y => let xy := sym s k (x, y) in Place kd (fst xy) (snd xy)
  | Slide d x y drops => let xy := sym s k (x, y) in Slide (tdir k d) (fst xy) (snd xy) drops
  end.

Lemma decode_tm k s m : decode (tm k s m) = option_map (tam k s) (decode m).
Proof.
  unfold decode, tm. cbn [mtype mx my mslides].
  destruct (mtype m) as [|q]; [reflexivity|]. do 4 (try destruct q as [q|q|]); try reflexivity;
  cbn [ttype]; destruct k as [|[|[|[|[|[|[|k]]]]]]]; reflexivity.
Qed.

(* ---------- position-level reading and writing ---------- *)
Lemma on_board_onb p x y : on_board p x y = true <-> onb (n p) (x, y).
Proof. unfold on_board, onb. cbn [fst snd]. lia. Qed.

Lemma on_board_img k p x y : on_board (img k p) x y = on_board p x y.
Proof. reflexivity. Qed.

Lemma on_board_sym k p x y : k < 8 ->
  let xy := symb (n p) k (x, y) in on_board p (fst xy) (snd xy) = on_board p x y.
Proof.
  intros Hk xy. subst xy.
  destruct (on_board p x y) eqn:E.
  - apply on_board_onb in E. apply (symb_onb _ k _ Hk) in E. destruct (symb (n p) k (x, y)). now apply on_board_onb.
  - destruct (on_board p (fst _) (snd _)) eqn:E2; [|reflexivity].
    destruct (symb (n p) k (x, y)) as [a c] eqn:E3. cbn [fst snd] in E2. apply on_board_onb in E2.
    rewrite <- E3 in E2. apply symb_onb_iff in E2; [|assumption]. apply on_board_onb in E2. congruence.
Qed.

Lemma idx_zidx p x y : idx p x y = zidx (n p) (x, y).
Proof. reflexivity. Qed.

Lemma stack_at_img_sym k p x y : k < 8 -> size_ok (n p) -> on_board p x y = true ->
  let xy := symb (n p) k (x, y) in stack_at (img k p) (fst xy) (snd xy) = stack_at p x y.
Proof.
  intros Hk Hs Hon xy. subst xy. apply on_board_onb in Hon.
  unfold stack_at. rewrite !idx_zidx. cbn [img n sq]. rewrite <- surjective_pairing.
  now apply nth_permL.
Qed.

Lemma permL_upd_idx k p (board : list (list piece)) x y v : k < 8 -> size_ok (n p) -> length board = n p * n p -> on_board p x y = true ->
  let xy := symb (n p) k (x, y) in
  upd (permL k (n p) [] board) (idx (img k p) (fst xy) (snd xy)) v = permL k (n p) [] (upd board (idx p x y) v).
Proof.
  intros Hk Hs Hl Hon xy. subst xy. apply on_board_onb in Hon.
  rewrite !idx_zidx. cbn [img n]. rewrite <- surjective_pairing. symmetry. now apply permL_upd.
Qed.

(* ---------- placement ---------- *)
Lemma place_equiv k b kd x y : k < 8 -> well_shaped b ->
  let xy := symb (n b) k (x, y) in
  place (img k b) kd (fst xy) (snd xy) = option_map (img k) (place b kd x y).
Proof.
  intros Hk [Hs Hl] xy. unfold place.
  rewrite on_board_img. subst xy. rewrite (on_board_sym k b x y Hk).
  destruct (on_board b x y) eqn:Hon; cbn [negb]; [|reflexivity].
  rewrite (stack_at_img_sym k b x y Hk Hs Hon).
  destruct (stack_at b x y); [|reflexivity].
  unfold set_stack. cbn [sq img]. rewrite (permL_upd_idx k b (sq b) x y _ Hk Hs Hl Hon).
  change (ply (img k b)) with (ply b). change (to_move (img k b)) with (to_move b).
  destruct ((ply b <? 2)%Z && _); [reflexivity|].
  cbn [img n wstones wcaps bstones bcaps black_wins_ties].
  destruct kd; destruct (if (ply b <? 2)%Z then flip (to_move b) else to_move b);
    match goal with |- context [N.eqb ?r 0] => destruct (N.eqb r 0) end; reflexivity.
Qed.

(* ---------- slides ---------- *)
Lemma deal_cons p board d x y carry c rest :
  deal p board d x y carry (c :: rest) =
  let x' := (x + fst (delta d))%Z in let y' := (y + snd (delta d))%Z in
  if negb (on_board p x' y') then None else
  match land_on carry c (nth (idx p x' y') board []) with
  | None => None
  | Some s => deal p (upd board (idx p x' y') s) d x' y' (firstn (length carry - N.to_nat c) carry) rest
  end.
Proof. destruct d; reflexivity. Qed.

Lemma sym_delta s k d x y : k < 8 ->
  sym s k (x + fst (delta d), y + snd (delta d))%Z =
  (fst (sym s k (x, y)) + fst (delta (tdir k d)), snd (sym s k (x, y)) + snd (delta (tdir k d)))%Z.
Proof.
  intros Hk. do 8 (destruct k as [|k]; [destruct d; cbn; unfold f; f_equal; lia|]). lia.
Qed.

Lemma deal_equiv k p d : k < 8 -> size_ok (n p) ->
  forall drops board x y carry, length board = n p * n p ->
  let xy := symb (n p) k (x, y) in
  deal (img k p) (permL k (n p) [] board) (tdir k d) (fst xy) (snd xy) carry drops =
  option_map (permL k (n p) []) (deal p board d x y carry drops).
Proof.
  intros Hk Hs. induction drops as [|c rest IH]; intros board x y carry Hl xy.
  - cbn [deal]. destruct carry; reflexivity.
  - rewrite !deal_cons. cbv zeta. subst xy.
    assert (Ex := f_equal fst (sym_delta (Z.of_nat (n p)) k d x y Hk)). assert (Ey := f_equal snd (sym_delta (Z.of_nat (n p)) k d x y Hk)).
    cbn [fst snd] in Ex, Ey. change (sym (Z.of_nat (n p)) k) with (symb (n p) k) in Ex, Ey. rewrite <- Ex, <- Ey. clear Ex Ey.
    set (x' := (x + fst (delta d))%Z). set (y' := (y + snd (delta d))%Z).
    rewrite on_board_img. rewrite (on_board_sym k p x' y' Hk).
    destruct (on_board p x' y') eqn:Hon; cbn [negb option_map]; [|reflexivity].
    assert (E : nth (idx (img k p) (fst (symb (n p) k (x', y'))) (snd (symb (n p) k (x', y')))) (permL k (n p) [] board) [] =
                nth (idx p x' y') board []).
    { rewrite !idx_zidx. cbn [img n]. rewrite <- surjective_pairing. apply nth_permL; try assumption. now apply on_board_onb. }
    rewrite E. destruct (land_on carry c (nth (idx p x' y') board [])) as [st|]; [|reflexivity].
    rewrite (permL_upd_idx k p board x' y' st Hk Hs Hl Hon).
    apply IH. now rewrite upd_length.
Qed.

Lemma slide_equiv k b d x y drops : k < 8 -> well_shaped b ->
  let xy := symb (n b) k (x, y) in
  slide (img k b) (tdir k d) (fst xy) (snd xy) drops = option_map (img k) (slide b d x y drops).
Proof.
  intros Hk [Hs Hl] xy. unfold slide.
  change (ply (img k b)) with (ply b). destruct (ply b <? 2)%Z; [reflexivity|].
  rewrite on_board_img. subst xy. rewrite (on_board_sym k b x y Hk).
  destruct (on_board b x y) eqn:Hon; cbn [negb]; [|reflexivity].
  destruct (existsb (N.eqb 0) drops); [reflexivity|].
  rewrite (stack_at_img_sym k b x y Hk Hs Hon).
  change (n (img k b)) with (n b).
  destruct (_ || _ || _); [reflexivity|].
  destruct (stack_at b x y) as [|[c kd] st] eqn:Est; [reflexivity|].
  change (to_move (img k b)) with (to_move b).
  destruct (negb (colour_eqb c (to_move b))); [reflexivity|].
  unfold set_stack. cbn [sq img]. rewrite (permL_upd_idx k b (sq b) x y _ Hk Hs Hl Hon).
  pose proof (deal_equiv k b d Hk Hs drops) as De. cbv zeta in De. rewrite De by (now rewrite upd_length).
  destruct (deal b _ d x y _ drops); reflexivity.
Qed.

(* ---------- the theorem ---------- *)
Theorem rules_equivariant : forall k b m, k < 8 -> well_shaped b ->
  rules_move (img k b) (tm k (Z.of_nat (n b)) m) = option_map (img k) (rules_move b m).
Proof.
  intros k b m Hk Hw. unfold rules_move. rewrite decode_tm.
  destruct (decode m) as [[kd x y|d x y drops]|]; cbn [option_map tam]; [| |reflexivity].
  - apply (place_equiv k b kd x y Hk Hw).
  - apply (slide_equiv k b d x y drops Hk Hw).
Qed.
Print Assumptions rules_equivariant.

(* shape is preserved, and the images under k and inv k undo each other *)
Lemma img_well_shaped k b : well_shaped b -> well_shaped (img k b).
Proof. intros [Hs Hl]. split; [exact Hs|]. cbn [img n sq]. apply permL_length. Qed.

Lemma img_inv k b : k < 8 -> well_shaped b -> img (inv k) (img k b) = b.
Proof.
  intros Hk [Hs Hl]. unfold img. cbn [n sq wstones wcaps bstones bcaps ply black_wins_ties].
  rewrite permL_inv by assumption. destruct b; reflexivity.
Qed.

Lemma img_id b : well_shaped b -> img 0 b = b.
Proof.
  intros [Hs Hl]. unfold img.
  replace (permL 0 (n b) [] (sq b)) with (sq b); [destruct b; reflexivity|].
  apply (nth_ext _ _ [] []); [now rewrite permL_length|].
  intros i Hi. rewrite Hl in Hi. rewrite nth_permL_src by assumption.
  unfold src, symb. change (inv 0) with 0.
  replace (sym (Z.of_nat (n b)) 0 (cell (n b) i)) with (cell (n b) i) by (destruct (cell (n b) i); reflexivity).
  now rewrite zidx_cell.
Qed.
