(* C15, layer 9: canonical_class_invariant and canonical_idempotent for the code, by instantiating Canon7.v with C01's invariant pos_ok
   (preservation: Preserve*.v) and C08's completeness of the hash (Canon8.equal_complete: boards that show the same squares and side to
   move have the same Hash()). *)
From Coq Require Import NArith ZArith Arith List Bool Lia ZifyN ZifyBool ZifyNat.
Require Import Rules Sym SymRules1 SymRules2 SymRules3 SymRules4.
Require Import Board Stack Move GameOver Tps Symmetry CanonFacts Refine SymCode1 Canon1 Canon2 Canon2b Canon3 Canon4 Canon6 Canon7.
Require Import Alloc Preserve1 Preserve5 Preserve6 Reach1 Canon8.
Require Import Generated.Consts.
Import ListNotations.
Close Scope Z_scope. Close Scope N_scope.

Lemma pos_ok_hash p q : pos_ok p -> pos_ok q -> abs p = abs q -> hash_of p = hash_of q.
Proof.
  intros Hp Hq E.
  assert (Es : size p = size q) by (apply (f_equal Rules.n) in E; rewrite !abs_n in E; lia).
  assert (Em : move p = move q) by (apply (f_equal ply) in E; exact E).
  apply (equal_complete p q Hp Hq Es (f_equal sq E)). unfold same_side, to_move_white. now rewrite Em.
Qed.

Lemma bi_small_hash p q : bi_small p -> bi_small q -> abs p = abs q -> hash_of p = hash_of q.
Proof. intros [Hp _] [Hq _]. now apply pos_ok_hash. Qed.

Lemma bi_small_new sz : (3 <= sz <= 6)%N -> bi_small (Symmetry.new_pos gen_basis sz).
Proof.
  intros Hsz. assert (Hsz8 : (3 <= sz <= 8)%N) by lia.
  destruct (start_pos_ok sz Hsz8) as [A B]. split; [exact A|]. rewrite B. now apply start_total_small.
Qed.

Lemma sc_true_trace sz ms : sc_trace sz (fun _ => True) ms.
Proof. intros k st _ _ b _. exact I. Qed.

(* ---------- sizes 3..6: nothing assumed about the boards ---------- *)
Theorem canonical_class_invariant : forall sz, (3 <= sz <= 6)%N -> forall g ms cs, g < 8 ->
  Forall canon_input ms -> nocoll_trace sz ms -> canonical gen_basis sz ms = Ok cs ->
  canonical gen_basis sz (map (tmr g (N.to_nat sz)) ms) = Ok cs.
Proof.
  intros sz Hsz g ms cs Hg Hin Hnc H. assert (Hsz8 : (3 <= sz <= 8)%N) by lia.
  apply (canonical_class_invariant_gen sz Hsz8 bi_small (fun _ => True) bi_small_move (bi_small_new sz Hsz) bi_small_hash g ms cs Hg Hin Hnc
           (sc_true_trace sz ms) H).
Qed.
Print Assumptions canonical_class_invariant.

Theorem canonical_idempotent : forall sz, (3 <= sz <= 6)%N -> forall ms cs,
  Forall canon_input ms -> nocoll_trace sz ms -> canonical gen_basis sz ms = Ok cs ->
  canonical gen_basis sz cs = Ok cs.
Proof.
  intros sz Hsz ms cs Hin Hnc H. assert (Hsz8 : (3 <= sz <= 8)%N) by lia.
  apply (canonical_idempotent_gen sz Hsz8 bi_small (fun _ => True) bi_small_move (bi_small_new sz Hsz) bi_small_hash ms cs Hin Hnc
           (sc_true_trace sz ms) H).
Qed.
Print Assumptions canonical_idempotent.

(* ---------- sizes 3..8 with the exact limit ---------- *)
Theorem canonical_class_invariant64 : forall sz, (3 <= sz <= 8)%N -> forall g ms cs, g < 8 ->
  Forall canon_input ms -> nocoll_trace sz ms -> sc_trace sz heights64 ms -> canonical gen_basis sz ms = Ok cs ->
  canonical gen_basis sz (map (tmr g (N.to_nat sz)) ms) = Ok cs.
Proof.
  intros sz Hsz g ms cs Hg Hin Hnc Hsc H.
  apply (canonical_class_invariant_gen sz Hsz pos_ok heights64 pos_ok_move (proj1 (start_pos_ok sz Hsz)) pos_ok_hash g ms cs Hg Hin Hnc Hsc H).
Qed.
Print Assumptions canonical_class_invariant64.

Theorem canonical_idempotent64 : forall sz, (3 <= sz <= 8)%N -> forall ms cs,
  Forall canon_input ms -> nocoll_trace sz ms -> sc_trace sz heights64 ms -> canonical gen_basis sz ms = Ok cs ->
  canonical gen_basis sz cs = Ok cs.
Proof.
  intros sz Hsz ms cs Hin Hnc Hsc H.
  apply (canonical_idempotent_gen sz Hsz pos_ok heights64 pos_ok_move (proj1 (start_pos_ok sz Hsz)) pos_ok_hash ms cs Hin Hnc Hsc H).
Qed.
Print Assumptions canonical_idempotent64.
