(* SearchPv1.v: C04, whole-PV replay, for the engine model Search.v with the value-preserving options and no table (the setting of
   SearchNeg1.v; any sort setting, either variant of the code, a call cancelled at any point k or never): the line Analyze reports
   REPLAYS LEGALLY from p - every move of it is accepted by MovePreallocated in the position reached by the moves before it.
   The reason is the exactness theorem: along the principal variation every node's value lies strictly inside its window, so the line
   of such a node is "the move that last raised alpha" followed by the line of a child search whose value was again strictly inside
   its window - never the stale frame content that fail-low zero-window nodes and cut-offs return.  The induction of SearchNeg1.v is
   repeated for the lines only; the values come from SearchNeg1.srch_okx. *)
From Coq Require Import NArith ZArith List Bool Lia Permutation.
Require Import Board Move GameOver Eval Search NegamaxSpec SearchGen SearchExact CancelFacts SearchNeg1.
Import ListNotations.
Open Scope Z_scope.

(* the line replays: each move is accepted in the position reached so far *)
Fixpoint legal_line (basis : list N) (p : position) (ms : list rmove) : Prop :=
  match ms with
  | [] => True
  | m :: rest => match mvp basis p m with Ok q => legal_line basis q rest | _ => False end
  end.

Section PvIx.
Variable pinned : bool.
Variable basis : list N.
Variable cfg : config.
Variable k : Z.
Let eval := c_eval cfg.

Hypothesis Hnonull : c_nonull cfg = true.
Hypothesis Hnoreduce : c_noreduce cfg = true.
Hypothesis Hnomc : c_multicut cfg = false.

Variable Pos : nat -> position -> Prop.
Hypothesis Hclosed : forall d p q, Pos (S d) p -> is_over p = false -> In q (children basis p) -> Pos d q.
Hypothesis Hhint : forall d p m q, Pos (S d) p -> is_over p = false -> okm m -> try_move basis p m = Some q -> In q (children basis p).
Hypothesis Hlive : forall d p, Pos (S d) p -> is_over p = false -> children basis p <> [].

Notation nm := (nmx basis (c_eval cfg)).

(* pvSearch at depth d: when the flag was not seen and the value is strictly inside the window, the returned line replays *)
Definition line_okx (d : nat) (rec : rec_t) : Prop :=
  forall s p ply pv a b cut, SI s -> Pos d p -> okl pv -> a < b ->
    let r := rec false s p ply (Z.of_nat d) pv a b cut in
    cancelled k (fst r) = false -> a < nm d p < b -> legal_line basis p (fst (snd r)).

Section Node.
Variable d' : nat.
Variable rec : rec_t.
Hypothesis Hrec : rec_okx basis cfg k Pos d' rec.
Hypothesis Hline : line_okx d' rec.
Hypothesis Hmono : mono rec.
Variable p : position.
Hypothesis Hp : Pos (S d') p.
Hypothesis Hover : is_over p = false.

Let x (q : position) : Z := - nm d' q.
Let len := Z.of_nat (length (all_moves p)).

(* one child of pvSearch: its line replays from the child when the child's value is strictly inside (a, b) *)
Lemma pv_child_line s q ply best a b i : SI s -> In q (children basis p) -> okl best -> a < b ->
  let r := pv_child rec s q ply (Z.of_nat (S d')) best a b i in
  cancelled k (fst r) = false -> a < x q < b -> legal_line basis q (fst (snd r)).
Proof.
  intros HS Hq HB Hab. assert (Hpq : Pos d' q) by (apply (Hclosed d' p q Hp Hover Hq)).
  cbv zeta. unfold pv_child. replace (Z.of_nat (S d') - 1) with (Z.of_nat d') by lia.
  pose proof (fun s HS => Hline s q (ply + 1) (tl best) (- b) (- a) true HS Hpq (okl_tl _ HB) ltac:(lia)) as LPV.
  destruct (1 <? i).
  - pose proof (Hrec true s q (ply + 1) (tl best) (- a - 1) 0 true HS Hpq (okl_tl _ HB) ltac:(discriminate)) as R.
    destruct (rec true s q (ply + 1) (Z.of_nat d') (tl best) (- a - 1) 0 true) as [s1 [ms v]].
    cbn [fst snd] in R. destruct R as (HS1 & Hms & _ & ZS).
    destruct ((a <? - v) && (- v <? b)) eqn:EW.
    + specialize (LPV _ (SI_bump s1 (st_add 0 0 0 0 1 0 0 0 0 0 0) HS1)). cbv zeta in LPV.
      intros NC W. apply LPV; [exact NC|unfold x in W; lia].
    + cbn [fst snd]. intros NC W. exfalso. destruct (ZS NC) as (Z1 & Z2). unfold x in W.
      apply andb_false_iff in EW. destruct EW as [E|E]; apply Z.ltb_ge in E; lia.
  - specialize (LPV _ HS). cbv zeta in LPV. intros NC W. apply LPV; [exact NC|unfold x in W; lia].
Qed.

Lemma pv_loop_line ply a0 b : forall n s g i best a improved seen,
  SI s -> GI basis p seen g -> okl best -> len + 6 - g_i g < Z.of_nat n ->
  a0 <= a < b -> (a0 < a -> legal_line basis p best) ->
  let r := pv_loop pinned basis cfg k rec n ply (Z.of_nat (S d')) b s g i best a improved in
  let '(s', best', a', improved', aborted) := r in
  cancelled k s' = false -> a' < b -> a0 < a' -> legal_line basis p best'.
Proof.
  induction n; intros s g i best a improved seen HS G HB HF Hab HL.
  { cbn [pv_loop]. intros _ _ E. apply HL. exact E. }
  cbn [pv_loop].
  pose proof (gen_step pinned basis cfg Pos Hhint d' p Hp Hover (gfuel g) g seen s G HS (gfuel_ok _ _ _ _ G)) as ST.
  destruct (mg_next pinned basis cfg (gfuel g) s g) as [g' [[m q]|]]; cbn [step_ok] in ST.
  2:{ intros _ _ E. apply HL. exact E. }
  destruct ST as (Hm & HT & Hq & G' & HLT & _).
  pose proof (pv_child_ok basis cfg k Hnonull Hnoreduce Hnomc Pos Hclosed Hhint Hlive d' rec Hrec Hmono p Hp Hover
                (set_fm s ply m) q ply best a b (i + 1) (SI_set_fm _ _ _ HS) Hq HB ltac:(lia)) as R.
  pose proof (pv_child_line (set_fm s ply m) q ply best a b (i + 1) (SI_set_fm _ _ _ HS) Hq HB ltac:(lia)) as RL.
  cbv zeta in R, RL.
  destruct (pv_child rec (set_fm s ply m) q ply (Z.of_nat (S d')) best a b (i + 1)) as [s1 [ms v]].
  cbn [fst snd] in R, RL. destruct R as (HS1 & Hms & VS).
  destruct (a <? - v) eqn:EA.
  - apply Z.ltb_lt in EA.
    assert (HB' : okl (m :: ms)) by (constructor; assumption).
    assert (HS2 : SI (set_fpv s1 ply (set_prefix (znth (fpv s1) ply []) (m :: ms)))).
    { apply SI_set_fpv; [assumption|]. apply okl_set_prefix; [apply okl_frame; assumption|assumption]. }
    destruct (b <=? - v) eqn:EB.
    + apply Z.leb_le in EB. intros _ F. lia.
    + apply Z.leb_gt in EB.
      destruct (cancelled k (set_fpv s1 ply (set_prefix (znth (fpv s1) ply []) (m :: ms)))) eqn:EK.
      * intros NC. change (cancelled k (set_fpv s1 ply (set_prefix (znth (fpv s1) ply []) (m :: ms)))) with (cancelled k s1) in EK.
        change (cancelled k (set_fpv s1 ply (set_prefix (znth (fpv s1) ply []) (m :: ms)))) with (cancelled k s1) in NC. congruence.
      * change (cancelled k (set_fpv s1 ply (set_prefix (znth (fpv s1) ply []) (m :: ms)))) with (cancelled k s1) in EK.
        destruct (VS EK) as (V1 & V2 & V3). fold (x q) in V1, V2, V3.
        assert (W : a < x q < b) by lia.
        apply (IHn _ g' (i + 1) (m :: ms) (- v) true (q :: seen)); auto; [lia|lia|].
        intros _. cbn [legal_line]. rewrite (try_ok basis p m Hm) in HT. destruct (mvp basis p m) as [q'| |]; try discriminate HT.
        inversion HT; subst q'. apply RL; [exact EK|exact W].
  - apply Z.ltb_ge in EA. destruct (cancelled k s1) eqn:EK.
    + intros NC. congruence.
    + apply (IHn s1 g' (i + 1) best a improved (q :: seen)); auto; lia.
Qed.
End Node.

Lemma srch_step_line_0 rec : line_okx 0 (srch_step pinned basis cfg k rec).
Proof.
  intros s p ply pv a b cut HS Hp Hpv Hab. cbv zeta. unfold srch_step. cbn [Z.of_nat Z.leb Z.compare orb fst snd legal_line]. auto.
Qed.

Lemma srch_step_line_S d' rec : rec_okx basis cfg k Pos d' rec -> line_okx d' rec -> mono rec ->
  line_okx (S d') (srch_step pinned basis cfg k rec).
Proof.
  intros Hrec Hline Hmono s p ply pv a b cut HS Hp Hpv Hab. cbv zeta. unfold srch_step.
  replace (Z.of_nat (S d') <=? 0) with false by (symmetry; apply Z.leb_gt; lia). cbn [orb].
  destruct (is_over p) eqn:EO; [cbn [fst snd legal_line]; auto|].
  match goal with |- context [tt_probe basis ?s1 p ply ?dd a ?bb] =>
    assert (HS1 : SI s1) by (apply SI_bump; assumption); rewrite (tt_probe_none basis s1 p ply dd a bb (proj1 HS1)); set (sb := s1) in * end.
  unfold pv_node.
  set (best0 := match pv with [] => firstn 1 (znth (fpv sb) ply []) | _ :: _ => pv end).
  assert (HB0 : okl best0) by (subst best0; destruct pv; [apply Forall_firstn; apply okl_frame; assumption|assumption]).
  set (s2 := set_fpv sb ply (set_prefix (znth (fpv sb) ply []) best0)).
  assert (HS2 : SI s2) by (apply SI_set_fpv; [assumption|apply okl_set_prefix; [apply okl_frame; assumption|assumption]]).
  pose proof (pv_loop_ok pinned basis cfg k Hnonull Hnoreduce Hnomc Pos Hclosed Hhint Hlive d' rec Hrec Hmono p Hp EO ply a b
                (gfuel (new_gen sb None pv ply (Z.of_nat (S d')) p)) s2 (new_gen sb None pv ply (Z.of_nat (S d')) p) 0 best0 a false []
                HS2 (GI_new basis p sb pv ply _ Hpv) HB0 (gfuel_ok _ _ _ _ (GI_new basis p sb pv ply _ Hpv)) ltac:(lia) ltac:(intros q F; destruct F)
                ltac:(left; split; reflexivity)) as L.
  pose proof (pv_loop_line d' rec Hrec Hline Hmono p Hp EO ply a b
                (gfuel (new_gen sb None pv ply (Z.of_nat (S d')) p)) s2 (new_gen sb None pv ply (Z.of_nat (S d')) p) 0 best0 a false []
                HS2 (GI_new basis p sb pv ply _ Hpv) HB0 (gfuel_ok _ _ _ _ (GI_new basis p sb pv ply _ Hpv)) ltac:(lia) ltac:(intros F; lia)) as LL.
  cbv zeta in L, LL.
  destruct (pv_loop pinned basis cfg k rec (gfuel (new_gen sb None pv ply (Z.of_nat (S d')) p)) ply (Z.of_nat (S d')) b s2 (new_gen sb None pv ply (Z.of_nat (S d')) p) 0 best0 a false)
    as [[[[s3 best] a'] improved] ab].
  destruct L as (HS3 & HB3 & V). destruct ab; cbn [fst snd].
  - intros NC. destruct (V NC) as (F & _). discriminate F.
  - rewrite (pv_store_none k s3 p _ best a' b improved (proj1 HS3)). intros NC W.
    destruct (V NC) as (_ & L1 & L2).
    destruct L1 as (E & _); [lia|]. apply LL; [exact NC|lia|lia].
Qed.

Lemma srch_line : forall f d, (d < f)%nat -> line_okx d (srch pinned basis cfg k f).
Proof.
  induction f; intros d Hd; [lia|]. cbn [srch]. destruct d as [|d'].
  - apply srch_step_line_0.
  - apply srch_step_line_S; [apply (srch_okx pinned basis cfg k Hnonull Hnoreduce Hnomc Pos Hclosed Hhint Hlive); lia|apply IHf; lia|apply srch_mono].
Qed.

(* ---- Analyze ---- *)
Hypothesis Hbound : forall d p, Pos d p -> MinEval <= eval p <= MaxEval.

Lemma az_iter_line D p : (forall d, (1 <= d <= 16)%nat -> Z.of_nat d <= D -> Pos d p) -> forall n i s ms v acc d,
  SI s -> okl ms -> 1 <= i -> Z.of_nat n + i <= 17 -> legal_line basis p ms ->
  forall sk pv' v' d' acc' c', az_iter pinned basis cfg k D 0 p n i s ms v acc d = (sk, (pv', v', d', acc', c')) ->
  legal_line basis p pv'.
Proof.
  intros HP. induction n; intros i s ms v acc d HS Hms Hi Hn Hgood sk pv' v' d' acc' c' H; cbn [az_iter] in H.
  { inversion H; subst. assumption. }
  destruct (D <? i + 0) eqn:ED; [inversion H; subst; assumption|].
  rewrite Z.add_0_r in H, ED. apply Z.ltb_ge in ED.
  assert (Hp : Pos (Z.to_nat i) p) by (apply HP; lia).
  pose proof (srch_okx pinned basis cfg k Hnonull Hnoreduce Hnomc Pos Hclosed Hhint Hlive 40 (Z.to_nat i) ltac:(lia)
                false (reset_st s) p 0 ms (MinEval - 1) (MaxEval + 1) true
                (SI_reset_st s HS) Hp Hms ltac:(intros _; unfold MinEval, MaxEval; lia)) as R.
  pose proof (srch_line 40 (Z.to_nat i) ltac:(lia) (reset_st s) p 0 ms (MinEval - 1) (MaxEval + 1) true
                (SI_reset_st s HS) Hp Hms ltac:(unfold MinEval, MaxEval; lia)) as RL.
  cbv zeta in R, RL. rewrite (Z2Nat.id i ltac:(lia)) in R. rewrite (Z2Nat.id i ltac:(lia)) in RL.
  destruct (srch pinned basis cfg k 40 false (reset_st s) p 0 i ms (MinEval - 1) (MaxEval + 1) true) as [s1 [next nv]].
  cbn [fst snd] in R, RL. destruct R as (HS1 & Hnext & HOV & PVS).
  destruct (cancelled k s1) eqn:EK; [inversion H; subst; assumption|].
  destruct next as [|m rest]; [inversion H; subst; assumption|].
  pose proof (nm_boundsx basis cfg Hnonull Hnoreduce Hnomc Pos Hclosed Hhint Hlive Hbound (Z.to_nat i) p Hp) as NB.
  assert (W : MinEval - 1 < nm (Z.to_nat i) p < MaxEval + 1) by (unfold eval in NB; lia).
  specialize (RL eq_refl W).
  destruct ((WinThreshold <? nv) || (nv <? - WinThreshold)).
  - inversion H; subst. exact RL.
  - apply (IHn (i + 1) s1 (m :: rest) nv _ i HS1 Hnext ltac:(lia) ltac:(lia) RL _ _ _ _ _ _ H).
Qed.

(* C04, last sentence, for precise configurations without a table: the whole reported variation replays legally - for every value,
   decisive or not, and for a call cancelled anywhere *)
Theorem analyze_pv_replays : forall D s p sk pv v d acc c,
  SI s -> (forall d, (1 <= d <= 16)%nat -> Z.of_nat d <= D -> Pos d p) ->
  analyze_depth pinned basis cfg k D s p = (sk, (pv, v, d, acc, c)) ->
  legal_line basis p pv.
Proof.
  intros D s p sk pv v d acc c HS Hp H. unfold analyze_depth in H.
  assert (ER : az_root pinned (az_start s) p = (0, [], 0)).
  { unfold az_root, tt_get. rewrite (proj1 (SI_az_start s HS)). reflexivity. }
  rewrite ER in H.
  apply (az_iter_line D p Hp 16 1 (az_start s) [] 0 stats0 0 (SI_az_start s HS) ltac:(constructor) ltac:(lia) ltac:(cbn; lia) I _ _ _ _ _ _ H).
Qed.
End PvIx.
