(* C20: complete enumeration (one VM evaluation at Qed: vm_cast_no_check) of the scripted opening with the repairs switched on: Cairn, size 8, bot Black.
   The expected tallies are those the Go driver measured on the repaired implementation. GENERATED once, then kept. *)
From Coq Require Import NArith ZArith List Bool.
Require Import Board Move GameOver Tps Symmetry Fpa.
Import ListNotations.

Lemma enum_cairn_8_b : run [] repaired Cairn 8 false = {| nodes := 230721; scripted := 113312; illegal := 0; selfrej := 0; crash := 0 |}%N.
Proof. vm_cast_no_check (eq_refl ({| nodes := 230721; scripted := 113312; illegal := 0; selfrej := 0; crash := 0 |}%N)). Qed.
