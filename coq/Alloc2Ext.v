(* C09, refined model: move_in_place reads only the scalar fields of its position argument (slow tactic proof, kept in
   a file of its own). *)
From Coq Require Import NArith ZArith List Bool Lia Arith.
Require Import Board Move GameOver Alloc Alloc2.
Import ListNotations.

Lemma rbind_ext {A B} (r : res A) arrs (f g : A -> heap * res B) : (forall a, f a = g a) -> rbind r arrs f = rbind r arrs g.
Proof. intro H. destruct r; cbn; auto. Qed.

Lemma drops2_ext hsq p p' topk stack dx dy ds nhh nsh : size p = size p' -> forall x y ct arrs b,
  drops2 hsq p topk stack dx dy x y ct ds nhh nsh arrs b = drops2 hsq p' topk stack dx dy x y ct ds nhh nsh arrs b.
Proof.
  intros E. induction ds as [|cN rest IH]; intros; cbn [drops2]; [reflexivity|].
  unfold in_board, sq_index. rewrite E.
  destruct (negb _); [reflexivity|]. destruct (_ || _); [reflexivity|].
  destruct (drop_at2 _ _ _ _ _ _ _ _ _ _) as [arrs1 [b'| |]]; [apply IH|reflexivity|reflexivity].
Qed.

Ltac red_whs := cbn [with_hs size black_wins_ties whiteStones whiteCaps blackStones blackCaps move White Black Standing Caps Height Stacks hash].

(* move_in_place reads only the scalar fields of its position argument *)
Lemma mip_ext hsq arrs p hs st phh psh nhh nsh m :
  move_in_place hsq arrs (with_hs p hs st) phh psh nhh nsh m = move_in_place hsq arrs p phh psh nhh nsh m.
Proof.
  unfold move_in_place, to_move_white, sq_index, top_at, bump, scal. red_whs.
  repeat first
   [ reflexivity
   | apply rbind_ext; intro
   | match goal with
     | |- context [drops2 hsq (with_hs ?p ?hs ?st)] => rewrite (drops2_ext hsq (with_hs p hs st) p) by reflexivity
     | |- context [match ?k with KNone => _ | KFlat => _ | KStanding => _ | KCap => _ end] => is_var k; destruct k; red_whs
     | |- (if ?c then _ else _) = _ => destruct c; red_whs
     | |- (let '(a,b) := (if ?c then _ else _) in _) = _ => destruct c; red_whs
     | |- match ?x with inl _ => _ | inr _ => _ end = _ => destruct x as [?|[? ?]]; red_whs
     | |- match ?x with (a, b) => _ end = _ => destruct x; red_whs
     end ].
Qed.

