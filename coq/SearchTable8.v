(* SearchTable8.v: soundness of reported forced results for every configuration WITHOUT null move (slide reduction, multi-cut, table, sort:
   any; precise configurations included), on any engine history - the abstract form and the instantiated model (SearchTable7.v has the
   search induction).  No bound on the configured depth is needed here. *)
From Coq Require Import NArith ZArith List Bool Lia.
Require Import Board Stack Rules Move GameOver Eval EvalSpec Refine Preserve1 Search NegamaxSpec SearchGen SearchExact SearchInst SearchLegal2 SearchNeg2 SearchNeg3 SearchNeg4 SearchNeg5.
Require Import SearchTable1 SearchTable3 SearchTable4 SearchTable6 SearchTable7.
Require Import Generated.Consts.
Import ListNotations.
Open Scope Z_scope.

Definition call_s (cfg : config) (Pos : nat -> position -> Prop) (p : position) : Prop :=
  (forall d, Z.of_nat d <= Z.max 0 (c_depth cfg) -> Pos d p) /\ is_over p = false.

Section Hist.
Variable basis : list N.
Variable Pos : nat -> position -> Prop.
Hypothesis TF : table_facts basis Pos.

Inductive engine_s : sstate -> Prop :=
| engs_new n : engine_s (new_state n)
| engs_call s cfg k p sk r : engine_s s -> c_nonull cfg = true -> eval_facts cfg Pos -> call_s cfg Pos p ->
    analyze_cancel basis cfg k s p = (sk, r) -> engine_s sk.

Lemma engine_s_TS s : engine_s s -> TS basis (Pos 0%nat) s.
Proof.
  induction 1 as [n|s cfg k p sk r _ IH HN HE (HC & HO) HA]; [apply TS_new|].
  destruct r as [[[[pv v] d] acc] c]. exact (proj1 (analyze_ts basis cfg k HN Pos TF HE s p sk pv v d acc c IH HC HO HA)).
Qed.

Theorem analyze_sound_any : forall s cfg k p sk pv v d acc c, engine_s s -> c_nonull cfg = true -> eval_facts cfg Pos -> call_s cfg Pos p ->
  analyze_cancel basis cfg k s p = (sk, (pv, v, d, acc, c)) -> sound_verdict basis p v.
Proof.
  intros s cfg k p sk pv v d acc c HS HN HE (HC & HO) HA.
  exact (proj2 (analyze_ts basis cfg k HN Pos TF HE s p sk pv v d acc c (engine_s_TS s HS) HC HO HA)).
Qed.
End Hist.

(* ---- instantiated model ---- *)
Definition ask_s (cfg : config) (U : nat -> position -> Prop) (p : position) : Prop :=
  base_ok p /\ (total p <= 64)%N /\ move p + Z.max 0 (c_depth cfg) <= max_terminal_ply /\ is_over p = false /\
  (forall d, Z.of_nat d <= Z.max 0 (c_depth cfg) -> U d p).

Lemma call_s_inst cfg U p : ask_s cfg U p -> call_s cfg (PosT U) p.
Proof.
  intros (Hb & Ht & Hm & HO & HU). unfold call_s, PosT. split; [|exact HO].
  intros d Hd. split; [|apply HU; exact Hd]. split; [split; [exact Hb|apply within_total64; [apply Hb|exact Ht]]|lia].
Qed.

Section InstS.
Variable U : nat -> position -> Prop.
Hypothesis HU : touch_set U.

Inductive engine_sinst : sstate -> Prop :=
| engsi_new n : engine_sinst (new_state n)
| engsi_call s cfg k p sk r : engine_sinst s -> c_nonull cfg = true -> builtin_eval cfg -> ask_s cfg U p ->
    analyze_cancel gen_basis cfg k s p = (sk, r) -> engine_sinst sk.

Lemma engine_sinst_s s : engine_sinst s -> engine_s gen_basis (PosT U) s.
Proof.
  induction 1 as [n|s cfg k p sk r _ IH HN HE HA HR]; [apply engs_new|].
  apply (engs_call gen_basis (PosT U) s cfg k p sk r IH HN (eval_facts_inst cfg U HE) (call_s_inst cfg U p HA) HR).
Qed.

(* every configuration without null move, either built-in evaluator, any table, any cancellation point, any such history:
   a reported value beyond the threshold is a real forced result *)
Theorem analyze_sound_any_inst : forall s cfg k p sk pv v d acc c, engine_sinst s -> c_nonull cfg = true -> builtin_eval cfg -> ask_s cfg U p ->
  analyze_cancel gen_basis cfg k s p = (sk, (pv, v, d, acc, c)) -> sound_verdict gen_basis p v.
Proof.
  intros s cfg k p sk pv v d acc c HS HN HE HA HR.
  exact (analyze_sound_any gen_basis (PosT U) (table_facts_inst U HU) s cfg k p sk pv v d acc c (engine_sinst_s s HS) HN
           (eval_facts_inst cfg U HE) (call_s_inst cfg U p HA) HR).
Qed.

(* C16 for these configurations: the state left by a call cancelled anywhere is an engine state, so later calls stay sound *)
Theorem cancel_preserves_soundness_inst : forall s cfg k p sk r, engine_sinst s -> c_nonull cfg = true -> builtin_eval cfg -> ask_s cfg U p ->
  analyze_cancel gen_basis cfg k s p = (sk, r) ->
  forall cfg' k' p' sk' pv v d acc c, c_nonull cfg' = true -> builtin_eval cfg' -> ask_s cfg' U p' ->
    analyze_cancel gen_basis cfg' k' sk p' = (sk', (pv, v, d, acc, c)) -> sound_verdict gen_basis p' v.
Proof.
  intros s cfg k p sk r HS HN HE HA HR cfg' k' p' sk' pv v d acc c HN' HE' HA' HR'.
  exact (analyze_sound_any_inst sk cfg' k' p' sk' pv v d acc c (engsi_call s cfg k p sk r HS HN HE HA HR) HN' HE' HA' HR').
Qed.
End InstS.


