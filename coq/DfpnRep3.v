(* C06: sets of positions given by REPRESENTATIVES up to the ply counter.  A set of position records closed under moves
   cannot be enumerated once slides allow cycles (the ply counter is part of the record).  With the congruence of PnCong1
   (records that differ only in an indistinguishable ply counter behave alike) the set
       SpL L p  :=  p is sim to a member of the finite list L
   satisfies every hypothesis of the DFPN theorems as soon as L passes boolean checks that Coq evaluates:
   closed under moves up to sim, pairwise distinct non-zero hashes, a live position has a move, C19 on L. *)
From Coq Require Import NArith ZArith List Bool Lia.
Require Import Board Move GameOver Eval Search AndOr Pn PnFacts Dfpn DfpnFacts PnCong1.
Require Import Generated.Consts.
Import ListNotations.
Open Scope N_scope.


(* ---- hash and threat detection do not see the ply counter either ---- *)
(* (DfpnFacts sets these constants to "unfold last"; here they are unfolded once and compared syntactically) *)
Local Strategy expand [hash_of count_threats solve].

Lemma hash_of_ext p q : hash p = hash q -> White p = White q -> Black p = Black q -> Standing p = Standing q -> Caps p = Caps q ->
  to_move_white p = to_move_white q -> hash_of p = hash_of q.
Proof. intros H1 H2 H3 H4 H5 H6. unfold hash_of. rewrite H1, H2, H3, H4, H5, H6. reflexivity. Qed.

Lemma hash_of_setmv p k : Z.even k = Z.even (move p) -> hash_of (setmv p k) = hash_of p.
Proof. intros He. apply hash_of_ext; try reflexivity. unfold to_move_white. exact He. Qed.

Lemma count_threats_ext c p q wg bg : White p = White q -> Black p = Black q -> Standing p = Standing q -> Caps p = Caps q ->
  count_threats c p wg bg = count_threats c q wg bg.
Proof. intros H2 H3 H4 H5. unfold count_threats, count_one. rewrite H2, H3, H4, H5. reflexivity. Qed.

Lemma solve_setmv p k : Z.even k = Z.even (move p) -> solve (setmv p k) = solve p.
Proof.
  intros He. unfold solve. rewrite analyze_setmv. destruct (analyze p) as [[wg bg]|]; [|reflexivity].
  change (size (setmv p k)) with (size p).
  rewrite (count_threats_ext (precompute (size p)) (setmv p k) p wg bg eq_refl eq_refl eq_refl eq_refl).
  unfold to_move_white. change (move (setmv p k)) with k. rewrite He. reflexivity.
Qed.

Lemma sim_hash_of q p : sim q p -> hash_of q = hash_of p.
Proof. intros [E H]. rewrite E. apply hash_of_setmv. now apply plyeq_even. Qed.

Lemma sim_solve q p : sim q p -> solve q = solve p.
Proof. intros [E H]. rewrite E. apply solve_setmv. now apply plyeq_even. Qed.

Lemma plyeq_trans a b c : plyeq a b -> plyeq b c -> plyeq a c.
Proof.
  intros [->|(A & B & H)] [->|(A' & B' & H')]; [now left|right; auto|right; auto|].
  right. split; [assumption|]. split; [assumption|congruence].
Qed.

Lemma sim_trans a b c : sim a b -> sim b c -> sim a c.
Proof.
  intros [E1 H1] [E2 H2]. split; [|eapply plyeq_trans; eassumption].
  rewrite E1 at 1. rewrite E2 at 1. reflexivity.
Qed.

(* ---- a boolean test for sim ---- *)
Fixpoint nl_eqb (a b : list N) : bool :=
  match a, b with
  | [], [] => true
  | x :: r, y :: s => (x =? y) && nl_eqb r s
  | _, _ => false
  end.
Lemma nl_eqb_eq a : forall b, nl_eqb a b = true -> a = b.
Proof.
  induction a as [|x r IH]; intros [|y s] H; cbn in H; try discriminate; [reflexivity|].
  apply andb_true_iff in H as [H1 H2]. apply N.eqb_eq in H1. apply IH in H2. congruence.
Qed.

Definition plyeqb (a b : Z) : bool := (a =? b)%Z || ((2 <=? a)%Z && (2 <=? b)%Z && Bool.eqb (Z.even a) (Z.even b)).
Lemma plyeqb_ok a b : plyeqb a b = true -> plyeq a b.
Proof.
  unfold plyeqb. intros H. apply orb_true_iff in H as [H|H]; [left; now apply Z.eqb_eq|].
  apply andb_true_iff in H as [H H3]. apply andb_true_iff in H as [H1 H2].
  right. split; [now apply Z.leb_le|]. split; [now apply Z.leb_le|now apply eqb_prop].
Qed.

Definition simb (a b : position) : bool :=
  (White a =? White b) && (Black a =? Black b) && (Standing a =? Standing b) && (Caps a =? Caps b) &&
  (hash a =? hash b) && (size a =? size b) && Bool.eqb (black_wins_ties a) (black_wins_ties b) &&
  (whiteStones a =? whiteStones b) && (whiteCaps a =? whiteCaps b) && (blackStones a =? blackStones b) && (blackCaps a =? blackCaps b) &&
  nl_eqb (Height a) (Height b) && nl_eqb (Stacks a) (Stacks b) && plyeqb (move a) (move b).

Lemma simb_sim a b : simb a b = true -> sim a b.
Proof.
  unfold simb. intros H.
  apply andb_true_iff in H as [H Hp]. apply plyeqb_ok in Hp.
  apply andb_true_iff in H as [H E13]. apply andb_true_iff in H as [H E12]. apply andb_true_iff in H as [H E11].
  apply andb_true_iff in H as [H E10]. apply andb_true_iff in H as [H E9]. apply andb_true_iff in H as [H E8].
  apply andb_true_iff in H as [H E7]. apply andb_true_iff in H as [H E6]. apply andb_true_iff in H as [H E5].
  apply andb_true_iff in H as [H E4]. apply andb_true_iff in H as [H E3]. apply andb_true_iff in H as [E1 E2].
  apply N.eqb_eq in E1, E2, E3, E4, E5, E6, E8, E9, E10, E11. apply eqb_prop in E7. apply nl_eqb_eq in E12, E13.
  split; [|exact Hp]. clear Hp.
  destruct a as [a1 a2 a3 a4 a5 a6 a7 a8 a9 a10 a11 a12 a13 a14], b as [b1 b2 b3 b4 b5 b6 b7 b8 b9 b10 b11 b12 b13 b14].
  unfold setmv.
  cbn [size black_wins_ties whiteStones whiteCaps blackStones blackCaps move White Black Standing Caps Height Stacks hash] in *.
  subst. reflexivity.
Qed.

(* ---- the set given by a list of representatives ---- *)
Section Reps.
Variable aw : bool.
Variable LH : list (N * position).            (* representatives with their hashes (computed once) *)
Notation L := (map snd LH).

Definition SpL (p : position) : Prop := exists r, In r L /\ sim p r.

Definition liveb (p : position) : bool := match game_over p with Some (true, _) => false | _ => true end.
Lemma liveb_term p : liveb p = true <-> terminal aw p = None.
Proof.
  unfold liveb, terminal. destruct (game_over p) as [[[|] who]|]; split; auto; try discriminate.
Qed.

Definition inL (q : position) : bool := let h := hash_of q in existsb (fun hr => (fst hr =? h) && simb q (snd hr)) LH.

Definition chkL_step : bool :=
  forallb (fun p => negb (liveb p) ||
                    forallb (fun m => match dmv gen_basis p m with Ok q => inL q | _ => true end) (all_moves p)) L.
Definition chkL_small : bool := forallb (fun p => size p <=? 8) L.
Fixpoint nodupbN (l : list N) : bool := match l with [] => true | x :: r => negb (existsb (N.eqb x) r) && nodupbN r end.
Definition chkL_hash : bool := forallb (fun hr => fst hr =? hash_of (snd hr)) LH && nodupbN (map fst LH).
Definition chkL_nonzero : bool := forallb (fun p => negb (hash_of p =? 0)) L.
Definition chkL_moves : bool := forallb (fun p => negb (liveb p) || match all_moves p with [] => false | _ => true end) L.
(* C19 on L: a reported threat of the side to move is a win in one ply (attacker) / reaches a finished non-win (defender) *)
Definition chkL_threats_att : bool :=
  forallb (fun p => negb (liveb p) || match solve p with None => true | Some _ =>
     negb (attp aw p) || wn position (succs gen_basis) (terminal aw) (attp aw) 1 p end) L.
Definition chkL_threats_def : bool :=
  forallb (fun p => negb (liveb p) || match solve p with None => true | Some _ =>
     attp aw p || existsb (fun q => match terminal aw q with Some false => true | _ => false end) (succs gen_basis p) end) L.

Lemma inL_ok q : inL q = true -> SpL q.
Proof.
  unfold inL. intros H. apply existsb_exists in H as (hr & Hr & H). apply andb_true_iff in H as [_ H].
  exists (snd hr). split; [now apply in_map|now apply simb_sim].
Qed.

Lemma SpL_rep r : In r L -> SpL r.
Proof. intros H. exists r. split; [assumption|apply sim_refl]. Qed.

Hypothesis H_step : chkL_step = true.
Hypothesis H_small : chkL_small = true.
Hypothesis H_hash : chkL_hash = true.
Hypothesis H_nonzero : chkL_nonzero = true.
Hypothesis H_moves : chkL_moves = true.

Lemma SpL_step : forall p m q, SpL p -> terminal aw p = None -> In m (all_moves p) -> dmv gen_basis p m = Ok q -> SpL q.
Proof.
  intros p m q (r & Hr & Hs) Ht Hm Eq.
  pose proof H_step as H. unfold chkL_step in H. rewrite forallb_forall in H. specialize (H r Hr).
  rewrite (sim_terminal aw p r Hs) in Ht. rewrite (sim_all_moves p r Hs) in Hm.
  apply orb_true_iff in H as [H|H]; [apply negb_true_iff in H; apply liveb_term in Ht; congruence|].
  rewrite forallb_forall in H. specialize (H m Hm).
  pose proof (sim_mv (hash_sq gen_basis) true p r m Hs) as Hmv. unfold Dfpn.dmv in Eq, H. rewrite Eq in Hmv.
  destruct (move_prealloc (hash_sq gen_basis) true r m) as [q'| |]; try contradiction.
  apply inL_ok in H. destruct H as (r' & Hr' & Hs'). exists r'. split; [assumption|]. eapply sim_trans; eassumption.
Qed.

Lemma SpL_small : forall p, SpL p -> size p <= 8.
Proof.
  intros p (r & Hr & Hs). rewrite (sim_size p r Hs).
  pose proof H_small as H. unfold chkL_small in H. rewrite forallb_forall in H. apply N.leb_le. now apply H.
Qed.

Lemma nodupbN_inj {A} (f : A -> N) (l : list A) : nodupbN (map f l) = true -> forall x y, In x l -> In y l -> f x = f y -> x = y.
Proof.
  induction l as [|a l IH]; intros H x y Hx Hy E; [contradiction|].
  cbn in H. apply andb_true_iff in H as [H1 H2]. apply negb_true_iff in H1.
  assert (Hno : forall z, In z l -> f a <> f z).
  { intros z Hz Ef. assert (existsb (N.eqb (f a)) (map f l) = true); [|congruence].
    apply existsb_exists. exists (f z). split; [now apply in_map|now apply N.eqb_eq]. }
  destruct Hx as [<-|Hx], Hy as [<-|Hy]; auto.
  - now contradiction (Hno y Hy).
  - symmetry in E. now contradiction (Hno x Hx).
Qed.

Lemma H_hash' : nodupbN (map hash_of L) = true.
Proof.
  pose proof H_hash as H. unfold chkL_hash in H. apply andb_true_iff in H as [H1 H2].
  replace (map hash_of L) with (map fst LH); [exact H2|].
  rewrite map_map. apply map_ext_in. intros hr Hin. rewrite forallb_forall in H1. specialize (H1 hr Hin). now apply N.eqb_eq in H1.
Qed.

(* no collision: positions of the set with the same hash are sim *)
Lemma SpL_hash_sim : forall p q, SpL p -> SpL q -> hash_of p = hash_of q -> sim p q.
Proof.
  intros p q (r & Hr & Hs) (r' & Hr' & Hs') Eh.
  rewrite (sim_hash_of p r Hs), (sim_hash_of q r' Hs') in Eh.
  assert (r = r') by (eapply (nodupbN_inj hash_of L H_hash'); eauto). subst r'.
  eapply sim_trans; [exact Hs|]. now apply sim_sym.
Qed.

Lemma SpL_hashN : forall p q, SpL p -> SpL q -> hash_of p = hash_of q ->
  forall n, wn position (succs gen_basis) (terminal aw) (attp aw) n p = wn position (succs gen_basis) (terminal aw) (attp aw) n q.
Proof. intros p q Hp Hq Eh n. apply sim_wn. now apply SpL_hash_sim. Qed.

Lemma SpL_hash : forall p q, SpL p -> SpL q -> hash_of p = hash_of q ->
  (W gen_basis aw p <-> W gen_basis aw q) /\ to_move_white p = to_move_white q /\ terminal aw p = terminal aw q.
Proof.
  intros p q Hp Hq Eh. pose proof (SpL_hash_sim p q Hp Hq Eh) as Hs.
  split; [|split; [now apply sim_to_move|now apply sim_terminal]].
  unfold W. split; intros [n Hn]; exists n; [rewrite <- (sim_wn gen_basis aw n p q Hs)|rewrite (sim_wn gen_basis aw n p q Hs)]; exact Hn.
Qed.

Lemma SpL_hashF : forall p q, SpL p -> SpL q -> hash_of p = hash_of q ->
  (forall n, wn position (succs gen_basis) (terminal aw) (attp aw) n p = wn position (succs gen_basis) (terminal aw) (attp aw) n q) /\
  to_move_white p = to_move_white q /\ terminal aw p = terminal aw q.
Proof.
  intros p q Hp Hq Eh. pose proof (SpL_hash_sim p q Hp Hq Eh) as Hs.
  split; [intros n; now apply sim_wn|]. split; [now apply sim_to_move|now apply sim_terminal].
Qed.

Lemma SpL_nonzero : forall p, SpL p -> hash_of p <> 0.
Proof.
  intros p (r & Hr & Hs). rewrite (sim_hash_of p r Hs).
  pose proof H_nonzero as H. unfold chkL_nonzero in H. rewrite forallb_forall in H. specialize (H r Hr).
  apply negb_true_iff in H. now apply N.eqb_neq.
Qed.

Lemma SpL_moves : forall p, SpL p -> terminal aw p = None -> all_moves p <> [].
Proof.
  intros p (r & Hr & Hs) Ht. rewrite (sim_all_moves p r Hs). rewrite (sim_terminal aw p r Hs) in Ht.
  pose proof H_moves as H. unfold chkL_moves in H. rewrite forallb_forall in H. specialize (H r Hr).
  apply orb_true_iff in H as [H|H]; [apply negb_true_iff in H; apply liveb_term in Ht; congruence|].
  destruct (all_moves r); [discriminate|discriminate].
Qed.

Lemma SpL_threats_att : chkL_threats_att = true ->
  forall p, SpL p -> terminal aw p = None -> solve p <> None -> attp aw p = true -> W gen_basis aw p.
Proof.
  intros Hc p (r & Hr & Hs) Ht Hsol Ha.
  rewrite (sim_terminal aw p r Hs) in Ht. rewrite (sim_solve p r Hs) in Hsol. rewrite (sim_attp aw p r Hs) in Ha.
  unfold chkL_threats_att in Hc. rewrite forallb_forall in Hc. specialize (Hc r Hr).
  apply orb_true_iff in Hc as [H|H]; [apply negb_true_iff in H; apply liveb_term in Ht; congruence|].
  destruct (solve r); [|now contradiction Hsol]. apply orb_true_iff in H as [H|H]; [rewrite Ha in H; discriminate|].
  exists 1%nat. rewrite (sim_wn gen_basis aw 1 p r Hs). exact H.
Qed.

Lemma SpL_threats_def : chkL_threats_def = true ->
  forall p, SpL p -> terminal aw p = None -> solve p <> None -> attp aw p = false ->
  exists q, In q (succs gen_basis p) /\ terminal aw q = Some false.
Proof.
  intros Hc p (r & Hr & Hs) Ht Hsol Ha.
  rewrite (sim_terminal aw p r Hs) in Ht. rewrite (sim_solve p r Hs) in Hsol. rewrite (sim_attp aw p r Hs) in Ha.
  unfold chkL_threats_def in Hc. rewrite forallb_forall in Hc. specialize (Hc r Hr).
  apply orb_true_iff in Hc as [H|H]; [apply negb_true_iff in H; apply liveb_term in Ht; congruence|].
  destruct (solve r); [|now contradiction Hsol]. apply orb_true_iff in H as [H|H]; [rewrite Ha in H; discriminate|].
  apply existsb_exists in H as (q & Hq & Hqt).
  pose proof (sim_succs gen_basis p r Hs) as F.
  assert (G : forall l1 l2, Forall2 sim l1 l2 -> In q l2 -> exists q', In q' l1 /\ sim q' q).
  { intros l1 l2 HF. induction HF as [|x y l1 l2 Hxy _ IH]; intros Hin; [contradiction|].
    destruct Hin as [<-|Hin]; [exists x; split; [now left|assumption]|].
    destruct (IH Hin) as (q' & Hq' & Hsq). exists q'. split; [now right|assumption]. }
  destruct (G _ _ F Hq) as (q' & Hq' & Hsq). exists q'. split; [assumption|].
  rewrite (sim_terminal aw q' q Hsq). destruct (terminal aw q) as [[|]|]; [discriminate Hqt|reflexivity|discriminate Hqt].
Qed.
End Reps.
