(* With the PN-squared switch off, the model Pn2.v computes what Pn.v computes.
   Pn.v re-descends from the root in every iteration and recomputes every ancestor of the expanded node; Pn2.v keeps
   `current` of search() (resumes at the node where updateAncestors stopped, recomputes nothing above it).  The two agree
   because, without PN2, the numbers of every unsolved expanded node agree with its children (`cons`), and the path to
   `current` is the path that selection from the root takes (`sel`). *)
From Coq Require Import NArith ZArith List Bool Lia Arith.
Require Import Board Move GameOver Pn PnRun Pn2 Pn2Run.
Import ListNotations.
Open Scope N_scope.

(* ---------- lists of children ---------- *)
(* the first child with delta = phi, and the children in front of it (reversed): what pick_kid / pick_kid2 scan for *)
Fixpoint first_sel (phi : N) (before l : list pn) : option (list pn * pn * list pn) :=
  match l with
  | [] => None
  | c :: r => if n_delta c =? phi then Some (before, c, r) else first_sel phi (c :: before) r
  end.

Lemma first_sel_spec phi : forall l b0 b c r, first_sel phi b0 l = Some (b, c, r) ->
  exists mid, l = mid ++ c :: r /\ b = rev mid ++ b0 /\ Forall (fun x => (n_delta x =? phi) = false) mid /\ (n_delta c =? phi) = true.
Proof.
  induction l as [|x l IH]; intros b0 b c r E; cbn [first_sel] in E; [discriminate|].
  destruct (n_delta x =? phi) eqn:Ex.
  - injection E as <- <- <-. exists []. repeat split; auto.
  - apply IH in E as (mid & E1 & E2 & E3 & E4). exists (x :: mid). subst. cbn [app rev]. rewrite <- app_assoc. repeat split; auto.
Qed.

Lemma first_sel_mid phi mid : forall b0 c r,
  Forall (fun x => (n_delta x =? phi) = false) mid -> (n_delta c =? phi) = true ->
  first_sel phi b0 (mid ++ c :: r) = Some (rev mid ++ b0, c, r).
Proof.
  induction mid as [|x mid IH]; intros b0 c r Hm Hc; cbn [app first_sel rev].
  - now rewrite Hc.
  - inversion Hm; subst. rewrite H1. rewrite IH by assumption. now rewrite <- app_assoc.
Qed.

Lemma split_at_mid mid : forall b0 c r, split_at (length mid) b0 (mid ++ c :: r) = Some (rev mid ++ b0, c, r).
Proof.
  induction mid as [|x mid IH]; intros b0 c r; cbn [app length split_at rev]; [reflexivity|].
  rewrite IH. now rewrite <- app_assoc.
Qed.

Definition nums (t : pn) : N * N := (n_phi t, n_delta t).

Lemma kid_numbers_replace a c c' r : nums c' = nums c -> kid_numbers (a ++ c' :: r) = kid_numbers (a ++ c :: r).
Proof.
  unfold nums, kid_numbers. intros E. injection E as E1 E2. rewrite !fold_left_app. cbn [fold_left]. now rewrite E1, E2.
Qed.

Lemma solved_nums a b : nums a = nums b -> solved a = solved b.
Proof. unfold nums, solved. intros E. injection E as -> ->. reflexivity. Qed.

(* ---------- the two invariants ---------- *)
Fixpoint cons (t : pn) : Prop :=
  match t with
  | PN mv phi delta value irrev and_node expd pd kids =>
    (expd = true -> phi <> 0 -> delta <> 0 -> kid_numbers kids = (phi, delta)) /\
    (fix all (l : list pn) : Prop := match l with [] => True | c :: r => cons c /\ all r end) kids
  end.

Lemma cons_unfold t : cons t <->
  ((n_expanded t = true -> n_phi t <> 0 -> n_delta t <> 0 -> kid_numbers (n_kids t) = (n_phi t, n_delta t)) /\ Forall cons (n_kids t)).
Proof.
  destruct t as [mv phi delta value irrev and_node expd pd kids]. cbn [cons n_expanded n_phi n_delta n_kids].
  assert (K : (fix all (l : list pn) : Prop := match l with [] => True | c :: r => cons c /\ all r end) kids <-> Forall cons kids).
  { induction kids as [|c r IH]; [split; auto|]. split.
    - intros [H1 H2]. constructor; [exact H1|now apply IH].
    - intros H. inversion H; subst. split; [assumption|now apply IH]. }
  rewrite K. tauto.
Qed.

Fixpoint sel (t : pn) (forced : list nat) : Prop :=
  match forced with
  | [] => True
  | i :: l => n_expanded t = true /\
              exists before c r, split_at i [] (n_kids t) = Some (before, c, r) /\
                                 first_sel (n_phi t) [] (n_kids t) = Some (before, c, r) /\ solved c = false /\ sel c l
  end.

Lemma unsolved_ne t : solved t = false -> n_phi t <> 0 /\ n_delta t <> 0.
Proof. unfold solved. intros H. apply orb_false_iff in H as [H1 H2]. apply N.eqb_neq in H1, H2. auto. Qed.

Section Eq.
Variable basis : list N.
Variable cfg : pcfg.
Variable aw : bool.
Variable hook : pn -> list (position * bool) -> p2stats -> option ires2.
Hypothesis Hhook : forall t p s, hook t p s = None.

(* ---------- updateAncestors and the invariants ---------- *)
Lemma update_cons is_root t st t2 st2 :
  Forall cons (n_kids t) -> update_node cfg is_root t st = (t2, st2) -> cons t2.
Proof.
  intros Hk E. unfold update_node in E. destruct (kid_numbers (n_kids t)) as [phi delta] eqn:K.
  destruct ((phi =? 0) || (delta =? 0)) eqn:Es; injection E as <- _; apply cons_unfold; unfold with_numbers;
    cbn [n_expanded n_phi n_delta n_kids].
  - split.
    + intros _ Hp Hd. apply orb_true_iff in Es as [Es|Es]; apply N.eqb_eq in Es; contradiction.
    + destruct (negb is_root && negb (pc_preserve cfg)); [constructor|assumption].
  - split; [intros; assumption|assumption].
Qed.

(* a node whose numbers agree with its children is left alone by updateAncestors *)
Lemma update_id is_root t K st :
  solved t = false -> kid_numbers K = (n_phi t, n_delta t) ->
  update_node cfg is_root (set_kids t K) st = (set_kids t K, st).
Proof.
  intros Hs E. unfold update_node, set_kids. cbn [n_kids]. rewrite E. unfold solved in Hs. rewrite Hs.
  unfold with_numbers. cbn. reflexivity.
Qed.

Lemma update_nums is_root t st t2 st2 : update_node cfg is_root t st = (t2, st2) -> stops is_root t t2 = true -> is_root = false ->
  nums t2 = nums t /\ solved t2 = false.
Proof.
  intros _ H ->. unfold stops in H. rewrite orb_false_r in H. apply andb_true_iff in H as [H H3]. apply andb_true_iff in H as [H1 H2].
  apply N.eqb_eq in H2, H3. unfold nums. rewrite H2, H3. split; [reflexivity|]. now apply negb_true_iff in H1.
Qed.

Lemma gen_kids_cons and_parent cur path : forall ms kids st kids' st',
  Forall cons kids -> gen_kids basis cfg aw and_parent cur path ms kids st = (kids', st') -> Forall cons kids'.
Proof.
  induction ms as [|m r IH]; intros kids st kids' st' Hk E; cbn [gen_kids] in E.
  - injection E as <- _. assumption.
  - destruct (pmv basis cur m) as [q| |].
    + assert (Hc : cons (new_child cfg aw and_parent cur path m q)).
      { unfold new_child. destruct (leaf_numbers _ _ _). cbn. split; [discriminate|exact I]. }
      destruct (n_delta _ =? 0); [injection E as <- _; now constructor|].
      eapply IH; [|exact E]. now constructor.
    + eapply IH; eauto.
    + eapply IH; eauto.
Qed.

(* ---------- selection: pick_kid and pick_kid2 find the same child ---------- *)
Definition into_kid1 (descend : pn -> list (position * bool) -> pstats -> ires) (is_root : bool) (t : pn)
           (path : list (position * bool)) (st : pstats) (before : list pn) (c : pn) (r : list pn) : ires :=
  match path with
  | (cur, _) :: _ =>
    match pmv basis cur (n_move c) with
    | Ok q => match descend c ((q, n_irrev c) :: path) st with
              | Step c' st' => let '(t2, st2) := update_node cfg is_root (set_kids t (rev before ++ c' :: r)) st' in Step t2 st2
              | Stop w => Stop w end
    | _ => Stop 1
    end
  | [] => Stop 1
  end.

Lemma pick_kid_first descend is_root t path st : forall l before,
  pick_kid basis cfg descend is_root t path st before l =
  match first_sel (n_phi t) before l with
  | None => Stop 1
  | Some (b, c, r) => if solved c then Stop 3 else into_kid1 descend is_root t path st b c r
  end.
Proof.
  induction l as [|c r IH]; intros before; cbn [pick_kid first_sel]; [reflexivity|].
  destruct (n_delta c =? n_phi t); [|apply IH]. unfold solved, into_kid1. reflexivity.
Qed.

Lemma pick_kid2_first descend is_root t path s : forall l before,
  pick_kid2 basis cfg descend is_root t path s before l =
  match first_sel (n_phi t) before l with
  | None => Stop2 1
  | Some (b, c, r) => if solved c then Stop2 3 else into_kid basis cfg descend is_root t path s b c r
  end.
Proof.
  induction l as [|c r IH]; intros before; cbn [pick_kid2 first_sel]; [reflexivity|].
  destruct (n_delta c =? n_phi t); [|apply IH]. unfold solved. reflexivity.
Qed.

(* ---------- one iteration ---------- *)
Definition res_rel (is_root : bool) (t : pn) (r1 : ires) (r2 : ires2) : Prop :=
  match r1 with
  | Stop w => r2 = Stop2 w
  | Step t1 st1 =>
    exists cu, r2 = Step2 t1 (s_of st1) cu /\ cons t1 /\
               match cu with
               | Some l => sel t1 l /\ (is_root = false -> nums t1 = nums t /\ solved t1 = false)
               | None => is_root = false
               end
  end.

(* after expand / after the return from a child: updateAncestors at the node t1 (numbers still those of t) *)
Lemma after_update is_root t t1 st1 s0 sx :
  Forall cons (n_kids t1) -> nums t1 = nums t ->
  res_rel is_root t (let '(t2, st2) := update_node cfg is_root t1 st1 in Step t2 st2)
          (let '(t2, st2) := update_node cfg is_root t1 (s_st (with_st s0 st1)) in
           Step2 t2 (with_st (s_of sx) st2) (if stops is_root t1 t2 then Some [] else None)).
Proof.
  intros Hk Hn. cbn [with_st s_st]. destruct (update_node cfg is_root t1 st1) as [t2 st2] eqn:Eu.
  unfold res_rel. exists (if stops is_root t1 t2 then Some [] else None). split; [reflexivity|].
  split; [eapply update_cons; eauto|].
  destruct (stops is_root t1 t2) eqn:Est.
  - split; [exact I|]. intros Hr. rewrite <- Hn. eapply update_nums; eauto.
  - unfold stops in Est. apply orb_false_iff in Est as [_ Est]. exact Est.
Qed.

Lemma into_equiv d1 d2 is_root t path st mid c r :
  (forall p st0, res_rel false c (d1 c p st0) (d2 c p (s_of st0))) ->
  cons t -> n_expanded t = true -> solved t = false -> n_kids t = mid ++ c :: r ->
  Forall (fun x => (n_delta x =? n_phi t) = false) mid -> (n_delta c =? n_phi t) = true -> solved c = false ->
  res_rel is_root t (into_kid1 d1 is_root t path st (rev mid) c r)
          (into_kid basis cfg d2 is_root t path (s_of st) (rev mid) c r).
Proof.
  intros IH Hcons Hexp Hsol Ekids Hmid Hc Hcs. unfold into_kid1, into_kid.
  destruct path as [|[cur ir] rest]; [reflexivity|].
  destruct (pmv basis cur (n_move c)) as [q| |]; try reflexivity.
  specialize (IH ((q, n_irrev c) :: (cur, ir) :: rest) st).
  destruct (d1 c ((q, n_irrev c) :: (cur, ir) :: rest) st) as [c' st'|w].
  2:{ cbn [res_rel] in IH. rewrite IH. reflexivity. }
  cbn [res_rel] in IH. destruct IH as (cu & E2 & Hc' & Hcu). rewrite E2. rewrite rev_involutive.
  apply cons_unfold in Hcons as [Hnum Hkids].
  assert (Hk' : Forall cons (mid ++ c' :: r)).
  { rewrite Ekids in Hkids. apply Forall_app in Hkids as [H1 H2]. inversion H2; subst. apply Forall_app. split; [assumption|]. now constructor. }
  destruct cu as [l|].
  - (* updateAncestors stopped below: Pn.v recomputes t all the same, and finds the numbers it had *)
    destruct Hcu as [Hsel Hsame]. destruct (Hsame eq_refl) as [Hn Hs'].
    destruct (unsolved_ne _ Hsol) as [Hp Hd].
    assert (K : kid_numbers (mid ++ c' :: r) = (n_phi t, n_delta t)).
    { rewrite (kid_numbers_replace mid c c' r Hn). rewrite <- Ekids. now apply Hnum. }
    rewrite (update_id is_root t (mid ++ c' :: r) st' Hsol K).
    unfold res_rel. exists (Some (length (rev mid) :: l)). split; [reflexivity|]. split.
    + apply cons_unfold. unfold set_kids. cbn [n_expanded n_phi n_delta n_kids]. split; [intros; exact K|assumption].
    + split.
      * cbn [sel]. unfold set_kids. cbn [n_expanded n_kids n_phi]. split; [reflexivity|]. exists (rev mid), c', r.
        rewrite rev_length. split; [|split; [|split]]; auto.
        -- rewrite split_at_mid. now rewrite app_nil_r.
        -- rewrite first_sel_mid; [now rewrite app_nil_r|assumption|].
           unfold nums in Hn. injection Hn as _ Hn. now rewrite Hn.
      * intros _. split; [reflexivity|]. unfold solved. cbn [n_phi n_delta]. exact Hsol.
  - (* still climbing: both recompute t *)
    change (update_node cfg is_root (set_kids t (mid ++ c' :: r)) (s_st (s_of st')))
      with (update_node cfg is_root (set_kids t (mid ++ c' :: r)) (s_st (with_st (s_of st') st'))).
    apply after_update; auto.
Qed.

Lemma iterate_equiv : forall f is_root t path st forced,
  cons t -> sel t forced -> solved t = false ->
  res_rel is_root t (iterate basis cfg aw f is_root t path st) (iterate2 basis aw cfg hook f is_root t path (s_of st) forced).
Proof.
  induction f as [|f IH]; intros is_root t path st forced Hcons Hsel Hsol; cbn [iterate iterate2]; [reflexivity|].
  destruct (n_expanded t) eqn:Eexp.
  - pose proof Hcons as Hc2. apply cons_unfold in Hc2 as [Hnum Hkids].
    rewrite pick_kid_first.
    assert (Sub : forall c l, In c (n_kids t) -> sel c l -> solved c = false ->
                   forall p st0, res_rel false c (iterate basis cfg aw f false c p st0) (iterate2 basis aw cfg hook f false c p (s_of st0) l)).
    { intros c l Hin Hsl Hcs p st0. apply IH; auto. rewrite Forall_forall in Hkids. now apply Hkids. }
    destruct forced as [|i l].
    + rewrite pick_kid2_first.
      destruct (first_sel (n_phi t) [] (n_kids t)) as [[[b c] r]|] eqn:Ef; [|reflexivity].
      destruct (solved c) eqn:Ecs; [reflexivity|].
      apply first_sel_spec in Ef as (mid & E1 & E2 & E3 & E4). rewrite app_nil_r in E2. subst b.
      apply into_equiv; auto.
      intros p st0. apply (Sub c []); [rewrite E1; apply in_or_app; right; now left|exact I|assumption].
    + cbn [sel] in Hsel. destruct Hsel as (_ & b & c & r & Esp & Ef & Ecs & Hsl).
      rewrite Ef, Esp, Ecs.
      apply first_sel_spec in Ef as (mid & E1 & E2 & E3 & E4). rewrite app_nil_r in E2. subst b.
      apply into_equiv; auto.
      intros p st0. apply (Sub c l); [rewrite E1; apply in_or_app; right; now left|assumption|assumption].
  - cbn [s_of s_st]. destruct ((0 <? pc_maxnodes cfg) && (pc_maxnodes cfg <? live st)); [reflexivity|].
    rewrite Hhook.
    destruct (expand_node basis cfg aw t path st) as [t1 st1] eqn:Ee.
    change (update_node cfg is_root t1 st1) with (update_node cfg is_root t1 (s_st (with_st (s_of st) st1))) at 2.
    assert (H1 : Forall cons (n_kids t1) /\ nums t1 = nums t).
    { apply cons_unfold in Hcons as [_ Hkids]. unfold expand_node in Ee. destruct path as [|[cur ir] rest].
      - injection Ee as <- _. auto.
      - destruct (gen_kids basis cfg aw (n_and t) cur ((cur, ir) :: rest) (all_moves cur) [] st) as [kids stk] eqn:Eg.
        injection Ee as <- _. cbn [n_kids]. split; [|reflexivity]. eapply gen_kids_cons; [|exact Eg]. constructor. }
    destruct H1 as [H1 H2]. apply after_update; auto.
Qed.

(* ---------- the loop of search() ---------- *)
Lemma search_equiv : forall k dfuel p0 t st forced, cons t -> sel t forced ->
  search2 basis aw cfg hook k dfuel [(p0, false)] t (s_of st) forced =
  let '(t', st', w) := search_loop basis cfg aw k dfuel p0 t st in (t', s_of st', w).
Proof.
  induction k as [|k IH]; intros dfuel p0 t st forced Hcons Hsel; cbn [search2 search_loop]; [reflexivity|].
  change ((n_phi t =? 0) || (n_delta t =? 0)) with (solved t).
  destruct (solved t) eqn:Es; [reflexivity|].
  pose proof (iterate_equiv dfuel true t [(p0, false)] st forced Hcons Hsel Es) as R. unfold res_rel in R.
  destruct (iterate basis cfg aw dfuel true t [(p0, false)] st) as [t1 st1|w].
  - destruct R as (cu & -> & Hc1 & Hcu). destruct cu as [l|]; [|discriminate Hcu]. apply IH; tauto.
  - rewrite R. reflexivity.
Qed.
End Eq.

(* ---------- Prove() ---------- *)
Lemma root_cons cfg aw p0 : cons (root_node cfg aw p0).
Proof. unfold root_node. destruct (leaf_numbers _ _ _). cbn. split; [discriminate|exact I]. Qed.

Theorem prove_pn2_off : forall basis aw cfg threshold k2 dfuel2 iters dfuel p0,
  prove_pn2 basis aw cfg threshold false k2 dfuel2 iters dfuel p0 =
  let '(root, st, result, pv, why) := prove_pn basis cfg aw iters dfuel p0 in (root, s_of st, result, pv, why).
Proof.
  intros. unfold prove_pn2, prove_pn.
  rewrite (search_equiv basis cfg aw (pn2_hook basis aw cfg threshold false k2 dfuel2) (fun _ _ _ => eq_refl)
             iters dfuel p0 (root_node cfg aw p0) stats0 [] (root_cons cfg aw p0) I).
  destruct (search_loop basis cfg aw iters dfuel p0 (root_node cfg aw p0) stats0) as [[root st] why].
  destruct (verdict root). reflexivity.
Qed.

(* the entry points: Prover.Prove with PN2 = false as modelled by Pn2Run is PnRun.pn_run, with an empty second-level trace *)
Theorem pn2_run_off : forall threshold iters dfuel k2 dfuel2 maxnodes preserve maxdepth p,
  pn2_run_at threshold iters dfuel k2 dfuel2 maxnodes preserve maxdepth false p =
  let '(root, st, result, pv, why) := pn_run iters dfuel maxnodes preserve maxdepth p in (root, s_of st, result, pv, why).
Proof. intros. unfold pn2_run_at, pn_run, eff_maxnodes. apply prove_pn2_off. Qed.
