(* C09, refined model, part 1: cells, headers, copy.
   `keeps arrs arrs' P`: the heap arrs' extends arrs, every old array keeps its length, and every old array whose id
   is not in P is unchanged.  A write through a header, copy(dst, src) and analyze() are such steps with P = the
   array(s) of the destination. *)
From Coq Require Import NArith ZArith List Bool Lia Arith.
Require Import Board Move GameOver Alloc AllocFacts Alloc2.
Import ListNotations.

Lemma updN_set_nth l i v : updN l i v = set_nth l i v.
Proof. revert i; induction l as [|a l IH]; intros [|i]; cbn; auto. f_equal; auto. Qed.

Lemma firstn_set_nth_comm {A} (l : list A) n i v : firstn n (set_nth l i v) = set_nth (firstn n l) i v.
Proof.
  revert n i. induction l as [|a l IH]; intros [|n] [|i]; cbn; auto. f_equal. apply IH.
Qed.

Lemma nth_firstn_lt {A} (l : list A) n k d : (k < n)%nat -> nth k (firstn n l) d = nth k l d.
Proof.
  revert n k. induction l as [|a l IH]; intros [|n] [|k] H; cbn; auto; try lia. apply IH. lia.
Qed.
Lemma nth_skipn_add {A} (l : list A) off k d : nth k (skipn off l) d = nth (off + k) l d.
Proof.
  revert l. induction off as [|off IH]; intros l; cbn; [reflexivity|].
  destruct l as [|a l]; [destruct k; reflexivity|]. apply IH.
Qed.

Lemma skipn_add {A} (l : list A) a b : skipn a (skipn b l) = skipn (b + a) l.
Proof.
  revert l. induction b as [|b IH]; intros l; cbn; [reflexivity|].
  destruct l as [|x l]; [destruct a; reflexivity|]. apply IH.
Qed.

(* ---- keeps ---- *)
Definition keeps (arrs arrs' : heap) (P : nat -> Prop) : Prop :=
  (length arrs <= length arrs')%nat /\
  (forall x, (x < length arrs)%nat -> length (get_arr arrs' x) = length (get_arr arrs x)) /\
  (forall x, (x < length arrs)%nat -> ~ P x -> get_arr arrs' x = get_arr arrs x).

Lemma keeps_refl arrs P : keeps arrs arrs P.
Proof. split; [lia|]. split; auto. Qed.

Lemma keeps_trans arrs a1 a2 P : keeps arrs a1 P -> keeps a1 a2 P -> keeps arrs a2 P.
Proof.
  intros (L1 & N1 & O1) (L2 & N2 & O2). split; [lia|]. split.
  - intros x Hx. rewrite N2 by lia. apply N1. exact Hx.
  - intros x Hx Hn. rewrite O2 by (auto; lia). apply O1; assumption.
Qed.

Lemma keeps_weaken arrs a1 (P Q : nat -> Prop) : keeps arrs a1 P -> (forall x, (x < length arrs)%nat -> P x -> Q x) -> keeps arrs a1 Q.
Proof.
  intros (L1 & N1 & O1) H. split; [exact L1|]. split; [exact N1|].
  intros x Hx Hn. apply O1; [exact Hx|]. intro Hp. apply Hn. apply H; assumption.
Qed.

Lemma keeps_valid arrs arrs' P r : keeps arrs arrs' P -> valid arrs r -> valid arrs' r.
Proof. intros (L & Nn & _) [H1 H2]. split; [lia|]. rewrite Nn by assumption. assumption. Qed.

Lemma keeps_read arrs arrs' P r : keeps arrs arrs' P -> valid arrs r -> ~ P (r_arr r) -> read_ref arrs' r = read_ref arrs r.
Proof. intros (L & Nn & O) [H1 H2] Hn. unfold read_ref. rewrite O by assumption. reflexivity. Qed.

Lemma frame_keeps arrs arrs' a lim : frame arrs arrs' a lim -> keeps arrs arrs' (eq a).
Proof.
  intros (L & Nn & O & _). split; [exact L|]. split; [exact Nn|].
  intros x Hx Hne. apply O; [exact Hx|]. intro E. apply Hne. symmetry. exact E.
Qed.

Lemma keeps_snoc arrs ys P : keeps arrs (arrs ++ ys) P.
Proof.
  split; [rewrite app_length; lia|]. split.
  - intros x Hx. unfold get_arr. rewrite app_nth1 by assumption. reflexivity.
  - intros x Hx _. unfold get_arr. rewrite app_nth1 by assumption. reflexivity.
Qed.

(* ---- reading a cell ---- *)
Lemma rd_idx arrs r i : valid arrs r -> rd arrs r i = idx (read_ref arrs r) i.
Proof.
  intros V. pose proof (read_ref_length _ _ V) as Hlen. unfold rd, idx. rewrite Hlen.
  destruct (i <? N.of_nat (r_len r))%N eqn:E; [|reflexivity].
  apply N.ltb_lt in E. assert (Hk : (N.to_nat i < r_len r)%nat) by lia.
  rewrite (nth_error_nth' _ 0%N) by (rewrite Hlen; exact Hk).
  unfold read_ref. rewrite nth_firstn_lt by exact Hk. rewrite nth_skipn_add. reflexivity.
Qed.

(* ---- writing a cell ---- *)
Lemma wr_spec arrs r i v : valid arrs r -> (i < r_len r)%nat ->
  keeps arrs (wr arrs r i v) (eq (r_arr r)) /\ length (wr arrs r i v) = length arrs /\
  read_ref (wr arrs r i v) r = set_nth (read_ref arrs r) i v.
Proof.
  intros [Va Vb] Hi. unfold wr. split; [|split].
  - split; [rewrite set_nth_length; lia|]. split.
    + intros x Hx. rewrite get_arr_set_nth by assumption.
      destruct (Nat.eqb_spec x (r_arr r)) as [->|]; [apply set_nth_length|reflexivity].
    + intros x Hx Hne. rewrite get_arr_set_nth by assumption.
      destruct (Nat.eqb_spec x (r_arr r)) as [->|]; [exfalso; apply Hne; reflexivity|reflexivity].
  - apply set_nth_length.
  - unfold read_ref. rewrite get_arr_set_nth, Nat.eqb_refl by assumption.
    rewrite skipn_set_nth, firstn_set_nth_comm. reflexivity.
Qed.

(* ---- overwriting a run of cells ---- *)
Lemma write_list_spec arrs a off vs : (a < length arrs)%nat -> (off + length vs <= length (get_arr arrs a))%nat ->
  keeps arrs (write_list arrs a off vs) (eq a) /\ length (write_list arrs a off vs) = length arrs /\
  forall len, (length vs <= len)%nat ->
    read_ref (write_list arrs a off vs) {| r_arr := a; r_off := off; r_len := len |} =
    vs ++ skipn (length vs) (read_ref arrs {| r_arr := a; r_off := off; r_len := len |}).
Proof.
  intros Ha Hb. unfold write_list. set (arr := get_arr arrs a) in *.
  assert (Hl : length (firstn off arr ++ vs ++ skipn (off + length vs) arr) = length arr).
  { rewrite !app_length, firstn_length, skipn_length. lia. }
  split; [|split].
  - split; [rewrite set_nth_length; lia|]. split.
    + intros x Hx. rewrite get_arr_set_nth by assumption.
      destruct (Nat.eqb_spec x a) as [->|]; [exact Hl|reflexivity].
    + intros x Hx Hne. rewrite get_arr_set_nth by assumption.
      destruct (Nat.eqb_spec x a) as [->|]; [exfalso; apply Hne; reflexivity|reflexivity].
  - apply set_nth_length.
  - intros len Hlen. unfold read_ref; cbn [r_arr r_off r_len].
    rewrite get_arr_set_nth, Nat.eqb_refl by assumption. fold arr.
    rewrite skipn_app, firstn_length, skipn_firstn_comm, Nat.sub_diag.
    replace (off - Nat.min off (length arr))%nat with 0%nat by lia. cbn [firstn skipn app].
    rewrite firstn_app. rewrite firstn_all2 by lia. f_equal.
    rewrite skipn_firstn_comm, skipn_add. reflexivity.
Qed.

Lemma copy_hdr_spec arrs dst src : valid arrs dst -> valid arrs src ->
  keeps arrs (copy_hdr arrs dst src) (eq (r_arr dst)) /\ length (copy_hdr arrs dst src) = length arrs /\
  read_ref (copy_hdr arrs dst src) dst =
    firstn (r_len dst) (read_ref arrs src) ++ skipn (Nat.min (r_len dst) (r_len src)) (read_ref arrs dst).
Proof.
  intros [Da Db] Vs. unfold copy_hdr.
  assert (Hl : length (firstn (r_len dst) (read_ref arrs src)) = Nat.min (r_len dst) (r_len src)).
  { rewrite firstn_length, (read_ref_length _ _ Vs). reflexivity. }
  destruct (write_list_spec arrs (r_arr dst) (r_off dst) (firstn (r_len dst) (read_ref arrs src)) Da) as (K & L & R).
  { rewrite Hl. lia. }
  split; [exact K|]. split; [exact L|].
  specialize (R (r_len dst)). rewrite Hl in R.
  destruct dst as [da doff dlen]; cbn [r_arr r_off r_len] in *. apply R. lia.
Qed.

Lemma fill_hdr_spec arrs dst vs : valid arrs dst ->
  keeps arrs (fill_hdr arrs dst vs) (eq (r_arr dst)) /\ length (fill_hdr arrs dst vs) = length arrs /\
  read_ref (fill_hdr arrs dst vs) dst =
    firstn (r_len dst) vs ++ skipn (Nat.min (r_len dst) (length vs)) (read_ref arrs dst).
Proof.
  intros [Da Db]. unfold fill_hdr.
  assert (Hl : length (firstn (r_len dst) vs) = Nat.min (r_len dst) (length vs)) by apply firstn_length.
  destruct (write_list_spec arrs (r_arr dst) (r_off dst) (firstn (r_len dst) vs) Da) as (K & L & R).
  { rewrite Hl. lia. }
  split; [exact K|]. split; [exact L|].
  specialize (R (r_len dst)). rewrite Hl in R.
  destruct dst as [da doff dlen]; cbn [r_arr r_off r_len] in *. apply R. lia.
Qed.

(* the two cases that occur: a full copy (equal lengths) and a copy from a nil slice *)
Lemma copy_hdr_full arrs dst src : valid arrs dst -> valid arrs src -> r_len src = r_len dst ->
  read_ref (copy_hdr arrs dst src) dst = read_ref arrs src.
Proof.
  intros Vd Vs E. destruct (copy_hdr_spec arrs dst src Vd Vs) as (_ & _ & R). rewrite R, E, Nat.min_id.
  rewrite firstn_all2 by (rewrite (read_ref_length _ _ Vs); lia).
  rewrite skipn_all2 by (rewrite (read_ref_length _ _ Vd); lia). apply app_nil_r.
Qed.
Lemma copy_hdr_nil arrs dst src : valid arrs dst -> valid arrs src -> r_len src = 0%nat ->
  read_ref (copy_hdr arrs dst src) dst = read_ref arrs dst.
Proof.
  intros Vd Vs E. destruct (copy_hdr_spec arrs dst src Vd Vs) as (_ & _ & R). rewrite R, E, Nat.min_0_r.
  pose proof (read_ref_length _ _ Vs) as Hl. rewrite E in Hl.
  destruct (read_ref arrs src); [|discriminate]. rewrite firstn_nil. reflexivity.
Qed.
Lemma fill_hdr_full arrs dst vs : valid arrs dst -> length vs = r_len dst ->
  read_ref (fill_hdr arrs dst vs) dst = vs.
Proof.
  intros Vd E. destruct (fill_hdr_spec arrs dst vs Vd) as (_ & _ & R). rewrite R, E, Nat.min_id.
  rewrite firstn_all2 by lia.
  rewrite skipn_all2 by (rewrite (read_ref_length _ _ Vd); lia). apply app_nil_r.
Qed.
