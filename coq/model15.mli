
val negb : bool -> bool

type nat =
| O
| S of nat

type ('a, 'b) sum =
| Inl of 'a
| Inr of 'b

val fst : ('a1 * 'a2) -> 'a1

val snd : ('a1 * 'a2) -> 'a2

val length : 'a1 list -> nat

val app : 'a1 list -> 'a1 list -> 'a1 list

type comparison =
| Eq
| Lt
| Gt

val compOpp : comparison -> comparison

val add : nat -> nat -> nat

val mul : nat -> nat -> nat

val sub : nat -> nat -> nat

type positive =
| XI of positive
| XO of positive
| XH

type n =
| N0
| Npos of positive

type z =
| Z0
| Zpos of positive
| Zneg of positive

val eqb : bool -> bool -> bool

module Nat :
 sig
  val eqb : nat -> nat -> bool
 end

module Pos :
 sig
  type mask =
  | IsNul
  | IsPos of positive
  | IsNeg
 end

module Coq_Pos :
 sig
  val succ : positive -> positive

  val add : positive -> positive -> positive

  val add_carry : positive -> positive -> positive

  val pred_double : positive -> positive

  val pred_N : positive -> n

  type mask = Pos.mask =
  | IsNul
  | IsPos of positive
  | IsNeg

  val succ_double_mask : mask -> mask

  val double_mask : mask -> mask

  val double_pred_mask : positive -> mask

  val sub_mask : positive -> positive -> mask

  val sub_mask_carry : positive -> positive -> mask

  val mul : positive -> positive -> positive

  val iter : ('a1 -> 'a1) -> 'a1 -> positive -> 'a1

  val pow : positive -> positive -> positive

  val compare_cont : comparison -> positive -> positive -> comparison

  val compare : positive -> positive -> comparison

  val eqb : positive -> positive -> bool

  val coq_Nsucc_double : n -> n

  val coq_Ndouble : n -> n

  val coq_lor : positive -> positive -> positive

  val coq_land : positive -> positive -> n

  val ldiff : positive -> positive -> n

  val coq_lxor : positive -> positive -> n

  val shiftl : positive -> n -> positive

  val iter_op : ('a1 -> 'a1 -> 'a1) -> positive -> 'a1 -> 'a1

  val to_nat : positive -> nat

  val of_succ_nat : nat -> positive
 end

module N :
 sig
  val succ_double : n -> n

  val double : n -> n

  val succ : n -> n

  val pred : n -> n

  val add : n -> n -> n

  val sub : n -> n -> n

  val mul : n -> n -> n

  val compare : n -> n -> comparison

  val eqb : n -> n -> bool

  val leb : n -> n -> bool

  val ltb : n -> n -> bool

  val div2 : n -> n

  val pow : n -> n -> n

  val pos_div_eucl : positive -> n -> n * n

  val div_eucl : n -> n -> n * n

  val modulo : n -> n -> n

  val coq_lor : n -> n -> n

  val coq_land : n -> n -> n

  val ldiff : n -> n -> n

  val coq_lxor : n -> n -> n

  val shiftl : n -> n -> n

  val shiftr : n -> n -> n

  val to_nat : n -> nat

  val of_nat : nat -> n

  val ones : n -> n
 end

module Z :
 sig
  val double : z -> z

  val succ_double : z -> z

  val pred_double : z -> z

  val pos_sub : positive -> positive -> z

  val add : z -> z -> z

  val opp : z -> z

  val sub : z -> z -> z

  val mul : z -> z -> z

  val pow_pos : z -> positive -> z

  val pow : z -> z -> z

  val compare : z -> z -> comparison

  val leb : z -> z -> bool

  val ltb : z -> z -> bool

  val to_N : z -> n

  val of_N : n -> z

  val pos_div_eucl : positive -> z -> z * z

  val div_eucl : z -> z -> z * z

  val modulo : z -> z -> z

  val even : z -> bool
 end

val hd : 'a1 -> 'a1 list -> 'a1

val nth : nat -> 'a1 list -> 'a1 -> 'a1

val nth_error : 'a1 list -> nat -> 'a1 option

val flat_map : ('a1 -> 'a2 list) -> 'a1 list -> 'a2 list

val fold_left : ('a1 -> 'a2 -> 'a1) -> 'a2 list -> 'a1 -> 'a1

val fold_right : ('a2 -> 'a1 -> 'a1) -> 'a1 -> 'a2 list -> 'a1

val existsb : ('a1 -> bool) -> 'a1 list -> bool

val combine : 'a1 list -> 'a2 list -> ('a1 * 'a2) list

val seq : nat -> nat -> nat list

val repeat : 'a1 -> nat -> 'a1 list

val m64 : n

val u64 : n -> n

type consts = { size : n; cL : n; cR : n; cT : n; cB : n; cEdge : n; cMask : n }

val precR : nat -> n -> n

val precompute : n -> consts

val grow : consts -> n -> n -> n

val flood : nat -> consts -> n -> n -> n option

type 'a res =
| Ok of 'a
| Err
| Panic

val bind : 'a1 res -> ('a1 -> 'a2 res) -> 'a2 res

val wrap8 : z -> z

val u8 : n -> n

val uint_of_int : z -> n

val bit : n -> n

val shl64 : n -> n -> n

val shr64 : n -> n -> n

val has : n -> n -> bool

val setb : n -> n -> n

val clrb : n -> n -> n

val idx : 'a1 list -> n -> 'a1 res

val nthN : n list -> n -> n

val updN : n list -> nat -> n -> n list

type position = { size0 : n; black_wins_ties : bool; whiteStones : n;
                  whiteCaps : n; blackStones : n; blackCaps : n; move : 
                  z; white : n; black : n; standing : n; caps : n;
                  height : n list; stacks : n list; hash : n }

val to_move_white : position -> bool

val hash_at : (n -> n -> n -> n) -> n list -> n list -> n -> n

type rmove = { mX : z; mY : z; mT : n; mS : n }

val nibbles : nat -> n -> n list

type pkind =
| KNone
| KFlat
| KStanding
| KCap

val top_at : position -> z -> z -> bool option * pkind

val sq_index : position -> z -> z -> n

type bstate = { bw : n; bb : n; bs : n; bc : n; bhs : n list; bst : n list;
                bh : n }

val in_board : position -> z -> z -> bool

val drop_at :
  (n -> n -> n -> n) -> pkind -> n -> n -> n -> n -> bstate -> bstate res

val drops :
  (n -> n -> n -> n) -> position -> pkind -> n -> z -> z -> z -> z -> n -> n
  list -> bstate -> bstate res

val move_prealloc :
  (n -> n -> n -> n) -> bool -> position -> rmove -> position res

val flood_groups : nat -> consts -> n -> n -> n list -> n list option

val groups : consts -> n -> n list option

val popcount_pos : positive -> n

val popcount : n -> n

val spans : consts -> n -> bool

type gcolor =
| GWhite
| GBlack
| GNone

val has_road : position -> n list -> n list -> gcolor option

val count_flats : position -> n * n

val flats_winner : position -> gcolor

val analyze : position -> (n list * n list) option

val game_over : position -> (bool * gcolor) option

val fnvPrime : n

val fnvBasis : n

val mul64 : n -> n -> n

val hash8 : n -> n -> n

val hash64 : n -> n -> n

val hash_sq : n list -> n -> n -> n -> n

val default_pieces : n list

val default_caps : n list

type pc =
| P of bool * n

val from_squares : n list -> n -> pc list list list -> z -> position

type 'move line =
| LMove of 'move
| LTime
| LReqUndo
| LUndo
| LOver
| LAbandoned
| LOther

type 'move event =
| Line of 'move line
| Answer of 'move
| Grace

type ('pos, 'move) sent = { s_pos : 'pos; s_for : 'pos; s_move : 'move }

type ('pos, 'move) state = { hist : 'pos list; moves : 'move list;
                             spawned_on : 'pos; enabled : bool;
                             answered : bool; armed : bool;
                             out : ('pos, 'move) sent list; undo_acks : 
                             nat; ended : bool; crashed : bool }

val cur : 'a1 -> ('a1, 'a2) state -> 'a1

val restart : ('a1 -> bool) -> 'a1 -> ('a1, 'a2) state -> ('a1, 'a2) state

val init : ('a1 -> bool) -> 'a1 -> ('a1, 'a2) state

val step :
  ('a1 -> 'a2 -> 'a1 option) -> ('a1 -> bool) -> ('a1 -> bool) -> 'a1 -> bool
  -> bool -> ('a1, 'a2) state -> 'a2 event -> ('a1, 'a2) state

val bot_apply : position -> rmove -> position option

val bot_over : position -> bool

val bot_start : n -> position

val bot_init : n -> bool -> (position, rmove) state

val bot_step :
  n -> bool -> bool -> (position, rmove) state -> rmove event -> (position,
  rmove) state
