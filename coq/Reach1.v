(* C01: the start position satisfies the invariant (new_ok) and every position reachable from it by
   replaying raw move values satisfies it and abstracts to what the rules reach (reachable_ok). *)
From Coq Require Import NArith ZArith Arith List Bool Lia ZifyN ZifyBool ZifyNat.
Require Import Board Stack Rules Move Refine RefinePlace RefinePlace2 RefinePlace3 Slide1 Slide2 Slide3 Slide4 Slide5 Slide6 Slide7 Slide8 MoveRefines HashInv GameOver Preserve1 Preserve2 PreserveExt Preserve3 Preserve4 Preserve5 Preserve6.
Require Import Alloc Tps Generated.Consts.
Import ListNotations.
Ltac Zify.zify_post_hook ::= Z.div_mod_to_equations.

(* ---- tak.New ---- *)
Lemma xsum_zero f n : (forall j, (j < n)%nat -> f j = 0%N) -> xsum f n = 0%N.
Proof.
  induction n as [|n IH]; intros H; [reflexivity|]. rewrite xsum_S, IH by (intros; apply H; lia). rewrite H by lia. reflexivity.
Qed.

Lemma nthN_repeat0 n i : nthN (repeat 0%N n) i = 0%N.
Proof. unfold nthN. destruct (lt_dec (N.to_nat i) n); [apply nth_repeat|]. apply nth_overflow. rewrite repeat_length. lia. Qed.

Lemma has_zero i : has 0 i = false.
Proof. reflexivity. Qed.

(* the rules' start position with the tie-break flag of the configuration *)
Definition rules_start (size : nat) (pieces caps : N) (bwt : bool) : apos :=
  {| n := size; sq := repeat [] (size * size); wstones := pieces; wcaps := caps; bstones := pieces; bcaps := caps;
     ply := 0; Rules.black_wins_ties := bwt |}.
Lemma rules_start_false size pieces caps : rules_start size pieces caps false = Rules.start size pieces caps.
Proof. reflexivity. Qed.

Theorem new_ok sz bwt stones caps : (3 <= sz <= 8)%N -> (stones < 256)%N -> (caps < 256)%N ->
  pos_ok (new_pos sz bwt stones caps) /\
  abs (new_pos sz bwt stones caps) = rules_start (N.to_nat sz) stones caps bwt /\
  total (new_pos sz bwt stones caps) = (2 * (stones + caps))%N.
Proof.
  intros Hsz Hst Hc. set (p := new_pos sz bwt stones caps).
  assert (Hn : N.to_nat (sz * sz) = nsq sz) by (unfold nsq; lia).
  assert (HH : forall i, nthN (Height p) i = 0%N) by (intros; apply nthN_repeat0).
  assert (HS : forall i, nthN (Stacks p) i = 0%N) by (intros; apply nthN_repeat0).
  split; [|split].
  - assert (LH : length (Height p) = nsq sz) by (cbn [p new_pos Height]; now rewrite repeat_length).
    assert (LS : length (Stacks p) = nsq sz) by (cbn [p new_pos Stacks]; now rewrite repeat_length).
    refine (Build_pos_ok p Hsz _ _ _).
    + refine (Build_board_ok (size p) (bview p) LH LS _).
      intros i Hi. constructor; cbn [bview bhs bw bb bs bc]; rewrite ?HH; cbn [p new_pos White Move.Black Standing Caps]; rewrite ?has_zero; try tauto; lia.
    + repeat split; assumption.
    + refine (Build_ext_ok (size p) (bview p) LH LS _ _ _).
      * intros i Hi j Hj. cbn [bview bst]. rewrite HS. apply N.bits_0.
      * repeat split; intros j Hj; apply N.bits_0.
      * unfold hash_inv, hsum. cbn [bview bh bhs bst p new_pos hash Height Stacks].
        rewrite xsum_zero; [now rewrite N.lxor_0_r|].
        intros j Hj. apply hash_at_low. rewrite nthN_repeat0. lia.
  - unfold abs, rules_start. cbn [p new_pos size whiteStones whiteCaps blackStones blackCaps move Move.black_wins_ties].
    f_equal. set (k := (N.to_nat sz * N.to_nat sz)%nat).
    apply (nth_ext _ _ [] []); [now rewrite map_length, seq_length, repeat_length|].
    intros j Hj. rewrite map_length, seq_length in Hj. rewrite nth_repeat.
    rewrite nth_indep with (d' := abs_stack (new_pos sz bwt stones caps) (N.of_nat 0)) by (rewrite map_length, seq_length; exact Hj).
    rewrite (map_nth (fun i => abs_stack (new_pos sz bwt stones caps) (N.of_nat i))), seq_nth by exact Hj.
    apply abs_stack_empty. apply HH.
  - unfold total. cbn [p new_pos Height whiteStones whiteCaps blackStones blackCaps]. rewrite sumH_repeat0. lia.
Qed.
Print Assumptions new_ok.

(* tak.New as the other models spell it (FromSquares of an empty board, default reserves) is new_pos *)
Lemma from_squares_empty_is_new : forall sz, In sz [3; 4; 5; 6; 7; 8]%N ->
  Tps.from_squares gen_basis sz (repeat (repeat [] (N.to_nat sz)) (N.to_nat sz)) 0 =
  new_pos sz false (nth (N.to_nat sz) gen_defaultPieces 0%N) (nth (N.to_nat sz) gen_defaultCaps 0%N).
Proof. intros sz H. cbn [In] in H. repeat (destruct H as [<-|H]; [vm_compute; reflexivity|]). contradiction. Qed.

(* ---- replaying raw move values ---- *)
Fixpoint replay (p : position) (ms : list rmove) : res position :=
  match ms with
  | [] => Ok p
  | m :: r => match mv p m with Ok q => replay q r | Err => Err | Panic => Panic end
  end.

Lemma play_none ms : fold_left (fun o m => match o with Some q => rules_move q m | None => None end) ms None = None.
Proof. induction ms; cbn; auto. Qed.

Lemma play_cons a m ms : play a (m :: ms) = match rules_move a m with Some q => play q ms | None => None end.
Proof. unfold play. cbn [fold_left]. destruct (rules_move a m); [reflexivity|apply play_none]. Qed.

Lemma replay_app p ms1 ms2 : replay p (ms1 ++ ms2) = match replay p ms1 with Ok q => replay q ms2 | Err => Err | Panic => Panic end.
Proof. revert p. induction ms1 as [|m ms1 IH]; intros p; cbn [replay app]; [reflexivity|]. destruct (mv p m); auto. Qed.

Definition no_pass (ms : list rmove) : Prop := Forall (fun m => mT m <> 1%N) ms.

(* Replaying any list of raw move values from a position satisfying the invariant, in a game with at
   most 64 pieces: the replay fails exactly when the rules reject one of the moves, never panics, and
   the position reached satisfies the invariant and abstracts to the position the rules reach. *)
Theorem replay_refines : forall ms p, pos_ok p -> (total p <= 64)%N -> no_pass ms ->
  match replay p ms with
  | Ok q => play (abs p) (map raw ms) = Some (abs q) /\ pos_ok q /\ total q = total p /\ size q = size p /\
            Move.black_wins_ties q = Move.black_wins_ties p /\ move q = (move p + Z.of_nat (length ms))%Z
  | Err => play (abs p) (map raw ms) = None
  | Panic => False
  end.
Proof.
  induction ms as [|m ms IH]; intros p Hp Ht Hnp.
  - cbn [replay map length]. split; [reflexivity|]. split; [exact Hp|]. split; [reflexivity|]. split; [reflexivity|]. split; [reflexivity|]. cbn. lia.
  - inversion Hnp as [|? ? Hm Hnp']; subst. cbn [replay map]. rewrite play_cons.
    assert (R := move_exact p m Hp Hm).
    destruct (mv p m) as [q| |] eqn:E; [|now rewrite R|exact R].
    destruct (move_preserves_small p m q Hp Ht Hm E) as (R1 & R2 & R3). rewrite R1.
    destruct R3 as [S1 S2 S3 S4 S5 S6].
    assert (I := IH q R2 ltac:(lia) Hnp'). destruct (replay q ms) as [r| |]; [|exact I|exact I].
    destruct I as (I1 & I2 & I3 & I4 & I5 & I6). split; [exact I1|]. split; [exact I2|]. split; [congruence|]. split; [congruence|]. split; [congruence|]. cbn [length]. lia.
Qed.
Print Assumptions replay_refines.

(* the same for any game, under the exact representation limit: no position on the way has a stack above 64 *)
Theorem replay_refines64 : forall ms p, pos_ok p -> no_pass ms ->
  (forall ms1 ms2 q, ms = ms1 ++ ms2 -> replay p ms1 = Ok q -> heights64 q) ->
  match replay p ms with
  | Ok q => play (abs p) (map raw ms) = Some (abs q) /\ pos_ok q /\ total q = total p /\ size q = size p
  | Err => play (abs p) (map raw ms) = None
  | Panic => False
  end.
Proof.
  induction ms as [|m ms IH]; intros p Hp Hnp H64.
  - cbn [replay map]. split; [reflexivity|]. split; [exact Hp|]. split; reflexivity.
  - inversion Hnp as [|? ? Hm Hnp']; subst. cbn [replay map]. rewrite play_cons.
    assert (R := move_exact p m Hp Hm).
    destruct (mv p m) as [q| |] eqn:E; [|now rewrite R|exact R].
    destruct R as (s & R1 & R2 & R3 & R4).
    assert (Hq : heights64 q) by (apply (H64 [m] ms q eq_refl); cbn [replay]; now rewrite E).
    destruct (R4 Hq) as [-> Q]. rewrite R1.
    destruct R2 as [S1 S2 S3 S4 S5 S6].
    assert (I := IH q Q Hnp'). destruct (replay q ms) as [r| |] eqn:Er.
    + destruct I as (I1 & I2 & I3 & I4).
      { intros ms1 ms2 q' -> Hr. apply (H64 (m :: ms1) ms2 q' eq_refl). cbn [replay]. now rewrite E. }
      split; [exact I1|]. split; [exact I2|]. split; congruence.
    + apply I. intros ms1 ms2 q' -> Hr. apply (H64 (m :: ms1) ms2 q' eq_refl). cbn [replay]. now rewrite E.
    + apply I. intros ms1 ms2 q' -> Hr. apply (H64 (m :: ms1) ms2 q' eq_refl). cbn [replay]. now rewrite E.
Qed.
Print Assumptions replay_refines64.

(* ---- reachability from tak.New ---- *)
Definition reachable (sz : N) (bwt : bool) (stones caps : N) (p : position) : Prop :=
  exists ms, no_pass ms /\ replay (new_pos sz bwt stones caps) ms = Ok p.

Theorem reachable_ok sz bwt stones caps ms p :
  (3 <= sz <= 8)%N -> (2 * (stones + caps) <= 64)%N -> no_pass ms ->
  replay (new_pos sz bwt stones caps) ms = Ok p ->
  pos_ok p /\ total p = (2 * (stones + caps))%N /\ size p = sz /\
  play (rules_start (N.to_nat sz) stones caps bwt) (map raw ms) = Some (abs p).
Proof.
  intros Hsz Hc Hnp Hr.
  destruct (new_ok sz bwt stones caps Hsz ltac:(lia) ltac:(lia)) as (N1 & N2 & N3).
  assert (R := replay_refines ms _ N1 ltac:(lia) Hnp). rewrite Hr in R.
  destruct R as (R1 & R2 & R3 & R4 & _). rewrite N2 in R1. rewrite N3 in R3. auto.
Qed.

(* every position on the way *)
Corollary reachable_prefix_ok sz bwt stones caps ms1 ms2 p :
  (3 <= sz <= 8)%N -> (2 * (stones + caps) <= 64)%N -> no_pass (ms1 ++ ms2) ->
  replay (new_pos sz bwt stones caps) (ms1 ++ ms2) = Ok p ->
  exists q, replay (new_pos sz bwt stones caps) ms1 = Ok q /\ pos_ok q /\
            play (rules_start (N.to_nat sz) stones caps bwt) (map raw ms1) = Some (abs q).
Proof.
  intros Hsz Hc Hnp Hr. rewrite replay_app in Hr.
  destruct (replay (new_pos sz bwt stones caps) ms1) as [q| |] eqn:E; try discriminate.
  exists q. split; [reflexivity|].
  apply Forall_app in Hnp as [Hnp1 _].
  destruct (reachable_ok sz bwt stones caps ms1 q Hsz Hc Hnp1 E) as (A & _ & _ & B). auto.
Qed.

(* with the default piece counts of sizes 3..6 (20, 30, 44, 62 pieces) no height hypothesis is left *)
Corollary reachable_ok_default sz bwt ms p : (3 <= sz <= 6)%N -> no_pass ms ->
  let stones := nth (N.to_nat sz) gen_defaultPieces 0%N in let caps := nth (N.to_nat sz) gen_defaultCaps 0%N in
  replay (new_pos sz bwt stones caps) ms = Ok p ->
  pos_ok p /\ play (rules_start (N.to_nat sz) stones caps bwt) (map raw ms) = Some (abs p).
Proof.
  intros Hsz Hnp stones caps Hr.
  assert (Hc : (2 * (stones + caps) <= 64)%N).
  { subst stones caps. assert (sz = 3 \/ sz = 4 \/ sz = 5 \/ sz = 6)%N as [->|[->|[->| ->]]] by lia; vm_compute; discriminate. }
  destruct (reachable_ok sz bwt stones caps ms p ltac:(lia) Hc Hnp Hr) as (A & _ & _ & B). auto.
Qed.
Print Assumptions reachable_ok_default.
