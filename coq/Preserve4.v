(* C01 strengthening, part 4: the drop loop simulates the rules' `deal` WITHOUT a height hypothesis.
   The abstract board B is carried along separately: it agrees with the concrete board in the length
   and top piece of every stack, and entirely on every square whose height is at most 64. *)
From Coq Require Import NArith ZArith Arith List Bool Lia ZifyN ZifyBool ZifyNat.
Require Import Board Stack Rules Move Refine RefinePlace RefinePlace2 RefinePlace3 Slide1 Slide2 Slide3 Slide4 Slide5 Slide6 Slide7 Slide8 MoveRefines HashInv GameOver Preserve1 Preserve2 PreserveExt Preserve3.
Import ListNotations.
Ltac Zify.zify_post_hook ::= Z.div_mod_to_equations.

Lemma upd_len {A} : forall (l : list A) i v, length (upd l i v) = length l.
Proof. induction l as [|a l IH]; intros [|i] v; cbn; auto. Qed.

Lemma nth_upd_eq {A} : forall (l : list A) i v d, (i < length l)%nat -> nth i (upd l i v) d = v.
Proof. induction l as [|a l IH]; intros [|i] v d H; cbn in *; try lia; auto. apply IH. lia. Qed.

Lemma nth_upd_ne {A} : forall (l : list A) i j v d, i <> j -> nth j (upd l i v) d = nth j l d.
Proof. induction l as [|a l IH]; intros [|i] [|j] v d H; cbn; auto; try lia. Qed.

Definition inv_sq (B : list (list piece)) (b : bstate) (j : N) : Prop :=
  sq_okw b j /\ length (nth (N.to_nat j) B []) = N.to_nat (nthN (bhs b) j) /\
  hd_error (nth (N.to_nat j) B []) = hd_error (abs_stack_b b j) /\
  ((nthN (bhs b) j <= 64)%N -> nth (N.to_nat j) B [] = abs_stack_b b j).

Record inv_bd (sz : N) (B : list (list piece)) (b : bstate) : Prop := {
  ib_lenB : length B = nsq sz;
  ib_lenH : length (bhs b) = nsq sz;
  ib_lenS : length (bst b) = nsq sz;
  ib_sq : forall j, (j < sz * sz)%N -> inv_sq B b j }.

(* a consistent board is related to its own abstraction *)
Lemma inv_bd_refl sz b : board_ok sz b -> inv_bd sz (abs_board sz b) b.
Proof.
  intros [LH LS SQ]. constructor; auto.
  - unfold abs_board. now rewrite map_length, seq_length.
  - intros j Hj. unfold inv_sq. rewrite nth_abs_board by (unfold nsq; nia).
    split; [apply sq_ok_w, SQ, Hj|]. split; [apply length_abs_stack_b|]. split; reflexivity.
Qed.

(* and back, once every height fits *)
Lemma inv_bd_exact sz B b : inv_bd sz B b -> (forall j, (j < sz * sz)%N -> (nthN (bhs b) j <= 64)%N) ->
  B = abs_board sz b /\ board_ok sz b.
Proof.
  intros [LB LH LS SQ] Hh. split.
  - apply (nth_ext _ _ [] []).
    + unfold abs_board. now rewrite map_length, seq_length.
    + intros k Hk. rewrite LB in Hk. replace k with (N.to_nat (N.of_nat k)) by lia.
      rewrite nth_abs_board by (rewrite Nat2N.id; exact Hk).
      assert (Hj : (N.of_nat k < sz * sz)%N) by (unfold nsq in Hk; nia).
      destruct (SQ _ Hj) as (_ & _ & _ & E). apply E, Hh, Hj.
  - constructor; auto. intros j Hj. destruct (SQ j Hj) as (W & _). apply sq_okw_ok; auto.
Qed.

Lemma drops_sim p P topk stack d : forall ds x y ct b B,
  Rules.n P = N.to_nat (size p) -> (3 <= size p <= 8)%N ->
  (0 <= x < Z.of_N (size p))%Z -> (0 <= y < Z.of_N (size p))%Z ->
  inv_bd (size p) B b -> ext_ok (size p) b ->
  Forall (fun c => 1 <= c)%N ds -> sumN ds = ct -> (ct <= 64)%N ->
  (forall i, (i < size p * size p)%N -> nthN (bhs b) i + ct <= 255)%N ->
  match drops hsq p topk stack (fst (delta d)) (snd (delta d)) x y ct ds b with
  | Ok r => exists B', deal P B d x y (carried topk stack (N.to_nat ct)) ds = Some B' /\
                       inv_bd (size p) B' r /\ ext_ok (size p) r /\ (sumH (bhs r) = sumH (bhs b) + ct)%N
  | Err => deal P B d x y (carried topk stack (N.to_nat ct)) ds = None
  | Panic => False
  end.
Proof.
  induction ds as [|c ds IH]; intros x y ct b B Hn Hs Hx Hy Hinv Hext Hpos Hsum Hct Hfit.
  - cbn in Hsum. subst ct. cbn. exists B. split; [reflexivity|]. split; [assumption|]. split; [assumption|lia].
  - inversion Hpos as [|? ? Hc Hpos']; subst.
    cbn [drops deal]. destruct (delta d) as [dx dy] eqn:Ed. cbn [fst snd].
    assert (Hd : (-1 <= dx <= 1 /\ -1 <= dy <= 1)%Z) by (destruct d; cbn in Ed; injection Ed as <- <-; lia).
    rewrite (wrap8_id (x + dx)), (wrap8_id (y + dy)) by lia.
    rewrite (in_board_on_board p P) by (auto; lia).
    destruct (on_board P (x + dx) (y + dy)) eqn:Eob; cbn [negb]; [|reflexivity].
    assert (Hx' : (0 <= x + dx < Z.of_N (size p))%Z /\ (0 <= y + dy < Z.of_N (size p))%Z).
    { unfold on_board in Eob. rewrite Hn, N_nat_Z in Eob. lia. }
    destruct Hx' as [Hx' Hy'].
    rewrite sumN_cons in *.
    replace ((c <? 1)%N || (c + sumN ds <? c)%N) with false by lia.
    destruct (sq_index_on_board p (x + dx) (y + dy) Hs Hx' Hy') as [Ei Li].
    set (i := sq_index p (x + dx) (y + dy)) in *.
    assert (Hidx : Rules.idx P (x + dx) (y + dy) = N.to_nat i).
    { unfold Rules.idx. rewrite Hn, Ei. nia. }
    rewrite Hidx.
    assert (Hinv' := Hinv). destruct Hinv' as [LB LH LS SQ].
    assert (Hi64 : (i < 64)%N) by nia.
    assert (Hil : (N.to_nat i < nsq (size p))%nat) by (unfold nsq; nia).
    destruct (SQ i Li) as (W & TL & TH & TE).
    assert (L := drop_at_sim topk stack (c + sumN ds) c i b (nth (N.to_nat i) B []) Hi64 ltac:(lia) ltac:(lia) W ltac:(lia) Hct
                   ltac:(specialize (Hfit i Li); lia) TL TH TE).
    destruct (drop_at hsq topk stack (c + sumN ds) c i b) as [b'| |]; cbn [bind]; [|rewrite L; reflexivity|contradiction].
    destruct L as (s & L1 & W' & SE & EH & (sv & ES) & SL & SH & SX & SXT). rewrite L1.
    rewrite carried_length, firstn_carried by lia.
    replace (N.to_nat (c + sumN ds) - N.to_nat c)%nat with (N.to_nat (c + sumN ds - c)) by lia.
    replace (c + sumN ds - c)%N with (sumN ds) by lia.
    assert (Ehi : nthN (bhs b') i = (nthN (bhs b) i + c)%N) by (rewrite EH, nthN_updN, Nat.eqb_refl by lia; reflexivity).
    assert (Hinv1 : inv_bd (size p) (upd B (N.to_nat i) s) b').
    { constructor.
      - now rewrite upd_len.
      - now rewrite EH, updN_length.
      - now rewrite ES, updN_length.
      - intros j Hj. destruct (N.eq_dec j i) as [->|Hne].
        + unfold inv_sq. rewrite nth_upd_eq by lia. rewrite Ehi. split; [exact W'|split; [exact SL|split; [exact SH|exact SX]]].
        + assert (Hj64 : (j < 64)%N) by nia. destruct SE as (_ & _ & Eo). destruct (Eo j Hj64 Hne) as (A1 & A2 & A3 & A4 & A5 & A6).
          destruct (SQ j Hj) as (Wj & TLj & THj & TEj).
          unfold inv_sq. rewrite nth_upd_ne by lia. rewrite A1.
          rewrite (abs_stack_b_ext b b' j) by assumption.
          split; [eapply sq_okw_ext; eauto|]. split; [exact TLj|split; [exact THj|exact TEj]]. }
    assert (Hsum1 : (sumH (bhs b') = sumH (bhs b) + c)%N).
    { assert (E := sumH_updN (bhs b) (N.to_nat i) (nthN (bhs b) i + c)%N ltac:(lia)).
      rewrite <- EH in E. change (nth (N.to_nat i) (bhs b) 0%N) with (nthN (bhs b) i) in E. lia. }
    assert (IH' := IH (x + dx)%Z (y + dy)%Z (sumN ds) b' (upd B (N.to_nat i) s) Hn Hs Hx' Hy' Hinv1 (SXT (size p) Hs Li Hext) Hpos' eq_refl ltac:(lia)).
    cbn [fst snd] in IH'.
    assert (Hfit1 : forall j, (j < size p * size p)%N -> (nthN (bhs b') j + sumN ds <= 255)%N).
    { intros j Hj. destruct (N.eq_dec j i) as [->|Hne].
      - rewrite Ehi. specialize (Hfit i Li). lia.
      - rewrite EH, nthN_updN by lia. replace (N.to_nat j =? N.to_nat i)%nat with false by lia. specialize (Hfit j Hj). lia. }
    specialize (IH' Hfit1).
    destruct (drops hsq p topk stack dx dy (x + dx) (y + dy) (sumN ds) ds b') as [r| |]; [|exact IH'|exact IH'].
    destruct IH' as (B' & D1 & D2 & D4 & D3). exists B'. split; [exact D1|]. split; [exact D2|]. split; [exact D4|]. lia.
Qed.
Print Assumptions drops_sim.
