(* C15, layer 2b: a move Canonical accepts has its origin on the board - for ANY int8 coordinates, through the code's wrapping flips.
   (So the geometric reading of the symmetries, which needs coordinates near the board, applies to every accepted move.) *)
From Coq Require Import NArith ZArith Arith List Bool Lia ZifyN ZifyBool ZifyNat.
Require Import Rules Sym SymRules1 SymRules2 SymRules4.
Require Import Board Stack Move GameOver Tps Symmetry CanonFacts Refine SymCode1 Canon1 Canon2.
Require Import Generated.Consts.
Import ListNotations.
Close Scope Z_scope. Close Scope N_scope.
Local Ltac Zify.zify_post_hook ::= Z.div_mod_to_equations.

Definition int8 (z : Z) : Prop := (-128 <= z < 128)%Z.
Definition onbz (s : nat) (x y : Z) : Prop := (0 <= x < Z.of_nat s /\ 0 <= y < Z.of_nat s)%Z.

Lemma wrap8_int8 z : int8 (wrap8 z).
Proof. unfold int8, wrap8. lia. Qed.

(* the code's k-th symmetry keeps int8 values int8, and maps only board squares onto board squares *)
Lemma csym_int8 s k x y : int8 x -> int8 y -> int8 (fst (csym s k x y)) /\ int8 (snd (csym s k x y)).
Proof.
  intros Hx Hy. unfold csym, syms, int8 in *.
  do 8 (destruct k as [|k]; [cbn [nth fst snd]; split; (lia || apply wrap8_int8)|]).
  cbn [nth]. unfold idsym. destruct k; cbn [fst snd]; lia.
Qed.

Lemma csym_onboard_inv s k x y : k < 8 -> size_ok s -> int8 x -> int8 y ->
  onbz s (fst (csym s k x y)) (snd (csym s k x y)) -> onbz s x y.
Proof.
  intros Hk Hs Hx Hy. unfold csym, syms, onbz, int8, size_ok in *.
  do 8 (destruct k as [|k]; [cbn [nth fst snd]; unfold wrap8; lia|]). lia.
Qed.

Definition rots_ok (s : nat) (rots : list symfn) : Prop := Forall (fun r => exists i, i < 8 /\ r = csym s i) rots.

Lemma compose_nil x y : compose [] x y = (x, y).
Proof. reflexivity. Qed.

Lemma compose_int8 s rots : rots_ok s rots -> forall x y, int8 x -> int8 y ->
  int8 (fst (compose rots x y)) /\ int8 (snd (compose rots x y)).
Proof.
  induction 1 as [|r rs (i & Hi & ->) Hrs IH]; intros x y Hx Hy; [rewrite compose_nil; split; assumption|].
  rewrite compose_cons. destruct (IH x y Hx Hy) as [Ha Hb]. destruct (compose rs x y) as [a b]. cbn [fst snd] in *.
  now apply csym_int8.
Qed.

Lemma compose_onboard_inv s rots : size_ok s -> rots_ok s rots -> forall x y, int8 x -> int8 y ->
  onbz s (fst (compose rots x y)) (snd (compose rots x y)) -> onbz s x y.
Proof.
  intros Hs. induction 1 as [|r rs (i & Hi & ->) Hrs IH]; intros x y Hx Hy H; [now rewrite compose_nil in H|].
  rewrite compose_cons in H. destruct (compose_int8 s rs Hrs x y Hx Hy) as [Ha Hb].
  specialize (IH x y Hx Hy). destruct (compose rs x y) as [a b]. cbn [fst snd] in *.
  apply IH. now apply (csym_onboard_inv s i a b).
Qed.

(* TransformMove maps the origin by the symmetry, whatever else it does *)
Lemma transform_move_origin t m m' : transform_move t m = Ok m' -> (mX m', mY m') = t (mX m) (mY m).
Proof.
  unfold transform_move. destruct (t (mX m) (mY m)) as [ox oy].
  destruct (mT m <? 5)%N; [intros H; inversion H; reflexivity|].
  destruct (dest m) as [[dx0 dy0]| |]; try discriminate. destruct (t dx0 dy0) as [dx dy].
  repeat match goal with |- (if ?c then _ else _) = _ -> _ => destruct c end; intros H; inversion H; reflexivity.
Qed.

(* Position.Move (repaired) accepts only on-board origins *)
Lemma cmv_ok_onboard p m q : cmv p m = Ok q -> (0 <= mX m < Z.of_N (size p) /\ 0 <= mY m < Z.of_N (size p))%Z.
Proof.
  intros H. destruct (N.eq_dec (mT m) 1) as [E|E].
  - exfalso. unfold mvp, move_prealloc in H. rewrite E in H. rewrite andb_false_r in H. discriminate.
  - unfold mvp, move_prealloc in H.
    destruct ((mX m <? 0)%Z || (Z.of_N (size p) <=? mX m)%Z || (mY m <? 0)%Z || (Z.of_N (size p) <=? mY m)%Z) eqn:Eb; [|lia].
    exfalso. replace (mT m =? 1)%N with false in H by lia. cbn [andb negb] in H. discriminate.
Qed.

(* what the candidate loop can return, without assuming anything about the move *)
Lemma cand_fold_weak s h m1 : forall l st0 best rot,
  (forall ib, In ib l -> fst ib < 8) ->
  (forall b r, st0 = Ok (b, r) -> r = None \/ exists i, i < 8 /\ transform_move (csym s i) m1 = Ok b) ->
  fold_left (cand_step (syms (Z.of_nat s)) h m1) l st0 = Ok (best, rot) ->
  rot = None \/ exists i, i < 8 /\ transform_move (csym s i) m1 = Ok best.
Proof.
  induction l as [|[i b] t IH]; intros st0 best rot Hl H0 H; [now apply H0|].
  cbn [fold_left] in H. apply (IH _ best rot) in H; [exact H|intros ib Hib; apply Hl; now right|].
  clear H. intros b' r' E. unfold cand_step in E. cbn [fst snd] in E.
  destruct st0 as [[b0 r0]| |]; try discriminate.
  destruct (i =? 0); [now apply H0|].
  destruct (hash_of (cp b) =? h)%N; [|now apply H0].
  change (nth i (syms (Z.of_nat s)) (fun x y => (x, y))) with (csym s i) in E.
  destruct (transform_move (csym s i) m1) as [rm| |] eqn:Et; try discriminate.
  destruct (prefer_move rm b0); [|now apply H0].
  inversion E; subst. right. exists i. split; [apply (Hl (i, b)); now left|exact Et].
Qed.
