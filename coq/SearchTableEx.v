(* SearchTableEx.v: non-vacuity of the table theorems (SearchTable3/4), computed on the instantiated model.
   rootw = the 3x3 position after a2 a1 b2 c3 (White: a1 b2, Black: a2 c3, White to move): White wins by force in exactly three
   plies (b1 threatens c1 and b3), not in two.  rootb = rootw after b1: Black is lost within two plies.
   One engine with a 64-entry table, built-in evaluator, sorted moves, three calls:
     1. depth 3 on rootw, cancelled inside the 30th leaf evaluation: reports depth 1, Canceled;
     2. depth 3 on rootw, uninterrupted, on the state the cancelled call left: a win (value beyond the threshold) at depth 3;
     3. depth 2 on rootb on the state left by 2: a loss at depth 2.
   Every hypothesis of analyze_table_verdict_inst / cancel_preserves_engine_inst holds for these calls (touched set = the tree of
   depth 3 below rootw, 3917 positions, no two of them with the same hash), so the theorems apply; their conclusions are compared with
   the executable classification wb / lb. *)
From Coq Require Import NArith ZArith List Bool Lia.
Require Import Board Stack Rules Move GameOver Eval EvalSpec Refine Alloc Preserve1 Reach1 PreserveEx Search NegamaxSpec SearchGen SearchExact SearchInst SearchC CancelEx.
Require Import SearchLegal2 SearchNeg2 SearchNeg3 SearchNeg5 SearchTable1 SearchTable3 SearchTable4 SearchTable5.
Require Import Generated.Consts.
Import ListNotations.
Open Scope Z_scope.

Definition msw : list rmove := [M 2 0 1 0; M 2 0 0 0; M 2 1 1 0; M 2 2 2 0]%Z%N.
Definition rootw : position := match replay start3 msw with Ok p => p | _ => start3 end.
Definition msb : list rmove := msw ++ [M 2 1 0 0]%Z%N.
Definition rootb : position := match replay start3 msb with Ok p => p | _ => start3 end.
Lemma replay_msw : replay start3 msw = Ok rootw.
Proof. vm_compute. reflexivity. Qed.
Lemma replay_msb : replay start3 msb = Ok rootb.
Proof. vm_compute. reflexivity. Qed.

Definition cfg3t := mk_cfg 3 false true true false 0.      (* depth 3, sorted, precise, built-in evaluator *)
Definition cfg2t := mk_cfg 2 false true true false 0.      (* depth 2 *)
Definition Uex := Ulev rootw 3.

(* the classification, computed *)
Lemma rootw_class : wb gen_basis 3 rootw = true /\ wb gen_basis 2 rootw = false /\ lb gen_basis 2 rootb = true /\ lb gen_basis 1 rootb = false.
Proof. vm_compute. repeat split. Qed.

(* the touched set: closed by construction, collision-free by computation *)
Lemma coll_free_ex : coll_free (lev rootw 3) = true.
Proof. vm_compute. reflexivity. Qed.
Lemma touch_ex : touch_set Uex.
Proof. apply touch_levels. exact coll_free_ex. Qed.

Lemma base_ok_of ms p : replay start3 ms = Ok p -> base_ok p /\ total p = 20%N /\ move p = Z.of_nat (length ms).
Proof.
  intros R.
  destruct (base_ok_replay ms _ p (base_ok_new 3 false 10 0 ltac:(lia) ltac:(lia) ltac:(lia) ltac:(lia)) ltac:(vm_compute; discriminate)
              (eq_trans (f_equal (fun q => replay q ms) (eq_sym start3_new)) R)) as (A & B & _ & D).
  split; [exact A|]. split; [rewrite D; vm_compute; reflexivity|]. rewrite B. cbn [new_pos move]. lia.
Qed.

Lemma rootb_child : In rootb (lev rootw 1).
Proof.
  apply (lev_step rootw 0 rootw rootb); [left; reflexivity|vm_compute; reflexivity|].
  apply in_children. exists (M 2 1 0 0)%Z%N. split; [vm_compute; tauto|vm_compute; reflexivity].
Qed.

Lemma ask_rootw : ask_ok cfg3t Uex rootw.
Proof.
  destruct (base_ok_of msw rootw replay_msw) as (A & B & C). unfold ask_ok.
  split; [exact A|]. split; [rewrite B; lia|]. split; [rewrite C; vm_compute; discriminate|].
  split; [vm_compute; reflexivity|]. split; [vm_compute; reflexivity|].
  intros d Hd. apply Ulev_root. change (c_depth cfg3t) with 3 in Hd. lia.
Qed.
Lemma ask_rootb : ask_ok cfg2t Uex rootb.
Proof.
  destruct (base_ok_of msb rootb replay_msb) as (A & B & C). unfold ask_ok.
  split; [exact A|]. split; [rewrite B; lia|]. split; [rewrite C; vm_compute; discriminate|].
  split; [vm_compute; reflexivity|]. split; [vm_compute; reflexivity|].
  intros d Hd. change (c_depth cfg2t) with 2 in Hd. unfold Uex, Ulev. split; [lia|].
  assert (E : exists j, (3 - d)%nat = S j) by (exists (2 - d)%nat; lia). destruct E as (j & ->).
  clear Hd. induction j; [exact rootb_child|apply lev_mono; exact IHj].
Qed.

Lemma precise3 : precise cfg3t /\ precise cfg2t /\ builtin_eval cfg3t /\ builtin_eval cfg2t.
Proof. split; [repeat split|]. split; [repeat split|]. split; right; reflexivity. Qed.

Definition r_acc (r : list rmove * Z * Z * stats * bool) : stats := let '(_, _, _, a, _) := r in a.

(* the three calls *)
Definition run1 := run_analyze cfg3t 30 (new_state 64) rootw.
Definition run2 := run_analyze cfg3t 0 (fst run1) rootw.
Definition run3 := run_analyze cfg2t 0 (fst run2) rootb.

Lemma runs_obs :
  (r_value (snd run1) = 660 /\ r_depth (snd run1) = 1 /\ r_canceled (snd run1) = true) /\
  (r_value (snd run2) = 805307244 /\ r_depth (snd run2) = 3 /\ r_canceled (snd run2) = false) /\
  (r_value (snd run3) = -805307244 /\ r_depth (snd run3) = 2 /\ r_canceled (snd run3) = false) /\
  hd move0 (r_pv (snd run2)) = (M 2 1 0 0)%Z%N.
Proof. vm_compute. repeat split. Qed.

Lemma engine1 : engine_inst Uex (fst run1).
Proof.
  destruct precise3 as (P3 & _ & B3 & _).
  apply (engi_call Uex (new_state 64) cfg3t 30 rootw (fst run1) (snd run1) (engi_new Uex 64) P3 B3 ask_rootw).
  unfold run1, run_analyze. destruct (analyze_cancel gen_basis cfg3t 30 (new_state 64) rootw); reflexivity.
Qed.
Lemma engine2 : engine_inst Uex (fst run2).
Proof.
  destruct precise3 as (P3 & _ & B3 & _).
  apply (engi_call Uex (fst run1) cfg3t 0 rootw (fst run2) (snd run2) engine1 P3 B3 ask_rootw).
  unfold run2, run_analyze. destruct (analyze_cancel gen_basis cfg3t 0 (fst run1) rootw); reflexivity.
Qed.

(* The theorems applied.  (a) the cancelled first call leaves an engine whose later calls are right (C16);
   (b) the second call's value is beyond the threshold, hence a forced win exists - and wb confirms one within the reported depth;
   (c) the third call reports a forced loss for Black, and lb confirms it;  (d) the table invariant holds after all of it. *)
Example table_theorems_apply :
  touch_set Uex /\ ask_ok cfg3t Uex rootw /\ ask_ok cfg2t Uex rootb /\
  verdict_ok gen_basis rootw (r_value (snd run2)) (r_depth (snd run2)) /\ WinThreshold < r_value (snd run2) /\
  (exists n, W gen_basis n rootw) /\ wb gen_basis 3 rootw = true /\
  verdict_ok gen_basis rootb (r_value (snd run3)) (r_depth (snd run3)) /\ r_value (snd run3) < - WinThreshold /\
  (exists n, L gen_basis n rootb) /\ lb gen_basis 2 rootb = true /\
  SJ (fst run3) /\ tt_valid gen_basis (PosT Uex 0%nat) (fst run3).
Proof.
  destruct precise3 as (P3 & P2 & B3 & B2). destruct runs_obs as (_ & (V2 & D2 & _) & (V3 & D3 & _) & _).
  assert (E1 : analyze_cancel gen_basis cfg3t 30 (new_state 64) rootw = (fst run1, snd run1))
    by (unfold run1, run_analyze; destruct (analyze_cancel gen_basis cfg3t 30 (new_state 64) rootw); reflexivity).
  destruct (cancel_preserves_engine_inst Uex touch_ex (new_state 64) cfg3t 30 rootw (fst run1) (snd run1) (engi_new Uex 64) P3 B3 ask_rootw E1)
    as (_ & _ & _ & LATER).
  assert (E2 : analyze_cancel gen_basis cfg3t 0 (fst run1) rootw =
               (fst run2, (r_pv (snd run2), r_value (snd run2), r_depth (snd run2), r_acc (snd run2), r_canceled (snd run2)))).
  { unfold run2, run_analyze. destruct (analyze_cancel gen_basis cfg3t 0 (fst run1) rootw) as [s [[[[pv v] d] acc] c]]. reflexivity. }
  assert (P0 : 0 < 3) by lia. assert (P1 : 0 < 2) by lia.
  assert (VD2 : verdict_ok gen_basis rootw (r_value (snd run2)) (r_depth (snd run2))).
  { refine (LATER cfg3t 0 rootw (fst run2) (r_pv (snd run2)) (r_value (snd run2)) (r_depth (snd run2)) (r_acc (snd run2)) (r_canceled (snd run2)) P3 B3 ask_rootw E2 _).
    rewrite D2. exact P0. }
  assert (E3 : analyze_cancel gen_basis cfg2t 0 (fst run2) rootb =
               (fst run3, (r_pv (snd run3), r_value (snd run3), r_depth (snd run3), r_acc (snd run3), r_canceled (snd run3)))).
  { unfold run3, run_analyze. destruct (analyze_cancel gen_basis cfg2t 0 (fst run2) rootb) as [s [[[[pv v] d] acc] c]]. reflexivity. }
  assert (VD3 : verdict_ok gen_basis rootb (r_value (snd run3)) (r_depth (snd run3))).
  { refine (analyze_table_verdict_inst Uex touch_ex (fst run2) cfg2t 0 rootb (fst run3) (r_pv (snd run3)) (r_value (snd run3)) (r_depth (snd run3)) (r_acc (snd run3))
              (r_canceled (snd run3)) engine2 P2 B2 ask_rootb E3 _).
    rewrite D3. exact P1. }
  destruct (cancel_preserves_engine_inst Uex touch_ex (fst run2) cfg2t 0 rootb _ _ engine2 P2 B2 ask_rootb E3) as (_ & SJ3 & TV3 & _).
  destruct rootw_class as (C1 & _ & C3 & _).
  assert (WT2 : WinThreshold < r_value (snd run2)) by (rewrite V2; vm_compute; reflexivity).
  assert (WT3 : r_value (snd run3) < - WinThreshold) by (rewrite V3; vm_compute; reflexivity).
  split; [exact touch_ex|]. split; [exact ask_rootw|]. split; [exact ask_rootb|].
  split; [exact VD2|]. split; [exact WT2|]. split; [apply VD2; exact WT2|]. split; [exact C1|].
  split; [exact VD3|]. split; [exact WT3|]. split; [apply VD3; exact WT3|]. split; [exact C3|].
  split; assumption.
Qed.
