(* SearchAll3.v: C05 clause 1, "its all-best-lines analysis lists exactly the first moves that attain it" - the hypotheses of
   SearchAll2.analyze_all_exactx discharged for the instantiated model (as SearchNeg3/5 do for Analyze), the result restated as a
   statement about SETS of first moves, and computed examples. *)
From Coq Require Import NArith ZArith List Bool Lia Permutation.
Require Import Board Stack Rules Move GameOver Refine RefinePlace RefinePlace2 Slide2 Slide3 Slide6 MoveRefines Preserve1 Preserve5 Preserve6.
Require Import GameOverFacts1 Eval EvalSpec EvalInst EvalFacts5.
Require Import Search NegamaxSpec SearchGen SearchExact SearchInst SearchC CancelEx SearchNeg1 SearchNeg2 SearchNeg3 SearchNeg4 SearchNeg5.
Require Import Alloc Reach1 PreserveEx SearchAll1 SearchAll2.
Require AllMovesFacts2 AllMovesFacts3.
Require Import Generated.Consts.
Import ListNotations.
Open Scope Z_scope.

(* ---- the result as a statement about sets of first moves ---- *)
Section Sets.
Variable basis : list N.
Variable cfg : config.
Variable k : Z.
Variable p : position.

Notation nm := (nmx basis (c_eval cfg)).

(* m is accepted by MovePreallocated at p and leads to a position whose negamax value to depth d-1, negated, is v *)
Definition attains (d v : Z) (m : rmove) : Prop :=
  exists q, mvp basis p m = Ok q /\ - nm (Z.to_nat d - 1) q = v.

Definition head_accepted (l : list rmove) : Prop := exists m rest q, l = m :: rest /\ okm m /\ mvp basis p m = Ok q.

Lemma try_mvp m q : okm m -> try_move basis p m = Some q -> mvp basis p m = Ok q.
Proof. intros Hm T. rewrite (try_ok basis p m Hm) in T. destruct (mvp basis p m); try discriminate T. inversion T; reflexivity. Qed.
Lemma mvp_try m q : okm m -> mvp basis p m = Ok q -> try_move basis p m = Some q.
Proof. intros Hm T. rewrite (try_ok basis p m Hm), T. reflexivity. Qed.

Lemma NoDup_map_filter {A B} (f : A -> B) (g : A -> bool) l : NoDup (map f l) -> NoDup (map f (filter g l)).
Proof.
  induction l as [|a l IH]; intros H; [constructor|]. cbn [map] in H. inversion H as [|? ? Hn Hd]; subst. cbn [filter].
  destruct (g a); [|apply IH; exact Hd]. cbn [map]. constructor; [|apply IH; exact Hd].
  intros Hin. apply Hn. apply in_map_iff in Hin. destruct Hin as (x & E & Hx). apply filter_In in Hx. apply in_map_iff. exists x. tauto.
Qed.

Theorem all_result_sets sk pvs v d : 1 <= d -> all_result basis cfg k p sk pvs v d ->
  (* for every cancellation point *)
  v = nm (Z.to_nat d) p /\ pvs <> [] /\ Forall head_accepted pvs /\ attains d v (hd move0 (hd [] pvs)) /\
  (* when the flag was never seen set *)
  (cancelled k sk = false ->
     (forall l, In l pvs -> attains d v (hd move0 l)) /\
     (forall m, In m (all_moves p) -> attains d v m -> exists l, In l pvs /\ move_equal (hd move0 l) m = true) /\
     NoDup (map AllMovesFacts2.key (map (hd move0) pvs))).
Proof.
  intros D1 (EV & pm & pvt & q0 & ms & tails & -> & Hpv & T & Hq0 & X & LO & PERM & SORT & HEADS).
  assert (Hpm : okm pm) by (inversion Hpv; assumption).
  assert (ED : S (Z.to_nat d - 1) = Z.to_nat d) by lia.
  assert (APM : attains d v pm) by (exists q0; split; [apply try_mvp; assumption|exact X]).
  split; [exact EV|]. split; [discriminate|]. split; [|split; [exact APM|]].
  { constructor; [exists pm, pvt, q0; auto using try_mvp|].
    rewrite Forall_forall in LO |- *. intros l Hl. destruct (LO l Hl) as (m & rest & q & -> & Hm & Tm & _).
    exists m, rest, q. pose proof (all_moves_okm p m Hm). auto using try_mvp. }
  intros NC. specialize (HEADS NC).
  assert (TAIL : forall l, In l tails -> exists m, hd move0 l = m /\ In m ms /\ move_equal pm m = false /\ best basis cfg (Z.to_nat d - 1) p m = true).
  { intros l Hl. assert (Hh : In (hd move0 l) (map (hd move0) tails)) by (apply in_map; exact Hl).
    rewrite HEADS in Hh. apply filter_In in Hh. destruct Hh as (A & B). apply andb_true_iff in B. destruct B as (B1 & B2).
    exists (hd move0 l). split; [reflexivity|]. split; [exact A|]. split; [apply negb_true_iff; exact B1|exact B2]. }
  split; [|split].
  - intros l [<-|Hl]; [exact APM|]. destruct (TAIL l Hl) as (m & -> & Hm & _ & B). unfold best in B.
    assert (Hm' : okm m) by (apply all_moves_okm with p; apply (Permutation_in m PERM Hm)).
    destruct (try_move basis p m) as [q|] eqn:Tm; [|discriminate B]. apply Z.eqb_eq in B.
    exists q. split; [apply try_mvp; assumption|]. rewrite B, ED. symmetry. exact EV.
  - intros m Hm (q & Em & Eq). destruct (move_equal pm m) eqn:EPM.
    + exists (pm :: pvt). split; [left; reflexivity|exact EPM].
    + assert (Hin : In m (map (hd move0) tails)).
      { rewrite HEADS. apply filter_In. split; [apply (Permutation_in m (Permutation_sym PERM) Hm)|].
        rewrite EPM. cbn [negb andb]. unfold best. rewrite (mvp_try m q (all_moves_okm p m Hm) Em). apply Z.eqb_eq.
        rewrite ED, Eq. exact EV. }
      apply in_map_iff in Hin. destruct Hin as (l & E & Hl). exists l. split; [right; exact Hl|]. rewrite E. apply move_equal_refl.
  - cbn [map]. constructor.
    + intros Hin. apply in_map_iff in Hin. destruct Hin as (m & E & Hm). rewrite HEADS in Hm. apply filter_In in Hm.
      destruct Hm as (_ & B). apply andb_true_iff in B. destruct B as (B1 & _). apply negb_true_iff in B1.
      assert (AllMovesFacts2.move_equal pm m = true) by (apply AllMovesFacts2.move_equal_key; symmetry; exact E).
      change (AllMovesFacts2.move_equal pm m) with (move_equal pm m) in H. congruence.
    + rewrite HEADS. apply NoDup_map_filter. apply (Permutation_NoDup (Permutation_map _ (Permutation_sym PERM))).
      apply AllMovesFacts2.allmoves_nodup_key.
Qed.
End Sets.

(* ---- the hypotheses discharged (as SearchNeg3.v / SearchNeg5.v do for Analyze) ---- *)
Definition analyze_all_cancel (basis : list N) (cfg : config) (k : Z) := analyze_all_gen false basis cfg k.   (* k = 0: Search.analyze_all *)

(* what the theorems below conclude: the state invariant again; either nothing was completed (depth 0, no lines) or the report is exact *)
Definition all_exact (cfg : config) (k : Z) (p : position) (sk : sstate) (pvs : list (list rmove)) (v d : Z) : Prop :=
  SI sk /\ (d = 0 /\ pvs = [] \/ 1 <= d <= 16 /\ d <= c_depth cfg /\ is_over p = false /\ all_result gen_basis cfg k p sk pvs v d).

Section Final.
Variable cfg : config.
Hypothesis Hprecise : precise cfg.

Theorem analyze_all_winner : c_eval cfg = evaluate_winner ->
  forall k s p sk pvs v d c, SI s -> base_ok p -> within (dmax cfg) p ->
  analyze_all_cancel gen_basis cfg k s p = (sk, (pvs, v, d, c)) -> all_exact cfg k p sk pvs v d.
Proof.
  intros Hev k s p sk pvs v d c HS Hb HW H. destruct Hprecise as (P1 & P2 & P3).
  apply (analyze_all_exactx false gen_basis cfg k P1 P2 P3 PosW PosW_closed
              (fun d p m q HP EO => base_ok_hint p m q (proj1 HP))
              (fun d p HP EO => base_ok_live p (proj1 HP) EO)
              ltac:(intros d0 p0 _; rewrite Hev; apply evaluate_winner_bounded)
              s p sk pvs v d c HS); [|exact H].
  intros d0 H1 H2. split; [exact Hb|apply (within_dmax cfg); assumption].
Qed.

Theorem analyze_all_default : c_eval cfg = default_eval ->
  forall k s p sk pvs v d c, SI s -> base_ok p -> within (dmax cfg) p -> move p + Z.of_nat (dmax cfg) <= max_terminal_ply ->
  analyze_all_cancel gen_basis cfg k s p = (sk, (pvs, v, d, c)) -> all_exact cfg k p sk pvs v d.
Proof.
  intros Hev k s p sk pvs v d c HS Hb HW Hm H. destruct Hprecise as (P1 & P2 & P3).
  apply (analyze_all_exactx false gen_basis cfg k P1 P2 P3 PosD PosD_closed
              (fun d p m q HP EO => base_ok_hint p m q (proj1 (proj1 HP)))
              (fun d p HP EO => base_ok_live p (proj1 (proj1 HP)) EO)
              ltac:(intros d0 p0 ((Hb0 & _) & Hm0); rewrite Hev; apply default_eval_bounded; [apply Hb0|destruct Hb0 as (_ & _ & M0 & _); lia])
              s p sk pvs v d c HS); [|exact H].
  intros d0 H1 H2. split; [split; [exact Hb|apply (within_dmax cfg); assumption]|]. unfold dmax in Hm. lia.
Qed.
End Final.

(* every board size, games of at most 64 pieces, both evaluators of the check: nothing is assumed about the rules engine or the evaluator *)
Theorem analyze_all_exact_64 : forall cfg, precise cfg -> builtin_eval cfg ->
  forall k s p sk pvs v d c,
  SI s -> base_ok p -> (total p <= 64)%N -> move p + 16 <= max_terminal_ply ->
  analyze_all_cancel gen_basis cfg k s p = (sk, (pvs, v, d, c)) -> all_exact cfg k p sk pvs v d.
Proof.
  intros cfg HP [HE|HE] k s p sk pvs v d c HS Hb Ht Hm H.
  - apply (analyze_all_winner cfg HP HE k s p sk pvs v d c HS Hb); [|exact H]. apply within_total64; [apply Hb|exact Ht].
  - apply (analyze_all_default cfg HP HE k s p sk pvs v d c HS Hb); [| |exact H].
    + apply within_total64; [apply Hb|exact Ht].
    + unfold dmax. lia.
Qed.

(* the same under the side condition `within` (any game) *)
Theorem analyze_all_exact_within : forall cfg, precise cfg -> builtin_eval cfg ->
  forall k s p sk pvs v d c,
  SI s -> base_ok p -> within (dmax cfg) p -> move p + 16 <= max_terminal_ply ->
  analyze_all_cancel gen_basis cfg k s p = (sk, (pvs, v, d, c)) -> all_exact cfg k p sk pvs v d.
Proof.
  intros cfg HP [HE|HE] k s p sk pvs v d c HS Hb HW Hm H.
  - apply (analyze_all_winner cfg HP HE k s p sk pvs v d c HS Hb HW H).
  - apply (analyze_all_default cfg HP HE k s p sk pvs v d c HS Hb HW); [|exact H]. unfold dmax. lia.
Qed.

(* C05, clause 1, third part, as a statement about sets: never cancelled (Search.analyze_all) *)
Theorem analyze_all_sets_64 : forall cfg, precise cfg -> builtin_eval cfg ->
  forall s p sk pvs v d c,
  SI s -> base_ok p -> (total p <= 64)%N -> move p + 16 <= max_terminal_ply ->
  analyze_all gen_basis cfg s p = (sk, (pvs, v, d, c)) -> 0 < d ->
  SI sk /\ v = nmx gen_basis (c_eval cfg) (Z.to_nat d) p /\
  Forall (head_accepted gen_basis p) pvs /\
  (forall l, In l pvs -> attains gen_basis cfg p d v (hd move0 l)) /\
  (forall m, In m (all_moves p) -> attains gen_basis cfg p d v m -> exists l, In l pvs /\ move_equal (hd move0 l) m = true) /\
  NoDup (map AllMovesFacts2.key (map (hd move0) pvs)).
Proof.
  intros cfg HP HE s p sk pvs v d c HS Hb Ht Hm H Hd.
  destruct (analyze_all_exact_64 cfg HP HE 0 s p sk pvs v d c HS Hb Ht Hm H) as (A & [(E & _)|(D1 & _ & _ & R)]); [lia|].
  destruct (all_result_sets gen_basis cfg 0 p sk pvs v d ltac:(lia) R) as (B1 & _ & B3 & _ & B5).
  destruct (B5 eq_refl) as (C1 & C2 & C3). auto 10.
Qed.

(* ... and for a call cancelled at any point k: what always holds, and the exact set as long as the flag was not seen set *)
Theorem analyze_all_sets_cancel_64 : forall cfg, precise cfg -> builtin_eval cfg ->
  forall k s p sk pvs v d c,
  SI s -> base_ok p -> (total p <= 64)%N -> move p + 16 <= max_terminal_ply ->
  analyze_all_cancel gen_basis cfg k s p = (sk, (pvs, v, d, c)) -> 0 < d ->
  SI sk /\ v = nmx gen_basis (c_eval cfg) (Z.to_nat d) p /\ pvs <> [] /\
  Forall (head_accepted gen_basis p) pvs /\ attains gen_basis cfg p d v (hd move0 (hd [] pvs)) /\
  (cancelled k sk = false ->
    (forall l, In l pvs -> attains gen_basis cfg p d v (hd move0 l)) /\
    (forall m, In m (all_moves p) -> attains gen_basis cfg p d v m -> exists l, In l pvs /\ move_equal (hd move0 l) m = true) /\
    NoDup (map AllMovesFacts2.key (map (hd move0) pvs))).
Proof.
  intros cfg HP HE k s p sk pvs v d c HS Hb Ht Hm H Hd.
  destruct (analyze_all_exact_64 cfg HP HE k s p sk pvs v d c HS Hb Ht Hm H) as (A & [(E & _)|(D1 & _ & _ & R)]); [lia|].
  destruct (all_result_sets gen_basis cfg k p sk pvs v d ltac:(lia) R) as (B1 & B2 & B3 & B4 & B5). auto 10.
Qed.

(* completeness extended from the entries of AllMoves to EVERY raw move value (C03: an accepted move is Equal to an entry) *)
Lemma accepted_is_generated p m q : base_ok p -> mvp gen_basis p m = Ok q ->
  exists g, In g (all_moves p) /\ move_equal g m = true /\ mvp gen_basis p g = Ok q.
Proof.
  intros (Hp & _) T. rewrite mvp_mv in T. pose proof (mv_not_pass p m q T) as Hm.
  destruct (AllMovesFacts3.allmoves_complete p m q (pos_ok_wf p Hp) Hm T) as (g & Hg & EQ).
  change (AllMovesFacts2.move_equal g m) with (Search.move_equal g m) in EQ.
  exists g. split; [exact Hg|]. split; [exact EQ|].
  pose proof (move_equal_try gen_basis p g m EQ) as ET.
  rewrite (try_ok gen_basis p m Hm), (try_ok gen_basis p g (all_moves_okm p g Hg)), (mvp_mv p g), (mvp_mv p m), T in ET.
  rewrite mvp_mv. destruct (Refine.mv p g); try discriminate. inversion ET; reflexivity.
Qed.

Lemma move_equal_trans' a b c : move_equal a b = true -> move_equal b c = true -> move_equal a c = true.
Proof. exact (AllMovesFacts2.move_equal_trans a b c). Qed.

Theorem analyze_all_complete_raw_64 : forall cfg, precise cfg -> builtin_eval cfg ->
  forall s p sk pvs v d c,
  SI s -> base_ok p -> (total p <= 64)%N -> move p + 16 <= max_terminal_ply ->
  analyze_all gen_basis cfg s p = (sk, (pvs, v, d, c)) -> 0 < d ->
  forall m, attains gen_basis cfg p d v m -> exists l, In l pvs /\ move_equal (hd move0 l) m = true.
Proof.
  intros cfg HP HE s p sk pvs v d c HS Hb Ht Hm H Hd m (q & Tm & Eq).
  destruct (analyze_all_sets_64 cfg HP HE s p sk pvs v d c HS Hb Ht Hm H Hd) as (_ & _ & _ & _ & C2 & _).
  destruct (accepted_is_generated p m q Hb Tm) as (g & Hg & EQ & Tg).
  destruct (C2 g Hg ltac:(exists q; split; assumption)) as (l & Hl & E). exists l. split; [exact Hl|].
  apply (move_equal_trans' _ g _ E EQ).
Qed.

