(* SearchAll3.v: C05 clause 1, "its all-best-lines analysis lists exactly the first moves that attain it" - the hypotheses of
   SearchAll2.analyze_all_exactx discharged for the instantiated model (as SearchNeg3/5 do for Analyze), the result restated as a
   statement about SETS of first moves, and computed examples. *)
From Coq Require Import NArith ZArith List Bool Lia Permutation.
Require Import Board Stack Rules Move GameOver Refine RefinePlace RefinePlace2 Slide2 Slide3 Slide6 MoveRefines Preserve1 Preserve5 Preserve6.
Require Import GameOverFacts1 Eval EvalSpec EvalInst EvalFacts5.
Require Import Search NegamaxSpec SearchGen SearchExact SearchInst SearchC CancelEx SearchNeg1 SearchNeg2 SearchNeg3 SearchNeg4 SearchNeg5.
Require Import Alloc Reach1 PreserveEx SearchAll1 SearchAll2.
Require AllMovesFacts2 AllMovesFacts3.
Require Import Generated.Consts.
Import ListNotations.
Open Scope Z_scope.

(* ---- the result as a statement about sets of first moves ---- *)
Section Sets.
Variable pinned : bool.
Variable basis : list N.
Variable cfg : config.
Variable k : Z.
Variable p : position.

Notation nm := (nmx basis (c_eval cfg)).

(* m is accepted by MovePreallocated at p and leads to a position whose negamax value to depth d-1, negated, is v *)
Definition attains (d v : Z) (m : rmove) : Prop :=
  exists q, mvp basis p m = Ok q /\ - nm (Z.to_nat d - 1) q = v.

Definition head_accepted (l : list rmove) : Prop := exists m rest q, l = m :: rest /\ okm m /\ mvp basis p m = Ok q.

Lemma try_mvp m q : okm m -> try_move basis p m = Some q -> mvp basis p m = Ok q.
Proof. intros Hm T. rewrite (try_ok basis p m Hm) in T. destruct (mvp basis p m); try discriminate T. inversion T; reflexivity. Qed.
Lemma mvp_try m q : okm m -> mvp basis p m = Ok q -> try_move basis p m = Some q.
Proof. intros Hm T. rewrite (try_ok basis p m Hm), T. reflexivity. Qed.

Lemma NoDup_map_filter {A B} (f : A -> B) (g : A -> bool) l : NoDup (map f l) -> NoDup (map f (filter g l)).
Proof.
  induction l as [|a l IH]; intros H; [constructor|]. cbn [map] in H. inversion H as [|? ? Hn Hd]; subst. cbn [filter].
  destruct (g a); [|apply IH; exact Hd]. cbn [map]. constructor; [|apply IH; exact Hd].
  intros Hin. apply Hn. apply in_map_iff in Hin. destruct Hin as (x & E & Hx). apply filter_In in Hx. apply in_map_iff. exists x. tauto.
Qed.

Lemma NoDup_app_l {A} (l1 l2 : list A) : NoDup (l1 ++ l2) -> NoDup l1.
Proof.
  induction l1 as [|a l1 IH]; intros H; [constructor|]. cbn [app] in H. inversion H as [|? ? Hn Hd]; subst.
  constructor; [intros Hin; apply Hn; apply in_or_app; left; exact Hin|apply IH; exact Hd].
Qed.

Theorem all_result_sets sk pvs v d c : 1 <= d -> all_result pinned basis cfg k p sk pvs v d c ->
  (* for every cancellation point, either variant of the code *)
  v = nm (Z.to_nat d) p /\ pvs <> [] /\ Forall head_accepted pvs /\ attains d v (hd move0 (hd [] pvs)) /\
  (* repaired code at every cancellation point (old code: while the flag is unset): every listed first move attains the value, none twice *)
  (pinned = false \/ cancelled k sk = false ->
     (forall l, In l pvs -> attains d v (hd move0 l)) /\ NoDup (map AllMovesFacts2.key (map (hd move0) pvs))) /\
  (* the flag was never seen set: every entry of AllMoves that attains the value is listed *)
  (cancelled k sk = false ->
     forall m, In m (all_moves p) -> attains d v m -> exists l, In l pvs /\ move_equal (hd move0 l) m = true) /\
  (* repaired code: not reported as cancelled = the flag was never seen set *)
  (pinned = false -> c = false -> cancelled k sk = false).
Proof.
  intros D1 (EV & pm & pvt & q0 & ms & tails & -> & Hpv & T & Hq0 & X & LO & PERM & SORT & HPRE & HEADS & HC).
  assert (Hpm : okm pm) by (inversion Hpv; assumption).
  assert (ED : S (Z.to_nat d - 1) = Z.to_nat d) by lia.
  assert (APM : attains d v pm) by (exists q0; split; [apply try_mvp; assumption|exact X]).
  split; [exact EV|]. split; [discriminate|]. split; [|split; [exact APM|]].
  { constructor; [exists pm, pvt, q0; auto using try_mvp|].
    rewrite Forall_forall in LO |- *. intros l Hl. destruct (LO l Hl) as (m & rest & q & -> & Hm & Tm & _).
    exists m, rest, q. pose proof (all_moves_okm p m Hm). auto using try_mvp. }
  split; [|split; [|exact HC]].
  - intros H0. destruct (HPRE H0) as (rest' & EPRE).
    assert (TAIL : forall m, In m (map (hd move0) tails) -> In m ms /\ move_equal pm m = false /\ best basis cfg (Z.to_nat d - 1) p m = true).
    { intros m Hh. assert (Hin : In m (map (hd move0) tails ++ rest')) by (apply in_or_app; left; exact Hh).
      rewrite <- EPRE in Hin. apply filter_In in Hin. destruct Hin as (A & B). apply andb_true_iff in B. destruct B as (B1 & B2).
      split; [exact A|]. split; [apply negb_true_iff; exact B1|exact B2]. }
    split.
    + intros l [<-|Hl]; [exact APM|]. destruct (TAIL (hd move0 l) (in_map _ _ _ Hl)) as (Hm & _ & B). unfold best in B.
      assert (Hm' : okm (hd move0 l)) by (apply all_moves_okm with p; apply (Permutation_in _ PERM Hm)).
      destruct (try_move basis p (hd move0 l)) as [q|] eqn:Tm; [|discriminate B]. apply Z.eqb_eq in B.
      exists q. split; [apply try_mvp; assumption|]. rewrite B, ED. symmetry. exact EV.
    + cbn [map]. constructor.
      * intros Hin. apply in_map_iff in Hin. destruct Hin as (m & E & Hm). destruct (TAIL m Hm) as (_ & B1 & _).
        assert (AllMovesFacts2.move_equal pm m = true) by (apply AllMovesFacts2.move_equal_key; symmetry; exact E).
        change (AllMovesFacts2.move_equal pm m) with (move_equal pm m) in H. congruence.
      * assert (ND : NoDup (map AllMovesFacts2.key (map (hd move0) tails ++ rest'))).
        { rewrite <- EPRE. apply NoDup_map_filter. apply (Permutation_NoDup (Permutation_map _ (Permutation_sym PERM))).
          apply AllMovesFacts2.allmoves_nodup_key. }
        rewrite map_app in ND. apply NoDup_app_l in ND. exact ND.
  - intros NC m Hm (q & Em & Eq). specialize (HEADS NC). destruct (move_equal pm m) eqn:EPM.
    + exists (pm :: pvt). split; [left; reflexivity|exact EPM].
    + assert (Hin : In m (map (hd move0) tails)).
      { rewrite HEADS. apply filter_In. split; [apply (Permutation_in m (Permutation_sym PERM) Hm)|].
        rewrite EPM. cbn [negb andb]. unfold best. rewrite (mvp_try m q (all_moves_okm p m Hm) Em). apply Z.eqb_eq.
        rewrite ED, Eq. exact EV. }
      apply in_map_iff in Hin. destruct Hin as (l & E & Hl). exists l. split; [right; exact Hl|]. rewrite E. apply move_equal_refl.
Qed.
End Sets.

(* ---- the hypotheses discharged (as SearchNeg3.v / SearchNeg5.v do for Analyze) ----
   Search.analyze_all_cancel basis cfg k = the repaired AnalyzeAll, context cancelled inside the k-th leaf evaluation (k = 0: never,
   Search.analyze_all); Search.analyze_all_pinned = the code before the AnalyzeAll repair. *)

(* what the theorems below conclude: the state invariant again; either nothing was completed (depth 0, no lines) or the report is exact *)
Definition all_exact (pinned : bool) (cfg : config) (k : Z) (p : position) (sk : sstate) (pvs : list (list rmove)) (v d : Z) (c : bool) : Prop :=
  SI sk /\ (d = 0 /\ pvs = [] \/ 1 <= d <= 16 /\ d <= c_depth cfg /\ is_over p = false /\ all_result pinned gen_basis cfg k p sk pvs v d c).

Section Final.
Variable pinned : bool.
Variable cfg : config.
Hypothesis Hprecise : precise cfg.

Theorem analyze_all_winner : c_eval cfg = evaluate_winner ->
  forall k s p sk pvs v d c, SI s -> base_ok p -> within (dmax cfg) p ->
  analyze_all_gen pinned gen_basis cfg k s p = (sk, (pvs, v, d, c)) -> all_exact pinned cfg k p sk pvs v d c.
Proof.
  intros Hev k s p sk pvs v d c HS Hb HW H. destruct Hprecise as (P1 & P2 & P3).
  apply (analyze_all_exactx pinned gen_basis cfg k P1 P2 P3 PosW PosW_closed
              (fun d p m q HP EO => base_ok_hint p m q (proj1 HP))
              (fun d p HP EO => base_ok_live p (proj1 HP) EO)
              ltac:(intros d0 p0 _; rewrite Hev; apply evaluate_winner_bounded)
              s p sk pvs v d c HS); [|exact H].
  intros d0 H1 H2. split; [exact Hb|apply (within_dmax cfg); assumption].
Qed.

Theorem analyze_all_default : c_eval cfg = default_eval ->
  forall k s p sk pvs v d c, SI s -> base_ok p -> within (dmax cfg) p -> move p + Z.of_nat (dmax cfg) <= max_terminal_ply ->
  analyze_all_gen pinned gen_basis cfg k s p = (sk, (pvs, v, d, c)) -> all_exact pinned cfg k p sk pvs v d c.
Proof.
  intros Hev k s p sk pvs v d c HS Hb HW Hm H. destruct Hprecise as (P1 & P2 & P3).
  apply (analyze_all_exactx pinned gen_basis cfg k P1 P2 P3 PosD PosD_closed
              (fun d p m q HP EO => base_ok_hint p m q (proj1 (proj1 HP)))
              (fun d p HP EO => base_ok_live p (proj1 (proj1 HP)) EO)
              ltac:(intros d0 p0 ((Hb0 & _) & Hm0); rewrite Hev; apply default_eval_bounded; [apply Hb0|destruct Hb0 as (_ & _ & M0 & _); lia])
              s p sk pvs v d c HS); [|exact H].
  intros d0 H1 H2. split; [split; [exact Hb|apply (within_dmax cfg); assumption]|]. unfold dmax in Hm. lia.
Qed.
End Final.

(* every board size, games of at most 64 pieces, both evaluators of the check: nothing is assumed about the rules engine or the evaluator;
   pinned = false: the repaired AnalyzeAll, pinned = true: the code before the repair *)
Theorem analyze_all_exact_gen_64 : forall pinned cfg, precise cfg -> builtin_eval cfg ->
  forall k s p sk pvs v d c,
  SI s -> base_ok p -> (total p <= 64)%N -> move p + 16 <= max_terminal_ply ->
  analyze_all_gen pinned gen_basis cfg k s p = (sk, (pvs, v, d, c)) -> all_exact pinned cfg k p sk pvs v d c.
Proof.
  intros pinned cfg HP [HE|HE] k s p sk pvs v d c HS Hb Ht Hm H.
  - apply (analyze_all_winner pinned cfg HP HE k s p sk pvs v d c HS Hb); [|exact H]. apply within_total64; [apply Hb|exact Ht].
  - apply (analyze_all_default pinned cfg HP HE k s p sk pvs v d c HS Hb); [| |exact H].
    + apply within_total64; [apply Hb|exact Ht].
    + unfold dmax. lia.
Qed.

Theorem analyze_all_exact_64 : forall cfg, precise cfg -> builtin_eval cfg ->
  forall k s p sk pvs v d c,
  SI s -> base_ok p -> (total p <= 64)%N -> move p + 16 <= max_terminal_ply ->
  analyze_all_cancel gen_basis cfg k s p = (sk, (pvs, v, d, c)) -> all_exact false cfg k p sk pvs v d c.
Proof. intros cfg. exact (analyze_all_exact_gen_64 false cfg). Qed.

(* the same under the side condition `within` (any game) *)
Theorem analyze_all_exact_within : forall cfg, precise cfg -> builtin_eval cfg ->
  forall k s p sk pvs v d c,
  SI s -> base_ok p -> within (dmax cfg) p -> move p + 16 <= max_terminal_ply ->
  analyze_all_cancel gen_basis cfg k s p = (sk, (pvs, v, d, c)) -> all_exact false cfg k p sk pvs v d c.
Proof.
  intros cfg HP [HE|HE] k s p sk pvs v d c HS Hb HW Hm H.
  - apply (analyze_all_winner false cfg HP HE k s p sk pvs v d c HS Hb HW H).
  - apply (analyze_all_default false cfg HP HE k s p sk pvs v d c HS Hb HW); [|exact H]. unfold dmax. lia.
Qed.

(* C05, clause 1, third part, as a statement about sets.  The repaired AnalyzeAll, context cancelled inside the k-th leaf evaluation or
   never (k = 0), whenever a depth d > 0 is reported:
     for EVERY k: the value is the negamax value, every line starts with an accepted move, EVERY listed first move attains the value,
                  no two listed first moves are Equal;
     if the call is not reported as cancelled (c = false): every entry of AllMoves that attains the value is listed up to Move.Equal. *)
Theorem analyze_all_sets_cancel_64 : forall cfg, precise cfg -> builtin_eval cfg ->
  forall k s p sk pvs v d c,
  SI s -> base_ok p -> (total p <= 64)%N -> move p + 16 <= max_terminal_ply ->
  analyze_all_cancel gen_basis cfg k s p = (sk, (pvs, v, d, c)) -> 0 < d ->
  SI sk /\ v = nmx gen_basis (c_eval cfg) (Z.to_nat d) p /\ pvs <> [] /\
  Forall (head_accepted gen_basis p) pvs /\
  (forall l, In l pvs -> attains gen_basis cfg p d v (hd move0 l)) /\
  NoDup (map AllMovesFacts2.key (map (hd move0) pvs)) /\
  (c = false ->
    forall m, In m (all_moves p) -> attains gen_basis cfg p d v m -> exists l, In l pvs /\ move_equal (hd move0 l) m = true).
Proof.
  intros cfg HP HE k s p sk pvs v d c HS Hb Ht Hm H Hd.
  destruct (analyze_all_exact_64 cfg HP HE k s p sk pvs v d c HS Hb Ht Hm H) as (A & [(E & _)|(D1 & _ & _ & R)]); [lia|].
  destruct (all_result_sets false gen_basis cfg k p sk pvs v d c ltac:(lia) R) as (B1 & B2 & B3 & B4 & B5 & B6 & B7).
  destruct (B5 (or_introl eq_refl)) as (C1 & C2).
  split; [exact A|]. split; [exact B1|]. split; [exact B2|]. split; [exact B3|]. split; [exact C1|]. split; [exact C2|].
  intros EC. apply B6. apply B7; [reflexivity|exact EC].
Qed.

(* never cancelled (Search.analyze_all) *)
Theorem analyze_all_sets_64 : forall cfg, precise cfg -> builtin_eval cfg ->
  forall s p sk pvs v d c,
  SI s -> base_ok p -> (total p <= 64)%N -> move p + 16 <= max_terminal_ply ->
  analyze_all gen_basis cfg s p = (sk, (pvs, v, d, c)) -> 0 < d ->
  SI sk /\ v = nmx gen_basis (c_eval cfg) (Z.to_nat d) p /\
  Forall (head_accepted gen_basis p) pvs /\
  (forall l, In l pvs -> attains gen_basis cfg p d v (hd move0 l)) /\
  (forall m, In m (all_moves p) -> attains gen_basis cfg p d v m -> exists l, In l pvs /\ move_equal (hd move0 l) m = true) /\
  NoDup (map AllMovesFacts2.key (map (hd move0) pvs)).
Proof.
  intros cfg HP HE s p sk pvs v d c HS Hb Ht Hm H Hd.
  destruct (analyze_all_exact_64 cfg HP HE 0 s p sk pvs v d c HS Hb Ht Hm H) as (A & [(E & _)|(D1 & _ & _ & R)]); [lia|].
  destruct (all_result_sets false gen_basis cfg 0 p sk pvs v d c ltac:(lia) R) as (B1 & _ & B3 & _ & B5 & B6 & _).
  destruct (B5 (or_introl eq_refl)) as (C1 & C2). specialize (B6 eq_refl). auto 10.
Qed.

(* the code BEFORE the repair: the same only while the flag has not been seen set *)
Theorem analyze_all_sets_pinned_64 : forall cfg, precise cfg -> builtin_eval cfg ->
  forall k s p sk pvs v d c,
  SI s -> base_ok p -> (total p <= 64)%N -> move p + 16 <= max_terminal_ply ->
  analyze_all_pinned gen_basis cfg k s p = (sk, (pvs, v, d, c)) -> 0 < d ->
  SI sk /\ v = nmx gen_basis (c_eval cfg) (Z.to_nat d) p /\ pvs <> [] /\
  Forall (head_accepted gen_basis p) pvs /\ attains gen_basis cfg p d v (hd move0 (hd [] pvs)) /\
  (cancelled k sk = false ->
    (forall l, In l pvs -> attains gen_basis cfg p d v (hd move0 l)) /\
    (forall m, In m (all_moves p) -> attains gen_basis cfg p d v m -> exists l, In l pvs /\ move_equal (hd move0 l) m = true) /\
    NoDup (map AllMovesFacts2.key (map (hd move0) pvs))).
Proof.
  intros cfg HP HE k s p sk pvs v d c HS Hb Ht Hm H Hd.
  destruct (analyze_all_exact_gen_64 true cfg HP HE k s p sk pvs v d c HS Hb Ht Hm H) as (A & [(E & _)|(D1 & _ & _ & R)]); [lia|].
  destruct (all_result_sets true gen_basis cfg k p sk pvs v d c ltac:(lia) R) as (B1 & B2 & B3 & B4 & B5 & B6 & _).
  split; [exact A|]. split; [exact B1|]. split; [exact B2|]. split; [exact B3|]. split; [exact B4|].
  intros NC. destruct (B5 (or_intror NC)) as (C1 & C2). auto.
Qed.

(* completeness extended from the entries of AllMoves to EVERY raw move value (C03: an accepted move is Equal to an entry) *)
Lemma accepted_is_generated p m q : base_ok p -> mvp gen_basis p m = Ok q ->
  exists g, In g (all_moves p) /\ move_equal g m = true /\ mvp gen_basis p g = Ok q.
Proof.
  intros (Hp & _) T. rewrite mvp_mv in T. pose proof (mv_not_pass p m q T) as Hm.
  destruct (AllMovesFacts3.allmoves_complete p m q (pos_ok_wf p Hp) Hm T) as (g & Hg & EQ).
  change (AllMovesFacts2.move_equal g m) with (Search.move_equal g m) in EQ.
  exists g. split; [exact Hg|]. split; [exact EQ|].
  pose proof (move_equal_try gen_basis p g m EQ) as ET.
  rewrite (try_ok gen_basis p m Hm), (try_ok gen_basis p g (all_moves_okm p g Hg)), (mvp_mv p g), (mvp_mv p m), T in ET.
  rewrite mvp_mv. destruct (Refine.mv p g); try discriminate. inversion ET; reflexivity.
Qed.

Lemma move_equal_trans' a b c : move_equal a b = true -> move_equal b c = true -> move_equal a c = true.
Proof. exact (AllMovesFacts2.move_equal_trans a b c). Qed.

Theorem analyze_all_complete_raw_64 : forall cfg, precise cfg -> builtin_eval cfg ->
  forall k s p sk pvs v d c,
  SI s -> base_ok p -> (total p <= 64)%N -> move p + 16 <= max_terminal_ply ->
  analyze_all_cancel gen_basis cfg k s p = (sk, (pvs, v, d, c)) -> 0 < d -> c = false ->
  forall m, attains gen_basis cfg p d v m -> exists l, In l pvs /\ move_equal (hd move0 l) m = true.
Proof.
  intros cfg HP HE k s p sk pvs v d c HS Hb Ht Hm H Hd EC m (q & Tm & Eq).
  destruct (analyze_all_sets_cancel_64 cfg HP HE k s p sk pvs v d c HS Hb Ht Hm H Hd) as (_ & _ & _ & _ & _ & _ & C2).
  destruct (accepted_is_generated p m q Hb Tm) as (g & Hg & EQ & Tg).
  destruct (C2 EC g Hg ltac:(exists q; split; assumption)) as (l & Hl & E). exists l. split; [exact Hl|].
  apply (move_equal_trans' _ g _ E EQ).
Qed.
