(* SearchTableThms.v: the TABLE CLAUSE of C05 and cancel_preserves_engine of C16 - final statements (proofs: SearchTable1-5.v).

   Property text (C05, 2nd sentence): "With a transposition table, on a fresh engine or after any history of earlier analyses (including
   of the same position), a forced win or loss that exists within the searched depth is reported as such and a reported win or loss is
   a real forced one."   C16: "After a cancelled search the same engine still gives correct results for later searches."

   Route: the one suggested in notes/prove3_table.txt.  Precise options (MakePrecise: no null move, no slide reduction, no multi-cut), a
   table of ANY size (also none) and ANY content reachable by calls, sorting on or off, either evaluator of the check, every call
   cancelled inside ANY leaf evaluation or never.  W n p / L n p (SearchTable1.v; executable: SearchTable5.wb / lb) = the side to move
   at p wins / is lost within n plies by force, over the rules game (NegamaxSpec.children, GameOver.game_over).
   verdict_ok basis p v d :=   (v >  WinThreshold -> exists n, W n p)  /\  (v < -WinThreshold -> exists n, L n p)        win_sound
                            /\ (W d p -> v > WinThreshold)            /\  (L d p -> v < -WinThreshold)                 win_complete
   Table invariant (SearchTable1.tt_valid), kept by every search - completed or cut short (ttPut refuses once the flag is set):
   for every entry e and every live position q of the touched set with Position.Hash q = e.hash:
      e.value >  WinThreshold, lower|exact -> exists n, W n q        e.value <=  WinThreshold, upper|exact -> ~ W e.depth q
      e.value < -WinThreshold, upper|exact -> exists n, L n q        e.value >= -WinThreshold, lower|exact -> ~ L e.depth q.

   What remains a hypothesis (never an axiom): the set U of positions the calls may touch -
   touch_set U: U (S d) p -> U d p; legal successors of live U (S d) positions are in U d; NoCollision on U 0 in the form DfpnFacts.S_hash
   uses (equal Position.Hash => same forced-result classification; implied by "equal hash => equal position value", SearchTable5.touch_levels) -
   and per call ask_ok: C01's invariant base_ok, at most 64 pieces in the game, ply + configured depth <= C18's max_terminal_ply, game not over,
   configured depth < 40 (the recursion fuel of the model; ai.maxDepth is 15), p in U d for d up to the configured depth. *)
From Coq Require Import NArith ZArith List Bool Lia.
Require Import Board Move GameOver Eval EvalSpec Search NegamaxSpec SearchGen SearchExact SearchInst SearchC SearchLegal2 SearchNeg2 SearchNeg5.
Require Import SearchTable1 SearchTable2 SearchTable3 SearchTable4 SearchTable5 SearchTable6 SearchTable7 SearchTable8.
Require Import Generated.Consts.
Import ListNotations.
Open Scope Z_scope.

(* C05 table clause, abstract: any hash basis, any evaluator obeying eval_facts, any depth-indexed position sets obeying table_facts *)
Theorem table_win_sound_complete : forall basis Pos, table_facts basis Pos ->
  forall s cfg k p sk pv v d acc c, engine basis Pos s -> precise cfg -> eval_facts cfg Pos -> call_ok cfg Pos p ->
  analyze_cancel basis cfg k s p = (sk, (pv, v, d, acc, c)) -> 0 < d -> verdict_ok basis p v d.
Proof. exact analyze_table_verdict. Qed.

(* the invariant behind it: every engine state satisfies SJ and tt_valid *)
Theorem table_valid_preserved : forall basis Pos, table_facts basis Pos ->
  forall s, engine basis Pos s -> SJ s /\ tt_valid basis (Pos 0%nat) s.
Proof. exact engine_TJ. Qed.

(* one search (zwSearch: zw = true, window (a, a+1); pvSearch: window (a, b)) at any node, any remaining depth below the fuel *)
Theorem table_search_verdict : forall basis cfg k Pos, precise cfg -> table_facts basis Pos -> eval_facts cfg Pos ->
  forall f d, (d < f)%nat -> tv_ok basis k Pos d (srch false basis cfg k f).
Proof. intros basis cfg k Pos HP TF EF. exact (srch_tv' basis Pos TF cfg k HP EF). Qed.

(* C16 cancel_preserves_engine, abstract *)
Theorem table_cancel_preserves_engine : forall basis Pos, table_facts basis Pos ->
  forall s cfg k p sk r, engine basis Pos s -> precise cfg -> eval_facts cfg Pos -> call_ok cfg Pos p ->
  analyze_cancel basis cfg k s p = (sk, r) ->
  engine basis Pos sk /\ SJ sk /\ tt_valid basis (Pos 0%nat) sk /\
  forall cfg' k' p' sk' pv v d acc c, precise cfg' -> eval_facts cfg' Pos -> call_ok cfg' Pos p' ->
    analyze_cancel basis cfg' k' sk p' = (sk', (pv, v, d, acc, c)) -> 0 < d -> verdict_ok basis p' v d.
Proof. exact cancel_preserves_engine. Qed.

(* C05 table clause, instantiated model (hash basis regenerated from /repo), both evaluators of the check: no hypothesis about the rules
   engine or the evaluator is left *)
Theorem table_win_sound_complete_inst : forall U, touch_set U ->
  forall s cfg k p sk pv v d acc c, engine_inst U s -> precise cfg -> builtin_eval cfg -> ask_ok cfg U p ->
  analyze_cancel gen_basis cfg k s p = (sk, (pv, v, d, acc, c)) -> 0 < d -> verdict_ok gen_basis p v d.
Proof. exact analyze_table_verdict_inst. Qed.

(* C16 cancel_preserves_engine, instantiated model *)
Theorem table_cancel_preserves_engine_inst : forall U, touch_set U ->
  forall s cfg k p sk r, engine_inst U s -> precise cfg -> builtin_eval cfg -> ask_ok cfg U p ->
  analyze_cancel gen_basis cfg k s p = (sk, r) ->
  engine_inst U sk /\ SJ sk /\ tt_valid gen_basis (PosT U 0%nat) sk /\
  forall cfg' k' p' sk' pv v d acc c, precise cfg' -> builtin_eval cfg' -> ask_ok cfg' U p' ->
    analyze_cancel gen_basis cfg' k' sk p' = (sk', (pv, v, d, acc, c)) -> 0 < d -> verdict_ok gen_basis p' v d.
Proof. exact cancel_preserves_engine_inst. Qed.

(* the specification is executable: wb / lb decide W / L *)
Theorem table_spec_decidable : forall basis n p, (wb basis n p = true <-> W basis n p) /\ (lb basis n p = true <-> L basis n p).
Proof. exact wl_reflect. Qed.

(* the tree of depth D below a root is a touched set as soon as no two of its positions share a hash (a boolean check) *)
Theorem table_touch_levels : forall root D, coll_free (lev root D) = true -> touch_set (Ulev root D).
Proof. exact touch_levels. Qed.

(* a fresh engine of any table size is an engine state *)
Theorem table_fresh_engine : forall U n, engine_inst U (new_state n).
Proof. exact engi_new. Qed.

(* ---- positions of ONE game: the syntactic NoCollision (SearchTable6.v, on top of PnCong1/3) ----
   game_set sz bwt stones caps U: U (S d) p -> U d p; legal successors of live U (S d) positions are in U d; every position of U 0 is
   replayed from tak.New(sz, ...) through accepted moves; and the ONLY hash hypothesis: two positions of U 0 with the same Position.Hash
   are Position.Equal (Pn.pos_equal).  ask_game: ply + configured depth <= max_terminal_ply (the terminal scores - not the
   classification - depend on the ply counter, so this stays with each call), game not over, configured depth < 40, p in U d. *)
Theorem table_sim_classification : forall basis q p, PnCong1.sim q p -> cls_eq basis q p.
Proof. exact sim_cls. Qed.

Theorem table_game_touch : forall sz bwt stones caps, (3 <= sz <= 8)%N -> (2 * (stones + caps) <= 64)%N ->
  forall U, game_set sz bwt stones caps U -> touch_set U.
Proof. exact game_touch. Qed.

Theorem table_win_sound_complete_game : forall sz bwt stones caps, (3 <= sz <= 8)%N -> (0 < stones)%N -> (2 * (stones + caps) <= 64)%N ->
  forall U, game_set sz bwt stones caps U ->
  forall s cfg k p sk pv v d acc c, engine_game U s -> precise cfg -> builtin_eval cfg -> ask_game cfg U p ->
  analyze_cancel gen_basis cfg k s p = (sk, (pv, v, d, acc, c)) -> 0 < d -> verdict_ok gen_basis p v d.
Proof. exact analyze_table_verdict_game. Qed.

Theorem table_cancel_preserves_engine_game : forall sz bwt stones caps, (3 <= sz <= 8)%N -> (0 < stones)%N -> (2 * (stones + caps) <= 64)%N ->
  forall U, game_set sz bwt stones caps U ->
  forall s cfg k p sk r, engine_game U s -> precise cfg -> builtin_eval cfg -> ask_game cfg U p ->
  analyze_cancel gen_basis cfg k s p = (sk, r) ->
  engine_game U sk /\ SJ sk /\ tt_valid gen_basis (PosT U 0%nat) sk /\
  forall cfg' k' p' sk' pv v d acc c, precise cfg' -> builtin_eval cfg' -> ask_game cfg' U p' ->
    analyze_cancel gen_basis cfg' k' sk p' = (sk', (pv, v, d, acc, c)) -> 0 < d -> verdict_ok gen_basis p' v d.
Proof. exact cancel_preserves_engine_game. Qed.

Theorem table_game_levels : forall sz bwt stones caps, (3 <= sz <= 8)%N -> (0 < stones)%N -> (2 * (stones + caps) <= 64)%N ->
  forall root D, in_game sz bwt stones caps root -> coll_free (lev root D) = true -> game_set sz bwt stones caps (Ulev root D).
Proof. exact game_levels. Qed.

(* ---- soundness for EVERY configuration without null move (SearchTable7/8.v): slide reduction, multi-cut, table, sort: any ----
   sound_verdict basis p v := (v > WinThreshold -> exists n, W n p) /\ (v < -WinThreshold -> exists n, L n p); no depth bound, any
   reported depth (also 0), any cancellation point, any history of such calls (precise ones included). *)
Theorem table_sound_any_config : forall basis Pos, table_facts basis Pos ->
  forall s cfg k p sk pv v d acc c, engine_s basis Pos s -> c_nonull cfg = true -> eval_facts cfg Pos -> call_s cfg Pos p ->
  analyze_cancel basis cfg k s p = (sk, (pv, v, d, acc, c)) -> sound_verdict basis p v.
Proof. exact analyze_sound_any. Qed.

Theorem table_sound_any_config_inst : forall U, touch_set U ->
  forall s cfg k p sk pv v d acc c, engine_sinst U s -> c_nonull cfg = true -> builtin_eval cfg -> ask_s cfg U p ->
  analyze_cancel gen_basis cfg k s p = (sk, (pv, v, d, acc, c)) -> sound_verdict gen_basis p v.
Proof. exact analyze_sound_any_inst. Qed.

Theorem table_sound_search : forall basis cfg k, c_nonull cfg = true -> forall Pos, table_facts basis Pos -> eval_facts cfg Pos ->
  forall f, ts_ok basis Pos (srch false basis cfg k f).
Proof. exact srch_ts. Qed.
