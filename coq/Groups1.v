From Coq Require Import NArith ZArith List Bool Lia ZifyN ZifyBool ZifyNat.
Require Import Board Flood Masks LowBit Conn Move GameOver.
Import ListNotations.
Open Scope N_scope.

Section G.
Variable s : N.
Hypothesis Hs : 3 <= s <= 8.
Let c := precompute s.
Variable B : N.
Hypothesis HB : forall i, N.testbit B i = true -> i < s * s.

Notation conn := (conn s B).

Lemma B_lt : forall X, sub X B -> X < 2 ^ 64.
Proof.
  intros X HX. destruct (N.eq_dec X 0) as [->|Hn]; [cbn; lia|].
  assert (Hb := N.bit_log2 _ Hn). apply HX, HB in Hb.
  apply N.log2_lt_pow2; [lia|]. nia.
Qed.

Lemma reach_mono w w' seed i : sub w w' -> reach c w seed i -> reach c w' seed i.
Proof.
  intros Hw H. induction H as [i Hi Hwi|j i Hr IH Hn Hwi].
  - apply reach_seed; auto.
  - eapply reach_step; eauto.
Qed.

(* the isolated lowest bit is bit1 (ctz bits) *)
Lemma isolate_is_bit1 bits : bits <> 0 -> N.ldiff bits (N.land bits (bits - 1)) = bit1 (ctz bits).
Proof. intros H. apply N.bits_inj. intros i. now rewrite isolate_lowest, testbit_bit1. Qed.

(* flooding from L inside a subset that still contains L's whole component finds exactly that component *)
Lemma flood_comp bits L :
  sub bits B -> N.testbit bits L = true -> (forall i, conn L i -> N.testbit bits i = true) ->
  exists g, flood 65 c bits (bit1 L) = Some g /\ forall i, N.testbit g i = true <-> conn L i.
Proof.
  intros Hsub HL Hcomp.
  assert (Hseed : sub (bit1 L) bits).
  { intros i Hi. rewrite testbit_bit1 in Hi. apply N.eqb_eq in Hi. now subst. }
  destruct (flood_spec c bits (bit1 L) (B_lt bits Hsub) Hseed) as (g & Hg & Hspec).
  exists g. split; [exact Hg|]. intros i. rewrite Hspec. split.
  - apply reach_mono. exact Hsub.
  - intros H. unfold Conn.conn in H. fold c in H.
    assert (Hgen : forall i, reach c B (bit1 L) i -> reach c bits (bit1 L) i /\ conn L i).
    { clear i H. intros i H. induction H as [i Hi Hw|j i Hr [IH1 IH2] Hn Hw].
      - assert (E : i = L) by (rewrite testbit_bit1 in Hi; now apply N.eqb_eq in Hi). subst.
        split; [apply reach_seed; auto|apply reach_seed; auto].
      - assert (Hc : conn L i) by (eapply reach_step; eauto).
        split; [|exact Hc]. eapply reach_step; eauto. }
    apply Hgen, H.
Qed.
End G.
Print Assumptions flood_comp.
