(* SearchDedup2.v: dedup_value_preserving, the search part.  Precise options, no table, Cfg.DedupSymmetry ON (model: SearchDedup.v), any
   cancellation point: zwSearch/pvSearch obey the window trichotomy with respect to exhaustive negamax (SearchNeg1.rec_okx) and Analyze
   reports value = nmx d p with a first move attaining it (exact_result) - exactly what holds without the option - PROVIDED a skipped
   successor has the value of the searched successor whose symmetry class put its hash into the node's cache:
     sym_skip_ok:  q, q' successors of a live p searched to depth S d, Hash(q) among the hashes of Symmetries(q')  ->  nmx d q = nmx d q'.
   SearchDedup3.v derives sym_skip_ok from a symmetric evaluator and NoCollision on the cache. *)
From Coq Require Import NArith ZArith List Bool Lia.
Require Import Board Move GameOver Eval Search NegamaxSpec SearchGen SearchExact CancelFacts SearchNeg1 SearchDedup.
Import ListNotations.
Open Scope Z_scope.

Ltac sev := cbn [evals fst snd set_fm set_fpv set_table bump upd_st record_cut write_entry count_eval] in *.

Section DX.
Variable basis : list N.
Variable cfg : config.
Variable k : Z.
Variable dedup : bool.
Let eval := c_eval cfg.

Hypothesis Hnonull : c_nonull cfg = true.
Hypothesis Hnoreduce : c_noreduce cfg = true.
Hypothesis Hnomc : c_multicut cfg = false.

Variable Pos : nat -> position -> Prop.
Hypothesis Hclosed : forall d p q, Pos (S d) p -> is_over p = false -> In q (children basis p) -> Pos d q.
Hypothesis Hhint : forall d p m q, Pos (S d) p -> is_over p = false -> okm m -> try_move basis p m = Some q -> In q (children basis p).
Hypothesis Hlive : forall d p, Pos (S d) p -> is_over p = false -> children basis p <> [].
Hypothesis Hsym : forall d p q q', Pos (S d) p -> is_over p = false -> move p < max_dedup ->
  In q (children basis p) -> In q' (children basis p) -> In (phash q) (sym_hashes basis q') ->
  nmx basis eval d q = nmx basis eval d q'.

Notation nm := (nmx basis eval).

(* ---- the evaluation counter never decreases ---- *)
Lemma pv_loop_d_mono rec : mono rec -> forall n ply depth b dd s g i best a improved cache,
  evals s <= evals (fst (fst (fst (fst (pv_loop_d basis cfg k rec n ply depth b dd s g i best a improved cache))))).
Proof.
  intros Hm. induction n; intros; cbn [pv_loop_d]; [sev; lia|].
  destruct (mg_next false basis cfg (gfuel g) s g) as [g' [[m child]|]]; [|sev; lia].
  destruct (dd && in_cache (phash child) cache); [apply IHn|].
  pose proof (pv_child_mono rec Hm (set_fm s ply m) child ply depth best a b (i + 1)) as M.
  destruct (pv_child rec (set_fm s ply m) child ply depth best a b (i + 1)) as [s1 [ms v]]. sev.
  destruct (a <? - v).
  - destruct (b <=? - v); [sev; lia|].
    match goal with |- context [cancelled k ?x] => destruct (cancelled k x) end; [sev; lia|].
    etransitivity; [|apply IHn]. sev; lia.
  - destruct (cancelled k s1); [sev; lia|]. etransitivity; [|apply IHn]. sev; lia.
Qed.
Lemma srch_step_d_mono rec : mono rec -> mono (srch_step_d basis cfg k dedup rec).
Proof.
  intros Hm zw s p ply depth pv a b cut. unfold srch_step_d. destruct ((depth <=? 0) || is_over p); [sev; lia|].
  match goal with |- context [tt_probe basis ?s1 p ply depth a ?bb] =>
    pose proof (evals_tt_probe basis s1 p ply depth a bb) as E; destruct (tt_probe basis s1 p ply depth a bb) as [[s2 te] ret] end.
  sev. destruct ret as [r|]; [sev; lia|]. destruct zw.
  - etransitivity; [|apply zw_node_mono; exact Hm]. lia.
  - unfold pv_node_d.
    match goal with |- context [pv_loop_d basis cfg k rec ?n ?ply ?d ?b ?dd ?s1 ?g ?i ?best ?a ?im ?c] =>
      pose proof (pv_loop_d_mono rec Hm n ply d b dd s1 g i best a im c) as M;
      destruct (pv_loop_d basis cfg k rec n ply d b dd s1 g i best a im c) as [[[[s3 best'] a'] im'] ab] end.
    sev. destruct ab; cbn [fst]; [lia|]. rewrite evals_pv_store. lia.
Qed.
Lemma srch_d_mono f : mono (srch_d basis cfg k dedup f).
Proof. induction f; cbn [srch_d]; [intros zw s p ply depth pv a b cut; sev; lia|apply srch_step_d_mono; exact IHf]. Qed.

(* ---- the child loop of pvSearch with the cache ---- *)
Section Node.
Variable d' : nat.
Variable rec : rec_t.
Hypothesis Hrec : rec_okx basis cfg k Pos d' rec.
Hypothesis Hmono : mono rec.
Variable p : position.
Hypothesis Hp : Pos (S d') p.
Hypothesis Hover : is_over p = false.

Let x (q : position) : Z := - nm d' q.
Let len := Z.of_nat (length (all_moves p)).

Lemma pv_loop_d_ok ply a0 b dd : (dd = true -> move p < max_dedup) -> forall n s g i best a improved seen cache,
  SI s -> GI basis p seen g -> okl best -> len + 6 - g_i g < Z.of_nat n ->
  a0 <= a < b -> (forall q, In q seen -> x q <= a) -> (forall q, In q seen -> In q (children basis p)) ->
  (forall h, In h cache -> exists q', In q' seen /\ In h (sym_hashes basis q')) ->
  (improved = false /\ a = a0 \/ improved = true /\ attains basis cfg d' p best a) ->
  let r := pv_loop_d basis cfg k rec n ply (Z.of_nat (S d')) b dd s g i best a improved cache in
  let '(s', best', a', improved', aborted) := r in
  let M := Z.max a0 (nm (S d') p) in
  SI s' /\ okl best' /\
  (cancelled k s' = false -> aborted = false /\
   (M < b -> a' = M /\ (a0 < a' -> attains basis cfg d' p best' a')) /\ (b <= M -> b <= a' <= M)).
Proof.
  intros Hdd. induction n; intros s g i best a improved seen cache HS G HB HF Hab HSEEN HCH HCACHE HIMP;
  pose proof (pv_done basis cfg Hnonull Hnoreduce Hnomc Pos Hclosed Hhint Hlive d' p Hp Hover a0 b best a improved seen Hab HSEEN HIMP) as DONE.
  { cbn [pv_loop_d]. refine (conj HS (conj HB (fun _ => conj eq_refl _))). apply DONE.
    pose proof (gen_step false basis cfg Pos Hhint d' p Hp Hover 0 g seen s G HS HF) as ST; cbn [mg_next step_ok] in ST; exact ST. }
  cbn [pv_loop_d].
  pose proof (gen_step false basis cfg Pos Hhint d' p Hp Hover (gfuel g) g seen s G HS (gfuel_ok _ _ _ _ G)) as ST.
  destruct (mg_next false basis cfg (gfuel g) s g) as [g' [[m q]|]]; cbn [step_ok] in ST.
  2:{ refine (conj HS (conj HB (fun _ => conj eq_refl _))). apply DONE; exact ST. }
  destruct ST as (Hm & HT & Hq & G' & HLT & _).
  assert (HCH' : forall q0, In q0 (q :: seen) -> In q0 (children basis p)) by (intros q0 [<-|H0]; [exact Hq|apply HCH; exact H0]).
  destruct (dd && in_cache (phash q) cache) eqn:ESK.
  { (* skipped: its hash is in the cache, so it has the value of a successor searched before *)
    apply andb_true_iff in ESK. destruct ESK as (Edd & EC). unfold in_cache in EC. apply existsb_exists in EC. destruct EC as (h & Hh & Eh).
    apply N.eqb_eq in Eh. subst h. destruct (HCACHE _ Hh) as (q' & Hq' & Hs).
    assert (EX : x q = x q') by (unfold x; rewrite (Hsym d' p q q' Hp Hover (Hdd Edd) Hq (HCH q' Hq') Hs); reflexivity).
    assert (HF' : len + 6 - g_i g' < Z.of_nat n) by (clear - HF HLT; lia).
    refine (IHn s g' i best a improved (q :: seen) cache HS G' HB HF' Hab _ HCH' _ HIMP).
    - intros q0 [<-|H0]; [rewrite EX; apply HSEEN; exact Hq'|apply HSEEN; exact H0].
    - intros h Hh'. destruct (HCACHE h Hh') as (q2 & A & B). exists q2. split; [right; exact A|exact B]. }
  set (cache' := if dd then sym_hashes basis q ++ cache else cache).
  assert (HCACHE' : forall h, In h cache' -> exists q', In q' (q :: seen) /\ In h (sym_hashes basis q')).
  { intros h Hh. subst cache'. destruct dd.
    - apply in_app_or in Hh. destruct Hh as [Hh|Hh]; [exists q; split; [left; reflexivity|exact Hh]|].
      destruct (HCACHE h Hh) as (q2 & A & B). exists q2. split; [right; exact A|exact B].
    - destruct (HCACHE h Hh) as (q2 & A & B). exists q2. split; [right; exact A|exact B]. }
  clearbody cache'.
  pose proof (pv_child_ok basis cfg k Hnonull Hnoreduce Hnomc Pos Hclosed Hhint Hlive d' rec Hrec Hmono p Hp Hover
                (set_fm s ply m) q ply best a b (i + 1) (SI_set_fm _ _ _ HS) Hq HB ltac:(lia)) as R.
  cbv zeta in R.
  destruct (pv_child rec (set_fm s ply m) q ply (Z.of_nat (S d')) best a b (i + 1)) as [s1 [ms v]].
  cbn [fst snd] in R. destruct R as (HS1 & Hms & VS). fold eval in VS. fold (x q) in VS.
  pose proof (child_le basis cfg d' p Hover q Hq) as QLE. fold eval in QLE. change (x q <= nm (S d') p) in QLE.
  destruct (a <? - v) eqn:EA.
  - apply Z.ltb_lt in EA.
    assert (HB' : okl (m :: ms)) by (constructor; assumption).
    assert (HS2 : SI (set_fpv s1 ply (set_prefix (znth (fpv s1) ply []) (m :: ms)))).
    { apply SI_set_fpv; [assumption|]. apply okl_set_prefix; [apply okl_frame; assumption|assumption]. }
    destruct (b <=? - v) eqn:EB.
    + apply Z.leb_le in EB. refine (conj (SI_record_cut _ m _ _ _ HS2 Hm) (conj HB' _)).
      rewrite canc_cut, canc_fpv. intros NC. destruct (VS NC) as (V1 & V2 & V3). split; [reflexivity|]. lia.
    + apply Z.leb_gt in EB. rewrite canc_fpv.
      destruct (cancelled k s1) eqn:EK.
      * refine (conj HS2 (conj HB' _)). rewrite canc_fpv. intros NC. rewrite EK in NC. discriminate NC.
      * destruct (VS eq_refl) as (V1 & V2 & V3).
        assert (EX : - v = x q) by lia.
        assert (HF' : len + 6 - g_i g' < Z.of_nat n) by (clear - HF HLT; lia).
        assert (Hab' : a0 <= - v < b) by (clear - Hab EA EB; lia).
        refine (IHn _ g' (i + 1) (m :: ms) (- v) true (q :: seen) cache' HS2 G' HB' HF' Hab' _ HCH' HCACHE' _).
        -- intros q0 [<-|H0]; [clear - EX; lia|]. specialize (HSEEN q0 H0). clear - HSEEN EA. lia.
        -- right. split; [reflexivity|]. exists m, ms, q. refine (conj eq_refl (conj HT (conj Hq _))). fold eval. fold (x q). clear - EX. lia.
  - apply Z.ltb_ge in EA. destruct (cancelled k s1) eqn:EK.
    + refine (conj HS1 (conj HB _)). intros NC. rewrite EK in NC. discriminate NC.
    + destruct (VS eq_refl) as (V1 & V2 & V3).
      assert (HF' : len + 6 - g_i g' < Z.of_nat n) by (clear - HF HLT; lia).
      refine (IHn s1 g' (i + 1) best a improved (q :: seen) cache' HS1 G' HB HF' Hab _ HCH' HCACHE' HIMP).
      intros q0 [<-|H0]; [clear - V1 V2 V3 EA Hab; lia|apply HSEEN; assumption].
Qed.
End Node.

(* ---- one node ---- *)
Lemma srch_step_d_okx_0 rec : rec_okx basis cfg k Pos 0 (srch_step_d basis cfg k dedup rec).
Proof.
  intros zw s p ply pv a b cut HS Hp Hpv Hab. cbv zeta. unfold srch_step_d. cbn [Z.of_nat Z.leb Z.compare orb].
  cbn [fst snd]. split; [apply SI_count_eval; apply SI_bump; assumption|]. split; [constructor|]. split; [reflexivity|]. intros _.
  fold eval. change (eval p) with (nm 0 p).
  destruct zw; unfold zw_spec, pv_spec, head_spec; fold eval; [lia|]. split; [lia|]. intros _ _ F; inversion F.
Qed.

Lemma srch_step_d_zw rec s p ply depth pv a b cut :
  srch_step_d basis cfg k dedup rec true s p ply depth pv a b cut = srch_step false basis cfg k rec true s p ply depth pv a b cut.
Proof.
  unfold srch_step_d, srch_step. destruct ((depth <=? 0) || is_over p); [reflexivity|].
  match goal with |- context [tt_probe basis ?s1 p ply depth a ?bb] => destruct (tt_probe basis s1 p ply depth a bb) as [[s2 te] ret] end.
  destruct ret; reflexivity.
Qed.

Lemma srch_step_d_okx_S d' rec : rec_okx basis cfg k Pos d' rec -> mono rec -> rec_okx basis cfg k Pos (S d') (srch_step_d basis cfg k dedup rec).
Proof.
  intros Hrec Hmono zw s p ply pv a b cut HS Hp Hpv Hab.
  destruct zw.
  { (* zwSearch is Search.v's: the step functions agree on it *)
    rewrite srch_step_d_zw.
    exact (srch_step_okx_S false basis cfg k Hnonull Hnoreduce Hnomc Pos Hclosed Hhint Hlive d' rec Hrec Hmono true s p ply pv a b cut HS Hp Hpv Hab). }
  cbv zeta. unfold srch_step_d.
  replace (Z.of_nat (S d') <=? 0) with false by (symmetry; apply Z.leb_gt; lia). cbn [orb].
  destruct (is_over p) eqn:EO.
  { cbn [fst snd]. split; [apply SI_count_eval; apply SI_bump; assumption|]. split; [constructor|]. split; [reflexivity|]. intros _.
    fold eval. rewrite <- (nmx_over basis eval (S d') p EO).
    unfold pv_spec, head_spec; fold eval. split; [lia|]. intros _ F; rewrite EO in F; discriminate F. }
  match goal with |- context [tt_probe basis ?s1 p ply ?dd a ?bb] =>
    assert (HS1 : SI s1) by (apply SI_bump; assumption); rewrite (tt_probe_none basis s1 p ply dd a bb (proj1 HS1)); set (sb := s1) in * end.
  specialize (Hab eq_refl). unfold pv_node_d.
  set (dd := dedup && (move p <? max_dedup)).
  assert (Hdd : dd = true -> move p < max_dedup) by (subst dd; intros E; apply andb_true_iff in E; destruct E as (_ & E); apply Z.ltb_lt; exact E).
  clearbody dd.
  set (best0 := match pv with [] => firstn 1 (znth (fpv sb) ply []) | _ :: _ => pv end).
  assert (HB0 : okl best0) by (subst best0; destruct pv; [apply Forall_firstn; apply okl_frame; assumption|assumption]).
  set (s2 := set_fpv sb ply (set_prefix (znth (fpv sb) ply []) best0)).
  assert (HS2 : SI s2) by (apply SI_set_fpv; [assumption|apply okl_set_prefix; [apply okl_frame; assumption|assumption]]).
  pose proof (pv_loop_d_ok d' rec Hrec Hmono p Hp EO ply a b dd Hdd (gfuel (new_gen sb None pv ply (Z.of_nat (S d')) p)) s2 (new_gen sb None pv ply (Z.of_nat (S d')) p) 0 best0 a false [] []
                HS2 (GI_new basis p sb pv ply _ Hpv) HB0 (gfuel_ok _ _ _ _ (GI_new basis p sb pv ply _ Hpv)) ltac:(lia) ltac:(intros q F; destruct F)
                ltac:(intros q F; destruct F) ltac:(intros h F; destruct F) ltac:(left; split; reflexivity)) as L.
  cbv zeta in L.
  destruct (pv_loop_d basis cfg k rec (gfuel (new_gen sb None pv ply (Z.of_nat (S d')) p)) ply (Z.of_nat (S d')) b dd s2 (new_gen sb None pv ply (Z.of_nat (S d')) p) 0 best0 a false [])
    as [[[[s3 best] a'] improved] ab].
  destruct L as (HS3 & HB3 & V). destruct ab; cbn [fst snd].
  + split; [assumption|]. split; [constructor|]. split; [intros F; discriminate F|]. intros NC. destruct (V NC) as (F & _). discriminate F.
  + rewrite (pv_store_none k s3 p _ best a' b improved (proj1 HS3)).
    split; [assumption|]. split; [assumption|]. split; [intros F; discriminate F|]. intros NC. destruct (V NC) as (_ & L1 & L2). split.
    * unfold pv_spec. fold eval. lia.
    * unfold head_spec. fold eval. intros W _ _. destruct L1 as (E & AT); [lia|].
      destruct AT as (m & rest & q & -> & T & Hq & X); [lia|]. exists m, rest, q. refine (conj eq_refl (conj T (conj Hq _))).
      replace (S d' - 1)%nat with d' by lia. fold eval in X. lia.
Qed.

Lemma srch_d_okx : forall f d, (d < f)%nat -> rec_okx basis cfg k Pos d (srch_d basis cfg k dedup f).
Proof.
  induction f; intros d Hd; [lia|]. cbn [srch_d]. destruct d as [|d'].
  - apply srch_step_d_okx_0.
  - apply srch_step_d_okx_S; [apply IHf; lia|apply srch_d_mono].
Qed.

(* ---- Analyze ---- *)
Hypothesis Hbound : forall d p, Pos d p -> MinEval <= eval p <= MaxEval.

Lemma az_iter_d_exact D p : (forall d, (1 <= d <= 16)%nat -> Z.of_nat d <= D -> Pos d p) -> forall n i s ms v acc d,
  SI s -> okl ms -> 1 <= i -> Z.of_nat n + i <= 17 -> d = i - 1 -> (0 < d -> exact_result basis cfg p ms v d) ->
  forall sk pv' v' d' acc' c', az_iter_d basis cfg k dedup D 0 p n i s ms v acc d = (sk, (pv', v', d', acc', c')) ->
  SI sk /\ (0 < d' -> exact_result basis cfg p pv' v' d').
Proof.
  intros HP. induction n; intros i s ms v acc d HS Hms Hi Hn Hd Hgood sk pv' v' d' acc' c' H; cbn [az_iter_d] in H.
  { inversion H; subst. split; assumption. }
  destruct (D <? i + 0) eqn:ED; [inversion H; subst; split; assumption|].
  rewrite Z.add_0_r in H, ED. apply Z.ltb_ge in ED.
  assert (Hp : Pos (Z.to_nat i) p) by (apply HP; lia).
  pose proof (srch_d_okx 40 (Z.to_nat i) ltac:(lia) false (reset_st s) p 0 ms (MinEval - 1) (MaxEval + 1) true
                (SI_reset_st s HS) Hp Hms ltac:(intros _; unfold MinEval, MaxEval; lia)) as R.
  cbv zeta in R. rewrite (Z2Nat.id i ltac:(lia)) in R.
  destruct (srch_d basis cfg k dedup 40 false (reset_st s) p 0 i ms (MinEval - 1) (MaxEval + 1) true) as [s1 [next nv]].
  cbn [fst snd] in R. destruct R as (HS1 & Hnext & HOV & PVS).
  destruct (cancelled k s1) eqn:EK; [inversion H; subst; split; assumption|].
  destruct (PVS eq_refl) as (PV & HD).
  destruct next as [|m rest]; [inversion H; subst; split; assumption|].
  assert (EO : is_over p = false) by (destruct (is_over p); [specialize (HOV eq_refl); discriminate HOV|reflexivity]).
  pose proof (nm_boundsx basis cfg Hnonull Hnoreduce Hnomc Pos Hclosed Hhint Hlive Hbound (Z.to_nat i) p Hp) as NB. fold eval in NB.
  assert (W : MinEval - 1 < nm (Z.to_nat i) p < MaxEval + 1) by lia.
  assert (GOOD : exact_result basis cfg p (m :: rest) nv i).
  { destruct PV as (_ & P2 & _). split; [apply P2; exact W|].
    destruct (HD W EO ltac:(lia)) as (m0 & rest0 & q & E & T & Hq & X). exists m0, rest0, q.
    refine (conj E (conj T (conj Hq _))). rewrite (P2 W). exact X. }
  destruct ((WinThreshold <? nv) || (nv <? - WinThreshold)).
  - inversion H; subst. split; [assumption|]. intros _. exact GOOD.
  - apply (IHn (i + 1) s1 (m :: rest) nv _ i HS1 Hnext ltac:(lia) ltac:(lia) ltac:(lia) ltac:(intros _; exact GOOD) _ _ _ _ _ _ H).
Qed.

(* dedup_value_preserving for the executed model, relative to sym_skip_ok (Hsym) *)
Theorem analyze_dedup_exactx : forall s p sk pv v d acc c,
  SI s -> (forall d, (1 <= d <= 16)%nat -> Z.of_nat d <= c_depth cfg -> Pos d p) ->
  analyze_gen_d basis cfg k dedup s p = (sk, (pv, v, d, acc, c)) ->
  SI sk /\ (0 < d -> exact_result basis cfg p pv v d).
Proof.
  intros s p sk pv v d acc c HS Hp H. unfold analyze_gen_d, analyze_depth_d in H.
  assert (ER : az_root false (az_start s) p = (0, [], 0)).
  { unfold az_root, tt_get. rewrite (proj1 (SI_az_start s HS)). reflexivity. }
  rewrite ER in H.
  exact (az_iter_d_exact (c_depth cfg) p Hp 16 1 (az_start s) [] 0 stats0 0 (SI_az_start s HS) ltac:(constructor) ltac:(lia) ltac:(cbn; lia) ltac:(lia)
           ltac:(intros F; lia) _ _ _ _ _ _ H).
Qed.
End DX.
