(* C15, layer 11: Canonical accepts every legal game (canonical_total), hence class invariance in the form of DESIGN 5.15:
   for a legal game ms, canonical (image of ms) = canonical ms. Generic in the board invariant as Canon3.v / Canon7.v, with the
   Err / Panic half of the refinement of Position.Move. *)
From Coq Require Import NArith ZArith Arith List Bool Lia ZifyN ZifyBool ZifyNat.
Require Import Rules Sym SymRules1 SymRules2 SymRules3 SymRules4.
Require Import Board Stack Move GameOver Tps Symmetry CanonFacts Refine SymCode1 Canon1 Canon2 Canon2b Canon3 Canon6 Canon7.
Require Import Generated.Consts.
Import ListNotations.
Close Scope Z_scope. Close Scope N_scope.

(* ---------- rules level ---------- *)
Lemma rules_move_on_board b m b' : rules_move b m = Some b' -> on_board b (mx m) (my m) = true.
Proof.
  unfold rules_move, decode. destruct (mtype m) as [|q]; [discriminate|]. do 4 (try destruct q as [q|q|]); try discriminate;
  unfold place, slide; try (destruct (ply b <? 2)%Z; [discriminate|]); destruct (on_board b (mx m) (my m)); cbn [negb]; try discriminate; reflexivity.
Qed.

Lemma rules_move_not_pass b m b' : rules_move b m = Some b' -> mtype m <> 1%N.
Proof. unfold rules_move, decode. intros H E. rewrite E in H. discriminate. Qed.

Lemma all_res_all_ok {A B} (f : A -> res B) (l : list A) : (forall x, In x l -> exists a, f x = Ok a) -> exists bs, all_res (map f l) = Ok bs.
Proof.
  induction l as [|x t IH]; intros H; [exists []; reflexivity|].
  destruct (H x (or_introl eq_refl)) as [a Ea]. destruct (IH (fun y Hy => H y (or_intror Hy))) as [bs Ebs].
  exists (a :: bs). cbn [map all_res]. now rewrite Ea, Ebs.
Qed.

Section Total.
Variable sz : N.
Hypothesis Hsz : (3 <= sz <= 8)%N.
Local Notation s := (N.to_nat sz).
Local Notation d := (cstate0 sz).
Variable BI SC : position -> Prop.
Hypothesis BI_move : forall p m q, BI p -> cmv p m = Ok q -> SC q -> rules_move (abs p) (raw m) = Some (abs q) /\ BI q.
Hypothesis BI_new : BI (new_pos gen_basis sz).
Hypothesis BI_hash : forall p q, BI p -> BI q -> abs p = abs q -> hash_of p = hash_of q.
(* the other half of the refinement: Move fails only on moves the rules reject, and never panics *)
Hypothesis BI_total : forall p m, BI p -> mT m <> 1%N ->
  match cmv p m with Ok _ => True | Err => rules_move (abs p) (raw m) = None | Panic => False end.

Lemma cstep_total done boards rots tfn m B B' :
  cinv sz BI done (boards, rots, tfn) -> nocoll_state sz (boards, rots, tfn) -> movelike m ->
  play (P0 sz) (map raw done) = Some B -> rules_move B (raw m) = Some B' ->
  exists st', cstep sz (Ok (boards, rots, tfn)) m = Ok st'.
Proof.
  intros Hc Hnc Hml HplayB0 Hlegal. assert (Hs := Hs7 sz Hsz).
  destruct Hc as [Hlen Hbi _ Himg (j & B1 & Hj & Hag & _ & HplayB & HwB & HnB & HA) _ _]. cbn [fst snd] in *.
  rewrite HplayB0 in HplayB. apply some_inj in HplayB. subst B1.
  unfold nocoll_state in Hnc. cbn [fst snd] in Hnc.
  set (A := A_of sz boards) in *.
  assert (HwA : well_shaped A) by (rewrite HA; now apply img_well_shaped).
  assert (HnA : Rules.n A = s) by (rewrite HA; exact HnB).
  (* the move is on the board *)
  assert (Hon := rules_move_on_board _ _ _ Hlegal). apply on_board_onb in Hon. rewrite HnB in Hon. destruct Hon as [O1 O2]. cbn [raw mx my fst snd] in O1, O2.
  assert (Hr : inrange 20 m) by (unfold size_ok in Hs; split; lia).
  unfold cstep. rewrite <- (N_nat_Z sz).
  rewrite (tfn_transform sz Hsz BI SC BI_move tfn j m Hag Hj Hr Hml).
  set (L := combine (seq 0 8) boards). set (h0 := hash_of (cp (hd (cstate0 sz) boards))).
  assert (HL : forall ib, In ib L -> fst ib < 8).
  { intros [i b] Hin. apply (in_combine_seq d) in Hin. cbn [fst]. lia. }
  assert (Hm1r : inrange 27 (tmr j s m)) by (apply (tmr_inrange j s m 20); try assumption; lia).
  assert (Hm1t : transformable (tmr j s m)) by (apply transformable_of; [destruct Hm1r; split; lia|now apply tmr_movelike]).
  destruct (cand_fold_min s Hs h0 (tmr j s m) Hm1t L (tmr j s m) None HL) as (best & rot & Ef & Hcb & _ & _). rewrite Ef.
  (* the chosen move is the image of m under a symmetry that maps B onto board 0 *)
  assert (Hbest : exists j', j' < 8 /\ A = img j' B /\ best = tmr j' s m).
  { destruct Hcb as [[-> _]|[(i & b & Hib & Hn0 & Hh & ->) _]]; [exists j; auto|].
    apply (in_combine_seq d) in Hib. destruct Hib as [Hi Eb]. rewrite Nat.sub_0_r in Eb.
    assert (Hbin : In b boards) by (rewrite <- Eb; apply nth_In; lia).
    assert (Hfix := Hnc b Hbin Hh). rewrite <- Eb, (Himg i ltac:(lia)) in Hfix. fold A in Hfix.
    exists (comp i j). split; [apply comp_lt; lia|]. split; [|apply tmr_comp; lia].
    rewrite <- Hfix at 1. rewrite HA. apply img_comp; try lia. rewrite HnB. exact Hs. }
  destruct Hbest as (j' & Hj' & HA' & ->).
  assert (Hgoal : (exists bs, all_res (map (move_board (syms (Z.of_nat s)) (tmr j' s m)) L) = Ok bs) ->
                  exists st', (let '(rots0, tfn0, m2) := match rot with Some r => let rots' := r :: rots in (rots', compose rots', tmr j' s m)
                                                            | None => (rots, tfn, tmr j s m) end in
                     match all_res (map (move_board (syms (Z.of_nat s)) m2) L) with Ok bs => Ok (bs, rots0, tfn0) | Err => Err | Panic => Panic end)
                    = Ok st').
  { intros [bs Ebs]. destruct Hcb as [[E ->]|[_ [r ->]]]; cbv beta iota zeta; [rewrite <- E|]; rewrite Ebs; eexists; reflexivity. }
  apply Hgoal. clear Hgoal.
  (* every board accepts its image of the move *)
  set (m2 := tmr j' s m).
  assert (Hm2r : inrange 27 m2) by (apply (tmr_inrange j' s m 20); try assumption; lia).
  assert (Hm2t : transformable m2) by (apply transformable_of; [destruct Hm2r; split; lia|now apply tmr_movelike]).
  assert (RA : rules_move A (raw m2) = Some (img j' B')).
  { unfold m2. rewrite raw_tmr, HA', <- HnB. rewrite (rules_equivariant j' B (raw m) Hj' HwB), Hlegal. reflexivity. }
  apply (all_res_all_ok (move_board (syms (Z.of_nat s)) m2) L).
  intros [i b] Hib. apply (in_combine_seq d) in Hib. destruct Hib as [Hi Eb]. rewrite Nat.sub_0_r in Eb.
  assert (Hi8 : i < 8) by lia.
  assert (Hbin : In b boards) by (rewrite <- Eb; apply nth_In; lia).
  unfold move_board. cbn [fst snd].
  change (nth i (syms (Z.of_nat s)) (fun x y => (x, y))) with (csym s i).
  rewrite (transform_move_tm i s m2 Hi8 Hs Hm2t).
  assert (Ri : rules_move (abs (cp b)) (raw (tmr i s m2)) = Some (img i (img j' B'))).
  { rewrite <- Eb, (Himg i Hi8). fold A. rewrite raw_tmr, <- HnA. rewrite (rules_equivariant i A (raw m2) Hi8 HwA), RA. reflexivity. }
  assert (Hnp : mT (tmr i s m2) <> 1%N) by (apply (rules_move_not_pass _ _ _ Ri)).
  assert (T := BI_total (cp b) (tmr i s m2) (Hbi b Hbin) Hnp).
  destruct (cmv (cp b) (tmr i s m2)) as [q| |]; [eexists; reflexivity|rewrite Ri in T; discriminate|contradiction].
Qed.

Lemma legal_fold : forall ms B, Forall movelike ms -> nocoll_trace sz ms -> sc_trace sz SC ms ->
  play (P0 sz) (map raw ms) = Some B ->
  Forall canon_input ms /\ exists st, fold_left (cstep sz) ms (cinit sz) = Ok st.
Proof.
  assert (Hs := Hs7 sz Hsz).
  induction ms as [|m ms IH] using rev_ind; intros B Hall Hnc Hsc Hplay.
    - split; [constructor|]. eexists. reflexivity.
    - apply Forall_app in Hall. destruct Hall as [Hall Hm]. inversion Hm as [|? ? Hml _]; subst.
      rewrite play_snoc in Hplay. destruct (play (P0 sz) (map raw ms)) as [B0|] eqn:HB0; [|discriminate].
      assert (Hnc' : nocoll_trace sz ms).
      { intros k st0 Hk Hf0. apply (Hnc k st0); [rewrite app_length; cbn; lia|]. now rewrite firstn_app_le by lia. }
      assert (Hsc' : sc_trace sz SC ms).
      { intros k st0 Hk Hf0. apply (Hsc k st0); [rewrite app_length; cbn; lia|]. now rewrite firstn_app_le by lia. }
      destruct (IH B0 Hall Hnc' Hsc' eq_refl) as (Hin & [[boards rots] tfn] & E0).
      assert (Hc := canonical_inv sz Hsz BI SC BI_move BI_new ms Hin Hnc' Hsc' _ E0).
      assert (Hgood : nocoll_state sz (boards, rots, tfn)).
      { apply (Hnc (length ms)); [rewrite app_length; cbn; lia|]. rewrite firstn_app_le by lia. now rewrite firstn_all. }
      assert (Hcm : canon_input m).
      { assert (Hw0 : well_shaped B0).
        { destruct Hc as [_ _ _ _ (j & B1 & _ & _ & _ & HplayB & HwB & _) _ _]. cbn [fst snd] in HplayB.
          rewrite HB0 in HplayB. apply some_inj in HplayB. now subst. }
        assert (Hon := rules_move_on_board _ _ _ Hplay). apply on_board_onb in Hon. destruct Hon as [O1 O2]. cbn [raw mx my fst snd] in O1, O2.
        destruct Hw0 as [[W1 W2] _]. split; [unfold int8; lia|]. split; [unfold int8; lia|exact Hml]. }
      split; [apply Forall_app; split; [exact Hin|constructor; [exact Hcm|constructor]]|].
      destruct (cstep_total ms boards rots tfn m B0 B Hc Hgood Hml HB0 Hplay) as [st' Est].
      exists st'. now rewrite fold_cstep_app, E0.
Qed.

Theorem canonical_total_gen : forall ms B, Forall movelike ms -> nocoll_trace sz ms -> sc_trace sz SC ms ->
  play (P0 sz) (map raw ms) = Some B -> exists cs, canonical gen_basis sz ms = Ok cs.
Proof.
  intros ms B Hall Hnc Hsc Hplay. destruct (legal_fold ms B Hall Hnc Hsc Hplay) as (_ & [[boards rots] tfn] & E).
  rewrite canonical_unfold, E. eexists. reflexivity.
Qed.

(* DESIGN 5.15 canonical_class_invariant, in its original form: for a legal game, the image has the same canonical form *)
Theorem canonical_class_invariant_legal_gen : forall g ms B, g < 8 ->
  Forall movelike ms -> nocoll_trace sz ms -> sc_trace sz SC ms -> play (P0 sz) (map raw ms) = Some B ->
  canonical gen_basis sz (map (tmr g s) ms) = canonical gen_basis sz ms /\ exists cs, canonical gen_basis sz ms = Ok cs.
Proof.
  intros g ms B Hg Hall Hnc Hsc Hplay.
  destruct (canonical_total_gen ms B Hall Hnc Hsc Hplay) as [cs Ecs]. split; [|now exists cs].
  rewrite Ecs. apply (canonical_class_invariant_gen sz Hsz BI SC BI_move BI_new BI_hash g ms cs Hg); try assumption.
  apply (legal_fold ms B Hall Hnc Hsc Hplay).
Qed.
End Total.
