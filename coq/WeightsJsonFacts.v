(* WeightsJsonFacts.v: the post-processing of ai/json.go never panics with the REGENERATED name table
   (coq/Generated/Consts.v: gen_featureNames is featureNames as init() built it, read from the linked package on every
   check run): every index in the table is below MaxFeature - by computation over the regenerated constants, so a table
   with a leaked out-of-range entry breaks this file on the next run. *)
From Coq Require Import NArith ZArith List Bool Lia Permutation.
Require Import PtnMove Playtak WeightsJson.
Require Import Generated.Consts.
Import ListNotations.
Local Open Scope N_scope.

Definition in_range_table (names : list (list N * N)) (maxf : N) : bool := forallb (fun p => snd p <? maxf) names.
Definition known (names : list (list N * N)) (p : list N * Z) : bool :=
  match lookup names (fst p) with Some _ => true | None => false end.

Lemma lookup_in_range names maxf : in_range_table names maxf = true ->
  forall k f, lookup names k = Some f -> f <? maxf = true.
Proof.
  induction names as [|[n g] r IH]; intros H k f L; cbn [lookup] in L; [discriminate|].
  cbn [in_range_table forallb snd] in H. apply andb_prop in H as [H1 H2].
  destruct (bytes_eqb n k); [inversion L; subst; exact H1 | now apply (IH H2 k f)].
Qed.

Theorem unmarshal_total names maxf : in_range_table names maxf = true ->
  forall pairs ws, unmarshal_post names maxf pairs ws <> Panic.
Proof.
  intros H. induction pairs as [|[k v] r IH]; intros ws; cbn [unmarshal_post]; [discriminate|].
  destruct (lookup names k) as [f|] eqn:L; [|discriminate].
  rewrite (lookup_in_range names maxf H k f L). apply IH.
Qed.

(* the outcome class: an error iff some key is unknown - whatever the order of the pairs *)
Theorem unmarshal_class names maxf : in_range_table names maxf = true ->
  forall pairs ws, res_class (unmarshal_post names maxf pairs ws) = if forallb (known names) pairs then 0 else 1.
Proof.
  intros H. induction pairs as [|[k v] r IH]; intros ws; cbn [unmarshal_post forallb]; [reflexivity|].
  unfold known at 1. cbn [fst]. destruct (lookup names k) as [f|] eqn:L; [|reflexivity].
  rewrite (lookup_in_range names maxf H k f L). cbn [andb]. apply IH.
Qed.

Lemma forallb_perm {A} (f : A -> bool) l l' : Permutation l l' -> forallb f l = forallb f l'.
Proof.
  intros P. destruct (forallb f l) eqn:E; symmetry.
  - rewrite forallb_forall in *. intros x Hx. apply E. eapply Permutation_in; [apply Permutation_sym; exact P | exact Hx].
  - destruct (forallb f l') eqn:E'; [|reflexivity]. rewrite forallb_forall in E'.
    assert (forallb f l = true) by (apply forallb_forall; intros x Hx; apply E'; eapply Permutation_in; eauto). congruence.
Qed.

Corollary unmarshal_class_order names maxf : in_range_table names maxf = true ->
  forall pairs pairs' ws ws', Permutation pairs pairs' ->
  res_class (unmarshal_post names maxf pairs ws) = res_class (unmarshal_post names maxf pairs' ws').
Proof.
  intros H pairs pairs' ws ws' P. rewrite !(unmarshal_class names maxf H). now rewrite (forallb_perm _ _ _ P).
Qed.

(* ---- the regenerated table ---- *)

Theorem weights_names_in_range : in_range_table gen_featureNames gen_maxf = true.
Proof. vm_compute. reflexivity. Qed.

Theorem weights_unmarshal_total : forall pairs ws, unmarshal_post gen_featureNames gen_maxf pairs ws <> Panic.
Proof. exact (unmarshal_total _ _ weights_names_in_range). Qed.

(* the table is the inverse of the stringer on 0 .. MaxFeature-1, and has exactly MaxFeature entries *)
Definition tables_agree : bool :=
  (length gen_featureNames =? gen_MaxFeature)%nat && (length gen_featureStrings =? gen_MaxFeature)%nat &&
  forallb (fun i => match lookup gen_featureNames (nth i gen_featureStrings []) with Some f => f =? N.of_nat i | None => false end)
          (seq 0 gen_MaxFeature).
Theorem weights_tables_agree : tables_agree = true.
Proof. vm_compute. reflexivity. Qed.

(* round trip on the slots, by computation on every row of DefaultWeights (the weight sets the program ships) *)
Fixpoint zs_eqb (a b : list Z) : bool :=
  match a, b with [], [] => true | x :: a', y :: b' => (x =? y)%Z && zs_eqb a' b' | _, _ => false end.
Definition rt_row (ws : list Z) : bool :=
  match unmarshal_post gen_featureNames gen_maxf (marshal_pre gen_featureStrings ws) (zeros gen_maxf) with
  | Ok ws' => zs_eqb ws ws'
  | _ => false
  end.
Theorem weights_roundtrip_defaults : forallb rt_row gen_DefaultWeights = true.
Proof. vm_compute. reflexivity. Qed.

Example unknown_key_is_error :
  res_class (unmarshal_post gen_featureNames gen_maxf [([84; 111; 112; 70; 108; 97; 116], 5%Z); ([78; 111; 112; 101], 1%Z)] (zeros gen_maxf)) = 1 /\
  res_class (unmarshal_post gen_featureNames gen_maxf [([77; 97; 120; 70; 101; 97; 116; 117; 114; 101], 1%Z)] (zeros gen_maxf)) = 1.
Proof. split; vm_compute; reflexivity. Qed.
(* with a table that leaks the sentinel the model does panic: the hypothesis of unmarshal_total is needed *)
Example leaked_sentinel_panics :
  unmarshal_post (([77; 97; 120], 36) :: gen_featureNames) gen_maxf [([77; 97; 120], 1%Z)] (zeros gen_maxf) = Panic.
Proof. vm_compute. reflexivity. Qed.
