(* SearchDedupEx2.v: the built-in evaluator ai.MakeEvaluator(size, nil) is NOT invariant under the board symmetries.
   px = the 5x5 position after a1 a3 b3 c1 c4 e1 d4 a5 e4 c5 c2 e5 d2 b4 e2 (TPS 2,x,2,x,2/x,2,1,1,1/1,1,x3/x2,1,1,1/2,x,2,x,2 2 8, Black
   to move): White's groups a3-b3 (left edge), c4-d4-e4 and c2-d2-e2 (right edge) all meet at the empty square c3.  CountThreats
   attributes every junction of two groups to the group that bitboard.FloodGroups lists LATER and counts the completion squares per group:
   when the left group comes last its two junctions share c3 and count once, when it comes first they are counted once for each right
   group.  The order of the groups follows the bit order of the squares, which an image changes: the evaluation is -1790 for px and six
   of its images and -1390 for the images 4 and 6.  The real evaluator returns the same numbers (notes/finding_default_eval_asymmetric.txt).
   Hence eval_symmetric - the hypothesis of dedup_value_preserving - is FALSE for the built-in evaluator; it holds for EvaluateWinner. *)
From Coq Require Import NArith ZArith List Bool Lia.
Require Import Board Stack Rules Move GameOver Refine Alloc Preserve1 Reach1 PreserveEx Tps Symmetry TpsFacts5 Import5 OpeningFacts2.
Require Import Eval EvalSpec Search SearchInst SearchNeg2 SearchNeg5 SearchDedup3 SearchDedup4.
Require Import Generated.Consts.
Import ListNotations.
Open Scope Z_scope.

Definition msx : list rmove :=
  [M 2 0 0 0; M 2 0 2 0; M 2 1 2 0; M 2 2 0 0; M 2 2 3 0; M 2 4 0 0; M 2 3 3 0; M 2 0 4 0; M 2 4 3 0; M 2 2 4 0; M 2 2 1 0; M 2 4 4 0; M 2 3 1 0; M 2 1 3 0; M 2 4 1 0]%Z%N.
Definition px : position := match replay start5 msx with Ok p => p | _ => start5 end.
Lemma replay_msx : replay start5 msx = Ok px.
Proof. vm_compute. reflexivity. Qed.

Lemma G_start5 : G start5.
Proof.
  pose proof (base_ok_new 5 false 21 1 ltac:(lia) ltac:(lia) ltac:(lia) ltac:(lia)) as (Hp & _). change (Alloc.new_pos 5 false 21 1) with start5 in Hp.
  split; [|vm_compute; intros F; discriminate F]. constructor; [exact Hp| |reflexivity|].
  - unfold reserves_match_board. vm_compute. repeat split; try reflexivity; intros F; discriminate F.
  - assert (E1 : rsum_p start5 = 44%N) by (vm_compute; reflexivity). assert (E2 : rfull start5 = 44%N) by (vm_compute; reflexivity).
    assert (E3 : Move.move start5 = 0) by reflexivity. unfold opening_inv. rewrite E1, E2, E3. lia.
Qed.

Lemma G_px : G px.
Proof. exact (G_replay msx start5 px G_start5 replay_msx). Qed.

Lemma px_values : map (fun k => default_eval (imgk px k)) (seq 0 8) = [-1790; -1790; -1790; -1790; -1390; -1790; -1390; -1790] /\
  default_eval px = -1790 /\ is_over px = false /\ move px = 15.
Proof. vm_compute. repeat split. Qed.

(* the hypothesis eval_symmetric of C05_dedup_value_preserving_sym fails for the built-in evaluator *)
Theorem default_eval_not_symmetric : ~ (forall p k, (k < 8)%nat -> G p -> default_eval (imgk p k) = default_eval p).
Proof.
  intros H. specialize (H px 4%nat ltac:(lia) G_px). destruct px_values as (E & E0 & _).
  assert (E4 : default_eval (imgk px 4) = -1390) by (exact (f_equal (fun l => nth 4 l 0) E)).
  rewrite E4, E0 in H. discriminate H.
Qed.
