(* C14, layer 7: equivariance of the code-shaped Position.Move under C01's full invariant pos_ok and the EXACT representation
   limit fits64 (no stack of the rules successor above 64), and the invariant holds again on both sides. *)
From Coq Require Import NArith ZArith Arith List Bool Lia ZifyN ZifyBool ZifyNat Permutation.
Require Import Rules Sym SymRules1 SymRules2 SymRules4.
Require Import Board Stack Move GameOver Tps Symmetry Refine Slide2 Slide6 Slide8 MoveRefines SymCode1 Canon1 Canon2 SymCode2.
Require Import Preserve1 Preserve5 Preserve6.
Import ListNotations.
Close Scope Z_scope. Close Scope N_scope.

Lemma fits64_img k p q m : k < 8 -> pos_ok p -> abs q = img k (abs p) -> fits64 p m -> fits64 q (tmr k (N.to_nat (size p)) m).
Proof.
  intros Hk Hp Hq Hf s' Hs'. assert (Hs := po_size _ Hp).
  rewrite Hq, raw_tmr, <- (abs_n p) in Hs'.
  rewrite (rules_equivariant k (abs p) (raw m) Hk (abs_well_shaped p Hs)) in Hs'.
  destruct (rules_move (abs p) (raw m)) as [s0|] eqn:E; [|discriminate]. cbn [option_map] in Hs'. apply some_inj' in Hs'. subst s'.
  specialize (Hf s0 E).
  assert (Hw : well_shaped s0) by (apply (rules_move_well_shaped (abs p) (raw m)); [now apply abs_well_shaped|exact E]).
  destruct Hw as [Hn Hl]. cbn [img sq].
  apply (Permutation_Forall (x := sq s0)); [|exact Hf]. symmetry. apply permL_perm; assumption.
Qed.

Theorem move_equivariant64 : forall k p q m, k < 8 -> pos_ok p -> pos_ok q -> abs q = img k (abs p) -> fits64 p m -> mT m <> 1%N ->
  match mv p m, mv q (tmr k (N.to_nat (size p)) m) with
  | Ok p', Ok q' => abs q' = img k (abs p') /\ pos_ok p' /\ pos_ok q'
  | Err, Err => True
  | _, _ => False
  end.
Proof.
  intros k p q m Hk Hp Hq E Hf Hm. assert (Hs := po_size _ Hp).
  assert (R1 := move_refines_rules64 p m Hp Hf Hm).
  assert (R2 := move_refines_rules64 q (tmr k (N.to_nat (size p)) m) Hq (fits64_img k p q m Hk Hp E Hf) (ttype_ne1 k _ Hm)).
  rewrite E, raw_tmr, <- (abs_n p) in R2.
  rewrite (rules_equivariant k (abs p) (raw m) Hk (abs_well_shaped p Hs)) in R2.
  destruct (mv p m) as [p'| |]; [| |contradiction]; destruct (mv q _) as [q'| |]; try contradiction.
  - destruct R1 as (R1 & Hp' & _). destruct R2 as (R2 & Hq' & _). rewrite R1 in R2. cbn [option_map] in R2.
    apply some_inj' in R2. split; [symmetry; exact R2|]. split; assumption.
  - destruct R1 as (R1 & _). rewrite R1 in R2. discriminate.
  - destruct R2 as (R2 & _). rewrite R1 in R2. discriminate.
  - exact I.
Qed.
Print Assumptions move_equivariant64.

Corollary move_equivariant64_code : forall k p q m, k < 8 -> pos_ok p -> pos_ok q -> abs q = img k (abs p) -> fits64 p m ->
  transformable m -> mT m <> 1%N ->
  match transform_move (csym (N.to_nat (size p)) k) m with
  | Ok m' => match mv p m, mv q m' with
             | Ok p', Ok q' => abs q' = img k (abs p') /\ pos_ok p' /\ pos_ok q'
             | Err, Err => True
             | _, _ => False
             end
  | _ => False
  end.
Proof.
  intros k p q m Hk Hp Hq E Hf Ht Hm. rewrite transform_move_tm; try assumption.
  - now apply move_equivariant64.
  - assert (Hs := po_size _ Hp). unfold size_ok. lia.
Qed.
