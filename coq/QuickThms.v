(* finite theorems by complete computation *)
From Coq Require Import NArith ZArith List Bool Lia.
Require Import PtnMove Playtak Board Move GameOver Tps Symmetry.
Import ListNotations.

(* C11: the playtak wire spelling round-trips for every move shape whose slide ends on the 8x8 grid *)
Definition end_on_grid (m : PtnMove.move) : bool :=
  let l := Z.of_nat (length (PtnMove.nibbles 8 (PtnMove.mS m))) in
  if (PtnMove.mT m =? SlideLeft)%N then (0 <=? PtnMove.mX m - l)%Z
  else if (PtnMove.mT m =? SlideRight)%N then (PtnMove.mX m + l <? 8)%Z
  else if (PtnMove.mT m =? SlideDown)%N then (0 <=? PtnMove.mY m - l)%Z
  else if (PtnMove.mT m =? SlideUp)%N then (PtnMove.mY m + l <? 8)%Z else true.
Definition srv_ok (m : PtnMove.move) : bool :=
  negb (end_on_grid m) || match parse_server (format_server m) with PtnMove.Ok m' => move_eqb m m' | _ => false end.
Definition all_srv_ok : bool := forallb (fun x => forallb (fun y => forallb srv_ok (moves_at x y)) coords) coords.
Theorem server_roundtrip_all : all_srv_ok = true.
Proof. vm_compute. reflexivity. Qed.

(* the C20 (first-player-advantage scripts) theorems by enumeration are in FpaFacts.v *)
