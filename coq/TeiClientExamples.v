(* TeiClientExamples.v: non-vacuity of the client/server theorems on a real game position - p14 of PreserveEx.v, the position after the
   14-ply 5x5 game replayed there (a five-high stack, a black wall, the white capstone; TPS "2,x3,1/x4,1C/x4,2S/x4,22221/2,x4 1 8").
   The engine model runs with a one-line searcher that proposes the flat placement b2 (the theorems are generic in the searcher). *)
From Coq Require Import NArith ZArith List Bool Lia String.
Require Import Board Move GameOver PtnMove Playtak Tps TeiBudget Tei TeiSpec TeiFacts TeiClient TeiClientFacts TeiClientFacts2 TeiClientFacts3.
Require Import Refine Alloc Preserve1 Reach1 PreserveEx TpsFacts5 TpsFacts6 TpsFacts9 Generated.Consts.
Import ListNotations.
Open Scope N_scope.

Definition cx_m : rmove := {| Move.mX := 1; Move.mY := 1; Move.mT := 2; Move.mS := 0 |}.
Definition cx_mk (size : Z) : unit := tt.
Definition cx_search (s : unit) (limit : option Z) (p : position) : unit * (list rmove * Z * Z * Z) := (tt, ([cx_m], 0%Z, 1%Z, 1%Z)).
Definition cx_eng := tei_proc gen_basis unit cx_mk cx_search.
Definition cx_q : position := Eval vm_compute in match tmove gen_basis p14 cx_m with Move.Ok q => q | _ => p14 end.

(* the hypotheses of client_position_line_exact / client_server_move_legal hold of p14 *)
Example cx_pos_ok : pos_ok p14.
Proof. exact (proj1 ex_reachable). Qed.
Example cx_reserves : reserves_match_board p14.
Proof.
  destruct (reachable_round_trip_hyps_small 5 false ms14 p14 ltac:(lia) no_pass_ms14 replay_ms14) as (_ & _ & R & _). exact R.
Qed.
Example cx_flag : Move.black_wins_ties p14 = false.
Proof. vm_compute. reflexivity. Qed.
Example cx_ply : (0 <= Move.move p14 < 2 ^ 63)%Z.
Proof. assert (E : Move.move p14 = 14%Z) by (vm_compute; reflexivity). rewrite E. lia. Qed.
Example cx_live : live p14.
Proof. exists GNone. vm_compute. reflexivity. Qed.
Example cx_searcher : searcher_ok_wire_at unit cx_search p14.
Proof.
  intros s lim. exists cx_m, [], 0%Z, 1%Z, 1%Z, tt. split; [reflexivity|]. split.
  - exists cx_q. vm_compute. reflexivity.
  - split; [vm_compute; reflexivity|intros _; reflexivity].
Qed.

(* a client fresh from the handshake with the engine model *)
Definition cx_c0 := Eval vm_compute in fst (new_client (proc unit) cx_eng (proc0 unit)).
Example cx_handshake : new_client (proc unit) cx_eng (proc0 unit) = (cx_c0, ROk tt).
Proof. vm_compute. reflexivity. Qed.
Example cx_in_sync : in_sync unit cx_c0.
Proof. repeat split; try reflexivity; cbn; intros; discriminate. Qed.

Definition cx_tc : tctl := {| tc_white := 61500999999; tc_black := 60000000000; tc_winc := 0; tc_binc := 1999999 |}.
Definition cx_dl : Z := 4999999999.

(* ... the go line says: movetime 4999, wtime 61500, btime 60000, binc 1; winc (0) is left out *)
Example cx_go_line : exists ws, go_words (Some cx_dl) (Some cx_tc) = Some ws /\
  go_line ws = str "go movetime 4999 wtime 61500 btime 60000 binc 1".
Proof. eexists. split; vm_compute; reflexivity. Qed.

(* ... and what the theorems promise, by running the models: the lines written, the engine's position, the move returned *)
Definition cx_game := Eval vm_compute in new_game (proc unit) cx_eng cx_c0 5%Z.
Definition cx_move := Eval vm_compute in tei_get_move (proc unit) cx_eng (fst cx_game) 1%Z p14 (Some cx_dl) (Some cx_tc).
Example cx_position_line : position_line p14 = str "position tps 2,x3,1/x4,1C/x4,2S/x4,22221/2,x4 1 8".
Proof. vm_compute. reflexivity. Qed.
Example cx_run :
  snd cx_game = ROk 1%Z /\ snd cx_move = ROk (of_rmove cx_m) /\
  e_pos (p_eng (c_es (fst cx_move))) = Some p14 /\ c_buf (fst cx_move) = [] /\ legal gen_basis p14 cx_m.
Proof.
  split; [vm_compute; reflexivity|]. split; [vm_compute; reflexivity|]. split; [vm_compute; reflexivity|].
  split; [vm_compute; reflexivity|]. exists cx_q. vm_compute. reflexivity.
Qed.

(* the general theorem instantiated: every hypothesis discharged *)
Example cx_theorem :
  exists c1 g, new_game (proc unit) (tei_proc gen_basis unit cx_mk cx_search) cx_c0 (Z.of_N (Move.size p14)) = (c1, ROk g) /\
  exists c2 m, tei_get_move (proc unit) (tei_proc gen_basis unit cx_mk cx_search) c1 g p14 (Some cx_dl) (Some cx_tc) = (c2, ROk m) /\
    legal gen_basis p14 (to_rmove m) /\ in_sync unit c2 /\ e_pos (p_eng (c_es c2)) = Some p14.
Proof.
  refine (client_server_move_legal_at unit cx_mk cx_search cx_c0 p14 (Some cx_dl) (Some cx_tc)
           cx_searcher cx_in_sync cx_pos_ok cx_reserves cx_flag cx_ply _ _ _).
  - intros d E. injection E as <-. unfold int64, cx_dl. lia.
  - intros t E. injection E as <-. unfold tc_int64, int64, cx_tc. cbn. lia.
  - destruct cx_go_line as (ws & E & _). rewrite E. discriminate.
Qed.

Example cx_all :
  pos_ok p14 /\ reserves_match_board p14 /\ live p14 /\
  position_line p14 = str "position tps 2,x3,1/x4,1C/x4,2S/x4,22221/2,x4 1 8" /\
  (let eng := tei_proc gen_basis unit cx_mk cx_search in
   exists c1 g, new_game (proc unit) eng cx_c0 (Z.of_N (Move.size p14)) = (c1, ROk g) /\
   exists c2 m, tei_get_move (proc unit) eng c1 g p14 (Some cx_dl) (Some cx_tc) = (c2, ROk m) /\
     legal gen_basis p14 (to_rmove m) /\ in_sync unit c2 /\ e_pos (p_eng (c_es c2)) = Some p14).
Proof. exact (conj cx_pos_ok (conj cx_reserves (conj cx_live (conj cx_position_line cx_theorem)))). Qed.

(* the two panics of the client model are real (confirmed on the Go code by the C17 check, families answers / dead-player):
   an engine that prints an empty line before its bestmove, and a player of an earlier game *)
Definition cx_blank_eng (k : nat) (line : list N) : option (eresp nat) :=
  Some {| er_state := S k; er_out := match k with 3%nat => [[]; str "bestmove a1"] | O => [str "teiok"] | _ => [] end; er_closed := false |}.
Example cx_blank_line_panics :
  let c0 := fst (new_client nat cx_blank_eng O) in
  let c1 := fst (new_game nat cx_blank_eng c0 5%Z) in
  snd (tei_get_move nat cx_blank_eng c1 1%Z p14 None None) = RPanic PBlankLine.
Proof. vm_compute. reflexivity. Qed.
Example cx_dead_player_panics :
  let c1 := fst (new_game (proc unit) cx_eng cx_c0 5%Z) in
  let c2 := fst (new_game (proc unit) cx_eng c1 5%Z) in
  snd (tei_get_move (proc unit) cx_eng c2 1%Z p14 None None) = RPanic PDeadPlayer.
Proof. vm_compute. reflexivity. Qed.

(* a deadline that has passed (or lies less than 1 ms ahead): the repaired client refuses it; the code before the repair sent it
   as `movetime 0`, which the engine reads as NO time limit *)
Example cx_deadline_passed_refused : go_words (Some (-5)%Z) None = None /\ go_words (Some 999999%Z) (Some cx_tc) = None.
Proof. split; vm_compute; reflexivity. Qed.
Example cx_deadline_passed_pinned :
  exists ws, go_words_pinned (Some (-5)%Z) None = Some ws /\ go_line ws = str "go movetime 0" /\
    exists a, parse_go (tl ws) targs0 = Some a /\ go_limit true a = None.
Proof.
  exists [s_go; s_movetime; str "0"]. split; [vm_compute; reflexivity|]. split; [vm_compute; reflexivity|].
  exists targs0. split; vm_compute; reflexivity.
Qed.

(* against the engine model a finished game is never answered: the client waits for ever (RHang) *)
Definition cx_over : position := Eval vm_compute in
  match parse_tps gen_basis (str "1,1,1/x3/2,2,x 2 3") with Move.Ok p => p | _ => p14 end.
Example cx_finished_game_hangs :
  let c1 := fst (new_game (proc unit) cx_eng cx_c0 3%Z) in
  snd (tei_get_move (proc unit) (tei_proc gen_basis unit cx_mk (fun s l p => (tt, ([], 0%Z, 0%Z, 0%Z)))) c1 1%Z cx_over None None) = RHang.
Proof. vm_compute. reflexivity. Qed.
