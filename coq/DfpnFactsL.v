(* `disproven` of the DFPN model is sound for every run that met no threefold repetition (the counter ds_rep stays 0):
   without a repetition every bound the search derives is independent of the path, so the dual of the invariant of
   DfpnFacts.v holds.  (With repetitions a bound derived on one path is stored in the table and reused on other paths -
   the graph-history interaction that the design leaves open; the oracle hunts for a wrong verdict there.) *)
From Coq Require Import NArith ZArith List Bool Lia Arith.
Require Import Board Move GameOver Eval Search AndOr Pn PnFacts Dfpn DfpnFacts.
Import ListNotations.
Open Scope N_scope.

Strategy 1000 [solve lookup game_over all_moves hash_of count_threats analyze check_repetition].

Section DfpnDisproof.
Variable basis : list N.
Variable aw : bool.                          (* the attacker is White *)
Variable Sp : position -> Prop.

Notation W := (PnFacts.W basis aw).
Notation term := (PnFacts.terminal aw).
Notation attp := (PnFacts.attp aw).
Notation succs := (PnFacts.succs basis).
Notation dmv := (Dfpn.dmv basis).
Notation wnp := (wn position (PnFacts.succs basis) (PnFacts.terminal aw) (PnFacts.attp aw)).

Hypothesis S_step : forall p m q, Sp p -> term p = None -> In m (all_moves p) -> dmv p m = Ok q -> Sp q.
Hypothesis S_small : forall p, Sp p -> size p <= 8.
Hypothesis S_hash : forall p q, Sp p -> Sp q -> hash_of p = hash_of q ->
  (W p <-> W q) /\ to_move_white p = to_move_white q /\ term p = term q.
Hypothesis S_nonzero : forall p, Sp p -> hash_of p <> 0.
Hypothesis S_moves : forall p, Sp p -> term p = None -> all_moves p <> [].
(* C19 for the defender: an immediate threat of the defender reported by CountThreats is a move that ends the game
   without an attacker win *)
Hypothesis threats_sound_def : forall p, Sp p -> term p = None -> solve p <> None -> attp p = false ->
  exists q, In q (succs p) /\ term q = Some false.

(* not won, in the history-free game, within any number of plies *)
Definition Lf (p : position) : Prop := forall n, wnp n p = false.

Lemma Lf_notW p : Lf p <-> ~ W p.
Proof.
  split.
  - intros H [n Hn]. rewrite H in Hn. discriminate.
  - intros H n. destruct (wnp n p) eqn:E; [|reflexivity]. exfalso. apply H. now exists n.
Qed.

Lemma Lf_term p : term p = Some false -> Lf p.
Proof. intros H n. destruct n; cbn; now rewrite H. Qed.

Lemma Lf_or p : term p = None -> attp p = true -> (forall q, In q (succs p) -> Lf q) -> Lf p.
Proof.
  intros Ht Ha H n. destruct n as [|k]; cbn; rewrite Ht; [reflexivity|]. rewrite Ha.
  destruct (existsb (wnp k) (succs p)) eqn:E; [|reflexivity].
  apply existsb_exists in E as (q & Hq & Hw). rewrite (H q Hq k) in Hw. discriminate.
Qed.

Lemma Lf_and p q : term p = None -> attp p = false -> In q (succs p) -> Lf q -> Lf p.
Proof.
  intros Ht Ha Hq Hl n. destruct n as [|k]; cbn; rewrite Ht; [reflexivity|]. rewrite Ha.
  destruct (forallb (wnp k) (succs p)) eqn:E; [|reflexivity].
  rewrite forallb_forall in E. specialize (E q Hq). rewrite (Hl k) in E. discriminate.
Qed.

(* disproven: delta = 0 where the attacker is to move, phi = 0 where the defender is *)
Definition claimL (p : position) (ph de : N) : Prop :=
  (attp p = true -> de = 0 -> Lf p) /\ (attp p = false -> ph = 0 -> Lf p).
Definition entry_okL (p : position) (ph de : N) : Prop :=
  bounded ph de /\ canon ph de /\ claimL p ph de /\ (term p <> None -> solved ph de).
Definition good_entryL (e : dentry) : Prop :=
  forall p, Sp p -> hash_of p = d_hash e -> entry_okL p (d_phi e) (d_delta e).
Definition table_okL (s : dstate) : Prop := Forall good_entryL (dtable s).
Definition reps (s : dstate) : N := ds_rep (dst s).

Lemma entry_transferL p q ph de : Sp p -> Sp q -> hash_of q = hash_of p -> entry_okL p ph de -> entry_okL q ph de.
Proof.
  intros Hp Hq Hh (Hb & Hc & (C1 & C2) & Ht). destruct (S_hash q p Hq Hp Hh) as (HW & Hm & Htm).
  assert (Ha : attp q = attp p) by (unfold PnFacts.attp; now rewrite Hm).
  split; [exact Hb|]. split; [exact Hc|]. split; [split|].
  - intros A Z. apply Lf_notW. intros Hw. apply HW in Hw. revert Hw. apply Lf_notW. apply C1; [now rewrite <- Ha|assumption].
  - intros A Z. apply Lf_notW. intros Hw. apply HW in Hw. revert Hw. apply Lf_notW. apply C2; [now rewrite <- Ha|assumption].
  - intros Hn. apply Ht. now rewrite <- Htm.
Qed.

Lemma good_of_okL g e : Sp g -> d_hash e = hash_of g -> entry_okL g (d_phi e) (d_delta e) -> good_entryL e.
Proof. intros Hg Hh Hok p Hp Hph. apply entry_transferL with (p := g); auto. congruence. Qed.

Lemma good_dentry0L : good_entryL dentry0.
Proof. intros p Hp Hh. cbn in Hh. now apply S_nonzero in Hp. Qed.

Lemma tb_basic p r ph de : terminal_bounds aw p r = (ph, de) -> bounded ph de /\ canon ph de /\ solved ph de.
Proof.
  intros E. destruct (terminal_bounds_forms aw p r) as [F|F]; rewrite F in E; injection E as <- <-; rewrite INF_val;
    unfold bounded, canon, solved, INFv; repeat split; try lia; auto; try discriminate.
Qed.

Lemma tb_overL p who ph de :
  game_over p = Some (true, who) -> terminal_bounds aw p who = (ph, de) -> claimL p ph de.
Proof.
  intros Eg E. unfold terminal_bounds in E.
  assert (Ht : (match who with GWhite => aw | GBlack => negb aw | GNone => false end) = false -> Lf p).
  { intros H. apply Lf_term. unfold PnFacts.terminal. rewrite Eg, H. reflexivity. }
  unfold claimL, PnFacts.attp. destruct who, aw, (to_move_white p); cbn in *; injection E as <- <-; rewrite ?INF_val; unfold INFv;
    split; intros A Z; try discriminate; auto.
Qed.

Lemma solve_moverL p r : solve p = Some r -> terminal_bounds aw p r = (0, INF).
Proof.
  unfold solve. destruct (analyze p) as [[wg bg]|]; [|discriminate].
  destruct (count_threats _ _ _ _) as [[[wp wtt] bp] btt].
  unfold terminal_bounds.
  destruct ((0 <? wp + wtt)%Z && to_move_white p) eqn:E1.
  - intros H. injection H as <-. apply andb_true_iff in E1 as [_ E1]. rewrite E1. now destruct aw.
  - destruct ((0 <? bp + btt)%Z && negb (to_move_white p)) eqn:E2; [|discriminate].
    intros H. injection H as <-. apply andb_true_iff in E2 as [_ E2]. apply negb_true_iff in E2. rewrite E2. now destruct aw.
Qed.

Lemma attp_flipL g m q : dmv g m = Ok q -> attp q = negb (attp g).
Proof.
  intros E. unfold PnFacts.attp. unfold Dfpn.dmv in E. rewrite (to_move_flip _ _ _ _ _ E).
  destruct (to_move_white g), aw; reflexivity.
Qed.

(* ---------- a node from its children ---------- *)
Definition child_okL (g : position) (ch : dchild) : Prop :=
  Sp (ch_g ch) /\ (exists m, In m (all_moves g) /\ dmv g m = Ok (ch_g ch)) /\
  d_hash (ch_data ch) = hash_of (ch_g ch) /\ entry_okL (ch_g ch) (cphi ch) (cdelta ch).

Lemma node_entryL g cs ph de :
  Sp g -> term g = None -> Forall (child_okL g) cs -> complete basis g cs -> compute_pns cs = (ph, de) -> entry_okL g ph de.
Proof.
  intros Hg Ht Hcs Hcomp E. rewrite compute_pns_eq in E. injection E as Eph Ede.
  rewrite Forall_forall in Hcs.
  assert (Hb : bounded ph de).
  { split; [subst ph; apply fmin_le|subst de; apply fsum_le; rewrite INF_val; unfold INFv; lia]. }
  assert (Hphi0 : ph = 0 -> exists ch, In ch cs /\ cdelta ch = 0).
  { intros H0. rewrite H0 in Eph. apply fmin_0 in Eph as [Eph|Eph]; [now apply INF_pos in Eph|assumption]. }
  assert (Hde0 : de = 0 -> forall ch, In ch cs -> cphi ch = 0).
  { intros H0. rewrite H0 in Ede. now apply fsum_0 in Ede as [_ Ede]. }
  assert (Hcanon : canon ph de).
  { split.
    - intros H0. destruct (Hphi0 H0) as (ch & Hin & Hd).
      destruct (Hcs ch Hin) as (_ & _ & _ & (Hbd & [_ Hc2] & _)).
      assert (cphi ch <= de).
      { subst de. apply fsum_ge; [rewrite INF_val; unfold INFv; lia|assumption|apply Hbd]. }
      rewrite (Hc2 Hd) in H. destruct Hb. lia.
    - intros H0. subst ph. apply fmin_all; [reflexivity|]. intros ch Hin.
      destruct (Hcs ch Hin) as (_ & _ & _ & (_ & [Hc1 _] & _)). apply Hc1. now apply Hde0. }
  split; [exact Hb|]. split; [exact Hcanon|]. split; [split|].
  - (* attacker to move, delta = 0: every child has phi = 0 (its mover, the defender, holds), and the children are all the moves *)
    intros Ha H0. pose proof (Hde0 H0) as Hall.
    destruct Hcomp as [Hcomp|(ch & Hin & Hd)].
    + apply Lf_or; auto. intros q Hq. apply in_succs in Hq as (m & Hm & Em).
      destruct (Hcomp m q Hm Em) as (ch & Hin & <-).
      destruct (Hcs ch Hin) as (_ & _ & _ & (_ & _ & [_ C2] & _)).
      apply C2; [|now apply Hall]. rewrite (attp_flipL _ _ _ Em), Ha. reflexivity.
    + destruct (Hcs ch Hin) as (_ & _ & _ & (_ & [_ Hc2] & _)).
      rewrite (Hall ch Hin) in Hc2. specialize (Hc2 Hd). symmetry in Hc2. now apply INF_pos in Hc2.
  - (* defender to move, phi = 0: a child with delta = 0 (its mover, the attacker, cannot win) *)
    intros Ha H0. destruct (Hphi0 H0) as (ch & Hin & Hd).
    destruct (Hcs ch Hin) as (_ & (m & Hm & Em) & _ & (_ & _ & [C1 _] & _)).
    apply Lf_and with (q := ch_g ch); auto. { eapply dmv_succ; eauto. }
    apply C1; [|assumption]. rewrite (attp_flipL _ _ _ Em), Ha. reflexivity.
  - intros Hn. contradiction.
Qed.

(* ---------- the entry of a freshly generated child ---------- *)
Lemma lookup_goodL s p b : table_okL s -> lookup s p = Some b -> good_entryL b /\ d_hash b = hash_of p.
Proof.
  unfold lookup, table_okL. intros Ht E. destruct (dtable s) as [|e0 tl] eqn:Etab; [discriminate|].
  match type of E with context[nth ?i ?l ?d] => destruct (nth_in_or_default i l d) as [Hin|Hd]; set (e := nth i l d) in * end.
  - destruct (d_hash e =? hash_of p) eqn:Eh; [|discriminate]. injection E as <-. apply N.eqb_eq in Eh.
    split; [|assumption]. rewrite Forall_forall in Ht. apply Ht. exact Hin.
  - destruct (d_hash e =? hash_of p) eqn:Eh; [|discriminate]. injection E as <-. apply N.eqb_eq in Eh.
    split; [|assumption]. rewrite Hd. apply good_dentry0L.
Qed.

Lemma miss_entry_okL p : Sp p -> term p = None -> entry_okL p 1 (N.of_nat (length (all_moves p)) mod 2 ^ 32).
Proof.
  intros Hp Htm.
  pose proof (all_moves_le p (S_small p Hp)) as Hle. pose proof (S_moves p Hp Htm) as Hne.
  assert (Hlt : N.of_nat (length (all_moves p)) < 2 ^ 32) by (change (2 ^ 32) with 4294967296; lia).
  rewrite (N.mod_small _ _ Hlt).
  assert (Hpos : N.of_nat (length (all_moves p)) <> 0) by (destruct (all_moves p); [now contradiction Hne|cbn; lia]).
  unfold entry_okL, bounded, canon, claimL, solved. rewrite INF_val. unfold INFv.
  repeat split; try lia; try discriminate; try contradiction.
Qed.

Lemma threat_entry_okL p : Sp p -> term p = None -> solve p <> None -> entry_okL p 0 INF.
Proof.
  intros Hp Htm Hs. unfold entry_okL, bounded, canon, claimL, solved.
  split; [split; [rewrite INF_val; unfold INFv; lia|lia]|]. split; [split; [auto|intros Hf; now apply INF_pos in Hf]|].
  split; [split|intros _; now left].
  - intros _ Hf. now apply INF_pos in Hf.
  - intros Ha _. destruct (threats_sound_def p Hp Htm Hs Ha) as (q & Hq & Hqt).
    apply Lf_and with (q := q); auto. now apply Lf_term.
Qed.

Lemma over_entry_okL p who ph de : game_over p = Some (true, who) -> terminal_bounds aw p who = (ph, de) -> entry_okL p ph de.
Proof.
  intros Eg Eb. destruct (tb_basic _ _ _ _ Eb) as (B1 & B2 & B3).
  split; [assumption|]. split; [assumption|]. split; [eapply tb_overL; eauto|]. intros _. assumption.
Qed.

Lemma child_entry_live_okL s p s' e :
  table_okL s -> Sp p -> (forall who, game_over p <> Some (true, who)) -> child_entry_live aw s p = (s', e) ->
  dtable s' = dtable s /\ reps s' = reps s /\ d_hash e = hash_of p /\ entry_okL p (d_phi e) (d_delta e).
Proof.
  intros Ht Hp Hno E'. unfold child_entry_live in E'. pose proof (term_live aw p Hno) as Htm.
  destruct (solve p) as [r|] eqn:Es.
  - rewrite (solve_moverL p r Es) in E'. injection E' as <- <-.
    split; [reflexivity|]. split; [reflexivity|]. split; [reflexivity|]. apply threat_entry_okL; auto. congruence.
  - destruct (lookup s p) as [b|] eqn:El.
    + injection E' as <- <-. destruct (lookup_goodL _ _ _ Ht El) as [Hg Hh].
      split; [reflexivity|]. split; [reflexivity|]. split; [assumption|]. exact (Hg p Hp (eq_sym Hh)).
    + injection E' as <- <-. split; [reflexivity|]. split; [reflexivity|]. split; [reflexivity|]. now apply miss_entry_okL.
Qed.

Lemma child_entry_okL s p s' e :
  table_okL s -> Sp p -> child_entry aw s p = (s', e) ->
  dtable s' = dtable s /\ reps s' = reps s /\ d_hash e = hash_of p /\ entry_okL p (d_phi e) (d_delta e).
Proof.
  intros Ht Hp E. unfold child_entry in E.
  destruct (game_over p) as [[[|] who]|] eqn:Eg.
  - destruct (terminal_bounds aw p who) as [ph de] eqn:Eb. injection E as <- <-.
    split; [reflexivity|]. split; [reflexivity|]. split; [reflexivity|]. eapply over_entry_okL; eauto.
  - eapply child_entry_live_okL; eauto. intros w; congruence.
  - eapply child_entry_live_okL; eauto. intros w; congruence.
Qed.

(* ---------- the child loop ---------- *)
Lemma gen_children_okL g killer : Sp g -> term g = None ->
  forall ms s acc s' cs,
    table_okL s -> Forall (child_okL g) acc -> (forall m, In m ms -> In m (all_moves g)) ->
    gen_children basis aw g killer ms s acc = (s', cs) ->
    dtable s' = dtable s /\ reps s' = reps s /\ Forall (child_okL g) cs /\
    (((forall q, covered acc q -> covered cs q) /\ (forall m q, In m ms -> dmv g m = Ok q -> covered cs q)) \/
     (exists ch, In ch cs /\ cdelta ch = 0)).
Proof.
  intros Hg Htg ms. induction ms as [|m r IH]; intros s acc s' cs Ht Hacc Hms E; cbn [gen_children] in E.
  - injection E as <- <-. split; [reflexivity|]. split; [reflexivity|]. split; [assumption|]. left. split; [auto|intros ? ? []].
  - destruct (dmv g m) as [p| |] eqn:Em.
    + destruct (child_entry aw s p) as [s1 e] eqn:Ec.
      assert (Hp : Sp p) by (eapply S_step; eauto; apply Hms; now left).
      destruct (child_entry_okL _ _ _ _ Ht Hp Ec) as (Hd1 & Hr1 & Hh & Hok).
      set (ch := {| ch_move := m; ch_g := p; ch_data := e |}) in *.
      assert (Hch : child_okL g ch).
      { unfold child_okL, cphi, cdelta, ch. cbn [ch_g ch_data ch_move]. split; [assumption|]. split; [exists m; split; [apply Hms; now left|assumption]|]. split; assumption. }
      set (acc1 := match killer with Some k => if rmove_eqb m k then swap_first_last (acc ++ [ch]) else acc ++ [ch] | None => acc ++ [ch] end) in *.
      assert (Hin1 : forall x, In x acc1 <-> In x (acc ++ [ch])).
      { intros x. unfold acc1. destruct killer as [k|]; [|tauto]. destruct (rmove_eqb m k); [apply swap_in|tauto]. }
      assert (Hacc1 : Forall (child_okL g) acc1).
      { apply Forall_forall. intros x Hx. apply Hin1 in Hx. apply in_app_or in Hx as [Hx|[<-|[]]]; [|assumption].
        rewrite Forall_forall in Hacc. now apply Hacc. }
      assert (Ht1 : table_okL s1) by (unfold table_okL; now rewrite Hd1).
      destruct (d_delta e =? 0) eqn:Ed.
      * injection E as <- <-. split; [assumption|]. split; [assumption|]. split; [assumption|]. right. exists ch. split; [apply Hin1; apply in_or_app; right; now left|].
        apply N.eqb_eq in Ed. exact Ed.
      * apply IH in E; auto; [|intros; apply Hms; now right].
        destruct E as (E1 & Er & E2 & E3). split; [congruence|]. split; [congruence|]. split; [assumption|].
        destruct E3 as [[E3 E4]|E3]; [left|now right]. split.
        -- intros q (x & Hx & Hq). apply E3. exists x. split; [apply Hin1; apply in_or_app; now left|assumption].
        -- intros m' q [<-|Hm'] Eq; [|eapply E4; eauto].
           apply E3. exists ch. split; [apply Hin1; apply in_or_app; right; now left|]. cbn. congruence.
    + apply IH in E; auto; [|intros; apply Hms; now right].
      destruct E as (E1 & Er & E2 & E3). split; [assumption|]. split; [assumption|]. split; [assumption|].
      destruct E3 as [[E3 E4]|E3]; [left|now right]. split; [assumption|].
      intros m' q [<-|Hm'] Eq; [congruence|eapply E4; eauto].
    + apply IH in E; auto; [|intros; apply Hms; now right].
      destruct E as (E1 & Er & E2 & E3). split; [assumption|]. split; [assumption|]. split; [assumption|].
      destruct E3 as [[E3 E4]|E3]; [left|now right]. split; [assumption|].
      intros m' q [<-|Hm'] Eq; [congruence|eapply E4; eauto].
Qed.

(* the child loop does not touch the repetition counter, whatever the table holds *)
Lemma child_entry_reps s p s' e : child_entry aw s p = (s', e) -> reps s' = reps s.
Proof.
  intros Ec. unfold child_entry, child_entry_live in Ec.
  destruct (game_over p) as [[[|] who]|]; [destruct (terminal_bounds aw p who); now injection Ec as <- _| |];
    (destruct (solve p) as [r0|]; [destruct (terminal_bounds aw p r0); now injection Ec as <- _|]; destruct (lookup s p); now injection Ec as <- _).
Qed.

Lemma gen_children_reps g killer ms : forall s acc s' cs, gen_children basis aw g killer ms s acc = (s', cs) -> reps s' = reps s.
Proof.
  induction ms as [|m r IHm]; intros s acc s' cs E; cbn [gen_children] in E.
  - now injection E as <- _.
  - destruct (Dfpn.dmv basis g m) as [p| |]; try (now apply IHm in E).
    destruct (child_entry aw s p) as [sx e] eqn:Ec. apply child_entry_reps in Ec.
    destruct (d_delta e =? 0); [injection E as <- _; assumption|]. apply IHm in E. congruence.
Qed.

(* ---------- mid ---------- *)
(* the repetition counter never decreases; a call that leaves it unchanged preserves the disproof invariant *)
Definition rec_okL (rec : dstate -> position -> N -> N -> dentry -> dstate * dentry * N) : Prop :=
  forall s g bphi bdelta cur s' cur' w,
    rec s g bphi bdelta cur = (s', cur', w) ->
    reps s <= reps s' /\
    (reps s' = reps s -> table_okL s -> Sp g -> d_hash cur = hash_of g -> entry_okL g (d_phi cur) (d_delta cur) ->
     bphi <= INF -> bdelta <= INF ->
     table_okL s' /\ d_hash cur' = hash_of g /\ entry_okL g (d_phi cur') (d_delta cur')).

Lemma mid_loop_okL rec g bphi bdelta : rec_okL rec ->
  forall k s cs cur lw s' cur' w,
    mid_loop rec bphi bdelta k s cs cur lw = (s', cur', w) ->
    reps s <= reps s' /\
    (reps s' = reps s -> Sp g -> term g = None -> bphi <= INF -> bdelta <= INF ->
     table_okL s -> d_hash cur = hash_of g -> Forall (child_okL g) cs -> complete basis g cs ->
     table_okL s' /\ d_hash cur' = hash_of g /\ entry_okL g (d_phi cur') (d_delta cur')).
Proof.
  intros Hrec k. induction k as [|k IH]; intros s cs cur lw s' cur' w E; cbn [mid_loop] in E;
    destruct (compute_pns cs) as [ph de] eqn:Ecp.
  - injection E as <- <- _. split; [destruct (exceeded _ _ _ _); unfold reps; cbn; lia|].
    intros _ Hg Htm Hb1 Hb2 Ht Hh Hcs Hcomp. pose proof (node_entryL g cs ph de Hg Htm Hcs Hcomp Ecp) as Hnode.
    split; [destruct (exceeded _ _ _ _); assumption|]. split; assumption.
  - destruct (exceeded ph de bphi bdelta) eqn:Eex.
    + injection E as <- <- _. split; [lia|].
      intros _ Hg Htm Hb1 Hb2 Ht Hh Hcs Hcomp. pose proof (node_entryL g cs ph de Hg Htm Hcs Hcomp Ecp) as Hnode.
      split; [assumption|]. split; assumption.
    + destruct (select_child cs bphi bdelta de) as [best [cphi' cdelta']] eqn:Esel.
      destruct (nth_error cs (Z.to_nat best)) as [ch|] eqn:En.
      * match type of E with context[rec ?s1 _ _ _ _] => destruct (rec s1 (ch_g ch) cphi' cdelta' (ch_data ch)) as [[s2 ne] w2] eqn:Er; set (sp := s1) in * end.
        destruct (Hrec _ _ _ _ _ _ _ _ Er) as [Hmono Hinner].
        assert (Hsp : reps sp = reps s) by reflexivity.
        destruct (dfuel_out s2) eqn:Efo.
        -- injection E as <- <- _. split; [cbn; unfold reps in *; cbn in *; lia|].
           intros Heq Hg Htm Hb1 Hb2 Ht Hh Hcs Hcomp. pose proof (node_entryL g cs ph de Hg Htm Hcs Hcomp Ecp) as Hnode.
           assert (Hchok : child_okL g ch) by (rewrite Forall_forall in Hcs; apply Hcs; eapply nth_error_In; eauto).
           destruct Hchok as (HSc & Hmv & Hhc & Hokc).
           assert (Hthr : cphi' <= INF /\ cdelta' <= INF).
           { eapply select_child_bounds; eauto. intros c Hc. rewrite En in Hc. injection Hc as <-.
             rewrite compute_pns_eq in Ecp. injection Ecp as _ Ede. subst de.
             apply fsum_ge; [rewrite INF_val; unfold INFv; lia|eapply nth_error_In; eauto|apply Hokc]. }
           destruct Hthr as [Hthr1 Hthr2].
           assert (Heq2 : reps s2 = reps sp) by (unfold reps in *; cbn in *; lia).
           destruct (Hinner Heq2) as (Ht2 & _ & _); auto.
        -- apply IH in E. destruct E as [Hmono2 Hrest].
           assert (Hs3 : forall x, reps {| dtable := dtable s2; dstack := dstack s; killers := killers s2; dst := dst s2; dfuel_out := dfuel_out s2 |} = x <-> reps s2 = x) by (intros; reflexivity).
           split; [unfold reps in *; cbn in *; lia|].
           intros Heq Hg Htm Hb1 Hb2 Ht Hh Hcs Hcomp. pose proof (node_entryL g cs ph de Hg Htm Hcs Hcomp Ecp) as Hnode.
           assert (Hunsolved : ~ solved ph de).
           { intros Hsol. destruct Hnode as (_ & Hc & _). rewrite (solved_exceeded _ _ _ _ Hc Hsol Hb1 Hb2) in Eex. discriminate. }
           assert (Hcomp1 : forall m q, In m (all_moves g) -> dmv g m = Ok q -> covered cs q).
           { destruct Hcomp as [Hc|(x & Hx & Hd)]; [exact Hc|]. exfalso. apply Hunsolved. left.
             rewrite compute_pns_eq in Ecp. injection Ecp as Eph _. subst ph.
             apply N.le_antisymm; [|lia].
             assert (forall l a, In x l -> fold_left (fun m ch => N.min m (cdelta ch)) l a <= cdelta x) as Hm.
             { induction l as [|c r IHl]; intros a Hin; [contradiction|]. cbn. destruct Hin as [<-|Hin]; [|now apply IHl].
               pose proof (fmin_le r (N.min a (cdelta c))). lia. }
             specialize (Hm cs INF Hx). lia. }
           assert (Hchok : child_okL g ch) by (rewrite Forall_forall in Hcs; apply Hcs; eapply nth_error_In; eauto).
           destruct Hchok as (HSc & Hmv & Hhc & Hokc).
           assert (Hthr : cphi' <= INF /\ cdelta' <= INF).
           { eapply select_child_bounds; eauto. intros c Hc. rewrite En in Hc. injection Hc as <-.
             rewrite compute_pns_eq in Ecp. injection Ecp as _ Ede. subst de.
             apply fsum_ge; [rewrite INF_val; unfold INFv; lia|eapply nth_error_In; eauto|apply Hokc]. }
           destruct Hthr as [Hthr1 Hthr2].
           assert (Heq2 : reps s2 = reps sp) by (unfold reps in *; cbn in *; lia).
           destruct (Hinner Heq2) as (Ht2 & Hh2 & Hok2); auto.
           apply Hrest; auto.
           ++ unfold reps in *; cbn in *; lia.
           ++ apply Forall_forall. intros x Hx. apply set_child_spec in Hx as [Hx|(c & Hc & ->)].
              ** rewrite Forall_forall in Hcs. now apply Hcs.
              ** rewrite En in Hc. injection Hc as <-. unfold child_okL, cphi, cdelta. cbn [ch_g ch_data ch_move].
                 split; [assumption|]. split; [assumption|]. split; [assumption|]. exact Hok2.
           ++ left. intros m q Hm Eq. apply set_child_covered. eapply Hcomp1; eauto.
      * injection E as <- <- _. split; [lia|].
        intros _ Hg Htm Hb1 Hb2 Ht Hh Hcs Hcomp. pose proof (node_entryL g cs ph de Hg Htm Hcs Hcomp Ecp) as Hnode.
        split; [assumption|]. split; assumption.
Qed.

Lemma store_okL s e : table_okL s -> good_entryL e -> table_okL (store s e).
Proof.
  unfold store, table_okL. intros Ht He. destruct (dtable s) as [|e0 tl] eqn:Etab; [now rewrite Etab|].
  destruct (_ <=? _); [|now rewrite Etab]. cbn [dtable].
  rewrite <- Etab in *. clear Etab.
  assert (G : forall (l : list dentry) i, Forall good_entryL l -> Forall good_entryL (set_nth l i e)).
  { induction l as [|a l IH]; intros i Hl; [constructor|]. inversion Hl; subst. destruct i; cbn; constructor; auto. }
  now apply G.
Qed.

Lemma store_reps s e : reps (store s e) = reps s.
Proof. unfold store, reps. destruct (dtable s); [reflexivity|]. destruct (_ <=? _); reflexivity. Qed.

Lemma cond_store_reps (c : bool) s e : reps (if c then store s e else s) = reps s.
Proof. destruct c; [apply store_reps|reflexivity]. Qed.

Lemma cond_store_okL (c : bool) s e : table_okL s -> good_entryL e -> table_okL (if c then store s e else s).
Proof. intros Ht He. destruct c; [now apply store_okL|exact Ht]. Qed.

Lemma mid_okL lfuel : forall fuel, rec_okL (mid basis aw lfuel fuel).
Proof.
  induction fuel as [|f IH]; intros s g bphi bdelta cur s' cur' w E; cbn [mid] in E.
  - injection E as <- <- _. split; [unfold reps; cbn; lia|]. intros _ Ht Hg Hh Hok _ _. split; [exact Ht|]. split; assumption.
  - destruct (exceeded (d_phi cur) (d_delta cur) bphi bdelta) eqn:Eex.
    { injection E as <- <- _. split; [lia|]. intros _ Ht Hg Hh Hok _ _. split; [assumption|split; assumption]. }
    destruct (check_repetition s).
    + destruct (terminal_bounds aw g GNone) as [ph de] eqn:Eb. injection E as <- <- _.
      split; [unfold reps; cbn; lia|]. intros Heq. exfalso. unfold reps in Heq. cbn in Heq. lia.
    + destruct (gen_children basis aw g _ (all_moves g) s []) as [s1 cs] eqn:Egen.
      destruct (mid_loop (mid basis aw lfuel f) bphi bdelta lfuel s1 cs cur 1) as [[s2 cur2] w2] eqn:El.
      injection E as <- <- _.
      apply (mid_loop_okL _ g _ _ IH) in El. destruct El as [Hmono2 Hrest].
      pose proof (gen_children_reps _ _ _ _ _ _ _ Egen) as Hgenr.
      split.
      { rewrite cond_store_reps. destruct (d_phi cur2 =? 0); unfold reps in *; cbn in *; lia. }
      intros Heq Ht Hg Hh Hok Hb1 Hb2.
      assert (Heq' : reps s2 = reps s1).
      { rewrite cond_store_reps in Heq. destruct (d_phi cur2 =? 0); unfold reps in *; cbn in *; lia. }
      (* not beyond the thresholds: the entry is unsolved, so the position is live *)
      assert (Htm : term g = None).
      { destruct (term g) eqn:Et; [|reflexivity]. exfalso. destruct Hok as (_ & Hc & _ & Hs).
        assert (Hne : term g <> None) by (rewrite Et; discriminate).
        pose proof (solved_exceeded _ _ _ _ Hc (Hs Hne) Hb1 Hb2) as Hx. congruence. }
      apply gen_children_okL in Egen; auto. destruct Egen as (Hd1 & _ & Hcs & Hcov).
      assert (Ht1 : table_okL s1) by (unfold table_okL; now rewrite Hd1).
      assert (Hcomp : complete basis g cs).
      { destruct Hcov as [[_ Hc]|Hc]; [left|now right]. intros m q Hm Eq. apply (Hc m q Hm Eq). }
      destruct (Hrest Heq' Hg Htm Hb1 Hb2 Ht1 Hh Hcs Hcomp) as (Ht2 & Hh2 & Hok2).
      split; [|split; assumption].
      apply cond_store_okL; [|eapply good_of_okL; eauto].
      destruct (d_phi cur2 =? 0); assumption.
Qed.

(* ---------- Prove ---------- *)
Lemma table0_okL entries : table_okL (dstate0 entries).
Proof. unfold table_okL, dstate0. cbn [dtable]. apply Forall_forall. intros x Hx. apply repeat_spec in Hx. subst x. apply good_dentry0L. Qed.

Lemma result_disproven g e : entry_okL g (d_phi e) (d_delta e) -> result_of aw g e = 2 -> Lf g.
Proof.
  intros (_ & Hc & [C1 C2] & _) Hr. unfold result_of in Hr. unfold PnFacts.attp in *.
  destruct (Bool.eqb aw (to_move_white g)) eqn:Ea.
  - apply eqb_prop in Ea. destruct (d_phi e =? 0) eqn:Ep; [discriminate|]. destruct (d_delta e =? 0) eqn:Ed; [|discriminate].
    apply C1; [rewrite Ea; now destruct (to_move_white g)|now apply N.eqb_eq].
  - apply eqb_false_iff in Ea. destruct (d_delta e =? 0) eqn:Ed; [discriminate|]. destruct (d_phi e =? 0) eqn:Ep; [|discriminate].
    apply C2; [destruct aw, (to_move_white g); auto; now contradiction Ea|now apply N.eqb_eq].
Qed.

(* a fresh solver whose run met no threefold repetition reports `disproven` only where the attacker has no forced win *)
Theorem dfpn_disproven_sound_norep lfuel dfuel entries g s e w :
  Sp g -> prove basis aw lfuel dfuel entries g = (s, e, w) -> ds_rep (dst s) = 0 -> result_of aw g e = 2 ->
  forall n, wnp n g = false.
Proof.
  intros Hg E Hrep Hr. unfold prove, prove_from in E.
  assert (Hok : entry_okL g (d_phi e) (d_delta e)).
  { destruct (game_over g) as [[[|] who]|] eqn:Eg.
    - destruct (terminal_bounds aw g who) as [ph de] eqn:Eb. injection E as _ <- _. cbn [d_phi d_delta]. eapply over_entry_okL; eauto.
    - destruct (mid_okL lfuel dfuel _ _ _ _ _ _ _ _ E) as [_ H].
      assert (Htm : term g = None) by (apply term_live; intros w'; congruence).
      destruct H as (_ & _ & H); auto.
      + apply table0_okL.
      + cbn [d_phi d_delta]. unfold entry_okL, bounded, canon, claimL, solved. rewrite INF_val. unfold INFv.
        repeat split; try lia; try discriminate. intros Hf. now rewrite Htm in Hf.
      + rewrite INF_val. unfold INFv. cbn. lia.
      + rewrite INF_val. unfold INFv. cbn. lia.
    - destruct (mid_okL lfuel dfuel _ _ _ _ _ _ _ _ E) as [_ H].
      assert (Htm : term g = None) by (apply term_live; intros w'; congruence).
      destruct H as (_ & _ & H); auto.
      + apply table0_okL.
      + cbn [d_phi d_delta]. unfold entry_okL, bounded, canon, claimL, solved. rewrite INF_val. unfold INFv.
        repeat split; try lia; try discriminate. intros Hf. now rewrite Htm in Hf.
      + rewrite INF_val. unfold INFv. cbn. lia.
      + rewrite INF_val. unfold INFv. cbn. lia. }
  exact (result_disproven g e Hok Hr).
Qed.
End DfpnDisproof.
