(* C01 strengthening, part 5: the slide branch against the rules with the EXACT representation limit:
   success/failure agree with the rules for every board_ok position (stacks up to 64), the rules
   successor always has the stack lengths of the result, and it IS the abstraction of the result
   (which is then board_ok again) as soon as no stack of the result exceeds 64. *)
From Coq Require Import NArith ZArith Arith List Bool Lia ZifyN ZifyBool ZifyNat.
Require Import Board Stack Rules Move Refine RefinePlace RefinePlace2 RefinePlace3 Slide1 Slide2 Slide3 Slide4 Slide5 Slide6 Slide7 Slide8 MoveRefines HashInv GameOver Preserve1 Preserve2 PreserveExt Preserve3 Preserve4.
Import ListNotations.
Ltac Zify.zify_post_hook ::= Z.div_mod_to_equations.

(* what every successful move does to the fields outside the board, and to the extra invariant *)
Record step_ok (p p' : position) : Prop := {
  st_size : size p' = size p;
  st_bwt : Move.black_wins_ties p' = Move.black_wins_ties p;
  st_move : move p' = (move p + 1)%Z;
  st_total : total p' = total p;
  st_res : reserves_ok p';
  st_ext : ext_ok (size p) (bview p') }.

Definition heights64 (p : position) : Prop := forall j, (j < size p * size p)%N -> (nthN (Height p) j <= 64)%N.
Definition same_shape (s : apos) (p : position) : Prop :=
  forall j, (j < size p * size p)%N -> length (nth (N.to_nat j) (sq s) []) = N.to_nat (nthN (Height p) j).

Lemma eta_ext_ok sz r : ext_ok sz r -> ext_ok sz {| bw := bw r; bb := bb r; bs := bs r; bc := bc r; bhs := bhs r; bst := bst r; bh := bh r |}.
Proof. intros [A B C D E]. constructor; assumption. Qed.

Theorem slide_exact p m d : pos_ok p -> mT m = dir_code d ->
  match mv p m with
  | Ok p' => exists s, rules_move (abs p) (raw m) = Some s /\ step_ok p p' /\ same_shape s p' /\
                       (heights64 p' -> s = abs p' /\ board_ok (size p') (bview p'))
  | Err => rules_move (abs p) (raw m) = None
  | Panic => False
  end.
Proof.
  intros [Hsz Hok Hres Hext] Hd.
  rewrite (mv_slide_char p m d Hsz Hok Hd).
  assert (Hok' := Hok). destruct Hok' as [LH LS SQ]. cbn [bview bhs bst] in LH, LS.
  assert (Hdec : decode (raw m) = Some (Slide d (mX m) (mY m) (slide_ds m))).
  { unfold decode, slide_ds; cbn [raw mtype mx my mslides]. rewrite Hd. destruct d; reflexivity. }
  unfold rules_move. rewrite Hdec. unfold slide, off_board.
  change (ply (abs p)) with (move p).
  destruct ((mX m <? 0)%Z || (Z.of_N (size p) <=? mX m)%Z || (mY m <? 0)%Z || (Z.of_N (size p) <=? mY m)%Z) eqn:Hb.
  { assert (Hob : on_board (abs p) (mX m) (mY m) = false) by (rewrite on_board_abs; lia).
    rewrite Hob. cbn [negb]. destruct (move p <? 2)%Z; reflexivity. }
  assert (Hx : (0 <= mX m < Z.of_N (size p))%Z) by lia.
  assert (Hy : (0 <= mY m < Z.of_N (size p))%Z) by lia.
  assert (Hob : on_board (abs p) (mX m) (mY m) = true) by (rewrite on_board_abs; lia).
  rewrite Hob. cbn [negb].
  destruct (move p <? 2)%Z eqn:Hop; [reflexivity|].
  unfold slide_ct. set (ds := slide_ds m).
  destruct (existsb (N.eqb 0) ds) eqn:Hz; [reflexivity|].
  set (ct := sumN ds).
  destruct (sq_index_on_board p (mX m) (mY m) Hsz Hx Hy) as [Ei Li].
  cbv zeta. set (i := sq_index p (mX m) (mY m)) in *.
  assert (Li64 : (i < 64)%N) by nia.
  assert (Hil : (N.to_nat i < nsq (size p))%nat) by (unfold nsq; nia).
  assert (Hidx : Rules.idx (abs p) (mX m) (mY m) = N.to_nat i)
    by (unfold Rules.idx, abs; cbn [Rules.n]; rewrite Ei; nia).
  assert (Hst : stack_at (abs p) (mX m) (mY m) = abs_stack_b (bview p) i).
  { unfold stack_at. rewrite sq_abs_board, Hidx. now apply nth_abs_board. }
  rewrite Hst, length_abs_stack_b. cbn [bview bhs Rules.n abs]. rewrite !N2Nat.id.
  set (h := nthN (Height p) i) in *.
  destruct ((size p <? ct)%N || (ct <? 1)%N) eqn:Hc1.
  { replace ((ct =? 0)%N || (size p <? ct)%N || (h <? ct)%N) with true by lia. reflexivity. }
  destruct (h <? ct)%N eqn:Hc2.
  { replace ((ct =? 0)%N || (size p <? ct)%N || true) with true by lia. reflexivity. }
  replace ((ct =? 0)%N || (size p <? ct)%N || false) with false by lia.
  assert (Hsq := SQ i Li). assert (Hsq' := Hsq). destruct Hsq' as [Hh Hocc Hex Htop Hsc]. cbn [bview bhs bw bb bs bc] in *. fold h in Hh, Hocc, Htop.
  assert (Hne : h <> 0%N) by lia.
  assert (Hab : abs_stack_b (bview p) i =
     (colour_of (has (Move.Black p) i), kind_of (has (Standing p) i) (has (Caps p) i)) :: flats (bits (N.to_nat h - 1) (nthN (Stacks p) i))).
  { unfold abs_stack_b. cbn [bview bhs bb bs bc bst]. fold h. destruct (N.eqb_spec h 0); [contradiction|reflexivity]. }
  assert (Hone : has (White p) i = negb (has (Move.Black p) i)).
  { destruct (has (White p) i) eqn:A, (has (Move.Black p) i) eqn:B; cbn in Hex; try discriminate; auto.
    exfalso. apply Hne, Hocc. auto. }
  assert (Etm : to_move (abs p) = if to_move_white p then Rules.White else Rules.Black) by reflexivity.
  (* the state after lifting *)
  set (b0 := lifted (bview p) i ct).
  destruct (lifted_sq (bview p) i ct Li64 ltac:(cbn [bview bhs]; lia) ltac:(cbn [bview bhs bst]; lia) Hsq
              ltac:(cbn [bview bhs]; fold h; lia)) as (Q1 & Q2 & Q3 & Q4). fold b0 in Q1, Q2, Q3, Q4.
  destruct (board_after (size p) (bview p) b0 i Hsz Li Hok Q2 Q3) as [Hok0 Eb0].
  assert (Hcar := carried_is_firstn (bview p) i ct Hsq ltac:(cbn [bview bhs]; fold h; lia)).
  assert (Eset : set_stack (abs p) (mX m) (mY m) (skipn (N.to_nat ct) (abs_stack_b (bview p) i)) = abs_board (size p) b0)
    by (unfold set_stack; rewrite sq_abs_board, Eb0, Q1, Hidx; reflexivity).
  assert (Hext0 : ext_ok (size p) b0)
    by (apply lifted_ext; try assumption; cbn [bview bhs]; fold h; lia).
  assert (Hfit : forall j, (j < size p * size p)%N -> (nthN (bhs b0) j + ct <= 255)%N).
  { intros j Hj. destruct Hok0 as [_ _ SQ0]. destruct (SQ0 j Hj) as [A _ _ _ _]. lia. }
  assert (Hsum0 : (sumH (bhs b0) + ct = sumH (Height p))%N).
  { assert (E := sumH_updN (Height p) (N.to_nat i) (u8 (h + 256 - ct)) ltac:(lia)).
    change (nth (N.to_nat i) (Height p) 0%N) with h in E.
    assert (u8 (h + 256 - ct) = h - ct)%N by (unfold u8; lia).
    subst b0. unfold lifted. cbn [bhs bview]. fold h. lia. }
  assert (Hdd := drops_sim p (abs p) (top_kind (bview p) i) (stack_word (bview p) i) d ds (mX m) (mY m) ct b0
                   (abs_board (size p) b0) eq_refl Hsz Hx Hy (inv_bd_refl _ _ Hok0) Hext0
                   (existsb_zero_forall ds Hz) eq_refl ltac:(lia) Hfit).
  rewrite Hcar, <- Eset in Hdd.
  rewrite Hab in *. rewrite Etm, Hone.
  destruct (to_move_white p) eqn:Hw, (has (Move.Black p) i) eqn:HB; cbn [negb andb colour_of colour_eqb]; try reflexivity.
  all: cbn [colour_of] in Hdd.
  all: destruct (drops hsq p (top_kind (bview p) i) (stack_word (bview p) i) (fst (delta d)) (snd (delta d)) (mX m) (mY m) ct ds b0) as [r| |];
       [|rewrite Hdd; reflexivity|contradiction].
  all: destruct Hdd as (B' & D1 & D2 & D3 & D4); rewrite D1; eexists; split; [reflexivity|].
  all: split; [|split].
  all: try (constructor; try reflexivity;
            [unfold total, slid; cbn [Height whiteStones whiteCaps blackStones blackCaps]; lia
            |exact Hres
            |cbn [slid bview White Move.Black Standing Caps Height Stacks hash]; now apply eta_ext_ok]).
  all: try (intros j Hj; cbn [sq slid Height]; destruct D2 as [_ _ _ S2]; destruct (S2 j Hj) as (_ & S3 & _); exact S3).
  all: intros H64; destruct (inv_bd_exact (size p) B' r D2 H64) as [-> Hokr];
       (split; [|cbn [size slid bview White Move.Black Standing Caps Height Stacks hash]; now apply eta_board_ok]);
       unfold abs; cbn [size slid whiteStones whiteCaps blackStones blackCaps move Move.black_wins_ties];
       f_equal; symmetry;
       change (map (fun i0 => abs_stack (slid p r) (N.of_nat i0)) (seq 0 (N.to_nat (size p) * N.to_nat (size p))))
         with (sq (abs (slid p r)));
       rewrite sq_abs_board; reflexivity.
Qed.
Print Assumptions slide_exact.
