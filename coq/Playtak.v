(* Codec/Playtak.v (draft): playtak/move.go over byte lists *)
From Coq Require Import NArith ZArith List Bool Lia Ascii.
Require Import PtnMove.
Import ListNotations.
Local Open Scope char_scope.
Local Open Scope N_scope.

(* strings.Split(s, " ") *)
Fixpoint split_on (sep : N) (s : list N) (cur : list N) : list (list N) :=
  match s with
  | [] => [rev cur]
  | ch :: r => if ch =? sep then rev cur :: split_on sep r [] else split_on sep r (ch :: cur)
  end.
Definition words (s : list N) : list (list N) := split_on (B " ") s [].

Fixpoint bytes_eqb (a b : list N) : bool :=
  match a, b with [], [] => true | x :: a', y :: b' => (x =? y) && bytes_eqb a' b' | _, _ => false end.

(* strconv.Atoi on a 64-bit platform: optional sign, at least one digit, digits only, value within int64 *)
Fixpoint digits (s : list N) (acc : Z) : option Z :=
  match s with
  | [] => Some acc
  | d :: r => if in_range (B "0") (B "9") d then digits r (acc * 10 + Z.of_N (d - B "0"))%Z else None
  end.
Definition in_int64 (z : Z) : option Z := if ((- 2 ^ 63 <=? z) && (z <? 2 ^ 63))%Z then Some z else None.
Definition atoi (s : list N) : option Z :=
  match s with
  | [] => None
  | c0 :: r =>
    let v := if c0 =? B "+" then (match r with [] => None | _ => digits r 0%Z end)
             else if c0 =? B "-" then (match r with [] => None | _ => option_map Z.opp (digits r 0%Z) end)
             else digits s 0%Z in
    match v with Some z => in_int64 z | None => None end
  end.

Definition parse_square (sq : list N) : option (Z * Z) :=
  match sq with
  | [a; b] => if in_range (B "A") (B "H") a && in_range (B "1") (B "8") b then Some (Z.of_N (a - B "A"), Z.of_N (b - B "1")) else None
  | _ => None
  end.

Fixpoint parse_drops_srv (ws : list (list N)) : option (list N) :=
  match ws with
  | [] => Some []
  | w :: r => match atoi w with
              | Some n => if ((n <? 0) || (8 <? n))%Z then None else option_map (cons (Z.to_N n)) (parse_drops_srv r)
              | None => None
              end
  end.

Definition parse_server (s : list N) : res move :=
  let ws := words s in
  match ws with
  | w0 :: _ =>
    if bytes_eqb w0 [B "P"] then
      if negb ((length ws =? 2)%nat || (length ws =? 3)%nat) then Err else
      match parse_square (nth 1 ws []) with
      | None => Err
      | Some (x, y) =>
        if (length ws =? 3)%nat then
          let k := nth 2 ws [] in
          if bytes_eqb k [B "C"] then Ok {| mX := x; mY := y; mT := PlaceCapstone; mS := 0 |}
          else if bytes_eqb k [B "W"] then Ok {| mX := x; mY := y; mT := PlaceStanding; mS := 0 |}
          else Err
        else Ok {| mX := x; mY := y; mT := PlaceFlat; mS := 0 |}
      end
    else if bytes_eqb w0 [B "M"] then
      if (length ws <? 4)%nat then Err else
      match parse_square (nth 1 ws []), parse_square (nth 2 ws []) with
      | Some (sx, sy), Some (ex, ey) =>
        let ty := if ((sx <? ex) && (ey =? sy))%Z then Some SlideRight
                  else if ((ex <? sx) && (ey =? sy))%Z then Some SlideLeft
                  else if ((sy <? ey) && (ex =? sx))%Z then Some SlideUp
                  else if ((ey <? sy) && (ex =? sx))%Z then Some SlideDown else None in
        match ty with
        | None => Err
        | Some t => match parse_drops_srv (skipn 3 ws) with
                    | None => Err
                    | Some ds => Ok {| mX := sx; mY := sy; mT := t; mS := mk_slides ds |}
                    end
        end
      | _, _ => Err
      end
    else Err
  | [] => Err
  end.

(* %d of a nibble 0..15 *)
Definition dec_small (d : N) : list N := if d <? 10 then [B "0" + d] else [B "1"; B "0" + (d - 10)].

Definition format_square (x y : Z) : list N := [Z.to_N ((x + 65) mod 256)%Z; Z.to_N ((y + 49) mod 256)%Z].

Definition format_server (m : move) : list N :=
  let sq := format_square (mX m) (mY m) in
  if mT m =? PlaceFlat then [B "P"; B " "] ++ sq
  else if mT m =? PlaceCapstone then [B "P"; B " "] ++ sq ++ [B " "; B "C"]
  else if mT m =? PlaceStanding then [B "P"; B " "] ++ sq ++ [B " "; B "W"]
  else
    let ds := nibbles 8 (mS m) in
    let l := Z.of_nat (length ds) in
    let w8 z := ((z + 128) mod 256 - 128)%Z in
    let '(ex, ey) := if mT m =? SlideRight then (w8 (mX m + l)%Z, mY m) else if mT m =? SlideLeft then (w8 (mX m - l)%Z, mY m)
                     else if mT m =? SlideDown then (mX m, w8 (mY m - l)%Z) else if mT m =? SlideUp then (mX m, w8 (mY m + l)%Z)
                     else (mX m, mY m) in
    [B "M"; B " "] ++ sq ++ [B " "] ++ format_square ex ey ++ flat_map (fun d => B " " :: dec_small d) ds.
