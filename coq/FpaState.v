(* FpaState.v: the FPA rule objects of cmd/internal/playtak/fpa.go in ANY initial state.
   The real bot builds ONE rule object per process (main.go: fpaRuleset) and every Friendly game uses it, so a game starts with
   whatever blackPlace / whitePlace / blackTmp / whiteTmp the previous game - finished, abandoned mid-opening, of another size or
   colour - left behind.  This file proves, structurally over the model Fpa.v (no enumeration over states), that it does not
   matter: in the driving order of Friendly.GetMove every field is written before it is read in each new game
   (agree / legal_move_agree / get_move_agree), hence the whole run from ply 0 is independent of the initial state
   (walk_state_independent) and the enumeration theorem transfers to every initial state (fpa_scripts_ok_any_state).
   Also [dirty]: the state an object is left in by an earlier game, for the reuse family of the C20 check. *)
From Coq Require Import NArith ZArith List Bool Lia.
Require Import Board Move GameOver Tps Symmetry Fpa FpaFacts FpaOk.
Import ListNotations.
Local Open Scope Z_scope.

(* the fields that may be read at ply k or later before the game writes them: equal in the two states *)
Definition agree (v : variant) (k : Z) (a b : fstate) : Prop :=
  match v with
  | Center => True
  | DoubleStack =>
      (1 <= k -> blackPlace a = blackPlace b) /\ (2 <= k -> whitePlace a = whitePlace b) /\
      (3 <= k -> whiteTmp a = whiteTmp b) /\ (4 <= k -> blackTmp a = blackTmp b)
  | Cairn => (3 <= k -> whitePlace a = whitePlace b) /\ (4 <= k -> blackPlace a = blackPlace b)
  end.

Lemma agree_root v a b : agree v 0 a b.
Proof. destruct v; cbn; repeat split; intros; lia. Qed.

Definition related (v : variant) (k : Z) (x y : res (fstate * bool)) : Prop :=
  match x, y with
  | Ok (a', bx), Ok (b', by_) => bx = by_ /\ (bx = true -> agree v (k + 1) a' b')
  | Err, Err => True
  | Panic, Panic => True
  | _, _ => False
  end.

Ltac fin4 H1 H2 H3 H4 := cbn [agree blackPlace blackTmp whitePlace whiteTmp]; repeat split; intros; try reflexivity;
  first [apply H1; lia | apply H2; lia | apply H3; lia | apply H4; lia | lia].

Lemma legal_move_agree fx v a b p m : agree v (move p) a b -> related v (move p) (legal_move fx v a p m) (legal_move fx v b p m).
Proof.
  intros H. unfold legal_move. set (k := move p) in *. destruct v.
  - destruct (0 <? k); cbn; split; auto.
  - cbn [agree] in H. destruct H as (H1 & H2 & H3 & H4).
    destruct (Z.eqb_spec k 0) as [E|N0]; [cbn; split; [reflexivity|intros _; fin4 H1 H2 H3 H4]|].
    destruct (Z.eqb_spec k 1) as [E|N1]; [cbn; split; [reflexivity|intros _; fin4 H1 H2 H3 H4]|].
    destruct (Z.eqb_spec k 2) as [E|N2].
    { destruct (dest m) as [d| |]; cbn; auto. split; [reflexivity|]. intros _. fin4 H1 H2 H3 H4. }
    destruct (Z.eqb_spec k 3) as [E|N3].
    { rewrite (H1 ltac:(lia)). destruct (negb (mT m =? 2)%N); cbn; [split; [reflexivity|discriminate]|].
      split; [reflexivity|]. intros _. fin4 H1 H2 H3 H4. }
    destruct (Z.eqb_spec k 4) as [E|N4].
    { rewrite (H2 ltac:(lia)). destruct (negb (is_slide m)); cbn; [split; [reflexivity|discriminate]|].
      destruct (dest m) as [[ex ey]| |]; cbn; auto. split; [reflexivity|]. intros _. fin4 H1 H2 H3 H4. }
    destruct (Z.eqb_spec k 5) as [E|N5].
    { rewrite (H1 ltac:(lia)). destruct (negb (is_slide m)); cbn; [split; [reflexivity|discriminate]|].
      destruct (dest m) as [[ex ey]| |]; cbn; auto. split; [reflexivity|]. intros _. fin4 H1 H2 H3 H4. }
    cbn. split; [reflexivity|]. intros _. fin4 H1 H2 H3 H4.
  - cbn [agree] in H. destruct H as (H3 & H4).
    destruct (Z.eqb_spec k 0) as [E|N0]; [cbn; split; [reflexivity|intros _; fin4 H3 H4 H3 H4]|].
    destruct (Z.eqb_spec k 1) as [E|N1]; [cbn; split; [reflexivity|intros _; fin4 H3 H4 H3 H4]|].
    cbn [orb].
    destruct (Z.eqb_spec k 2) as [E|N2].
    { destruct (negb (mT m =? 2)%N); cbn; [split; [reflexivity|discriminate]|]. split; [reflexivity|]. intros _. fin4 H3 H4 H3 H4. }
    destruct (Z.eqb_spec k 3) as [E|N3].
    { rewrite (H3 ltac:(lia)). destruct (negb (mT m =? 2)%N); cbn; [split; [reflexivity|discriminate]|].
      split; [reflexivity|]. intros _. fin4 H3 H4 H3 H4. }
    destruct (Z.eqb_spec k 4) as [E|N4].
    { rewrite (H4 ltac:(lia)). destruct (negb (is_slide m)); cbn; [split; [reflexivity|discriminate]|].
      destruct (dest m) as [[dx dy]| |]; cbn; auto. destruct (negb (is_centered p dx dy)); cbn; [split; [reflexivity|discriminate]|].
      split; [reflexivity|]. intros _. fin4 H3 H4 H3 H4. }
    destruct (Z.eqb_spec k 5) as [E|N5].
    { rewrite (H3 ltac:(lia)), (H4 ltac:(lia)). destruct (negb (is_slide m)); cbn; [split; [reflexivity|discriminate]|].
      destruct (dest m) as [[dx dy]| |]; cbn; auto. split; [reflexivity|]. intros _. fin4 H3 H4 H3 H4. }
    cbn. split; [reflexivity|]. intros _. fin4 H3 H4 H3 H4.
Qed.

Lemma get_move_agree fx v a b p : agree v (move p) a b -> get_move fx v a p = get_move fx v b p.
Proof.
  intros H. unfold get_move. set (k := move p) in *. destruct v; [reflexivity| |].
  - cbn [agree] in H. destruct H as (H1 & H2 & H3 & H4).
    destruct (Z.eqb_spec k 2) as [E|N2]; [rewrite (H2 ltac:(lia)); reflexivity|].
    destruct (Z.eqb_spec k 3) as [E|N3]; [rewrite (H1 ltac:(lia)), (H2 ltac:(lia)); reflexivity|].
    destruct (Z.eqb_spec k 4) as [E|N4]; [rewrite (H2 ltac:(lia)), (H3 ltac:(lia)); reflexivity|].
    destruct (Z.eqb_spec k 5) as [E|N5]; [rewrite (H1 ltac:(lia)), (H4 ltac:(lia)); reflexivity|].
    reflexivity.
  - cbn [agree] in H. destruct H as (H3 & H4).
    destruct (Z.eqb_spec k 2) as [E|N2]; [reflexivity|].
    destruct (Z.eqb_spec k 3) as [E|N3]; [rewrite (H3 ltac:(lia)); reflexivity|].
    destruct (Z.eqb_spec k 4) as [E|N4]; [rewrite (H3 ltac:(lia)), (H4 ltac:(lia)); reflexivity|].
    cbn [andb]. destruct (Z.eqb_spec k 5) as [E|N5]; [rewrite (H3 ltac:(lia)), (H4 ltac:(lia)); reflexivity|].
    reflexivity.
Qed.

(* ---- the run does not depend on the state ---- *)
Definition child_of (fx : fixes) (v : variant) (st : fstate) (p : position) (m : rmove) : list (rmove * fstate * position) :=
  match legal_move fx v st p m with
  | Ok (st', true) => match mv1 p m with Ok q => [(m, st', q)] | _ => [] end
  | _ => [] end.
Lemma children_eq fx v st p : children fx v st p = flat_map (child_of fx v st p) (all_moves p).
Proof. reflexivity. Qed.

(* per move: both states give no child, or the same move and position with states that agree one ply later *)
Lemma child_of_agree fx v a b p m : agree v (move p) a b ->
  (child_of fx v a p m = [] /\ child_of fx v b p m = []) \/
  exists a' b' q, child_of fx v a p m = [(m, a', q)] /\ child_of fx v b p m = [(m, b', q)] /\ move q = move p + 1 /\ agree v (move q) a' b'.
Proof.
  intros H. pose proof (legal_move_agree fx v a b p m H) as R. unfold child_of, related in *.
  destruct (legal_move fx v a p m) as [[a' x]| |]; destruct (legal_move fx v b p m) as [[b' y]| |]; try contradiction; auto.
  destruct R as [<- R]. destruct x; [|auto]. destruct (mv1 p m) as [q| |] eqn:Em; auto.
  right. exists a', b', q. pose proof (mv_move _ _ _ _ _ Em) as Eq. repeat split; auto. rewrite Eq. now apply R.
Qed.

Section Indep.
Variables (fx : fixes) (v : variant) (botw : bool) (maxp : Z).

Lemma fold_children (W : fstate -> position -> tally) a b p :
  agree v (move p) a b ->
  (forall a' b' q, move q = move p + 1 -> agree v (move q) a' b' -> W a' q = W b' q) ->
  forall l init, fold_left (fun acc c => tadd acc (W (snd (fst c)) (snd c))) (flat_map (child_of fx v a p) l) init =
                 fold_left (fun acc c => tadd acc (W (snd (fst c)) (snd c))) (flat_map (child_of fx v b p) l) init.
Proof.
  intros H HW. induction l as [|m l IH]; intros init; [reflexivity|]. cbn [flat_map]. rewrite !fold_left_app.
  destruct (child_of_agree fx v a b p m H) as [[-> ->]|(a' & b' & q & -> & -> & Eq & Ha)]; cbn [fold_left fst snd]; [apply IH|].
  rewrite (HW a' b' q Eq Ha). apply IH.
Qed.

Lemma flat_children (T : fstate -> position -> list ev) a b p :
  agree v (move p) a b ->
  (forall a' b' q, move q = move p + 1 -> agree v (move q) a' b' -> T a' q = T b' q) ->
  forall l, length (flat_map (child_of fx v a p) l) = length (flat_map (child_of fx v b p) l) /\
            flat_map (fun c => EChild (fst (fst c)) :: T (snd (fst c)) (snd c)) (flat_map (child_of fx v a p) l) =
            flat_map (fun c => EChild (fst (fst c)) :: T (snd (fst c)) (snd c)) (flat_map (child_of fx v b p) l).
Proof.
  intros H HT. induction l as [|m l [IH1 IH2]]; [split; reflexivity|]. cbn [flat_map]. rewrite !app_length, !flat_map_app.
  destruct (child_of_agree fx v a b p m H) as [[-> ->]|(a' & b' & q & -> & -> & Eq & Ha)]; cbn [length flat_map fst snd app]; [split; assumption|].
  rewrite (HT a' b' q Eq Ha), IH1, IH2. split; reflexivity.
Qed.

Theorem walk_agree : forall fuel a b p, agree v (move p) a b ->
  walk fuel fx v botw maxp a p = walk fuel fx v botw maxp b p /\ walk_tr fuel fx v botw maxp a p = walk_tr fuel fx v botw maxp b p.
Proof.
  induction fuel as [|f IH]; intros a b p H; [split; reflexivity|]. cbn [walk walk_tr].
  destruct (stops maxp p); [split; reflexivity|].
  assert (IHw : forall a' b' q, move q = move p + 1 -> agree v (move q) a' b' -> walk f fx v botw maxp a' q = walk f fx v botw maxp b' q)
    by (intros a' b' q _ Ha; exact (proj1 (IH a' b' q Ha))).
  assert (IHt : forall a' b' q, move q = move p + 1 -> agree v (move q) a' b' -> walk_tr f fx v botw maxp a' q = walk_tr f fx v botw maxp b' q)
    by (intros a' b' q _ Ha; exact (proj2 (IH a' b' q Ha))).
  assert (Opp : fold_left (fun acc c => tadd acc (walk f fx v botw maxp (snd (fst c)) (snd c))) (children fx v a p) {| nodes := 1; scripted := 0; illegal := 0; selfrej := 0; crash := 0 |}%N =
                fold_left (fun acc c => tadd acc (walk f fx v botw maxp (snd (fst c)) (snd c))) (children fx v b p) {| nodes := 1; scripted := 0; illegal := 0; selfrej := 0; crash := 0 |}%N)
    by (rewrite !children_eq; apply (fold_children (walk f fx v botw maxp) a b p H IHw)).
  destruct (flat_children (walk_tr f fx v botw maxp) a b p H IHt (all_moves p)) as [OL OT]. rewrite <- !children_eq in OL, OT.
  assert (OppT : EOpp (length (children fx v a p)) :: flat_map (fun c => EChild (fst (fst c)) :: walk_tr f fx v botw maxp (snd (fst c)) (snd c)) (children fx v a p) =
                 EOpp (length (children fx v b p)) :: flat_map (fun c => EChild (fst (fst c)) :: walk_tr f fx v botw maxp (snd (fst c)) (snd c)) (children fx v b p))
    by (rewrite OL, OT; reflexivity).
  destruct (Bool.eqb (to_move_white p) botw); [|split; assumption].
  unfold script_step. rewrite (get_move_agree fx v a b p H).
  destruct (get_move fx v b p) as [[m| |]|]; [|split; reflexivity|split; reflexivity|split; assumption].
  destruct (mv1 p m) as [q| |] eqn:Em; [|split; reflexivity|split; reflexivity].
  pose proof (legal_move_agree fx v a b p m H) as R. unfold related in R.
  destruct (legal_move fx v a p m) as [[a' x]| |]; destruct (legal_move fx v b p m) as [[b' y]| |]; try contradiction; try (split; reflexivity).
  destruct R as [<- R]. destruct x; [|split; reflexivity].
  pose proof (mv_move _ _ _ _ _ Em) as Eq. assert (Ha : agree v (move q) a' b') by (rewrite Eq; now apply R).
  destruct (IH a' b' q Ha) as [-> ->]. split; reflexivity.
Qed.
End Indep.

(* the run from ply 0 - the whole enumeration - is the same from every initial state *)
Theorem walk_state_independent fx v botw sz fuel (st : fstate) :
  walk fuel fx v botw (max_ply_of v) st (root [] sz) = walk fuel fx v botw (max_ply_of v) fstate0 (root [] sz) /\
  walk_tr fuel fx v botw (max_ply_of v) st (root [] sz) = walk_tr fuel fx v botw (max_ply_of v) fstate0 (root [] sz).
Proof. apply walk_agree. change (move (root [] sz)) with 0. apply agree_root. Qed.

(* fpa_scripts_ok for rule objects in ANY state: for every variant, size 4..8, bot colour and EVERY initial state st0 of the rule
   object (arbitrary values of the four remembered squares), at every node reachable from the empty board the scripted move is a
   move, legal on the board, and accepted by the variant's own LegalMove. *)
Theorem fpa_scripts_ok_any_state : forall v sz botw st0 n st p,
  In sz sizes ->
  reach repaired v botw (st0, root [] sz) n (st, p) ->
  stops (max_ply_of v) p = false -> to_move_white p = botw ->
  forall r, get_move repaired v st p = Some r ->
  exists m st' q, r = Ok m /\ mv1 p m = Ok q /\ legal_move repaired v st p m = Ok (st', true).
Proof.
  intros v sz botw st0 n st p Hsz Hr.
  assert (Hclean : failing (walk 8 repaired v botw (max_ply_of v) st0 (root [] sz)) = 0%N).
  { rewrite (proj1 (walk_state_independent repaired v botw sz 8 st0)). exact (all_clean v sz botw Hsz). }
  destruct (Nat.lt_ge_cases n 8) as [Hn|Hn].
  - exact (walk_sound repaired v botw 8 st0 (root [] sz) Hclean n (st, p) Hr Hn).
  - intros Hst. exfalso. apply reach_move in Hr. change (move (root [] sz)) with 0%Z in Hr.
    unfold stops in Hst. destruct (max_ply_of v <=? move p)%Z eqn:E; [discriminate|]. apply Z.leb_gt in E.
    assert (max_ply_of v <= 6)%Z by (destruct v; cbn; lia). lia.
Qed.

(* ---- the state an earlier game leaves behind (for the reuse family of the check) ----
   LegalMove is called on every move that was made, in order; its state changes stay also when it rejects the move (the bot then
   resigns), and a game may be abandoned at any ply. *)
Fixpoint dirty (fx : fixes) (v : variant) (st : fstate) (p : position) (ms : list rmove) : fstate :=
  match ms with
  | [] => st
  | m :: r =>
    match legal_move fx v st p m with
    | Ok (st', _) => match mv1 p m with Ok q => dirty fx v st' q r | _ => st' end
    | _ => st
    end
  end.

(* a sub-tree of the enumeration at (sz, botw) on an object that first served the moves ms1 of a game of size sz1 *)
Definition run_from_dirty (fx : fixes) (v : variant) (sz1 : N) (ms1 : list rmove) (sz : N) (botw : bool) (ms : list rmove) : option (tally * list ev) :=
  let st0 := dirty fx v fstate0 (root [] sz1) ms1 in
  match replay fx v st0 (root [] sz) ms with
  | Some (st, p) => Some (walk 8 fx v botw (max_ply_of v) st p, walk_tr 8 fx v botw (max_ply_of v) st p)
  | None => None
  end.

Lemma state_written_before_read : forall fx v a b p m, agree v (move p) a b ->
  related v (move p) (legal_move fx v a p m) (legal_move fx v b p m) /\ get_move fx v a p = get_move fx v b p.
Proof. intros fx v a b p m H. split; [now apply legal_move_agree|now apply get_move_agree]. Qed.
