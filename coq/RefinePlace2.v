From Coq Require Import NArith ZArith Arith List Bool Lia ZifyN ZifyBool ZifyNat.
Require Import Board Rules Move Refine RefinePlace.
Import ListNotations.
Ltac Zify.zify_post_hook ::= Z.div_mod_to_equations.

(* ---- list facts ---- *)
Lemma upd_map_seq {A} (g : nat -> A) n : forall s i v, (i < n)%nat ->
  upd (map g (seq s n)) i v = map (fun j => if (j =? s + i)%nat then v else g j) (seq s n).
Proof.
  induction n as [|n IH]; intros s i v Hi; [lia|]. cbn [seq map].
  destruct i as [|i]; cbn [upd].
  - rewrite Nat.add_0_r, Nat.eqb_refl. f_equal. apply map_ext_in. intros j Hj. apply in_seq in Hj.
    destruct (Nat.eqb_spec j s); [lia|reflexivity].
  - destruct (Nat.eqb_spec s (s + S i)); [lia|]. f_equal. rewrite IH by lia.
    apply map_ext. intros j. now replace (S s + i)%nat with (s + S i)%nat by lia.
Qed.

Lemma nthN_updN l i j v : (i < length l)%nat -> nthN (updN l i v) j = if (N.to_nat j =? i)%nat then v else nthN l j.
Proof.
  unfold nthN. generalize (N.to_nat j) as k. revert i. induction l as [|a l IH]; intros i k Hi; cbn in *; [lia|].
  destruct i as [|i], k as [|k]; cbn; auto. apply IH. lia.
Qed.

Lemma idx_ok {A} (l : list A) i d : (N.to_nat i < length l)%nat -> idx l i = Ok (nth (N.to_nat i) l d).
Proof. intros H. unfold idx. replace (i <? N.of_nat (length l))%N with true by lia. destruct (nth_error l (N.to_nat i)) eqn:E.
  - f_equal. symmetry. now apply nth_error_nth.
  - apply nth_error_None in E. lia.
Qed.

(* ---- well-formedness needed by the placement branch ---- *)
Record wf (p : position) : Prop := {
  wf_size : (3 <= size p <= 8)%N;
  wf_lenH : length (Height p) = N.to_nat (size p * size p);
  wf_lenS : length (Stacks p) = N.to_nat (size p * size p);
  wf_occ  : forall i, (i < size p * size p)%N -> (nthN (Height p) i = 0)%N <-> has (N.lor (White p) (Move.Black p)) i = false;
  wf_excl : forall i, (i < size p * size p)%N -> has (White p) i && has (Move.Black p) i = false;
  wf_top  : forall i, (i < size p * size p)%N -> has (N.lor (White p) (Move.Black p)) i = false ->
                      has (Standing p) i = false /\ has (Caps p) i = false;
  wf_res  : (whiteStones p < 256 /\ whiteCaps p < 256 /\ blackStones p < 256 /\ blackCaps p < 256)%N }.

(* abs_stack only looks at square i *)
Lemma abs_stack_ext p q i :
  nthN (Height p) i = nthN (Height q) i -> nthN (Stacks p) i = nthN (Stacks q) i ->
  has (Move.Black p) i = has (Move.Black q) i -> has (Standing p) i = has (Standing q) i -> has (Caps p) i = has (Caps q) i ->
  abs_stack p i = abs_stack q i.
Proof. intros H1 H2 H3 H4 H5. unfold abs_stack. now rewrite H1, H2, H3, H4, H5. Qed.

Lemma abs_stack_empty p i : nthN (Height p) i = 0%N -> abs_stack p i = [].
Proof. intros H. unfold abs_stack. now rewrite H. Qed.

Lemma on_board_abs p x y : on_board (abs p) x y = ((0 <=? x) && (x <? Z.of_N (size p)) && (0 <=? y) && (y <? Z.of_N (size p)))%Z.
Proof. unfold on_board, abs; cbn. now rewrite N_nat_Z. Qed.

Lemma stack_at_abs p x y : wf p -> (0 <= x < Z.of_N (size p))%Z -> (0 <= y < Z.of_N (size p))%Z ->
  stack_at (abs p) x y = abs_stack p (sq_index p x y).
Proof.
  intros W Hx Hy. destruct (sq_index_on_board p x y (wf_size p W) Hx Hy) as [E L].
  unfold stack_at, Rules.idx, abs; cbn [Rules.n sq].
  set (n := N.to_nat (size p)).
  assert (Hi : (Z.to_nat x + Z.to_nat y * n < n * n)%nat) by (subst n; nia).
  rewrite nth_indep with (d' := abs_stack p (N.of_nat 0)) by (rewrite map_length, seq_length; exact Hi).
  rewrite (map_nth (fun i => abs_stack p (N.of_nat i))), seq_nth by exact Hi. cbn [plus].
  f_equal. rewrite E. subst n. lia.
Qed.
Print Assumptions stack_at_abs.
