(* CountThreats, part 6 (C19): the one-step slide.  The slide branch of MovePreallocated for a single piece moved one square;
   a positive slide count of the side to move yields such a legal slide after which the engine reports a road win. *)
From Coq Require Import NArith ZArith List Bool Lia ZifyN ZifyBool ZifyNat.
Require Import Board Flood Masks LowBit Conn Move GameOver Groups1 Groups2 Groups3 Groups4 Rules Refine RefinePlace RefinePlace2
  Slide2 Slide3 Slide6 Preserve1 PreserveExt GameOverFacts1 GameOverFacts2
  Eval EvalSpec EvalFacts1 EvalFacts2 Threats ThreatsFacts1 ThreatsFacts2 ThreatsFacts3 ThreatsFacts4 ThreatsFacts5.
Import ListNotations.
Open Scope N_scope.
Ltac Zify.zify_post_hook ::= Z.div_mod_to_equations.

Lemma has_clrb_other b i j : i < 64 -> j < 64 -> j <> i -> has (clrb b i) j = has b j.
Proof. intros. rewrite has_clrb by assumption. replace (j =? i) with false by lia. apply andb_true_r. Qed.

Lemma updN_len l : forall k v, length (updN l k v) = length l.
Proof. induction l as [|h t IH]; intros [|k] v; cbn; auto. Qed.

Lemma drops1 p stack dx dy x y b i :
  3 <= size p <= 8 ->
  (0 <= x + dx < Z.of_N (size p))%Z -> (0 <= y + dy < Z.of_N (size p))%Z -> (-1 <= dx <= 1)%Z -> (-1 <= dy <= 1)%Z ->
  (0 <= x < Z.of_N (size p))%Z -> (0 <= y < Z.of_N (size p))%Z ->
  i = Z.to_N ((x + dx) + (y + dy) * Z.of_N (size p)) ->
  has (bc b) i = false -> has (bs b) i = false ->
  (N.to_nat i < length (bhs b))%nat -> (N.to_nat i < length (bst b))%nat ->
  exists r, drops hsq p KFlat stack dx dy x y 1 [1] b = Ok r /\
    bw r = (if N.testbit stack 0 then clrb (bw b) i else setb (bw b) i) /\
    bb r = (if N.testbit stack 0 then setb (bb b) i else clrb (bb b) i) /\
    bs r = bs b /\ bc r = bc b.
Proof.
  intros Hsz Hx' Hy' Hdx Hdy Hx Hy Ei Hc Hs Hl1 Hl2.
  cbn [drops]. rewrite (wrap8_id (x + dx)), (wrap8_id (y + dy)) by lia.
  assert (Hin : in_board p (x + dx) (y + dy) = true).
  { unfold in_board. rewrite wrap8_id by lia. lia. }
  rewrite Hin. cbn [negb]. replace ((1 <? 1) || (1 <? 1)) with false by reflexivity.
  destruct (sq_index_on_board p (x + dx)%Z (y + dy)%Z Hsz Hx' Hy') as [Esq _]. rewrite <- Ei in Esq. rewrite Esq.
  unfold drop_at. rewrite Hc, Hs. cbn [bind].
  rewrite (idx_ok (bhs b) i 0 Hl1), (idx_ok (bst b) i 0 Hl2). cbn [bind].
  change (1 - 1) with 0. change (0 =? 0) with true. cbv iota.
  assert (Eb : negb (N.land stack (bit 0) =? 0) = N.testbit stack 0) by (apply has_word; lia).
  rewrite Eb. eexists. split; [reflexivity|]. cbn [bw bb bs bc]. destruct (N.testbit stack 0); auto.
Qed.

Lemma mv_slide1 p m (dx dy : Z) (j i : N) :
  3 <= size p <= 8 -> length (Height p) = nsq (size p) -> length (Stacks p) = nsq (size p) ->
  (2 <= move p)%Z ->
  ((mT m = 5%N /\ dx = -1 /\ dy = 0) \/ (mT m = 6%N /\ dx = 1 /\ dy = 0) \/ (mT m = 7%N /\ dx = 0 /\ dy = 1) \/ (mT m = 8%N /\ dx = 0 /\ dy = -1))%Z ->
  mS m = 1 ->
  (0 <= mX m < Z.of_N (size p))%Z -> (0 <= mY m < Z.of_N (size p))%Z ->
  j = Z.to_N (mX m + mY m * Z.of_N (size p)) ->
  (0 <= mX m + dx < Z.of_N (size p))%Z -> (0 <= mY m + dy < Z.of_N (size p))%Z ->
  i = Z.to_N ((mX m + dx) + (mY m + dy) * Z.of_N (size p)) ->
  1 <= nthN (Height p) j ->
  has (if to_move_white p then Move.White p else Move.Black p) j = true ->
  has (Move.White p) j && has (Move.Black p) j = false ->
  has (Move.Standing p) j = false -> has (Caps p) j = false ->
  has (Move.Standing p) i = false -> has (Caps p) i = false ->
  exists p', mv p m = Ok p' /\ size p' = size p /\ move p' = (move p + 1)%Z /\ Move.Standing p' = clrb (Move.Standing p) j /\
     exists W1 B1, (W1 = clrb (Move.White p) j \/ W1 = setb (Move.White p) j) /\ (B1 = clrb (Move.Black p) j \/ B1 = setb (Move.Black p) j) /\
     Move.White p' = (if to_move_white p then setb W1 i else clrb W1 i) /\ Move.Black p' = (if to_move_white p then clrb B1 i else setb B1 i).
Proof.
  intros Hsz HLH HLS Hmv Hdir HS Hx Hy Ej Hx' Hy' Ei Hh Hown Hexcl HSj HCj HSi HCi.
  assert (Hj : j < size p * size p) by nia. assert (Hi : i < size p * size p) by nia.
  assert (Hj64 : j < 64) by nia. assert (Hi64 : i < 64) by nia.
  assert (Hij : i <> j) by (destruct Hdir as [H|[H|[H|H]]]; destruct H as (_ & -> & ->); nia).
  destruct (sq_index_on_board p (mX m) (mY m) Hsz Hx Hy) as [Esq _]. rewrite <- Ej in Esq.
  unfold mv, move_prealloc.
  replace ((mX m <? 0)%Z || (Z.of_N (size p) <=? mX m)%Z || (mY m <? 0)%Z || (Z.of_N (size p) <=? mY m)%Z) with false by lia.
  cbn [andb].
  replace (move p <? 2)%Z with false by lia.
  rewrite Esq, HS. change (Move.nibbles 8 1) with [1]. cbn [existsb fold_right N.eqb]. change (1 + 0) with 1.
  replace ((size p <? 1) || (1 <? 1)) with false by lia.
  assert (Eh : Move.idx (Height p) j = Ok (nthN (Height p) j)) by (apply idx_ok; unfold nsq in HLH; nia).
  assert (Est : Move.idx (Stacks p) j = Ok (nthN (Stacks p) j)) by (apply idx_ok; unfold nsq in HLS; nia).
  set (hj := nthN (Height p) j) in *. set (sj := nthN (Stacks p) j) in *.
  assert (Etop : top_at p (mX m) (mY m) = (Some (negb (to_move_white p)), KFlat)).
  { unfold top_at. rewrite uint_of_int_id by nia. rewrite <- Ej. rewrite HSj, HCj.
    destruct (to_move_white p); cbn [negb].
    - now rewrite Hown.
    - rewrite Hown in *. rewrite andb_true_r in Hexcl. now rewrite Hexcl. }
  assert (Ekd : match mT m with
        | 7 => Ok (inr (0%Z, 1%Z)) | 5 => Ok (inr ((-1)%Z, 0%Z)) | 3 => Ok (inl KStanding) | 6 => Ok (inr (1%Z, 0%Z))
        | 8 => Ok (inr (0%Z, (-1)%Z)) | 4 => Ok (inl KCap) | 2 => Ok (inl KFlat) | _ => Err end = Ok (inr (dx, dy) : pkind + Z * Z)).
  { destruct Hdir as [H|[H|[H|H]]]; destruct H as (-> & -> & ->); reflexivity. }
  rewrite Ekd. cbn [bind]. rewrite Eh. cbn [bind]. replace (hj <? 1) with false by lia.
  assert (Eo1 : to_move_white p && negb (has (Move.White p) j) = false).
  { destruct (to_move_white p); [rewrite Hown|]; reflexivity. }
  assert (Eo2 : negb (to_move_white p) && negb (has (Move.Black p) j) = false).
  { destruct (to_move_white p); [|rewrite Hown]; reflexivity. }
  rewrite Eo1, Eo2, Etop, Est. cbn [bind].
  cbn [orb].
  set (stack := N.lor (shl64 sj 1) (if negb (to_move_white p) then 1 else 0)).
  assert (Hwb : exists W1 B1, (W1 = clrb (Move.White p) j \/ W1 = setb (Move.White p) j) /\ (B1 = clrb (Move.Black p) j \/ B1 = setb (Move.Black p) j) /\
     (if hj =? 1 then (clrb (Move.White p) j, clrb (Move.Black p) j)
      else if N.land stack (bit 1) =? 0 then (setb (Move.White p) j, clrb (Move.Black p) j) else (clrb (Move.White p) j, setb (Move.Black p) j)) = (W1, B1)).
  { destruct (hj =? 1); [|destruct (N.land stack (bit 1) =? 0)]; eexists _, _; (split; [|split; [|reflexivity]]); auto. }
  destruct Hwb as (W1 & B1 & HW1 & HB1 & ->).
  assert (Hs0 : N.testbit stack 0 = negb (to_move_white p)).
  { unfold stack. rewrite N.lor_spec, testbit_shl64. cbn [N.leb N.compare andb orb]. destruct (to_move_white p); reflexivity. }
  set (b0 := {| bw := W1; bb := B1; bs := clrb (Move.Standing p) j; bc := clrb (Caps p) j;
               bhs := updN (Height p) (N.to_nat j) (u8 (hj + 256 - 1)); bst := updN (Stacks p) (N.to_nat j) (shr64 sj 1);
               bh := _ |}).
  assert (Hd : (-1 <= dx <= 1)%Z /\ (-1 <= dy <= 1)%Z) by (destruct Hdir as [H|[H|[H|H]]]; destruct H as (_ & -> & ->); lia).
  destruct (drops1 p stack dx dy (mX m) (mY m) b0 i Hsz Hx' Hy' (proj1 Hd) (proj2 Hd) Hx Hy Ei) as (r & Er & Rw & Rb & Rs & Rc).
  { subst b0. cbn [bc]. rewrite has_clrb_other by (assumption || congruence). exact HCi. }
  { subst b0. cbn [bs]. rewrite has_clrb_other by (assumption || congruence). exact HSi. }
  { subst b0. cbn [bhs]. rewrite updN_len. unfold nsq in HLH. nia. }
  { subst b0. cbn [bst]. rewrite updN_len. unfold nsq in HLS. nia. }
  rewrite Er. cbn [bind]. eexists. split; [reflexivity|]. cbn [size move Move.Standing Move.White Move.Black].
  split; [reflexivity|]. split; [reflexivity|]. split; [rewrite Rs; reflexivity|].
  exists W1, B1. split; [exact HW1|]. split; [exact HB1|]. rewrite Rw, Rb, Hs0. subst b0. cbn [bw bb].
  destruct (to_move_white p); split; reflexivity.
Qed.


(* the direction of a one-step slide from j to its Grow-neighbour i, in the coordinates of the move encoding *)
Lemma nb_dir s i j : 3 <= s <= 8 -> i < s * s -> j < s * s -> nb (precompute s) j i ->
  exists (t : N) (dx dy : Z),
    ((t = 5%N /\ dx = -1 /\ dy = 0) \/ (t = 6%N /\ dx = 1 /\ dy = 0) \/ (t = 7%N /\ dx = 0 /\ dy = 1) \/ (t = 8%N /\ dx = 0 /\ dy = -1))%Z /\
    (0 <= Z.of_N (j mod s) + dx < Z.of_N s)%Z /\ (0 <= Z.of_N (j / s) + dy < Z.of_N s)%Z /\
    i = Z.to_N ((Z.of_N (j mod s) + dx) + (Z.of_N (j / s) + dy) * Z.of_N s).
Proof.
  intros Hs Hi Hj H. unfold nb in H. rewrite (size_c s Hs) in H.
  rewrite (maskR s Hs i Hi), (maskL s Hs i Hi) in H.
  destruct H as [(H1 & -> & H3 & H4)|[(-> & H2)|[->|(H1 & -> & H3)]]].
  - exists 6, 1%Z, 0%Z. split; [auto|].
    assert (s = 3 \/ s = 4 \/ s = 5 \/ s = 6 \/ s = 7 \/ s = 8) as Hc by lia.
    destruct Hc as [->|[->|[->|[->|[->| ->]]]]]; lia.
  - exists 5, (-1)%Z, 0%Z. split; [auto|].
    assert (s = 3 \/ s = 4 \/ s = 5 \/ s = 6 \/ s = 7 \/ s = 8) as Hc by lia.
    destruct Hc as [->|[->|[->|[->|[->| ->]]]]]; lia.
  - exists 8, 0%Z, (-1)%Z. split; [auto 6|].
    assert (s = 3 \/ s = 4 \/ s = 5 \/ s = 6 \/ s = 7 \/ s = 8) as Hc by lia.
    destruct Hc as [->|[->|[->|[->|[->| ->]]]]]; lia.
  - exists 7, 0%Z, 1%Z. split; [auto 6|].
    assert (s = 3 \/ s = 4 \/ s = 5 \/ s = 6 \/ s = 7 \/ s = 8) as Hc by lia.
    destruct Hc as [->|[->|[->|[->|[->| ->]]]]]; lia.
Qed.

Lemma tsum_pos_snd one l i0 acc : (snd acc < snd (tsum one i0 l acc))%Z ->
  exists k g, nth_error l k = Some g /\ (0 < snd (one (i0 + k)%nat g))%Z.
Proof.
  revert i0 acc. induction l as [|g l IH]; intros i0 acc H; cbn [tsum] in H; [lia|].
  destruct (one i0 g) as [a b] eqn:E.
  destruct (Z.ltb_spec 0 b) as [L|L].
  - exists 0%nat, g. split; [reflexivity|]. rewrite Nat.add_0_r, E. exact L.
  - destruct (IH (S i0) (fst acc + a, snd acc + b)%Z) as (k & g' & Hk & Hp).
    + cbn [snd]. cbn [snd] in H. lia.
    + exists (S k), g'. split; [exact Hk|]. replace (i0 + S k)%nat with (S i0 + k)%nat by lia. exact Hp.
Qed.

(* from the words of a successor to the engine's verdict *)
Lemma road_win_words p' col gs2 :
  3 <= size p' <= 8 ->
  to_move_white p' = match col with Rules.White => false | Rules.Black => true end ->
  groups (precompute (size p')) (road_bits p' col) = Some gs2 -> existsb (spans (precompute (size p'))) gs2 = true ->
  (forall x, N.testbit (road_bits p' (flip col)) x = true -> x < size p' * size p') ->
  road_win p' (gcol col).
Proof.
  intros Hsz Htm Hg2 Hsp HBo.
  destruct (groups_spec (size p') Hsz (road_bits p' (flip col)) HBo) as (go & Hgo & _).
  assert (Han : analyze p' = Some (match col with Rules.White => (gs2, go) | Rules.Black => (go, gs2) end)).
  { unfold analyze. unfold road_bits, cword in Hg2, Hgo. destruct col; cbn [flip] in *; rewrite Hg2, Hgo; reflexivity. }
  assert (Hroad : has_road p' (fst (match col with Rules.White => (gs2, go) | Rules.Black => (go, gs2) end))
                             (snd (match col with Rules.White => (gs2, go) | Rules.Black => (go, gs2) end)) = Some (gcol col)).
  { unfold has_road. rewrite Htm. destruct col; cbn [fst snd gcol]; rewrite Hsp; cbn [andb];
      destruct (existsb (spans (precompute (size p'))) go); reflexivity. }
  unfold road_win, win_details, game_over. rewrite Han.
  destruct col; cbn [fst snd] in Hroad; rewrite Hroad; destruct (count_flats p') as [wf bf];
    eexists; (split; [reflexivity|]); repeat split; reflexivity.
Qed.

Section SlideWins.
Variable p : position.
Hypothesis I : inv p.
Hypothesis Hmv : (2 <= move p)%Z.
Let s := size p.
Let c := precompute s.
Variable col : colour.
Hypothesis Htm : to_move_white p = match col with Rules.White => true | Rules.Black => false end.
Let W := cword p col.
Let B := road_bits p col.
Let pieces := andnot W (N.lor (Move.Standing p) (Caps p)).
Variable gs : list N.
Hypothesis Hg : groups c B = Some gs.

Lemma Hnocs : forall i, N.testbit (t_nocs c p) i = true -> i < s * s.
Proof.
  intros i H. unfold t_nocs, andnot in H. rewrite N.ldiff_spec in H. apply andb_prop in H as [Hm _].
  exact (mask_bit_lt s i (ThreatsFacts4.Hs p I) Hm).
Qed.

Hypothesis Hcnt : (0 < snd (count_one c p gs pieces))%Z.

Theorem slide_wins : exists m p', mv p m = Ok p' /\ road_win p' (gcol col).
Proof.
  pose proof (ThreatsFacts4.Hs p I) as Hs. fold s in Hs.
  assert (Hss : s * s <= 64) by (clear -Hs; nia).
  pose proof (ThreatsFacts4.HB p I col) as HB. fold s B in HB.
  pose proof (ThreatsFacts4.Hp p col) as Hp. fold W B pieces in Hp.
  pose proof Hcnt as Hc. rewrite count_one_eq in Hc.
  destruct (tsum_pos_snd (tcount c p gs pieces) gs 0%nat (0, 0)%Z Hc) as (k & g & Hk & Hpos). cbn [Nat.add] in Hpos.
  unfold tcount in Hpos. pose proof (tmap_sound s Hs p B HB gs Hg pieces Hp Hnocs k g Hk) as TS. fold c in TS.
  destruct (tmaps c p gs pieces k g) as [pm tm]. cbn [snd] in *.
  destruct (pc_pos_bit tm Hpos) as (i & Hbit).
  destruct (TS i Hbit) as (Hi & Hno & j & Hpj & Hnb & Hbr).
  (* the slider j and the target i *)
  assert (HjB : N.testbit B j = true) by now apply Hp.
  assert (Hj : j < s * s) by now apply HB.
  assert (Hi64 : i < 64) by lia. assert (Hj64 : j < 64) by lia.
  unfold pieces, andnot in Hpj. rewrite N.ldiff_spec, N.lor_spec in Hpj. apply andb_prop in Hpj as [HWj Hscj].
  apply negb_true_iff, orb_false_elim in Hscj as [HSj HCj].
  unfold t_nocs, andnot in Hno. rewrite N.ldiff_spec, N.lor_spec in Hno. apply andb_prop in Hno as [_ Hsci].
  apply negb_true_iff, orb_false_elim in Hsci as [HSi HCi].
  destruct I as [Hsz [HLH HLS Hsq] Hbw Hbb Hrw Hrb]. fold s in Hsz, Hsq, Hbw, Hbb.
  cbn [bview bhs bst] in HLH, HLS.
  destruct (Hsq j Hj) as [_ Hso Hexcl _ _]. cbn [bview bhs bw bb bs bc] in Hso, Hexcl.
  assert (Hown : has (if to_move_white p then Move.White p else Move.Black p) j = true).
  { rewrite has_spec by assumption. rewrite Htm. unfold W, cword in HWj. destruct col; exact HWj. }
  assert (Hh : 1 <= nthN (Height p) j).
  { destruct (N.eq_dec (nthN (Height p) j) 0) as [E|]; [|lia]. apply Hso in E as [E1 E2].
    destruct (to_move_white p); congruence. }
  destruct (nb_dir s i j Hs Hi Hj Hnb) as (t & dx & dy & Hdir & Hx' & Hy' & Ei).
  set (m := {| mX := Z.of_N (j mod s); mY := Z.of_N (j / s); mT := t; mS := 1 |}).
  assert (Hs0 : s <> 0) by lia.
  assert (Hx : (0 <= mX m < Z.of_N (size p))%Z).
  { unfold m; cbn [mX]. fold s. pose proof (N.mod_lt j s Hs0) as Hm. revert Hm. generalize (j mod s). intros r Hm. lia. }
  assert (Hy : (0 <= mY m < Z.of_N (size p))%Z).
  { unfold m; cbn [mY]. fold s. assert (Hd : j / s < s) by (apply N.div_lt_upper_bound; lia). revert Hd. generalize (j / s). intros q Hd. lia. }
  assert (Ej : j = Z.to_N (mX m + mY m * Z.of_N (size p))).
  { unfold m; cbn [mX mY]. fold s. pose proof (N.div_mod j s Hs0) as Hdm. revert Hdm. generalize (j mod s), (j / s). intros r q Hdm. nia. }
  destruct (mv_slide1 p m dx dy j i Hsz HLH HLS Hmv Hdir eq_refl Hx Hy Ej Hx' Hy' Ei Hh Hown Hexcl)
    as (p' & Emv & Esz & Emove & Est & W1 & B1 & HW1 & HB1 & EW & EB);
    try (rewrite has_spec by assumption; assumption).
  exists m, p'. split; [exact Emv|].
  assert (Htm' : to_move_white p' = match col with Rules.White => false | Rules.Black => true end).
  { unfold to_move_white. rewrite Emove, Z.even_add. unfold to_move_white in Htm. rewrite Htm. destruct col; reflexivity. }
  (* bits of the successor's words *)
  assert (TW1 : forall x, x < 64 -> x <> j -> N.testbit W1 x = N.testbit (Move.White p) x).
  { intros x Hx64 Hne. destruct HW1 as [-> | ->]; [rewrite testbit_clrb|rewrite testbit_setb]; try assumption;
      replace (x =? j) with false by lia; [apply andb_true_r|apply orb_false_r]. }
  assert (TB1 : forall x, x < 64 -> x <> j -> N.testbit B1 x = N.testbit (Move.Black p) x).
  { intros x Hx64 Hne. destruct HB1 as [-> | ->]; [rewrite testbit_clrb|rewrite testbit_setb]; try assumption;
      replace (x =? j) with false by lia; [apply andb_true_r|apply orb_false_r]. }
  assert (LW1 : forall x, N.testbit W1 x = true -> x < s * s).
  { intros x Hx1. destruct (N.ltb_spec x 64) as [L|L].
    - destruct (N.eq_dec x j) as [->|Hne]; [assumption|]. rewrite TW1 in Hx1 by assumption. now apply Hbw.
    - exfalso. destruct HW1 as [-> | ->]; unfold clrb, setb in Hx1; rewrite ?N.ldiff_spec, ?N.lor_spec in Hx1.
      + apply andb_prop in Hx1 as [Hx1 _]. apply Hbw in Hx1. lia.
      + apply orb_prop in Hx1 as [Hx1|Hx1]; [apply Hbw in Hx1; lia|]. rewrite testbit_bit in Hx1 by assumption. lia. }
  assert (LB1 : forall x, N.testbit B1 x = true -> x < s * s).
  { intros x Hx1. destruct (N.ltb_spec x 64) as [L|L].
    - destruct (N.eq_dec x j) as [->|Hne]; [assumption|]. rewrite TB1 in Hx1 by assumption. now apply Hbb.
    - exfalso. destruct HB1 as [-> | ->]; unfold clrb, setb in Hx1; rewrite ?N.ldiff_spec, ?N.lor_spec in Hx1.
      + apply andb_prop in Hx1 as [Hx1 _]. apply Hbb in Hx1. lia.
      + apply orb_prop in Hx1 as [Hx1|Hx1]; [apply Hbb in Hx1; lia|]. rewrite testbit_bit in Hx1 by assumption. lia. }
  assert (Lset : forall w x, (forall y, N.testbit w y = true -> y < s * s) -> N.testbit (setb w i) x = true -> x < s * s).
  { intros w x Hw Hx1. unfold setb in Hx1. rewrite N.lor_spec, testbit_bit in Hx1 by assumption.
    apply orb_prop in Hx1 as [Hx1|Hx1]; [now apply Hw|]. apply N.eqb_eq in Hx1. rewrite Hx1. exact Hi. }
  assert (Lclr : forall w x, (forall y, N.testbit w y = true -> y < s * s) -> N.testbit (clrb w i) x = true -> x < s * s).
  { intros w x Hw Hx1. unfold clrb in Hx1. rewrite N.ldiff_spec in Hx1. apply andb_prop in Hx1 as [Hx1 _]. now apply Hw. }
  assert (Hij : i <> j).
  { intro E. rewrite E in Hnb. clear -Hnb Hs Hj. unfold nb in Hnb. rewrite (size_c s Hs) in Hnb. lia. }
  (* the words of the mover and of the opponent after the slide *)
  assert (Hwords : exists Wm Wo, cword p' col = setb Wm i /\ cword p' (flip col) = clrb Wo i /\
             (forall x, x < 64 -> x <> j -> N.testbit Wm x = N.testbit W x) /\
             (forall x, N.testbit Wm x = true -> x < s * s) /\ (forall x, N.testbit Wo x = true -> x < s * s)).
  { unfold W, cword. rewrite EW, EB, Htm. destruct col; cbn [flip]; [exists W1, B1|exists B1, W1]; repeat split; auto. }
  destruct Hwords as (Wm & Wo & EWm & EWo & TWm & LWm & LWo).
  set (B2 := road_bits p' col).
  assert (EB2 : forall x, N.testbit B2 x = N.testbit (setb Wm i) x && negb (N.testbit (clrb (Move.Standing p) j) x)).
  { intro x. unfold B2, road_bits. rewrite EWm, Est. apply N.ldiff_spec. }
  assert (HB2 : forall x, N.testbit B2 x = true -> x < s * s).
  { intros x Hx2. rewrite EB2 in Hx2. apply andb_prop in Hx2 as [Hx2 _]. exact (Lset Wm x LWm Hx2). }
  assert (Hsub : forall x, N.testbit (N.ldiff B (bit1 j)) x = true -> N.testbit B2 x = true).
  { intros x Hx2. rewrite N.ldiff_spec, testbit_bit1 in Hx2. apply andb_prop in Hx2 as [HxB Hxj]. apply negb_true_iff, N.eqb_neq in Hxj.
    assert (Hx64 : x < 64) by (apply HB in HxB; lia).
    unfold B, road_bits in HxB. fold W in HxB. rewrite N.ldiff_spec in HxB. apply andb_prop in HxB as [HxW HxS].
    rewrite EB2. unfold setb, clrb. rewrite N.lor_spec, N.ldiff_spec, TWm, HxW by assumption. cbn [orb andb].
    apply negb_true_iff in HxS. rewrite HxS. reflexivity. }
  assert (Hi2 : N.testbit B2 i = true).
  { rewrite EB2. unfold setb, clrb. rewrite N.lor_spec, N.ldiff_spec, testbit_bit, N.eqb_refl, HSi by assumption. rewrite orb_true_r. reflexivity. }
  destruct (Hbr B2 HB2 Hsub Hi2) as (gs2 & Hg2 & Hsp2).
  apply (road_win_words p' col gs2); rewrite ?Esz; fold s; auto.
  intros x Hx2. unfold road_bits in Hx2. rewrite EWo, N.ldiff_spec in Hx2. apply andb_prop in Hx2 as [Hx2 _]. exact (Lclr Wo x LWo Hx2).
Qed.
End SlideWins.

(* C19 (DESIGN 5.19): whenever CountThreats reports, for the side to move, a road-completing placement or one-step slide
   (ply >= 2; for the placement the mover must have a stone or capstone left, which holds whenever the game is not over),
   there is a legal move after which the engine reports a road win of the mover. *)
Theorem threats_sound : forall p wp wtt bp btt, inv p -> (2 <= move p)%Z -> threats p = Some (wp, wtt, bp, btt) ->
  (to_move_white p = true -> (0 < wp + wtt)%Z -> 0 < whiteStones p \/ 0 < whiteCaps p ->
     exists m p', mv p m = Ok p' /\ road_win p' GWhite) /\
  (to_move_white p = false -> (0 < bp + btt)%Z -> 0 < blackStones p \/ 0 < blackCaps p ->
     exists m p', mv p m = Ok p' /\ road_win p' GBlack).
Proof.
  intros p wp wtt bp btt I Hmv T.
  destruct (threats_some p wp wtt bp btt T) as (wg & bg & Gw & Gb & Cw & Cb).
  destruct (threats_place_sound p wp wtt bp btt I Hmv T) as [PW PB].
  split; intros Htm Hpos Hres.
  - destruct (Z.ltb_spec 0 wp) as [L|L]; [exact (PW Htm L Hres)|].
    assert (R2 : (0 < snd (count_one (precompute (size p)) p wg (andnot (cword p Rules.White) (N.lor (Move.Standing p) (Caps p)))))%Z)
      by (unfold cword; rewrite Cw; cbn [snd]; lia).
    exact (slide_wins p I Hmv Rules.White Htm wg Gw R2).
  - destruct (Z.ltb_spec 0 bp) as [L|L]; [exact (PB Htm L Hres)|].
    assert (R2 : (0 < snd (count_one (precompute (size p)) p bg (andnot (cword p Rules.Black) (N.lor (Move.Standing p) (Caps p)))))%Z)
      by (unfold cword; rewrite Cb; cbn [snd]; lia).
    exact (slide_wins p I Hmv Rules.Black Htm bg Gb R2).
Qed.

(* non-vacuity of the slide half: 3x3, White to move, the gap of White's bottom row is taken by a black flat and a free
   white flat stands next to it: no placement wins (wp = 0), the slide does (wt = 1) *)
Definition ex_slide : position :=
  play (new 3 10 0) [M 2 2 2 0; M 2 0 0 0; M 2 1 0 0; M 2 2 0 0; M 2 2 1 0; M 2 1 1 0]%Z%N.
Example threats_slide_nonvacuous :
  GameOverFacts5.invb ex_slide = true /\ move ex_slide = 6%Z /\ to_move_white ex_slide = true /\
  threats ex_slide = Some (0, 1, 0, 0)%Z /\ game_over ex_slide = Some (false, GNone) /\
  match mv ex_slide (M 8 2 1 1)%Z%N with Ok q => win_details q | _ => None end =
    Some {| wd_over := true; wd_road := true; wd_winner := GWhite; wd_wflats := 3; wd_bflats := 2 |}.
Proof.
  split; [vm_compute; reflexivity|]. split; [vm_compute; reflexivity|]. split; [vm_compute; reflexivity|].
  split; [vm_compute; reflexivity|]. split; [vm_compute; reflexivity|]. vm_compute; reflexivity.
Qed.
