(* SearchRand2.v: C04 for the randomised move choice of MinimaxAI.GetMove (model SearchRand.v), EVERY configuration of the engine
   (table of any size and content, null move, slide reduction, multi-cut, sorting, any cancellation point), repaired code, any oracle
   stream, 0 <= RandomizeWindow <= 2^29 (= WinThreshold; beyond it the window of the child searches leaves the root window):
   whenever the model returns a move, it is Analyze's first move or a move that MovePreallocated accepted at p in this call, and the engine
   state satisfies SJ again; the run panics only inside Int63n (argument <= 0) or in the division, and with RandomizeScale = 1 (the
   default) it never panics when the position has fewer than 2^31 generated moves.  (With RandomizeScale > RandomizeWindow it DOES panic:
   SearchRand3.getmove_scale_panics.) *)
From Coq Require Import NArith ZArith List Bool Lia Permutation.
Require Import Board Move GameOver Eval Search NegamaxSpec SearchGen SearchExact CancelFacts SearchLegal1 SearchLegal2 SearchAllLegal SearchRand.
Import ListNotations.
Open Scope Z_scope.

Lemma w64_small z : - 2 ^ 63 <= z < 2 ^ 63 -> w64 z = z.
Proof. intros H. unfold w64. rewrite Z.mod_small; lia. Qed.

Lemma reject63_no_panic rs max : reject63 rs max <> Panic.
Proof. induction rs as [|v rs IH]; cbn [reject63]; [discriminate|]. destruct (max <? v)%N; [exact IH|discriminate]. Qed.

Lemma int63n_panic n rs : int63n n rs = Panic -> n <= 0.
Proof.
  unfold int63n. destruct (n <=? 0) eqn:E; [intros _; apply Z.leb_le; exact E|].
  destruct (N.land (Z.to_N n) (Z.to_N n - 1) =? 0)%N; [destruct rs; discriminate|].
  pose proof (reject63_no_panic rs (2 ^ 63 - 1 - 2 ^ 63 mod Z.to_N n)%N) as NP.
  destruct (reject63 rs (2 ^ 63 - 1 - 2 ^ 63 mod Z.to_N n)%N) as [[v rest]| |]; try discriminate. contradiction.
Qed.

Section RandLegal.
Variable basis : list N.
Variable cfg : config.
Variable k : Z.
Variable rwindow rscale : Z.
Let eval := c_eval cfg.

Variable Pos : nat -> position -> Prop.
Hypothesis Hanti : forall d p, Pos (S d) p -> Pos d p.
Hypothesis Hstep : forall d p m q, Pos (S d) p -> is_over p = false -> okm m -> try_move basis p m = Some q -> Pos d q.
Hypothesis Hpass : forall d p, Pos (S d) p -> is_over p = false -> Pos d (pass_move p).
Hypothesis Hlive : forall d p, Pos (S d) p -> is_over p = false -> exists m q, In m (all_moves p) /\ try_move basis p m = Some q.
Hypothesis Hbound : forall d p, Pos d p -> okv (eval p).

Hypothesis Hrw : 0 < rwindow <= 2 ^ 29.

(* a move (not Pass) that MovePreallocated accepts at p *)
Definition legal_at (p : position) (m : rmove) : Prop := okm m /\ exists q, try_move basis p m = Some q.

Section Loop.
Variable p : position.
Variable d0 : nat.
Hypothesis Hp : Pos (S d0) p.
Hypothesis Hover : is_over p = false.
Variable d v : Z.
Hypothesis Hd : (Z.to_nat (d - 1) <= d0)%nat.
Hypothesis Hv : - WinThreshold <= v <= WinThreshold.
Variable pvt : list rmove.
Hypothesis Hpvt : okl pvt.
Variable N0 : Z.
(* the default scale, and fewer than 2^31 iterations: the counter i cannot overflow *)
Let good : Prop := rscale = 1 /\ N0 < 2 ^ 31.

Let base := w64 (v - rwindow).

Lemma base_eq : base = v - rwindow.
Proof. unfold base. apply w64_small. unfold WinThreshold in Hv. lia. Qed.

Variable Q : rmove -> Prop.
Hypothesis HQ : forall m, legal_at p m -> Q m.

Lemma gm_loop_ok : forall n s g rv i rnd seen,
  SJ s -> GJ basis p seen g -> Q rv -> (good -> 0 <= i <= 2 ^ 31 * (N0 - Z.of_nat n)) ->
  match gm_loop false basis cfg k rscale d v base pvt n s g rv i rnd with
  | Ok (s', m, _) => SJ s' /\ Q m
  | Err => True
  | Panic => ~ good
  end.
Proof.
  induction n; intros s g rv i rnd seen HS G Hrv Hi; cbn [gm_loop]; [split; assumption|].
  pose proof (mg_next_stepj basis cfg p (gfuel g) g seen s G (proj1 (proj2 HS)) (gfuel_okj basis p seen g G)) as ST.
  destruct (mg_next false basis cfg (gfuel g) s g) as [g' [[m q]|]]; cbn [stepj] in ST; [|split; assumption].
  destruct ST as (Hm & T & G' & _).
  assert (Hq : Pos (Z.to_nat (d - 1)) q).
  { apply (Pos_le Pos Hanti d0); [apply (Hstep d0 p m q Hp Hover Hm T)|exact Hd]. }
  destruct minmax as (MM & MP). unfold WinThreshold in Hv.
  assert (MV : MaxEval = 2 ^ 30) by reflexivity.
  assert (EA : w64 (w64 (- v) - 1) = - v - 1) by (rewrite (w64_small (- v)) by lia; apply w64_small; lia).
  assert (EB : w64 (- base) = rwindow - v) by (rewrite base_eq; rewrite w64_small by lia; lia).
  rewrite EA, EB.
  pose proof (srch_bnd basis cfg k Pos Hanti Hstep Hpass Hlive Hbound 40 false (set_fm s 0 m) q 1 (d - 1) pvt (- v - 1) (rwindow - v) true
                (SJ_set_fm _ _ _ HS) Hq Hpvt ltac:(unfold win_ok; lia)) as R.
  cbv zeta in R.
  destruct (srch false basis cfg k 40 false (set_fm s 0 m) q 1 (d - 1) pvt (- v - 1) (rwindow - v) true) as [s1 [msc cv]].
  cbn [fst snd] in R. destruct R as (HS1 & _ & Hcv). unfold okv in Hcv.
  assert (EC : w64 (- cv) = - cv) by (apply w64_small; lia). rewrite EC.
  assert (Hi' : good -> 0 <= i <= 2 ^ 31 * (N0 - Z.of_nat n)) by (intros E1; specialize (Hi E1); lia).
  destruct (- cv <=? base) eqn:ECB; [apply (IHn s1 g' rv i rnd (q :: seen) HS1 G' Hrv Hi')|].
  apply Z.leb_gt in ECB. rewrite base_eq in ECB.
  destruct (rscale =? 0) eqn:E0; [apply Z.eqb_eq in E0; intros (E1 & _); lia|].
  assert (ED : w64 (- cv - base) = - cv - (v - rwindow)) by (rewrite base_eq; apply w64_small; lia). rewrite ED.
  set (pts := w64 (Z.quot (- cv - (v - rwindow)) rscale)).
  assert (LM : Q m) by (apply HQ; split; [exact Hm|exists q; exact T]).
  destruct (int63n (w64 (i + pts)) rnd) as [[r rnd']| |] eqn:EI; [|exact I|].
  - apply (IHn s1 g' _ (w64 (i + pts)) rnd' (q :: seen) HS1 G'); [destruct (r <=? pts); assumption|].
    intros GD. specialize (Hi GD). destruct GD as (E1 & HN0).
    assert (EP : pts = - cv - (v - rwindow)) by (unfold pts; rewrite E1, Z.quot_1_r; apply w64_small; lia).
    assert (EI2 : w64 (i + pts) = i + pts) by (apply w64_small; nia).
    rewrite EI2. nia.
  - (* Int63n panicked: its argument was not positive, which cannot happen with scale 1 *)
    apply int63n_panic in EI. intros GD. specialize (Hi GD). destruct GD as (E1 & HN0).
    assert (EP : pts = - cv - (v - rwindow)) by (unfold pts; rewrite E1, Z.quot_1_r; apply w64_small; lia).
    assert (EI2 : w64 (i + pts) = i + pts) by (apply w64_small; nia). lia.
Qed.
End Loop.

(* C04 for the randomised GetMove, executed model, every configuration.  (base, ms0, v0) = the seed Analyze takes from an exact root entry.
   The move returned is the zero move exactly when Analyze reports no line; otherwise it is the first move of Analyze's line - which is
   accepted by MovePreallocated unless the line is the never re-validated seed - or a move MovePreallocated accepted in this call. *)
Theorem get_move_legal : forall rnd s p, SJ s -> is_over p = false ->
  let '(base, ms0, v0) := az_root false (az_start s) p in
  (forall d, Z.of_nat d <= Z.max 1 (Z.max (c_depth cfg) base) -> Pos d p) ->
  let '(sa, (pv, v, d, _, _)) := analyze_gen false basis cfg k s p in
  match get_move basis cfg k rwindow rscale rnd s p with
  | Ok (s', m, _) => SJ s' /\ (pv = [] /\ m = move0 \/ (d = base /\ pv = ms0 /\ pv <> [] /\ m = hd move0 pv) \/ legal_at p m)
  | Err => True
  | Panic => ~ (rscale = 1 /\ Z.of_nat (length (all_moves p)) + 8 < 2 ^ 31)
  end.
Proof.
  intros rnd s p HS HO.
  pose proof (analyze_legal basis cfg k Pos Hanti Hstep Hpass Hlive Hbound s p) as AL.
  assert (SEED : forall b m0 vv, az_root false (az_start s) p = (b, m0, vv) -> okl m0 /\ okv vv).
  { unfold az_root. intros b m0 vv E. destruct (tt_get (az_start s) (phash p)) as [i|]; [|inversion E; split; [constructor|apply okv0]].
    pose proof (SJ_te (az_start s) i (SJ_az_start s HS)) as (Tm & Tv & Tb).
    set (te := nth i (table (az_start s)) entry0) in *.
    destruct (e_bound te =? 1)%N eqn:EB; inversion E; [|split; [constructor|apply okv0]].
    split; [constructor; [exact Tm|constructor]|].
    apply N.eqb_eq in EB. unfold okv. destruct (Z.eq_dec (e_value te) (MinEval - 1)) as [EQ|NE]; [|lia].
    specialize (Tb EQ). rewrite Tb in EB. discriminate EB. }
  destruct (az_root false (az_start s) p) as [[base ms0] v0] eqn:ER. intros HP.
  destruct (SEED _ _ _ eq_refl) as (Hms0 & Hv0).
  unfold get_move, get_move_gen.
  destruct (analyze_gen false basis cfg k s p) as [s1 [[[[pv v1] d1] acc1] c1]] eqn:EA.
  specialize (AL s1 pv v1 d1 acc1 c1 HS ltac:(intros d2 L; apply HP; lia) HO eq_refl).
  destruct AL as (HS1 & Hpv & LINE & _).
  assert (VD : okv v1 /\ d1 <= Z.max base (c_depth cfg)).
  { unfold analyze_gen, analyze_depth in EA. rewrite ER in EA.
    apply (az_iter_okv basis cfg k Pos Hanti Hstep Hpass Hlive Hbound p (c_depth cfg) ltac:(intros d2 L; apply HP; lia) HO base 16 1 (az_start s) ms0 v0 stats0 base
             (SJ_az_start s HS) Hms0 ltac:(lia) Hv0 _ _ _ _ _ _ EA). }
  destruct VD as (Hv1 & Hd1).
  destruct pv as [|pm pvt]; [split; [exact HS1|left; split; reflexivity]|].
  assert (HEAD : (d1 = base /\ pm :: pvt = ms0 /\ pm :: pvt <> [] /\ pm = hd move0 (pm :: pvt)) \/ legal_at p pm).
  { destruct LINE as [(A & B)|(_ & (m & rest & q & E & Hm & T))].
    - left. split; [exact A|]. split; [exact B|]. split; [discriminate|reflexivity].
    - right. inversion E; subst. split; [exact Hm|exists q; exact T]. }
  destruct (rwindow =? 0); [split; [exact HS1|right; exact HEAD]|].
  destruct ((WinThreshold <? v1) || (v1 <? - WinThreshold)) eqn:EW; [split; [exact HS1|right; exact HEAD]|].
  apply orb_false_iff in EW. destruct EW as (W1 & W2). apply Z.ltb_ge in W1. apply Z.ltb_ge in W2.
  set (dd := Z.to_nat (d1 - 1)).
  assert (Hp : Pos (S dd) p) by (apply HP; unfold dd; lia).
  set (g0 := new_gen s1 None (pm :: pvt) 0 d1 p).
  pose proof (gm_loop_ok p dd Hp HO d1 v1 ltac:(unfold dd; lia) ltac:(lia) pvt ltac:(inversion Hpv; assumption) (Z.of_nat (gfuel g0))
                (fun m => (d1 = base /\ pm :: pvt = ms0 /\ pm :: pvt <> [] /\ m = hd move0 (pm :: pvt)) \/ legal_at p m)
                ltac:(intros m L; right; exact L)
                (gfuel g0) s1 g0 pm 0 rnd [] HS1 (GJ_new basis p s1 None (pm :: pvt) 0 d1 ltac:(intros i F; discriminate F) Hpv) HEAD ltac:(intros _; lia)) as R.
  destruct (gm_loop false basis cfg k rscale d1 v1 (w64 (v1 - rwindow)) pvt (gfuel g0) s1 g0 pm 0 rnd) as [[[s' m] r0]| |]; [|exact I|].
  - destruct R as (A & B). split; [exact A|right; exact B].
  - intros (E1 & L). apply R. split; [exact E1|]. unfold g0, gfuel; cbn [new_gen g_ms g_p]. lia.
Qed.
End RandLegal.
