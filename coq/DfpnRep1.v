(* C06, DFPN with repetitions, part 1: `disproven` is sound for every run WITH threefold-repetition events as long as no
   bound was taken from the transposition table (the hit counter DFPNStats.Hits stays 0) - whatever the table holds, so also
   for a reused solver.  Together with DfpnFactsL (sound when the repetition counter stays 0) this pins the open case down
   to runs that have BOTH a repetition event and a table hit: the graph-history interaction proper.

   The invariant is path-dependent.  A repetition makes the search treat the current position as lost for the attacker
   because an equal position is among its ancestors on the search stack; the bounds derived from that are conditional on
   the ancestors.  CL A p ("p is no faster won than its ancestors A"):
       forall n, (no position of A is won within n plies) -> p is not won within n plies.
   CL [] p is "not won within any number of plies"; a repetition leaf satisfies CL A p outright; CL (A ++ [g]) for all
   successors of an attacker node g (or one successor of a defender node) gives CL A g - by induction on n, the assumption
   on g itself is discharged (CL_or, CL_and).  Every bound the search derives at a node is CL of the node's strict
   ancestors on the stack; the root has none. *)
From Coq Require Import NArith ZArith List Bool Lia Arith.
Require Import Board Move GameOver Eval Search AndOr Pn PnFacts Dfpn DfpnFacts.
Import ListNotations.
Open Scope N_scope.

Strategy 1000 [solve lookup game_over all_moves hash_of count_threats analyze check_repetition].

Section DfpnRep.
Variable basis : list N.
Variable aw : bool.                          (* the attacker is White *)
Variable Sp : position -> Prop.

Notation term := (PnFacts.terminal aw).
Notation attp := (PnFacts.attp aw).
Notation succs := (PnFacts.succs basis).
Notation dmv := (Dfpn.dmv basis).
Notation wnp := (wn position (PnFacts.succs basis) (PnFacts.terminal aw) (PnFacts.attp aw)).

Hypothesis S_step : forall p m q, Sp p -> term p = None -> In m (all_moves p) -> dmv p m = Ok q -> Sp q.
Hypothesis S_small : forall p, Sp p -> size p <= 8.
(* NoCollisionOn Sp, in the form the repetition test needs: positions of Sp with the same hash have the same history-free
   value at every depth (PnCong: true when equal hashes mean Position.Equal and Sp lies inside one game) *)
Hypothesis S_hashN : forall p q, Sp p -> Sp q -> hash_of p = hash_of q -> forall n, wnp n p = wnp n q.
Hypothesis S_moves : forall p, Sp p -> term p = None -> all_moves p <> [].
(* C19 for the defender *)
Hypothesis threats_sound_def : forall p, Sp p -> term p = None -> solve p <> None -> attp p = false ->
  exists q, In q (succs p) /\ term q = Some false.

(* ---------- the conditional disproof claim ---------- *)
Definition CL (A : list position) (p : position) : Prop :=
  forall n, (forall a, In a A -> wnp n a = false) -> wnp n p = false.

Lemma CL_mono A B p : incl A B -> CL A p -> CL B p.
Proof. intros Hi H n Hb. apply H. intros a Ha. apply Hb. now apply Hi. Qed.

Lemma CL_nil p : CL [] p -> forall n, wnp n p = false.
Proof. intros H n. apply H. intros a []. Qed.

Lemma Lf_CL A p : (forall n, wnp n p = false) -> CL A p.
Proof. intros H n _. apply H. Qed.

Lemma Lf_term p : term p = Some false -> forall n, wnp n p = false.
Proof. intros H n. destruct n; cbn; now rewrite H. Qed.

Lemma wn_false_down n p : wnp (S n) p = false -> wnp n p = false.
Proof. intros H. destruct (wnp n p) eqn:E; [|reflexivity]. apply wn_mono in E. congruence. Qed.

Lemma CL_or A B g : term g = None -> attp g = true -> incl B (g :: A) -> (forall q, In q (succs g) -> CL B q) -> CL A g.
Proof.
  intros Ht Ha Hi Hk n. induction n as [|k IH]; intros HA; cbn [wn]; rewrite Ht; [reflexivity|]. rewrite Ha.
  assert (HAk : forall a, In a A -> wnp k a = false) by (intros a Hin; apply wn_false_down; now apply HA).
  specialize (IH HAk).
  destruct (existsb (wnp k) (succs g)) eqn:E; [|reflexivity].
  apply existsb_exists in E as (q & Hq & Hw). rewrite (Hk q Hq k) in Hw; [discriminate|].
  intros b Hb. apply Hi in Hb as [<-|Hb]; auto.
Qed.

Lemma CL_and A B g q : term g = None -> attp g = false -> incl B (g :: A) -> In q (succs g) -> CL B q -> CL A g.
Proof.
  intros Ht Ha Hi Hq Hk n. induction n as [|k IH]; intros HA; cbn [wn]; rewrite Ht; [reflexivity|]. rewrite Ha.
  assert (HAk : forall a, In a A -> wnp k a = false) by (intros a Hin; apply wn_false_down; now apply HA).
  specialize (IH HAk).
  destruct (forallb (wnp k) (succs g)) eqn:E; [|reflexivity].
  rewrite forallb_forall in E. specialize (E q Hq). rewrite (Hk k) in E; [discriminate|].
  intros b Hb. apply Hi in Hb as [<-|Hb]; auto.
Qed.

Lemma CL_rep A g a : In a A -> Sp a -> Sp g -> hash_of a = hash_of g -> CL A g.
Proof. intros Hin Ha Hg Hh n HA. rewrite <- (S_hashN a g Ha Hg Hh n). now apply HA. Qed.

(* disproven: delta = 0 where the attacker is to move, phi = 0 where the defender is *)
Definition claimC (A : list position) (p : position) (ph de : N) : Prop :=
  (attp p = true -> de = 0 -> CL A p) /\ (attp p = false -> ph = 0 -> CL A p).
Definition entry_okC (A : list position) (p : position) (ph de : N) : Prop :=
  bounded ph de /\ canon ph de /\ claimC A p ph de /\ (term p <> None -> solved ph de).

Lemma entry_okC_mono A B p ph de : incl A B -> entry_okC A p ph de -> entry_okC B p ph de.
Proof.
  intros Hi (H1 & H2 & [C1 C2] & H4). split; [assumption|]. split; [assumption|]. split; [|assumption].
  split; intros X Y; eapply CL_mono; eauto.
Qed.

Definition hits (s : dstate) : N := ds_hits (dst s).
Definition anc (s : dstate) : list position := map fst (dstack s).

(* the search stack at a call mid(g): empty (the root) or ending with g; A = the strict ancestors on the stack *)
Definition frame_ok (s : dstate) (g : position) (A : list position) : Prop :=
  (dstack s = [] /\ A = []) \/ (exists pre m, dstack s = pre ++ [(g, m)] /\ A = map fst pre).

Lemma frame_incl s g A : frame_ok s g A -> incl (anc s) (g :: A).
Proof.
  unfold anc. intros [[-> ->]|(pre & m & -> & ->)]; [intros x []|].
  rewrite map_app. cbn [map fst]. intros x Hx. apply in_app_or in Hx as [Hx|[<-|[]]]; [now right|now left].
Qed.

(* ---------- checkRepetition only reports a hash that is among the strict ancestors ---------- *)
Lemma check_rep_anc s g A : frame_ok s g A -> check_repetition s = true -> exists a, In a A /\ hash_of a = hash_of g.
Proof.
  intros [[E ->]|(pre & m & E & ->)]; unfold check_repetition; rewrite E; [discriminate|].
  rewrite rev_app_distr. cbn [rev app].
  set (h := hash_of g).
  match goal with |- (?f _ 0%nat = true) -> _ => set (go := f) end.
  assert (G : forall l c, (c < 3)%nat -> go l c = true -> exists fr, In fr l /\ hash_of (fst fr) = h).
  { induction l as [|[q mq] r IH]; intros c Hc H; cbn in H; [discriminate|].
    destruct (hash_of q =? h) eqn:Eh.
    - apply N.eqb_eq in Eh. exists (q, mq). split; [now left|exact Eh].
    - destruct (Nat.eqb c 3) eqn:E3; [apply Nat.eqb_eq in E3; lia|].
      destruct (IH c Hc H) as (fr & Hin & Hfr). exists fr. split; [now right|assumption]. }
  destruct pre as [|x pre']; cbn [app]; [cbn; discriminate|].
  intros H. rewrite rev_app_distr in H. cbn [rev app] in H.
  (* the first frame examined is the current one *)
  cbn in H. fold h in H. rewrite N.eqb_refl in H. cbn in H.
  apply G in H; [|lia]. destruct H as ([q mq] & Hin & Hq). exists q. split; [|exact Hq].
  apply in_map_iff. exists (q, mq). split; [reflexivity|]. right. now apply in_rev.
Qed.

(* ---------- leaves ---------- *)
Lemma tb_basicC p r ph de : terminal_bounds aw p r = (ph, de) -> bounded ph de /\ canon ph de /\ solved ph de.
Proof.
  intros E. destruct (terminal_bounds_forms aw p r) as [F|F]; rewrite F in E; injection E as <- <-; rewrite INF_val;
    unfold bounded, canon, solved, INFv; repeat split; try lia; auto; try discriminate.
Qed.

Lemma over_entry_okC A p who ph de : game_over p = Some (true, who) -> terminal_bounds aw p who = (ph, de) -> entry_okC A p ph de.
Proof.
  intros Eg E. destruct (tb_basicC _ _ _ _ E) as (B1 & B2 & B3).
  split; [assumption|]. split; [assumption|]. split; [|intros _; assumption].
  unfold terminal_bounds in E.
  assert (Ht : (match who with GWhite => aw | GBlack => negb aw | GNone => false end) = false -> CL A p).
  { intros H. apply Lf_CL. apply Lf_term. unfold PnFacts.terminal. rewrite Eg, H. reflexivity. }
  unfold claimC, PnFacts.attp. destruct who, aw, (to_move_white p); cbn in *; injection E as <- <-; rewrite ?INF_val; unfold INFv;
    split; intros X Z; try discriminate; auto.
Qed.

Lemma rep_entry_okC A g ph de : CL A g -> terminal_bounds aw g GNone = (ph, de) -> entry_okC A g ph de.
Proof.
  intros Hcl E. destruct (tb_basicC _ _ _ _ E) as (B1 & B2 & B3).
  split; [assumption|]. split; [assumption|]. split; [|intros _; assumption]. split; intros; assumption.
Qed.

Lemma solve_moverC p r : solve p = Some r -> terminal_bounds aw p r = (0, INF).
Proof.
  unfold solve. destruct (analyze p) as [[wg bg]|]; [|discriminate].
  destruct (count_threats _ _ _ _) as [[[wp wtt] bp] btt].
  unfold terminal_bounds.
  destruct ((0 <? wp + wtt)%Z && to_move_white p) eqn:E1.
  - intros H. injection H as <-. apply andb_true_iff in E1 as [_ E1]. rewrite E1. now destruct aw.
  - destruct ((0 <? bp + btt)%Z && negb (to_move_white p)) eqn:E2; [|discriminate].
    intros H. injection H as <-. apply andb_true_iff in E2 as [_ E2]. apply negb_true_iff in E2. rewrite E2. now destruct aw.
Qed.

Lemma threat_entry_okC A p : Sp p -> term p = None -> solve p <> None -> entry_okC A p 0 INF.
Proof.
  intros Hp Htm Hs. unfold entry_okC, bounded, canon, claimC, solved.
  split; [split; [rewrite INF_val; unfold INFv; lia|lia]|]. split; [split; [auto|intros Hf; now apply INF_pos in Hf]|].
  split; [split|intros _; now left].
  - intros _ Hf. now apply INF_pos in Hf.
  - intros Ha _. destruct (threats_sound_def p Hp Htm Hs Ha) as (q & Hq & Hqt).
    apply CL_and with (B := []) (q := q); auto; [intros x []|]. apply Lf_CL. now apply Lf_term.
Qed.

Lemma miss_entry_okC A p : Sp p -> term p = None -> entry_okC A p 1 (N.of_nat (length (all_moves p)) mod 2 ^ 32).
Proof.
  intros Hp Htm.
  pose proof (all_moves_le p (S_small p Hp)) as Hle. pose proof (S_moves p Hp Htm) as Hne.
  assert (Hlt : N.of_nat (length (all_moves p)) < 2 ^ 32) by (change (2 ^ 32) with 4294967296; lia).
  rewrite (N.mod_small _ _ Hlt).
  assert (Hpos : N.of_nat (length (all_moves p)) <> 0) by (destruct (all_moves p); [now contradiction Hne|cbn; lia]).
  unfold entry_okC, bounded, canon, claimC, solved. rewrite INF_val. unfold INFv.
  repeat split; try lia; try discriminate; try contradiction.
Qed.

Lemma attp_flipC g m q : dmv g m = Ok q -> attp q = negb (attp g).
Proof.
  intros E. unfold PnFacts.attp. unfold Dfpn.dmv in E. rewrite (to_move_flip _ _ _ _ _ E).
  destruct (to_move_white g), aw; reflexivity.
Qed.

(* ---------- a node from its children ---------- *)
Definition child_okC (B : list position) (g : position) (ch : dchild) : Prop :=
  Sp (ch_g ch) /\ (exists m, In m (all_moves g) /\ dmv g m = Ok (ch_g ch)) /\
  d_hash (ch_data ch) = hash_of (ch_g ch) /\ entry_okC B (ch_g ch) (cphi ch) (cdelta ch).

Lemma node_entryC A B g cs ph de :
  term g = None -> incl B (g :: A) -> Forall (child_okC B g) cs -> complete basis g cs -> compute_pns cs = (ph, de) ->
  entry_okC A g ph de.
Proof.
  intros Ht Hi Hcs Hcomp E. rewrite compute_pns_eq in E. injection E as Eph Ede.
  rewrite Forall_forall in Hcs.
  assert (Hb : bounded ph de).
  { split; [subst ph; apply fmin_le|subst de; apply fsum_le; rewrite INF_val; unfold INFv; lia]. }
  assert (Hphi0 : ph = 0 -> exists ch, In ch cs /\ cdelta ch = 0).
  { intros H0. rewrite H0 in Eph. apply fmin_0 in Eph as [Eph|Eph]; [now apply INF_pos in Eph|assumption]. }
  assert (Hde0 : de = 0 -> forall ch, In ch cs -> cphi ch = 0).
  { intros H0. rewrite H0 in Ede. now apply fsum_0 in Ede as [_ Ede]. }
  assert (Hcanon : canon ph de).
  { split.
    - intros H0. destruct (Hphi0 H0) as (ch & Hin & Hd).
      destruct (Hcs ch Hin) as (_ & _ & _ & (Hbd & [_ Hc2] & _)).
      assert (cphi ch <= de).
      { subst de. apply fsum_ge; [rewrite INF_val; unfold INFv; lia|assumption|apply Hbd]. }
      rewrite (Hc2 Hd) in H. destruct Hb. lia.
    - intros H0. subst ph. apply fmin_all; [reflexivity|]. intros ch Hin.
      destruct (Hcs ch Hin) as (_ & _ & _ & (_ & [Hc1 _] & _)). apply Hc1. now apply Hde0. }
  split; [exact Hb|]. split; [exact Hcanon|]. split; [split|].
  - intros Ha H0. pose proof (Hde0 H0) as Hall.
    destruct Hcomp as [Hcomp|(ch & Hin & Hd)].
    + apply CL_or with (B := B); auto. intros q Hq. apply in_succs in Hq as (m & Hm & Em).
      destruct (Hcomp m q Hm Em) as (ch & Hin & <-).
      destruct (Hcs ch Hin) as (_ & _ & _ & (_ & _ & [_ C2] & _)).
      apply C2; [|now apply Hall]. rewrite (attp_flipC _ _ _ Em), Ha. reflexivity.
    + destruct (Hcs ch Hin) as (_ & _ & _ & (_ & [_ Hc2] & _)).
      rewrite (Hall ch Hin) in Hc2. specialize (Hc2 Hd). symmetry in Hc2. now apply INF_pos in Hc2.
  - intros Ha H0. destruct (Hphi0 H0) as (ch & Hin & Hd).
    destruct (Hcs ch Hin) as (_ & (m & Hm & Em) & _ & (_ & _ & [C1 _] & _)).
    apply CL_and with (B := B) (q := ch_g ch); auto. { eapply dmv_succ; eauto. }
    apply C1; [|assumption]. rewrite (attp_flipC _ _ _ Em), Ha. reflexivity.
  - intros Hn. contradiction.
Qed.

(* ---------- the entry of a freshly generated child: without a table hit it claims nothing path-dependent ---------- *)
Lemma child_entry_okC B s p s' e :
  Sp p -> child_entry aw s p = (s', e) ->
  hits s <= hits s' /\ dstack s' = dstack s /\
  (hits s' = hits s -> d_hash e = hash_of p /\ entry_okC B p (d_phi e) (d_delta e)).
Proof.
  intros Hp E. unfold child_entry in E.
  assert (Live : (forall who, game_over p <> Some (true, who)) -> child_entry_live aw s p = (s', e) ->
                 hits s <= hits s' /\ dstack s' = dstack s /\
                 (hits s' = hits s -> d_hash e = hash_of p /\ entry_okC B p (d_phi e) (d_delta e))).
  { intros Hno E'. unfold child_entry_live in E'. pose proof (term_live aw p Hno) as Htm.
    destruct (solve p) as [r|] eqn:Es.
    - rewrite (solve_moverC p r Es) in E'. injection E' as <- <-. unfold hits. cbn.
      split; [lia|]. split; [reflexivity|]. intros _. split; [reflexivity|]. apply threat_entry_okC; auto. congruence.
    - destruct (lookup s p) as [b|] eqn:El.
      + injection E' as <- <-. unfold hits. cbn. split; [lia|]. split; [reflexivity|]. intros Hf. exfalso. lia.
      + injection E' as <- <-. unfold hits. cbn. split; [lia|]. split; [reflexivity|]. intros _. split; [reflexivity|]. now apply miss_entry_okC. }
  destruct (game_over p) as [[[|] who]|] eqn:Eg.
  - destruct (terminal_bounds aw p who) as [ph de] eqn:Eb. injection E as <- <-. unfold hits. cbn.
    split; [lia|]. split; [reflexivity|]. intros _. split; [reflexivity|]. eapply over_entry_okC; eauto.
  - apply Live; [|exact E]. intros w; congruence.
  - apply Live; [|exact E]. intros w; congruence.
Qed.

(* ---------- the child loop ---------- *)
Lemma gen_children_okC B g killer : Sp g -> term g = None ->
  forall ms s acc s' cs,
    (forall m, In m ms -> In m (all_moves g)) ->
    gen_children basis aw g killer ms s acc = (s', cs) ->
    hits s <= hits s' /\ dstack s' = dstack s /\
    (hits s' = hits s -> Forall (child_okC B g) acc ->
     Forall (child_okC B g) cs /\
     (((forall q, covered acc q -> covered cs q) /\ (forall m q, In m ms -> dmv g m = Ok q -> covered cs q)) \/
      (exists ch, In ch cs /\ cdelta ch = 0))).
Proof.
  intros Hg Htg ms. induction ms as [|m r IH]; intros s acc s' cs Hms E; cbn [gen_children] in E.
  - injection E as <- <-. split; [lia|]. split; [reflexivity|]. intros _ Hacc. split; [assumption|]. left. split; [auto|intros ? ? []].
  - destruct (dmv g m) as [p| |] eqn:Em.
    + destruct (child_entry aw s p) as [s1 e] eqn:Ec.
      assert (Hp : Sp p) by (eapply S_step; eauto; apply Hms; now left).
      destruct (child_entry_okC B _ _ _ _ Hp Ec) as (Hh1 & Hd1 & Hok1).
      set (ch := {| ch_move := m; ch_g := p; ch_data := e |}) in *.
      set (acc1 := match killer with Some k => if rmove_eqb m k then swap_first_last (acc ++ [ch]) else acc ++ [ch] | None => acc ++ [ch] end) in *.
      assert (Hin1 : forall x, In x acc1 <-> In x (acc ++ [ch])).
      { intros x. unfold acc1. destruct killer as [k|]; [|tauto]. destruct (rmove_eqb m k); [apply swap_in|tauto]. }
      assert (Hacc1 : hits s1 = hits s -> Forall (child_okC B g) acc -> Forall (child_okC B g) acc1).
      { intros Hh Hacc. destruct (Hok1 Hh) as [Hhe Hoke].
        apply Forall_forall. intros x Hx. apply Hin1 in Hx. apply in_app_or in Hx as [Hx|[<-|[]]].
        - rewrite Forall_forall in Hacc. now apply Hacc.
        - unfold child_okC, cphi, cdelta, ch. cbn [ch_g ch_data ch_move]. split; [assumption|].
          split; [exists m; split; [apply Hms; now left|assumption]|]. split; assumption. }
      destruct (d_delta e =? 0) eqn:Ed.
      * injection E as <- <-. split; [assumption|]. split; [assumption|]. intros Hh Hacc. split; [now apply Hacc1|].
        right. exists ch. split; [apply Hin1; apply in_or_app; right; now left|]. apply N.eqb_eq in Ed. exact Ed.
      * apply IH in E; [|intros; apply Hms; now right].
        destruct E as (E1 & Ed2 & E2). split; [lia|]. split; [congruence|]. intros Hh Hacc.
        assert (Hh1' : hits s1 = hits s) by lia. assert (Hh2' : hits s' = hits s1) by lia.
        destruct (E2 Hh2' (Hacc1 Hh1' Hacc)) as (F1 & F2). split; [assumption|].
        destruct F2 as [[E3 E4]|E3]; [left|now right]. split.
        -- intros q (x & Hx & Hq). apply E3. exists x. split; [apply Hin1; apply in_or_app; now left|assumption].
        -- intros m' q [<-|Hm'] Eq; [|eapply E4; eauto].
           apply E3. exists ch. split; [apply Hin1; apply in_or_app; right; now left|]. cbn. congruence.
    + apply IH in E; [|intros; apply Hms; now right].
      destruct E as (E1 & Ed2 & E2). split; [assumption|]. split; [assumption|]. intros Hh Hacc.
      destruct (E2 Hh Hacc) as (F1 & F2). split; [assumption|].
      destruct F2 as [[E3 E4]|E3]; [left|now right]. split; [assumption|].
      intros m' q [<-|Hm'] Eq; [congruence|eapply E4; eauto].
    + apply IH in E; [|intros; apply Hms; now right].
      destruct E as (E1 & Ed2 & E2). split; [assumption|]. split; [assumption|]. intros Hh Hacc.
      destruct (E2 Hh Hacc) as (F1 & F2). split; [assumption|].
      destruct F2 as [[E3 E4]|E3]; [left|now right]. split; [assumption|].
      intros m' q [<-|Hm'] Eq; [congruence|eapply E4; eauto].
Qed.

(* the child loop never decreases the hit counter, whatever the position *)
Lemma child_entry_hits s p s' e : child_entry aw s p = (s', e) -> hits s <= hits s'.
Proof.
  intros Ec. unfold child_entry, child_entry_live in Ec.
  destruct (game_over p) as [[[|] who]|]; [destruct (terminal_bounds aw p who); injection Ec as <- _; unfold hits; cbn; lia| |];
    (destruct (solve p) as [r0|]; [destruct (terminal_bounds aw p r0); injection Ec as <- _; unfold hits; cbn; lia|];
     destruct (lookup s p); injection Ec as <- _; unfold hits; cbn; lia).
Qed.

Lemma gen_children_hits g killer ms : forall s acc s' cs, gen_children basis aw g killer ms s acc = (s', cs) -> hits s <= hits s'.
Proof.
  induction ms as [|m r IHm]; intros s acc s' cs E; cbn [gen_children] in E.
  - injection E as <- _. lia.
  - destruct (Dfpn.dmv basis g m) as [p| |]; try (now apply IHm in E).
    destruct (child_entry aw s p) as [sx e] eqn:Ec. apply child_entry_hits in Ec.
    destruct (d_delta e =? 0); [injection E as <- _; assumption|]. apply IHm in E. lia.
Qed.

(* ---------- mid ---------- *)
(* the hit counter never decreases; a call that leaves it unchanged returns bounds that hold relative to the strict
   ancestors of its position on the stack *)
Definition rec_okC (rec : dstate -> position -> N -> N -> dentry -> dstate * dentry * N) : Prop :=
  forall s g bphi bdelta cur s' cur' w,
    rec s g bphi bdelta cur = (s', cur', w) ->
    hits s <= hits s' /\
    (hits s' = hits s -> forall A, Sp g -> frame_ok s g A -> Forall Sp (anc s) ->
     d_hash cur = hash_of g -> entry_okC A g (d_phi cur) (d_delta cur) -> bphi <= INF -> bdelta <= INF ->
     d_hash cur' = hash_of g /\ entry_okC A g (d_phi cur') (d_delta cur')).

Lemma mid_loop_okC rec g bphi bdelta : rec_okC rec ->
  forall k s cs cur lw s' cur' w,
    mid_loop rec bphi bdelta k s cs cur lw = (s', cur', w) ->
    hits s <= hits s' /\
    (hits s' = hits s -> forall A, Sp g -> term g = None -> bphi <= INF -> bdelta <= INF ->
     incl (anc s) (g :: A) -> Forall Sp (anc s) ->
     d_hash cur = hash_of g -> Forall (child_okC (anc s) g) cs -> complete basis g cs ->
     d_hash cur' = hash_of g /\ entry_okC A g (d_phi cur') (d_delta cur')).
Proof.
  intros Hrec k. induction k as [|k IH]; intros s cs cur lw s' cur' w E; cbn [mid_loop] in E;
    destruct (compute_pns cs) as [ph de] eqn:Ecp.
  - injection E as <- <- _. split; [destruct (exceeded _ _ _ _); unfold hits; cbn; lia|].
    intros _ A Hg Htm Hb1 Hb2 Hi HSp Hh Hcs Hcomp. pose proof (node_entryC A (anc s) g cs ph de Htm Hi Hcs Hcomp Ecp) as Hnode.
    split; assumption.
  - destruct (exceeded ph de bphi bdelta) eqn:Eex.
    + injection E as <- <- _. split; [lia|].
      intros _ A Hg Htm Hb1 Hb2 Hi HSp Hh Hcs Hcomp. pose proof (node_entryC A (anc s) g cs ph de Htm Hi Hcs Hcomp Ecp) as Hnode.
      split; assumption.
    + destruct (select_child cs bphi bdelta de) as [best [cphi' cdelta']] eqn:Esel.
      destruct (nth_error cs (Z.to_nat best)) as [ch|] eqn:En.
      * match type of E with context[rec ?s1 _ _ _ _] => destruct (rec s1 (ch_g ch) cphi' cdelta' (ch_data ch)) as [[s2 ne] w2] eqn:Er; set (sp := s1) in * end.
        destruct (Hrec _ _ _ _ _ _ _ _ Er) as [Hmono Hinner].
        assert (Hsp : hits sp = hits s) by reflexivity.
        destruct (dfuel_out s2) eqn:Efo.
        -- injection E as <- <- _. split; [unfold hits in *; cbn in *; lia|].
           intros Heq A Hg Htm Hb1 Hb2 Hi HSp Hh Hcs Hcomp. pose proof (node_entryC A (anc s) g cs ph de Htm Hi Hcs Hcomp Ecp) as Hnode.
           split; assumption.
        -- apply IH in E. destruct E as [Hmono2 Hrest].
           split; [unfold hits in *; cbn in *; lia|].
           intros Heq A Hg Htm Hb1 Hb2 Hi HSp Hh Hcs Hcomp. pose proof (node_entryC A (anc s) g cs ph de Htm Hi Hcs Hcomp Ecp) as Hnode.
           assert (Hunsolved : ~ solved ph de).
           { intros Hsol. destruct Hnode as (_ & Hc & _). rewrite (solved_exceeded _ _ _ _ Hc Hsol Hb1 Hb2) in Eex. discriminate. }
           assert (Hcomp1 : forall m q, In m (all_moves g) -> dmv g m = Ok q -> covered cs q).
           { destruct Hcomp as [Hc|(x & Hx & Hd)]; [exact Hc|]. exfalso. apply Hunsolved. left.
             rewrite compute_pns_eq in Ecp. injection Ecp as Eph _. subst ph.
             apply N.le_antisymm; [|lia].
             assert (forall l a, In x l -> fold_left (fun m ch => N.min m (cdelta ch)) l a <= cdelta x) as Hm.
             { induction l as [|c r IHl]; intros a Hin; [contradiction|]. cbn. destruct Hin as [<-|Hin]; [|now apply IHl].
               pose proof (fmin_le r (N.min a (cdelta c))). lia. }
             specialize (Hm cs INF Hx). lia. }
           assert (Hchok : child_okC (anc s) g ch) by (rewrite Forall_forall in Hcs; apply Hcs; eapply nth_error_In; eauto).
           destruct Hchok as (HSc & Hmv & Hhc & Hokc).
           assert (Hthr : cphi' <= INF /\ cdelta' <= INF).
           { eapply select_child_bounds; eauto. intros c Hc. rewrite En in Hc. injection Hc as <-.
             rewrite compute_pns_eq in Ecp. injection Ecp as _ Ede. subst de.
             apply fsum_ge; [rewrite INF_val; unfold INFv; lia|eapply nth_error_In; eauto|apply Hokc]. }
           destruct Hthr as [Hthr1 Hthr2].
           assert (Heq2 : hits s2 = hits sp) by (unfold hits in *; cbn in *; lia).
           assert (Hfr : frame_ok sp (ch_g ch) (anc s)).
           { right. exists (dstack s), (ch_move ch). split; reflexivity. }
           assert (HSp2 : Forall Sp (anc sp)).
           { unfold anc, sp. cbn [dstack]. rewrite map_app. apply Forall_app. split; [exact HSp|]. constructor; [exact HSc|constructor]. }
           destruct (Hinner Heq2 (anc s) HSc Hfr HSp2 Hhc Hokc Hthr1 Hthr2) as (Hh2 & Hok2).
           apply Hrest; auto.
           ++ unfold hits in *; cbn in *; lia.
           ++ apply Forall_forall. intros x Hx. apply set_child_spec in Hx as [Hx|(c & Hc & ->)].
              ** rewrite Forall_forall in Hcs. now apply Hcs.
              ** rewrite En in Hc. injection Hc as <-. unfold child_okC, cphi, cdelta. cbn [ch_g ch_data ch_move].
                 split; [assumption|]. split; [assumption|]. split; [assumption|]. exact Hok2.
           ++ left. intros m q Hm Eq. apply set_child_covered. eapply Hcomp1; eauto.
      * injection E as <- <- _. split; [lia|].
        intros _ A Hg Htm Hb1 Hb2 Hi HSp Hh Hcs Hcomp. pose proof (node_entryC A (anc s) g cs ph de Htm Hi Hcs Hcomp Ecp) as Hnode.
        split; assumption.
Qed.

Lemma store_hits s e : hits (store s e) = hits s.
Proof. unfold store, hits. destruct (dtable s); [reflexivity|]. destruct (_ <=? _); reflexivity. Qed.

Lemma cond_store_hits (c : bool) s e : hits (if c then store s e else s) = hits s.
Proof. destruct c; [apply store_hits|reflexivity]. Qed.

Lemma mid_okC lfuel : forall fuel, rec_okC (mid basis aw lfuel fuel).
Proof.
  induction fuel as [|f IH]; intros s g bphi bdelta cur s' cur' w E; cbn [mid] in E.
  - injection E as <- <- _. split; [unfold hits; cbn; lia|]. intros _ A Hg Hfr HSp Hh Hok _ _. split; assumption.
  - destruct (exceeded (d_phi cur) (d_delta cur) bphi bdelta) eqn:Eex.
    { injection E as <- <- _. split; [lia|]. intros _ A Hg Hfr HSp Hh Hok _ _. split; assumption. }
    destruct (check_repetition s) eqn:Erep.
    + destruct (terminal_bounds aw g GNone) as [ph de] eqn:Eb. injection E as <- <- _.
      split; [unfold hits; cbn; lia|]. intros _ A Hg Hfr HSp Hh Hok _ _. cbn [set_bounds d_hash d_phi d_delta].
      split; [exact Hh|]. apply rep_entry_okC; [|exact Eb].
      destruct (check_rep_anc s g A Hfr Erep) as (a & Ha & Hha).
      apply CL_rep with (a := a); auto.
      rewrite Forall_forall in HSp. apply HSp. apply (frame_incl s g A Hfr) in Ha || idtac.
      destruct Hfr as [[_ ->]|(pre & m & Es & ->)]; [contradiction|].
      unfold anc. rewrite Es, map_app. apply in_or_app. now left.
    + destruct (gen_children basis aw g _ (all_moves g) s []) as [s1 cs] eqn:Egen.
      destruct (mid_loop (mid basis aw lfuel f) bphi bdelta lfuel s1 cs cur 1) as [[s2 cur2] w2] eqn:El.
      injection E as <- <- _.
      apply (mid_loop_okC _ g _ _ IH) in El. destruct El as [Hmono2 Hrest].
      split.
      { rewrite cond_store_hits.
        pose proof (gen_children_hits _ _ _ _ _ _ _ Egen) as Hgh.
        destruct (d_phi cur2 =? 0); unfold hits in *; cbn in *; lia. }
      intros Heq A Hg Hfr HSp Hh Hok Hb1 Hb2.
      assert (Htm : term g = None).
      { destruct (term g) eqn:Et; [|reflexivity]. exfalso. destruct Hok as (_ & Hc & _ & Hs).
        assert (Hne : term g <> None) by (rewrite Et; discriminate).
        pose proof (solved_exceeded _ _ _ _ Hc (Hs Hne) Hb1 Hb2) as Hx. congruence. }
      destruct (gen_children_okC (anc s) g _ Hg Htm _ _ _ _ _ (fun m H => H) Egen) as (Hg1 & Hd1 & Hgen).
      assert (Hs2 : hits s2 = hits s1 /\ hits s1 = hits s).
      { rewrite cond_store_hits in Heq. destruct (d_phi cur2 =? 0); unfold hits in *; cbn in *; lia. }
      destruct Hs2 as [Hs2 Hs1].
      destruct (Hgen Hs1 (Forall_nil _)) as (Hcs & Hcov).
      assert (Hcomp : complete basis g cs).
      { destruct Hcov as [[_ Hc]|Hc]; [left|now right]. intros m q Hm Eq. apply (Hc m q Hm Eq). }
      assert (Ea : anc s1 = anc s) by (unfold anc; now rewrite Hd1).
      rewrite <- Ea in Hcs.
      apply (Hrest Hs2 A Hg Htm Hb1 Hb2); auto.
      * rewrite Ea. now apply frame_incl.
      * now rewrite Ea.
Qed.

(* ---------- Prove ---------- *)
Lemma result_disprovenC g e : entry_okC [] g (d_phi e) (d_delta e) -> result_of aw g e = 2 -> forall n, wnp n g = false.
Proof.
  intros (_ & Hc & [C1 C2] & _) Hr. apply CL_nil. unfold result_of in Hr. unfold PnFacts.attp in *.
  destruct (Bool.eqb aw (to_move_white g)) eqn:Ea.
  - apply eqb_prop in Ea. destruct (d_phi e =? 0) eqn:Ep; [discriminate|]. destruct (d_delta e =? 0) eqn:Ed; [|discriminate].
    apply C1; [rewrite Ea; now destruct (to_move_white g)|now apply N.eqb_eq].
  - apply eqb_false_iff in Ea. destruct (d_delta e =? 0) eqn:Ed; [discriminate|]. destruct (d_phi e =? 0) eqn:Ep; [|discriminate].
    apply C2; [destruct aw, (to_move_white g); auto; now contradiction Ea|now apply N.eqb_eq].
Qed.

(* Prove() on a solver in ANY state (table and killers from earlier calls, stack reset by the caller) that took no bound from
   the table (hit counter unchanged) reports `disproven` only where the attacker has no forced win - repetitions or not *)
Theorem dfpn_disproven_sound_nohit_from lfuel dfuel s0 g s e w :
  Sp g -> dstack s0 = [] -> prove_from basis aw lfuel dfuel s0 g = (s, e, w) ->
  ds_hits (dst s) = ds_hits (dst s0) -> result_of aw g e = 2 ->
  forall n, wnp n g = false.
Proof.
  intros Hg Hst E Hhit Hr. unfold prove_from in E.
  assert (Hok : entry_okC [] g (d_phi e) (d_delta e)).
  { assert (Hlive : (forall who, game_over g <> Some (true, who)) ->
                    mid basis aw lfuel dfuel s0 g (INF / 2) (INF / 2)
                        {| d_phi := 1; d_delta := 1; d_hash := hash_of g; d_work := 0; d_pv := move0 |} = (s, e, w) ->
                    entry_okC [] g (d_phi e) (d_delta e)).
    { intros Hno E'. destruct (mid_okC lfuel dfuel _ _ _ _ _ _ _ _ E') as [_ H].
      assert (Htm : term g = None) by (apply term_live; exact Hno).
      destruct (H Hhit [] Hg) as (_ & H'); auto.
      - left. split; [assumption|reflexivity].
      - unfold anc. rewrite Hst. constructor.
      - cbn [d_phi d_delta]. unfold entry_okC, bounded, canon, claimC, solved. rewrite INF_val. unfold INFv.
        repeat split; try lia; try discriminate. intros Hf. now rewrite Htm in Hf.
      - rewrite INF_val. unfold INFv. cbn. lia.
      - rewrite INF_val. unfold INFv. cbn. lia. }
    destruct (game_over g) as [[[|] who]|] eqn:Eg.
    - destruct (terminal_bounds aw g who) as [ph de] eqn:Eb. injection E as _ <- _. cbn [d_phi d_delta]. eapply over_entry_okC; eauto.
    - apply Hlive; [|exact E]. intros w'; congruence.
    - apply Hlive; [|exact E]. intros w'; congruence. }
  exact (result_disprovenC g e Hok Hr).
Qed.

(* a fresh solver *)
Theorem dfpn_disproven_sound_nohit lfuel dfuel entries g s e w :
  Sp g -> prove basis aw lfuel dfuel entries g = (s, e, w) -> ds_hits (dst s) = 0 -> result_of aw g e = 2 ->
  forall n, wnp n g = false.
Proof.
  intros Hg E Hh Hr. unfold prove in E.
  apply (dfpn_disproven_sound_nohit_from lfuel dfuel (dstate0 entries) g s e w Hg eq_refl E); [|exact Hr]. rewrite Hh. reflexivity.
Qed.
End DfpnRep.
Print Assumptions dfpn_disproven_sound_nohit_from.
Print Assumptions dfpn_disproven_sound_nohit.
