(* SearchTable6.v: the table clause for the positions of ONE game, with the syntactic NoCollision.
   PnCong1/3 (worker prove3-cong): inside one game (PnCong3.cinv: established by tak.New, preserved by every accepted move) Position.Equal
   (Pn.pos_equal) implies `sim` - the two records differ in the ply counter only, same parity, same side of the opening - and Move,
   GameOver, AllMoves cannot tell `sim` positions apart.  Here: the forced-result classification W / L of SearchTable1 is invariant under
   `sim` (sim_cls), hence the semantic NoCollision of touch_set follows from "equal Position.Hash on the touched set implies
   Position.Equal" (game_touch).  The terminal SCORES do depend on the ply counter, which is why the max_terminal_ply side condition
   stays with every call (ask_game) and is not part of the collision hypothesis. *)
From Coq Require Import NArith ZArith List Bool Lia.
Require Import Board Move GameOver Eval EvalSpec Refine Alloc Preserve1 Reach1 Pn PnFacts PnCong1 PnCong3.
Require Import Search NegamaxSpec SearchGen SearchExact SearchInst SearchLegal2 SearchNeg2 SearchNeg3 SearchNeg5.
Require Import SearchTable1 SearchTable3 SearchTable4 SearchTable5.
Require Import Generated.Consts.
Import ListNotations.
Open Scope Z_scope.

Section SimCls.
Variable basis : list N.

Lemma sim_children q p : sim q p -> Forall2 sim (children basis q) (children basis p).
Proof.
  intros H. unfold children. rewrite (sim_all_moves q p H).
  induction (all_moves p) as [|m r IH]; cbn [flat_map]; [constructor|].
  pose proof (sim_mv (hash_sq basis) true q p m H) as Hm. unfold mvp.
  destruct (move_prealloc (hash_sq basis) true q m), (move_prealloc (hash_sq basis) true p m); try contradiction; cbn [app]; auto.
Qed.
Lemma sim_is_over q p : sim q p -> is_over q = is_over p.
Proof. intros H. unfold is_over. rewrite (sim_game_over q p H). reflexivity. Qed.
Lemma sim_won q p : sim q p -> (won q <-> won p).
Proof.
  intros H. unfold won, mover_wins. rewrite (sim_game_over q p H), (sim_to_move q p H). reflexivity.
Qed.
Lemma sim_lost q p : sim q p -> (lost q <-> lost p).
Proof.
  intros H. unfold lost, mover_wins. rewrite (sim_game_over q p H), (sim_to_move q p H). reflexivity.
Qed.
Lemma Forall2_in_l {A} (R : A -> A -> Prop) l1 l2 a : Forall2 R l1 l2 -> In a l1 -> exists b, In b l2 /\ R a b.
Proof.
  induction 1 as [|x y l1 l2 Hxy _ IH]; intros Ha; [destruct Ha|]. destruct Ha as [<-|Ha].
  - exists y. split; [left; reflexivity|exact Hxy].
  - destruct (IH Ha) as (b & Hb & Hr). exists b. split; [right; exact Hb|exact Hr].
Qed.
Lemma Forall2_in_r {A} (R : A -> A -> Prop) l1 l2 b : Forall2 R l1 l2 -> In b l2 -> exists a, In a l1 /\ R a b.
Proof.
  induction 1 as [|x y l1 l2 Hxy _ IH]; intros Hb; [destruct Hb|]. destruct Hb as [<-|Hb].
  - exists x. split; [left; reflexivity|exact Hxy].
  - destruct (IH Hb) as (a & Ha & Hr). exists a. split; [right; exact Ha|exact Hr].
Qed.
Lemma Forall2_nil_iff {A} (R : A -> A -> Prop) l1 l2 : Forall2 R l1 l2 -> (l1 <> [] <-> l2 <> []).
Proof. intros H. destruct H; split; intros F; try (exfalso; apply F; reflexivity); discriminate. Qed.

Lemma sim_WL : forall n q p, sim q p -> (W basis n q <-> W basis n p) /\ (L basis n q <-> L basis n p).
Proof.
  induction n; intros q p H; pose proof (sim_is_over q p H) as EO; destruct (is_over p) eqn:EP.
  - rewrite (W_over basis 0 q EO), (W_over basis 0 p EP), (L_over basis 0 q EO), (L_over basis 0 p EP).
    split; [apply sim_won; exact H|apply sim_lost; exact H].
  - split; split; intros F.
    + destruct (W_live0 basis q EO F).
    + destruct (W_live0 basis p EP F).
    + destruct (L_live0 basis q EO F).
    + destruct (L_live0 basis p EP F).
  - rewrite (W_over basis (S n) q EO), (W_over basis (S n) p EP), (L_over basis (S n) q EO), (L_over basis (S n) p EP).
    split; [apply sim_won; exact H|apply sim_lost; exact H].
  - pose proof (sim_children q p H) as FC.
    rewrite (W_liveS basis n q EO), (W_liveS basis n p EP), (L_liveS basis n q EO), (L_liveS basis n p EP).
    split; split.
    + intros (c & Hc & HL). destruct (Forall2_in_l sim _ _ c FC Hc) as (c' & Hc' & S). exists c'. split; [exact Hc'|].
      apply (proj2 (IHn c c' S)). exact HL.
    + intros (c & Hc & HL). destruct (Forall2_in_r sim _ _ c FC Hc) as (c' & Hc' & S). exists c'. split; [exact Hc'|].
      apply (proj2 (IHn c' c S)). exact HL.
    + intros (NE & HA). split; [apply (Forall2_nil_iff sim _ _ FC); exact NE|]. intros c Hc.
      destruct (Forall2_in_r sim _ _ c FC Hc) as (c' & Hc' & S). apply (proj1 (IHn c' c S)). apply HA. exact Hc'.
    + intros (NE & HA). split; [apply (Forall2_nil_iff sim _ _ FC); exact NE|]. intros c Hc.
      destruct (Forall2_in_l sim _ _ c FC Hc) as (c' & Hc' & S). apply (proj1 (IHn c c' S)). apply HA. exact Hc'.
Qed.
Theorem sim_cls q p : sim q p -> cls_eq basis q p.
Proof. intros H n. apply sim_WL. exact H. Qed.
End SimCls.

(* ---- one game ---- *)
Section Game.
Variables (sz : N) (bwt : bool) (stones caps : N).
Hypothesis Hsz : (3 <= sz <= 8)%N.
Hypothesis Hst : (0 < stones)%N.
Hypothesis Hsum : (2 * (stones + caps) <= 64)%N.

(* a position of the game: replayed from tak.New through accepted moves *)
Definition in_game (p : position) : Prop := exists ms, replay (new_pos sz bwt stones caps) ms = Ok p.

(* the touched set of positions of this game; its only hash hypothesis: equal Position.Hash implies Position.Equal *)
Definition game_set (U : nat -> position -> Prop) : Prop :=
  (forall d p, U (S d) p -> U d p) /\
  (forall d p q, U (S d) p -> is_over p = false -> In q (children gen_basis p) -> U d q) /\
  (forall p, U 0%nat p -> in_game p) /\
  (forall p q, U 0%nat p -> U 0%nat q -> phash p = phash q -> pos_equal p q = true).

Lemma in_game_cinv p : in_game p -> cinv (stones, caps, stones, caps) bwt p.
Proof. intros (ms & R). apply (reachable_cinv sz bwt stones caps ms p Hsz Hsum R). Qed.

Lemma in_game_base p : in_game p -> base_ok p /\ (total p <= 64)%N.
Proof.
  intros (ms & R).
  pose proof (base_ok_new sz bwt stones caps Hsz ltac:(lia) ltac:(lia) ltac:(lia)) as B0.
  destruct (Reach1.new_ok sz bwt stones caps ltac:(lia) ltac:(lia) ltac:(lia)) as (_ & _ & T0).
  destruct (base_ok_replay ms _ p B0 ltac:(rewrite T0; lia) R) as (Hb & _ & _ & Et).
  split; [exact Hb|rewrite Et, T0; lia].
Qed.

Theorem game_touch U : game_set U -> touch_set U.
Proof.
  intros (G1 & G2 & G3 & G4). unfold touch_set. split; [exact G1|]. split; [exact G2|].
  intros p q Hp Hq E. apply sim_cls.
  apply (cinv_equal_sim (stones, caps, stones, caps) bwt p q (in_game_cinv p (G3 p Hp)) (in_game_cinv q (G3 q Hq))).
  apply G4; assumption.
Qed.

(* the tree below a position of the game is a touched set of the game as soon as no two of its positions share a hash *)
Lemma in_game_child p q : in_game p -> In q (children gen_basis p) -> in_game q.
Proof.
  intros (ms & R) Hq. apply in_children in Hq. destruct Hq as (m & _ & E). exists (ms ++ [m]).
  rewrite replay_app, R. cbn [replay]. pose proof (mvp_mv p m) as X. rewrite E in X. rewrite <- X. reflexivity.
Qed.
Lemma lev_in_game root : in_game root -> forall j p, In p (lev root j) -> in_game p.
Proof.
  intros HR. induction j; intros p Hp; cbn [lev] in Hp.
  - destruct Hp as [<-|[]]. exact HR.
  - apply in_app_or in Hp. destruct Hp as [Hp|Hp]; [apply IHj; exact Hp|].
    unfold expand in Hp. apply in_flat_map in Hp. destruct Hp as (p0 & H0 & Hp).
    destruct (is_over p0); [destruct Hp|]. apply (in_game_child p0 p (IHj p0 H0) Hp).
Qed.
Lemma forallb_combine_refl (l : list N) : forallb (fun ab => (fst ab =? snd ab)%N) (combine l l) = true.
Proof. induction l; cbn [combine forallb fst snd]; [reflexivity|]. rewrite N.eqb_refl, IHl. reflexivity. Qed.
Lemma pos_equal_refl p : pos_equal p p = true.
Proof. unfold pos_equal. rewrite !N.eqb_refl, eqb_reflx, !forallb_combine_refl. reflexivity. Qed.

Theorem game_levels root D : in_game root -> coll_free (lev root D) = true -> game_set (Ulev root D).
Proof.
  intros HR CF. destruct (touch_levels root D CF) as (T1 & T2 & _). unfold game_set. split; [exact T1|]. split; [exact T2|]. split.
  - intros p (_ & Hp). apply (lev_in_game root HR _ p Hp).
  - intros p q (_ & Hp) (_ & Hq) E. replace (D - 0)%nat with D in * by lia.
    pose proof (coll_free_g_ok phash (lev root D) CF p q Hp Hq E) as EQ. subst q. apply pos_equal_refl.
Qed.

(* what is asked of one call: the ply limit of C18 for the configured depth, a live position, the model's fuel, membership in U *)
Definition ask_game (cfg : config) (U : nat -> position -> Prop) (p : position) : Prop :=
  move p + Z.max 0 (c_depth cfg) <= max_terminal_ply /\ is_over p = false /\ c_depth cfg < 40 /\
  (forall d, Z.of_nat d <= Z.max 0 (c_depth cfg) -> U d p).

Lemma ask_game_ok cfg U p : game_set U -> ask_game cfg U p -> ask_ok cfg U p.
Proof.
  intros (_ & _ & G3 & _) (A & B & C & D). assert (U0 : U 0%nat p) by (apply D; lia).
  destruct (in_game_base p (G3 p U0)) as (Hb & Ht). unfold ask_ok. auto 7.
Qed.

Section WithU.
Variable U : nat -> position -> Prop.
Hypothesis HU : game_set U.

Inductive engine_game : sstate -> Prop :=
| engg_new n : engine_game (new_state n)
| engg_call s cfg k p sk r : engine_game s -> precise cfg -> builtin_eval cfg -> ask_game cfg U p ->
    analyze_cancel gen_basis cfg k s p = (sk, r) -> engine_game sk.

Lemma engine_game_inst s : engine_game s -> engine_inst U s.
Proof.
  induction 1 as [n|s cfg k p sk r _ IH HP HE HA HR]; [apply engi_new|].
  apply (engi_call U s cfg k p sk r IH HP HE (ask_game_ok cfg U p HU HA) HR).
Qed.

Theorem analyze_table_verdict_game : forall s cfg k p sk pv v d acc c, engine_game s -> precise cfg -> builtin_eval cfg -> ask_game cfg U p ->
  analyze_cancel gen_basis cfg k s p = (sk, (pv, v, d, acc, c)) -> 0 < d -> verdict_ok gen_basis p v d.
Proof.
  intros s cfg k p sk pv v d acc c HS HP HE HA HR Hd.
  exact (analyze_table_verdict_inst U (game_touch U HU) s cfg k p sk pv v d acc c (engine_game_inst s HS) HP HE (ask_game_ok cfg U p HU HA) HR Hd).
Qed.

Theorem cancel_preserves_engine_game : forall s cfg k p sk r, engine_game s -> precise cfg -> builtin_eval cfg -> ask_game cfg U p ->
  analyze_cancel gen_basis cfg k s p = (sk, r) ->
  engine_game sk /\ SJ sk /\ tt_valid gen_basis (PosT U 0%nat) sk /\
  forall cfg' k' p' sk' pv v d acc c, precise cfg' -> builtin_eval cfg' -> ask_game cfg' U p' ->
    analyze_cancel gen_basis cfg' k' sk p' = (sk', (pv, v, d, acc, c)) -> 0 < d -> verdict_ok gen_basis p' v d.
Proof.
  intros s cfg k p sk r HS HP HE HA HR.
  assert (E' : engine_game sk) by (exact (engg_call s cfg k p sk r HS HP HE HA HR)).
  split; [exact E'|].
  destruct (cancel_preserves_engine_inst U (game_touch U HU) s cfg k p sk r (engine_game_inst s HS) HP HE (ask_game_ok cfg U p HU HA) HR)
    as (_ & A & B & _).
  split; [exact A|]. split; [exact B|].
  intros cfg' k' p' sk' pv v d acc c HP' HE' HA' HR' Hd.
  exact (analyze_table_verdict_game sk cfg' k' p' sk' pv v d acc c E' HP' HE' HA' HR' Hd).
Qed.
End WithU.
End Game.
