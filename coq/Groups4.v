From Coq Require Import NArith ZArith List Bool Lia ZifyN ZifyBool ZifyNat.
Require Import Board Flood Masks LowBit Conn Move GameOver Groups1 Groups2 Groups3.
Import ListNotations.
Open Scope N_scope.

Lemma land_nonzero a b : negb (N.land a b =? 0) = true <-> exists i, N.testbit a i = true /\ N.testbit b i = true.
Proof.
  split.
  - intros H. apply negb_true_iff, N.eqb_neq in H. exists (N.log2 (N.land a b)).
    assert (Hb := N.bit_log2 _ H). rewrite N.land_spec in Hb. now apply andb_prop in Hb.
  - intros (i & Ha & Hb). apply negb_true_iff, N.eqb_neq. intros Z.
    assert (H : N.testbit (N.land a b) i = true) by (now rewrite N.land_spec, Ha, Hb). rewrite Z, N.bits_0 in H. discriminate.
Qed.

Section G4.
Variable s : N.
Hypothesis Hs : 3 <= s <= 8.
Let c := precompute s.
Variable B : N.
Hypothesis HB : forall i, N.testbit B i = true -> i < s * s.
Notation conn := (conn s B).

(* two squares on opposite edges *)
Definition opp (a b : N) : Prop :=
  (N.testbit (cT c) a = true /\ N.testbit (cB c) b = true) \/ (N.testbit (cL c) a = true /\ N.testbit (cR c) b = true).

Lemma opp_distinct a b : a < s * s -> b < s * s -> opp a b -> a <> b.
Proof.
  intros Ha Hb H E. subst b.
  destruct (precompute_masks s a Hs ltac:(nia)) as (ER & EL & EB & ET & _). fold c in ER, EL, EB, ET.
  destruct H as [[H1 H2]|[H1 H2]].
  - rewrite ET in H1. rewrite EB in H2. nia.
  - rewrite EL in H1. rewrite ER in H2.
    apply andb_prop in H1 as [_ H1]. apply andb_prop in H2 as [_ H2].
    apply N.eqb_eq in H1, H2. lia.
Qed.

Theorem spans_iff : exists gs, groups c B = Some gs /\
  (existsb (spans c) gs = true <-> exists a b, conn a b /\ opp a b).
Proof.
  destruct (groups_spec s Hs B HB) as (gs & Hg & Hsound & Hcomplete). fold c in Hg.
  exists gs. split; [exact Hg|]. rewrite existsb_exists. split.
  - intros (g & Hin & Hsp). destruct (Hsound g Hin) as (a0 & Ha0 & Hgi & _).
    unfold spans in Hsp. apply orb_prop in Hsp as [H|H]; apply andb_prop in H as [H1 H2];
      apply land_nonzero in H1 as (t & Ht & HtE); apply land_nonzero in H2 as (b & Hb & HbE);
      exists t, b; (split; [eapply conn_trans; [apply conn_sym; auto; apply Hgi; exact Ht|apply Hgi; exact Hb]|]).
    + left; auto.
    + right; auto.
  - intros (a & b & Hc & Ho).
    destruct (conn_in_B s Hs B HB a b Hc) as [HaB HbB].
    assert (Hne : b <> a) by (intros E; symmetry in E; revert E; apply opp_distinct; auto).
    destruct (Hcomplete a HaB (ex_intro _ b (conj Hne Hc))) as (g & Hin & Hgi).
    exists g. split; [exact Hin|]. unfold spans.
    assert (Hga : N.testbit g a = true) by (apply Hgi, conn_refl; assumption).
    assert (Hgb : N.testbit g b = true) by (apply Hgi; assumption).
    destruct Ho as [[H1 H2]|[H1 H2]].
    + apply orb_true_intro. left. apply andb_true_intro. split; apply land_nonzero; eauto.
    + apply orb_true_intro. right. apply andb_true_intro. split; apply land_nonzero; eauto.
Qed.
End G4.
Print Assumptions spans_iff.
