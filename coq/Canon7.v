(* C15, layer 7: two runs of Canonical whose inputs are, move by move, images of each other produce the same boards - hence
   canonical_class_invariant (the eight images of a game have the same canonical form) and canonical_idempotent.
   Generic in the board invariant BI as Canon3.v, with one more property of BI: boards showing the same position have the same hash. *)
From Coq Require Import NArith ZArith Arith List Bool Lia ZifyN ZifyBool ZifyNat.
Require Import Rules Sym SymRules1 SymRules2 SymRules3 SymRules4.
Require Import Board Stack Move GameOver Tps Symmetry CanonFacts Refine SymCode1 Canon1 Canon2 Canon2b Canon3 Canon6.
Require Import Generated.Consts.
Import ListNotations.
Close Scope Z_scope. Close Scope N_scope.

Lemma ok_inj1 {A} (a b : A) : Ok a = Ok b -> a = b.
Proof. now inversion 1. Qed.

(* ---------- rules level: replaying the image of a game gives the image ---------- *)
Lemma play_none l : fold_left (fun o m => match o with Some q => rules_move q m | None => None end) l None = None.
Proof. induction l; cbn; auto. Qed.

Lemma play_cons p m l : play p (m :: l) = match rules_move p m with Some q => play q l | None => None end.
Proof. unfold play. cbn [fold_left]. destruct (rules_move p m); [reflexivity|apply play_none]. Qed.

Lemma play_equivariant g : g < 8 -> forall ms P, well_shaped P ->
  play (img g P) (map raw (map (tmr g (Rules.n P)) ms)) = option_map (img g) (play P (map raw ms)).
Proof.
  intros Hg. induction ms as [|m ms IH]; intros P HP; [reflexivity|].
  cbn [map]. rewrite !play_cons. rewrite raw_tmr, (rules_equivariant g P (raw m) Hg HP).
  destruct (rules_move P (raw m)) as [Q|] eqn:E; [|reflexivity]. cbn [option_map].
  destruct (rules_move_shape _ _ _ E) as [En _]. rewrite <- En. apply IH. now apply (rules_move_well_shaped P (raw m)).
Qed.

(* ---------- two symmetries onto the same board differ by an element of its stabiliser ---------- *)
Lemma stab_link j1 x B A : j1 < 8 -> x < 8 -> well_shaped B -> A = img j1 B -> A = img x B ->
  comp j1 (inv x) < 8 /\ img (comp j1 (inv x)) A = A /\ forall m, tmr (comp j1 (inv x)) (Rules.n B) (tmr x (Rules.n B) m) = tmr j1 (Rules.n B) m.
Proof.
  intros Hj Hx HB E1 E2. assert (Hix := inv_lt x Hx). assert (Hh := comp_lt j1 (inv x) Hj Hix).
  assert (Ealg : comp (comp j1 (inv x)) x = j1) by (rewrite comp_assoc, comp_inv_l, comp_0_r by assumption; reflexivity).
  split; [exact Hh|]. split.
  - rewrite E2 at 1. rewrite img_comp by (try assumption; apply HB). now rewrite Ealg, E1.
  - intros m. rewrite tmr_comp by assumption. now rewrite Ealg.
Qed.

Section Sim.
Variable sz : N.
Hypothesis Hsz : (3 <= sz <= 8)%N.
Local Notation s := (N.to_nat sz).
Local Notation d := (cstate0 sz).
Variable BI SC : position -> Prop.
Hypothesis BI_move : forall p m q, BI p -> cmv p m = Ok q -> SC q -> rules_move (abs p) (raw m) = Some (abs q) /\ BI q.
Hypothesis BI_new : BI (new_pos gen_basis sz).
Hypothesis BI_hash : forall p q, BI p -> BI q -> abs p = abs q -> hash_of p = hash_of q.

Lemma Hs7 : size_ok s.
Proof. unfold size_ok. lia. Qed.

Lemma tfn_transform tfn j m : agree sz tfn j -> j < 8 -> inrange 20 m -> movelike m -> transform_move tfn m = Ok (tmr j s m).
Proof.
  intros Hag Hj Hr Hml. assert (Hs := Hs7). rewrite (transform_move_ext tfn (csym s j)).
  - apply transform_move_tm; try assumption. apply transformable_of; [|assumption]. destruct Hr; split; lia.
  - intros x y Hx Hy. rewrite Hag by assumption. symmetry. apply csym_sym; try assumption; lia.
  - destruct Hr; split; lia.
Qed.

(* one step of two runs on the same boards whose moves, in canonical coordinates, differ by an element of the stabiliser *)
Lemma cstep_sim done1 boards rots1 tfn1 rots2 tfn2 m m' m1' h st1 :
  cinv sz BI done1 (boards, rots1, tfn1) -> nocoll_state sz (boards, rots1, tfn1) ->
  transform_move tfn1 m = Ok (tmr h s m1') -> transform_move tfn2 m' = Ok m1' ->
  inrange 27 m1' -> movelike m1' -> tmr 0 s m1' = m1' ->
  h < 8 -> img h (A_of sz boards) = A_of sz boards ->
  cstep sz (Ok (boards, rots1, tfn1)) m = Ok st1 ->
  exists rots2' tfn2', cstep sz (Ok (boards, rots2, tfn2)) m' = Ok (fst (fst st1), rots2', tfn2').
Proof.
  intros [Hlen Hbi _ Himg (j & B & Hj & _ & _ & _ & HwB & HnB & HA) _ _] Hnc E1 E2 Hr Hml Hnorm Hh Hfix Hstep.
  unfold nocoll_state in Hnc. cbn [fst snd] in *. assert (Hs := Hs7).
  set (A := A_of sz boards) in *.
  assert (HwA : well_shaped A) by (rewrite HA; now apply img_well_shaped).
  assert (HsA : size_ok (Rules.n A)) by (rewrite HA; cbn [img Rules.n]; rewrite HnB; exact Hs).
  unfold cstep in *. rewrite <- (N_nat_Z sz) in *. fold s in Hstep |- *. rewrite E1 in Hstep. rewrite E2.
  set (L := combine (seq 0 8) boards) in *. set (h0 := hash_of (cp (hd (cstate0 sz) boards))) in *.
  assert (HL : forall ib, In ib L -> fst ib < 8).
  { intros [i b] Hin. apply (in_combine_seq d) in Hin. cbn [fst]. lia. }
  set (m1 := tmr h s m1') in *.
  assert (Hm1't : transformable m1') by (apply transformable_of; [destruct Hr; split; lia|assumption]).
  assert (Hm1t : transformable m1).
  { apply transformable_of; [|now apply tmr_movelike]. destruct (tmr_inrange h s m1' 27 Hh Hs ltac:(lia) Hr). unfold m1. split; lia. }
  assert (Hnorm1 : tmr 0 s m1 = m1) by (unfold m1; now apply tmr_0_tmr).
  destruct (cand_fold_min s Hs h0 m1 Hm1t L m1 None HL) as (best1 & rot1 & Ef1 & Hc1 & Hle1 & Hmin1). rewrite Ef1 in Hstep.
  destruct (cand_fold_min s Hs h0 m1' Hm1't L m1' None HL) as (best2 & rot2 & Ef2 & Hc2 & Hle2 & Hmin2). rewrite Ef2.
  (* candidates = images under the stabiliser of board 0 *)
  assert (Hin : forall i, i < 8 -> In (nth i boards d) boards) by (intros i Hi; apply nth_In; lia).
  assert (St_of_cand : forall x0 x, is_cand s h0 x0 L x -> exists i, i < 8 /\ img i A = A /\ x = tmr i s x0).
  { intros x0 x (i & b & Hib & Hn0 & Hhash & ->). apply (in_combine_seq d) in Hib. destruct Hib as [Hi Eb]. rewrite Nat.sub_0_r in Eb.
    exists i. split; [lia|]. split; [|reflexivity]. rewrite <- (Himg i ltac:(lia)), Eb. apply Hnc; [rewrite <- Eb; apply Hin; lia|exact Hhash]. }
  assert (cand_of_St : forall x0 i, i < 8 -> i <> 0 -> img i A = A -> is_cand s h0 x0 L (tmr i s x0)).
  { intros x0 i Hi Hn0 Hst. exists i, (nth i boards d). split; [|split; [exact Hn0|split; [|reflexivity]]].
    - assert (E := nth_combine_seq d boards 0 8 i Hi ltac:(lia)). cbn [plus] in E. rewrite <- E. apply nth_In.
      unfold L. rewrite combine_seq_length; [lia|exact Hlen].
    - unfold h0. apply BI_hash; [apply Hbi, Hin; lia|apply Hbi; rewrite hd_nth0; apply Hin; lia|].
      rewrite (Himg i Hi), Hst. reflexivity. }
  assert (Hall1 : forall i, i < 8 -> img i A = A -> prefer_move (tmr i s m1) best1 = false).
  { intros i Hi Hst. destruct (Nat.eq_dec i 0) as [->|Hn0]; [rewrite Hnorm1; exact Hle1|]. apply Hmin1. now apply cand_of_St. }
  assert (Hall2 : forall i, i < 8 -> img i A = A -> prefer_move (tmr i s m1') best2 = false).
  { intros i Hi Hst. destruct (Nat.eq_dec i 0) as [->|Hn0]; [rewrite Hnorm; exact Hle2|]. apply Hmin2. now apply cand_of_St. }
  assert (Hb1 : exists a, a < 8 /\ img a A = A /\ best1 = tmr a s m1).
  { destruct Hc1 as [[-> _]|[Hc _]]; [exists 0; split; [lia|split; [now apply img_id|now rewrite Hnorm1]]|now apply St_of_cand]. }
  assert (Hb2 : exists b, b < 8 /\ img b A = A /\ best2 = tmr b s m1').
  { destruct Hc2 as [[-> _]|[Hc _]]; [exists 0; split; [lia|split; [now apply img_id|now rewrite Hnorm]]|now apply St_of_cand]. }
  destruct Hb1 as (a & Ha & Sa & Eb1). destruct Hb2 as (b & Hb & Sb & Eb2).
  assert (Ebest : best1 = best2).
  { assert (Eb1' : best1 = tmr (comp a h) s m1') by (rewrite Eb1; unfold m1; now apply tmr_comp).
    assert (Sah : img (comp a h) A = A) by (rewrite <- img_comp by assumption; now rewrite Hfix, Sa).
    assert (Hih : inv h < 8) by now apply inv_lt.
    assert (Sih : img (inv h) A = A).
    { assert (E := img_inv h A Hh HwA). now rewrite Hfix in E. }
    assert (Em1' : m1' = tmr (inv h) s m1).
    { unfold m1. rewrite tmr_comp by assumption. rewrite comp_inv_l by assumption. now rewrite Hnorm. }
    assert (Eb2' : best2 = tmr (comp b (inv h)) s m1) by (rewrite Eb2, Em1' at 1; now apply tmr_comp).
    assert (Sbh : img (comp b (inv h)) A = A) by (rewrite <- img_comp by assumption; now rewrite Sih, Sb).
    assert (P12 : prefer_move best1 best2 = false) by (rewrite Eb1'; apply Hall2; [now apply comp_lt|exact Sah]).
    assert (P21 : prefer_move best2 best1 = false) by (rewrite Eb2'; apply Hall1; [now apply comp_lt|exact Sbh]).
    rewrite Eb1', Eb2 in P12, P21 |- *. now apply tmr_eq_of_key. }
  (* both runs move the boards by the same move *)
  assert (H1 : exists rots1' tfn1', match all_res (map (move_board (syms (Z.of_nat s)) best1) L) with
                  Ok bs => Ok (bs, rots1', tfn1') | Err => Err | Panic => Panic end = Ok st1).
  { destruct Hc1 as [[-> ->]|[_ [r ->]]]; eexists _, _; exact Hstep. }
  destruct H1 as (rots1' & tfn1' & H1). rewrite Ebest in H1.
  destruct (all_res _) as [bs| |] eqn:Eall; try discriminate. apply ok_inj1 in H1. subst st1. cbn [fst].
  destruct Hc2 as [[-> ->]|[_ [r ->]]]; eexists _, _; cbv zeta; rewrite Eall; reflexivity.
Qed.

(* the step of run 2, with its invariant *)
Lemma sim_step done1 done2 boards rots1 tfn1 rots2 tfn2 m m' x st1 :
  cinv sz BI done1 (boards, rots1, tfn1) -> cinv sz BI done2 (boards, rots2, tfn2) -> nocoll_state sz (boards, rots1, tfn1) ->
  canon_input m -> canon_input m' -> x < 8 ->
  (forall B1, play (P0 sz) (map raw done1) = Some B1 -> A_of sz boards = img x B1) ->
  transform_move tfn2 m' = Ok (tmr x s m) ->
  cstep sz (Ok (boards, rots1, tfn1)) m = Ok st1 -> sc_state SC st1 ->
  exists rots2' tfn2', cstep sz (Ok (boards, rots2, tfn2)) m' = Ok (fst (fst st1), rots2', tfn2') /\
                       cinv sz BI (done2 ++ [m']) (fst (fst st1), rots2', tfn2').
Proof.
  intros Hc1 Hc2 Hnc Hin Hin' Hx HAx E2 Hstep Hsc. assert (Hs := Hs7).
  destruct (cstep_onboard sz Hsz BI SC BI_move _ _ _ _ _ _ Hc1 Hin Hstep) as [O1 O2].
  assert (Hr : inrange 20 m) by (unfold size_ok in Hs; split; lia).
  assert (Hml : movelike m) by apply Hin.
  assert (Hc1' := Hc1). destruct Hc1' as [_ _ _ _ (j1 & B1 & Hj1 & Hag1 & _ & HplayB1 & HwB1 & HnB1 & HA1) _ _]. cbn [fst snd] in *.
  assert (E1 := tfn_transform tfn1 j1 m Hag1 Hj1 Hr Hml).
  destruct (stab_link j1 x B1 _ Hj1 Hx HwB1 HA1 (HAx B1 HplayB1)) as (Hh & Hfix & Hlink).
  rewrite HnB1 in Hlink. rewrite <- (Hlink m) in E1.
  assert (Hr' : inrange 27 (tmr x s m)) by (apply (tmr_inrange x s m 20); try assumption; lia).
  destruct (cstep_sim done1 boards rots1 tfn1 rots2 tfn2 m m' (tmr x s m) _ st1 Hc1 Hnc E1 E2 Hr' (tmr_movelike x s m Hml)
              (tmr_0_tmr x s m Hx) Hh Hfix Hstep) as (rots2' & tfn2' & Hstep2).
  exists rots2', tfn2'. split; [exact Hstep2|].
  apply (cstep_inv sz Hsz BI SC BI_move done2 boards rots2 tfn2 m' _ Hc2 Hnc Hin' Hstep2). exact Hsc.
Qed.

Lemma onboard_input m x : onbz s (mX m) (mY m) -> movelike m -> x < 8 -> canon_input (tmr x s m).
Proof.
  intros [O1 O2] Hml Hx. assert (Hs := Hs7).
  assert (Hr : inrange 20 m) by (unfold size_ok in Hs; split; lia).
  destruct (tmr_inrange x s m 20 Hx Hs ltac:(lia) Hr) as [R1 R2].
  split; [unfold int8; lia|]. split; [unfold int8; lia|]. now apply tmr_movelike.
Qed.

(* ---------- class invariance ---------- *)
Lemma class_sim g : g < 8 -> forall ms, Forall canon_input ms -> nocoll_trace sz ms -> sc_trace sz SC ms ->
  forall st1, fold_left (cstep sz) ms (cinit sz) = Ok st1 ->
  exists rots2 tfn2, fold_left (cstep sz) (map (tmr g s) ms) (cinit sz) = Ok (fst (fst st1), rots2, tfn2) /\
                     cinv sz BI (map (tmr g s) ms) (fst (fst st1), rots2, tfn2).
Proof.
  intros Hg. assert (Hs := Hs7).
  induction ms as [|m ms IH] using rev_ind; intros Hall Hnc Hsc st1 Hf.
  - cbn [map fold_left] in *. unfold cinit in Hf. apply ok_inj1 in Hf. subst st1. cbn [fst].
    eexists _, _. split; [reflexivity|]. apply (cinv_init sz Hsz BI BI_new). reflexivity.
  - assert (Hf' := Hf). rewrite fold_cstep_app in Hf. destruct (cstep_not_ok _ _ _ _ Hf) as [[[boards rots1] tfn1] E0].
    apply Forall_app in Hall. destruct Hall as [Hall Hm]. inversion Hm as [|? ? Hm' _]; subst.
    assert (Hnc' : nocoll_trace sz ms).
    { intros k st0 Hk Hf0. apply (Hnc k st0); [rewrite app_length; cbn; lia|]. now rewrite firstn_app_le by lia. }
    assert (Hsc' : sc_trace sz SC ms).
    { intros k st0 Hk Hf0. apply (Hsc k st0); [rewrite app_length; cbn; lia|]. now rewrite firstn_app_le by lia. }
    destruct (IH Hall Hnc' Hsc' _ E0) as (rots2 & tfn2 & Hf2 & Hc2). cbn [fst] in *.
    assert (Hc1 := canonical_inv sz Hsz BI SC BI_move BI_new ms Hall Hnc' Hsc' _ E0).
    assert (Hgood : nocoll_state sz (boards, rots1, tfn1)).
    { apply (Hnc (length ms)); [rewrite app_length; cbn; lia|]. rewrite firstn_app_le by lia. now rewrite firstn_all. }
    assert (Hscst : sc_state SC st1).
    { apply (Hsc (length (ms ++ [m]))); [rewrite app_length; cbn; lia|]. now rewrite firstn_all. }
    rewrite E0 in Hf.
    assert (Hon := cstep_onboard sz Hsz BI SC BI_move _ _ _ _ _ _ Hc1 Hm' Hf).
    assert (Hml : movelike m) by apply Hm'.
    assert (Hin' : canon_input (tmr g s m)) by now apply onboard_input.
    (* the two original positions are images of each other under g *)
    assert (Hc2' := Hc2). destruct Hc2' as [_ _ _ _ (j2 & B2 & Hj2 & Hag2 & _ & HplayB2 & HwB2 & HnB2 & HA2) _ _]. cbn [fst snd] in *.
    assert (Hx : comp j2 g < 8) by now apply comp_lt.
    assert (HAx : forall B1, play (P0 sz) (map raw ms) = Some B1 -> A_of sz boards = img (comp j2 g) B1).
    { intros B1 HB1. assert (Hw0 := P0_well_shaped sz Hsz). destruct (P0_facts sz Hsz) as [En0 _].
      assert (E := play_equivariant g Hg ms (P0 sz) Hw0). rewrite (start_symmetric sz g Hsz), En0 in E. fold s in E.
      rewrite HplayB2, HB1 in E. cbn [option_map] in E. apply some_inj in E. subst B2.
      rewrite HA2. apply img_comp; try assumption. cbn [img Rules.n] in HnB2. rewrite HnB2. exact Hs. }
    assert (E2 : transform_move tfn2 (tmr g s m) = Ok (tmr (comp j2 g) s m)).
    { rewrite <- tmr_comp by assumption. destruct Hon as [O1 O2].
      assert (Hr : inrange 20 m) by (unfold size_ok in Hs; split; lia).
      assert (Hsx : canon_input (tmr g s m)) by exact Hin'.
      (* tmr g s m is on the board again *)
      apply tfn_transform; try assumption; [|now apply tmr_movelike].
      assert (Hb := symb_onb s g (mX m, mY m) Hg ltac:(split; cbn [fst snd]; lia)). destruct Hb as [B1 B2']. unfold size_ok in Hs.
      unfold inrange, tmr, symb in *. cbn [mX mY]. split; lia. }
    destruct (sim_step ms (map (tmr g s) ms) boards rots1 tfn1 rots2 tfn2 m (tmr g s m) (comp j2 g) st1 Hc1 Hc2 Hgood Hm' Hin' Hx HAx E2 Hf Hscst)
      as (rots2' & tfn2' & Hstep2 & Hc2n).
    exists rots2', tfn2'. rewrite map_app. cbn [map]. rewrite fold_cstep_app, Hf2. split; assumption.
Qed.

Theorem canonical_class_invariant_gen : forall g ms cs, g < 8 ->
  Forall canon_input ms -> nocoll_trace sz ms -> sc_trace sz SC ms -> canonical gen_basis sz ms = Ok cs ->
  canonical gen_basis sz (map (tmr g s) ms) = Ok cs.
Proof.
  intros g ms cs Hg Hall Hnc Hsc H. rewrite canonical_unfold in *.
  destruct (fold_left (cstep sz) ms (cinit sz)) as [[[boards rots] tfn]| |] eqn:Ef; try discriminate.
  destruct (class_sim g Hg ms Hall Hnc Hsc _ Ef) as (rots2 & tfn2 & Hf2 & _). cbn [fst] in Hf2. rewrite Hf2. exact H.
Qed.

(* ---------- idempotence ---------- *)
Lemma idem_sim : forall ms, Forall canon_input ms -> nocoll_trace sz ms -> sc_trace sz SC ms ->
  forall st1, fold_left (cstep sz) ms (cinit sz) = Ok st1 ->
  exists rots2 tfn2, fold_left (cstep sz) (cms (board0 sz (fst (fst st1)))) (cinit sz) = Ok (fst (fst st1), rots2, tfn2) /\
                     cinv sz BI (cms (board0 sz (fst (fst st1)))) (fst (fst st1), rots2, tfn2).
Proof.
  assert (Hs := Hs7).
  induction ms as [|m ms IH] using rev_ind; intros Hall Hnc Hsc st1 Hf.
  - cbn [fold_left] in Hf. unfold cinit in Hf. apply ok_inj1 in Hf. subst st1. cbn [fst].
    eexists _, _. split; [reflexivity|]. apply (cinv_init sz Hsz BI BI_new). reflexivity.
  - rewrite fold_cstep_app in Hf. destruct (cstep_not_ok _ _ _ _ Hf) as [[[boards rots1] tfn1] E0].
    apply Forall_app in Hall. destruct Hall as [Hall Hm]. inversion Hm as [|? ? Hm' _]; subst.
    assert (Hnc' : nocoll_trace sz ms).
    { intros k st0 Hk Hf0. apply (Hnc k st0); [rewrite app_length; cbn; lia|]. now rewrite firstn_app_le by lia. }
    assert (Hsc' : sc_trace sz SC ms).
    { intros k st0 Hk Hf0. apply (Hsc k st0); [rewrite app_length; cbn; lia|]. now rewrite firstn_app_le by lia. }
    destruct (IH Hall Hnc' Hsc' _ E0) as (rots2 & tfn2 & Hf2 & Hc2). cbn [fst] in *.
    assert (Hc1 := canonical_inv sz Hsz BI SC BI_move BI_new ms Hall Hnc' Hsc' _ E0).
    assert (Hgood : nocoll_state sz (boards, rots1, tfn1)).
    { apply (Hnc (length ms)); [rewrite app_length; cbn; lia|]. rewrite firstn_app_le by lia. now rewrite firstn_all. }
    rewrite E0 in Hf.
    assert (Hscst : sc_state SC st1).
    { apply (Hsc (length (ms ++ [m]))); [rewrite app_length; cbn; lia|].
      rewrite firstn_all, fold_cstep_app, E0. exact Hf. }
    assert (Hon := cstep_onboard sz Hsz BI SC BI_move _ _ _ _ _ _ Hc1 Hm' Hf).
    assert (Hml : movelike m) by apply Hm'.
    destruct (cstep_inv_ext sz Hsz BI SC BI_move ms boards rots1 tfn1 m st1 Hc1 Hgood Hm' Hf Hscst) as [_ (j' & Hj' & HAj' & Elast)].
    rewrite Elast. rewrite fold_cstep_app, Hf2.
    assert (Hin' : canon_input (tmr j' s m)) by now apply onboard_input.
    (* run 2 has replayed board 0's own move list: its original position IS board 0 *)
    assert (Hc1' := Hc1). destruct Hc1' as [_ _ _ _ _ [HplayA _] _]. cbn [fst snd] in HplayA.
    assert (Hc2' := Hc2). destruct Hc2' as [_ _ _ _ (j2 & B2 & Hj2 & Hag2 & _ & HplayB2 & HwB2 & HnB2 & HA2) _ _]. cbn [fst snd] in *.
    rewrite HplayA in HplayB2. apply some_inj in HplayB2. subst B2.
    assert (Hx : comp j2 j' < 8) by now apply comp_lt.
    assert (HAx : forall B1, play (P0 sz) (map raw ms) = Some B1 -> A_of sz boards = img (comp j2 j') B1).
    { intros B1 HB1. rewrite HA2 at 1. rewrite (HAj' B1 HB1). apply img_comp; try assumption.
      assert (En := f_equal Rules.n (HAj' B1 HB1)). cbn [img Rules.n] in En. rewrite <- En, HnB2. exact Hs. }
    assert (E2 : transform_move tfn2 (tmr j' s m) = Ok (tmr (comp j2 j') s m)).
    { rewrite <- tmr_comp by assumption. destruct Hon as [O1 O2].
      apply tfn_transform; try assumption; [|now apply tmr_movelike].
      assert (Hb := symb_onb s j' (mX m, mY m) Hj' ltac:(split; cbn [fst snd]; lia)). destruct Hb as [B1 B2']. unfold size_ok in Hs.
      unfold inrange, tmr, symb in *. cbn [mX mY]. split; lia. }
    destruct (sim_step ms _ boards rots1 tfn1 rots2 tfn2 m (tmr j' s m) (comp j2 j') st1 Hc1 Hc2 Hgood Hm' Hin' Hx HAx E2 Hf Hscst)
      as (rots2' & tfn2' & Hstep2 & Hc2n).
    exists rots2', tfn2'. split; assumption.
Qed.

Theorem canonical_idempotent_gen : forall ms cs,
  Forall canon_input ms -> nocoll_trace sz ms -> sc_trace sz SC ms -> canonical gen_basis sz ms = Ok cs ->
  canonical gen_basis sz cs = Ok cs.
Proof.
  intros ms cs Hall Hnc Hsc H. rewrite canonical_unfold in H.
  destruct (fold_left (cstep sz) ms (cinit sz)) as [[[boards rots] tfn]| |] eqn:Ef; try discriminate.
  apply ok_inj1 in H. subst cs.
  destruct (idem_sim ms Hall Hnc Hsc _ Ef) as (rots2 & tfn2 & Hf2 & _). cbn [fst] in Hf2.
  rewrite canonical_unfold. unfold board0 in Hf2. rewrite Hf2. reflexivity.
Qed.
End Sim.
