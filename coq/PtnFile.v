(* Codec/PtnFile.v (draft): ptn/ptn.go (ParsePTN, Render, InitialPosition, PositionAtMove) and ptn/iterator.go *)
From Coq Require Import NArith ZArith List Bool Lia Ascii.
Require Import Board Move GameOver PtnMove Playtak Tps.
Import ListNotations.
Local Open Scope char_scope.
Local Open Scope N_scope.

Notation res := Move.res.
Notation Ok := Move.Ok. Notation Err := Move.Err. Notation Panic := Move.Panic.

Inductive op :=
| OMoveNumber (n : Z)
| OMove (m : PtnMove.move) (modifiers : list N)
| OComment (c : list N)
| OResult (r : list N).
Record ptn := { tags : list (list N * list N); ops : list op }.

(* unicode.IsSpace(rune(b)) for a single byte (Latin-1 reading) *)
Definition is_space (b : N) : bool :=
  (b =? 9) || (b =? 10) || (b =? 11) || (b =? 12) || (b =? 13) || (b =? 32) || (b =? 133) || (b =? 160).

Fixpoint skip_ws (s : list N) : list N := match s with c :: r => if is_space c then skip_ws r else s | [] => [] end.

(* r.ReadString(']'): up to and including the delimiter; None = EOF before it *)
Fixpoint read_until (d : N) (s : list N) (acc : list N) : option (list N * list N) :=
  match s with [] => None | c :: r => if c =? d then Some (rev acc, r) else read_until d r (c :: acc) end.

Fixpoint split_n2 (s : list N) (acc : list N) : list (list N) :=       (* strings.SplitN(s, " ", 2) *)
  match s with [] => [rev acc] | c :: r => if c =? B " " then [rev acc; r] else split_n2 r (c :: acc) end.
Fixpoint trim_left (ch : N) (s : list N) := match s with c :: r => if c =? ch then trim_left ch r else s | [] => [] end.
Definition trim (ch : N) (s : list N) := rev (trim_left ch (rev (trim_left ch s))).

(* readEvents: tags until the first non-'[' ; errors other than EOF abort the parse *)
Fixpoint read_events (fuel : nat) (s : list N) (acc : list (list N * list N)) : res (list (list N * list N) * list N) :=
  match fuel with O => Ok (rev acc, s) | S f =>
    match skip_ws s with
    | [] => Ok (rev acc, [])                                           (* EOF *)
    | c :: r =>
      if negb (c =? B "[") then Ok (rev acc, c :: r) else
      match read_until (B "]") r [] with
      | None => Ok (rev acc, [])                                       (* EOF inside a tag: io.EOF is swallowed, reader exhausted *)
      | Some (line, rest) =>
        match split_n2 line [] with
        | [name; value] => read_events f rest ((name, trim (B """") value) :: acc)
        | _ => Err                                                      (* "bad tag" *)
        end
      end
    end
  end.

(* splitMoves: whitespace-separated tokens, `{…}` comments as one token; an unterminated comment at EOF is a token too *)
Fixpoint take_until_space (s : list N) (acc : list N) : list N * list N :=
  match s with [] => (rev acc, []) | c :: r => if is_space c then (rev acc, r) else take_until_space r (c :: acc) end.
Fixpoint take_comment (s : list N) (acc : list N) : list N * list N :=           (* includes the closing brace when present *)
  match s with [] => (rev acc, []) | c :: r => if c =? B "}" then (rev (c :: acc), r) else take_comment r (c :: acc) end.
Fixpoint tokens (fuel : nat) (s : list N) : list (list N) :=
  match fuel with O => [] | S f =>
    match skip_ws s with
    | [] => []
    | c :: r => let '(tok, rest) := if c =? B "{" then take_comment (c :: r) [] else take_until_space (c :: r) [] in
                tok :: tokens f rest
    end
  end.

(* ^(F|R|1/2|1|0)-(F|R|1/2|1|0)$ *)
Definition side (s : list N) : bool :=
  bytes_eqb s [B "F"] || bytes_eqb s [B "R"] || bytes_eqb s [B "1"; B "/"; B "2"] || bytes_eqb s [B "1"] || bytes_eqb s [B "0"].
Definition is_result (tok : list N) : bool :=
  existsb (fun k => side (firstn k tok) && (match nth_error tok k with Some c => c =? B "-" | None => false end) && side (skipn (S k) tok))
          (seq 1 3).

Fixpoint trim_right_set (s : list N) : list N :=              (* strings.TrimRight(tok, "?!'") on the reversed list *)
  match s with c :: r => if (c =? B "?") || (c =? B "!") || (c =? B "'") then trim_right_set r else s | [] => [] end.

Fixpoint read_moves (toks : list (list N)) (acc : list op) : res (list op) :=
  match toks with
  | [] => Ok (rev acc)
  | tok :: rest =>
    match tok with
    | [] => Panic                                                        (* cannot happen: tokens are non-empty *)
    | c0 :: _ =>
      if c0 =? B "{" then
        (* repaired: len(tok) < 2 || tok[len(tok)-1] != '}' -> error "unterminated comment"; then tok[1 : len(tok)-1] *)
        if (length tok <? 2)%nat || negb (last tok 0 =? B "}") then Err
        else read_moves rest (OComment (firstn (length tok - 2) (tl tok)) :: acc)
      else if last tok 0 =? B "." then
        match atoi (removelast tok) with Some n => read_moves rest (OMoveNumber n :: acc) | None => Err end
      else if is_result tok then read_moves rest (OResult tok :: acc)
      else
        let trimmed := rev (trim_right_set (rev tok)) in
        match parse_move trimmed with
        | PtnMove.Ok m => read_moves rest (OMove m (skipn (length trimmed) tok) :: acc)
        | _ => Err
        end
    end
  end.

(* bufio.ReadRune of the first rune: only the UTF-8 BOM (EF BB BF) is consumed *)
Definition parse_ptn (s : list N) : res ptn :=
  match s with
  | [] => Err                                                            (* ReadRune: io.EOF is returned as the error *)
  | _ =>
    let s := match s with 239 :: 187 :: 191 :: r => r | _ => s end in
    match read_events (S (length s)) s [] with
    | Ok (tg, rest) => match read_moves (tokens (S (length rest)) rest) [] with
                       | Ok os => Ok {| tags := tg; ops := os |} | Err => Err | Panic => Panic end
    | Err => Err | Panic => Panic
    end
  end.

(* Render *)
Definition render (g : ptn) : list N :=
  flat_map (fun t => [B "["] ++ fst t ++ [B " "; B """"] ++ filter (fun c => negb (c =? B """")) (snd t) ++ [B """"; B "]"; 10]) (tags g)
  ++ [10] ++
  flat_map (fun o => match o with
                     | OMoveNumber n => 10 :: fmt_int n ++ [B "."]
                     | OMove m md => B " " :: format_move false m ++ md
                     | OComment c => [B " "; B "{"] ++ c ++ [B "}"]
                     | OResult r => 10 :: r ++ [10]
                     end) (ops g)
  ++ [10].

(* ---- InitialPosition, Iterator, PositionAtMove ---- *)
Section It.
Variable basis : list N.
Definition pmove := move_prealloc (hash_sq basis) true.     (* the repaired MovePreallocated (origin bounds check) *)

Fixpoint find_tag (name : list N) (ts : list (list N * list N)) : list N :=
  match ts with [] => [] | (n, v) :: r => if bytes_eqb n name then v else find_tag name r end.

Definition tag_size : list N := [B "S"; B "i"; B "z"; B "e"].
Definition tag_tps : list N := [B "T"; B "P"; B "S"].

(* tak.New(Config{Size: size}) *)
Definition tak_new (sz : Z) : res position :=
  if ((sz <? 0) || (8 <? sz))%Z then Panic                       (* defaultPieces[size] *)
  else if (sz <? 3)%Z then Panic                                  (* alloc: panic("illegal size") *)
  else Ok (from_squares basis (Z.to_N sz) (repeat (repeat [] (Z.to_nat sz)) (Z.to_nat sz)) 0).

Definition initial_position (g : ptn) : res position :=
  match atoi (find_tag tag_size (tags g)) with
  | None => Err
  | Some sz =>
    if ((sz <? 3) || (8 <? sz))%Z then Err else                  (* repaired: "bad size" instead of the panic in tak.New *)
    match find_tag tag_tps (tags g) with
    | [] => tak_new sz
    | tps => match parse_tps basis tps with
             | Ok p => if (Z.of_N (size p) =? sz)%Z then Ok p else Err
             | Err => Err | Panic => Panic
             end
    end
  end.

Definition to_rmove (m : PtnMove.move) : rmove := {| Move.mX := PtnMove.mX m; Move.mY := PtnMove.mY m; Move.mT := PtnMove.mT m; Move.mS := PtnMove.mS m |}.

Record iter := { it_ops : list op; it_pos : position; it_marker : Z; it_pending : option PtnMove.move; it_over : bool; it_err : bool }.

Definition set_err (it : iter) : iter :=
  {| it_ops := it_ops it; it_pos := it_pos it; it_marker := it_marker it; it_pending := it_pending it; it_over := it_over it; it_err := true |}.
Definition set_over (it : iter) : iter :=
  {| it_ops := it_ops it; it_pos := it_pos it; it_marker := it_marker it; it_pending := it_pending it; it_over := true; it_err := it_err it |}.
Definition applied (it : iter) (q : position) : iter :=          (* i.position = next; i.move = Move{} *)
  {| it_ops := it_ops it; it_pos := q; it_marker := it_marker it; it_pending := None; it_over := it_over it; it_err := it_err it |}.

(* the scanning loop of Next: advance to the next Move op, updating the marker *)
Fixpoint scan (os : list op) (marker : Z) : list op * Z * option PtnMove.move :=
  match os with
  | [] => ([], marker, None)
  | OMoveNumber n :: r => scan r n
  | OMove m _ :: r => (r, marker, Some m)
  | _ :: r => scan r marker
  end.

(* the first half of Next: `if i.move.Type != 0 { if !i.apply() { return false }; if over { i.over = true; return true } }` *)
Inductive step := Stop (ret : bool) (it : iter) | Continue (it : iter).
Definition apply_pending (it : iter) : res step :=
  match it_pending it with
  | None => Ok (Continue it)
  | Some m =>
    match pmove (it_pos it) (to_rmove m) with
    | Err => Ok (Stop false (set_err it))                          (* i.err = e; position and pending move stay *)
    | Panic => Panic
    | Ok q =>
      match game_over q with
      | None => Panic                                              (* flood fuel; proved unreachable on 64-bit boards *)
      | Some (true, _) => Ok (Stop true (set_over (applied it q)))
      | Some (false, _) => Ok (Continue (applied it q))
      end
    end
  end.

Definition next (it : iter) : res (bool * iter) :=
  if it_err it || it_over it then Ok (false, it) else
  match apply_pending it with
  | Err => Err | Panic => Panic
  | Ok (Stop b it') => Ok (b, it')
  | Ok (Continue it1) =>
    let '(rest, marker, pend) := scan (it_ops it1) (it_marker it1) in
    match pend with
    | Some m => Ok (true, {| it_ops := rest; it_pos := it_pos it1; it_marker := marker; it_pending := Some m; it_over := false; it_err := false |})
    | None =>   (* i.over = true; the trailing `if i.move.Type != 0` never fires: the pending move was consumed above *)
      Ok (true, {| it_ops := rest; it_pos := it_pos it1; it_marker := marker; it_pending := None; it_over := true; it_err := false |})
    end
  end.

Definition iterator (g : ptn) (p0 : position) : iter :=
  {| it_ops := ops g; it_pos := p0; it_marker := 0; it_pending := None; it_over := false; it_err := false |}.

(* PositionAtMove(move, color); color: Some true = white, Some false = black, None = NoColor *)
Definition hit (mv marker : Z) (white : bool) (p : position) : bool :=
  ((0 <? mv) && (mv =? marker))%Z && Bool.eqb (to_move_white p) white.
Fixpoint pam_loop (fuel : nat) (it : iter) (mv : Z) (white : bool) : res (position + iter) :=
  match fuel with O => Panic | S f =>
    match next it with
    | Ok (true, it') => if hit mv (it_marker it') white (it_pos it') then Ok (inl (it_pos it')) else pam_loop f it' mv white
    | Ok (false, it') => Ok (inr it')
    | Err => Err | Panic => Panic
    end
  end.

Definition position_at_move (g : ptn) (mv : Z) (color : option bool) : res position :=
  if (match color with None => negb (mv =? 0)%Z | Some _ => false end) then Err else      (* NoColor with move != 0 *)
  let white := match color with Some w => w | None => true end in                          (* irrelevant when mv = 0 *)
  match initial_position g with
  | Ok p0 => match pam_loop (S (S (length (ops g)))) (iterator g p0) mv white with
             | Ok (inl p) => Ok p
             | Ok (inr it) => if it_err it then Err else if (0 <? mv)%Z then Err else Ok (it_pos it)
             | Err => Err | Panic => Panic end
  | Err => Err | Panic => Panic                                        (* Iterator() stores the error; Next is false at once *)
  end.

(* for it.Next() {}: number of successful Next calls, final iterator *)
Fixpoint replay_loop (fuel : nat) (it : iter) (count : nat) : res (nat * iter) :=
  match fuel with O => Panic | S f =>
    match next it with
    | Ok (true, it') => replay_loop f it' (S count)
    | Ok (false, it') => Ok (count, it')
    | Err => Err | Panic => Panic
    end
  end.
Definition replay_all (g : ptn) (p0 : position) : res (nat * iter) := replay_loop (S (S (length (ops g)))) (iterator g p0) 0.

(* ---- the specification walk of PositionAtMove (written from the property text, not from the iterator) ----
   Walk the record keeping the last move-number marker.  Before every recorded move it is the turn of the side to move of the
   current position "under marker n"; the answer to (n, c) with n > 0 is the first such turn point with marker n and side c.  A move
   is then applied (an illegal move is an error); when the game is over after it, the resulting position is the last turn point (under
   the same marker) and the walk stops.  At the end of the record the position reached is the last turn point, under the last
   marker read.  n <= 0 asks for the position at which the walk stops. *)
Definition finish (mv marker : Z) (white : bool) (p : position) : res position :=
  if hit mv marker white p then Ok p else if (0 <? mv)%Z then Err else Ok p.
Fixpoint spec_walk (os : list op) (p : position) (marker : Z) (mv : Z) (white : bool) : res position :=
  match os with
  | [] => finish mv marker white p
  | OMoveNumber n :: r => spec_walk r p n mv white
  | OMove m _ :: r =>
    if hit mv marker white p then Ok p else
    match pmove p (to_rmove m) with
    | Ok q => match game_over q with
              | Some (true, _) => finish mv marker white q
              | Some (false, _) => spec_walk r q marker mv white
              | None => Panic end
    | Err => Err | Panic => Panic
    end
  | _ :: r => spec_walk r p marker mv white
  end.
Definition spec_position_at (g : ptn) (mv : Z) (color : option bool) : res position :=
  match color, (mv =? 0)%Z with
  | None, false => Err
  | _, _ => match initial_position g with
            | Ok p0 => spec_walk (ops g) p0 0 mv (match color with Some w => w | None => true end)
            | Err => Err | Panic => Panic end
  end.
End It.

(* PTN.AddMoves: a move-number marker i/2+1 before every even-indexed move of the added list (numbering restarts at 1) *)
Fixpoint add_moves_from (i : nat) (ms : list PtnMove.move) : list op :=
  match ms with
  | [] => []
  | m :: r => (if Nat.even i then [OMoveNumber (Z.of_nat (Nat.div i 2) + 1)] else []) ++ OMove m [] :: add_moves_from (S i) r
  end.
Definition add_moves (g : ptn) (ms : list PtnMove.move) : ptn := {| tags := tags g; ops := ops g ++ add_moves_from 0 ms |}.
Definition append_ops (g : ptn) (os : list op) : ptn := {| tags := tags g; ops := ops g ++ os |}.     (* p.Ops = append(p.Ops, ...) *)
