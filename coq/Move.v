(* Tak/Position.v + Tak/Move.v (draft): code-shaped model of tak/game.go, tak/move.go, tak/slide.go, tak/hash.go *)
From Coq Require Import NArith ZArith List Bool Lia.
Require Import Board.
Import ListNotations.
Open Scope N_scope.

Inductive res (A : Type) := Ok (a : A) | Err | Panic.
Arguments Ok {A}. Arguments Err {A}. Arguments Panic {A}.
Definition bind {A B} (r : res A) (f : A -> res B) : res B :=
  match r with Ok a => f a | Err => Err | Panic => Panic end.
Notation "'let*' x ':=' r 'in' k" := (bind r (fun x => k)) (at level 200, x pattern, right associativity).

(* ---- machine integers ---- *)
Definition wrap8 (z : Z) : Z := ((z + 128) mod 256 - 128)%Z.          (* int8 *)
Definition u8 (x : N) : N := x mod 256.                                (* uint8 / byte *)
Definition uint_of_int (z : Z) : N := Z.to_N (z mod 2^64)%Z.           (* uint(int) / uint(int8) *)
Definition bit (i : N) : N := if i <? 64 then N.shiftl 1 i else 0.     (* uint64(1) << i *)
Definition shl64 (x k : N) : N := if k <? 64 then u64 (N.shiftl x k) else 0.
Definition shr64 (x k : N) : N := N.shiftr x k.
Definition has (b i : N) : bool := negb (N.land b (bit i) =? 0).
Definition setb (b i : N) : N := N.lor b (bit i).
Definition clrb (b i : N) : N := N.ldiff b (bit i).

(* Go's l[i]: the bound is tested in N, so a wrapped index of ~2^64 never becomes a unary nat *)
Definition idx {A} (l : list A) (i : N) : res A :=
  if (i <? N.of_nat (length l))%N
  then match nth_error l (N.to_nat i) with Some a => Ok a | None => Panic end
  else Panic.
Definition nthN (l : list N) (i : N) : N := nth (N.to_nat i) l 0.
Fixpoint updN (l : list N) (i : nat) (v : N) : list N :=
  match l, i with [], _ => [] | _ :: t, O => v :: t | h :: t, S j => h :: updN t j v end.

(* ---- position ---- *)
Record position := {
  size : N; black_wins_ties : bool;
  whiteStones : N; whiteCaps : N; blackStones : N; blackCaps : N;
  move : Z;
  White : N; Black : N; Standing : N; Caps : N;
  Height : list N; Stacks : list N;
  hash : N }.

Definition set_board (p : position) w b s c h st hs :=
  {| size := size p; black_wins_ties := black_wins_ties p;
     whiteStones := whiteStones p; whiteCaps := whiteCaps p; blackStones := blackStones p; blackCaps := blackCaps p;
     move := move p; White := w; Black := b; Standing := s; Caps := c; Height := h; Stacks := st; hash := hs |}.

Definition to_move_white (p : position) : bool := Z.even (move p).    (* p.move%2 == 0, also for negative *)

(* ---- hash (hash8/hash64 kept abstract here: any functions) ---- *)
Section Hash.
Variable hash_sq : N -> N -> N -> N.     (* square index, height, stack bits -> hash64(hash8(basis[i],h),s) *)
Definition hash_at (hs st : list N) (i : N) : N :=
  if nthN hs i <=? 1 then 0 else hash_sq i (nthN hs i) (nthN st i).

(* ---- moves ---- *)
Record rmove := { mX : Z; mY : Z; mT : N; mS : N }.

Fixpoint nibbles (fuel : nat) (s : N) : list N :=
  match fuel with O => [] | S f => if s =? 0 then [] else N.land s 15 :: nibbles f (N.shiftr s 4) end.

Inductive pkind := KNone | KFlat | KStanding | KCap.

(* Top(x, y) of game.go, with int arithmetic *)
Definition top_at (p : position) (x y : Z) : (option bool (* black? *)) * pkind :=
  let i := uint_of_int (x + y * Z.of_N (size p)) in
  let col := if has (White p) i then Some false else if has (Black p) i then Some true else None in
  match col with
  | None => (None, KNone)
  | Some c => (Some c, if has (Standing p) i then KStanding else if has (Caps p) i then KCap else KFlat)
  end.

Definition sq_index (p : position) (x y : Z) : N := uint_of_int (wrap8 (x + wrap8 (y * wrap8 (Z.of_N (size p))))).

(* the drop loop: board part of the position as a record *)
Record bstate := { bw : N; bb : N; bs : N; bc : N; bhs : list N; bst : list N; bh : N }.

Definition in_board (p : position) (x y : Z) : bool :=
  let sz := wrap8 (Z.of_N (size p)) in negb ((x <? 0) || (sz <=? x) || (y <? 0) || (sz <=? y))%Z.

(* one iteration of the loop body at target index i, remaining carry ct, drop count cN *)
Definition drop_at (topk : pkind) (stack : N) (ct cN i : N) (b : bstate) : res bstate :=
  let* s :=
    (if has (bc b) i then Err
     else if has (bs b) i then (if negb (ct =? 1) || negb (match topk with KCap => true | _ => false end) then Err else Ok (clrb (bs b) i))
     else Ok (bs b)) in
  let* hi := idx (bhs b) i in
  let* sti := idx (bst b) i in
  let h := N.lxor (bh b) (hash_at (bhs b) (bst b) i) in
  let sti := if has (bw b) i then shl64 sti 1 else if has (bb b) i then N.lor (shl64 sti 1) 1 else sti in
  let drop := N.land (shr64 stack (ct - (cN - 1))) (u64 (shl64 1 (cN - 1) + (2^64 - 1))) in   (* (1<<(c-1)) - 1 mod 2^64 *)
  let sti := N.lor (shl64 sti (cN - 1)) drop in
  let st := updN (bst b) (N.to_nat i) sti in
  let hs := updN (bhs b) (N.to_nat i) (u8 (hi + cN)) in
  let h := N.lxor h (hash_at hs st i) in
  let blk := negb (N.land stack (bit (ct - cN)) =? 0) in
  let bb' := if blk then setb (bb b) i else clrb (bb b) i in
  let bw' := if blk then clrb (bw b) i else setb (bw b) i in
  let '(c, s) := if ct - cN =? 0 then match topk with KCap => (setb (bc b) i, s) | KStanding => (bc b, setb s i) | _ => (bc b, s) end
                 else (bc b, s) in
  Ok {| bw := bw'; bb := bb'; bs := s; bc := c; bhs := hs; bst := st; bh := h |}.

Fixpoint drops (p : position) (topk : pkind) (stack : N) (dx dy : Z)
         (x y : Z) (ct : N) (ds : list N) (b : bstate) : res bstate :=
  match ds with
  | [] => Ok b
  | cN :: rest =>
    let x := wrap8 (x + dx) in let y := wrap8 (y + dy) in
    if negb (in_board p x y) then Err else
    if (cN <? 1) || (ct <? cN) then Err else
    let i := sq_index p x y in
    let* b' := drop_at topk stack ct cN i b in
    drops p topk stack dx dy x y (ct - cN) rest b'
  end.

Definition move_prealloc (bounds_check : bool) (p : position) (m : rmove) : res position :=
  let next_move := (move p + 1)%Z in
  let sz := Z.of_N (size p) in
  if bounds_check && ((mX m <? 0) || (sz <=? mX m) || (mY m <? 0) || (sz <=? mY m))%Z && negb (mT m =? 1) then Err else
  let white_to_move := to_move_white p in
  (* place kind / slide delta *)
  let* kd :=
    match mT m with
    | 1 => Err          (* Pass: outside the claim; the real code succeeds *)
    | 2 => Ok (inl KFlat) | 3 => Ok (inl KStanding) | 4 => Ok (inl KCap)
    | 5 => Ok (inr (-1, 0)%Z) | 6 => Ok (inr (1, 0)%Z) | 7 => Ok (inr (0, 1)%Z) | 8 => Ok (inr (0, -1)%Z)
    | _ => Err
    end in
  let opening := (move p <? 2)%Z in
  let* _ := (if opening then match kd with inl KFlat => Ok tt | _ => Err end else Ok tt) in
  let i := sq_index p (mX m) (mY m) in
  match kd with
  | inl k =>
    let place_white := if opening then negb white_to_move else white_to_move in
    if has (N.lor (White p) (Black p)) i then Err else
    (* reserves *)
    let cap_white := white_to_move in           (* capstone branch tests p.ToMove(), not place.Color() *)
    let '(stones, upd) :=
      match k with
      | KCap => if cap_white then (whiteCaps p, fun q v => (whiteStones q, v, blackStones q, blackCaps q))
                else (blackCaps p, fun q v => (whiteStones q, whiteCaps q, blackStones q, v))
      | _ => if place_white then (whiteStones p, fun q v => (v, whiteCaps q, blackStones q, blackCaps q))
             else (blackStones p, fun q v => (whiteStones q, whiteCaps q, v, blackCaps q))
      end in
    if stones <=? 0 then Err else
    let '(ws, wc, bs, bc) := upd p (u8 (stones + 255)) in
    let c := match k with KCap => setb (Caps p) i | _ => Caps p end in
    let s := match k with KStanding => setb (Standing p) i | _ => Standing p end in
    let w := if place_white then setb (White p) i else White p in
    let b := if place_white then Black p else setb (Black p) i in
    let* hi := idx (Height p) i in
    Ok {| size := size p; black_wins_ties := black_wins_ties p;
          whiteStones := ws; whiteCaps := wc; blackStones := bs; blackCaps := bc; move := next_move;
          White := w; Black := b; Standing := s; Caps := c;
          Height := updN (Height p) (N.to_nat i) (u8 (hi + 1)); Stacks := Stacks p; hash := hash p |}
  | inr (dx, dy) =>
    let ds := nibbles 8 (mS m) in
    if existsb (N.eqb 0) ds then Err else
    let ct := fold_right N.add 0 ds in
    if (size p <? ct) || (ct <? 1) then Err else
    let* hi := idx (Height p) i in
    if hi <? ct then Err else
    if white_to_move && negb (has (White p) i) then Err else
    if negb white_to_move && negb (has (Black p) i) then Err else
    let '(tcol, tkind) := top_at p (mX m) (mY m) in
    let* sti := idx (Stacks p) i in
    let stack := N.lor (shl64 sti 1) (match tcol with Some true => 1 | _ => 0 end) in
    let c := clrb (Caps p) i in let s := clrb (Standing p) i in
    let '(w, b) :=
      if hi =? ct then (clrb (White p) i, clrb (Black p) i)
      else if N.land stack (bit ct) =? 0 then (setb (White p) i, clrb (Black p) i)
      else (clrb (White p) i, setb (Black p) i) in
    let h := N.lxor (hash p) (hash_at (Height p) (Stacks p) i) in
    let st := updN (Stacks p) (N.to_nat i) (shr64 sti ct) in
    let hs := updN (Height p) (N.to_nat i) (u8 (hi + 256 - ct)) in
    let h := N.lxor h (hash_at hs st i) in
    let* r := drops p tkind stack dx dy (mX m) (mY m) ct ds {| bw := w; bb := b; bs := s; bc := c; bhs := hs; bst := st; bh := h |} in
    Ok {| size := size p; black_wins_ties := black_wins_ties p;
          whiteStones := whiteStones p; whiteCaps := whiteCaps p; blackStones := blackStones p; blackCaps := blackCaps p;
          move := next_move; White := bw r; Black := bb r; Standing := bs r; Caps := bc r; Height := bhs r; Stacks := bst r; hash := bh r |}
  end.
End Hash.
