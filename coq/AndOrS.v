(* Prove/AndOrS.v: the game-theoretic truth that the solvers are judged against, in the form the PN invariant needs:
   - positions are identified by a boolean test `same` (Position.Equal: board and side to move) instead of Leibniz equality,
   - a bound on the number of plies (Config.MaxDepth),
   - the line of play (history) is explicit: the third occurrence of a position on the line is not a win.
   wn (history-free, bounded) is AndOr.wn.  Theorem truth_equiv_bounded: under the congruence hypothesis that `same` positions
   have the same history-free value, "won within k plies under the repetition rule from the empty history" = wn k. *)
From Coq Require Import List Bool Arith Lia.
Require Import AndOr.
Import ListNotations.

Section AndOrS.
Variable pos : Type.
Variable same : pos -> pos -> bool.
Variable moves : pos -> list pos.
Variable terminal : pos -> option bool.            (* Some true: the attacker has won; Some false: finished otherwise *)
Variable att : pos -> bool.                        (* attacker to move *)

Notation wn := (wn pos moves terminal att).

Definition reps (h : list pos) (p : pos) : nat := length (filter (fun q => same q p) h).
Definition rep_ok (h : list pos) (p : pos) : Prop := reps h p < 2.

(* won within k plies on the line h (newest first) *)
Inductive Wb : nat -> list pos -> pos -> Prop :=
| Wb_term k h p : terminal p = Some true -> Wb k h p
| Wb_or k h p c : rep_ok h p -> terminal p = None -> att p = true -> In c (moves p) -> Wb k (p :: h) c -> Wb (S k) h p
| Wb_and k h p : rep_ok h p -> terminal p = None -> att p = false -> (forall c, In c (moves p) -> Wb k (p :: h) c) -> Wb (S k) h p.

Lemma Wb_mono k h p : Wb k h p -> forall k', k <= k' -> Wb k' h p.
Proof.
  induction 1 as [k h p Ht | k h p c Hr Ht Ha Hc _ IH | k h p Hr Ht Ha _ IH]; intros k' Hk.
  - now apply Wb_term.
  - destruct k' as [|k']; [lia|]. eapply Wb_or; eauto. apply IH. lia.
  - destruct k' as [|k']; [lia|]. apply Wb_and; auto. intros c Hc. apply IH; auto. lia.
Qed.

(* a win on a line is a win of the history-free game, within the same bound *)
Lemma Wb_wn k h p : Wb k h p -> wn k p = true.
Proof.
  induction 1 as [k h p Ht | k h p c _ Ht Ha Hc _ IH | k h p _ Ht Ha _ IH].
  - destruct k; cbn; now rewrite Ht.
  - cbn. rewrite Ht, Ha. apply existsb_exists. eauto.
  - cbn. rewrite Ht, Ha. apply forallb_forall. assumption.
Qed.

Lemma wn_mono' n m p : n <= m -> wn n p = true -> wn m p = true.
Proof. apply wn_le. Qed.

Lemma least' n p : wn n p = true -> exists m, m <= n /\ wn m p = true /\ forall k, k < m -> wn k p = false.
Proof.
  induction n as [|n IH]; intros H.
  - exists 0. repeat split; auto. intros; lia.
  - destruct (wn n p) eqn:E.
    + destruct (IH eq_refl) as (m & ? & ? & ?). exists m. repeat split; auto.
    + exists (S n). repeat split; auto. intros k Hk.
      destruct (wn k p) eqn:Ek; [|reflexivity]. rewrite (wn_le _ _ _ _ k n p) in E by (auto; lia). discriminate.
Qed.

(* positions that the test identifies have the same history-free value *)
Hypothesis same_wn : forall n q p, same q p = true -> wn n q = wn n p.

Lemma wn_Wb : forall n p, wn n p = true -> (forall k, k < n -> wn k p = false) ->
  forall h, (forall q, In q h -> wn n q = false) -> Wb n h p.
Proof.
  induction n as [n IHn] using lt_wf_ind. intros p Hw Hmin h Hh.
  assert (Hrep : rep_ok h p).
  { unfold rep_ok, reps.
    assert (E : filter (fun q => same q p) h = []).
    { clear - Hh Hw same_wn. induction h as [|q h IH]; [reflexivity|]. cbn.
      destruct (same q p) eqn:Es.
      - rewrite <- (same_wn n q p Es), (Hh q (or_introl eq_refl)) in Hw. discriminate.
      - apply IH. intros; apply Hh; now right. }
    rewrite E. cbn. lia. }
  destruct (terminal p) as [b|] eqn:Ht.
  - apply Wb_term. destruct n; cbn in Hw; rewrite Ht in Hw; now subst.
  - destruct n as [|n]; [cbn in Hw; rewrite Ht in Hw; discriminate|].
    cbn in Hw. rewrite Ht in Hw.
    assert (Hq : forall m q, m <= n -> In q (p :: h) -> wn m q = false).
    { intros m q Hm [<-|Hin].
      - apply Hmin. lia.
      - destruct (wn m q) eqn:E; [|reflexivity].
        specialize (Hh q Hin). rewrite (wn_le _ _ _ _ m (S n) q) in Hh by (auto; lia). discriminate. }
    destruct (att p) eqn:Ha.
    + apply existsb_exists in Hw as (c & Hc & Hcw).
      destruct (least' _ _ Hcw) as (m & Hm & Hmw & Hml).
      eapply Wb_or; eauto. apply Wb_mono with (k := m); [|lia]. apply (IHn m); auto; try lia.
    + rewrite forallb_forall in Hw. apply Wb_and; auto. intros c Hc.
      destruct (least' _ _ (Hw c Hc)) as (m & Hm & Hmw & Hml).
      apply Wb_mono with (k := m); [|lia]. apply (IHn m); auto; try lia.
Qed.

Theorem truth_equiv_bounded k p : Wb k [] p <-> wn k p = true.
Proof.
  split; [apply Wb_wn|]. intros H. destruct (least' _ _ H) as (m & Hm & Hmw & Hl).
  apply Wb_mono with (k := m); [|assumption]. apply (wn_Wb m); auto. intros q [].
Qed.
End AndOrS.
