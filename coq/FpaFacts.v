(* C20: from "the enumeration Fpa.run finds no failing branch" to "every scripted move at every
   reachable node is legal and self-accepted".  The enumerations themselves (vm_compute) are in
   FpaEnum*.v, the refutation of the pinned code in FpaPinned.v. *)
From Coq Require Import NArith ZArith List Bool Lia.
Require Import Board Move GameOver Tps Symmetry Fpa.
Import ListNotations.

Definition failing (t : tally) : N := (illegal t + selfrej t + crash t)%N.

Lemma failing_tadd : forall a b, failing (tadd a b) = (failing a + failing b)%N.
Proof. intros [] []; unfold failing, tadd; cbn. lia. Qed.

Lemma failing_fold : forall (A : Type) (g : A -> tally) l init,
  failing (fold_left (fun acc c => tadd acc (g c)) l init) = 0%N ->
  failing init = 0%N /\ forall c, In c l -> failing (g c) = 0%N.
Proof.
  intros A g l. induction l as [|a l IH]; intros init H; cbn in H.
  - split; [exact H|intros c []].
  - apply IH in H. destruct H as [H1 H2]. rewrite failing_tadd in H1.
    split; [lia|]. intros c [<-|Hc]; [lia|auto].
Qed.

(* Position.Move advances the ply by one *)
Lemma mv_move : forall hsq bc p m q, move_prealloc hsq bc p m = Ok q -> move q = (move p + 1)%Z.
Proof.
  intros hsq bc p m q H. unfold move_prealloc in H.
  repeat (match type of H with
  | (if ?b then _ else _) = Ok _ => destruct b; try discriminate H
  | (match ?x with _ => _ end) = Ok _ => destruct x eqn:?; try discriminate H
  | bind ?r _ = Ok _ => destruct r eqn:?; cbn [bind] in H; try discriminate H
  | (let '(_, _) := ?x in _) = Ok _ => destruct x eqn:?
  end).
  all: injection H as <-; reflexivity.
Qed.

(* ---- the reachable nodes of the scripted opening, in terms of LegalMove / GetMove / Move ---- *)
Section Reach.
Variables (fx : fixes) (v : variant) (botw : bool).
Let maxp := max_ply_of v.

(* one ply of the opening from (st, p), in the driving order of Friendly.GetMove *)
Inductive step : fstate * position -> fstate * position -> Prop :=
| s_free st p m st' q :       (* a ply the bot does not script: any generated, accepted, legal move (either side) *)
    stops maxp p = false ->
    (to_move_white p <> botw \/ get_move fx v st p = None) ->
    In m (all_moves p) -> legal_move fx v st p m = Ok (st', true) -> mv1 p m = Ok q ->
    step (st, p) (st', q)
| s_script st p m st' q :     (* a scripted ply that went well *)
    stops maxp p = false -> to_move_white p = botw ->
    get_move fx v st p = Some (Ok m) -> mv1 p m = Ok q -> legal_move fx v st p m = Ok (st', true) ->
    step (st, p) (st', q).

Inductive reach (a : fstate * position) : nat -> fstate * position -> Prop :=
| r_here : reach a 0 a
| r_step n b c : reach a n b -> step b c -> reach a (S n) c.

(* the claim at one node: whatever the script answers is a move, legal on the board, accepted by the own check *)
Definition node_ok (a : fstate * position) : Prop :=
  let '(st, p) := a in
  stops maxp p = false -> to_move_white p = botw ->
  forall r, get_move fx v st p = Some r ->
  exists m st' q, r = Ok m /\ mv1 p m = Ok q /\ legal_move fx v st p m = Ok (st', true).

Lemma reach_cons : forall a n c, reach a (S n) c -> exists b, step a b /\ reach b n c.
Proof.
  intros a n. induction n as [|n IH]; intros c H; inversion H as [|n' b c' Hr Hs]; subst.
  - inversion Hr; subst. exists c. split; [exact Hs|constructor].
  - apply IH in Hr. destruct Hr as [b0 [Hs0 Hr0]]. exists b0. split; [exact Hs0|]. econstructor; eauto.
Qed.

Lemma in_children : forall st p m st' q,
  In m (all_moves p) -> legal_move fx v st p m = Ok (st', true) -> mv1 p m = Ok q ->
  In (m, st', q) (children fx v st p).
Proof.
  intros st p m st' q Hin Hl Hm. unfold children. apply in_flat_map. exists m. split; [exact Hin|].
  rewrite Hl, Hm. left; reflexivity.
Qed.

Lemma eqb_botw : forall p, Bool.eqb (to_move_white p) botw = true <-> to_move_white p = botw.
Proof. intros p. apply Bool.eqb_true_iff. Qed.

Lemma walk_sound : forall fuel st p, failing (walk fuel fx v botw maxp st p) = 0%N ->
  forall n c, reach (st, p) n c -> (n < fuel)%nat -> node_ok c.
Proof.
  induction fuel as [|f IH]; intros st p Hw n c Hr Hn; [lia|].
  cbn [walk] in Hw.
  destruct n as [|n].
  - (* the node itself *)
    inversion Hr; subst. intros Hst Htm r Hg. rewrite Hst in Hw.
    apply eqb_botw in Htm. rewrite Htm in Hw. unfold script_step in Hw. rewrite Hg in Hw.
    destruct r as [m| |]; [|cbv in Hw; discriminate Hw|cbv in Hw; discriminate Hw].
    destruct (mv1 p m) as [q| |] eqn:Hm; [|cbv in Hw; discriminate Hw|cbv in Hw; discriminate Hw].
    destruct (legal_move fx v st p m) as [[st' b]| |] eqn:Hl; [|cbv in Hw; discriminate Hw|cbv in Hw; discriminate Hw].
    destruct b; [|cbv in Hw; discriminate Hw].
    exists m, st', q. auto.
  - apply reach_cons in Hr. destruct Hr as [b [Hs Hr]].
    inversion Hs as [st0 p0 m st' q Hst Hfree Hin Hl Hm|st0 p0 m st' q Hst Htm Hg Hm Hl]; subst.
    + rewrite Hst in Hw.
      assert (Hopp : failing (fold_left (fun acc c => tadd acc (walk f fx v botw maxp (snd (fst c)) (snd c))) (children fx v st p)
                       {| nodes := 1; scripted := 0; illegal := 0; selfrej := 0; crash := 0 |}) = 0%N).
      { destruct (Bool.eqb (to_move_white p) botw) eqn:E; [|exact Hw].
        destruct Hfree as [Hne|Hnone]; [apply eqb_botw in E; contradiction|].
        unfold script_step in Hw. rewrite Hnone in Hw. exact Hw. }
      apply failing_fold in Hopp. destruct Hopp as [_ Hall].
      specialize (Hall (m, st', q) (in_children _ _ _ _ _ Hin Hl Hm)). cbn [fst snd] in Hall.
      eapply IH; [exact Hall|exact Hr|lia].
    + rewrite Hst in Hw. apply eqb_botw in Htm. rewrite Htm in Hw.
      unfold script_step in Hw. rewrite Hg, Hm, Hl in Hw. rewrite failing_tadd in Hw.
      eapply IH; [|exact Hr|lia]. lia.
Qed.

(* the ply of a node reached in n steps from ply 0 is n, so no node lies deeper than the script *)
Lemma step_move : forall st p st' q, step (st, p) (st', q) -> move q = (move p + 1)%Z /\ (move p < maxp)%Z.
Proof.
  intros st p st' q H.
  assert (Hs : stops maxp p = false -> (move p < maxp)%Z).
  { unfold stops. destruct (maxp <=? move p)%Z eqn:E; [discriminate|]. intros _. apply Z.leb_gt in E. exact E. }
  inversion H; subst; split; try (eapply mv_move; eassumption); auto.
Qed.

Lemma reach_move : forall st p n st' q, reach (st, p) n (st', q) -> move q = (move p + Z.of_nat n)%Z.
Proof.
  intros st p n. induction n as [|n IH]; intros st' q H; inversion H as [|n' [st1 p1] c Hr Hs]; subst.
  - lia.
  - apply IH in Hr. apply step_move in Hs. lia.
Qed.
End Reach.

(* ---- lifting a clean enumeration to the statement of the property ---- *)
Lemma run_clean_sound : forall fx v sz botw,
  failing (run [] fx v sz botw) = 0%N ->
  forall n c, reach fx v botw (fstate0, root [] sz) n c -> node_ok fx v botw c.
Proof.
  intros fx v sz botw H n [st q] Hr.
  destruct (Nat.lt_ge_cases n 8) as [Hn|Hn].
  - eapply walk_sound; [exact H|exact Hr|exact Hn].
  - (* deeper than any script: the node is past max_ply *)
    intros Hst. exfalso. apply reach_move in Hr. change (move (root [] sz)) with 0%Z in Hr.
    unfold stops in Hst. destruct (max_ply_of v <=? move q)%Z eqn:E; [discriminate|]. apply Z.leb_gt in E.
    assert (max_ply_of v <= 6)%Z by (destruct v; cbn; lia). lia.
Qed.
