(* C20: complete enumerations of the first-player-advantage domain in Coq (vm_compute over Fpa.run). *)
From Coq Require Import NArith ZArith List Bool Lia.
Require Import Board Move GameOver Tps Symmetry Fpa.
Import ListNotations.

Definition failing (t : tally) : N := (illegal t + selfrej t + crash t)%N.

(* timing probes *)
Time Eval vm_compute in (run [] pinned DoubleStack 4 false).
Time Eval vm_compute in (run [] pinned Cairn 4 false).
Time Eval vm_compute in (run [] pinned Cairn 4 true).
Time Eval vm_compute in (run [] repaired Cairn 4 false).
Time Eval vm_compute in (run [] repaired Cairn 6 false).
Time Eval vm_compute in (run [] pinned Cairn 6 false).
