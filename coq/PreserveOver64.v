(* C01: the height hypothesis of move_refines_rules64 cannot be dropped.  A position satisfying the
   invariant (a 63-high stack) and a legal slide that raises the stack to 66: the model (like the Go
   code, which has no check) succeeds, and the result does NOT abstract to the rules successor - the
   colour of the bottom piece is lost from the 64-bit stack word. *)
From Coq Require Import NArith ZArith Arith List Bool Lia.
Require Import Board Stack Rules Move Refine RefinePlace RefinePlace2 RefinePlace3 Slide1 Slide2 Slide3 Slide4 Slide5 Slide6 Slide7 Slide8 MoveRefines HashInv GameOver Alloc Preserve1 Preserve5 Preserve6 Reach1 HashMove1 Generated.Consts.
Import ListNotations.

Definition p63_0 : position :=
  {| size := 3; Move.black_wins_ties := false; whiteStones := 10; whiteCaps := 0; blackStones := 10; blackCaps := 0;
     move := 10; White := 3; Move.Black := 0; Standing := 0; Caps := 0;
     Height := [63; 3; 0; 0; 0; 0; 0; 0; 0]%N; Stacks := [N.ones 62; 0; 0; 0; 0; 0; 0; 0; 0]%N; hash := 0 |}.
(* the same with the from-scratch hash *)
Definition p63 : position :=
  {| size := 3; Move.black_wins_ties := false; whiteStones := 10; whiteCaps := 0; blackStones := 10; blackCaps := 0;
     move := 10; White := 3; Move.Black := 0; Standing := 0; Caps := 0;
     Height := Height p63_0; Stacks := Stacks p63_0; hash := scratch_hash gen_basis p63_0 |}.
Definition m63 : rmove := {| mX := 1; mY := 0; mT := 5; mS := 3 |}.      (* b1, left, drop 3 *)

Lemma p63_ok : pos_ok p63.
Proof.
  assert (Hcase : forall i, (i < 3 * 3)%N -> (i = 0 \/ i = 1 \/ i = 2 \/ i = 3 \/ i = 4 \/ i = 5 \/ i = 6 \/ i = 7 \/ i = 8)%N) by lia.
  constructor.
  - cbn. lia.
  - constructor; [reflexivity|reflexivity|].
    intros i Hi. cbn [size p63] in Hi.
    destruct (Hcase i Hi) as [->|[->|[->|[->|[->|[->|[->|[->| ->]]]]]]]];
      (constructor; [vm_compute; discriminate|vm_compute; intuition congruence|reflexivity|vm_compute; intuition congruence|reflexivity]).
  - cbv. repeat split; reflexivity.
  - constructor; [reflexivity|reflexivity| | |].
    + intros i Hi j Hj. cbn [size p63] in Hi.
      destruct (Hcase i Hi) as [->|[->|[->|[->|[->|[->|[->|[->| ->]]]]]]]]; try apply N.bits_0.
      change (nthN (bst (bview p63)) 0) with (N.ones 62). change (nthN (bhs (bview p63)) 0) with 63%N in Hj.
      apply N.ones_spec_high. lia.
    + unfold mask_ok, hi_clear. cbn [bview bw bb bs bc p63 White Move.Black Standing Caps size].
      repeat split; intros j Hj; try apply N.bits_0. apply N.bits_above_log2. cbn. lia.
    + unfold hash_inv. cbn [bview bh bhs bst p63 hash Height Stacks size].
      apply (scratch_is_hsum p63_0). reflexivity.
Qed.

Theorem over64_refuted : exists p m p',
  pos_ok p /\ mT m <> 1%N /\ mv p m = Ok p' /\
  (exists s, rules_move (abs p) (raw m) = Some s /\ s <> abs p' /\ same_shape s p' /\
             nth 65 (nth 0 (sq s) []) (Rules.White, Flat) = (Rules.Black, Flat) /\
             nth 65 (nth 0 (sq (abs p')) []) (Rules.Black, Flat) = (Rules.White, Flat)) /\
  ~ heights64 p' /\ ~ fits64 p m /\ hash_good p'.
Proof.
  assert (E : exists p', mv p63 m63 = Ok p') by (vm_compute; eexists; reflexivity).
  destruct E as [p' E]. exists p63, m63, p'.
  assert (X := move_exact p63 m63 p63_ok ltac:(discriminate)). rewrite E in X.
  destruct X as (s & X1 & X2 & X3 & X4).
  assert (Hb : nth 65 (nth 0 (sq s) []) (Rules.White, Flat) = (Rules.Black, Flat)).
  { assert (Y := X1). vm_compute in Y. injection Y as <-. vm_compute. reflexivity. }
  assert (Hw : nth 65 (nth 0 (sq (abs p')) []) (Rules.Black, Flat) = (Rules.White, Flat)).
  { assert (Y := E). vm_compute in Y. injection Y as <-. vm_compute. reflexivity. }
  assert (Hne : s <> abs p').
  { intros ->. rewrite (nth_indep _ (Rules.Black, Flat) (Rules.White, Flat)) in Hw; [discriminate (eq_trans (eq_sym Hb) Hw)|].
    assert (Y := E). vm_compute in Y. injection Y as <-. vm_compute. lia. }
  assert (H64 : ~ heights64 p').
  { intros H. destruct (X4 H) as [A _]. contradiction. }
  split; [exact p63_ok|]. split; [discriminate|]. split; [exact E|].
  split; [exists s; auto|]. split; [exact H64|]. split.
  - intros F. apply H64. apply (shape_heights64 s p' X3 (F s X1)).
  - apply (hash_invariant_move p63 m63 p' p63_ok ltac:(discriminate) E).
Qed.
Print Assumptions over64_refuted.
