(* SearchPv3.v: every line AnalyzeAll lists replays legally from p (precise options, no table, any sort setting; the repaired code at EVERY
   cancellation point k, the code before the repair as long as the flag was not seen set when AnalyzeAll returns).  SearchAll2's loop invariant with SearchPv1's line invariant: a listed
   move's child search returned exactly the value, which lies strictly inside its window (-v-1, -v+1), so its line replays from the child. *)
From Coq Require Import NArith ZArith List Bool Lia Permutation.
Require Import Board Move GameOver Eval Search NegamaxSpec SearchGen SearchExact CancelFacts SearchNeg1 SearchAll1 SearchAll2 SearchPv1.
Import ListNotations.
Open Scope Z_scope.

Section AllPv.
Variable pinned : bool.
Variable basis : list N.
Variable cfg : config.
Variable k : Z.

Hypothesis Hnonull : c_nonull cfg = true.
Hypothesis Hnoreduce : c_noreduce cfg = true.
Hypothesis Hnomc : c_multicut cfg = false.

Variable Pos : nat -> position -> Prop.
Hypothesis Hclosed : forall d p q, Pos (S d) p -> is_over p = false -> In q (children basis p) -> Pos d q.
Hypothesis Hhint : forall d p m q, Pos (S d) p -> is_over p = false -> okm m -> try_move basis p m = Some q -> In q (children basis p).
Hypothesis Hlive : forall d p, Pos (S d) p -> is_over p = false -> children basis p <> [].

Notation nm := (nmx basis (c_eval cfg)).

Section Root.
Variable d' : nat.
Hypothesis Hd' : (d' < 40)%nat.
Variable p : position.
Hypothesis Hp : Pos (S d') p.
Hypothesis Hover : is_over p = false.
Variable pm : rmove.
Variable pvt : list rmove.
Hypothesis Hpvt : okl pvt.

Let v := nm (S d') p.

Lemma aa_loop_lines : forall n s g out ms j,
  SI s -> genst cfg p pm pvt s g ms j -> Permutation ms (all_moves p) -> (length (skipn (Z.to_nat j) ms) < n)%nat ->
  let r := aa_loop pinned basis cfg k (Z.of_nat (S d')) v pm pvt n s g out in
  exists tails, snd (fst r) = out ++ tails /\ (pinned = false \/ cancelled k (fst (fst r)) = false -> Forall (legal_line basis p) tails).
Proof.
  induction n; intros s g out ms j HS G PERM HN; [lia|].
  cbv zeta. cbn [aa_loop].
  pose proof (scan_next pinned basis cfg p pm pvt s g ms j G) as SC.
  destruct (filter (good basis p pm) (skipn (Z.to_nat j) ms)) as [|m tl_] eqn:EF.
  { destruct (mg_next pinned basis cfg (gfuel g) s g) as [g' nx]. cbn [snd] in SC. subst nx. cbn [fst snd].
    exists []. rewrite app_nil_r. split; [reflexivity|constructor]. }
  destruct SC as (g' & q & j' & E & T & Hin & G' & EF' & LT). rewrite E.
  assert (Hm : In m (all_moves p)) by (apply (Permutation_in m PERM Hin)).
  pose proof (gen_child basis p m q Hm T) as Hq.
  assert (Hpq : Pos d' q) by (apply (Hclosed d' p q Hp Hover Hq)).
  pose proof (aa_child pinned basis cfg k Hnonull Hnoreduce Hnomc Pos Hclosed Hhint Hlive d' Hd' p Hp Hover pvt Hpvt s m q HS Hq) as R.
  pose proof (srch_line pinned basis cfg k Hnonull Hnoreduce Hnomc Pos Hclosed Hhint Hlive 40 d' Hd'
                (set_fm s 0 m) q 1 pvt (- v - 1) (- v + 1) true (SI_set_fm _ _ _ HS) Hpq Hpvt ltac:(lia)) as RL.
  cbv zeta in R, RL. replace (Z.of_nat d') with (Z.of_nat (S d') - 1) in RL by lia.
  pose proof (srch_mono pinned basis cfg k 40 false (set_fm s 0 m) q 1 (Z.of_nat (S d') - 1) pvt (- v - 1) (- v + 1) true) as MO.
  fold v in R.
  destruct (srch pinned basis cfg k 40 false (set_fm s 0 m) q 1 (Z.of_nat (S d') - 1) pvt (- v - 1) (- v + 1) true) as [s1 [msc cv]].
  cbn [fst snd set_fm evals] in R, RL, MO. destruct R as (HS1 & Hmsc & VS).
  destruct (negb pinned && cancelled k s1) eqn:EBRK.
  { cbn [fst snd]. exists []. rewrite app_nil_r. split; [reflexivity|constructor]. }
  assert (REST : forall out1, let r := aa_loop pinned basis cfg k (Z.of_nat (S d')) v pm pvt n s1 g' out1 in
            evals s1 <= evals (fst (fst r)) /\ exists tails, snd (fst r) = out1 ++ tails /\ (pinned = false \/ cancelled k (fst (fst r)) = false -> Forall (legal_line basis p) tails)).
  { intros out1. cbv zeta. split; [apply (aa_loop_mono pinned basis cfg k Hnonull Hnoreduce Hnomc Pos Hclosed Hhint Hlive)|]. apply (IHn s1 g' out1 ms j' HS1 (G' s1) PERM ltac:(lia)). }
  destruct (negb (- cv =? v)) eqn:EV; [destruct (REST out) as (_ & R1); exact R1|].
  destruct (move_equal m pm); [destruct (REST out) as (_ & R1); exact R1|].
  destruct (REST (out ++ [m :: msc])) as (MONO & tails & B & C).
  exists ((m :: msc) :: tails). split; [rewrite B, <- app_assoc; reflexivity|].
  intros NC. assert (NC1 : cancelled k s1 = false) by (destruct NC as [EP|NC']; [rewrite EP in EBRK; exact EBRK|apply (canc_le k s1 _ NC'); exact MONO]).
  constructor; [|apply C; exact NC].
  apply negb_false_iff in EV. rewrite (VS NC1) in EV. apply Z.eqb_eq in EV.
  cbn [legal_line]. rewrite (try_ok basis p m (all_moves_okm p m Hm)) in T. destruct (mvp basis p m) as [q'| |]; try discriminate T.
  inversion T; subst q'. apply RL; [exact NC1|]. fold v in EV. lia.
Qed.

Lemma aa_pass_lines s q0 : SI s -> try_move basis p pm = Some q0 -> In q0 (children basis p) ->
  let g0 := new_gen s None (pm :: pvt) 0 (Z.of_nat (S d')) p in
  let r := aa_loop pinned basis cfg k (Z.of_nat (S d')) v pm pvt (gfuel g0) s g0 [pm :: pvt] in
  exists tails, snd (fst r) = (pm :: pvt) :: tails /\ (pinned = false \/ cancelled k (fst (fst r)) = false -> Forall (legal_line basis p) tails).
Proof.
  intros HS T Hq0. cbv zeta.
  destruct (first_next pinned basis cfg p pm pvt s (Z.of_nat (S d')) q0 T) as (g1 & E & G1). cbv zeta in E.
  assert (EF : gfuel (new_gen s None (pm :: pvt) 0 (Z.of_nat (S d')) p) = S (length (all_moves p) + 7)).
  { unfold gfuel. cbn [new_gen g_ms g_p]. lia. }
  rewrite EF. cbn [aa_loop]. rewrite E.
  pose proof (aa_child pinned basis cfg k Hnonull Hnoreduce Hnomc Pos Hclosed Hhint Hlive d' Hd' p Hp Hover pvt Hpvt s pm q0 HS Hq0) as R.
  cbv zeta in R. fold v in R.
  destruct (srch pinned basis cfg k 40 false (set_fm s 0 pm) q0 1 (Z.of_nat (S d') - 1) pvt (- v - 1) (- v + 1) true) as [s1 [msc cv]].
  cbn [fst snd] in R. destruct R as (HS1 & _ & _).
  destruct (negb pinned && cancelled k s1).
  { cbn [fst snd]. exists []. split; [reflexivity|constructor]. }
  rewrite move_equal_refl.
  set (ms := msof cfg p s1 (Z.of_nat (S d'))).
  assert (PERM : Permutation ms (all_moves p)) by apply msof_perm.
  pose proof (aa_loop_lines (length (all_moves p) + 7) s1 g1 [pm :: pvt] ms 0 HS1 (G1 s1) PERM
              ltac:(cbn [Z.to_nat skipn]; rewrite (Permutation_length PERM); lia)) as RES.
  cbv zeta in RES. destruct (negb (- cv =? v)); exact RES.
Qed.
End Root.

Hypothesis Hbound : forall d p, Pos d p -> MinEval <= c_eval cfg p <= MaxEval.

(* every line of AnalyzeAll replays from p *)
Theorem analyze_all_lines_replay : forall s p sk pvs v d c,
  SI s -> (forall d, (1 <= d <= 16)%nat -> Z.of_nat d <= c_depth cfg -> Pos d p) ->
  analyze_all_gen pinned basis cfg k s p = (sk, (pvs, v, d, c)) ->
  pinned = false \/ cancelled k sk = false -> Forall (legal_line basis p) pvs.
Proof.
  intros s p sk pvs v d c HS HP H NC. rewrite analyze_all_unfold in H. unfold analyze_gen, analyze_depth in H.
  assert (ER : az_root pinned (az_start s) p = (0, [], 0)).
  { unfold az_root, tt_get. rewrite (proj1 (SI_az_start s HS)). reflexivity. }
  rewrite ER in H.
  destruct (az_iter pinned basis cfg k (c_depth cfg) 0 p 16 1 (az_start s) [] 0 stats0 0) as [s1 [[[[pv v1] d1] acc1] c1]] eqn:EA.
  destruct (az_iter_allx pinned basis cfg k Hnonull Hnoreduce Hnomc Pos Hclosed Hhint Hlive Hbound (c_depth cfg) p HP 16 1 (az_start s) [] 0 stats0 0
              (SI_az_start s HS) ltac:(lia) ltac:(cbn; lia) ltac:(lia)
              ltac:(split; [constructor|left; split; reflexivity]) _ _ _ _ _ _ EA) as (HS1 & Hpv & POST).
  pose proof (az_iter_line pinned basis cfg k Hnonull Hnoreduce Hnomc Pos Hclosed Hhint Hlive Hbound (c_depth cfg) p HP 16 1 (az_start s) [] 0 stats0 0
              (SI_az_start s HS) ltac:(constructor) ltac:(lia) ltac:(cbn; lia) I _ _ _ _ _ _ EA) as LPV.
  destruct POST as [[E1 E2]|(D1 & D2 & EO & (EV & pm & pvt & q0 & E2 & T & Hq0 & X))]; subst.
  { inversion H; subst. constructor. }
  set (dn := (Z.to_nat d1 - 1)%nat).
  assert (ED : d1 = Z.of_nat (S dn)) by (unfold dn; lia).
  assert (Hp : Pos (S dn) p) by (apply HP; unfold dn; lia).
  assert (Hpvt : okl pvt) by (inversion Hpv; assumption).
  pose proof (aa_pass_lines dn ltac:(unfold dn; lia) p Hp EO pm pvt Hpvt s1 q0 HS1 T Hq0) as R. cbv zeta in R.
  rewrite <- ED in R. replace (S dn) with (Z.to_nat d1) in R by (unfold dn; lia).
  cbv zeta in H.
  match type of H with context [aa_loop ?a ?b ?c ?d ?e ?f ?g ?h ?n ?s ?gg ?o] => destruct (aa_loop a b c d e f g h n s gg o) as [[s2 out] brk] end.
  cbn [fst snd] in R. clear ED. inversion H; subst. destruct R as (tails & -> & TL).
  constructor; [exact LPV|apply TL; exact NC].
Qed.
End AllPv.
