(* SearchNeg5.v: C05 clause 1 in its final forms, and computed non-vacuity examples.
   - analyze_exact_small: boards up to 5x5, at most 51 pieces: no hypothesis about the rules engine or the evaluator is left.
   - analyze_exact_game: the same for every position of a game replayed from tak.New (sizes 3..5).
   - ex_default3 / ex_winner: the model's Analyze next to exhaustive negamax on live 3x3 positions (vm_compute). *)
From Coq Require Import NArith ZArith List Bool Lia.
Require Import Board Stack Rules Move GameOver Refine Alloc Slide2 Slide6 Preserve1 Preserve5 Preserve6 Reach1 PreserveEx.
Require Import Eval EvalSpec Search NegamaxSpec SearchGen SearchExact SearchInst SearchC CancelEx SearchNeg1 SearchNeg2 SearchNeg3 SearchNeg4.
Require Import Generated.Consts.
Import ListNotations.
Open Scope Z_scope.

(* the two evaluators of the check *)
Definition builtin_eval (cfg : config) : Prop := c_eval cfg = evaluate_winner \/ c_eval cfg = default_eval.

Theorem analyze_exact_small : forall cfg, precise cfg -> builtin_eval cfg ->
  forall k s p sk pv v d acc c,
  SI s -> base_ok p -> (size p <= 5)%N -> (total p <= 51)%N -> move p + 16 <= max_terminal_ply ->
  analyze_cancel gen_basis cfg k s p = (sk, (pv, v, d, acc, c)) ->
  SI sk /\ (0 < d -> exact_result gen_basis cfg p pv v d).
Proof.
  intros cfg HP [HE|HE] k s p sk pv v d acc c HS Hb Hsz Ht Hm H.
  - apply (analyze_exact_winner cfg HP HE k s p sk pv v d acc c HS Hb); [|exact H]. apply within_small; [apply Hb|exact Hsz|exact Ht].
  - apply (analyze_exact_default cfg HP HE k s p sk pv v d acc c HS Hb); [| |exact H].
    + apply within_small; [apply Hb|exact Hsz|exact Ht].
    + unfold dmax. lia.
Qed.

(* every board size, at most 64 pieces in the game (the standard sets of 3x3 .. 6x6) *)
Theorem analyze_exact_64 : forall cfg, precise cfg -> builtin_eval cfg ->
  forall k s p sk pv v d acc c,
  SI s -> base_ok p -> (total p <= 64)%N -> move p + 16 <= max_terminal_ply ->
  analyze_cancel gen_basis cfg k s p = (sk, (pv, v, d, acc, c)) ->
  SI sk /\ (0 < d -> exact_result gen_basis cfg p pv v d).
Proof.
  intros cfg HP [HE|HE] k s p sk pv v d acc c HS Hb Ht Hm H.
  - apply (analyze_exact_winner cfg HP HE k s p sk pv v d acc c HS Hb); [|exact H]. apply within_total64; [apply Hb|exact Ht].
  - apply (analyze_exact_default cfg HP HE k s p sk pv v d acc c HS Hb); [| |exact H].
    + apply within_total64; [apply Hb|exact Ht].
    + unfold dmax. lia.
Qed.

(* ---- positions of real games ---- *)
Lemma base_ok_replay : forall ms p q, base_ok p -> (total p <= 64)%N -> replay p ms = Ok q ->
  base_ok q /\ move q = move p + Z.of_nat (length ms) /\ size q = size p /\ total q = total p.
Proof.
  induction ms as [|m r IH]; intros p q Hb Ht H; cbn [replay] in H.
  - inversion H; subst. cbn [length]. split; [exact Hb|]. split; [lia|]. split; reflexivity.
  - destruct (mv p m) as [p1| |] eqn:E; try discriminate H.
    assert (ST : Preserve5.step_ok p p1).
    { destruct (move_preserves_small p m p1 (proj1 Hb) Ht (mv_not_pass p m p1 E) E) as (_ & _ & ST). exact ST. }
    assert (H64 : heights64 p1) by (apply total_heights64; rewrite (st_total _ _ ST); exact Ht).
    destruct (base_ok_step p m p1 Hb E H64) as (Hb1 & Em & Es & Et).
    destruct (IH p1 q Hb1 ltac:(rewrite Et; exact Ht) H) as (A & B & C & D).
    split; [exact A|]. cbn [length]. rewrite B, C, D, Em, Es, Et. split; [lia|]. split; reflexivity.
Qed.

Lemma base_ok_new sz bwt stones caps : (3 <= sz <= 8)%N -> (0 < stones < 256)%N -> (caps < 256)%N -> (2 * (stones + caps) <= 255)%N ->
  base_ok (new_pos sz bwt stones caps).
Proof.
  intros Hsz Hst Hc Hsum. destruct (new_ok sz bwt stones caps Hsz ltac:(lia) Hc) as (A & _ & T).
  split; [exact A|]. split; [rewrite T; exact Hsum|]. split; [cbn; lia|]. intros _. cbn [new_pos whiteStones blackStones]. lia.
Qed.

Theorem analyze_exact_game : forall cfg, precise cfg -> builtin_eval cfg ->
  forall sz bwt stones caps ms p, (3 <= sz <= 5)%N -> (0 < stones)%N -> (2 * (stones + caps) <= 51)%N ->
  replay (new_pos sz bwt stones caps) ms = Ok p -> Z.of_nat (length ms) + 16 <= max_terminal_ply ->
  forall k s sk pv v d acc c, SI s ->
  analyze_cancel gen_basis cfg k s p = (sk, (pv, v, d, acc, c)) ->
  SI sk /\ (0 < d -> exact_result gen_basis cfg p pv v d).
Proof.
  intros cfg HP HE sz bwt stones caps ms p Hsz Hst Hsum HR Hlen k s sk pv v d acc c HS H.
  pose proof (base_ok_new sz bwt stones caps ltac:(lia) ltac:(lia) ltac:(lia) ltac:(lia)) as B0.
  destruct (new_ok sz bwt stones caps ltac:(lia) ltac:(lia) ltac:(lia)) as (_ & _ & T0).
  destruct (base_ok_replay ms _ p B0 ltac:(rewrite T0; lia) HR) as (Hb & Em & Es & Et).
  apply (analyze_exact_small cfg HP HE k s p sk pv v d acc c HS Hb); [rewrite Es; cbn [new_pos size]; lia|rewrite Et, T0; lia| |exact H].
  rewrite Em. cbn [new_pos move]. lia.
Qed.

Theorem analyze_exact_game64 : forall cfg, precise cfg -> builtin_eval cfg ->
  forall sz bwt stones caps ms p, (3 <= sz <= 8)%N -> (0 < stones)%N -> (2 * (stones + caps) <= 64)%N ->
  replay (new_pos sz bwt stones caps) ms = Ok p -> Z.of_nat (length ms) + 16 <= max_terminal_ply ->
  forall k s sk pv v d acc c, SI s ->
  analyze_cancel gen_basis cfg k s p = (sk, (pv, v, d, acc, c)) ->
  SI sk /\ (0 < d -> exact_result gen_basis cfg p pv v d).
Proof.
  intros cfg HP HE sz bwt stones caps ms p Hsz Hst Hsum HR Hlen k s sk pv v d acc c HS H.
  pose proof (base_ok_new sz bwt stones caps ltac:(lia) ltac:(lia) ltac:(lia) ltac:(lia)) as B0.
  destruct (new_ok sz bwt stones caps ltac:(lia) ltac:(lia) ltac:(lia)) as (_ & _ & T0).
  destruct (base_ok_replay ms _ p B0 ltac:(rewrite T0; lia) HR) as (Hb & Em & Es & Et).
  apply (analyze_exact_64 cfg HP HE k s p sk pv v d acc c HS Hb); [rewrite Et, T0; lia| |exact H].
  rewrite Em. cbn [new_pos move]. lia.
Qed.

(* ---- computed examples: live 3x3 positions after four plies ---- *)
(* a1 c3 b2 b1: White to move, nothing decided within three plies *)
Definition ms4 : list rmove := [M 2 0 0 0; M 2 2 2 0; M 2 1 1 0; M 2 1 0 0]%Z%N.
Definition q4 : position := match replay start3 ms4 with Ok p => p | _ => start3 end.
Lemma replay_ms4 : replay start3 ms4 = Ok q4.
Proof. vm_compute. reflexivity. Qed.
(* a3 a1 b1 b3: White to move completes the road a1-b1-c1 *)
Definition ms4w : list rmove := [M 2 0 2 0; M 2 0 0 0; M 2 1 0 0; M 2 1 2 0]%Z%N.
Definition q4w : position := match replay start3 ms4w with Ok p => p | _ => start3 end.
Lemma replay_ms4w : replay start3 ms4w = Ok q4w.
Proof. vm_compute. reflexivity. Qed.

Definition cfg3 := mk_cfg 3 false true true false 0.      (* depth 3, sorted, precise, built-in evaluator *)
Definition cfg3w := mk_cfg 3 false true true false 1.     (* depth 3, sorted, precise, EvaluateWinner *)

Lemma start3_new : start3 = new_pos 3 false 10 0.
Proof. reflexivity. Qed.

(* every hypothesis of analyze_exact_default holds, the call returns a depth-3 result, and its value is the exhaustive negamax value *)
Example ex_default3 :
  precise cfg3 /\ c_eval cfg3 = default_eval /\ SI (new_state 0) /\ base_ok q4 /\ within (dmax cfg3) q4 /\
  move q4 + Z.of_nat (dmax cfg3) <= max_terminal_ply /\ is_over q4 = false /\
  obs (run_analyze cfg3 0 (new_state 0) q4) =
    ([{| mX := 2; mY := 0; mT := 2; mS := 0 |}; {| mX := 2; mY := 1; mT := 3; mS := 0 |}; {| mX := 1; mY := 2; mT := 2; mS := 0 |}], 960, 3, false) /\
  nmx gen_basis default_eval 3 q4 = 960.
Proof.
  assert (B : base_ok q4 /\ size q4 = 3%N /\ total q4 = 20%N).
  { destruct (base_ok_replay ms4 _ q4 (base_ok_new 3 false 10 0 ltac:(lia) ltac:(lia) ltac:(lia) ltac:(lia)) ltac:(vm_compute; discriminate)
                (eq_trans (f_equal (fun p => replay p ms4) (eq_sym start3_new)) replay_ms4)) as (A & _ & C & D).
    split; [exact A|]. split; [exact C|]. rewrite D. vm_compute. reflexivity. }
  destruct B as (B & Es & Et).
  split; [repeat split|]. split; [reflexivity|]. split; [apply SI_new; reflexivity|]. split; [exact B|].
  split; [apply within_small; [apply B|rewrite Es; lia|rewrite Et; lia]|].
  split; [vm_compute; discriminate|]. split; [vm_compute; reflexivity|]. split; vm_compute; reflexivity.
Qed.

(* a decisive result: depth 1, the winning move c1, value WinBase - and that IS the negamax value *)
Example ex_winner :
  precise cfg3w /\ c_eval cfg3w = evaluate_winner /\ base_ok q4w /\ within (dmax cfg3w) q4w /\ is_over q4w = false /\
  obs (run_analyze cfg3w 0 (new_state 0) q4w) = ([{| mX := 2; mY := 0; mT := 2; mS := 0 |}], Eval.WinBase, 1, false) /\
  nmx gen_basis evaluate_winner 1 q4w = Eval.WinBase /\ WinThreshold < Eval.WinBase.
Proof.
  assert (B : base_ok q4w /\ size q4w = 3%N /\ total q4w = 20%N).
  { destruct (base_ok_replay ms4w _ q4w (base_ok_new 3 false 10 0 ltac:(lia) ltac:(lia) ltac:(lia) ltac:(lia)) ltac:(vm_compute; discriminate)
                (eq_trans (f_equal (fun p => replay p ms4w) (eq_sym start3_new)) replay_ms4w)) as (A & _ & C & D).
    split; [exact A|]. split; [exact C|]. rewrite D. vm_compute. reflexivity. }
  destruct B as (B & Es & Et).
  split; [repeat split|]. split; [reflexivity|]. split; [exact B|].
  split; [apply within_small; [apply B|rewrite Es; lia|rewrite Et; lia]|].
  split; [vm_compute; reflexivity|]. split; [vm_compute; reflexivity|]. split; vm_compute; reflexivity.
Qed.

(* the same engine asked again (the state left by the first call) and a cancelled call: the theorem applies to both *)
Example ex_reused :
  let '(s1, r1) := run_analyze cfg3 0 (new_state 0) q4 in
  let '(s2, r2) := run_analyze cfg3 40 s1 q4 in
  let '(s3, r3) := run_analyze cfg3 0 s2 q4 in
  (r_value r1, r_depth r1, r_canceled r1, r_value r2, r_depth r2, r_canceled r2, r_value r3, r_depth r3, r_canceled r3)
  = (960, 3, false, nmx gen_basis default_eval 1 q4, 1, true, 960, 3, false).
Proof. vm_compute. reflexivity. Qed.
