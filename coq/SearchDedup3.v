(* SearchDedup3.v: dedup_value_preserving, the symmetry part (instantiated model).
   G p  = what holds of every position of a game played under the default configuration with at most 64 pieces (OpeningFacts2.good:
          C01's invariant, reserves = default set minus board, BlackWinsTies off, the opening-ply invariant) /\ total p <= 64;
          kept by accepted moves (G_child) and by the eight rebuilt images (G_image).
   nmx_image:    for an evaluator that is invariant under the images (eval_symmetric), exhaustive negamax is:  nmx d (image p k) = nmx d p
                 (the successors of an image are the images of the successors: image_move_commutes + C03 completeness; the inverse symmetry
                 for the converse).
   sym_skip_ok:  hence a successor whose hash is in the cache has the value of the successor that put it there, under
                 dedup_nocollision: Hash(q) = Hash(image q' k) -> q = image q' k for successors q, q' of the node.
   ewinner_symmetric: ai.EvaluateWinner is such an evaluator. *)
From Coq Require Import NArith ZArith Arith List Bool Lia Permutation.
Require Import Rules Sym SymRules1 SymRules2.
Require Import Board Stack Move GameOver Refine Slide2 Slide6 Slide8 Preserve1 Preserve3 Preserve5 Preserve6 Reach1.
Require Import Tps Symmetry SymCode1 TpsFacts5 Import3 Import4 Import5 Import6 OpeningFacts1 OpeningFacts2.
Require AllMovesFacts2 AllMovesFacts3.
Require Import Eval EvalSpec Search NegamaxSpec SearchGen SearchExact SearchInst SearchNeg2 SearchDedup.
Require Import Generated.Consts.
Import ListNotations.
Local Open Scope nat_scope.

(* ---- the number of pieces is the same in an image ---- *)
Lemma sum_nth_seq (l : list N) : list_sum (map (fun i => N.to_nat (nth i l 0%N)) (seq 0 (length l))) = N.to_nat (sumH l).
Proof.
  induction l as [|a l IH]; [reflexivity|]. cbn [length]. rewrite <- cons_seq, <- seq_shift. cbn [map]. rewrite map_map.
  rewrite (map_ext _ (fun i => N.to_nat (nth i l 0%N))) by (intros; reflexivity).
  match goal with |- list_sum (?x :: ?r) = _ => change (list_sum (x :: r)) with (x + list_sum r)%nat end.
  rewrite IH, sumH_cons. cbn [nth]. lia.
Qed.
Lemma sumH_abs p : pos_ok p -> N.to_nat (sumH (Height p)) = list_sum (map (@length piece) (sq (abs p))).
Proof.
  intros [_ [LH _ _] _ _]. cbn [bview bhs] in LH. rewrite sq_abs_board. unfold abs_board. rewrite map_map.
  rewrite <- LH, <- sum_nth_seq. f_equal. apply map_ext. intros i. rewrite length_abs_stack_b. cbn [bview bhs]. unfold nthN. rewrite Nat2N.id. reflexivity.
Qed.
Lemma list_sum_perm l l' : Permutation l l' -> list_sum l = list_sum l'.
Proof. unfold list_sum. induction 1; cbn [fold_right] in *; lia. Qed.

Lemma total_image k p : k < 8 -> pos_ok p -> reserves_match_board p -> Move.black_wins_ties p = false -> total (imgk p k) = total p.
Proof.
  intros Hk Hp RM Hb. unfold imgk. pose proof (image_abs k p Hk Hp RM Hb) as A.
  pose proof (image_pos_ok p (csym (N.to_nat (size p)) k) Hp) as Hq.
  set (q := image gen_basis p (csym (N.to_nat (size p)) k)) in *.
  assert (ES : sumH (Height q) = sumH (Height p)).
  { apply N2Nat.inj. rewrite (sumH_abs q Hq), (sumH_abs p Hp), A. unfold img. cbn [sq Rules.n].
    apply list_sum_perm. apply Permutation_map. apply permL_perm; [exact Hk| |].
    - pose proof (po_size _ Hp). unfold size_ok. unfold abs. cbn [Rules.n]. lia.
    - apply abs_sq_length. }
  assert (W1 := f_equal wstones A). assert (W2 := f_equal wcaps A). assert (W3 := f_equal bstones A). assert (W4 := f_equal bcaps A).
  unfold abs, img in W1, W2, W3, W4. cbn [wstones wcaps bstones bcaps] in W1, W2, W3, W4.
  unfold total. rewrite ES, W1, W2, W3, W4. reflexivity.
Qed.

(* ---- the invariant ---- *)
Definition G (p : position) : Prop := good p /\ (total p <= 64)%N.

Lemma G_image k p : k < 8 -> G p -> G (imgk p k).
Proof.
  intros Hk (Hg & Ht). split; [apply good_image; assumption|]. destruct Hg as [Hp RM Hb _]. rewrite (total_image k p Hk Hp RM Hb). exact Ht.
Qed.

Lemma inv_inv k : k < 8 -> Sym.inv (Sym.inv k) = k.
Proof. intros H. do 8 (destruct k as [|k]; [reflexivity|]). lia. Qed.

Lemma imgk_inv k p : k < 8 -> G p -> imgk (imgk p k) (Sym.inv k) = p.
Proof.
  intros Hk ([Hp RM Hb _] & _). unfold imgk at 1.
  destruct (image_fields p (csym (N.to_nat (size p)) k) Hp) as (E1 & _). fold (imgk p k) in E1. rewrite E1.
  exact (image_image_inv k p Hk Hp RM Hb).
Qed.

(* a successor of p, seen in the image *)
Lemma child_image k p c : k < 8 -> G p -> In c (children gen_basis p) -> G c /\ In (imgk c k) (children gen_basis (imgk p k)).
Proof.
  intros Hk (Hg & Ht) Hc. apply in_children_mv in Hc. destruct Hc as (m & Hm & E).
  pose proof Hg as [Hp RM Hb Ho].
  pose proof (OpeningFacts2.mv_not_pass _ _ _ E) as Hnp.
  destruct (move_preserves_small p m c Hp Ht Hnp E) as (R & Hp' & ST).
  assert (H64 : heights64 c) by (apply total_heights64; rewrite (st_total _ _ ST); exact Ht).
  destruct (AllMovesFacts2.allmoves_on_board p m Hm) as (HT & (OX & OY) & _).
  pose proof (po_size _ Hp) as Hsz.
  assert (BND : (-64 <= mX m < 64)%Z /\ (-64 <= mY m < 64)%Z /\ (mT m <= 8)%N) by (cbn [fst snd] in OX, OY; lia).
  destruct (good_move p m c Hg E H64 BND) as (Hg' & _).
  split; [split; [exact Hg'|rewrite (st_total _ _ ST); exact Ht]|].
  assert (Htr : transformable m).
  { unfold transformable. destruct BND as (B1 & B2 & B3). repeat split; try lia. intros H5. exact (rules_slide_nonzero _ _ _ R H5). }
  assert (Hf : fits64 p m) by (eapply lm_fits64; eassumption).
  pose proof (image_move_commutes k p m Hk Hp RM Hb Hf Htr Hnp) as C. cbv zeta in C.
  destruct (transform_move (csym (N.to_nat (size p)) k) m) as [sm| |]; try contradiction.
  rewrite E in C. destruct C as (C1 & _).
  assert (ESZ : size c = size p) by (exact (st_size _ _ ST)).
  unfold imgk. rewrite ESZ.
  pose proof (image_pos_ok p (csym (N.to_nat (size p)) k) Hp) as Hq.
  pose proof (OpeningFacts2.mv_not_pass _ _ _ C1) as Hnps.
  destruct (AllMovesFacts3.allmoves_complete _ sm _ (pos_ok_wf _ Hq) Hnps C1) as (g & Hgin & EQ).
  apply in_children_mv. exists g. split; [exact Hgin|].
  change (AllMovesFacts2.move_equal g sm) with (Search.move_equal g sm) in EQ.
  pose proof (move_equal_try gen_basis (image gen_basis p (csym (N.to_nat (size p)) k)) g sm EQ) as ET.
  rewrite (try_ok gen_basis _ sm Hnps), (try_ok gen_basis _ g (all_moves_okm _ g Hgin)), (mvp_mv _ g), (mvp_mv _ sm), C1 in ET.
  destruct (Refine.mv (image gen_basis p (csym (N.to_nat (size p)) k)) g); try discriminate. inversion ET; reflexivity.
Qed.

(* ... and conversely: every successor of the image is the image of a successor *)
Lemma child_image_inv k p c' : k < 8 -> G p -> In c' (children gen_basis (imgk p k)) -> exists c, In c (children gen_basis p) /\ G c /\ c' = imgk c k.
Proof.
  intros Hk HG Hc'. pose proof (inv_lt k Hk) as Hik.
  destruct (child_image (Sym.inv k) (imgk p k) c' Hik (G_image k p Hk HG) Hc') as (HGc' & Hin).
  rewrite (imgk_inv k p Hk HG) in Hin.
  destruct (child_image k p (imgk c' (Sym.inv k)) Hk HG Hin) as (HGc & _).
  exists (imgk c' (Sym.inv k)). split; [exact Hin|]. split; [exact HGc|].
  pose proof (imgk_inv (Sym.inv k) c' Hik HGc') as E. rewrite (inv_inv k Hk) in E. symmetry. exact E.
Qed.

Lemma is_over_image k p : k < 8 -> G p -> is_over (imgk p k) = is_over p.
Proof.
  intros Hk ([Hp RM Hb _] & _). unfold is_over, imgk. destruct (image_gameover_invariant k p Hk Hp RM Hb) as (E & _). cbv zeta in E. rewrite E. reflexivity.
Qed.

(* generic in the hash function: no proof step unfolds Position.Hash *)
Lemma in_map_hash (h : position -> N) (l : list (position * nat)) x :
  In x (map (fun pi => h (fst pi)) l) -> exists r j, In (r, j) l /\ x = h r.
Proof. intros H. apply in_map_iff in H. destruct H as ([r j] & E & Hr). exists r, j. split; [exact Hr|symmetry; exact E]. Qed.

(* over an abstract basis, so that the kernel never evaluates the hash functions on the regenerated constants *)
Lemma sym_hashes_in (basis : list N) q x : In x (sym_hashes basis q) -> exists r j, In (r, j) (Symmetry.symmetries basis q) /\ x = hash_of r.
Proof. unfold sym_hashes. apply in_map_hash. Qed.

Lemma cache_hit q' x : G q' -> In x (sym_hashes gen_basis q') -> exists j, j < 8 /\ x = hash_of (imgk q' j).
Proof.
  intros ([Hp' RM' Hb' _] & _) Hin. destruct (sym_hashes_in gen_basis q' x Hin) as (r & j & Hr & Eh).
  destruct (symmetries_abs q' r j Hp' RM' Hb' Hr) as (Hj & -> & _). exists j. split; assumption.
Qed.

Section Inv.
Variable eval : position -> Z.
Hypothesis eval_symmetric : forall p k, k < 8 -> G p -> eval (imgk p k) = eval p.

Theorem nmx_image : forall d p k, k < 8 -> G p -> nmx gen_basis eval d (imgk p k) = nmx gen_basis eval d p.
Proof.
  induction d; intros p k Hk HG; [rewrite !nmx_0; apply eval_symmetric; assumption|].
  pose proof (is_over_image k p Hk HG) as EO. destruct (is_over p) eqn:EP.
  { rewrite (nmx_over gen_basis eval (S d) _ EO), (nmx_over gen_basis eval (S d) p EP). apply eval_symmetric; assumption. }
  destruct (children gen_basis p) as [|c0 r] eqn:EC.
  { (* no successor on either side *)
    assert (EC' : children gen_basis (imgk p k) = []).
    { destruct (children gen_basis (imgk p k)) as [|c' r'] eqn:E'; [reflexivity|].
      destruct (child_image_inv k p c' Hk HG ltac:(rewrite E'; left; reflexivity)) as (c & Hc & _). rewrite EC in Hc. destruct Hc. }
    rewrite (nmx_S gen_basis eval d _ EO), (nmx_S gen_basis eval d p EP), EC, EC'. apply eval_symmetric; assumption. }
  assert (NE : children gen_basis p <> []) by (rewrite EC; discriminate).
  assert (NE' : children gen_basis (imgk p k) <> []).
  { destruct (child_image k p c0 Hk HG ltac:(rewrite EC; left; reflexivity)) as (_ & Hin). intros F. rewrite F in Hin. destruct Hin. }
  clear EC. apply Z.le_antisymm.
  - destruct (nmx_attained gen_basis eval d _ EO NE') as (c' & Hc' & E). rewrite E.
    destruct (child_image_inv k p c' Hk HG Hc') as (c & Hc & HGc & ->). rewrite (IHd c k Hk HGc). apply nmx_ge; assumption.
  - destruct (nmx_attained gen_basis eval d p EP NE) as (c & Hc & E). rewrite E.
    destruct (child_image k p c Hk HG Hc) as (HGc & Hin). rewrite <- (IHd c k Hk HGc). apply nmx_ge; assumption.
Qed.

(* the hash hypothesis of the cache: among the successors of one node, a successor with the hash of an image IS that image *)
Definition dedup_nocollision (Pos : nat -> position -> Prop) : Prop :=
  forall d p q q' k, Pos (S d) p -> is_over p = false -> (move p < max_dedup)%Z -> In q (children gen_basis p) -> In q' (children gen_basis p) ->
    k < 8 -> phash q = hash_of (imgk q' k) -> q = imgk q' k.

Theorem sym_skip_ok (Pos : nat -> position -> Prop) : (forall d p, Pos d p -> G p) -> dedup_nocollision Pos ->
  forall d p q q', Pos (S d) p -> is_over p = false -> (move p < max_dedup)%Z ->
  In q (children gen_basis p) -> In q' (children gen_basis p) -> In (phash q) (sym_hashes gen_basis q') ->
  nmx gen_basis eval d q = nmx gen_basis eval d q'.
Proof.
  intros HG NC d p q q' Hp EO Hm Hq Hq' Hin.
  destruct (child_image 0 p q' ltac:(lia) (HG _ _ Hp) Hq') as (HGq' & _).
  destruct (cache_hit q' (phash q) HGq' Hin) as (j & Hj & Eh).
  rewrite (NC d p q q' j Hp EO Hm Hq Hq' Hj Eh). apply nmx_image; assumption.
Qed.
End Inv.

(* ---- ai.EvaluateWinner is invariant under the images ---- *)
Lemma ewinner_symmetric p k : k < 8 -> G p -> evaluate_winner (imgk p k) = evaluate_winner p.
Proof.
  intros Hk ([Hp RM Hb _] & _). unfold evaluate_winner, imgk.
  destruct (image_gameover_invariant k p Hk Hp RM Hb) as (E & _). cbv zeta in E. rewrite E.
  destruct (image_fields p (csym (N.to_nat (size p)) k) Hp) as (_ & E2 & _). unfold to_move_white. rewrite E2. reflexivity.
Qed.
