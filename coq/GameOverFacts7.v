(* C02, part 7: the end-of-game theorem for the positions of real games.  GameOverFacts4.game_over_correct asks `inv p`
   (C01's board_ok, no bit outside the board, byte reserves that do not wrap); every position that satisfies the exact C01
   invariant pos_ok and belongs to a game of at most 255 pieces satisfies it, and every position replayed from tak.New
   through accepted moves is such a position (Reach1.reachable_ok) - so for real games no hypothesis about the position is left:
   the engine's verdict is the verdict of the rules at the position the rules reach. *)
From Coq Require Import NArith ZArith List Bool Lia.
Require Import Board Stack Rules Move GameOver Refine RefinePlace RefinePlace2 Slide2 Slide6 MoveRefines Preserve1 Reach1 Alloc.
Require Import GameOverFacts1 GameOverFacts2 GameOverFacts4.

Lemma pos_ok_inv_total p : pos_ok p -> (total p <= 255)%N -> inv p.
Proof.
  intros [Hs Hb _ [_ _ _ (Mw & Mb & _ & _) _]] Ht. cbn [bview bw bb] in *. unfold total in Ht.
  constructor; try assumption; try lia.
  - intros i Hi. destruct (N.lt_ge_cases i (size p * size p)) as [L|L]; [exact L|]. rewrite (Mw i L) in Hi. discriminate.
  - intros i Hi. destruct (N.lt_ge_cases i (size p * size p)) as [L|L]; [exact L|]. rewrite (Mb i L) in Hi. discriminate.
Qed.

Theorem game_over_correct_game sz bwt stones caps ms p :
  (3 <= sz <= 8)%N -> (2 * (stones + caps) <= 64)%N -> no_pass ms ->
  replay (new_pos sz bwt stones caps) ms = Ok p ->
  play (rules_start (N.to_nat sz) stones caps bwt) (map raw ms) = Some (abs p) /\
  exists o,
    Outcome (abs p) o /\ (forall o', Outcome (abs p) o' -> o' = o) /\
    game_over p = Some (outcome_over o, outcome_winner o) /\
    win_details p = Some (outcome_details (abs p) o) /\
    result_from_game (outcome_details (abs p) o) = outcome_text o.
Proof.
  intros Hs Ht Hn Hr. destruct (reachable_ok sz bwt stones caps ms p Hs Ht Hn Hr) as (Hp & Htot & _ & Hplay).
  split; [exact Hplay|]. apply game_over_correct. apply pos_ok_inv_total; [exact Hp|]. rewrite Htot. lia.
Qed.
Print Assumptions game_over_correct_game.
