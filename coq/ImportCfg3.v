(* C14, custom configurations, part 3: move_equivariant, the commuting square field for field, gameover_invariant INCLUDING the
   tie-break flag, and image-of-image for q := SymmetryCfg.image_cfg (the image Symmetries builds with p.Config()).
   The only hypothesis on p beyond the C01 invariant: reserves_match_cfg stones caps p (its reserves are the configuration's counts
   minus the pieces on its board) - true at tak.New(cfg), of every FromSquares(cfg, ...) (from_squares_cfg_matches), preserved by
   every move and by every image.  The flag is carried over: no hypothesis on it. *)
From Coq Require Import NArith ZArith Arith List Bool Lia ZifyN ZifyBool ZifyNat Permutation.
Require Import Rules Sym SymRules1 SymRules2 SymRules3 SymRules4.
Require Import Board Stack Move Refine Slide2 MoveRefines HashInv GameOver Preserve1 Preserve5 Preserve6 Reach1.
Require Import Alloc Generated.Consts.
Require Import Tps TpsCfg Symmetry SymmetryCfg SymCode1 Canon2 SymCode2 SymCode3 SymCode4 GameOverFacts1 GameOverFacts2.
Require Import TpsFacts TpsFacts2 TpsFacts3 TpsFacts4 TpsFacts5 TpsFacts6 TpsFacts8 TpsFacts9 Import1 Import3 Import4 ImportCfg1 ImportCfg2.
Import ListNotations.
Close Scope Z_scope. Close Scope N_scope.

(* ---- FromSquares under a configuration yields matching reserves ---- *)
Theorem from_squares_cfg_matches n stones caps bwt board mv : fit_board n board ->
  reserves_match_cfg stones caps (from_squares_cfg gen_basis (N.of_nat n) stones caps bwt board mv).
Proof.
  intros FB. rewrite (fsc_set n stones caps bwt board mv FB). unfold reserves_match_cfg. rewrite cfg_reserves_p_set.
  destruct (canon_facts gen_basis n board mv (fit_valid n board FB)) as (E1 & _ & _ & Eb).
  set (q := from_squares gen_basis (N.of_nat n) board mv) in *.
  assert (Ec : concat (cells_of q) = pieces_of board).
  { unfold pieces_of. now rewrite <- cells_board, Eb, flat_map_id_concat. }
  unfold cfg_reserves_p. rewrite Ec, E1, Nat2N.id.
  cbn [set_cfg whiteStones whiteCaps blackStones blackCaps].
  now destruct (cfg_reserves n stones caps (pieces_of board)) as [[[? ?] ?] ?].
Qed.
Print Assumptions from_squares_cfg_matches.

(* ---- move_equivariant for q := the image rebuilt under the configuration ---- *)
Theorem image_cfg_move_equivariant stones caps k p m : k < 8 -> pos_ok p -> reserves_match_cfg stones caps p ->
  fits64 p m -> transformable m -> mT m <> 1%N ->
  let s := csym (N.to_nat (size p)) k in
  match transform_move s m with
  | Ok m' => match mv p m, mv (image_cfg gen_basis stones caps p s) m' with
             | Ok p', Ok q' => abs q' = img k (abs p') /\ pos_ok p' /\ pos_ok q'
             | Err, Err => True
             | _, _ => False
             end
  | _ => False
  end.
Proof.
  intros Hk Hp RM Hf Ht Hm s. apply move_equivariant64_code; try assumption.
  - now apply image_cfg_pos_ok.
  - now apply image_cfg_abs.
Qed.
Print Assumptions image_cfg_move_equivariant.

(* the commuting square, field for field: Move (image p) (TransformMove m) = image (Move p m); the successor satisfies the hypotheses again *)
Theorem image_cfg_move_commutes stones caps k p m : k < 8 -> pos_ok p -> reserves_match_cfg stones caps p ->
  fits64 p m -> transformable m -> mT m <> 1%N ->
  let s := csym (N.to_nat (size p)) k in
  match transform_move s m with
  | Ok m' => match mv p m with
             | Ok p' => mv (image_cfg gen_basis stones caps p s) m' = Ok (image_cfg gen_basis stones caps p' s) /\
                        pos_ok p' /\ reserves_match_cfg stones caps p' /\ Move.black_wins_ties p' = Move.black_wins_ties p
             | Err => mv (image_cfg gen_basis stones caps p s) m' = Err
             | Panic => False
             end
  | _ => False
  end.
Proof.
  intros Hk Hp RM Hf Ht Hm s.
  pose proof (image_cfg_move_equivariant stones caps k p m Hk Hp RM Hf Ht Hm) as H. cbv zeta in H. fold s in H.
  pose proof (move_refines_rules64 p m Hp Hf Hm) as R.
  destruct (transform_move s m) as [m'| |]; try contradiction.
  destruct (mv p m) as [p'| |]; destruct (mv (image_cfg gen_basis stones caps p s) m') as [q'| |]; try contradiction; try reflexivity.
  destruct H as (E & Hp' & Hq'). destruct R as (Rr & _ & [S1 S2 _ _ _ _]).
  assert (RM' : reserves_match_cfg stones caps p') by (apply (move_matches_cfg stones caps p m p'); assumption).
  split; [|auto]. f_equal. apply pos_ok_eq; [exact Hq'|now apply image_cfg_pos_ok|].
  rewrite E. subst s. rewrite <- S1. symmetry. now apply image_cfg_abs.
Qed.
Print Assumptions image_cfg_move_commutes.

(* ---- gameover_invariant, tie-break flag included ---- *)
(* C02's domain: the byte sums `whiteStones+whiteCaps`, `blackStones+blackCaps` GameOver tests do not wrap *)
Definition res_sums_ok (p : position) : Prop :=
  (whiteStones p + whiteCaps p < 256)%N /\ (blackStones p + blackCaps p < 256)%N.

Lemma pos_ok_sums_inv p : pos_ok p -> res_sums_ok p -> GameOverFacts2.inv p.
Proof.
  intros [Hs Hb _ [_ _ _ (Mw & Mb & _ & _) _]] [S1 S2]. cbn [bview bw bb] in *.
  constructor; try assumption.
  - intros i Hi. destruct (N.lt_ge_cases i (size p * size p)) as [L|L]; [exact L|]. rewrite (Mw i L) in Hi. discriminate.
  - intros i Hi. destruct (N.lt_ge_cases i (size p * size p)) as [L|L]; [exact L|]. rewrite (Mb i L) in Hi. discriminate.
Qed.

Theorem image_cfg_gameover_invariant stones caps k p : k < 8 -> pos_ok p -> reserves_match_cfg stones caps p -> res_sums_ok p ->
  let q := image_cfg gen_basis stones caps p (csym (N.to_nat (size p)) k) in
  Move.black_wins_ties q = Move.black_wins_ties p /\ game_over q = game_over p /\ win_details q = win_details p.
Proof.
  intros Hk Hp RM [S1 S2] q.
  pose proof (image_cfg_abs stones caps k p Hk Hp RM) as E. fold q in E.
  destruct (image_cfg_fields stones caps p (csym (N.to_nat (size p)) k) Hp) as (_ & _ & Eb & _). fold q in Eb.
  split; [exact Eb|]. apply (gameover_invariant k p q Hk).
  - now apply pos_ok_sums_inv.
  - apply pos_ok_sums_inv; [now apply image_cfg_pos_ok|].
    assert (A1 := f_equal wstones E). assert (A2 := f_equal wcaps E). assert (A3 := f_equal bstones E). assert (A4 := f_equal bcaps E).
    unfold abs, img in A1, A2, A3, A4. cbn [wstones wcaps bstones bcaps] in A1, A2, A3, A4.
    unfold res_sums_ok. rewrite A1, A2, A3, A4. split; assumption.
  - exact E.
Qed.
Print Assumptions image_cfg_gameover_invariant.

(* ---- an image undone by the inverse symmetry is the position itself, field for field ---- *)
Theorem image_cfg_image_inv stones caps k p : k < 8 -> pos_ok p -> reserves_match_cfg stones caps p ->
  let n := N.to_nat (size p) in
  image_cfg gen_basis stones caps (image_cfg gen_basis stones caps p (csym n k)) (csym n (Sym.inv k)) = p.
Proof.
  intros Hk Hp RM n. subst n. set (q := image_cfg gen_basis stones caps p (csym (N.to_nat (size p)) k)).
  destruct (image_cfg_fields stones caps p (csym (N.to_nat (size p)) k) Hp) as (E1 & _). fold q in E1.
  assert (Hq : pos_ok q) by now apply image_cfg_pos_ok.
  assert (RMq : reserves_match_cfg stones caps q) by now apply image_cfg_matches.
  rewrite <- E1. apply pos_ok_eq; [now apply image_cfg_pos_ok|exact Hp|].
  rewrite (image_cfg_abs stones caps (Sym.inv k) q (inv_lt k Hk) Hq RMq). unfold q. rewrite (image_cfg_abs stones caps k p Hk Hp RM).
  apply img_inv; [exact Hk|]. apply abs_well_shaped. apply (po_size _ Hp).
Qed.
Print Assumptions image_cfg_image_inv.

(* ---- tak.New(cfg) and every replay from it satisfy the hypotheses ---- *)
Lemma cfg_pieces_id sz stones : (0 < stones < 256)%N -> u8 (cfg_pieces sz stones) = stones.
Proof. intros H. unfold cfg_pieces. replace (stones =? 0)%N with false by lia. unfold u8. apply N.mod_small. lia. Qed.
Lemma cfg_caps_id sz caps : (0 < caps < 256)%N -> u8 (cfg_caps sz caps) = caps.
Proof. intros H. unfold cfg_caps. replace (caps =? 0)%N with false by lia. unfold u8. apply N.mod_small. lia. Qed.

Lemma bcnt_repeat_nil' f k : bcnt f (repeat [] k) = 0%N.
Proof. induction k as [|k IH]; cbn [repeat bcnt cnt]; [reflexivity|]. rewrite IH. reflexivity. Qed.

(* S, C: the effective counts of the configuration (after tak.New's defaulting), as bytes *)
Theorem reachable_matches_cfg sz bwt stones caps ms p : (3 <= sz <= 8)%N ->
  (2 * (cfgS (N.to_nat sz) stones + cfgC (N.to_nat sz) caps) <= 64)%N -> no_pass ms ->
  replay (Alloc.new_pos sz bwt (cfgS (N.to_nat sz) stones) (cfgC (N.to_nat sz) caps)) ms = Ok p ->
  pos_ok p /\ reserves_match_cfg stones caps p /\ res_sums_ok p /\ Move.black_wins_ties p = bwt /\ size p = sz.
Proof.
  intros Hsz Hc Hnp Hr. set (S := cfgS (N.to_nat sz) stones) in *. set (C := cfgC (N.to_nat sz) caps) in *.
  destruct (reachable_ok sz bwt S C ms p Hsz Hc Hnp Hr) as (A & T & Es & Pl).
  destruct (new_ok sz bwt S C Hsz ltac:(lia) ltac:(lia)) as (N1 & N2 & N3).
  pose proof (replay_refines ms _ N1 ltac:(rewrite N3; lia) Hnp) as R. rewrite Hr in R. destruct R as (_ & _ & _ & _ & B & _).
  assert (L0 : length (sq (rules_start (N.to_nat sz) S C bwt)) = (Rules.n (rules_start (N.to_nat sz) S C bwt) * Rules.n (rules_start (N.to_nat sz) S C bwt))%nat).
  { cbn [rules_start sq Rules.n]. now rewrite repeat_length. }
  destruct (play_cons4 (map raw ms) _ _ L0 Pl) as (Cn & _ & _).
  unfold cons4 in Cn at 2. cbn [rules_start wstones wcaps bstones bcaps sq] in Cn. rewrite !bcnt_repeat_nil', !N.add_0_r in Cn.
  split; [exact A|]. split; [|split; [|split; [|exact Es]]].
  - apply cons4_matches; [exact A|]. rewrite Es. exact Cn.
  - unfold total in T. unfold res_sums_ok. lia.
  - rewrite B. reflexivity.
Qed.
Print Assumptions reachable_matches_cfg.
