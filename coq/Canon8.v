(* C08: canonical representation.  Two positions satisfying the invariant that show the same squares
   have the same bitboards, heights, stack words and incremental hash; Equal is sound and complete for
   "same size, same squares, same side to move". *)
From Coq Require Import NArith ZArith Arith List Bool Lia ZifyN ZifyBool ZifyNat.
Require Import Board Stack Rules Move Refine RefinePlace RefinePlace2 RefinePlace3 Slide1 Slide2 Slide3 Slide4 Slide5 Slide6 Slide7 Slide8 MoveRefines HashInv GameOver Preserve1 Preserve2 PreserveExt Preserve3 Preserve4 Preserve5 Preserve6 Reach1 HashMove1.
Require Import Alloc Generated.Consts.
Import ListNotations.
Ltac Zify.zify_post_hook ::= Z.div_mod_to_equations.

Lemma flats_inj a b : flats a = flats b -> a = b.
Proof.
  revert b. induction a as [|x a IH]; intros [|y b] H; cbn in H; try discriminate; [reflexivity|].
  injection H as H1 H2. f_equal; [destruct x, y; cbn in H1; congruence|auto].
Qed.

Lemma bits_eq_testbit k x y : bits k x = bits k y -> forall j, (j < k)%nat -> N.testbit x (N.of_nat j) = N.testbit y (N.of_nat j).
Proof. intros H j Hj. rewrite <- (nth_bits k x j false Hj), <- (nth_bits k y j false Hj). now rewrite H. Qed.

(* one square *)
Lemma sq_canon b c i : sq_ok b i -> sq_ok c i -> stk_ok b i -> stk_ok c i ->
  abs_stack_b b i = abs_stack_b c i ->
  nthN (bhs b) i = nthN (bhs c) i /\ nthN (bst b) i = nthN (bst c) i /\
  has (bw b) i = has (bw c) i /\ has (bb b) i = has (bb c) i /\ has (bs b) i = has (bs c) i /\ has (bc b) i = has (bc c) i.
Proof.
  intros [Hh Ho Hx Ht Hs] [Hh' Ho' Hx' Ht' Hs'] Sb Sc E.
  assert (EH : nthN (bhs b) i = nthN (bhs c) i).
  { assert (L := f_equal (@length _) E). rewrite !length_abs_stack_b in L. lia. }
  split; [exact EH|].
  unfold abs_stack_b in E. rewrite <- EH in *. set (h := nthN (bhs b) i) in *.
  destruct (N.eqb_spec h 0) as [E0|E0].
  - destruct (proj1 Ho E0) as [A1 A2]. destruct (proj1 Ho' E0) as [B1 B2].
    destruct (Ht E0) as [A3 A4]. destruct (Ht' E0) as [B3 B4].
    split; [|repeat split; congruence].
    apply N.bits_inj. intros j. unfold stk_ok in *. fold h in Sb. rewrite Sb, Sc by lia. reflexivity.
  - injection E as E1 E2 E3.
    assert (EB : has (bb b) i = has (bb c) i) by (destruct (has (bb b) i), (has (bb c) i); cbn in E1; congruence).
    assert (EW : has (bw b) i = has (bw c) i).
    { assert (Nb : ~ (has (bw b) i = false /\ has (bb b) i = false)) by (intros X; apply E0, Ho, X).
      assert (Nc : ~ (has (bw c) i = false /\ has (bb c) i = false)) by (intros X; apply E0, Ho', X).
      clear Ho Ho'. destruct (has (bw b) i), (has (bb b) i), (has (bw c) i), (has (bb c) i); cbn in Hx, Hx'; try congruence; tauto. }
    assert (ES : has (bs b) i = has (bs c) i /\ has (bc b) i = has (bc c) i).
    { unfold kind_of in E2. destruct (has (bs b) i), (has (bc b) i), (has (bs c) i), (has (bc c) i); cbn in Hs, Hs'; try discriminate; auto. }
    split; [|tauto].
    apply flats_inj in E3. apply N.bits_inj. intros j.
    destruct (N.lt_ge_cases j (h - 1)) as [L|L].
    + assert (T := bits_eq_testbit _ _ _ E3 (N.to_nat j) ltac:(lia)). now rewrite N2Nat.id in T.
    + unfold stk_ok in *. fold h in Sb. rewrite Sb, Sc by lia. reflexivity.
Qed.

Lemma word_canon sz x y : (sz * sz <= 64)%N -> hi_clear sz x -> hi_clear sz y ->
  (forall i, (i < sz * sz)%N -> has x i = has y i) -> x = y.
Proof.
  intros Hs Hx Hy H. apply N.bits_inj. intros j.
  destruct (N.lt_ge_cases j (sz * sz)) as [L|L].
  - rewrite <- !has_spec by lia. now apply H.
  - now rewrite Hx, Hy.
Qed.

Lemma list_canon (a b : list N) n : length a = n -> length b = n ->
  (forall i, (i < n)%nat -> nthN a (N.of_nat i) = nthN b (N.of_nat i)) -> a = b.
Proof.
  intros La Lb H. apply (nth_ext _ _ 0%N 0%N); [congruence|].
  intros i Hi. specialize (H i ltac:(lia)). unfold nthN in H. now rewrite Nat2N.id in H.
Qed.

Lemma sq_abs_nth p j : (j < size p * size p)%N -> nth (N.to_nat j) (sq (abs p)) [] = abs_stack_b (bview p) j.
Proof. intros Hj. rewrite sq_abs_board. apply nth_abs_board. unfold nsq. nia. Qed.

Theorem representation_canonical p q : pos_ok p -> pos_ok q -> size p = size q -> sq (abs p) = sq (abs q) ->
  White p = White q /\ Move.Black p = Move.Black q /\ Standing p = Standing q /\ Caps p = Caps q /\
  Height p = Height q /\ Stacks p = Stacks q /\ hash p = hash q.
Proof.
  intros [Hsz [LH LS SQ] _ [_ _ ST (M1 & M2 & M3 & M4) HS]] [Hsz' [LH' LS' SQ'] _ [_ _ ST' (M1' & M2' & M3' & M4') HS']] Es Eq.
  cbn [bview bhs bst bw bb bs bc bh] in *. rewrite <- Es in *.
  assert (Hall : forall i, (i < size p * size p)%N ->
     nthN (Height p) i = nthN (Height q) i /\ nthN (Stacks p) i = nthN (Stacks q) i /\
     has (White p) i = has (White q) i /\ has (Move.Black p) i = has (Move.Black q) i /\
     has (Standing p) i = has (Standing q) i /\ has (Caps p) i = has (Caps q) i).
  { intros i Hi. apply (sq_canon (bview p) (bview q) i (SQ i Hi) (SQ' i Hi) (ST i Hi) (ST' i Hi)).
    rewrite <- (sq_abs_nth p i Hi), <- (sq_abs_nth q i) by (rewrite <- Es; exact Hi). now rewrite Eq. }
  assert (H64 : (size p * size p <= 64)%N) by nia.
  assert (EH : Height p = Height q).
  { apply (list_canon _ _ (nsq (size p)) LH LH'). intros i Hi. apply Hall. unfold nsq in Hi. nia. }
  assert (ESt : Stacks p = Stacks q).
  { apply (list_canon _ _ (nsq (size p)) LS LS'). intros i Hi. apply Hall. unfold nsq in Hi. nia. }
  split; [apply (word_canon (size p)); auto; intros; now apply Hall|].
  split; [apply (word_canon (size p)); auto; intros; now apply Hall|].
  split; [apply (word_canon (size p)); auto; intros; now apply Hall|].
  split; [apply (word_canon (size p)); auto; intros; now apply Hall|].
  split; [exact EH|]. split; [exact ESt|].
  unfold hash_inv in HS, HS'. cbn [bview bh bhs bst] in HS, HS'. rewrite HS, HS', EH, ESt. reflexivity.
Qed.
Print Assumptions representation_canonical.

(* ---- Position.Equal ---- *)
Lemma lists_eqb_refl a : lists_eqb a a = true.
Proof. induction a; cbn; [reflexivity|]. now rewrite N.eqb_refl. Qed.

Lemma lists_eqb_eq : forall a b, length a = length b -> lists_eqb a b = true -> a = b.
Proof.
  induction a as [|x a IH]; intros [|y b] L H; cbn in *; try discriminate; [reflexivity|].
  apply andb_prop in H as [H1 H2]. apply N.eqb_eq in H1. f_equal; auto.
Qed.

Definition same_side (p q : position) : Prop := to_move_white p = to_move_white q.

(* soundness needs only the list lengths of the invariant *)
Theorem equal_sound p q : pos_ok p -> pos_ok q -> equal p q = true ->
  size p = size q /\ sq (abs p) = sq (abs q) /\ same_side p q /\ Rules.to_move (abs p) = Rules.to_move (abs q).
Proof.
  intros [_ [LH LS _] _ _] [_ [LH' LS' _] _ _] E. cbn [bview bhs bst] in *. unfold equal in E.
  repeat match type of E with (_ && _ = true) => apply andb_prop in E as [E ?] end.
  apply N.eqb_eq in E. rewrite <- E in *.
  assert (EH : Height p = Height q) by (apply lists_eqb_eq; congruence).
  assert (ES : Stacks p = Stacks q) by (apply lists_eqb_eq; congruence).
  repeat match goal with H : (_ =? _)%N = true |- _ => apply N.eqb_eq in H end.
  match goal with H : Bool.eqb _ _ = true |- _ => apply eqb_prop in H; rename H into ET end.
  split; [reflexivity|]. split; [|split; [exact ET|unfold Rules.to_move, abs; cbn [ply]; unfold to_move_white in ET; now rewrite ET]].
  unfold abs; cbn [sq]. rewrite <- E. apply map_ext. intros i. unfold abs_stack. rewrite EH, ES.
  repeat match goal with H : ?f p = ?f q |- _ => rewrite H; clear H end. reflexivity.
Qed.
Print Assumptions equal_sound.

Theorem equal_complete p q : pos_ok p -> pos_ok q -> size p = size q -> sq (abs p) = sq (abs q) -> same_side p q ->
  equal p q = true /\ hash_of p = hash_of q.
Proof.
  intros Hp Hq Es Eq ET.
  destruct (representation_canonical p q Hp Hq Es Eq) as (A1 & A2 & A3 & A4 & A5 & A6 & A7).
  split.
  - unfold equal. rewrite Es, A1, A2, A3, A4, A5, A6, A7, ET, !N.eqb_refl, !lists_eqb_refl, eqb_reflx. reflexivity.
  - unfold hash_of. now rewrite A1, A2, A3, A4, A7, ET.
Qed.
Print Assumptions equal_complete.

(* path independence: however two positions were produced from tak.New (game of at most 64 pieces) *)
Corollary equal_hash_path_independent sz bwt stones caps ms1 ms2 p q :
  (3 <= sz <= 8)%N -> (2 * (stones + caps) <= 64)%N -> no_pass ms1 -> no_pass ms2 ->
  replay (new_pos sz bwt stones caps) ms1 = Ok p -> replay (new_pos sz bwt stones caps) ms2 = Ok q ->
  sq (abs p) = sq (abs q) -> same_side p q ->
  equal p q = true /\ hash_of p = hash_of q /\ hash p = hash q.
Proof.
  intros Hsz Hc H1 H2 R1 R2 Eq ET.
  destruct (reachable_ok _ _ _ _ _ _ Hsz Hc H1 R1) as (P1 & _ & S1 & _).
  destruct (reachable_ok _ _ _ _ _ _ Hsz Hc H2 R2) as (P2 & _ & S2 & _).
  destruct (equal_complete p q P1 P2 ltac:(congruence) Eq ET) as [A B].
  destruct (representation_canonical p q P1 P2 ltac:(congruence) Eq) as (_ & _ & _ & _ & _ & _ & C). auto.
Qed.
Print Assumptions equal_hash_path_independent.
