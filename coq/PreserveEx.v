(* Non-vacuity of the C01/C08 theorems of Preserve*.v, Reach1.v, HashMove1.v, Canon8.v: concrete,
   non-trivial objects satisfying their hypotheses. *)
From Coq Require Import NArith ZArith Arith List Bool Lia.
Require Import Board Stack Rules Move Refine GameOver Alloc Preserve1 Preserve5 Preserve6 Reach1 HashMove1 Canon8 Generated.Consts.
Import ListNotations.

Definition M t x y s := {| mX := x; mY := y; mT := t; mS := s |}.

(* a 5x5 game: 14 plies building a 5-high stack at e2, a black wall at e3, the white capstone at e4 *)
Definition ms14 : list rmove :=
  [M 2 0 0 0; M 2 4 4 0; M 2 1 0 0; M 2 1 1 0; M 7 1 0 1; M 2 2 1 0; M 6 1 1 2; M 2 3 1 0; M 6 2 1 3; M 2 4 1 0;
   M 6 3 1 4; M 3 4 2 0; M 4 4 3 0; M 2 0 4 0]%Z%N.
Definition start5 := new_pos 5 false 21 1.
Definition p14 : position := match replay start5 ms14 with Ok p => p | _ => start5 end.

Lemma no_pass_ms14 : no_pass ms14.
Proof. unfold no_pass, ms14. repeat constructor; discriminate. Qed.

Lemma replay_ms14 : replay start5 ms14 = Ok p14.
Proof. vm_compute. reflexivity. Qed.

(* hypotheses of replay_refines / reachable_ok *)
Example ex_reachable : pos_ok p14 /\ total p14 = 44%N /\
  nth 9 (sq (abs p14)) [] = [(Rules.White, Flat); (Rules.Black, Flat); (Rules.Black, Flat); (Rules.Black, Flat); (Rules.Black, Flat)] /\
  play (rules_start 5 21 1 false) (map raw ms14) = Some (abs p14).
Proof.
  destruct (reachable_ok 5 false 21 1 ms14 p14 ltac:(lia) ltac:(lia) no_pass_ms14 replay_ms14) as (A & B & _ & C).
  split; [exact A|]. split; [exact B|]. split; [vm_compute; reflexivity|exact C].
Qed.

(* hypotheses of move_exact / move_refines_rules64: the capstone flattens the wall ... *)
Definition m_flatten := M 8 4 3 1.
Example ex_flatten : pos_ok p14 /\ fits64 p14 m_flatten /\ mT m_flatten <> 1%N /\
  exists p', mv p14 m_flatten = Ok p' /\ nth 14 (sq (abs p')) [] = [(Rules.White, Cap); (Rules.Black, Flat)].
Proof.
  split; [apply ex_reachable|]. split; [|split; [discriminate|]].
  - intros s Hs. vm_compute in Hs. injection Hs as <-. repeat constructor.
  - eexists. split; [vm_compute; reflexivity|vm_compute; reflexivity].
Qed.

(* ... and the 5-high stack is dealt out 2,1,1,1 along the row *)
Definition m_long := M 5 4 1 4370.
Example ex_long_slide : pos_ok p14 /\ fits64 p14 m_long /\ mT m_long <> 1%N /\
  exists p', mv p14 m_long = Ok p' /\
    firstn 5 (skipn 5 (sq (abs p'))) =
      [[(Rules.White, Flat)]; [(Rules.Black, Flat)]; [(Rules.Black, Flat)]; [(Rules.Black, Flat); (Rules.Black, Flat)]; []] /\
    scratch_hash gen_basis p' = hash p'.
Proof.
  split; [apply ex_reachable|]. split; [|split; [discriminate|]].
  - intros s Hs. vm_compute in Hs. injection Hs as <-. repeat constructor.
  - eexists. split; [vm_compute; reflexivity|]. split; vm_compute; reflexivity.
Qed.

(* an illegal move value from the same position: off the board, wrapped coordinates, junk Slides *)
Example ex_reject : mv p14 (M 6 (-3) 127 4095) = Err /\ rules_move (abs p14) (raw (M 6 (-3) 127 4095)) = None.
Proof. split; vm_compute; reflexivity. Qed.

(* hypotheses of representation_canonical / equal_complete: a transposition *)
Definition ms_a : list rmove := [M 2 0 0 0; M 2 4 4 0; M 2 1 0 0; M 3 2 2 0; M 4 3 3 0; M 2 0 3 0]%Z%N.
Definition ms_b : list rmove := [M 2 0 0 0; M 2 4 4 0; M 4 3 3 0; M 2 0 3 0; M 2 1 0 0; M 3 2 2 0]%Z%N.
Definition pa : position := match replay start5 ms_a with Ok p => p | _ => start5 end.
Definition pb : position := match replay start5 ms_b with Ok p => p | _ => start5 end.

Example ex_transposition : ms_a <> ms_b /\ replay start5 ms_a = Ok pa /\ replay start5 ms_b = Ok pb /\
  pos_ok pa /\ pos_ok pb /\ size pa = size pb /\ sq (abs pa) = sq (abs pb) /\ same_side pa pb /\
  equal pa pb = true /\ hash_of pa = hash_of pb.
Proof.
  assert (Ra : replay start5 ms_a = Ok pa) by (vm_compute; reflexivity).
  assert (Rb : replay start5 ms_b = Ok pb) by (vm_compute; reflexivity).
  assert (Na : no_pass ms_a) by (repeat constructor; discriminate).
  assert (Nb : no_pass ms_b) by (repeat constructor; discriminate).
  destruct (reachable_ok 5 false 21 1 ms_a pa ltac:(lia) ltac:(lia) Na Ra) as (A & _).
  destruct (reachable_ok 5 false 21 1 ms_b pb ltac:(lia) ltac:(lia) Nb Rb) as (B & _).
  assert (Eq : sq (abs pa) = sq (abs pb)) by (vm_compute; reflexivity).
  assert (Es : same_side pa pb) by (vm_compute; reflexivity).
  destruct (equal_complete pa pb A B eq_refl Eq Es) as [E1 E2].
  split; [discriminate|]. split; [exact Ra|]. split; [exact Rb|]. split; [exact A|]. split; [exact B|].
  split; [reflexivity|]. split; [exact Eq|]. split; [exact Es|]. split; [exact E1|exact E2].
Qed.
