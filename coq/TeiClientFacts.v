(* TeiClientFacts.v: what the client model of TeiClient.v writes on the wire, read by strings.Fields (Tei.fields), and the
   composition client -> engine (Tei.v) for the position line:
     fields_join            Fields of words of visible ASCII bytes joined by single spaces gives back the words
     position_line_fields   the client's position line has exactly the five words position / tps / board / turn / number
     client_position_line_exact (and _equal for an arbitrary hash basis)
                            after `teinewgame (size p)` the engine that reads the client's position line holds p *)
From Coq Require Import NArith ZArith List Bool Lia Ascii String ZifyN ZifyBool ZifyNat.
Require Import Board Move GameOver PtnMove Playtak Tps TeiBudget Tei TeiSpec TeiFacts TeiClient.
Require Import TpsFacts TpsFacts2 TpsFacts3 TpsFacts5 TpsFacts6 TpsFacts9 Preserve1 Import7.
Require Import Generated.Consts.
Import ListNotations.
Local Open Scope N_scope.

(* ---- strings.Fields on visible ASCII ---- *)
Definition vis (c : N) : Prop := 33 <= c <= 126.
Definition word (w : list N) : Prop := w <> [] /\ Forall vis w.

Lemma space_len_vis c r : vis c -> space_len (c :: r) = 0%nat.
Proof.
  unfold vis. intros H. cbn [space_len]. unfold ascii_space.
  replace (c =? 9) with false by lia. replace (c =? 10) with false by lia. replace (c =? 11) with false by lia.
  replace (c =? 12) with false by lia. replace (c =? 13) with false by lia. replace (c =? 32) with false by lia.
  cbn [orb]. replace (c =? 194) with false by lia. replace (c =? 225) with false by lia.
  replace (c =? 226) with false by lia. replace (c =? 227) with false by lia. reflexivity.
Qed.

Lemma fields_go_word : forall w s cur, Forall vis w -> fields_go (w ++ s) 0 cur = fields_go s 0 (rev w ++ cur).
Proof.
  induction w as [|c w IH]; intros s cur H; [reflexivity|].
  inversion H as [|? ? Hc Hw]; subst.
  change ((c :: w) ++ s) with (c :: (w ++ s)). cbn [fields_go]. rewrite (space_len_vis c (w ++ s) Hc).
  rewrite IH by assumption. cbn [rev]. now rewrite <- app_assoc.
Qed.

Lemma fields_go_space s cur : fields_go (32 :: s) 0 cur = flush cur (fields_go s 0 []).
Proof. reflexivity. Qed.

Lemma flush_rev w k : w <> [] -> flush (rev w) k = w :: k.
Proof.
  intros H. unfold flush. destruct (rev w) eqn:E.
  - apply (f_equal (@rev N)) in E. rewrite rev_involutive in E. cbn in E. congruence.
  - rewrite <- E, rev_involutive. reflexivity.
Qed.

(* a first word followed by a space: whatever follows *)
Lemma fields_first w s : word w -> fields (w ++ 32 :: s) = w :: fields s.
Proof.
  intros [Hne Hv]. unfold fields. rewrite fields_go_word by assumption. rewrite app_nil_r, fields_go_space.
  now apply flush_rev.
Qed.

Lemma fields_last w : word w -> fields w = [w].
Proof.
  intros [Hne Hv]. unfold fields. rewrite <- (app_nil_r w) at 1. rewrite fields_go_word by assumption.
  rewrite app_nil_r. cbn [fields_go]. now apply flush_rev.
Qed.

Theorem fields_join : forall ws, Forall word ws -> fields (join 32 ws) = ws.
Proof.
  induction ws as [|a ws IH]; intros H; [reflexivity|].
  inversion H as [|? ? Ha Hws]; subst. destruct ws as [|b ws].
  - cbn [join]. now apply fields_last.
  - change (join 32 (a :: b :: ws)) with (a ++ 32 :: join 32 (b :: ws)). rewrite fields_first by assumption.
    now rewrite IH.
Qed.

Lemma digit_vis c : is_digit c -> vis c.
Proof. unfold is_digit, vis. lia. Qed.

Lemma fmt_int_word z : (0 <= z)%Z -> word (fmt_int z).
Proof.
  intros Hz. split.
  - unfold fmt_int. replace (z <? 0)%Z with false by lia. destruct (dec_nonempty 24 (Z.to_N z) []) as (c & r & E).
    rewrite E. discriminate.
  - eapply Forall_impl; [exact digit_vis|]. now apply fmt_int_digits.
Qed.

Lemma str_word_position : word s_position. Proof. split; [discriminate|]. repeat constructor; unfold vis; cbn; lia. Qed.
Lemma str_word_tps : word s_tps. Proof. split; [discriminate|]. repeat constructor; unfold vis; cbn; lia. Qed.
Lemma str_word_teinewgame : word s_teinewgame. Proof. split; [discriminate|]. repeat constructor; unfold vis; cbn; lia. Qed.
Lemma str_word_go : word s_go. Proof. split; [discriminate|]. repeat constructor; unfold vis; cbn; lia. Qed.
Lemma str_word_movetime : word s_movetime. Proof. split; [discriminate|]. repeat constructor; unfold vis; cbn; lia. Qed.
Lemma str_word_wtime : word s_wtime. Proof. split; [discriminate|]. repeat constructor; unfold vis; cbn; lia. Qed.
Lemma str_word_btime : word s_btime. Proof. split; [discriminate|]. repeat constructor; unfold vis; cbn; lia. Qed.
Lemma str_word_winc : word s_winc. Proof. split; [discriminate|]. repeat constructor; unfold vis; cbn; lia. Qed.
Lemma str_word_binc : word s_binc. Proof. split; [discriminate|]. repeat constructor; unfold vis; cbn; lia. Qed.

(* ---- the bytes of FormatTPS's board text ---- *)
Lemma tps_square_vis sq : Forall vis (tps_square sq).
Proof.
  unfold tps_square. apply Forall_app. split.
  - apply Forall_forall. intros c Hc. apply in_map_iff in Hc. destruct Hc as ([[|] k] & <- & _); unfold vis; cbn; lia.
  - destruct sq as [|[tb k] r]; [constructor|]. destruct k as [|k]; [constructor|].
    do 2 (try (destruct k as [k|k|]; try constructor)); try constructor; unfold vis; cbn; try lia.
Qed.

Lemma tps_row_vis : forall fuel p y x, Forall (Forall vis) (tps_row fuel p y x).
Proof.
  induction fuel as [|f IH]; intros p y x; cbn [tps_row]; [constructor|].
  destruct (N.to_nat (size p) <=? x)%nat; [constructor|].
  match goal with |- Forall _ (match ?e with O => _ | S _ => _ end) => destruct e as [|[|k]] end.
  - constructor; [apply tps_square_vis|apply IH].
  - constructor; [repeat constructor; unfold vis; cbn; lia|apply IH].
  - constructor; [|apply IH]. constructor; [unfold vis; cbn; lia|].
    eapply Forall_impl; [exact digit_vis|]. apply fmt_int_digits. lia.
Qed.

Lemma join_vis sep : vis sep -> forall l, Forall (Forall vis) l -> Forall vis (join sep l).
Proof.
  intros Hs. induction l as [|a l IH]; intros H; [constructor|].
  inversion H as [|? ? Ha Hl]; subst. destruct l as [|b l]; [exact Ha|].
  change (join sep (a :: b :: l)) with (a ++ sep :: join sep (b :: l)). apply Forall_app. split; [exact Ha|].
  constructor; [exact Hs|now apply IH].
Qed.

Lemma board_text_vis p : Forall vis (board_text p).
Proof.
  unfold board_text. cbv zeta. apply join_vis; [unfold vis; cbn; lia|].
  apply Forall_forall. intros s Hs. apply in_map_iff in Hs. destruct Hs as (y & <- & _).
  apply join_vis; [unfold vis; cbn; lia|apply tps_row_vis].
Qed.

(* the board text is not empty: otherwise ParseTPS could not read FormatTPS's text back, which it does (TpsFacts5.parse_format) *)
Lemma board_text_nonempty p : (3 <= size p <= 8) -> (0 <= Move.move p < 2 ^ 63)%Z -> board_text p <> [].
Proof.
  intros Hs Hm E. pose proof (parse_format [] p Hs Hm) as H.
  unfold parse_tps in H. rewrite words_format in H by lia. cbn [length Nat.eqb negb nth] in H.
  unfold number_text in H. rewrite atoi_fmt_int in H by (apply move_number_range; exact Hm).
  assert (Et : atoi (turn_text p) = Some (if Z.even (Move.move p) then 1 else 2)%Z).
  { unfold turn_text, to_move_white. destruct (Z.even (Move.move p)); reflexivity. }
  rewrite Et in H.
  replace (negb (((if Z.even (Move.move p) then 1 else 2) =? 1)%Z || ((if Z.even (Move.move p) then 1 else 2) =? 2)%Z)) with false in H
    by (destruct (Z.even (Move.move p)); reflexivity).
  cbv zeta in H. rewrite E in H. vm_compute in H. discriminate H.
Qed.

Lemma tps_words p : (3 <= size p <= 8) -> (0 <= Move.move p < 2 ^ 63)%Z ->
  word (board_text p) /\ word (turn_text p) /\ word (number_text p).
Proof.
  intros Hs Hm. split; [|split].
  - split; [exact (board_text_nonempty p Hs Hm)|apply board_text_vis].
  - unfold turn_text. destruct (to_move_white p); (split; [discriminate|repeat constructor; unfold vis; cbn; lia]).
  - unfold number_text. apply fmt_int_word. pose proof (move_number_range _ Hm). lia.
Qed.

Lemma position_line_join p : position_line p = join 32 [s_position; s_tps; board_text p; turn_text p; number_text p].
Proof. unfold position_line. rewrite format_tps_join. reflexivity. Qed.

Theorem position_line_fields p : (3 <= size p <= 8) -> (0 <= Move.move p < 2 ^ 63)%Z ->
  fields (position_line p) = [s_position; s_tps; board_text p; turn_text p; number_text p].
Proof.
  intros Hs Hm. rewrite position_line_join. destruct (tps_words p Hs Hm) as (H1 & H2 & H3).
  apply fields_join. constructor; [apply str_word_position|]. constructor; [apply str_word_tps|].
  constructor; [exact H1|]. constructor; [exact H2|]. constructor; [exact H3|constructor].
Qed.

Theorem newgame_line_fields sz : (0 <= sz)%Z -> fields (newgame_line sz) = [s_teinewgame; fmt_int sz].
Proof.
  intros H. change (newgame_line sz) with (join 32 [s_teinewgame; fmt_int sz]). apply fields_join.
  constructor; [apply str_word_teinewgame|]. constructor; [now apply fmt_int_word|constructor].
Qed.

Lemma atoi_go_fmt_int z : (0 <= z < 2 ^ 63)%Z -> atoi_go (fmt_int z) = (z, true).
Proof. intros H. unfold atoi_go. now rewrite atoi_fmt_int. Qed.

(* ---- the engine model reading the client's lines ---- *)
Section E.
Variable basis : list N.
Variable SS : Type.
Variable mk_searcher : Z -> SS.
Variable search : SS -> option Z -> position -> SS * (list rmove * Z * Z * Z).
Notation step := (step basis SS mk_searcher search).

Lemma step_newgame_line (e : engine SS) sz : (3 <= sz <= 8)%Z ->
  step e (newgame_line sz) = sr SS {| e_mm := None; e_pos := None; e_size := sz |} [] Running.
Proof.
  intros H. rewrite step_classify. unfold classify. rewrite newgame_line_fields by lia.
  change (bytes_eqb s_teinewgame s_tei) with false. change (bytes_eqb s_teinewgame s_quit) with false.
  change (bytes_eqb s_teinewgame s_teinewgame) with true. cbv iota. unfold step_new.
  rewrite atoi_go_fmt_int by lia.
  replace (negb true || (sz <? 3)%Z || (8 <? sz)%Z) with false by lia. reflexivity.
Qed.

(* the position line, read by an engine configured for the position's size: parsePosition hands ParseTPS exactly FormatTPS's text *)
Lemma step_position_line (e : engine SS) p : (3 <= size p <= 8) -> (0 <= Move.move p < 2 ^ 63)%Z -> e_size e = Z.of_N (size p) ->
  forall q, parse_tps basis (format_tps p) = Move.Ok q -> size q = size p ->
  step e (position_line p) = sr SS {| e_mm := e_mm e; e_pos := Some q; e_size := e_size e |} [] Running.
Proof.
  intros Hs Hm He q Hq Hsz. rewrite step_classify. unfold classify. rewrite position_line_fields by assumption.
  change (bytes_eqb s_position s_tei) with false. change (bytes_eqb s_position s_quit) with false.
  change (bytes_eqb s_position s_teinewgame) with false. change (bytes_eqb s_position s_position) with true. cbv iota.
  unfold step_pos, parse_position, parse_start.
  change (bytes_eqb s_tps s_startpos) with false. change (bytes_eqb s_tps s_tps) with true. cbv iota.
  cbn [List.length Nat.ltb Nat.leb nth skipn].
  replace (board_text p ++ [32] ++ turn_text p ++ [32] ++ number_text p) with (format_tps p)
    by (rewrite format_tps_join; reflexivity).
  rewrite Hq, Hsz, He, Z.eqb_refl. reflexivity.
Qed.
End E.

(* client_position_line_exact: for every position satisfying the hypotheses of C10's exact round trip, the engine that receives the
   client's lines `teinewgame <size p>` and `position tps <FormatTPS p>` - in whatever state it was - keeps running, prints nothing,
   and holds p ITSELF (squares, ply/move number, reserves, hash), configured for p's size, with no searcher. *)
Theorem client_position_line_exact :
  forall (SS : Type) (mk_searcher : Z -> SS) (search : SS -> option Z -> position -> SS * (list rmove * Z * Z * Z))
         (e : engine SS) (p : position),
  pos_ok p -> reserves_match_board p -> Move.black_wins_ties p = false -> (0 <= Move.move p < 2 ^ 63)%Z ->
  let r1 := Tei.step gen_basis SS mk_searcher search e (newgame_line (Z.of_N (size p))) in
  let r2 := Tei.step gen_basis SS mk_searcher search (sr_eng r1) (position_line p) in
  sr_status r1 = Running /\ sr_out r1 = [] /\ sr_status r2 = Running /\ sr_out r2 = [] /\
  sr_eng r2 = {| e_mm := None; e_pos := Some p; e_size := Z.of_N (size p) |}.
Proof.
  intros SS mk search e p Hp RM Hb Hm. pose proof (po_size _ Hp) as Hs. cbv zeta.
  rewrite step_newgame_line by lia. cbn [sr sr_eng sr_status sr_out].
  rewrite (step_position_line gen_basis SS mk search {| e_mm := None; e_pos := None; e_size := Z.of_N (size p) |} p Hs Hm eq_refl p (tps_round_trip_exact p Hp RM Hb Hm) eq_refl).
  cbn. repeat split; reflexivity.
Qed.

(* ... and for an arbitrary hash basis, on the hypotheses of C10_tps_format_parse_equal: the position held is p with
   black_wins_ties cleared - Equal to p both ways, the same hash, the same reserves, side to move and ply. *)
Theorem client_position_line_equal :
  forall (basis : list N) (SS : Type) (mk_searcher : Z -> SS) (search : SS -> option Z -> position -> SS * (list rmove * Z * Z * Z))
         (e : engine SS) (p : position),
  (3 <= size p <= 8) -> (0 <= Move.move p < 2 ^ 63)%Z -> rep_ok basis p -> reserves_match_board p ->
  let r1 := Tei.step basis SS mk_searcher search e (newgame_line (Z.of_N (size p))) in
  let r2 := Tei.step basis SS mk_searcher search (sr_eng r1) (position_line p) in
  sr_status r1 = Running /\ sr_status r2 = Running /\
  exists q, e_pos (sr_eng r2) = Some q /\ equal p q = true /\ equal q p = true /\ hash_of q = hash_of p /\
            whiteStones q = whiteStones p /\ whiteCaps q = whiteCaps p /\ blackStones q = blackStones p /\ blackCaps q = blackCaps p /\
            to_move_white q = to_move_white p /\ Move.move q = Move.move p.
Proof.
  intros basis SS mk search e p Hs Hm Hr RM. cbv zeta.
  destruct (tps_format_parse_equal basis p Hs Hm Hr RM) as (q & Hq & Eq & E1 & E2 & E3 & E4 & E5).
  rewrite step_newgame_line by lia. cbn [sr sr_eng sr_status sr_out].
  assert (Hsz : size q = size p) by (rewrite Eq; reflexivity).
  rewrite (step_position_line basis SS mk search {| e_mm := None; e_pos := None; e_size := Z.of_N (size p) |} p Hs Hm eq_refl q Hq Hsz). cbn [sr sr_eng sr_status e_pos].
  split; [reflexivity|]. split; [reflexivity|]. exists q. split; [reflexivity|].
  repeat split; try assumption; rewrite Eq; reflexivity.
Qed.
