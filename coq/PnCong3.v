(* C06, congruence part 3: the invariant of the positions of one game (configuration c = the four piece counts, tie-break
   flag b) under which Position.Equal (board, size, side to move - not the ply counter, not the reserves) identifies only
   positions the game cannot tell apart:
     cinv c b p  :=  C01's invariant pos_ok, at most 64 pieces in the game, reserve + pieces on the board = c per
                     reserve (so the reserves are determined by the board), tie-break flag b, and the ply counter is below 2
                     exactly when fewer than 2 pieces have left the reserves (so "is this an opening ply" is determined by
                     the board).
   cinv_step: every accepted move preserves it.  cinv_new / reachable_cinv: tak.New and every replay from it satisfy it.
   cinv_equal_sim: two positions of the same game that Position.Equal identifies are PnCong1.sim. *)
From Coq Require Import NArith ZArith Arith List Bool Lia ZifyN ZifyBool ZifyNat.
Require Import Board Stack Rules Move Refine RefinePlace RefinePlace2 RefinePlace3 Slide1 Slide2 Slide3 Slide4 Slide5 Slide6 Slide7 Slide8
  MoveRefines HashInv GameOver Preserve1 Preserve2 PreserveExt Preserve3 Preserve4 Preserve5 Preserve6 Reach1.
Require Import Alloc Generated.Consts.
Require Import TpsFacts9 OpeningFacts1.
Require Import AndOr Pn PnFacts PnCong1.
Import ListNotations.
Open Scope N_scope.

Definition rsum_p (p : position) : N := whiteStones p + whiteCaps p + blackStones p + blackCaps p.
Definition full4 (c : N * N * N * N) : N := let '(c1, c2, c3, c4) := c in c1 + c2 + c3 + c4.

Definition open_inv (f : N) (p : position) : Prop :=
  (0 <= move p)%Z /\ ((move p < 2)%Z -> Z.of_N (rsum_p p) = (Z.of_N f - move p)%Z) /\ ((2 <= move p)%Z -> rsum_p p + 2 <= f).

Record cinv (c : N * N * N * N) (b : bool) (p : position) : Prop := {
  ci_ok : pos_ok p;
  ci_total : total p <= 64;
  ci_cons : cons4 (abs p) = c;
  ci_bwt : Move.black_wins_ties p = b;
  ci_open : open_inv (full4 c) p }.

Lemma mv_is_pmv p m : mv p m = pmv gen_basis p m.
Proof. reflexivity. Qed.

Lemma mv_not_pass p m q : mv p m = Ok q -> mT m <> 1.
Proof.
  intros H E. unfold mv, move_prealloc in H. rewrite E in H. rewrite andb_false_r in H. cbn in H. discriminate.
Qed.

Lemma abs_sq_len p : length (sq (abs p)) = (Rules.n (abs p) * Rules.n (abs p))%nat.
Proof. unfold abs. cbn [sq Rules.n]. now rewrite map_length, seq_length. Qed.

(* ---- preserved by every accepted move ---- *)
Theorem cinv_step c b p m p' : cinv c b p -> mv p m = Ok p' -> cinv c b p'.
Proof.
  intros [Hp Ht Hc Hb Ho] E.
  destruct (move_preserves_small p m p' Hp Ht (mv_not_pass p m p' E) E) as (R & Hp' & [S1 S2 S3 S4 S5 S6]).
  destruct (rules_move_cons4 (abs p) (raw m) (abs p') (abs_sq_len p) R) as (C & _).
  constructor; [assumption|lia|congruence|congruence|].
  destruct (rules_move_rsum _ _ _ R) as (_ & _ & Q1 & Q2).
  unfold abs, rsum in Q1, Q2. cbn [ply wstones wcaps bstones bcaps] in Q1, Q2.
  unfold open_inv, rsum_p in *. rewrite S3.
  set (rf := full4 c) in *. clearbody rf.
  set (rs := whiteStones p + whiteCaps p + blackStones p + blackCaps p) in *. clearbody rs.
  set (rs' := whiteStones p' + whiteCaps p' + blackStones p' + blackCaps p') in *. clearbody rs'.
  clear - Ho Q1 Q2. lia.
Qed.

(* ---- tak.New and everything replayed from it ---- *)
Lemma bcnt_repeat_nil f k : bcnt f (repeat [] k) = 0.
Proof. induction k as [|k IH]; cbn [repeat bcnt cnt]; [reflexivity|]. rewrite IH. reflexivity. Qed.

Theorem cinv_new sz bwt stones caps : 3 <= sz <= 8 -> 2 * (stones + caps) <= 64 ->
  cinv (stones, caps, stones, caps) bwt (new_pos sz bwt stones caps).
Proof.
  intros Hsz Hc. destruct (new_ok sz bwt stones caps Hsz ltac:(lia) ltac:(lia)) as (N1 & N2 & N3).
  constructor; [exact N1|lia| |reflexivity|].
  - rewrite N2. unfold cons4, rules_start. cbn [sq wstones wcaps bstones bcaps]. rewrite !bcnt_repeat_nil, !N.add_0_r. reflexivity.
  - unfold open_inv, rsum_p, full4. cbn [new_pos move whiteStones whiteCaps blackStones blackCaps]. lia.
Qed.

Theorem replay_cinv c b : forall ms p q, cinv c b p -> replay p ms = Ok q -> cinv c b q.
Proof.
  induction ms as [|m ms IH]; intros p q Hp H; cbn [replay] in H; [injection H as <-; exact Hp|].
  destruct (mv p m) as [p'| |] eqn:E; try discriminate. eapply IH; [|exact H]. eapply cinv_step; eassumption.
Qed.

Corollary reachable_cinv sz bwt stones caps ms p : 3 <= sz <= 8 -> 2 * (stones + caps) <= 64 ->
  replay (new_pos sz bwt stones caps) ms = Ok p -> cinv (stones, caps, stones, caps) bwt p.
Proof. intros Hsz Hc H. eapply replay_cinv; [|exact H]. now apply cinv_new. Qed.

(* ---- Position.Equal inside one game ---- *)
Lemma forallb_combine_eq : forall l1 l2 : list N, length l1 = length l2 ->
  forallb (fun ab => fst ab =? snd ab) (combine l1 l2) = true -> l1 = l2.
Proof.
  induction l1 as [|a l1 IH]; intros [|b l2] Hl H; try discriminate; [reflexivity|].
  cbn in H. apply andb_true_iff in H as [H1 H2]. apply N.eqb_eq in H1. f_equal; [assumption|]. apply IH; [now injection Hl|assumption].
Qed.

Lemma abs_sq_ext q p : size q = size p -> White q = White p -> Move.Black q = Move.Black p -> Standing q = Standing p ->
  Caps q = Caps p -> Height q = Height p -> Stacks q = Stacks p -> sq (abs q) = sq (abs p).
Proof.
  intros E1 E2 E3 E4 E5 E6 E7. unfold abs. cbn [sq]. rewrite E1. apply map_ext. intros i.
  unfold abs_stack. rewrite E3, E4, E5, E6, E7. reflexivity.
Qed.

Theorem cinv_equal_sim c b q p : cinv c b q -> cinv c b p -> pos_equal q p = true -> sim q p.
Proof.
  intros [Hq _ Cq Bq Oq] [Hp _ Cp Bp Op] H. unfold pos_equal in H.
  apply andb_true_iff in H as [H E9]. apply andb_true_iff in H as [H E8]. apply andb_true_iff in H as [H Etm].
  apply andb_true_iff in H as [H E6]. apply andb_true_iff in H as [H E5]. apply andb_true_iff in H as [H E4].
  apply andb_true_iff in H as [H E3]. apply andb_true_iff in H as [Es E2].
  apply N.eqb_eq in Es, E2, E3, E4, E5, E6. apply eqb_prop in Etm.
  assert (EH : Height q = Height p).
  { apply forallb_combine_eq; [|exact E8]. destruct Hq as [_ [L1 _ _] _ _], Hp as [_ [L2 _ _] _ _]. cbn [bview bhs] in L1, L2. now rewrite L1, L2, Es. }
  assert (ES : Stacks q = Stacks p).
  { apply forallb_combine_eq; [|exact E9]. destruct Hq as [_ [_ L1 _] _ _], Hp as [_ [_ L2 _] _ _]. cbn [bview bst] in L1, L2. now rewrite L1, L2, Es. }
  assert (Esq : sq (abs q) = sq (abs p)) by (apply abs_sq_ext; assumption).
  assert (ER : whiteStones q = whiteStones p /\ whiteCaps q = whiteCaps p /\ blackStones q = blackStones p /\ blackCaps q = blackCaps p).
  { rewrite <- Cp in Cq. unfold cons4 in Cq. rewrite Esq in Cq. unfold abs in Cq at 1 2 3 4 6 8 10 12. cbn [wstones wcaps bstones bcaps] in Cq.
    injection Cq as C1 C2 C3 C4. repeat split; lia. }
  destruct ER as (R1 & R2 & R3 & R4).
  assert (Hply : plyeq (move q) (move p)).
  { unfold to_move_white in Etm. destruct Oq as (A1 & A2 & A3), Op as (B1 & B2 & B3).
    unfold rsum_p in *. rewrite R1, R2, R3, R4 in A2, A3.
    set (rs := whiteStones p + whiteCaps p + blackStones p + blackCaps p) in *. clearbody rs.
    set (f := full4 c) in *. clearbody f. unfold plyeq.
    destruct (Z_lt_ge_dec (move q) 2), (Z_lt_ge_dec (move p) 2); [left; lia|exfalso; lia|exfalso; lia|right; repeat split; [lia|lia|exact Etm]]. }
  split; [|exact Hply].
  clear - Es R1 R2 R3 R4 EH ES Bq Bp E2 E3 E4 E5 E6.
  destruct q as [a1 a2 a3 a4 a5 a6 a7 a8 a9 a10 a11 a12 a13 a14], p as [b1 b2 b3 b4 b5 b6 b7 b8 b9 b10 b11 b12 b13 b14].
  unfold setmv.
  cbn [size Move.black_wins_ties whiteStones whiteCaps blackStones blackCaps Move.move White Move.Black Standing Caps Height Stacks hash] in *.
  subst. reflexivity.
Qed.
Print Assumptions cinv_step.
Print Assumptions reachable_cinv.
Print Assumptions cinv_equal_sim.
