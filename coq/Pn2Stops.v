(* The two "cannot happen" stops of Pn2.v do not happen:
     Stop2 4  a second-level search returns without having expanded its root (pn2_node),
     Stop2 5  the path to `current` does not name an unsolved child (iterate2).
   So wherever the model stops with a reason other than fuel (2), it stops where the Go code stops (node limit / solved
   root: 0), panics (1), or meets saturated numbers (3, see Pn.pick_kid). *)
From Coq Require Import NArith ZArith List Bool Lia Arith.
Require Import Board Move GameOver Pn Pn2.
Import ListNotations.
Open Scope N_scope.

Lemma update_expanded cfg r t st t2 st2 : update_node cfg r t st = (t2, st2) -> n_expanded t2 = n_expanded t.
Proof. unfold update_node. destruct (kid_numbers _). destruct (_ || _); intros E; injection E as <- _; reflexivity. Qed.

Lemma stops_unsolved t1 t2 : stops false t1 t2 = true -> solved t2 = false.
Proof.
  unfold stops. rewrite orb_false_r. intros H. apply andb_true_iff in H as [H _]. apply andb_true_iff in H as [H _].
  now apply negb_true_iff in H.
Qed.

Lemma split_at_rev before c r : split_at (length before) [] (rev before ++ c :: r) = Some (before, c, r).
Proof.
  assert (G : forall mid b0, split_at (length mid) b0 (mid ++ c :: r) = Some (rev mid ++ b0, c, r)).
  { induction mid as [|x mid IH]; intros b0; cbn [app length split_at rev]; [reflexivity|]. rewrite IH. now rewrite <- app_assoc. }
  rewrite <- (rev_length before). rewrite G. now rewrite rev_involutive, app_nil_r.
Qed.

(* the path to `current` runs through unsolved children *)
Fixpoint chain (t : pn) (forced : list nat) : Prop :=
  match forced with
  | [] => True
  | i :: l => exists b c r, split_at i [] (n_kids t) = Some (b, c, r) /\ solved c = false /\ chain c l
  end.

Definition okw (w : N) : Prop := w <> 4 /\ w <> 5.

Section S.
Variable basis : list N.
Variable aw : bool.

Section Level.
Variable cfg : pcfg.
Variable hook : pn -> list (position * bool) -> p2stats -> option ires2.
Hypothesis hook_exp : forall t p s t1 s1 c, hook t p s = Some (Step2 t1 s1 c) -> n_expanded t1 = true.
Hypothesis hook_okw : forall t p s w, hook t p s = Some (Stop2 w) -> okw w.

Definition good (is_root : bool) (r : ires2) : Prop :=
  match r with
  | Stop2 w => okw w
  | Step2 t' s' cu => n_expanded t' = true /\
                      match cu with Some l => chain t' l /\ (is_root = false -> solved t' = false) | None => True end
  end.

Lemma after_update_good is_root t1 st1 s0 :
  n_expanded t1 = true ->
  good is_root (let '(t2, st2) := update_node cfg is_root t1 st1 in Step2 t2 (with_st s0 st2) (if stops is_root t1 t2 then Some [] else None)).
Proof.
  intros He. destruct (update_node cfg is_root t1 st1) as [t2 st2] eqn:Eu. cbn [good].
  split; [rewrite (update_expanded _ _ _ _ _ _ Eu); exact He|].
  destruct (stops is_root t1 t2) eqn:Es; [|exact I]. split; [exact I|]. intros ->. eapply stops_unsolved; eauto.
Qed.

Lemma into_kid_good descend is_root t cur ir rest s before c r :
  (forall p s0, p <> [] -> good false (descend c p s0)) -> solved t = false ->
  good is_root (into_kid basis cfg descend is_root t ((cur, ir) :: rest) s before c r).
Proof.
  intros Hd Hs. unfold into_kid. destruct (pmv basis cur (n_move c)) as [q| |]; try (cbn; unfold okw; split; discriminate).
  specialize (Hd ((q, n_irrev c) :: (cur, ir) :: rest) s ltac:(discriminate)).
  destruct (descend c ((q, n_irrev c) :: (cur, ir) :: rest) s) as [c' s' [l|]|w]; cbn [good] in Hd.
  - destruct Hd as (_ & Hc & Hsol). cbn [good]. unfold set_kids at 1. cbn [n_expanded]. split; [reflexivity|]. split.
    + cbn [chain]. exists before, c', r. unfold set_kids. cbn [n_kids]. split; [apply split_at_rev|]. split; [now apply Hsol|assumption].
    + intros _. unfold solved, set_kids. cbn [n_phi n_delta]. exact Hs.
  - apply after_update_good; reflexivity.
  - exact Hd.
Qed.

Lemma iterate2_good : forall fuel is_root t path s forced,
  path <> [] -> chain t forced -> solved t = false ->
  good is_root (iterate2 basis aw cfg hook fuel is_root t path s forced).
Proof.
  induction fuel as [|f IH]; intros is_root t path s forced Hp Hc Hs; cbn [iterate2]; [cbn; unfold okw; split; discriminate|].
  destruct path as [|[cur ir] rest]; [contradiction|].
  destruct (n_expanded t) eqn:Eexp.
  - destruct forced as [|i l].
    + generalize (@nil pn). induction (n_kids t) as [|c r IHk]; intros before; cbn [pick_kid2]; [cbn; unfold okw; split; discriminate|].
      destruct (n_delta c =? n_phi t); [|apply IHk].
      destruct ((n_phi c =? 0) || (n_delta c =? 0)) eqn:Ecs; [cbn; unfold okw; split; discriminate|].
      apply into_kid_good; [|assumption]. intros p s0 Hp0. apply IH; [assumption|exact I|exact Ecs].
    + cbn [chain] in Hc. destruct Hc as (b & c & r & Esp & Ecs & Hcl). rewrite Esp, Ecs.
      apply into_kid_good; [|assumption]. intros p s0 Hp0. apply IH; assumption.
  - destruct ((0 <? pc_maxnodes cfg) && (pc_maxnodes cfg <? live (s_st s))); [cbn; unfold okw; split; discriminate|].
    destruct (hook t ((cur, ir) :: rest) s) as [[t1 s1 c1|w]|] eqn:Eh.
    + apply after_update_good. eapply hook_exp; eauto.
    + cbn. eapply hook_okw; eauto.
    + destruct (expand_node basis cfg aw t ((cur, ir) :: rest) (s_st s)) as [t1 st1] eqn:Ee.
      apply after_update_good. unfold expand_node in Ee. destruct (gen_kids _ _ _ _ _ _ _ _ _). injection Ee as <- _. reflexivity.
Qed.

Lemma search2_good : forall k dfuel path t s forced t' s' w,
  path <> [] -> chain t forced ->
  search2 basis aw cfg hook k dfuel path t s forced = (t', s', w) ->
  okw w /\ (n_expanded t = true -> n_expanded t' = true).
Proof.
  induction k as [|k IH]; intros dfuel path t s forced t' s' w Hp Hc E; cbn [search2] in E.
  - injection E as <- _ <-. split; [|auto]. destruct (solved t); unfold okw; split; discriminate.
  - destruct (solved t) eqn:Es; [injection E as <- _ <-; split; [unfold okw; split; discriminate|auto]|].
    pose proof (iterate2_good dfuel true t path s forced Hp Hc Es) as G.
    destruct (iterate2 basis aw cfg hook dfuel true t path s forced) as [t1 s1 cu|w1]; cbn [good] in G.
    + destruct G as [G1 G2]. apply IH in E; auto.
      * destruct E as [E1 E2]. split; [assumption|]. intros _. now apply E2.
      * destruct cu as [l|]; [apply G2|exact I].
    + injection E as <- _ <-. split; [assumption|auto].
Qed.

(* a search that starts at an unexpanded unsolved node with all counters zero expands it, unless it runs out of fuel *)
Lemma search2_first : forall k dfuel path t forced t' s' w,
  path <> [] -> solved t = false -> n_expanded t = false ->
  search2 basis aw cfg hook (S k) dfuel path t (s_of stats_zero) forced = (t', s', w) ->
  (forall p s0, hook t p s0 = None) ->
  w = 0 -> n_expanded t' = true.
Proof.
  intros k dfuel path t forced t' s' w Hp Hs He E Hh Hw. cbn [search2] in E. rewrite Hs in E.
  destruct dfuel as [|f]; cbn [iterate2] in E; [injection E as _ _ <-; discriminate Hw|].
  rewrite He in E. cbn [s_of s_st] in E.
  assert (L0 : live stats_zero = 0) by (vm_compute; reflexivity).
  rewrite L0 in E. replace (pc_maxnodes cfg <? 0) with false in E by (symmetry; apply N.ltb_ge; lia). rewrite andb_false_r in E.
  rewrite Hh in E.
  destruct path as [|[cur ir] rest]; [contradiction|].
  destruct (expand_node basis cfg aw t ((cur, ir) :: rest) stats_zero) as [t1 st1] eqn:Ee.
  destruct (update_node cfg true t1 st1) as [t2 st2] eqn:Eu.
  assert (H2 : n_expanded t2 = true).
  { rewrite (update_expanded _ _ _ _ _ _ Eu). unfold expand_node in Ee. destruct (gen_kids _ _ _ _ _ _ _ _ _). injection Ee as <- _. reflexivity. }
  apply search2_good in E; [|discriminate|destruct (stops true t1 t2); exact I]. destruct E as [_ E]. now apply E.
Qed.
End Level.

(* ---------- pn2() and the first level ---------- *)
Section Top.
Variable cfg : pcfg.
Variable threshold : N.
Variable pn2on : bool.
Variable k2 dfuel2 : nat.
Hypothesis Hk2 : k2 <> O.

Lemma no_hook_exp : forall t p s t1 s1 c, no_hook t p s = Some (Step2 t1 s1 c) -> n_expanded t1 = true.
Proof. intros; discriminate. Qed.
Lemma no_hook_okw : forall t p s w, no_hook t p s = Some (Stop2 w) -> okw w.
Proof. intros; discriminate. Qed.

Lemma pn2_node_good t path s : path <> [] -> solved t = false -> n_expanded t = false ->
  match pn2_node basis aw cfg k2 dfuel2 t path s with
  | Step2 t1 _ _ => n_expanded t1 = true
  | Stop2 w => okw w
  end.
Proof.
  intros Hp Hs He. unfold pn2_node.
  destruct (search2 basis aw (cfg2 cfg (pn2_limit cfg (s_st s))) no_hook k2 dfuel2 path t (s_of stats_zero) []) as [[t' s'] why] eqn:E.
  destruct (why =? 0) eqn:Ew.
  - apply N.eqb_eq in Ew. destruct k2 as [|k]; [contradiction|].
    rewrite (search2_first _ no_hook no_hook_exp no_hook_okw _ _ _ _ _ _ _ _ Hp Hs He E (fun _ _ => eq_refl) Ew). reflexivity.
  - apply (search2_good _ no_hook no_hook_exp no_hook_okw) in E; [|assumption|exact I]. apply E.
Qed.

(* Prove(): the stop reason is never 4 or 5 *)
Theorem pn2_no_impossible_stop : forall iters dfuel p0 root s result mv why,
  prove_pn2 basis aw cfg threshold pn2on k2 dfuel2 iters dfuel p0 = (root, s, result, mv, why) -> why <> 4 /\ why <> 5.
Proof.
  intros iters dfuel p0 root s result mv why E. unfold prove_pn2 in E.
  destruct (search2 basis aw cfg (pn2_hook basis aw cfg threshold pn2on k2 dfuel2) iters dfuel [(p0, false)] (root_node cfg aw p0) (s_of stats0) [])
    as [[root' s'] why'] eqn:Es.
  destruct (verdict root') as [vres vmv]. injection E as _ _ _ _ <-.
  (* the hook is only asked about unexpanded unsolved nodes standing on a non-empty path; state that by wrapping it *)
  set (hook' := fun t (p : list (position * bool)) s0 =>
         if negb (n_expanded t) && negb (solved t) && negb (match p with [] => true | _ => false end)
         then pn2_hook basis aw cfg threshold pn2on k2 dfuel2 t p s0 else None).
  assert (Hexp : forall t p s0 t1 s1 c, hook' t p s0 = Some (Step2 t1 s1 c) -> n_expanded t1 = true).
  { intros t p s0 t1 s1 c H. unfold hook' in H.
    destruct (n_expanded t) eqn:E1; [discriminate H|]. destruct (solved t) eqn:E2; [discriminate H|].
    destruct p as [|x p]; [discriminate H|]. cbn [negb andb] in H. unfold pn2_hook in H.
    destruct (pn2on && _); [|discriminate H]. injection H as H.
    pose proof (pn2_node_good t (x :: p) s0 ltac:(discriminate) E2 E1) as G. rewrite H in G. exact G. }
  assert (Hokw : forall t p s0 w, hook' t p s0 = Some (Stop2 w) -> okw w).
  { intros t p s0 w H. unfold hook' in H.
    destruct (n_expanded t) eqn:E1; [discriminate H|]. destruct (solved t) eqn:E2; [discriminate H|].
    destruct p as [|x p]; [discriminate H|]. cbn [negb andb] in H. unfold pn2_hook in H.
    destruct (pn2on && _); [|discriminate H]. injection H as H.
    pose proof (pn2_node_good t (x :: p) s0 ltac:(discriminate) E2 E1) as G. rewrite H in G. exact G. }
  (* the wrapped hook gives the same search *)
  assert (Same : forall fuel is_root t p s0 forced, p <> [] -> solved t = false ->
            iterate2 basis aw cfg hook' fuel is_root t p s0 forced =
            iterate2 basis aw cfg (pn2_hook basis aw cfg threshold pn2on k2 dfuel2) fuel is_root t p s0 forced).
  { induction fuel as [|f IH]; intros is_root t p s0 forced Hp Hs; cbn [iterate2]; [reflexivity|].
    destruct p as [|[cur ir] rest]; [contradiction|].
    destruct (n_expanded t) eqn:Eexp.
    - assert (Into : forall fo before c rr, solved c = false ->
                into_kid basis cfg (fun c p s => iterate2 basis aw cfg hook' f false c p s fo) is_root t ((cur, ir) :: rest) s0 before c rr =
                into_kid basis cfg (fun c p s => iterate2 basis aw cfg (pn2_hook basis aw cfg threshold pn2on k2 dfuel2) f false c p s fo) is_root t ((cur, ir) :: rest) s0 before c rr).
      { intros fo before c rr Hc. unfold into_kid. destruct (pmv basis cur (n_move c)); try reflexivity. rewrite IH; [reflexivity|discriminate|assumption]. }
      destruct forced as [|i l].
      + generalize (@nil pn). induction (n_kids t) as [|c r IHk]; intros before; cbn [pick_kid2]; [reflexivity|].
        destruct (n_delta c =? n_phi t); [|apply IHk].
        destruct ((n_phi c =? 0) || (n_delta c =? 0)) eqn:Ecs; [reflexivity|]. apply Into. exact Ecs.
      + destruct (split_at i [] (n_kids t)) as [[[b c] r]|]; [|reflexivity]. destruct (solved c) eqn:Ecs; [reflexivity|]. now apply Into.
    - unfold hook'. rewrite Eexp, Hs. reflexivity. }
  assert (SameS : forall k dfuel0 t s0 forced,
            search2 basis aw cfg hook' k dfuel0 [(p0, false)] t s0 forced =
            search2 basis aw cfg (pn2_hook basis aw cfg threshold pn2on k2 dfuel2) k dfuel0 [(p0, false)] t s0 forced).
  { induction k as [|k IH]; intros dfuel0 t s0 forced; cbn [search2]; [reflexivity|].
    destruct (solved t) eqn:Est; [reflexivity|]. rewrite Same; [|discriminate|assumption].
    destruct (iterate2 _ _ _ _ _ _ _ _ _ _); [apply IH|reflexivity]. }
  rewrite <- SameS in Es.
  apply (search2_good cfg hook' Hexp Hokw) in Es; [|discriminate|exact I]. apply Es.
Qed.
End Top.
End S.
