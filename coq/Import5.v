(* C14, last clause: "The list of symmetric images of a position contains each distinct image exactly once, each paired with
   the transform that produces it."
   symmetries_firsts   Symmetries(p) IS the list of the eight rebuilt images (image k, k), k = 0..7, from which every entry whose
                       Hash() already occurred is dropped (first occurrence kept, order kept): no hypothesis.
   symmetries_exact    for p satisfying the C01 invariant, and NoCollision on the eight images (two images with the same
                       Hash() show the same squares): (A) every entry is (image k, k) with k < 8, satisfies the invariant, and
                       k is the FIRST index producing that image; (B) every one of the eight images occurs in the list, as a
                       record, paired with the first index that produces it; (C) no two entries show the same board (so each
                       distinct image occurs exactly once).  (A) and (C) do not use NoCollision; without it (B) fails exactly
                       for an image whose hash collides with an earlier, different image (it is dropped). *)
From Coq Require Import NArith ZArith Arith List Bool Lia ZifyN ZifyBool ZifyNat Permutation.
Require Import Rules Sym SymRules1 SymRules2 SymRules3 SymRules4.
Require Import Board Stack Move Refine RefinePlace RefinePlace2 RefinePlace3 Slide1 Slide2 Slide3 Slide4 Slide5 Slide6 Slide7 Slide8
  MoveRefines HashInv GameOver Preserve1 Preserve2 PreserveExt Preserve3 Preserve4 Preserve5 Preserve6 Reach1 HashMove1 Canon8.
Require Import Alloc Generated.Consts.
Require Import Tps Symmetry SymCode1 Canon2.
Require Import TpsFacts TpsFacts2 TpsFacts3 TpsFacts4 TpsFacts5 TpsFacts6 TpsFacts8 TpsFacts9 Import1 Import3 Import4.
Import ListNotations.
Close Scope Z_scope. Close Scope N_scope.

(* ---- de-duplication by a key, first occurrence kept ---- *)
Section Dedup.
Context {A : Type}.
Variable key : A -> N.

Definition dstep (acc : list A) (x : A) : list A :=
  if existsb (fun q => (key q =? key x)%N) acc then acc else x :: acc.

(* the elements of l whose key is neither in `seen` nor earlier in l *)
Fixpoint firsts (seen : list N) (l : list A) : list A :=
  match l with
  | [] => []
  | x :: r => if existsb (N.eqb (key x)) seen then firsts seen r else x :: firsts (key x :: seen) r
  end.

Lemma existsb_keys x acc : existsb (fun q => (key q =? key x)%N) acc = existsb (N.eqb (key x)) (map key acc).
Proof. induction acc as [|a acc IH]; [reflexivity|]. cbn [map existsb]. now rewrite IH, N.eqb_sym. Qed.

Lemma fold_dstep : forall l acc, fold_left dstep l acc = rev (firsts (map key acc) l) ++ acc.
Proof.
  induction l as [|x r IH]; intros acc; [reflexivity|]. cbn [fold_left firsts]. unfold dstep at 2.
  rewrite existsb_keys. destruct (existsb (N.eqb (key x)) (map key acc)).
  - apply IH.
  - rewrite IH. cbn [map rev]. now rewrite <- app_assoc.
Qed.

Lemma dedup_firsts l : rev (fold_left dstep l []) = firsts [] l.
Proof. rewrite fold_dstep. cbn [map]. now rewrite app_nil_r, rev_involutive. Qed.

Lemma existsb_eqb_In k seen : existsb (N.eqb k) seen = true <-> In k seen.
Proof.
  rewrite existsb_exists. split.
  - intros (y & Hy & E). apply N.eqb_eq in E. now subst.
  - intros H. exists k. split; [exact H|apply N.eqb_refl].
Qed.

(* an entry of the result: where it sits in l, and that nothing before it has its key *)
Lemma firsts_In : forall l seen x, In x (firsts seen l) ->
  ~ In (key x) seen /\ exists l1 l2, l = l1 ++ x :: l2 /\ (forall y, In y l1 -> key y <> key x).
Proof.
  induction l as [|a r IH]; intros seen x H; [destruct H|]. cbn [firsts] in H.
  destruct (existsb (N.eqb (key a)) seen) eqn:E.
  - destruct (IH seen x H) as (N1 & l1 & l2 & -> & N2). split; [exact N1|].
    exists (a :: l1), l2. split; [reflexivity|]. intros y [<-|Hy]; [|now apply N2].
    apply existsb_eqb_In in E. intros Ek. apply N1. now rewrite <- Ek.
  - destruct H as [<-|H].
    + split; [intros Hin; apply existsb_eqb_In in Hin; congruence|]. exists [], r. split; [reflexivity|]. intros y [].
    + destruct (IH (key a :: seen) x H) as (N1 & l1 & l2 & -> & N2). split; [intros Hin; apply N1; now right|].
      exists (a :: l1), l2. split; [reflexivity|]. intros y [<-|Hy]; [|now apply N2].
      intros Ek. apply N1. left. exact Ek.
Qed.

Lemma firsts_NoDup : forall l seen, NoDup (map key (firsts seen l)).
Proof.
  induction l as [|a r IH]; intros seen; [constructor|]. cbn [firsts].
  destruct (existsb (N.eqb (key a)) seen); [apply IH|]. cbn [map]. constructor; [|apply IH].
  intros Hin. apply in_map_iff in Hin as (y & Ey & Hy). apply firsts_In in Hy as (N1 & _). apply N1. left. now symmetry.
Qed.

(* the first element of l with a given key is kept *)
Lemma firsts_keeps : forall l seen l1 x l2, l = l1 ++ x :: l2 -> ~ In (key x) seen -> (forall y, In y l1 -> key y <> key x) ->
  In x (firsts seen l).
Proof.
  induction l as [|a r IH]; intros seen l1 x l2 E Hs Hl; [destruct l1; discriminate|]. cbn [firsts].
  destruct l1 as [|b l1]; cbn [app] in E; injection E as -> ->.
  - replace (existsb (N.eqb (key x)) seen) with false; [now left|].
    symmetry. apply not_true_is_false. intros H. apply existsb_eqb_In in H. contradiction.
  - assert (Hb : key b <> key x) by (apply Hl; now left).
    destruct (existsb (N.eqb (key b)) seen).
    + apply (IH seen l1 x l2 eq_refl Hs). intros y Hy. apply Hl. now right.
    + right. apply (IH (key b :: seen) l1 x l2 eq_refl).
      * intros [H|H]; [contradiction|contradiction].
      * intros y Hy. apply Hl. now right.
Qed.
End Dedup.

Lemma NoDup_map_coarser {A B C} (f : A -> B) (g : A -> C) (l : list A) :
  (forall x y, In x l -> In y l -> g x = g y -> f x = f y) -> NoDup (map f l) -> NoDup (map g l).
Proof.
  induction l as [|a l IH]; intros H Hn; [constructor|]. cbn [map] in *. inversion Hn as [|? ? N1 N2]; subst.
  constructor.
  - intros Hin. apply in_map_iff in Hin as (y & Ey & Hy). apply N1. apply in_map_iff. exists y. split; [|exact Hy].
    apply H; [now right|now left|exact Ey].
  - apply IH; [|exact N2]. intros x y Hx Hy. apply H; now right.
Qed.

(* ---- Symmetries ---- *)
Definition hkey (x : position * nat) : N := hash_of (fst x).
Definition imgk (p : position) (k : nat) : position := image gen_basis p (csym (N.to_nat (size p)) k).
Definition all_images (p : position) : list (position * nat) := map (fun i => (imgk p i, i)) (seq 0 8).

Lemma fold_left_ext2 {A B} (f g : A -> B -> A) : (forall a b, f a b = g a b) -> forall l a, fold_left f l a = fold_left g l a.
Proof. intros H. induction l as [|b l IH]; intros a; [reflexivity|]. cbn [fold_left]. now rewrite H, IH. Qed.

Theorem symmetries_firsts p : symmetries gen_basis p = firsts hkey [] (all_images p).
Proof.
  rewrite <- (dedup_firsts hkey). unfold symmetries. cbv zeta. f_equal.
  transitivity (fold_left (dstep hkey) (map (fun i => (image gen_basis p (nth i (syms (Z.of_N (size p))) (fun x y => (x, y))), i)) (seq 0 8)) []).
  - apply fold_left_ext2. intros acc pi. unfold dstep, hkey. reflexivity.
  - f_equal. unfold all_images, imgk. apply map_ext. intros i. now rewrite nth_syms_csym.
Qed.

Lemma all_images_split p k : k < 8 ->
  all_images p = map (fun i => (imgk p i, i)) (seq 0 k) ++ (imgk p k, k) :: map (fun i => (imgk p i, i)) (seq (S k) (7 - k)).
Proof.
  intros Hk. unfold all_images. replace 8 with (k + S (7 - k)) by lia. rewrite seq_app, map_app. cbn [seq map plus]. reflexivity.
Qed.

Lemma app_inv_len {A} : forall (l1 l1' l2 l2' : list A), length l1 = length l1' -> l1 ++ l2 = l1' ++ l2' -> l1 = l1' /\ l2 = l2'.
Proof.
  induction l1 as [|a l1 IH]; intros [|b l1'] l2 l2' L E; cbn in L; try discriminate; [now split|].
  cbn [app] in E. injection E as -> E. destruct (IH l1' l2 l2' ltac:(lia) E) as [-> ->]. now split.
Qed.

Lemma all_images_inv p l1 x l2 : all_images p = l1 ++ x :: l2 ->
  exists k, k < 8 /\ x = (imgk p k, k) /\ l1 = map (fun i => (imgk p i, i)) (seq 0 k).
Proof.
  intros E. assert (Hl : length l1 < 8).
  { apply (f_equal (@length _)) in E. unfold all_images in E. rewrite map_length, seq_length, app_length in E. cbn [length] in E. lia. }
  exists (length l1). split; [exact Hl|]. rewrite (all_images_split p (length l1) Hl) in E.
  symmetry in E. apply app_inv_len in E; [|now rewrite map_length, seq_length].
  destruct E as [E1 E2]. injection E2 as E2 _. auto.
Qed.

(* two images showing the same squares are the same record: size, ply, flag and (recomputed) reserves agree anyway *)
Lemma images_eq p i j : i < 8 -> j < 8 -> pos_ok p -> sq (abs (imgk p i)) = sq (abs (imgk p j)) -> imgk p i = imgk p j.
Proof.
  intros Hi Hj Hp Esq. unfold imgk in *.
  set (si := csym (N.to_nat (size p)) i) in *. set (sj := csym (N.to_nat (size p)) j) in *.
  apply pos_ok_eq; [now apply image_pos_ok|now apply image_pos_ok|].
  destruct (image_fields p si Hp) as (A1 & A2 & A3). destruct (image_fields p sj Hp) as (B1 & B2 & B3).
  assert (R : forall k s, k < 8 -> s = csym (N.to_nat (size p)) k ->
    whiteStones (image gen_basis p s) = dec8 (dp (N.to_nat (size p))) (TpsFacts5.on_board is_ws p) /\
    whiteCaps (image gen_basis p s) = dec8 (dc (N.to_nat (size p))) (TpsFacts5.on_board is_wc p) /\
    blackStones (image gen_basis p s) = dec8 (dp (N.to_nat (size p))) (TpsFacts5.on_board is_bs p) /\
    blackCaps (image gen_basis p s) = dec8 (dc (N.to_nat (size p))) (TpsFacts5.on_board is_bc p)).
  { intros k s Hk ->. rewrite image_eq.
    destruct (fs_reserves _ _ (Move.move p) (img_board_fit p (csym (N.to_nat (size p)) k) Hp)) as (R1 & R2 & R3 & R4).
    rewrite !(image_counts k p) in * by assumption. auto. }
  destruct (R i si Hi eq_refl) as (C1 & C2 & C3 & C4). destruct (R j sj Hj eq_refl) as (D1 & D2 & D3 & D4).
  unfold abs in *. cbn [sq] in Esq. rewrite Esq, A1, A2, A3, B1, B2, B3, C1, C2, C3, C4, D1, D2, D3, D4. reflexivity.
Qed.

Definition no_collision (p : position) : Prop :=
  forall i j, i < 8 -> j < 8 -> hash_of (imgk p i) = hash_of (imgk p j) -> sq (abs (imgk p i)) = sq (abs (imgk p j)).

Theorem symmetries_exact p : pos_ok p -> no_collision p ->
  let L := symmetries gen_basis p in
  (* (A) every entry is an image paired with its transform, the first one that produces it *)
  (forall q k, In (q, k) L -> k < 8 /\ q = imgk p k /\ pos_ok q /\ forall i, i < k -> imgk p i <> q) /\
  (* (B) every image is in the list *)
  (forall k, k < 8 -> exists j, j <= k /\ In (imgk p k, j) L) /\
  (* (C) exactly once: the entries show pairwise different boards (hence are pairwise different records with different hashes) *)
  NoDup (map (fun x => sq (abs (fst x))) L) /\ NoDup (map hkey L).
Proof.
  intros Hp NC L. subst L. rewrite symmetries_firsts.
  assert (Hsame : forall i j, i < 8 -> j < 8 -> hash_of (imgk p i) = hash_of (imgk p j) -> imgk p i = imgk p j).
  { intros i j Hi Hj E. apply images_eq; auto. }
  split; [|split; [|split]].
  - intros q k Hin. apply firsts_In in Hin as (_ & l1 & l2 & E & Hfirst).
    apply all_images_inv in E as (k' & Hk' & Ex & ->). injection Ex as -> ->.
    split; [exact Hk'|]. split; [reflexivity|]. split; [apply image_pos_ok; exact Hp|].
    intros i Hi Eq. apply (Hfirst (imgk p i, i)).
    + apply in_map_iff. exists i. split; [reflexivity|apply in_seq; lia].
    + unfold hkey. cbn [fst]. now rewrite Eq.
  - (* the first index j with the hash of image k *)
    intros k Hk.
    assert (Hex : exists j, j <= k /\ hash_of (imgk p j) = hash_of (imgk p k) /\ forall i, i < j -> hash_of (imgk p i) <> hash_of (imgk p k)).
    { clear Hk. induction k as [k IH] using lt_wf_ind.
      destruct (existsb (fun i => (hash_of (imgk p i) =? hash_of (imgk p k))%N) (seq 0 k)) eqn:Ex.
      - apply existsb_exists in Ex as (i & Hi & Ei). apply in_seq in Hi. apply N.eqb_eq in Ei.
        destruct (IH i ltac:(lia)) as (j & Hj & Ej & Hm). exists j. split; [lia|]. split; [congruence|].
        intros i' Hi'. rewrite <- Ei. now apply Hm.
      - exists k. split; [lia|]. split; [reflexivity|]. intros i Hi E.
        assert (Hn : existsb (fun i => (hash_of (imgk p i) =? hash_of (imgk p k))%N) (seq 0 k) = true).
        { apply existsb_exists. exists i. split; [apply in_seq; lia|now apply N.eqb_eq]. }
        congruence. }
    destruct Hex as (j & Hj & Ej & Hm). exists j. split; [exact Hj|].
    rewrite <- (Hsame j k ltac:(lia) Hk Ej).
    apply (firsts_keeps hkey _ [] _ _ _ (all_images_split p j ltac:(lia))); [intros []|].
    intros y Hy. apply in_map_iff in Hy as (i & <- & Hi). apply in_seq in Hi. unfold hkey. cbn [fst].
    rewrite Ej. apply Hm. lia.
  - apply (NoDup_map_coarser hkey); [|apply firsts_NoDup].
    intros [q1 k1] [q2 k2] H1 H2 E. cbn [fst] in E. unfold hkey. cbn [fst].
    apply firsts_In in H1 as (_ & a1 & a2 & E1 & _). apply all_images_inv in E1 as (i & Hi & Ex1 & _). injection Ex1 as -> ->.
    apply firsts_In in H2 as (_ & b1 & b2 & E2 & _). apply all_images_inv in E2 as (j & Hj & Ex2 & _). injection Ex2 as -> ->.
    f_equal. now apply images_eq.
  - apply firsts_NoDup.
Qed.
Print Assumptions symmetries_exact.

(* each listed position abstracts to the specification-level image under its transform *)
Corollary symmetries_abs p q k : pos_ok p -> reserves_match_board p -> Move.black_wins_ties p = false ->
  In (q, k) (symmetries gen_basis p) -> k < 8 /\ q = imgk p k /\ abs q = img k (abs p).
Proof.
  intros Hp RM Hb Hin. rewrite symmetries_firsts in Hin. apply firsts_In in Hin as (_ & l1 & l2 & E & _).
  apply all_images_inv in E as (k' & Hk' & Ex & _). injection Ex as -> ->.
  split; [exact Hk'|]. split; [reflexivity|]. now apply image_abs.
Qed.


(* ---- a decidable sufficient check of no_collision, and non-vacuity ---- *)
Lemma list_eqb_sound {A} (e : A -> A -> bool) : (forall x y, e x y = true -> x = y) -> forall a b, list_eqb e a b = true -> a = b.
Proof.
  intros He. induction a as [|x a IH]; intros [|y b] H; cbn [list_eqb] in H; try discriminate; [reflexivity|].
  apply andb_prop in H as [H1 H2]. f_equal; [now apply He|now apply IH].
Qed.
Lemma piece_eqb_sound x y : piece_eqb x y = true -> x = y.
Proof. destruct x as [[] []], y as [[] []]; cbn; intros; congruence. Qed.

Definition pairsb (h : nat -> N) (g : nat -> list (list piece)) : bool :=
  forallb (fun i => forallb (fun j => negb (h i =? h j)%N || list_eqb (list_eqb piece_eqb) (g i) (g j)) (seq 0 8)) (seq 0 8).

Lemma pairs_check (h : nat -> N) (g : nat -> list (list piece)) : pairsb h g = true ->
  forall i j, i < 8 -> j < 8 -> h i = h j -> g i = g j.
Proof.
  unfold pairsb. intros H i j Hi Hj E. rewrite forallb_forall in H.
  specialize (H i ltac:(apply in_seq; lia)). cbv beta in H. rewrite forallb_forall in H. specialize (H j ltac:(apply in_seq; lia)).
  cbv beta in H. rewrite E, N.eqb_refl in H. cbn [negb orb] in H.
  apply (list_eqb_sound (list_eqb piece_eqb)); [|exact H]. apply list_eqb_sound. apply piece_eqb_sound.
Qed.

Definition no_collisionb (p : position) : bool := pairsb (fun i => hash_of (imgk p i)) (fun i => sq (abs (imgk p i))).

Lemma no_collisionb_ok p : no_collisionb p = true -> no_collision p.
Proof.
  unfold no_collisionb. intros H i j Hi Hj E.
  change ((fun i => sq (abs (imgk p i))) i = (fun i => sq (abs (imgk p i))) j).
  apply (pairs_check (fun i => hash_of (imgk p i)) (fun i => sq (abs (imgk p i))) H i j Hi Hj). exact E.
Qed.

Require Import PreserveEx.
(* an asymmetric position: eight different images, all listed, in the order of the table *)
Example ex_symmetries_p14 : pos_ok p14 /\ no_collision p14 /\ map snd (symmetries gen_basis p14) = [0; 1; 2; 3; 4; 5; 6; 7].
Proof.
  destruct p14_hyps as (A & _). split; [exact A|]. split; [apply no_collisionb_ok; vm_compute; reflexivity|vm_compute; reflexivity].
Qed.

(* a position with a mirror symmetry (5x5, flats on a1 and e1 after the opening: flipX maps it to itself... with colours swapped it is not):
   the empty board has one image; the board after a1 has four (a corner: the diagonal reflection keeps it; index 4 = the other diagonal reaches e5 before the rotation does) *)
Definition p_a1 : position := match mv start5 (M 2 0 0 0) with Ok q => q | _ => start5 end.
Example ex_symmetries_sym :
  pos_ok start5 /\ no_collision start5 /\ map snd (symmetries gen_basis start5) = [0] /\
  pos_ok p_a1 /\ no_collision p_a1 /\ map snd (symmetries gen_basis p_a1) = [0; 1; 2; 4].
Proof.
  destruct (new_ok 5 false 21 1 ltac:(lia) ltac:(lia) ltac:(lia)) as (N1 & _ & N3).
  assert (E : mv start5 (M 2 0 0 0) = Ok p_a1) by (vm_compute; reflexivity).
  destruct (move_preserves_small start5 (M 2 0 0 0) p_a1 N1 ltac:(unfold start5; lia) ltac:(discriminate) E) as (_ & P & _).
  split; [exact N1|]. split; [apply no_collisionb_ok; vm_compute; reflexivity|]. split; [vm_compute; reflexivity|].
  split; [exact P|]. split; [apply no_collisionb_ok; vm_compute; reflexivity|vm_compute; reflexivity].
Qed.
