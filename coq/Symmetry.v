(* Sym/Symmetry.v + Sym/Canonical.v (draft): symmetry/canonical.go *)
From Coq Require Import NArith ZArith List Bool Lia.
Require Import Board Move GameOver Tps.
Import ListNotations.
Open Scope Z_scope.

Notation res := Move.res.
Notation Ok := Move.Ok. Notation Err := Move.Err. Notation Panic := Move.Panic.

Definition symfn := Z -> Z -> Z * Z.

Definition syms (size : Z) : list symfn :=
  let flip i := wrap8 (wrap8 (wrap8 size - 1) - i) in
  [ (fun x y => (x, y)); (fun x y => (flip x, y)); (fun x y => (x, flip y)); (fun x y => (y, x));
    (fun x y => (flip y, flip x)); (fun x y => (flip x, flip y)); (fun x y => (y, flip x)); (fun x y => (flip y, x)) ].

(* compose(ss...): apply the LAST element first *)
Definition compose (ss : list symfn) : symfn :=
  fun x y => fold_left (fun (xy : Z * Z) (s : symfn) => s (fst xy) (snd xy)) (rev ss) (x, y).

Definition slides_len (s : N) : Z := Z.of_nat (length (nibbles 8 s)).

Definition dest (m : rmove) : res (Z * Z) :=
  match mT m with
  | 2%N | 3%N | 4%N => Ok (mX m, mY m)
  | 5%N => Ok (wrap8 (mX m - wrap8 (slides_len (mS m))), mY m)
  | 6%N => Ok (wrap8 (mX m + wrap8 (slides_len (mS m))), mY m)
  | 7%N => Ok (mX m, wrap8 (mY m + wrap8 (slides_len (mS m))))
  | 8%N => Ok (mX m, wrap8 (mY m - wrap8 (slides_len (mS m))))
  | _ => Panic
  end.

Definition transform_move (s : symfn) (m : rmove) : res rmove :=
  let '(ox, oy) := s (mX m) (mY m) in
  if (mT m <? 5)%N then Ok {| mX := ox; mY := oy; mT := mT m; mS := 0 |} else
  match dest m with
  | Ok (dx0, dy0) =>
    let '(dx, dy) := s dx0 dy0 in
    if (dx =? ox) && (oy <? dy) then Ok {| mX := ox; mY := oy; mT := 7; mS := mS m |}
    else if (dx =? ox) && (dy <? oy) then Ok {| mX := ox; mY := oy; mT := 8; mS := mS m |}
    else if (dx <? ox) && (dy =? oy) then Ok {| mX := ox; mY := oy; mT := 5; mS := mS m |}
    else if (ox <? dx) && (dy =? oy) then Ok {| mX := ox; mY := oy; mT := 6; mS := mS m |}
    else Panic
  | Err => Err | Panic => Panic
  end.

Definition prefer_move (l r : rmove) : bool :=
  if negb (mY l =? mY r) then mY l <? mY r else if negb (mX l =? mX r) then mX l <? mX r else (mT l <? mT r)%N.

Section S.
Variable basis : list N.
Definition mvp := move_prealloc (hash_sq basis) true.            (* Position.Move (repaired: off-board origins are errors) *)

Definition new_pos (sz : N) : position := from_squares basis sz (repeat (repeat [] (N.to_nat sz)) (N.to_nat sz)) 0.

(* Symmetries(p): the eight rebuilt boards, de-duplicated by Hash(), first occurrence kept *)
Definition image (p : position) (s : symfn) : position :=
  let n := N.to_nat (size p) in
  let cell (rx ry : nat) : list pc :=      (* the square whose image is (rx,ry) *)
    match find (fun xy => let '(ix, iy) := s (Z.of_nat (fst xy)) (Z.of_nat (snd xy)) in (ix =? Z.of_nat rx) && (iy =? Z.of_nat ry))
               (flat_map (fun x => map (fun y => (x, y)) (seq 0 n)) (seq 0 n)) with
    | Some (x, y) => at_sq p (N.of_nat (x + y * n))
    | None => []
    end in
  from_squares basis (size p) (map (fun ry => map (fun rx => cell rx ry) (seq 0 n)) (seq 0 n)) (move p).

Definition symmetries (p : position) : list (position * nat) :=
  let all := map (fun i => (image p (nth i (syms (Z.of_N (size p))) (fun x y => (x, y))), i)) (seq 0 8) in
  rev (fold_left (fun (acc : list (position * nat)) (pi : position * nat) =>
         if existsb (fun q => (hash_of (fst q) =? hash_of (fst pi))%N) acc then acc else pi :: acc) all []).

(* Canonical *)
Record cstate := { cp : position; cms : list rmove }.

Fixpoint all_res {A} (l : list (res A)) : res (list A) :=
  match l with
  | [] => Ok []
  | Ok a :: r => match all_res r with Ok t => Ok (a :: t) | Err => Err | Panic => Panic end
  | Err :: _ => Err | Panic :: _ => Panic
  end.

Definition canonical (sz : N) (ms : list rmove) : res (list rmove) :=
  let ss := syms (Z.of_N sz) in
  let p0 := new_pos sz in
  let step (acc : res (list cstate * list symfn * symfn)) (m : rmove) : res (list cstate * list symfn * symfn) :=
    match acc with
    | Ok (boards, rots, tfn) =>
      let h := hash_of (cp (hd {| cp := p0; cms := [] |} boards)) in
      match transform_move tfn m with
      | Ok m1 =>
        (* look for a preferred image among the boards that still equal board 0 *)
        let cand := fold_left (fun (st : res (rmove * option symfn)) (ib : nat * cstate) =>
              match st with
              | Ok (best, rot) =>
                if (fst ib =? 0)%nat then st else
                if (hash_of (cp (snd ib)) =? h)%N then
                  match transform_move (nth (fst ib) ss (fun x y => (x, y))) m1 with
                  | Ok rm => if prefer_move rm best then Ok (rm, Some (nth (fst ib) ss (fun x y => (x, y)))) else st
                  | Err => Err | Panic => Panic
                  end
                else st
              | e => e
              end) (combine (seq 0 8) boards) (Ok (m1, None)) in
        match cand with
        | Ok (best, rot) =>
          let '(rots, tfn, m2) := match rot with Some r => let rots' := r :: rots in (rots', compose rots', best) | None => (rots, tfn, m1) end in
          let moved := map (fun ib : nat * cstate =>
                match transform_move (nth (fst ib) ss (fun x y => (x, y))) m2 with
                | Ok rm => match mvp (cp (snd ib)) rm with
                           | Ok q => Ok {| cp := q; cms := cms (snd ib) ++ [rm] |}
                           | Err => Err | Panic => Panic end
                | Err => Err | Panic => Panic
                end) (combine (seq 0 8) boards) in
          match all_res moved with Ok bs => Ok (bs, rots, tfn) | Err => Err | Panic => Panic end
        | Err => Err | Panic => Panic
        end
      | Err => Err | Panic => Panic
      end
    | e => e
    end in
  match fold_left step ms (Ok (repeat {| cp := p0; cms := [] |} 8, [], nth 0 ss (fun x y => (x, y)))) with
  | Ok (boards, _, _) => Ok (cms (hd {| cp := p0; cms := [] |} boards))
  | Err => Err | Panic => Panic
  end.
End S.
