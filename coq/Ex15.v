From Coq Require Import ZArith List Bool. Require Import Board Move GameOver Tps Bot.
Require Extraction.
Require Import ExtrOcamlBasic.
Definition bot_apply (p : position) (m : rmove) : option position :=
  match move_prealloc (hash_sq nil) false p m with Move.Ok q => Some q | _ => None end.
Definition bot_over (p : position) : bool := match game_over p with Some (o, _) => o | None => false end.
Definition bot_start (sz : BinNums.N) : position := from_squares nil sz (repeat (repeat nil (N.to_nat sz)) (N.to_nat sz)) 0%Z.
Definition bot_init (sz : BinNums.N) (bot_white : bool) :=
  init position rmove (fun p => Bool.eqb (to_move_white p) bot_white) (bot_start sz).
Definition bot_step (sz : BinNums.N) (bot_white fixed : bool) (s : state position rmove) (e : event rmove) :=
  step position rmove bot_apply (fun p => Bool.eqb (to_move_white p) bot_white) bot_over (bot_start sz) fixed true s e.
Extraction "model15.ml" bot_init bot_step.
