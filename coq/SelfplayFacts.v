(* SelfplayFacts.v: the game loop of cmd/internal/selfplay (model Selfplay.v) run against two engine processes that are Engine.Run
   of Tei.v.  First the two calls on their own - NewGame and TEIGetMove on a client that is in step with its engine - then
   (SelfplayFacts2.v) the loop. *)
From Coq Require Import NArith ZArith List Bool Lia Ascii String ZifyN ZifyBool ZifyNat.
Require Import Board Move GameOver PtnMove Playtak Tps TeiBudget Tei TeiSpec TeiFacts TeiClient TeiClientFacts TeiClientFacts2 TeiClientFmt TeiClientFacts3.
Require Import PtnMoveFacts TpsFacts5 TpsFacts6 Preserve1 Import7.
Require Import Generated.Consts.
Import ListNotations.
Local Open Scope N_scope.

(* what C10's exact round trip asks of a position *)
Definition good (p : position) : Prop := pos_ok p /\ reserves_match_board p /\ Move.black_wins_ties p = false.

Section Calls.
Variable SS : Type.
Variable mk_searcher : Z -> SS.
Variable search : SS -> option Z -> position -> SS * (list rmove * Z * Z * Z).
Notation basis := gen_basis.
Notation step := (Tei.step basis SS mk_searcher search).
Notation eng := (tei_proc basis SS mk_searcher search).

(* a client in step with its engine, whose current game is g and whose engine is configured for size sz *)
Definition ready (c : client (proc SS)) (g sz : Z) : Prop :=
  in_sync SS c /\ c_gameid c = g /\ e_size (p_eng (c_es c)) = sz.

Lemma new_game_ok (c : client (proc SS)) sz : in_sync SS c -> (3 <= sz <= 8)%Z ->
  exists c1, new_game (proc SS) eng c sz = (c1, ROk (wrap64 (c_gameid c + 1))) /\ ready c1 (wrap64 (c_gameid c + 1)) sz.
Proof.
  intros (Hbuf & Hcl & Hal & Hwf) Hsz. unfold new_game.
  set (c0 := {| c_gameid := wrap64 (c_gameid c + 1); c_es := c_es c; c_buf := c_buf c; c_closed := c_closed c |}).
  assert (S0 : in_sync SS c0) by (repeat split; assumption || apply Hwf).
  assert (N1 := step_newgame_line basis SS mk_searcher search (p_eng (c_es c0)) sz Hsz).
  rewrite (send_quiet SS mk_searcher search c0 _ S0) by (rewrite N1; reflexivity). rewrite N1. cbn [sr sr_eng].
  eexists. split; [reflexivity|]. split; [|split; reflexivity].
  repeat split; try reflexivity; cbn; intros; discriminate.
Qed.

(* TEIGetMove on a ready client: the engine is told exactly p, answers with the searcher's move, which is legal in p and comes back
   unchanged; client and engine are in step again, same game, same size *)
Theorem tei_get_move_ok (c : client (proc SS)) g p dl tc :
  searcher_ok_wire_at SS search p -> ready c g (Z.of_N (Move.size p)) -> good p -> (0 <= Move.move p < 2 ^ 63)%Z ->
  (forall d, dl = Some d -> int64 d) -> (forall t, tc = Some t -> tc_int64 t) -> go_words dl tc <> None ->
  exists c2 m, tei_get_move (proc SS) eng c g p dl tc = (c2, ROk m) /\
    legal basis p (to_rmove m) /\ ready c2 g (Z.of_N (Move.size p)) /\ e_pos (p_eng (c_es c2)) = Some p.
Proof.
  intros Hs (Hsync & Hg & Hsize) (Hp & RM & Hb) Hm Hdl Htc Hgo. pose proof (po_size _ Hp) as Hsz.
  unfold tei_get_move. rewrite Hg, Z.eqb_refl. cbn [negb].
  pose proof Hsync as (Hbuf & Hcl & Hal & Hwf).
  assert (P1 := step_position_line basis SS mk_searcher search (p_eng (c_es c)) p Hsz Hm Hsize p (tps_round_trip_exact p Hp RM Hb Hm) eq_refl).
  rewrite (send_quiet SS mk_searcher search c _ Hsync) by (rewrite P1; reflexivity). rewrite P1. cbn [sr sr_eng].
  destruct (go_words dl tc) as [ws|] eqn:Egw; [|congruence].
  destruct (client_go_line dl tc ws Hdl Htc Egw) as (args & -> & Hfields & Hparse).
  set (e2 := ({| e_mm := e_mm (p_eng (c_es c)); e_pos := Some p; e_size := e_size (p_eng (c_es c)) |} : engine SS)).
  assert (W2 : wf_engine SS e2).
  { destruct Hwf as [_ Wm]. split; cbn; [intros q Hq; injection Hq as <-; symmetry; exact Hsize|exact Wm]. }
  destruct (step_go_answer SS mk_searcher search e2 (go_line (s_go :: args)) args p Hs W2 Hfields eq_refl ltac:(rewrite Hparse; discriminate))
    as (m & rest & v & d & n & Hout & Hst & Hleg & Hwire & Hpos & Hwf3).
  unfold send_command. cbn [c_es c_buf c_closed c_gameid].
  rewrite (proc_running SS mk_searcher search {| p_eng := e2; p_alive := true |} _ eq_refl Hst). cbn [er_state er_out er_closed app orb p_eng p_alive].
  rewrite Hout.
  assert (Hshape : legal_shape (of_rmove m)).
  { destruct Hleg as [q Hq]. exact (legal_wire_shape basis p m q Hsz Hq Hwire). }
  assert (Hword : word (fmt_move m)) by (unfold fmt_move; now apply format_move_word).
  destruct (fields_info_line (m :: rest) v d n) as (iw & Hinfo).
  assert (Hsb : s_bestmove <> []) by discriminate.
  destruct s_bestmove as [|b0 br] eqn:Esb; [congruence|]. rewrite <- Esb.
  cbn [wait_for]. rewrite Hinfo.
  change (bytes_eqb (str "info") s_bestmove) with false. cbv iota.
  rewrite (fields_bestmove_line m Hword).
  change (bytes_eqb s_bestmove s_bestmove) with true. cbv iota.
  cbn [List.length Nat.eqb negb nth].
  unfold fmt_move. rewrite (ptn_roundtrip false _ Hshape).
  eexists _, _. split; [reflexivity|]. rewrite to_of_rmove. split; [exact Hleg|].
  cbn [c_es p_eng c_buf c_closed p_alive c_gameid]. split; [|exact Hpos].
  split; [|split; [cbn [c_gameid]; exact Hg|]].
  - repeat split; try reflexivity; apply Hwf3.
  - (* the size survives the go *)
    rewrite (step_classify basis SS mk_searcher search e2), (classify_go _ _ Hfields). unfold step_go. cbn [sr_eng].
    cbn [c_es p_eng]. destruct (do_go_pos SS mk_searcher search e2 args) as [_ E]. rewrite E. exact Hsize.
Qed.
End Calls.
