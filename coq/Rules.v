(* Tak/Rules.v (draft): the rules of Tak over an abstract board.  No bit operation, no hash. *)
From Coq Require Import NArith ZArith List Bool Lia.
Import ListNotations.

Inductive colour := White | Black.
Inductive kind := Flat | Standing | Cap.
Definition piece := (colour * kind)%type.
Definition flip (c : colour) := match c with White => Black | Black => White end.
Definition colour_eqb a b := match a, b with White, White | Black, Black => true | _, _ => false end.

Record apos := {
  n : nat;                              (* board side, 3..8 *)
  sq : list (list piece);               (* n*n stacks, index x + y*n, TOP FIRST *)
  wstones : N; wcaps : N; bstones : N; bcaps : N;
  ply : Z;
  black_wins_ties : bool }.

Definition to_move (p : apos) : colour := if Z.even (ply p) then White else Black.

(* ---- raw move values and their decoding ---- *)
Record rawmove := { mx : Z; my : Z; mtype : N; mslides : N }.
Inductive dir := Left | Right | Up | Down.
Inductive amove :=
| Place (k : kind) (x y : Z)
| Slide (d : dir) (x y : Z) (drops : list N).

(* little-endian base-16 digits of s, as the iterator yields them (fuel 8 = 32 bits) *)
Fixpoint nibbles (fuel : nat) (s : N) : list N :=
  match fuel with
  | O => []
  | S f => if N.eqb s 0 then [] else N.land s 15 :: nibbles f (N.shiftr s 4)
  end.

Definition decode (m : rawmove) : option amove :=
  match mtype m with
  | 2%N => Some (Place Flat (mx m) (my m))
  | 3%N => Some (Place Standing (mx m) (my m))
  | 4%N => Some (Place Cap (mx m) (my m))
  | 5%N => Some (Slide Left (mx m) (my m) (nibbles 8 (mslides m)))
  | 6%N => Some (Slide Right (mx m) (my m) (nibbles 8 (mslides m)))
  | 7%N => Some (Slide Up (mx m) (my m) (nibbles 8 (mslides m)))
  | 8%N => Some (Slide Down (mx m) (my m) (nibbles 8 (mslides m)))
  | _ => None                       (* 0, 1 = Pass (outside the claim), >= 9 *)
  end.

(* ---- board access ---- *)
Definition on_board (p : apos) (x y : Z) : bool :=
  (0 <=? x)%Z && (x <? Z.of_nat (n p))%Z && (0 <=? y)%Z && (y <? Z.of_nat (n p))%Z.
Definition idx (p : apos) (x y : Z) : nat := Z.to_nat x + Z.to_nat y * n p.
Definition stack_at (p : apos) (x y : Z) : list piece := nth (idx p x y) (sq p) [].
Fixpoint upd {A} (l : list A) (i : nat) (v : A) : list A :=
  match l, i with
  | [], _ => []
  | _ :: t, O => v :: t
  | h :: t, S j => h :: upd t j v
  end.
Definition set_stack (p : apos) (x y : Z) (s : list piece) : list (list piece) := upd (sq p) (idx p x y) s.

Definition delta (d : dir) : Z * Z :=
  match d with Left => (-1, 0) | Right => (1, 0) | Up => (0, 1) | Down => (0, -1) end%Z.

(* ---- placement ---- *)
Definition place (p : apos) (k : kind) (x y : Z) : option apos :=
  if negb (on_board p x y) then None else
  match stack_at p x y with
  | _ :: _ => None
  | [] =>
    let opening := (ply p <? 2)%Z in
    if opening && match k with Flat => false | _ => true end then None else
    let c := if opening then flip (to_move p) else to_move p in
    let take (r : N) := if N.eqb r 0 then None else Some (N.pred r) in
    let board := set_stack p x y [(c, k)] in
    let mk ws wc bs bc := Some {| n := n p; sq := board; wstones := ws; wcaps := wc; bstones := bs; bcaps := bc;
                                  ply := ply p + 1; black_wins_ties := black_wins_ties p |} in
    match k, c with
    | Cap, White => match take (wcaps p) with Some r => mk (wstones p) r (bstones p) (bcaps p) | None => None end
    | Cap, Black => match take (bcaps p) with Some r => mk (wstones p) (wcaps p) (bstones p) r | None => None end
    | _, White => match take (wstones p) with Some r => mk r (wcaps p) (bstones p) (bcaps p) | None => None end
    | _, Black => match take (bstones p) with Some r => mk (wstones p) (wcaps p) r (bcaps p) | None => None end
    end
  end.

(* ---- slide ---- *)
Definition sumN (l : list N) : N := fold_right N.add 0%N l.

(* one drop: the bottom c pieces of the carry (top first) land on the target stack *)
Definition land_on (carry : list piece) (c : N) (target : list piece) : option (list piece) :=
  let chunk := skipn (length carry - N.to_nat c) carry in
  match target with
  | (_, Cap) :: _ => None
  | (tc, Standing) :: below =>
      match carry with
      | [(cc, Cap)] => Some (chunk ++ (tc, Flat) :: below)       (* a lone capstone flattens the wall *)
      | _ => None
      end
  | _ => Some (chunk ++ target)
  end.

(* deal the carried pieces (top first) along the ray; the first drop takes from the BOTTOM of the carry *)
Fixpoint deal (p : apos) (board : list (list piece)) (d : dir) (x y : Z) (carry : list piece) (drops : list N)
  : option (list (list piece)) :=
  match drops with
  | [] => match carry with [] => Some board | _ => None end
  | c :: rest =>
    let (dx, dy) := delta d in
    let x' := (x + dx)%Z in let y' := (y + dy)%Z in
    if negb (on_board p x' y') then None else
    match land_on carry c (nth (idx p x' y') board []) with
    | None => None
    | Some s => deal p (upd board (idx p x' y') s) d x' y' (firstn (length carry - N.to_nat c) carry) rest
    end
  end.

Definition slide (p : apos) (d : dir) (x y : Z) (drops : list N) : option apos :=
  if (ply p <? 2)%Z then None else
  if negb (on_board p x y) then None else
  if existsb (N.eqb 0) drops then None else
  let ct := sumN drops in
  let st := stack_at p x y in
  if (ct =? 0)%N || (N.of_nat (n p) <? ct)%N || (N.of_nat (length st) <? ct)%N then None else
  match st with
  | (c, _) :: _ =>
    if negb (colour_eqb c (to_move p)) then None else
    let carry := firstn (N.to_nat ct) st in
    let board0 := set_stack p x y (skipn (N.to_nat ct) st) in
    match deal p board0 d x y carry drops with
    | None => None
    | Some b => Some {| n := n p; sq := b; wstones := wstones p; wcaps := wcaps p; bstones := bstones p;
                        bcaps := bcaps p; ply := ply p + 1; black_wins_ties := black_wins_ties p |}
    end
  | [] => None
  end.

Definition rules_move (p : apos) (m : rawmove) : option apos :=
  match decode m with
  | Some (Place k x y) => place p k x y
  | Some (Slide d x y drops) => slide p d x y drops
  | None => None
  end.

(* ---- roads, end of game ---- *)
Definition is_road_top (c : colour) (s : list piece) : Prop :=
  match s with (c', Flat) :: _ | (c', Cap) :: _ => c' = c | _ => False end.
Definition adjacent (a b : Z * Z) : Prop :=
  (Z.abs (fst a - fst b) + Z.abs (snd a - snd b) = 1)%Z.
Fixpoint chain (l : list (Z * Z)) : Prop :=
  match l with a :: ((b :: _) as t) => adjacent a b /\ chain t | _ => True end.
Definition Road (p : apos) (c : colour) : Prop :=
  exists path : list (Z * Z), path <> [] /\ chain path /\
    Forall (fun xy => on_board p (fst xy) (snd xy) = true /\ is_road_top c (stack_at p (fst xy) (snd xy))) path /\
    let a := hd (0, 0)%Z path in let b := last path (0, 0)%Z in let m := (Z.of_nat (n p) - 1)%Z in
    ((fst a = 0 /\ fst b = m) \/ (snd a = 0 /\ snd b = m))%Z.

Definition flat_count (p : apos) (c : colour) : nat :=
  length (filter (fun s => match s with (c', Flat) :: _ => colour_eqb c c' | _ => false end) (sq p)).
Definition board_full (p : apos) : bool := forallb (fun s => match s with [] => false | _ => true end) (sq p).
Definition out_of_pieces (p : apos) : bool :=
  ((wstones p =? 0) && (wcaps p =? 0))%N || ((bstones p =? 0) && (bcaps p =? 0))%N.

Inductive outcome := Undecided | Draw | Win (c : colour) (by_road : bool).

Definition flats_outcome (p : apos) : outcome :=
  let w := flat_count p White in let b := flat_count p Black in
  if Nat.ltb b w then Win White false else if Nat.ltb w b then Win Black false
  else if black_wins_ties p then Win Black false else Draw.

Definition Outcome (p : apos) (o : outcome) : Prop :=
  (Road p White /\ Road p Black /\ o = Win (flip (to_move p)) true) \/   (* the player who just moved *)
  (Road p White /\ ~ Road p Black /\ o = Win White true) \/
  (~ Road p White /\ Road p Black /\ o = Win Black true) \/
  (~ Road p White /\ ~ Road p Black /\
     ((board_full p || out_of_pieces p = true /\ o = flats_outcome p) \/
      (board_full p || out_of_pieces p = false /\ o = Undecided))).

(* ---- a smoke test ---- *)
Definition start (size : nat) (pieces caps : N) : apos :=
  {| n := size; sq := repeat [] (size * size); wstones := pieces; wcaps := caps; bstones := pieces; bcaps := caps;
     ply := 0; black_wins_ties := false |}.
Definition mv t x y s := {| mx := x; my := y; mtype := t; mslides := s |}.
Definition play (p : apos) (ms : list rawmove) : option apos :=
  fold_left (fun o m => match o with Some q => rules_move q m | None => None end) ms (Some p).
Eval vm_compute in option_map sq (play (start 3 10 0)
  [mv 2 0 0 0; mv 2 2 2 0; mv 2 1 0 0; mv 6 0 0 1; mv 5 2 2 1 ; mv 7 1 0 2]%Z%N).
