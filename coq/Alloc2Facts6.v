(* C09, refined model, part 6: the exported theorems (ownership invariant, value semantics with no part of the position
   exempt), readable corollaries, non-vacuity examples and the witness that the size hypothesis is needed. *)
From Coq Require Import NArith ZArith List Bool Lia Arith.
Require Import Board Move GameOver Alloc AllocFacts AllocFacts2 AllocFacts3 Alloc2 Alloc2Facts Alloc2Facts2 Alloc2Ext Alloc2Facts3 Alloc2Facts4 Alloc2Facts5.
Import ListNotations.

(* the arrays an object can be written through: those of its Height, Stacks and WhiteGroups headers
   (MovePreallocated writes Height/Stacks cells in place, analyze appends behind WhiteGroups[:0]) *)
Definition hdr_arrays (o : obj2) : list nat := [r_arr (o2_hh o); r_arr (o2_sh o); r_arr (o2_wg o)].

(* the ownership invariant, spelled out *)
Definition owns2 (st : store2) (ps : pstate) (zs : list N) : Prop :=
  (* every object, live or dead: Height and Stacks are exactly its own two embedded arrays in full length (n*n cells for the
     size it was allocated with); WhiteGroups is a valid slice of an array that is neither of them nor the nil array *)
  (forall i o, nth_error (s2_objs st) i = Some o ->
     let n := nsq2 (nth i zs 0%N) in
     o2_hh o = {| r_arr := o2_H o; r_off := 0; r_len := n |} /\ o2_sh o = {| r_arr := o2_S o; r_off := 0; r_len := n |} /\
     length (get_arr (s2_arrs st) (o2_H o)) = n /\ length (get_arr (s2_arrs st) (o2_S o)) = n /\
     (0 < o2_H o)%nat /\ o2_S o = S (o2_H o) /\ o2_G o = S (S (o2_H o)) /\
     valid (s2_arrs st) (o2_wg o) /\ (0 < r_arr (o2_wg o))%nat /\ r_arr (o2_wg o) <> o2_H o /\ r_arr (o2_wg o) <> o2_S o) /\
  (* no array is owned (embedded Height/Stacks/Groups array, or the array of the WhiteGroups header) by two objects *)
  (forall i j oi oj a, nth_error (s2_objs st) i = Some oi -> nth_error (s2_objs st) j = Some oj ->
     owned_by oi a -> owned_by oj a -> i = j) /\
  (* the BlackGroups slice of a live handle lies in the array of its own WhiteGroups header, or in an array that no object
     owns (the nil array, or one that append allocated): nothing is ever written there again *)
  (forall h v, pval ps h = Some v -> exists o, nth_error (s2_objs st) h = Some o /\ valid (s2_arrs st) (o2_bg o) /\
     (r_arr (o2_bg o) = r_arr (o2_wg o) \/
      forall j oj, nth_error (s2_objs st) j = Some oj -> ~ owned_by oj (r_arr (o2_bg o)))).

Section S.
Variable hsq : N -> N -> N -> N.

Theorem owns2_invariant ops : ops_ok2 hsq ops = true -> owns2 (run2 hsq ops) (pure_run hsq ops) (zrun hsq ops).
Proof.
  intro Hok. destruct (run2_inv hsq ops Hok) as [(_ & (_ & _ & AW & AJ) & V) _]. split; [|split; [exact AJ|]].
  - intros i o Hi. cbn zeta. destruct (AW i o Hi) as (P1 & P2 & P3 & P4 & P5 & P6 & P7 & P8 & P9 & P10 & P11 & P12).
    unfold hdr_of in P5, P6. repeat (split; [assumption|]). assumption.
  - intros h v Hp. destruct (V h v Hp) as (o & Ho & _ & _ & Vb & _ & _ & Hs). exists o. auto.
Qed.

(* hence: two different objects never share an array between any of their Height / Stacks / WhiteGroups headers, and the
   BlackGroups slice of a live handle never lies in an array that another object can be written through *)
Corollary no_sharing ops : ops_ok2 hsq ops = true ->
  let st := run2 hsq ops in
  (forall i j oi oj a, nth_error (s2_objs st) i = Some oi -> nth_error (s2_objs st) j = Some oj -> i <> j ->
     In a (hdr_arrays oi) -> In a (hdr_arrays oj) -> False) /\
  (forall h v j oh oj, pval (pure_run hsq ops) h = Some v -> nth_error (s2_objs st) h = Some oh ->
     nth_error (s2_objs st) j = Some oj -> h <> j -> In (r_arr (o2_bg oh)) (hdr_arrays oj) -> False).
Proof.
  intro Hok. cbn zeta. destruct (owns2_invariant ops Hok) as (A & AJ & B).
  assert (Own : forall i o a, nth_error (s2_objs (run2 hsq ops)) i = Some o -> In a (hdr_arrays o) -> owned_by o a).
  { intros i o a Hi Ha. destruct (A i o Hi) as (E1 & E2 & _). unfold hdr_arrays in Ha. rewrite E1, E2 in Ha. cbn in Ha.
    unfold owned_by. intuition. }
  split.
  - intros i j oi oj a Hi Hj Hne Ia Ja. apply Hne. eapply AJ; [exact Hi|exact Hj|eapply Own; eassumption|eapply Own; eassumption].
  - intros h v j oh oj Hp Hh Hj Hne Ia. destruct (B h v Hp) as (o & Ho & _ & [E|U]).
    + rewrite Hh in Ho. injection Ho as <-. apply Hne. eapply AJ; [exact Hh|exact Hj| |eapply Own; eassumption].
      rewrite E. right. right. right. reflexivity.
    + rewrite Hh in Ho. injection Ho as <-. apply (U j oj Hj). eapply Own; eassumption.
Qed.

Lemma shows2_observe st zs h v : shows2 st zs h v -> observe2 st h = Some (observe_pure v).
Proof.
  intros (o & Ho & Ev & _ & _ & Rw & Rb & _). unfold observe2, observe_pure. rewrite Ho, Rw, Rb, Ev.
  destruct (analyze_total v) as [wg bg]. reflexivity.
Qed.

(* every live handle shows -- THROUGH ITS HEADERS, Height and Stacks included -- exactly the observables of the pure value
   computed for it *)
Theorem value_semantics2 ops : ops_ok2 hsq ops = true ->
  forall h v, pval (pure_run hsq ops) h = Some v -> observe2 (run2 hsq ops) h = Some (observe_pure v).
Proof. intros Hok h v Hp. eapply shows2_observe. apply (run2_inv hsq ops Hok). exact Hp. Qed.

(* the refined and the first store model show the same (both show the pure value) *)
Corollary observe2_observe ops : ops_ok2 hsq ops = true -> ops_ok hsq ops = true ->
  forall h v, pval (pure_run hsq ops) h = Some v -> observe2 (run2 hsq ops) h = observe (run hsq true ops) h.
Proof. intros H2 H1 h v Hp. rewrite (value_semantics2 ops H2 h v Hp), (value_semantics hsq ops H1 h v Hp). reflexivity. Qed.
End S.

(* ---- non-vacuity: the reuse patterns of AllocFacts3.ops_ok_reuse are admissible here too, and a sequence with stacks ---- *)
Definition reuse_ops : list opr :=
  [ONew 3 false 10 0; OAlloc 3;
   OMovePre 0 (mvp 0 0) 1; OMove 1 (mvp 1 1); OMovePre 0 (mvp 2 2) 1; OMovePre 2 (mvp 0 1) 1;
   OMovePre 2 (mvp 1 1) 0; OClone 2; OMovePre 3 (mvp 2 0) 0; OMovePre 0 (mvp 2 1) 2].
Example ops_ok2_reuse : forall hsq, ops_ok2 hsq reuse_ops = true.
Proof. intro hsq. vm_compute. reflexivity. Qed.

(* a slide that builds a stack (Stacks and Height cells written in place in a reused buffer that held another position) *)
Definition slide_ops : list opr :=
  [ONew 3 false 10 0; OMove 0 (mvp 0 0); OMove 1 (mvp 1 0); OMove 2 (mvp 2 2); OMove 3 (mvp 0 1);
   OMovePre 4 {| mX := 1; mY := 0; mT := 5; mS := 1 |} 1;      (* White's b1 slides left onto Black's a1, into the object of handle 1 *)
   OMovePre 1 (mvp 1 1) 2; OClone 1].
Example ops_ok2_slide : forall hsq, ops_ok2 hsq slide_ops = true /\
  option_map (fun o : observation => Height (fst (fst (fst o)))) (observe2 (run2 hsq slide_ops) 5) = Some [2; 0; 0; 1; 0; 0; 0; 0; 1]%N /\
  option_map (fun o : observation => Stacks (fst (fst (fst o)))) (observe2 (run2 hsq slide_ops) 5) = Some [1; 0; 0; 0; 0; 0; 0; 0; 0]%N.
Proof. intro hsq. vm_compute. repeat split; reflexivity. Qed.

(* ---- the size hypothesis of ops_ok2 is needed: a buffer allocated for another board size is admissible for Alloc.ops_ok,
        but the handle does not show the pure value through its headers (copy stops at the shorter slice; the Height slice
        keeps the buffer's length) ---- *)
Definition wrong_size_ops : list opr := [ONew 3 false 10 0; OAlloc 4; OMovePre 0 (mvp 0 0) 1].
Theorem value_semantics2_needs_size : forall hsq,
  ops_ok hsq wrong_size_ops = true /\ ops_ok2 hsq wrong_size_ops = false /\
  exists v, pval (pure_run hsq wrong_size_ops) 1 = Some v /\ observe2 (run2 hsq wrong_size_ops) 1 <> Some (observe_pure v).
Proof.
  intro hsq. split; [vm_compute; reflexivity|]. split; [vm_compute; reflexivity|].
  eexists. split; [vm_compute; reflexivity|]. vm_compute. intro H. discriminate H.
Qed.
