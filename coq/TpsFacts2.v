(* C10, string layer: strings.Split over a joined list, %d / strconv.Atoi round trip, the move-number arithmetic. *)
From Coq Require Import NArith ZArith List Bool Lia Ascii ZifyN ZifyBool ZifyNat.
Require Import Board Move GameOver PtnMove Playtak Tps TpsFacts.
Import ListNotations.
Local Open Scope N_scope.

(* ---- split_on / join ---- *)
Definition no_sep (sep : N) (s : list N) : Prop := ~ In sep s.

Lemma split_on_nosep sep : forall a cur, no_sep sep a -> split_on sep a cur = [rev cur ++ a].
Proof.
  induction a as [|ch a IH]; intros cur H; cbn [split_on].
  - now rewrite app_nil_r.
  - destruct (N.eqb_spec ch sep) as [->|Hne]; [exfalso; apply H; now left|].
    rewrite IH by (intro Hin; apply H; now right). cbn [rev]. now rewrite <- app_assoc.
Qed.

Lemma split_on_app sep : forall a b cur, no_sep sep a ->
  split_on sep (a ++ sep :: b) cur = (rev cur ++ a) :: split_on sep b [].
Proof.
  induction a as [|ch a IH]; intros b cur H; cbn [split_on app].
  - rewrite N.eqb_refl. now rewrite app_nil_r.
  - destruct (N.eqb_spec ch sep) as [->|Hne]; [exfalso; apply H; now left|].
    rewrite IH by (intro Hin; apply H; now right). cbn [rev]. now rewrite <- app_assoc.
Qed.

Lemma split_join sep : forall l, l <> [] -> Forall (no_sep sep) l -> split_on sep (join sep l) [] = l.
Proof.
  induction l as [|a l IH]; intros Hne Hall; [congruence|].
  inversion Hall as [|? ? Ha Hl]; subst.
  destruct l as [|b l].
  - cbn [join]. now rewrite split_on_nosep.
  - change (join sep (a :: b :: l)) with (a ++ sep :: join sep (b :: l)).
    rewrite split_on_app by assumption. cbn [rev app]. f_equal. apply IH; [discriminate|assumption].
Qed.

Lemma no_sep_app sep a b : no_sep sep a -> no_sep sep b -> no_sep sep (a ++ b).
Proof. unfold no_sep. intros Ha Hb Hin. apply in_app_or in Hin. tauto. Qed.

Lemma no_sep_join sep sep' : forall l, sep' <> sep -> Forall (no_sep sep) l -> no_sep sep (join sep' l).
Proof.
  induction l as [|a l IH]; intros Hne Hall; [intros []|].
  inversion Hall as [|? ? Ha Hl]; subst.
  destruct l as [|b l]; [exact Ha|].
  change (join sep' (a :: b :: l)) with (a ++ sep' :: join sep' (b :: l)).
  apply no_sep_app; [assumption|]. intros [E|Hin]; [congruence|]. now apply (IH Hne Hl).
Qed.

(* ---- decimal text ---- *)
Definition is_digit (c : N) : Prop := 48 <= c <= 57.

Lemma B_0 : B "0" = 48. Proof. reflexivity. Qed.
Lemma B_9 : B "9" = 57. Proof. reflexivity. Qed.

Lemma dec_digits : forall fuel n acc, Forall is_digit acc -> Forall is_digit (dec fuel n acc).
Proof.
  induction fuel as [|f IH]; intros n acc Hacc; cbn [dec]; [assumption|].
  assert (Hd : Forall is_digit ((B "0" + n mod 10) :: acc)).
  { constructor; [|assumption]. unfold is_digit. rewrite B_0. pose proof (N.mod_upper_bound n 10). lia. }
  destruct (n / 10 =? 0); [assumption|]. now apply IH.
Qed.

Lemma dec_nonempty : forall fuel n acc, exists c r, dec (S fuel) n acc = c :: r.
Proof.
  induction fuel as [|f IH]; intros n acc.
  - cbn [dec]. destruct (n / 10 =? 0); eexists _, _; reflexivity.
  - change (dec (S (S f)) n acc) with
      (let acc' := (B "0" + n mod 10) :: acc in if n / 10 =? 0 then acc' else dec (S f) (n / 10) acc').
    cbv zeta. destruct (n / 10 =? 0); [eexists _, _; reflexivity|apply IH].
Qed.

Lemma digits_digit d r acc : is_digit d -> digits (d :: r) acc = digits r (acc * 10 + Z.of_N (d - 48))%Z.
Proof.
  intros Hd. cbn [digits]. unfold in_range. rewrite B_0, B_9. unfold is_digit in Hd.
  replace ((48 <=? d) && (d <=? 57)) with true by lia. reflexivity.
Qed.

(* the digits dec writes in front of acc read back as n *)
Lemma digits_dec : forall fuel n acc, n < 10 ^ N.of_nat fuel ->
  digits (dec fuel n acc) 0%Z = digits acc (Z.of_N n).
Proof.
  induction fuel as [|f IH]; intros n acc Hn.
  - cbn [dec]. change (10 ^ N.of_nat 0) with 1 in Hn. now replace n with 0 by lia.
  - cbn [dec].
    assert (Hd : is_digit (B "0" + n mod 10)).
    { unfold is_digit. rewrite B_0. pose proof (N.mod_upper_bound n 10). lia. }
    assert (Hv : B "0" + n mod 10 - 48 = n mod 10) by (rewrite B_0; lia).
    destruct (N.eqb_spec (n / 10) 0) as [E|E].
    + rewrite digits_digit by assumption. rewrite Hv. f_equal.
      pose proof (N.div_mod n 10). lia.
    + rewrite IH.
      * rewrite digits_digit by assumption. rewrite Hv. f_equal. pose proof (N.div_mod n 10). lia.
      * rewrite Nat2N.inj_succ, N.pow_succ_r' in Hn. apply N.div_lt_upper_bound; lia.
Qed.

Lemma pow10_25 : 2 ^ 63 < 10 ^ N.of_nat 25. Proof. reflexivity. Qed.

Theorem atoi_fmt_int z : (0 <= z < 2 ^ 63)%Z -> atoi (fmt_int z) = Some z.
Proof.
  intros Hz. unfold fmt_int. replace (z <? 0)%Z with false by lia.
  destruct (dec_nonempty 24 (Z.to_N z) []) as (c & r & E).
  pose proof (dec_digits 25 (Z.to_N z) [] (Forall_nil _)) as Hd. rewrite E in Hd.
  inversion Hd as [|? ? Hc _]; subst. unfold is_digit in Hc.
  assert (Hdig : digits (c :: r) 0%Z = Some z).
  { rewrite <- E. rewrite digits_dec.
    - cbn [digits]. f_equal. lia.
    - pose proof pow10_25. assert (Z.to_N z < 2 ^ 63) by lia. lia. }
  rewrite E. unfold atoi.
  replace (c =? B "+") with false by (change (B "+") with 43; lia).
  replace (c =? B "-") with false by (change (B "-") with 45; lia).
  rewrite Hdig. unfold in_int64. replace ((- 2 ^ 63 <=? z) && (z <? 2 ^ 63))%Z with true by lia. reflexivity.
Qed.

Lemma fmt_int_digits z : (0 <= z)%Z -> Forall is_digit (fmt_int z).
Proof. intros Hz. unfold fmt_int. replace (z <? 0)%Z with false by lia. apply dec_digits. constructor. Qed.

Lemma digits_no_sep sep s : ~ is_digit sep -> Forall is_digit s -> no_sep sep s.
Proof. intros Hs Hall Hin. rewrite Forall_forall in Hall. apply Hs. now apply Hall. Qed.

(* one decimal digit *)
Lemma fmt_int_small k : (0 <= k <= 9)%Z -> fmt_int k = [48 + Z.to_N k].
Proof.
  intros Hk. unfold fmt_int. replace (k <? 0)%Z with false by lia.
  change (dec 25 (Z.to_N k) []) with
    (let acc := [B "0" + Z.to_N k mod 10] in if Z.to_N k / 10 =? 0 then acc else dec 24 (Z.to_N k / 10) acc).
  cbv zeta. rewrite B_0.
  assert (Z.to_N k < 10) by lia.
  rewrite N.div_small, N.mod_small by assumption. reflexivity.
Qed.

(* ---- turn / move number ---- *)
Definition wrap64 (z : Z) : Z := ((z + 2 ^ 63) mod 2 ^ 64 - 2 ^ 63)%Z.

Lemma move_number_inverts mv : (0 <= mv < 2 ^ 63)%Z ->
  wrap64 (2 * ((Z.quot mv 2 + 1) - 1) + ((if Z.even mv then 1 else 2) - 1))%Z = mv.
Proof.
  intros H. unfold wrap64. rewrite Z.quot_div_nonneg by lia.
  pose proof (Z.div_mod mv 2 ltac:(lia)) as Hdm. pose proof (Zmod_even mv) as Hev.
  assert (E : (2 * (mv / 2 + 1 - 1) + ((if Z.even mv then 1 else 2) - 1) = mv)%Z).
  { destruct (Z.even mv); lia. }
  rewrite E. rewrite Z.mod_small by lia. lia.
Qed.

Lemma move_number_range mv : (0 <= mv < 2 ^ 63)%Z -> (0 <= Z.quot mv 2 + 1 < 2 ^ 63)%Z.
Proof.
  intros H. rewrite Z.quot_div_nonneg by lia.
  pose proof (Z.div_mod mv 2 ltac:(lia)). pose proof (Z.mod_pos_bound mv 2 ltac:(lia)). lia.
Qed.
