(* TeiClientFacts2.v: the client's go line and what the engine (Tei.parse_go) reads from it.
     ms_round d            the duration the engine holds for a client duration d: whole milliseconds, nothing below zero
     client_go_line        the engine's five durations are ms_round of the client's deadline / TimeControl values
     go_words_none         the client refuses ("Timeout too short") exactly when the deadline is less than 1 ms ahead or a clock value
                           is non-zero and below 1 ms *)
From Coq Require Import NArith ZArith List Bool Lia Ascii String ZifyN ZifyBool ZifyNat.
Require Import Board Move GameOver PtnMove Playtak Tps TeiBudget Tei TeiSpec TeiFacts TeiClient TeiClientFacts.
Require Import TpsFacts2.
Import ListNotations.
Local Open Scope Z_scope.

Definition int64 (d : Z) : Prop := - 2 ^ 63 <= d < 2 ^ 63.
Definition tc_int64 (t : tctl) : Prop := int64 (tc_white t) /\ int64 (tc_black t) /\ int64 (tc_winc t) /\ int64 (tc_binc t).
Definition ms_of (d : Z) : Z := Z.max 0 (Z.quot d 1000000).
Definition ms_round (d : Z) : Z := 1000000 * ms_of d.

Lemma ms_of_range d : int64 d -> 0 <= ms_of d < 2 ^ 63.
Proof.
  unfold int64, ms_of. intros H. destruct (Z_lt_le_dec d 0) as [Hn|Hp].
  - assert (Z.quot d 1000000 <= 0) by (apply Z.quot_le_upper_bound; lia). lia.
  - assert (0 <= Z.quot d 1000000) by (apply Z.quot_pos; lia).
    assert (Z.quot d 1000000 <= d) by (apply Z.quot_le_upper_bound; lia). lia.
Qed.

(* rounded down to whole milliseconds; everything below 1 ms, the negative values included, becomes 0 *)
Lemma ms_round_spec d : (d < 1000000 -> ms_round d = 0) /\ (0 <= d -> d - 1000000 < ms_round d <= d /\ ms_round d mod 1000000 = 0).
Proof.
  unfold ms_round, ms_of. split.
  - intros H. destruct (Z_lt_le_dec d 0) as [Hn|Hp].
    + assert (Z.quot d 1000000 <= 0) by (apply Z.quot_le_upper_bound; lia). lia.
    + rewrite Z.quot_small by lia. reflexivity.
  - intros H. rewrite Z.quot_div_nonneg by lia. pose proof (Z.div_mod d 1000000 ltac:(lia)).
    pose proof (Z.mod_pos_bound d 1000000 ltac:(lia)). assert (0 <= d / 1000000) by (apply Z.div_pos; lia).
    rewrite Z.max_r by lia. split; [lia|]. rewrite Z.mul_comm. apply Z.mod_mul. lia.
Qed.

Lemma format_time_eq d : format_time d = fmt_int (ms_of d).
Proof. unfold format_time, ms_of. cbv zeta. destruct (Z.ltb_spec (Z.quot d 1000000) 0); f_equal; lia. Qed.

Lemma format_time_word d : word (format_time d).
Proof. rewrite format_time_eq. apply fmt_int_word. unfold ms_of. lia. Qed.

(* ---- strconv.ParseUint reads back what FormatUint wrote ---- *)
Local Open Scope N_scope.
Lemma digits_only_digits : forall s acc, digits_only s acc = option_map Z.to_N (digits s (Z.of_N acc)).
Proof.
  induction s as [|d r IH]; intros acc; cbn [digits_only digits]; [cbn; now rewrite N2Z.id|].
  destruct (in_range (B "0") (B "9") d); [|reflexivity]. rewrite IH. do 2 f_equal. lia.
Qed.

Lemma digits_fmt_int z : (0 <= z < 2 ^ 63)%Z -> digits (fmt_int z) 0%Z = Some z.
Proof.
  intros Hz. unfold fmt_int. replace (z <? 0)%Z with false by lia. rewrite digits_dec.
  - cbn [digits]. f_equal. lia.
  - pose proof pow10_25. assert (Z.to_N z < 2 ^ 63) by lia. lia.
Qed.

Lemma parse_uint_fmt_int z : (0 <= z < 2 ^ 63)%Z -> parse_uint (fmt_int z) = Some (Z.to_N z).
Proof.
  intros Hz. unfold parse_uint. destruct (fmt_int_word z ltac:(lia)) as [Hne _].
  destruct (fmt_int z) as [|c r] eqn:E; [congruence|]. rewrite <- E.
  rewrite digits_only_digits. change (Z.of_N 0) with 0%Z. rewrite digits_fmt_int by assumption. cbn [option_map].
  replace (Z.to_N z <? 2 ^ 64) with true by lia. reflexivity.
Qed.

Lemma parse_uint_format_time d : int64 d -> parse_uint (format_time d) = Some (Z.to_N (ms_of d)).
Proof. intros H. rewrite format_time_eq. apply parse_uint_fmt_int. now apply ms_of_range. Qed.

(* ---- parse_go, one option at a time ---- *)
Local Open Scope Z_scope.
Lemma engine_duration d : int64 d -> TeiBudget.wrap64 (1000000 * TeiBudget.wrap64 (Z.of_N (Z.to_N (ms_of d)))) = ms_round d.
Proof.
  intros H. pose proof (ms_of_range d H) as R. rewrite Z2N.id by lia. unfold ms_round.
  assert (E : TeiBudget.wrap64 (ms_of d) = ms_of d) by (unfold TeiBudget.wrap64; rewrite Z.mod_small; lia). rewrite E.
  assert (1000000 * ms_of d <= Z.abs d).
  { unfold ms_of, int64 in *. destruct (Z_lt_le_dec d 0) as [Hn|Hp].
    - assert (Z.quot d 1000000 <= 0) by (apply Z.quot_le_upper_bound; lia). lia.
    - rewrite Z.quot_div_nonneg by lia. pose proof (Z.div_mod d 1000000 ltac:(lia)).
      pose proof (Z.mod_pos_bound d 1000000 ltac:(lia)). assert (0 <= d / 1000000) by (apply Z.div_pos; lia). lia. }
  unfold TeiBudget.wrap64. unfold int64 in H. rewrite Z.mod_small; lia.
Qed.

Definition set_movetime (a : targs) v := {| movetime := v; wtime := wtime a; btime := btime a; winc := winc a; binc := binc a |}.
Definition set_wtime (a : targs) v := {| movetime := movetime a; wtime := v; btime := btime a; winc := winc a; binc := binc a |}.
Definition set_btime (a : targs) v := {| movetime := movetime a; wtime := wtime a; btime := v; winc := winc a; binc := binc a |}.
Definition set_winc (a : targs) v := {| movetime := movetime a; wtime := wtime a; btime := btime a; winc := v; binc := binc a |}.
Definition set_binc (a : targs) v := {| movetime := movetime a; wtime := wtime a; btime := btime a; winc := winc a; binc := v |}.

Ltac one_pair H :=
  cbn [parse_go];
  repeat match goal with |- context [bytes_eqb ?a ?b] => let v := eval vm_compute in (bytes_eqb a b) in change (bytes_eqb a b) with v end;
  cbn [orb negb]; rewrite (parse_uint_format_time _ H); cbv zeta; rewrite (engine_duration _ H); reflexivity.

Lemma parse_go_movetime d r a : int64 d -> parse_go (s_movetime :: format_time d :: r) a = parse_go r (set_movetime a (ms_round d)).
Proof. intros H. one_pair H. Qed.
Lemma parse_go_wtime d r a : int64 d -> parse_go (s_wtime :: format_time d :: r) a = parse_go r (set_wtime a (ms_round d)).
Proof. intros H. one_pair H. Qed.
Lemma parse_go_btime d r a : int64 d -> parse_go (s_btime :: format_time d :: r) a = parse_go r (set_btime a (ms_round d)).
Proof. intros H. one_pair H. Qed.
Lemma parse_go_winc d r a : int64 d -> parse_go (s_winc :: format_time d :: r) a = parse_go r (set_winc a (ms_round d)).
Proof. intros H. one_pair H. Qed.
Lemma parse_go_binc d r a : int64 d -> parse_go (s_binc :: format_time d :: r) a = parse_go r (set_binc a (ms_round d)).
Proof. intros H. one_pair H. Qed.

(* ---- the words of the go line ---- *)
Definition kv (key : list N) (d : Z) : list (list N) := if d =? 0 then [] else [key; format_time d].
Definition sayable (d : Z) : Prop := d = 0 \/ 1000000 <= d.
Definition dl_words (dl : option Z) : list (list N) := match dl with Some d => [s_movetime; format_time d] | None => [] end.
Definition tc_kv (tc : option tctl) : list (list N) :=
  match tc with
  | Some t => kv s_wtime (tc_white t) ++ kv s_btime (tc_black t) ++ kv s_winc (tc_winc t) ++ kv s_binc (tc_binc t)
  | None => []
  end.

Lemma tc_words_step key d r acc :
  tc_words ((key, d) :: r) acc = if d =? 0 then tc_words r acc else if d <? 1000000 then None else tc_words r (acc ++ [key; format_time d]).
Proof. reflexivity. Qed.

Lemma go_words_unfold dl tc :
  go_words dl tc =
  match dl with
  | Some d => if d <? 1000000 then None else go_words_pinned dl tc
  | None => go_words_pinned dl tc
  end.
Proof. unfold go_words, go_words_pinned. destruct dl as [d|]; [destruct (d <? 1000000)|]; reflexivity. Qed.

Lemma go_words_pinned_some dl tc ws : go_words_pinned dl tc = Some ws ->
  ws = s_go :: dl_words dl ++ tc_kv tc /\
  (forall t, tc = Some t -> sayable (tc_white t) /\ sayable (tc_black t) /\ sayable (tc_winc t) /\ sayable (tc_binc t)).
Proof.
  unfold go_words_pinned. cbv zeta. intros H.
  assert (G : (match dl with Some d => [s_go] ++ [s_movetime; format_time d] | None => [s_go] end) = s_go :: dl_words dl)
    by (destruct dl; reflexivity).
  rewrite G in H. destruct tc as [t|].
  - rewrite !tc_words_step in H. cbn [tc_words] in H. unfold tc_kv, kv, sayable.
    destruct (Z.eqb_spec (tc_white t) 0) as [E1|E1]; [|destruct (Z.ltb_spec (tc_white t) 1000000) as [L1|L1]; [discriminate H|]];
    (destruct (Z.eqb_spec (tc_black t) 0) as [E2|E2]; [|destruct (Z.ltb_spec (tc_black t) 1000000) as [L2|L2]; [discriminate H|]]);
    (destruct (Z.eqb_spec (tc_winc t) 0) as [E3|E3]; [|destruct (Z.ltb_spec (tc_winc t) 1000000) as [L3|L3]; [discriminate H|]]);
    (destruct (Z.eqb_spec (tc_binc t) 0) as [E4|E4]; [|destruct (Z.ltb_spec (tc_binc t) 1000000) as [L4|L4]; [discriminate H|]]);
    injection H as <-; (split; [rewrite <- ?app_assoc; cbn [app]; rewrite ?app_nil_r; reflexivity|]);
    intros t' Ht; injection Ht as <-; repeat split; auto.
  - injection H as <-. split; [unfold tc_kv; now rewrite app_nil_r|]. discriminate.
Qed.

Lemma go_words_pinned_none dl tc : go_words_pinned dl tc = None ->
  exists t, tc = Some t /\ ~ (sayable (tc_white t) /\ sayable (tc_black t) /\ sayable (tc_winc t) /\ sayable (tc_binc t)).
Proof.
  unfold go_words_pinned. cbv zeta. destruct tc as [t|]; [|discriminate]. intros H. exists t. split; [reflexivity|].
  rewrite !tc_words_step in H. cbn [tc_words] in H. unfold sayable. intros (S1 & S2 & S3 & S4).
  destruct (Z.eqb_spec (tc_white t) 0); [|destruct (Z.ltb_spec (tc_white t) 1000000); [lia|]];
  (destruct (Z.eqb_spec (tc_black t) 0); [|destruct (Z.ltb_spec (tc_black t) 1000000); [lia|]]);
  (destruct (Z.eqb_spec (tc_winc t) 0); [|destruct (Z.ltb_spec (tc_winc t) 1000000); [lia|]]);
  (destruct (Z.eqb_spec (tc_binc t) 0); [|destruct (Z.ltb_spec (tc_binc t) 1000000); [lia|]]); discriminate H.
Qed.

(* what the repaired client writes when it does not refuse: the deadline is at least 1 ms ahead, every clock is 0 or at least 1 ms *)
Theorem go_words_some dl tc ws : go_words dl tc = Some ws ->
  ws = s_go :: dl_words dl ++ tc_kv tc /\
  (forall d, dl = Some d -> 1000000 <= d) /\
  (forall t, tc = Some t -> sayable (tc_white t) /\ sayable (tc_black t) /\ sayable (tc_winc t) /\ sayable (tc_binc t)).
Proof.
  rewrite go_words_unfold. intros H.
  assert (Hd : forall d, dl = Some d -> 1000000 <= d).
  { intros d ->. destruct (Z.ltb_spec d 1000000); [discriminate H|assumption]. }
  assert (Hp : go_words_pinned dl tc = Some ws).
  { destruct dl as [d|]; [|exact H]. destruct (d <? 1000000); [discriminate H|exact H]. }
  destruct (go_words_pinned_some _ _ _ Hp) as [E S]. auto.
Qed.

Theorem go_words_none dl tc : go_words dl tc = None <->
  (exists d, dl = Some d /\ d < 1000000) \/
  exists t, tc = Some t /\ ~ (sayable (tc_white t) /\ sayable (tc_black t) /\ sayable (tc_winc t) /\ sayable (tc_binc t)).
Proof.
  split.
  - rewrite go_words_unfold. intros H. destruct dl as [d|].
    + destruct (Z.ltb_spec d 1000000); [left; exists d; auto|right; now apply (go_words_pinned_none (Some d))].
    + right. now apply (go_words_pinned_none None).
  - intros H. destruct (go_words dl tc) as [ws|] eqn:E; [|reflexivity]. exfalso.
    destruct (go_words_some _ _ _ E) as (_ & Hd & Hs). destruct H as [(d & -> & Hlt)|(t & -> & Hn)].
    + specialize (Hd d eq_refl). lia.
    + apply Hn. exact (Hs t eq_refl).
Qed.

Lemma kv_words key d : word key -> Forall word (kv key d).
Proof. intros H. unfold kv. destruct (d =? 0); [constructor|]. constructor; [exact H|]. constructor; [apply format_time_word|constructor]. Qed.

Lemma go_words_word dl tc : Forall word (s_go :: dl_words dl ++ tc_kv tc).
Proof.
  constructor; [apply str_word_go|]. apply Forall_app. split.
  - destruct dl; [|constructor]. constructor; [apply str_word_movetime|]. constructor; [apply format_time_word|constructor].
  - destruct tc as [t|]; [|constructor]. unfold tc_kv. repeat (apply Forall_app; split);
      auto using kv_words, str_word_wtime, str_word_btime, str_word_winc, str_word_binc.
Qed.

Lemma ms_round_0 : ms_round 0 = 0. Proof. reflexivity. Qed.

(* client_go_line: the engine splits the client's go line into the client's words, and the five durations it parses from them are
   the client's values rounded as formatTime prints them - the time left until the deadline and the four TimeControl values, each
   rounded DOWN to whole milliseconds (a value the client left out because it is 0 is 0 for the engine as well; a deadline less
   than 1 ms ahead is refused since the repair, so a movetime on the wire is at least 1). *)
Theorem client_go_line dl tc ws :
  (forall d, dl = Some d -> int64 d) -> (forall t, tc = Some t -> tc_int64 t) -> go_words dl tc = Some ws ->
  exists args, ws = s_go :: args /\ fields (go_line ws) = ws /\
    parse_go args targs0 =
      Some {| movetime := match dl with Some d => ms_round d | None => 0 end;
              wtime := match tc with Some t => ms_round (tc_white t) | None => 0 end;
              btime := match tc with Some t => ms_round (tc_black t) | None => 0 end;
              winc := match tc with Some t => ms_round (tc_winc t) | None => 0 end;
              binc := match tc with Some t => ms_round (tc_binc t) | None => 0 end |}.
Proof.
  intros Hd Ht H. destruct (go_words_some _ _ _ H) as (-> & _ & _). eexists. split; [reflexivity|]. split.
  - unfold go_line. apply fields_join. apply go_words_word.
  - assert (M : forall r a, parse_go (dl_words dl ++ r) a = parse_go r (set_movetime a (match dl with Some d => ms_round d | None => movetime a end))).
    { intros r a. destruct dl as [d|]; [cbn [dl_words app]; now rewrite parse_go_movetime by (apply Hd; reflexivity)|].
      cbn [dl_words app]. destruct a; reflexivity. }
    rewrite M. destruct tc as [t|].
    + destruct (Ht t eq_refl) as (I1 & I2 & I3 & I4). unfold tc_kv, kv.
      destruct (Z.eqb_spec (tc_white t) 0) as [E1|E1]; destruct (Z.eqb_spec (tc_black t) 0) as [E2|E2];
      destruct (Z.eqb_spec (tc_winc t) 0) as [E3|E3]; destruct (Z.eqb_spec (tc_binc t) 0) as [E4|E4];
      cbn [app]; rewrite ?parse_go_wtime, ?parse_go_btime, ?parse_go_winc, ?parse_go_binc by assumption;
      rewrite ?E1, ?E2, ?E3, ?E4, ?ms_round_0; destruct dl; reflexivity.
    + cbn [tc_kv parse_go]. destruct dl; reflexivity.
Qed.
