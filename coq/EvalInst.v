(* Instantiation of the evaluator model with the constants regenerated from the implementation. *)
From Coq Require Import NArith ZArith List Bool.
Require Import Board Move GameOver Eval EvalSpec.
Require Import Generated.Consts.
Import ListNotations.

(* The thresholds transcribed in Eval.v are the implementation's. *)
Lemma eval_consts_current : gen_WinBase = WinBase /\ gen_ForcedWin = ForcedWin /\ gen_MaxFeature = MaxFeature /\
  gen_WinBase = ((gen_WinThreshold + gen_MaxEval) / 2)%Z.
Proof. repeat split; reflexivity. Qed.

(* ai.DefaultWeights[size] *)
Definition default_weights (sz : N) : weights := nth (N.to_nat sz) gen_DefaultWeights [].
(* ai.MakeEvaluator(size, nil) *)
Definition eval_default (p : position) : res Z := evaluate (default_weights (size p)) p.
Definition thresholds : list Z := [gen_WinThreshold; gen_MaxEval; gen_WinBase; gen_ForcedWin].
