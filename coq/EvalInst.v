(* Instantiation of the evaluator model with the constants regenerated from the implementation. *)
From Coq Require Import NArith ZArith List Bool.
Require Import Board Move GameOver Eval EvalSpec.
Require Import Generated.Consts.
Import ListNotations.

(* (the lemma that the thresholds transcribed in Eval.v are the regenerated ones is EvalFacts5.eval_consts_current: a proof
   obligation must not stop the model from being built and run) *)

(* ai.DefaultWeights[size] *)
Definition default_weights (sz : N) : weights := nth (N.to_nat sz) gen_DefaultWeights [].
(* ai.MakeEvaluator(size, nil) *)
Definition eval_default (p : position) : res Z := evaluate (default_weights (size p)) p.
Definition thresholds : list Z := [gen_WinThreshold; gen_MaxEval; gen_WinBase; gen_ForcedWin].
