(* per-size facts about the precomputed masks, by complete computation (6 sizes x 64 bits) *)
From Coq Require Import NArith List Bool Lia ZifyN ZifyBool ZifyNat.
Require Import Board.
Import ListNotations.
Open Scope N_scope.

Definition sizes : list N := [3; 4; 5; 6; 7; 8].
Definition idx64N : list N := map N.of_nat (seq 0 64).

Definition mask_row_ok (s i : N) : bool :=
  let c := precompute s in
  Bool.eqb (N.testbit (cR c) i) ((i <? s * s) && (i mod s =? 0)) &&
  Bool.eqb (N.testbit (cL c) i) ((i <? s * s) && (i mod s =? s - 1)) &&
  Bool.eqb (N.testbit (cB c) i) (i <? s) &&
  Bool.eqb (N.testbit (cT c) i) ((s * (s - 1) <=? i) && (i <? s * s)) &&
  Bool.eqb (N.testbit (cMask c) i) (i <? s * s).

Lemma masks_computed : forallb (fun s => forallb (mask_row_ok s) idx64N) sizes = true.
Proof. vm_compute. reflexivity. Qed.

Lemma masks_high s : In s sizes -> (cMask (precompute s) < 2 ^ 64) /\ Size (precompute s) = s.
Proof. intros H. repeat (destruct H as [<-|H]; [split; [vm_compute; reflexivity|reflexivity]|]). destruct H. Qed.

Lemma in_sizes s : 3 <= s <= 8 -> In s sizes.
Proof. intros H. unfold sizes. assert (s = 3 \/ s = 4 \/ s = 5 \/ s = 6 \/ s = 7 \/ s = 8) by lia. cbn. intuition. Qed.

Lemma in_idx64N i : i < 64 -> In i idx64N.
Proof. intros H. unfold idx64N. apply in_map_iff. exists (N.to_nat i). split; [lia|]. apply in_seq. lia. Qed.

Theorem precompute_masks s i : 3 <= s <= 8 -> i < 64 ->
  let c := precompute s in
  N.testbit (cR c) i = ((i <? s * s) && (i mod s =? 0)) /\
  N.testbit (cL c) i = ((i <? s * s) && (i mod s =? s - 1)) /\
  N.testbit (cB c) i = (i <? s) /\
  N.testbit (cT c) i = ((s * (s - 1) <=? i) && (i <? s * s)) /\
  N.testbit (cMask c) i = (i <? s * s).
Proof.
  intros Hs Hi. assert (H := masks_computed). rewrite forallb_forall in H.
  specialize (H s (in_sizes s Hs)). rewrite forallb_forall in H. specialize (H i (in_idx64N i Hi)).
  unfold mask_row_ok in H. repeat (apply andb_prop in H as [H ?]).
  repeat match goal with E : Bool.eqb _ _ = true |- _ => apply eqb_prop in E end.
  cbv zeta. auto.
Qed.
Print Assumptions precompute_masks.
