(* C04, Monte-Carlo player (coq/Mcts.v): every child in the search tree was produced by a successful MovePreallocated on its
   parent's position; one pass of the loop of GetMove keeps that, for ANY random stream, any scoring of the children (the
   float arithmetic of tree.ucb is a parameter), any configuration; the final choice returns the move of a child of the root;
   hence whatever GetMove returns after searching is accepted by MovePreallocated on the searched position.
   Proofs only; the model is Mcts.v. *)
From Coq Require Import NArith ZArith List Bool Lia.
Require Import Board Move GameOver Refine Eval EvalInst Mcts.
Import ListNotations.

(* ---------- the invariant ---------- *)
Definition child_ok (P : tree -> Prop) (p : position) (c : tree) : Prop := mv p (t_move c) = Ok (t_pos c) /\ P c.
Inductive tree_ok : tree -> Prop :=
| TOk p m s v pr chs : Forall (child_ok tree_ok p) chs -> tree_ok (T p m s v pr chs).

Lemma tree_ok_children t : tree_ok t -> Forall (child_ok tree_ok (t_pos t)) (t_children t).
Proof. intros H. inversion H; subst. exact H0. Qed.

Lemma tree_ok_intro t : Forall (child_ok tree_ok (t_pos t)) (t_children t) -> tree_ok t.
Proof. destruct t as [p m s v pr chs]. cbn [t_pos t_children]. apply TOk. Qed.

Lemma tree_ok_root p : tree_ok (root_of p).
Proof. apply TOk. constructor. Qed.

(* ---------- lists ---------- *)
Lemma Forall_set_nth {A} (P : A -> Prop) l k a : Forall P l -> P a -> Forall P (set_nth l k a).
Proof.
  intros H Ha. revert k. induction H as [|x l Hx Hl IH]; intros [|k]; cbn [set_nth]; constructor; auto.
Qed.

Lemma set_nth_nil {A} (l : list A) k a : set_nth l k a = [] -> l = [].
Proof. destruct l, k; cbn [set_nth]; congruence. Qed.

Lemma set_nth_length {A} (l : list A) k a : length (set_nth l k a) = length l.
Proof. revert k. induction l as [|h r IH]; intros [|k]; cbn [set_nth length]; auto. Qed.

(* ---------- populate ---------- *)
Lemma populate_moves_ok p ms chs : populate_moves p ms = Ok chs ->
  Forall (fun c => child_ok tree_ok p c /\ t_children c = [] /\ In (t_move c) ms) chs.
Proof.
  revert chs. induction ms as [|m ms IH]; intros chs H; cbn [populate_moves] in H.
  - injection H as <-. constructor.
  - destruct (mv p m) as [child| |] eqn:E; [|..].
    + destruct (proven_of child) as [pr| |]; cbn [bind] in H; try discriminate.
      destruct (populate_moves p ms) as [tl| |]; cbn [bind] in H; try discriminate.
      injection H as <-. constructor.
      * split; [split; [exact E|apply TOk; constructor]|]. split; [reflexivity|left; reflexivity].
      * eapply Forall_impl; [|apply IH; reflexivity]. intros c (A & B & C). split; [exact A|]. split; [exact B|right; exact C].
    + eapply Forall_impl; [|apply IH; exact H]. intros c (A & B & C). split; [exact A|]. split; [exact B|right; exact C].
    + discriminate.
Qed.

Lemma populate_ok p chs : populate p = Ok chs -> Forall (child_ok tree_ok p) chs.
Proof. intros H. eapply Forall_impl; [|apply (populate_moves_ok _ _ _ H)]. intros c [A _]. exact A. Qed.

(* every child populate creates carries a move of AllMoves *)
Lemma populate_moves_in p chs : populate p = Ok chs -> Forall (fun c => In (t_move c) (all_moves p)) chs.
Proof. intros H. eapply Forall_impl; [|apply (populate_moves_ok _ _ _ H)]. intros c (_ & _ & C). exact C. Qed.

(* ---------- rebuilding the tree along a path ---------- *)
Definition same_head (t t' : tree) : Prop := t_pos t' = t_pos t /\ t_move t' = t_move t.

Lemma child_ok_same_head (P : tree -> Prop) p c c' : mv p (t_move c) = Ok (t_pos c) -> same_head c c' -> P c' -> child_ok P p c'.
Proof. intros H [A B] Hc. split; [rewrite A, B; exact H|exact Hc]. Qed.

Lemma populate_at_ok : forall path t node chs t',
  tree_ok t -> node_at path t = Some node -> Forall (child_ok tree_ok (t_pos node)) chs ->
  populate_at path t chs = Ok t' -> tree_ok t' /\ same_head t t'.
Proof.
  induction path as [|k rest IH]; intros t node chs t' Ht Hn Hc H; cbn [populate_at node_at] in *.
  - injection Hn as <-. injection H as <-. split; [apply TOk; exact Hc|split; reflexivity].
  - destruct (nth_error (t_children t) k) as [c|] eqn:E; [|discriminate].
    destruct (populate_at rest c chs) as [c'| |] eqn:E'; cbn [bind] in H; try discriminate. injection H as <-.
    assert (Hall := tree_ok_children t Ht).
    assert (Hck : child_ok tree_ok (t_pos t) c) by (eapply Forall_forall; [exact Hall|eapply nth_error_In; exact E]).
    destruct (IH c node chs c' (proj2 Hck) Hn Hc E') as [Hc' Hh].
    split; [|split; reflexivity]. apply TOk. apply Forall_set_nth; [exact Hall|].
    eapply child_ok_same_head; [exact (proj1 Hck)|exact Hh|exact Hc'].
Qed.

Lemma update_step_ok t value : tree_ok t ->
  tree_ok (fst (fst (update_step t value))) /\ same_head t (fst (fst (update_step t value))) /\
  t_children (fst (fst (update_step t value))) = t_children t.
Proof.
  intros H. destruct t as [p m s v pr chs]. inversion H; subst. unfold update_step.
  destruct (negb (pr =? 0)%Z); [destruct (pr <? 0)%Z|]; cbn [fst];
    (split; [apply TOk; assumption|split; [split; reflexivity|reflexivity]]).
Qed.

Lemma update_path_ok : forall path t value t' vout act,
  tree_ok t -> update_path path t value = Ok (t', vout, act) ->
  tree_ok t' /\ same_head t t' /\ length (t_children t') = length (t_children t).
Proof.
  induction path as [|k rest IH]; intros t value t' vout act Ht H; cbn [update_path] in H.
  - injection H as H. destruct (update_step_ok t value Ht) as (A & B & C). rewrite H in *. cbn [fst] in *.
    split; [exact A|]. split; [exact B|]. now rewrite C.
  - destruct t as [p m s v pr chs].
    destruct (nth_error chs k) as [c|] eqn:E; [|discriminate].
    destruct (update_path rest c value) as [[[c' vo] ac]| |] eqn:E'; cbn [bind] in H; try discriminate.
    assert (Hall : Forall (child_ok tree_ok p) chs) by (inversion Ht; assumption).
    assert (Hck : child_ok tree_ok p c) by (eapply Forall_forall; [exact Hall|eapply nth_error_In; exact E]).
    destruct (IH c value c' vo ac (proj2 Hck) E') as (Hc' & Hh & _).
    match type of H with Ok (update_step ?T0 _) = _ => set (t0 := T0) in * end.
    assert (Ht0 : tree_ok t0).
    { apply TOk. apply Forall_set_nth; [exact Hall|]. eapply child_ok_same_head; [exact (proj1 Hck)|exact Hh|exact Hc']. }
    assert (Hs := update_step_ok t0 vo Ht0).
    assert (H' : update_step t0 vo = (t', vout, act)) by congruence. rewrite H' in Hs. cbn [fst] in Hs.
    destruct Hs as (A & B & C).
    split; [exact A|]. split; [exact B|]. rewrite C. unfold t0. cbn [t_children]. apply set_nth_length.
Qed.

Lemma populate_at_length : forall path t chs t', path <> [] -> populate_at path t chs = Ok t' ->
  length (t_children t') = length (t_children t).
Proof.
  intros [|k rest] t chs t' Hp H; [contradiction|]. cbn [populate_at] in H.
  destruct (nth_error (t_children t) k); [|discriminate].
  destruct (populate_at rest t0 chs); cbn [bind] in H; try discriminate. injection H as <-. cbn [t_children]. apply set_nth_length.
Qed.

(* ---------- the final choice returns a child of the root ---------- *)
Lemma best_loop_in : forall l best i rs b rs', best_loop l best i rs = Ok (b, rs') -> b = best \/ In b l.
Proof.
  induction l as [|c rest IH]; intros best i rs b rs' H; cbn [best_loop] in H.
  - injection H as <- _. left; reflexivity.
  - destruct (t_sims best <? t_sims c)%Z.
    + destruct (IH _ _ _ _ _ H) as [->|I]; [right; left; reflexivity|right; right; exact I].
    + destruct (t_sims c =? t_sims best)%Z.
      * destruct (intn (i + 1) rs) as [[r rs1]| |]; cbn [bind] in H; try discriminate.
        destruct (r =? 0)%N.
        -- destruct (IH _ _ _ _ _ H) as [->|I]; [right; left; reflexivity|right; right; exact I].
        -- destruct (IH _ _ _ _ _ H) as [->|I]; [left; reflexivity|right; right; exact I].
      * destruct (IH _ _ _ _ _ H) as [->|I]; [left; reflexivity|right; right; exact I].
Qed.

Lemma apply_sort_incl chs perm sorted : apply_sort chs perm = Ok sorted -> incl sorted chs.
Proof.
  unfold apply_sort. destruct (_ && _); [|discriminate]. intros H. injection H as <-.
  intros c Hc. apply in_flat_map in Hc as (k & _ & Hk).
  destruct (nth_error chs k) eqn:E; [|contradiction]. destruct Hk as [<-|[]]. eapply nth_error_In; exact E.
Qed.

Lemma fold_choice_in (f : tree -> tree -> bool) : forall l s0, fold_left (fun b c => if f b c then c else b) l s0 = s0 \/
  In (fold_left (fun b c => if f b c then c else b) l s0) l.
Proof.
  induction l as [|c rest IH]; intros s0; cbn [fold_left]; [left; reflexivity|].
  destruct (IH (if f s0 c then c else s0)) as [E|I].
  - rewrite E. destruct (f s0 c); [right; left; reflexivity|left; reflexivity].
  - right; right; exact I.
Qed.

Theorem final_choice_child t perm rs m rs' : final_choice t perm rs = Ok (m, rs') ->
  exists c, In c (t_children t) /\ m = t_move c.
Proof.
  unfold final_choice. destruct (t_children t) as [|c0 chs] eqn:Ech; [discriminate|].
  destruct (apply_sort (c0 :: chs) perm) as [sorted| |] eqn:Es; cbn [bind]; try discriminate.
  assert (Hincl := apply_sort_incl _ _ _ Es).
  destruct (best_loop sorted c0 0 rs) as [[best rs1]| |] eqn:Eb; cbn [bind]; try discriminate.
  destruct (negb (t_proven t =? 0)%Z).
  - destruct sorted as [|s0 srest]; [discriminate|]. intros H. injection H as <- _.
    exists (fold_left (fun b c => if (t_proven c <? t_proven b)%Z then c else b) (s0 :: srest) s0). split; [|reflexivity].
    destruct (fold_choice_in (fun b c => (t_proven c <? t_proven b)%Z) (s0 :: srest) s0) as [E|I].
    + rewrite E. apply Hincl. left; reflexivity.
    + apply Hincl. exact I.
  - intros H. injection H as <- _. exists best. split; [|reflexivity].
    destruct (best_loop_in _ _ _ _ _ _ Eb) as [->|I]; [left; reflexivity|apply Hincl; exact I].
Qed.

(* ---------- one pass, any number of passes, GetMove ---------- *)
Section Scores.
Variable F : Type.
Variables (f_neg_inf f_m100 f_p100 f_p10 : F).
Variable f_score : Z -> Z -> Z -> F.
Variables (f_gt f_eq : F -> F -> bool).
Let iter_step := iter_step F f_neg_inf f_m100 f_p100 f_p10 f_score f_gt f_eq.
Let iterate := iterate F f_neg_inf f_m100 f_p100 f_p10 f_score f_gt f_eq.
Let get_move := get_move F f_neg_inf f_m100 f_p100 f_p10 f_score f_gt f_eq.

Theorem iter_step_preserves cfg t rs t' brk rs' :
  tree_ok t -> iter_step cfg t rs = Ok (t', brk, rs') -> tree_ok t' /\ same_head t t'.
Proof.
  intros Ht H. unfold iter_step, Mcts.iter_step in H.
  destruct (descend _ _ _ _ _ _ _ _ t rs) as [[path rs1]| |]; cbn [bind] in H; try discriminate.
  destruct (node_at path t) as [node|] eqn:En; [|discriminate].
  destruct (populate (t_pos node)) as [chs| |] eqn:Ep; cbn [bind] in H; try discriminate.
  destruct (populate_at path t chs) as [t1| |] eqn:E1; cbn [bind] in H; try discriminate.
  destruct (populate_at_ok path t node chs t1 Ht En (populate_ok _ _ Ep) E1) as [Ht1 Hh1].
  destruct (negb (t_proven t1 =? 0)%Z).
  - injection H as <- _ _. split; assumption.
  - destruct (if (t_proven node =? 0)%Z then rollout cfg (t_pos node) rs1 else Ok (0%Z, rs1)) as [[val rs2]| |];
      cbn [bind] in H; try discriminate.
    destruct (update_path path t1 val) as [[[t2 vo] ac]| |] eqn:E2; cbn [bind] in H; try discriminate.
    injection H as <- _ _. destruct (update_path_ok _ _ _ _ _ _ Ht1 E2) as (A & [B1 B2] & _).
    split; [exact A|]. destruct Hh1 as [C1 C2]. split; congruence.
Qed.

Theorem iterate_preserves cfg : forall fuel t rs t' rs',
  tree_ok t -> iterate cfg fuel t rs = Ok (t', rs') -> tree_ok t' /\ same_head t t'.
Proof.
  induction fuel as [|f IH]; intros t rs t' rs' Ht H; cbn [iterate Mcts.iterate] in H.
  - injection H as <- _. split; [exact Ht|split; reflexivity].
  - fold (iter_step cfg t rs) in H.
    destruct (iter_step cfg t rs) as [[[t1 brk] rs1]| |] eqn:E; cbn [bind] in H; try discriminate.
    destruct (iter_step_preserves _ _ _ _ _ _ Ht E) as [Ht1 [A1 A2]].
    destruct brk.
    + injection H as <- _. split; [exact Ht1|split; assumption].
    + destruct (IH _ _ _ _ Ht1 H) as [Ht' [B1 B2]]. split; [exact Ht'|split; congruence].
Qed.

(* Whatever GetMove returns after searching (i.e. outside the corner-forcing shortcut) is accepted by MovePreallocated on
   the searched position: no hypothesis on the position, the random stream, the scores, the clock or the sort. *)
Theorem getmove_searched_move_legal cfg fuel perm p rs m rs' :
  force_corners cfg && (move p <? 2)%Z = false ->
  get_move cfg fuel perm p rs = Ok (m, rs') -> exists q, mv p m = Ok q.
Proof.
  intros Hc H. unfold get_move, Mcts.get_move in H. rewrite Hc in H.
  fold (iterate cfg fuel (root_of p) rs) in H.
  destruct (iterate cfg fuel (root_of p) rs) as [[t rs1]| |] eqn:E; cbn [bind] in H; try discriminate.
  destruct (iterate_preserves _ _ _ _ _ _ (tree_ok_root p) E) as [Ht [Hp _]]. cbn [root_of t_pos] in Hp.
  destruct (final_choice_child _ _ _ _ _ H) as (c & Hin & ->).
  assert (Hck : child_ok tree_ok (t_pos t) c) by (eapply Forall_forall; [apply tree_ok_children; exact Ht|exact Hin]).
  exists (t_pos c). rewrite <- Hp. exact (proj1 Hck).
Qed.
End Scores.
Print Assumptions getmove_searched_move_legal.
Print Assumptions iter_step_preserves.
