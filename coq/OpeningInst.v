(* OpeningInst.v: the opening-book model with the constants regenerated from /repo, and the two oracles the
   correspondence driver (ocaml/drv_c04.ml, CASE BOOK) plugs in. *)
From Coq Require Import NArith ZArith List Bool.
Require Import Board Move GameOver Opening.
Require Import Generated.Consts.
Import ListNotations.

Definition build (sz : Z) (lines : list (list N)) : bres := build_book gen_basis sz lines.

(* The scripted random source of the harness: the i-th call of Int63 returns v_i * 2^32 with 0 <= v_i < 2^31 - 2^21, so
   Int31() = v_i and, for every bound 0 < n <= 2^21, math/rand's Int31n(n) = v_i mod n without a second draw (power of two:
   v & (n-1); otherwise v <= max = 2^31 - 1 - 2^31 mod n, no rejection, v mod n).  The harness checks that exactly one
   value was consumed per child. *)
Definition script_rnd (vs : list Z) (i : nat) (n : Z) : Z := (nth i vs 0 mod n)%Z.

(* the stub inner player of the harness: a placement that depends on the position it is given *)
Definition stub_inner (p : position) : Move.res rmove :=
  Move.Ok {| mX := (Z.of_N (size p) - 1)%Z; mY := (Move.move p mod 8)%Z; mT := 3%N; mS := 0%N |}.
