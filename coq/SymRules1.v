(* C14, layer 1: the image of an abstract board under one of the eight symmetries, as a permutation of the
   square list (index x + y*n), and the facts about it that the equivariance proofs need:
   reading (nth_permL), writing (permL_upd), being a permutation (permL_perm). *)
From Coq Require Import NArith ZArith Arith List Bool Lia ZifyN ZifyBool ZifyNat Permutation.
Require Import Rules Sym.
Import ListNotations.
Close Scope Z_scope.
Local Ltac Zify.zify_post_hook ::= Z.div_mod_to_equations.

(* ---------- generic list facts ---------- *)
Lemma upd_length {A} (l : list A) i v : length (upd l i v) = length l.
Proof. revert i; induction l as [|h t IH]; intros [|i]; cbn; auto. Qed.

Lemma nth_upd {A} (l : list A) i j v d : j < length l -> nth i (upd l j v) d = if Nat.eqb i j then v else nth i l d.
Proof.
  revert i j; induction l as [|h t IH]; intros i j H; cbn in H; [lia|].
  destruct j as [|j]; destruct i as [|i]; cbn [upd nth Nat.eqb]; try reflexivity. apply IH. lia.
Qed.

Lemma nth_map_seq {A} (g : nat -> A) m i d : i < m -> nth i (map g (seq 0 m)) d = g i.
Proof.
  intros H. rewrite (nth_indep _ d (g 0)) by (rewrite map_length, seq_length; exact H).
  change (g 0) with ((fun j => g j) 0). rewrite map_nth. rewrite seq_nth by exact H. reflexivity.
Qed.

Lemma list_as_map {A} (l : list A) d : l = map (fun j => nth j l d) (seq 0 (length l)).
Proof.
  apply (nth_ext _ _ d d); [now rewrite map_length, seq_length|].
  intros i Hi. now rewrite nth_map_seq.
Qed.

Lemma NoDup_map_inj {A B} (g : A -> B) l :
  (forall x y, In x l -> In y l -> g x = g y -> x = y) -> NoDup l -> NoDup (map g l).
Proof.
  induction l as [|a t IH]; intros Hinj Hnd; cbn; [constructor|].
  inversion Hnd as [|? ? Hn Ht]; subst. constructor.
  - intros Hin. apply in_map_iff in Hin. destruct Hin as (x & E & Hx).
    assert (x = a) by (apply Hinj; cbn; auto). subst. contradiction.
  - apply IH; [|assumption]. intros x y Hx Hy. apply Hinj; cbn; auto.
Qed.

Lemma perm_filter_length {A} (P : A -> bool) l l' : Permutation l l' -> length (filter P l) = length (filter P l').
Proof.
  induction 1; cbn; auto.
  - destruct (P x); cbn; auto.
  - destruct (P x), (P y); cbn; auto.
  - congruence.
Qed.

Lemma perm_forallb {A} (P : A -> bool) l l' : Permutation l l' -> forallb P l = forallb P l'.
Proof.
  induction 1; cbn; auto.
  - now rewrite IHPermutation.
  - destruct (P x), (P y); reflexivity.
  - congruence.
Qed.

(* ---------- coordinates and indices ---------- *)
Definition cell (s i : nat) : Z * Z := (Z.of_nat (i mod s), Z.of_nat (i / s)).
Definition zidx (s : nat) (xy : Z * Z) : nat := Z.to_nat (fst xy) + Z.to_nat (snd xy) * s.
Definition onb (s : nat) (xy : Z * Z) : Prop :=
  (0 <= fst xy < Z.of_nat s /\ 0 <= snd xy < Z.of_nat s)%Z.
Definition size_ok (s : nat) : Prop := 3 <= s <= 8.

Ltac sizes s := let H := fresh in
  assert (s = 3 \/ s = 4 \/ s = 5 \/ s = 6 \/ s = 7 \/ s = 8) as H by (unfold size_ok in *; lia);
  destruct H as [->|[->|[->|[->|[->| ->]]]]].

Lemma cell_zidx s xy : size_ok s -> onb s xy -> cell s (zidx s xy) = xy.
Proof.
  intros Hs [Hx Hy]. destruct xy as [x y]. unfold cell, zidx. cbn [fst snd] in *.
  f_equal; sizes s; lia.
Qed.

Lemma zidx_cell s i : size_ok s -> i < s * s -> zidx s (cell s i) = i.
Proof. intros Hs Hi. unfold cell, zidx. cbn [fst snd]. sizes s; lia. Qed.

Lemma cell_onb s i : size_ok s -> i < s * s -> onb s (cell s i).
Proof. intros Hs Hi. unfold cell, onb. cbn [fst snd]. sizes s; lia. Qed.

Lemma zidx_lt s xy : size_ok s -> onb s xy -> zidx s xy < s * s.
Proof. intros Hs [Hx Hy]. destruct xy as [x y]. unfold zidx. cbn [fst snd] in *. sizes s; lia. Qed.

(* ---------- the symmetries ---------- *)
Definition symb (s k : nat) (xy : Z * Z) : Z * Z := sym (Z.of_nat s) k xy.

Lemma symb_inv_l s k xy : k < 8 -> symb s (inv k) (symb s k xy) = xy.
Proof. intros. now apply inv_ok. Qed.

Lemma symb_inv_r s k xy : k < 8 -> symb s k (symb s (inv k) xy) = xy.
Proof.
  intros Hk. destruct xy as [x y]. unfold symb.
  do 8 (destruct k as [|k]; [cbn; unfold f; f_equal; lia|]); lia.
Qed.

Lemma inv_lt k : k < 8 -> inv k < 8.
Proof. intros Hk. do 8 (destruct k as [|k]; [cbn; lia|]); lia. Qed.

Lemma symb_onb s k xy : k < 8 -> onb s xy -> onb s (symb s k xy).
Proof. intros Hk [Hx Hy]. destruct xy as [x y]. apply sym_on_board; assumption. Qed.

Lemma symb_onb_iff s k xy : k < 8 -> onb s (symb s k xy) <-> onb s xy.
Proof.
  intros Hk. split; [|now apply symb_onb].
  intros H. rewrite <- (symb_inv_l s k xy Hk). apply symb_onb; [now apply inv_lt|assumption].
Qed.

(* ---------- the image of a square list ---------- *)
(* src k s i: the index of the square whose image under symmetry k is square i *)
Definition src (k s i : nat) : nat := zidx s (symb s (inv k) (cell s i)).
Definition permL {A} (k s : nat) (d : A) (l : list A) : list A := map (fun i => nth (src k s i) l d) (seq 0 (s * s)).

Lemma permL_length {A} k s (d : A) l : length (permL k s d l) = s * s.
Proof. unfold permL. now rewrite map_length, seq_length. Qed.

Lemma src_lt k s i : k < 8 -> size_ok s -> i < s * s -> src k s i < s * s.
Proof.
  intros Hk Hs Hi. unfold src. apply zidx_lt; [assumption|].
  apply symb_onb; [now apply inv_lt|now apply cell_onb].
Qed.

Lemma src_dst k s xy : k < 8 -> size_ok s -> onb s xy -> src k s (zidx s (symb s k xy)) = zidx s xy.
Proof.
  intros Hk Hs Hxy. unfold src. rewrite cell_zidx by (try apply symb_onb; assumption).
  now rewrite symb_inv_l.
Qed.

Lemma src_eq_iff k s i xy : k < 8 -> size_ok s -> i < s * s -> onb s xy ->
  src k s i = zidx s xy <-> i = zidx s (symb s k xy).
Proof.
  intros Hk Hs Hi Hxy. split.
  - intros E. unfold src in E.
    assert (Hc : onb s (symb s (inv k) (cell s i))) by (apply symb_onb; [now apply inv_lt|now apply cell_onb]).
    assert (E2 : symb s (inv k) (cell s i) = xy).
    { rewrite <- (cell_zidx s _ Hs Hc), <- (cell_zidx s xy Hs Hxy). now rewrite E. }
    rewrite <- E2, symb_inv_r by assumption. symmetry. now apply zidx_cell.
  - intros ->. now apply src_dst.
Qed.

(* reading the image at the image of a square = reading the original at the square *)
Lemma nth_permL {A} k s (d : A) l xy : k < 8 -> size_ok s -> onb s xy ->
  nth (zidx s (symb s k xy)) (permL k s d l) d = nth (zidx s xy) l d.
Proof.
  intros Hk Hs Hxy. unfold permL.
  rewrite nth_map_seq by (apply zidx_lt; [assumption|now apply symb_onb]).
  now rewrite src_dst.
Qed.

Lemma nth_permL_src {A} k s (d : A) l i : i < s * s -> nth i (permL k s d l) d = nth (src k s i) l d.
Proof. intros Hi. unfold permL. now rewrite nth_map_seq. Qed.

(* writing commutes *)
Lemma permL_upd {A} k s (d : A) l xy v : k < 8 -> size_ok s -> length l = s * s -> onb s xy ->
  permL k s d (upd l (zidx s xy) v) = upd (permL k s d l) (zidx s (symb s k xy)) v.
Proof.
  intros Hk Hs Hl Hxy. apply (nth_ext _ _ d d); [now rewrite upd_length, !permL_length|].
  intros i Hi. rewrite permL_length in Hi.
  rewrite nth_permL_src by assumption.
  rewrite !nth_upd; [|rewrite permL_length; apply zidx_lt; [assumption|now apply symb_onb] | rewrite Hl; now apply zidx_lt].
  rewrite nth_permL_src by assumption.
  destruct (Nat.eqb_spec (src k s i) (zidx s xy)) as [E|E]; destruct (Nat.eqb_spec i (zidx s (symb s k xy))) as [E'|E']; try reflexivity;
    apply src_eq_iff in E || apply src_eq_iff in E'; try assumption; contradiction.
Qed.

(* the image is a permutation of the list *)
Lemma permL_perm {A} k s (d : A) l : k < 8 -> size_ok s -> length l = s * s -> Permutation (permL k s d l) l.
Proof.
  intros Hk Hs Hl. unfold permL.
  assert (El : l = map (fun j => nth j l d) (seq 0 (s * s))) by (rewrite <- Hl; apply list_as_map).
  apply Permutation_trans with (map (fun j => nth j l d) (seq 0 (s * s))); [|rewrite <- El; reflexivity].
  rewrite <- (map_map (src k s) (fun j => nth j l d)). apply Permutation_map.
  apply NoDup_Permutation.
  - apply NoDup_map_inj; [|apply seq_NoDup].
    intros x y Hx Hy E. apply in_seq in Hx, Hy.
    assert (Hcy : onb s (symb s (inv k) (cell s y))) by (apply symb_onb; [now apply inv_lt|apply cell_onb; [assumption|lia]]).
    unfold src in E at 2. apply (proj1 (src_eq_iff k s x _ Hk Hs ltac:(lia) Hcy)) in E.
    rewrite symb_inv_r, zidx_cell in E by (assumption || lia). exact E.
  - apply seq_NoDup.
  - intros j. rewrite in_map_iff, in_seq. split.
    + intros (i & <- & Hi). apply in_seq in Hi. split; [lia|]. change (0 + s * s) with (s * s). apply src_lt; try assumption; lia.
    + intros [_ Hj]. change (0 + s * s) with (s * s) in Hj. exists (zidx s (symb s k (cell s j))). split.
      * rewrite src_dst by (try apply cell_onb; assumption). now apply zidx_cell.
      * apply in_seq. split; [lia|]. change (0 + s * s) with (s * s). apply zidx_lt; [assumption|]. apply symb_onb; [assumption|now apply cell_onb].
Qed.

(* the image of the image under the inverse is the list itself *)
Lemma permL_inv {A} k s (d : A) l : k < 8 -> size_ok s -> length l = s * s -> permL (inv k) s d (permL k s d l) = l.
Proof.
  intros Hk Hs Hl. apply (nth_ext _ _ d d); [now rewrite permL_length|].
  intros i Hi. rewrite permL_length in Hi.
  rewrite nth_permL_src by assumption.
  assert (Hc : onb s (cell s i)) by now apply cell_onb.
  assert (Hik : inv k < 8) by now apply inv_lt.
  unfold src at 1.
  (* src (inv k) i = zidx (symb (inv (inv k)) (cell i)) =: zidx q with symb (inv k) q = cell i; so q = symb k (cell i) *)
  assert (Eq : symb s (inv (inv k)) (cell s i) = symb s k (cell s i)).
  { f_equal. do 8 (destruct k as [|k]; [reflexivity|]); lia. }
  rewrite Eq. rewrite nth_permL by assumption. now rewrite zidx_cell.
Qed.
