#!/bin/bash
# Regenerates coq/_CoqProject (every .v file except Extract.v) and coq/Extract.v (from extract.d/*.txt).
cd "$(dirname "$0")"
(echo '-R . TV'; ls *.v Generated/*.v Properties/*.v 2>/dev/null | grep -v '^Extract.v$' | sort) > _CoqProject.new
cmp -s _CoqProject.new _CoqProject || { mv _CoqProject.new _CoqProject; coq_makefile -f _CoqProject -o Makefile >/dev/null; }
rm -f _CoqProject.new
[ -f Makefile ] || coq_makefile -f _CoqProject -o Makefile >/dev/null
