(* DfpnRep1's theorem for the model of a REUSED solver (Dfpn.prove_on: table and killers persist between calls): a call that
   took nothing from the table reports `disproven` only where the attacker has no forced win, whatever the earlier calls left
   in the table.  (A call that does take bounds from the table of a reused solver can be wrong: notes/prove3_cong_report.txt.) *)
From Coq Require Import NArith ZArith List Bool Lia.
Require Import Board Move GameOver Eval Search AndOr Pn PnFacts Dfpn DfpnFacts DfpnRep1.
Import ListNotations.
Open Scope N_scope.

Theorem dfpn_disproven_sound_nohit_on :
  forall (basis : list N) (Sp : position -> Prop) (cfg_attacker : N) (sv sv' : dsolver) (g : position) lfuel dfuel s e w r,
    let aw := match cfg_attacker with 1 => true | 2 => false | _ => to_move_white g end in
    (forall p m q, Sp p -> terminal aw p = None -> In m (all_moves p) -> dmv basis p m = Ok q -> Sp q) ->
    (forall p, Sp p -> size p <= 8) ->
    (forall p q, Sp p -> Sp q -> hash_of p = hash_of q ->
       forall n, wn position (succs basis) (terminal aw) (attp aw) n p = wn position (succs basis) (terminal aw) (attp aw) n q) ->
    (forall p, Sp p -> terminal aw p = None -> all_moves p <> []) ->
    (forall p, Sp p -> terminal aw p = None -> solve p <> None -> attp aw p = false ->
       exists q, In q (succs basis p) /\ terminal aw q = Some false) ->
    Sp g -> prove_on basis lfuel dfuel cfg_attacker sv g = (sv', (s, e, w, r)) -> ds_hits (dst s) = 0 -> r = 2 ->
    forall n, wn position (succs basis) (terminal aw) (attp aw) n g = false.
Proof.
  intros basis Sp cfg_attacker sv sv' g lfuel dfuel s e w r aw H1 H2 H3 H4 H5 Hg E Hh Hr.
  unfold prove_on in E. fold aw in E.
  match type of E with context[prove_from basis aw lfuel dfuel ?x g] => set (s0 := x) in *; destruct (prove_from basis aw lfuel dfuel s0 g) as [[s1 e1] w1] eqn:Ep end.
  injection E as _ <- <- _ Er.
  apply (dfpn_disproven_sound_nohit_from basis aw Sp H1 H2 H3 H4 H5 lfuel dfuel s0 g s1 e1 w1 Hg eq_refl Ep); [rewrite Hh; reflexivity|congruence].
Qed.
Print Assumptions dfpn_disproven_sound_nohit_on.
