(* C03, part 6: the exact content of all_moves - a move is generated iff it is a placement on an empty
   square allowed by the opening rule and capstone availability, or a slide of a mover-owned stack whose
   drop list is a composition within min(height, size) and within the distance to the edge. *)
From Coq Require Import NArith ZArith Arith List Bool Lia ZifyN ZifyBool ZifyNat.
Require Import Board Move GameOver AllMovesFacts AllMovesFacts2 AllMovesFacts3.
Import ListNotations.
Open Scope N_scope.

Local Opaque slides_table.

Definition has_cap (p : position) : bool := if to_move_white p then 0 <? whiteCaps p else 0 <? blackCaps p.
Definition owns (p : position) (i : N) : bool := if to_move_white p then has (White p) i else has (Black p) i.

Lemma in_cell_inv p x y g : In g (cell p x y) ->
  let i := N.of_nat (y * N.to_nat (size p) + x) in
  (nthN (Height p) i = 0 /\ mS g = 0 /\
   (mT g = 2 \/ (2 <= move p)%Z /\ (mT g = 3 \/ mT g = 4 /\ has_cap p = true))) \/
  (nthN (Height p) i <> 0 /\ (2 <= move p)%Z /\ owns p i = true /\
   exists dc, dist p x y (mT g) = Some dc /\
              In (mS g) (nth (N.to_nat (N.min (nthN (Height p) i) (size p))) slides_table []) /\
              N.land (mS g) (mask_of dc) = 0).
Proof.
  intros H. cbv zeta. unfold cell in H. cbv zeta in H. unfold has_cap, owns.
  set (i := N.of_nat (y * N.to_nat (size p) + x)) in *.
  destruct (N.eqb_spec (nthN (Height p) i) 0) as [Eh|Eh].
  { left. split; [exact Eh|].
    destruct H as [<-|H]; [cbn [mT mS]; auto|]. destruct (Z.leb_spec 2 (move p)); [|destruct H].
    destruct H as [<-|H]; [cbn [mT mS]; auto|]. destruct (if to_move_white p then _ else _); [|destruct H].
    destruct H as [<-|[]]. cbn [mT mS]. auto 7. }
  right. split; [exact Eh|].
  destruct (Z.ltb_spec (move p) 2); [destruct H|]. split; [lia|].
  destruct (to_move_white p).
  - destruct (has (White p) i); cbn [negb andb] in H; [|destruct H]. split; [reflexivity|].
    apply in_flat_map in H as (dc & Hdc & H). apply in_flat_map in H as (s & Hs & H).
    destruct (N.eqb_spec (N.land s (mask_of (snd dc))) 0) as [E|E]; [|destruct H].
    destruct H as [<-|[]]. cbn [mT mS]. exists (snd dc). split; [|split; assumption].
    cbn [In] in Hdc. destruct Hdc as [<-|[<-|[<-|[<-|[]]]]]; reflexivity.
  - destruct (has (Black p) i); cbn [negb andb] in H; [|destruct H]. split; [reflexivity|].
    apply in_flat_map in H as (dc & Hdc & H). apply in_flat_map in H as (s & Hs & H).
    destruct (N.eqb_spec (N.land s (mask_of (snd dc))) 0) as [E|E]; [|destruct H].
    destruct H as [<-|[]]. cbn [mT mS]. exists (snd dc). split; [|split; assumption].
    cbn [In] in Hdc. destruct Hdc as [<-|[<-|[<-|[<-|[]]]]]; reflexivity.
Qed.

(* the specification of AllMoves *)
Definition generated (p : position) (g : rmove) : Prop :=
  exists x y, (x < N.to_nat (size p))%nat /\ (y < N.to_nat (size p))%nat /\
    mX g = Z.of_nat x /\ mY g = Z.of_nat y /\
    let i := N.of_nat (y * N.to_nat (size p) + x) in
    ((* a placement on an empty square; walls and capstones only after the opening, a capstone only if the mover has one *)
     (nthN (Height p) i = 0 /\ mS g = 0 /\
      (mT g = 2 \/ (2 <= move p)%Z /\ (mT g = 3 \/ mT g = 4 /\ has_cap p = true))) \/
     (* a slide of a stack owned by the mover, after the opening: direction t, drop list ds *)
     (nthN (Height p) i <> 0 /\ (2 <= move p)%Z /\ owns p i = true /\
      exists dc ds, dist p x y (mT g) = Some dc /\
                    good (N.to_nat (N.min (nthN (Height p) i) (size p))) ds /\ (length ds <= dc)%nat /\
                    mS g = pack ds /\ nibbles 8 (mS g) = map N.of_nat ds)).

Theorem all_moves_spec p g : 3 <= size p <= 8 -> (In g (all_moves p) <-> generated p g).
Proof.
  intros Hs. split.
  - intros H. apply in_all_moves in H as (x & y & Hx & Hy & H).
    destruct (in_cell p x y g H) as (EX & EY & _). apply in_cell_inv in H.
    exists x, y. repeat split; try assumption. cbv zeta in H |- *.
    set (i := N.of_nat (y * N.to_nat (size p) + x)) in *.
    destruct H as [H|(Hh & Hm & Ho & dc & Hd & Hin & Hmask)]; [left; exact H|right].
    repeat split; try assumption. exists dc.
    assert (Hh8 : (1 <= N.to_nat (N.min (nthN (Height p) i) (size p)) <= 8)%nat) by lia.
    destruct (slides_table_spec _ Hh8) as (_ & Hspec & Hnib).
    destruct (table_mask_test _ _ dc Hin) as (_ & Hlen).
    apply Hspec in Hin as (ds & Hg & Es). exists ds. specialize (Hnib ds Hg).
    apply Hlen in Hmask. rewrite Es, Hnib, map_length in Hmask. rewrite Es. auto.
  - intros (x & y & Hx & Hy & EX & EY & H). cbv zeta in H.
    set (i := N.of_nat (y * N.to_nat (size p) + x)) in *.
    destruct g as [gx gy gt gs]. cbn [mX mY mT mS] in *. subst gx gy.
    destruct H as [(Hh & -> & Ht)|(Hh & Hm & Ho & dc & ds & Hd & Hg & Hl & -> & _)].
    + apply allmoves_has_place; assumption.
    + apply (allmoves_has_slide p x y gt dc ds); assumption.
Qed.
Print Assumptions all_moves_spec.
