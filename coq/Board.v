From Coq Require Import NArith List Lia Bool ZifyN ZifyBool.
Import ListNotations.
Open Scope N_scope.

Definition m64 := N.ones 64.
Definition u64 (x : N) := N.land x m64.

Record consts := { Size : N; cL : N; cR : N; cT : N; cB : N; cEdge : N; cMask : N }.

Fixpoint precR (i : nat) (size : N) : N :=
  match i with O => 0 | S j => N.lor (precR j size) (u64 (N.shiftl 1 (N.of_nat j * size))) end.

Definition precompute (size : N) : consts :=
  let r := precR (N.to_nat size) size in
  let l := u64 (N.shiftl r (size - 1)) in
  let t := u64 (N.shiftl (u64 (u64 (N.shiftl 1 size) - 1)) (size * (size - 1))) in
  let b := u64 (N.shiftl 1 size) - 1 in
  let mask := if 64 <=? size * size then m64 else N.shiftl 1 (size*size) - 1 in
  {| Size := size; cL := l; cR := r; cT := t; cB := b; cEdge := N.lor (N.lor l r) (N.lor b t); cMask := mask |}.

Definition grow (c : consts) (within seed : N) : N :=
  let next := seed in
  let next := N.lor next (N.ldiff (u64 (N.shiftl seed 1)) (cR c)) in
  let next := N.lor next (N.ldiff (N.shiftr seed 1) (cL c)) in
  let next := N.lor next (N.shiftr seed (Size c)) in
  let next := N.lor next (u64 (N.shiftl seed (Size c))) in
  N.land next within.

Fixpoint flood (fuel : nat) (c : consts) (within seed : N) : option N :=
  match fuel with
  | O => None
  | S f => let next := grow c within seed in
           if N.eqb next seed then Some next else flood f c within next
  end.

Eval vm_compute in (precompute 5).
Eval vm_compute in (flood 65 (precompute 5) (N.ones 25) 1).

(* per-bit characterisation *)
Lemma u64_bit x i : N.testbit (u64 x) i = N.testbit x i && (i <? 64).
Proof.
  unfold u64, m64. rewrite N.land_spec. destruct (N.ltb_spec i 64).
  - now rewrite N.ones_spec_low.
  - now rewrite N.ones_spec_high.
Qed.

Lemma grow_bit c within seed i :
  N.testbit (grow c within seed) i =
  (N.testbit seed i
   || ((1 <=? i) && N.testbit seed (i - 1) && (i <? 64) && negb (N.testbit (cR c) i))
   || (N.testbit seed (i + 1) && negb (N.testbit (cL c) i))
   || N.testbit seed (i + Size c)
   || ((Size c <=? i) && N.testbit seed (i - Size c) && (i <? 64)))
  && N.testbit within i.
Proof.
  unfold grow. rewrite !N.land_spec, !N.lor_spec, !N.ldiff_spec, !u64_bit, !N.shiftr_spec'.
  f_equal.
  assert (Hl : forall k, N.testbit (N.shiftl seed k) i = (k <=? i) && N.testbit seed (i - k)).
  { intros k. destruct (N.leb_spec k i).
    - now rewrite N.shiftl_spec_high' by lia.
    - now rewrite N.shiftl_spec_low by lia. }
  rewrite !Hl.
  destruct (1 <=? i), (N.testbit seed (i-1)), (i <? 64), (N.testbit (cR c) i), (Size c <=? i), (N.testbit seed (i - Size c)); reflexivity.
Qed.
Print Assumptions grow_bit.
