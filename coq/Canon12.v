(* C15, layer 12: Canonical accepts every legal game, and class invariance for legal games (the form of DESIGN 5.15), for the code:
   instances of Canon11.v with C01's invariant (move_exact gives the Err / Panic half). *)
From Coq Require Import NArith ZArith Arith List Bool Lia ZifyN ZifyBool ZifyNat.
Require Import Rules Sym SymRules1 SymRules2 SymRules3 SymRules4.
Require Import Board Stack Move GameOver Tps Symmetry CanonFacts Refine SymCode1 Canon1 Canon2 Canon2b Canon3 Canon4 Canon6 Canon7 Canon9 Canon11.
Require Import Alloc Preserve1 Preserve5 Preserve6 Reach1.
Require Import Generated.Consts.
Import ListNotations.
Close Scope Z_scope. Close Scope N_scope.

Lemma pos_ok_total p m : pos_ok p -> mT m <> 1%N ->
  match cmv p m with Ok _ => True | Err => rules_move (abs p) (raw m) = None | Panic => False end.
Proof.
  intros Hp Hm. assert (R := move_exact p m Hp Hm). change (mv p m) with (cmv p m) in R.
  destruct (cmv p m); [exact I|exact R|exact R].
Qed.

Lemma bi_small_total p m : bi_small p -> mT m <> 1%N ->
  match cmv p m with Ok _ => True | Err => rules_move (abs p) (raw m) = None | Panic => False end.
Proof. intros [Hp _]. now apply pos_ok_total. Qed.

(* every legal game (of moves with type code <= 8 - implied by legality - and, for slides, a non-empty Slides word - implied too) is accepted *)
Lemma legal_movelike : forall ms P B, play P (map raw ms) = Some B -> Forall movelike ms.
Proof.
  induction ms as [|m ms IH]; intros P B H; [constructor|].
  cbn [map] in H. rewrite play_cons in H. destruct (rules_move P (raw m)) as [Q|] eqn:E; [|discriminate].
  constructor; [|now apply (IH Q B)].
  unfold rules_move, decode in E. cbn [raw mtype mslides mx my] in E. unfold movelike.
  destruct (mT m) as [|q]; [discriminate|]. do 4 (try destruct q as [q|q|]); try discriminate; (split; [lia|]); intros H5; try lia;
    intros E0; rewrite E0 in E; unfold slide in E; cbn [nibbles N.eqb] in E;
    destruct (ply P <? 2)%Z; try discriminate; destruct (negb _); try discriminate; cbn in E; discriminate.
Qed.

Theorem canonical_total : forall sz, (3 <= sz <= 6)%N -> forall ms B,
  nocoll_trace sz ms -> play (P0 sz) (map raw ms) = Some B -> exists cs, canonical gen_basis sz ms = Ok cs.
Proof.
  intros sz Hsz ms B Hnc Hplay. assert (Hsz8 : (3 <= sz <= 8)%N) by lia.
  apply (canonical_total_gen sz Hsz8 bi_small (fun _ => True) bi_small_move (bi_small_new sz Hsz) bi_small_total ms B
           (legal_movelike ms _ _ Hplay) Hnc (sc_true_trace sz ms) Hplay).
Qed.
Print Assumptions canonical_total.

Theorem canonical_class_invariant_legal : forall sz, (3 <= sz <= 6)%N -> forall g ms B, g < 8 ->
  nocoll_trace sz ms -> play (P0 sz) (map raw ms) = Some B ->
  canonical gen_basis sz (map (tmr g (N.to_nat sz)) ms) = canonical gen_basis sz ms /\ exists cs, canonical gen_basis sz ms = Ok cs.
Proof.
  intros sz Hsz g ms B Hg Hnc Hplay. assert (Hsz8 : (3 <= sz <= 8)%N) by lia.
  apply (canonical_class_invariant_legal_gen sz Hsz8 bi_small (fun _ => True) bi_small_move (bi_small_new sz Hsz) bi_small_hash bi_small_total
           g ms B Hg (legal_movelike ms _ _ Hplay) Hnc (sc_true_trace sz ms) Hplay).
Qed.
Print Assumptions canonical_class_invariant_legal.

Theorem canonical_total64 : forall sz, (3 <= sz <= 8)%N -> forall ms B,
  nocoll_trace sz ms -> sc_trace sz heights64 ms -> play (P0 sz) (map raw ms) = Some B -> exists cs, canonical gen_basis sz ms = Ok cs.
Proof.
  intros sz Hsz ms B Hnc Hsc Hplay.
  apply (canonical_total_gen sz Hsz pos_ok heights64 pos_ok_move (proj1 (start_pos_ok sz Hsz)) pos_ok_total ms B
           (legal_movelike ms _ _ Hplay) Hnc Hsc Hplay).
Qed.
Print Assumptions canonical_total64.

Theorem canonical_class_invariant_legal64 : forall sz, (3 <= sz <= 8)%N -> forall g ms B, g < 8 ->
  nocoll_trace sz ms -> sc_trace sz heights64 ms -> play (P0 sz) (map raw ms) = Some B ->
  canonical gen_basis sz (map (tmr g (N.to_nat sz)) ms) = canonical gen_basis sz ms /\ exists cs, canonical gen_basis sz ms = Ok cs.
Proof.
  intros sz Hsz g ms B Hg Hnc Hsc Hplay.
  apply (canonical_class_invariant_legal_gen sz Hsz pos_ok heights64 pos_ok_move (proj1 (start_pos_ok sz Hsz)) pos_ok_hash pos_ok_total
           g ms B Hg (legal_movelike ms _ _ Hplay) Hnc Hsc Hplay).
Qed.
Print Assumptions canonical_class_invariant_legal64.
