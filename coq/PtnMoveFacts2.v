(* C11 (and C13 support): structural facts about the PTN move parser and the playtak wire parser that hold
   for ARBITRARY byte lists (no enumeration):
     - parse_move_annot_suffix : an accepted move text followed by an annotation byte and anything at all
                                 parses to the same move;
     - annotations_ignored     : the C11 statement, on top of ptn_roundtrip;
     - parse_move_legal_shape  : whatever parse_move accepts is a legal-shaped move (no off-grid square, no
                                 junk type code, no malformed drop list);
     - parse_server_shape      : whatever parse_server accepts has its square on the 8x8 grid and a valid type. *)
From Coq Require Import NArith ZArith List Bool Lia Ascii ZifyN ZifyBool ZifyNat.
Require Import PtnMove Playtak PtnMoveFacts.
Import ListNotations.
Local Open Scope char_scope.
Local Open Scope N_scope.

(* ------------------------------------------------------------------------------------------------ *)
(* byte constants *)

Ltac bytes :=
  change (B "!") with 33 in *; change (B "?") with 63 in *; change (B "*") with 42 in *; change (B "'") with 39 in *;
  change (B "0") with 48 in *; change (B "1") with 49 in *; change (B "8") with 56 in *; change (B "9") with 57 in *;
  change (B "a") with 97 in *; change (B "h") with 104 in *; change (B "A") with 65 in *; change (B "H") with 72 in *;
  change (B "<") with 60 in *; change (B ">") with 62 in *; change (B "+") with 43 in *; change (B "-") with 45 in *;
  change (B "F") with 70 in *; change (B "S") with 83 in *; change (B "C") with 67 in *; change (B "W") with 87 in *;
  change (B "P") with 80 in *; change (B "M") with 77 in *; change (B " ") with 32 in *.

Lemma is_annot_cases c : is_annot c = true -> c = 33 \/ c = 63 \/ c = 42 \/ c = 39.
Proof. unfold is_annot. bytes. lia. Qed.

Lemma annot_not_digit c : is_annot c = true -> in_range (B "1") (B "8") c = false.
Proof. intros H. apply is_annot_cases in H. unfold in_range. bytes. lia. Qed.

(* ------------------------------------------------------------------------------------------------ *)
(* parse_move, cut into its three stages (definitionally equal to the model) *)

Definition head_split (s : list N) (c0 : N) : N * Z * list N :=
  if c0 =? B "F" then (PlaceFlat, 0%Z, tl s)
  else if c0 =? B "S" then (PlaceStanding, 0%Z, tl s)
  else if c0 =? B "C" then (PlaceCapstone, 0%Z, tl s)
  else if in_range (B "1") (B "8") c0 then (0, Z.of_N (c0 - B "0"), tl s)
  else (PlaceFlat, 0%Z, s).

Definition dir_of (d : N) : option N :=
  if d =? B "<" then Some SlideLeft else if d =? B ">" then Some SlideRight
  else if d =? B "+" then Some SlideUp else if d =? B "-" then Some SlideDown else None.

Definition parse_tail (ty : N) (stack : Z) (rest : list N) : res move :=
  match rest with
  | cx :: cy :: rest2 =>
    if negb (in_range (B "a") (B "h") cx) then Err else
    if negb (in_range (B "1") (B "8") cy) then Err else
    let x := Z.of_N (cx - B "a") in let y := Z.of_N (cy - B "1") in
    match rest2 with
    | [] => if (stack =? 0)%Z then Ok {| mX := x; mY := y; mT := ty; mS := 0 |} else Err
    | d :: rest3 =>
      if is_annot d then (if (stack =? 0)%Z then Ok {| mX := x; mY := y; mT := ty; mS := 0 |} else Err) else
      match dir_of d with
      | None => Err
      | Some t =>
        let stack := if (stack =? 0)%Z then 1%Z else stack in
        match parse_drops rest3 stack [] with
        | None => Err
        | Some (ds, st) =>
          if (st <? 0)%Z then Err else
          let ds := if (0 <? st)%Z then ds ++ [Z.to_N st] else ds in
          Ok {| mX := x; mY := y; mT := t; mS := mk_slides ds |}
        end
      end
    end
  | _ => Err
  end.

Lemma parse_move_eq s :
  parse_move s =
  if (length s <? 2)%nat then Err else
  match s with
  | c0 :: _ => let '(ty, stack, rest) := head_split s c0 in parse_tail ty stack rest
  | [] => Err
  end.
Proof. reflexivity. Qed.

(* ------------------------------------------------------------------------------------------------ *)
(* the parser stops at the first annotation byte *)

Lemma parse_drops_suffix : forall l st acc c rest, is_annot c = true ->
  parse_drops (l ++ c :: rest) st acc = parse_drops l st acc.
Proof.
  induction l as [|d l IH]; intros st acc c rest Hc.
  - cbn [app parse_drops]. rewrite (annot_not_digit c Hc), Hc. reflexivity.
  - cbn [app parse_drops]. destruct (in_range (B "1") (B "8") d); [apply IH; assumption|reflexivity].
Qed.

Lemma parse_tail_suffix ty st r c rest m : is_annot c = true ->
  parse_tail ty st r = Ok m -> parse_tail ty st (r ++ c :: rest) = Ok m.
Proof.
  intros Hc. destruct r as [|cx [|cy rest2]]; try (cbn [parse_tail]; discriminate).
  cbn [app]. unfold parse_tail.
  destruct (negb (in_range (B "a") (B "h") cx)); [discriminate|].
  destruct (negb (in_range (B "1") (B "8") cy)); [discriminate|].
  destruct rest2 as [|d rest3]; cbn [app].
  - rewrite Hc. exact (fun H => H).
  - destruct (is_annot d); [exact (fun H => H)|].
    destruct (dir_of d); [|discriminate].
    rewrite parse_drops_suffix by assumption. exact (fun H => H).
Qed.

Lemma ltb_SS n : (S (S n) <? 2)%nat = false.
Proof. reflexivity. Qed.

(* Any accepted move text, followed by an annotation byte and then ANY bytes, is accepted with the same move. *)
Theorem parse_move_annot_suffix s c rest m : is_annot c = true ->
  parse_move s = Ok m -> parse_move (s ++ c :: rest) = Ok m.
Proof.
  intros Hc. rewrite !parse_move_eq.
  destruct s as [|c0 [|c1 s]]; try (cbn; discriminate).
  cbn [app length]. rewrite !ltb_SS. unfold head_split. cbn [tl].
  destruct (c0 =? B "F"); [apply (parse_tail_suffix _ _ (c1 :: s)); assumption|].
  destruct (c0 =? B "S"); [apply (parse_tail_suffix _ _ (c1 :: s)); assumption|].
  destruct (c0 =? B "C"); [apply (parse_tail_suffix _ _ (c1 :: s)); assumption|].
  destruct (in_range (B "1") (B "8") c0); [apply (parse_tail_suffix _ _ (c1 :: s)); assumption|].
  apply (parse_tail_suffix _ _ (c0 :: c1 :: s)); assumption.
Qed.

(* C11: annotation suffixes never change the parsed move *)
Theorem annotations_ignored : forall long m c rest, legal_shape m -> is_annot c = true ->
  parse_move (format_move long m ++ c :: rest) = Ok m.
Proof. intros long m c rest Hm Hc. apply parse_move_annot_suffix; [assumption|]. apply ptn_roundtrip; assumption. Qed.

(* non-vacuity: "3c3>213" + "?!" + junk *)
Example annotations_ignored_example :
  let m := {| mX := 2; mY := 2; mT := SlideRight; mS := mk_slides [2; 1; 3] |} in
  legal_shape m /\ is_annot (B "?") = true /\
  format_move false m = [B "6"; B "c"; B "3"; B ">"; B "2"; B "1"; B "3"] /\
  parse_move (format_move false m ++ B "?" :: [B "!"; 0; 255; B "x"]) = Ok m.
Proof.
  cbv zeta. split; [exact (proj1 legal_shape_example)|]. split; [reflexivity|]. split; [reflexivity|].
  apply annotations_ignored; [exact (proj1 legal_shape_example)|reflexivity].
Qed.

(* ------------------------------------------------------------------------------------------------ *)
(* whatever parse_move accepts is a legal-shaped move *)

Lemma sumN_app a b : sumN (a ++ b) = sumN a + sumN b.
Proof. induction a as [|x a IH]; cbn [app sumN fold_right]; [reflexivity|]. fold (sumN (a ++ b)) (sumN a). lia. Qed.

Lemma parse_drops_spec : forall l st acc ds st', parse_drops l st acc = Some (ds, st') ->
  exists ds0, ds = rev acc ++ ds0 /\ Forall (fun d => 1 <= d <= 8) ds0 /\ st' = (st - Z.of_N (sumN ds0))%Z.
Proof.
  induction l as [|d l IH]; intros st acc ds st' H; cbn [parse_drops] in H.
  - inversion H; subst. exists []. rewrite app_nil_r. repeat split; [constructor|cbn; lia].
  - destruct (in_range (B "1") (B "8") d) eqn:Hd.
    + apply IH in H as (ds1 & -> & Hall & ->). exists ((d - B "0") :: ds1).
      cbn [rev]. rewrite <- app_assoc. cbn [app]. split; [reflexivity|]. split.
      * constructor; [|assumption]. unfold in_range in Hd. bytes. lia.
      * cbn [sumN fold_right]. fold (sumN ds1). unfold in_range in Hd. bytes. lia.
    + destruct (is_annot d); [|discriminate]. inversion H; subst. exists []. rewrite app_nil_r.
      repeat split; [constructor|cbn; lia].
Qed.

Lemma dir_of_cases d t : dir_of d = Some t -> t = SlideLeft \/ t = SlideRight \/ t = SlideUp \/ t = SlideDown.
Proof.
  unfold dir_of. destruct (d =? B "<"); [intros [= <-]; auto|]. destruct (d =? B ">"); [intros [= <-]; auto|].
  destruct (d =? B "+"); [intros [= <-]; auto|]. destruct (d =? B "-"); [intros [= <-]; auto 6|discriminate].
Qed.

Lemma Forall_ge1 ds : Forall (fun d => 1 <= d <= 8) ds -> Forall (fun d => 1 <= d) ds.
Proof. apply Forall_impl. intros; lia. Qed.

Lemma parse_tail_shape ty st r m :
  ((ty = PlaceFlat \/ ty = PlaceStanding \/ ty = PlaceCapstone) /\ st = 0%Z) \/ (1 <= st <= 8)%Z ->
  parse_tail ty st r = Ok m -> legal_shape m.
Proof.
  intros Hty. destruct r as [|cx [|cy rest2]]; try (cbn [parse_tail]; discriminate).
  unfold parse_tail.
  destruct (in_range (B "a") (B "h") cx) eqn:Hx; [|discriminate].
  destruct (in_range (B "1") (B "8") cy) eqn:Hy; [|discriminate]. cbn [negb].
  assert (Gx : (0 <= Z.of_N (cx - B "a") < 8)%Z) by (unfold in_range in Hx; bytes; lia).
  assert (Gy : (0 <= Z.of_N (cy - B "1") < 8)%Z) by (unfold in_range in Hy; bytes; lia).
  assert (Place : (if (st =? 0)%Z then Ok {| mX := Z.of_N (cx - B "a"); mY := Z.of_N (cy - B "1"); mT := ty; mS := 0 |} else Err) = Ok m
                  -> legal_shape m).
  { destruct (st =? 0)%Z eqn:E; [|discriminate]. intros [= <-]. unfold legal_shape; cbv [mX mY mT mS].
    split; [assumption|]. split; [assumption|]. left. split; [|reflexivity]. destruct Hty as [[H _]|H]; [assumption|lia]. }
  destruct rest2 as [|d rest3]; [exact Place|].
  destruct (is_annot d); [exact Place|]. clear Place.
  destruct (dir_of d) as [t|] eqn:Ht; [|discriminate]. apply dir_of_cases in Ht.
  remember (if (st =? 0)%Z then 1%Z else st) as st1 eqn:Est1.
  assert (Hst1 : (1 <= st1 <= 8)%Z) by (subst st1; destruct (st =? 0)%Z eqn:E; lia). clear Est1.
  destruct (parse_drops rest3 st1 []) as [[ds st2]|] eqn:Hd; [|discriminate].
  apply parse_drops_spec in Hd as (ds0 & -> & Hall & ->). cbn [rev app].
  destruct (st1 - Z.of_N (sumN ds0) <? 0)%Z eqn:Eneg; [discriminate|].
  intros [= <-]. unfold legal_shape; cbv [mX mY mT mS].
  split; [assumption|]. split; [assumption|]. right. split; [assumption|].
  destruct (0 <? st1 - Z.of_N (sumN ds0))%Z eqn:Epos.
  - exists (ds0 ++ [Z.to_N (st1 - Z.of_N (sumN ds0))]). split; [|reflexivity]. split; [|split].
    + destruct ds0; discriminate.
    + apply Forall_app. split; [apply Forall_ge1; assumption|]. constructor; [lia|constructor].
    + rewrite sumN_app. cbn [sumN fold_right]. lia.
  - exists ds0. split; [|reflexivity]. split; [|split].
    + intros ->. cbn in Eneg, Epos. lia.
    + apply Forall_ge1; assumption.
    + lia.
Qed.

(* "No silent different move": every byte list that parse_move accepts denotes a legal-shaped move --
   square on the 8x8 grid, type code one of the seven real ones (never the provisional 0 of a leading count),
   Slides = 0 for placements, and for slides a non-empty drop list with every drop >= 1 and total <= 8. *)
Theorem parse_move_legal_shape s m : parse_move s = Ok m -> legal_shape m.
Proof.
  rewrite parse_move_eq. destruct s as [|c0 [|c1 s]]; try (cbn; discriminate).
  cbn [length]. rewrite ltb_SS. unfold head_split.
  destruct (c0 =? B "F"); [apply parse_tail_shape; left; auto|].
  destruct (c0 =? B "S"); [apply parse_tail_shape; left; auto|].
  destruct (c0 =? B "C"); [apply parse_tail_shape; left; auto|].
  destruct (in_range (B "1") (B "8") c0) eqn:Hc; [|apply parse_tail_shape; left; auto].
  apply parse_tail_shape. right. unfold in_range in Hc. bytes. lia.
Qed.

Lemma legal_shape_fields m : legal_shape m ->
  (0 <= mX m < 8)%Z /\ (0 <= mY m < 8)%Z /\ 2 <= mT m <= 8.
Proof.
  intros (Hx & Hy & Hk). split; [assumption|]. split; [assumption|].
  unfold PlaceFlat, PlaceStanding, PlaceCapstone, SlideLeft, SlideRight, SlideUp, SlideDown in Hk.
  destruct Hk as [[H _]|[H _]]; lia.
Qed.

(* the form asked for by C13: no off-grid squares, no junk type codes *)
Corollary parse_move_fields s m : parse_move s = Ok m ->
  (0 <= mX m < 8)%Z /\ (0 <= mY m < 8)%Z /\ 2 <= mT m <= 8.
Proof. intros H. apply legal_shape_fields. eapply parse_move_legal_shape; eassumption. Qed.

(* hence the parser's results are fixed points of format-then-parse, in both spellings: parsing is a
   retraction onto the canonical texts *)
Corollary parse_format_parse long s m : parse_move s = Ok m -> parse_move (format_move long m) = Ok m.
Proof. intros H. apply ptn_roundtrip. eapply parse_move_legal_shape; eassumption. Qed.

Example parse_move_accepts_example :
  parse_move [B "C"; B "a"; B "1"; B ">"; B "'"; B "z"] = Ok {| mX := 0; mY := 0; mT := SlideRight; mS := mk_slides [1] |}.
Proof. reflexivity. Qed.

(* ------------------------------------------------------------------------------------------------ *)
(* the playtak wire parser *)

Lemma parse_square_grid sq x y : parse_square sq = Some (x, y) -> (0 <= x < 8)%Z /\ (0 <= y < 8)%Z.
Proof.
  unfold parse_square. destruct sq as [|a [|b [|? ?]]]; try discriminate.
  destruct (in_range (B "A") (B "H") a) eqn:Ha; [|discriminate].
  destruct (in_range (B "1") (B "8") b) eqn:Hb; [|discriminate]. cbn [andb].
  intros [= <- <-]. unfold in_range in Ha, Hb. bytes. lia.
Qed.

Lemma parse_drops_srv_le8 : forall ws ds, parse_drops_srv ws = Some ds -> Forall (fun d => d <= 8) ds.
Proof.
  induction ws as [|w ws IH]; intros ds H; cbn [parse_drops_srv] in H.
  - inversion H; constructor.
  - destruct (atoi w) as [n|]; [|discriminate].
    destruct ((n <? 0) || (8 <? n))%Z eqn:E; [discriminate|].
    destruct (parse_drops_srv ws) as [ds1|]; [|discriminate]. cbn [option_map] in H. inversion H; subst.
    constructor; [lia|apply IH; reflexivity].
Qed.

(* What parse_server accepts: the (start) square is on the 8x8 grid, the type code is one of the seven real
   ones, placements carry Slides = 0, slides carry mk_slides of a drop list with every drop <= 8.
   NOTE what is NOT guaranteed (and is false of the model and of playtak/move.go): drops may be 0, the drop list
   may be longer than the distance between the two squares or than 8 (mk_slides then truncates to 32 bits), and
   the sum is unbounded -- e.g. "M A1 B1 0" is accepted with Slides = 0.  Such values are not legal_shape;
   they are rejected later by Position.Move, not by the parser. *)
Theorem parse_server_shape s m : parse_server s = Ok m ->
  (0 <= mX m < 8)%Z /\ (0 <= mY m < 8)%Z /\
  (((mT m = PlaceFlat \/ mT m = PlaceStanding \/ mT m = PlaceCapstone) /\ mS m = 0) \/
   ((mT m = SlideLeft \/ mT m = SlideRight \/ mT m = SlideUp \/ mT m = SlideDown) /\
    exists ds, Forall (fun d => d <= 8) ds /\ mS m = mk_slides ds)).
Proof.
  unfold parse_server. destruct (words s) as [|w0 ws] eqn:Ews; [discriminate|].
  destruct (bytes_eqb w0 [B "P"]).
  - destruct (negb _); [discriminate|].
    destruct (parse_square (nth 1 (w0 :: ws) [])) as [[x y]|] eqn:Esq; [|discriminate].
    apply parse_square_grid in Esq as [Hx Hy].
    destruct (length (w0 :: ws) =? 3)%nat.
    + destruct (bytes_eqb _ [B "C"]); [intros [= <-]; cbv [mX mY mT mS]; auto 8|].
      destruct (bytes_eqb _ [B "W"]); [intros [= <-]; cbv [mX mY mT mS]; auto 8|discriminate].
    + intros [= <-]; cbv [mX mY mT mS]; auto 8.
  - destruct (bytes_eqb w0 [B "M"]); [|discriminate].
    destruct (length (w0 :: ws) <? 4)%nat; [discriminate|].
    destruct (parse_square (nth 1 (w0 :: ws) [])) as [[sx sy]|] eqn:Esq; [|discriminate].
    destruct (parse_square (nth 2 (w0 :: ws) [])) as [[ex ey]|] eqn:Esq2; [|discriminate].
    apply parse_square_grid in Esq as [Hx Hy].
    match goal with |- match ?T with _ => _ end = _ -> _ => destruct T as [t|] eqn:Et end; [|discriminate].
    assert (Ht : t = SlideLeft \/ t = SlideRight \/ t = SlideUp \/ t = SlideDown).
    { destruct ((sx <? ex) && (ey =? sy))%Z; [inversion Et; auto|].
      destruct ((ex <? sx) && (ey =? sy))%Z; [inversion Et; auto|].
      destruct ((sy <? ey) && (ex =? sx))%Z; [inversion Et; auto|].
      destruct ((ey <? sy) && (ex =? sx))%Z; [inversion Et; auto 6|discriminate]. }
    destruct (parse_drops_srv (skipn 3 (w0 :: ws))) as [ds|] eqn:Ed; [|discriminate].
    apply parse_drops_srv_le8 in Ed.
    intros [= <-]; cbv [mX mY mT mS]. split; [assumption|]. split; [assumption|]. right. split; [assumption|].
    exists ds. split; [assumption|reflexivity].
Qed.

Corollary parse_server_fields s m : parse_server s = Ok m ->
  (0 <= mX m < 8)%Z /\ (0 <= mY m < 8)%Z /\ 2 <= mT m <= 8.
Proof.
  intros H. apply parse_server_shape in H as (Hx & Hy & Hk). split; [assumption|]. split; [assumption|].
  unfold PlaceFlat, PlaceStanding, PlaceCapstone, SlideLeft, SlideRight, SlideUp, SlideDown in Hk.
  destruct Hk as [[H _]|[H _]]; lia.
Qed.

(* witness for the NOTE above: the wire parser accepts a slide with a zero drop, which is not legal_shape *)
Example parse_server_accepts_zero_drop :
  parse_server [B "M"; B " "; B "A"; B "1"; B " "; B "B"; B "1"; B " "; B "0"]
  = Ok {| mX := 0; mY := 0; mT := SlideRight; mS := 0 |}.
Proof. reflexivity. Qed.

Example parse_server_accepts_example :
  parse_server [B "M"; B " "; B "C"; B "3"; B " "; B "C"; B "5"; B " "; B "2"; B " "; B "1"]
  = Ok {| mX := 2; mY := 2; mT := SlideUp; mS := mk_slides [2; 1] |}.
Proof. reflexivity. Qed.
