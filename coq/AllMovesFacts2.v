(* C03, part 2: Move.Equal, duplicate-freeness of all_moves and on-board endpoints.
   No hypothesis on the position is needed for either statement. *)
From Coq Require Import NArith ZArith Arith List Bool Lia ZifyN ZifyBool ZifyNat SetoidList.
Require Import Board Move GameOver AllMovesFacts.
Import ListNotations.
Open Scope N_scope.

(* ---- tak.Move.Equal: X, Y, Type equal and, for slides (Type >= SlideLeft = 5), Slides equal ---- *)
Definition move_equal (a b : rmove) : bool :=
  (mX a =? mX b)%Z && (mY a =? mY b)%Z && (mT a =? mT b) && (if 5 <=? mT a then mS a =? mS b else true).

(* what Equal looks at *)
Definition key (g : rmove) : Z * Z * N * N := (mX g, mY g, mT g, if 5 <=? mT g then mS g else 0).

Lemma move_equal_key a b : move_equal a b = true <-> key a = key b.
Proof.
  destruct a as [x y t s], b as [x' y' t' s']. unfold move_equal, key. cbn [mX mY mT mS]. split.
  - intros H. apply andb_prop in H as [H H4]. apply andb_prop in H as [H H3]. apply andb_prop in H as [H1 H2].
    apply Z.eqb_eq in H1, H2. apply N.eqb_eq in H3. subst. destruct (5 <=? t'); [apply N.eqb_eq in H4; now subst|reflexivity].
  - intros H. injection H as -> -> -> H. rewrite !Z.eqb_refl, N.eqb_refl. cbn [andb].
    destruct (5 <=? t'); [subst; apply N.eqb_refl|reflexivity].
Qed.

Lemma move_equal_refl a : move_equal a a = true.
Proof. now apply move_equal_key. Qed.
Lemma move_equal_sym a b : move_equal a b = true -> move_equal b a = true.
Proof. rewrite !move_equal_key. auto. Qed.
Lemma move_equal_trans a b c : move_equal a b = true -> move_equal b c = true -> move_equal a c = true.
Proof. rewrite !move_equal_key. congruence. Qed.

Definition meq (a b : rmove) : Prop := move_equal a b = true.

Lemma NoDupA_of_key l : NoDup (map key l) -> NoDupA meq l.
Proof.
  induction l as [|a l IH]; intros H; [constructor|]. cbn [map] in H. inversion H as [|? ? Hn Hd]; subst.
  constructor; [|now apply IH]. intros Hin. apply InA_alt in Hin as (b & E & Hb). apply Hn.
  apply move_equal_key in E. rewrite E. now apply in_map.
Qed.

Lemma NoDupA_key l : NoDupA meq l -> NoDup (map key l).
Proof.
  induction 1 as [|a l Hn Hd IH]; [constructor|]. cbn [map]. constructor; [|exact IH].
  intros Hin. apply in_map_iff in Hin as (b & E & Hb). apply Hn. apply InA_alt. exists b. split; [|exact Hb].
  apply move_equal_key. now symmetry.
Qed.

(* ---- list facts ---- *)
Lemma NoDup_app_intro {A} (l1 l2 : list A) :
  NoDup l1 -> NoDup l2 -> (forall x, In x l1 -> In x l2 -> False) -> NoDup (l1 ++ l2).
Proof.
  induction l1 as [|a l1 IH]; intros H1 H2 Hd; [exact H2|]. cbn [app]. inversion H1; subst.
  constructor.
  - intros Hin. apply in_app_or in Hin as [Hin|Hin]; [contradiction|]. apply (Hd a); [now left|exact Hin].
  - apply IH; auto. intros x Hx. apply Hd. now right.
Qed.

(* flat_map over inputs whose outputs carry pairwise different tags *)
Lemma nodup_flat_map_tag {A B K T} (k : B -> K) (tag : K -> T) (t : A -> T) (f : A -> list B) l :
  NoDup (map t l) -> (forall a b, In a l -> In b (f a) -> tag (k b) = t a) ->
  (forall a, In a l -> NoDup (map k (f a))) -> NoDup (map k (flat_map f l)).
Proof.
  induction l as [|a l IH]; intros Hn Ht Hf; [constructor|].
  cbn [flat_map map] in *. rewrite map_app. inversion Hn as [|? ? Hna Hnl]; subst.
  apply NoDup_app_intro.
  - apply Hf. now left.
  - apply IH; [exact Hnl| |].
    + intros a' b Ha'. apply Ht. now right.
    + intros a' Ha'. apply Hf. now right.
  - intros x Hx1 Hx2. apply in_map_iff in Hx1 as (b & <- & Hb).
    apply in_map_iff in Hx2 as (b' & E & Hb'). apply in_flat_map in Hb' as (a' & Ha' & Hb').
    apply Hna. apply in_map_iff. exists a'. split; [|exact Ha'].
    rewrite <- (Ht a' b' (or_intror Ha') Hb'), E. apply Ht; [now left|exact Hb].
Qed.

Lemma NoDup_map_of_nat (f : nat -> Z) n : (forall a b, f a = f b -> a = b) -> NoDup (map f (seq 0 n)).
Proof.
  intros Hinj. generalize 0%nat. induction n as [|n IH]; intros s; cbn [seq map]; constructor; [|apply IH].
  intros Hin. apply in_map_iff in Hin as (b & E & Hb). apply Hinj in E. apply in_seq in Hb. lia.
Qed.

(* ---- computed facts about the nine tables ---- *)
Definition mask_of (dc : nat) : N := N.ldiff (N.ones 32) (N.ones (4 * N.of_nat dc)).

Definition tables_nodup_ok : bool := forallb nodupb slides_table.
Definition tables_mask_ok : bool :=
  forallb (fun t => forallb (fun s => (1 <=? length (nibbles 8 s))%nat &&
     forallb (fun dc => Bool.eqb (N.land s (mask_of dc) =? 0) (length (nibbles 8 s) <=? dc)%nat) (seq 0 9)) t) slides_table.

Lemma tables_nodup_computed : tables_nodup_ok = true.
Proof. vm_compute. reflexivity. Qed.
Lemma tables_mask_computed : tables_mask_ok = true.
Proof. vm_compute. reflexivity. Qed.

Lemma table_NoDup h : NoDup (nth h slides_table []).
Proof.
  destruct (nth_in_or_default h slides_table []) as [H|E]; [|rewrite E; constructor].
  apply nodupb_NoDup. assert (C := tables_nodup_computed). unfold tables_nodup_ok in C.
  rewrite forallb_forall in C. now apply C.
Qed.

Lemma nibbles_length f : forall s, (length (nibbles f s) <= f)%nat.
Proof.
  induction f as [|f IH]; intros s; cbn [nibbles]; [cbn; lia|].
  destruct (s =? 0); cbn [length]; [lia|]. specialize (IH (N.shiftr s 4)). lia.
Qed.

(* the nibble mask test of AllMoves, exactly: passes iff the number of drops is within the distance *)
Lemma table_mask_test h s dc : In s (nth h slides_table []) ->
  (1 <= length (nibbles 8 s))%nat /\
  (N.land s (mask_of dc) = 0 <-> (length (nibbles 8 s) <= dc)%nat).
Proof.
  intros Hin.
  destruct (nth_in_or_default h slides_table []) as [Ht|E]; [|rewrite E in Hin; destruct Hin].
  assert (C := tables_mask_computed). unfold tables_mask_ok in C. rewrite forallb_forall in C.
  specialize (C _ Ht). rewrite forallb_forall in C. specialize (C _ Hin).
  apply andb_prop in C as [C1 C2]. split; [apply Nat.leb_le; exact C1|].
  destruct (Nat.le_gt_cases dc 8) as [Hdc|Hdc].
  - rewrite forallb_forall in C2. specialize (C2 dc ltac:(apply in_seq; lia)).
    apply eqb_prop in C2. rewrite <- N.eqb_eq, C2. apply Nat.leb_le.
  - assert (L := nibbles_length 8 s). split; [lia|]. intros _.
    (* the mask is empty from distance 8 on *)
    unfold mask_of. apply N.bits_inj. intros i. rewrite N.land_spec, N.ldiff_spec, N.bits_0.
    destruct (N.lt_ge_cases i 32).
    + rewrite (N.ones_spec_low (4 * N.of_nat dc)) by lia. cbn [negb]. now rewrite !andb_false_r.
    + rewrite (N.ones_spec_high 32) by lia. cbn [andb]. apply andb_false_r.
Qed.

Local Opaque slides_table.

(* ---- the cell of all_moves for one square ---- *)
Definition cell (p : position) (x y : nat) : list rmove :=
  let sz := N.to_nat (size p) in
  let white := to_move_white p in
  let cap := if white then 0 <? whiteCaps p else 0 <? blackCaps p in
  let i := N.of_nat (y * sz + x) in
  let X := Z.of_nat x in let Y := Z.of_nat y in
  if nthN (Height p) i =? 0 then
    {| mX := X; mY := Y; mT := 2; mS := 0 |} ::
    (if (2 <=? move p)%Z then {| mX := X; mY := Y; mT := 3; mS := 0 |} ::
       (if cap then [{| mX := X; mY := Y; mT := 4; mS := 0 |}] else []) else [])
  else if (move p <? 2)%Z then []
  else if white && negb (has (White p) i) then []
  else if negb white && negb (has (Black p) i) then []
  else
    let h := N.min (nthN (Height p) i) (size p) in
    flat_map (fun dc : N * nat =>
      flat_map (fun s => if N.land s (mask_of (snd dc)) =? 0 then [{| mX := X; mY := Y; mT := fst dc; mS := s |}] else [])
               (nth (N.to_nat h) slides_table []))
      [(5%N, x); (6%N, (sz - x - 1)%nat); (8%N, y); (7%N, (sz - y - 1)%nat)].

Lemma all_moves_cells p :
  all_moves p = flat_map (fun x => flat_map (fun y => cell p x y) (seq 0 (N.to_nat (size p)))) (seq 0 (N.to_nat (size p))).
Proof. reflexivity. Qed.

Lemma in_all_moves p g : In g (all_moves p) <->
  exists x y, (x < N.to_nat (size p))%nat /\ (y < N.to_nat (size p))%nat /\ In g (cell p x y).
Proof.
  rewrite all_moves_cells. split.
  - intros H. apply in_flat_map in H as (x & Hx & H). apply in_flat_map in H as (y & Hy & H).
    apply in_seq in Hx, Hy. exists x, y. repeat split; [lia|lia|exact H].
  - intros (x & y & Hx & Hy & H). apply in_flat_map. exists x. split; [apply in_seq; lia|].
    apply in_flat_map. exists y. split; [apply in_seq; lia|exact H].
Qed.

(* what a cell contains *)
Lemma in_cell p x y g : In g (cell p x y) ->
  mX g = Z.of_nat x /\ mY g = Z.of_nat y /\
  ((2 <= mT g <= 4 /\ mS g = 0) \/
   (exists dc, In (mT g, dc) [(5%N, x); (6%N, (N.to_nat (size p) - x - 1)%nat); (8%N, y); (7%N, (N.to_nat (size p) - y - 1)%nat)] /\
               (1 <= length (nibbles 8 (mS g)) <= dc)%nat)).
Proof.
  unfold cell. intros H.
  destruct (nthN (Height p) _ =? 0).
  { assert (E : g = {| mX := Z.of_nat x; mY := Z.of_nat y; mT := 2; mS := 0 |} \/
                g = {| mX := Z.of_nat x; mY := Z.of_nat y; mT := 3; mS := 0 |} \/
                g = {| mX := Z.of_nat x; mY := Z.of_nat y; mT := 4; mS := 0 |}).
    { destruct H as [<-|H]; [auto|]. destruct (2 <=? move p)%Z; [|destruct H].
      destruct H as [<-|H]; [auto|]. destruct (if to_move_white p then _ else _); [|destruct H].
      destruct H as [<-|[]]. auto. }
    destruct E as [->|[->| ->]]; cbn [mX mY mT mS]; repeat split; left; lia. }
  destruct (move p <? 2)%Z; [destruct H|].
  destruct (to_move_white p && _); [destruct H|].
  destruct (negb (to_move_white p) && _); [destruct H|].
  apply in_flat_map in H as (dc & Hdc & H). apply in_flat_map in H as (s & Hs & H).
  destruct (N.eqb_spec (N.land s (mask_of (snd dc))) 0) as [E|E]; [|destruct H].
  destruct H as [<-|[]]. cbn [mX mY mT mS]. repeat split. right. exists (snd dc).
  destruct (table_mask_test _ s (snd dc) Hs) as [L1 L2]. apply L2 in E.
  split; [|lia]. now rewrite <- surjective_pairing.
Qed.

Lemma cell_NoDup p x y : NoDup (map key (cell p x y)).
Proof.
  unfold cell.
  destruct (nthN (Height p) _ =? 0).
  { destruct (2 <=? move p)%Z; [destruct (if to_move_white p then _ else _)|]; cbn [map key mX mY mT mS N.leb N.compare Pos.compare Pos.compare_cont];
      repeat constructor; cbn [In]; intros H; repeat (destruct H as [H|H]; try discriminate H); exact H. }
  destruct (move p <? 2)%Z; [constructor|].
  destruct (to_move_white p && _); [constructor|].
  destruct (negb (to_move_white p) && _); [constructor|].
  apply (nodup_flat_map_tag key (fun k => snd (fst k)) fst).
  - cbn [map fst]. repeat constructor; cbn [In]; intros H; repeat (destruct H as [H|H]; try discriminate H); exact H.
  - intros dc g _ Hg. apply in_flat_map in Hg as (s & _ & Hg).
    destruct (N.land s _ =? 0); [|destruct Hg]. destruct Hg as [<-|[]]. reflexivity.
  - intros dc Hdc.
    apply (nodup_flat_map_tag key (fun k => snd k) (fun s => s)).
    + rewrite map_id. apply table_NoDup.
    + intros s g _ Hg. destruct (N.land s _ =? 0); [|destruct Hg]. destruct Hg as [<-|[]].
      cbn [In] in Hdc. destruct Hdc as [<-|[<-|[<-|[<-|[]]]]]; reflexivity.
    + intros s _. destruct (N.land s _ =? 0); cbn [map]; repeat constructor. intros [].
Qed.

(* ---- allmoves_nodup: no move is listed twice, up to Move.Equal; for EVERY position value ---- *)
Theorem allmoves_nodup_key p : NoDup (map key (all_moves p)).
Proof.
  rewrite all_moves_cells.
  apply (nodup_flat_map_tag key (fun k => fst (fst (fst k))) Z.of_nat).
  - apply NoDup_map_of_nat. intros a b. lia.
  - intros x g _ Hg. apply in_flat_map in Hg as (y & _ & Hg). apply in_cell in Hg as (E & _). exact E.
  - intros x _. apply (nodup_flat_map_tag key (fun k => snd (fst (fst k))) Z.of_nat).
    + apply NoDup_map_of_nat. intros a b. lia.
    + intros y g _ Hg. apply in_cell in Hg as (_ & E & _). exact E.
    + intros y _. apply cell_NoDup.
Qed.

Theorem allmoves_nodup p : NoDupA meq (all_moves p).
Proof. apply NoDupA_of_key, allmoves_nodup_key. Qed.
Print Assumptions allmoves_nodup.

(* consequence: also no two structurally equal entries *)
Corollary allmoves_NoDup p : NoDup (all_moves p).
Proof. exact (NoDup_map_inv key _ (allmoves_nodup_key p)). Qed.

(* ---- allmoves_on_board ---- *)
Definition onb (p : position) (xy : Z * Z) : Prop :=
  (0 <= fst xy < Z.of_N (size p) /\ 0 <= snd xy < Z.of_N (size p))%Z.

(* Move.Dest() in unbounded integers: origin moved by Slides.Len() squares in the direction of the type *)
Definition slide_len (s : N) : Z := Z.of_nat (length (nibbles 8 s)).
Definition dest_z (g : rmove) : Z * Z :=
  match mT g with
  | 5 => (mX g - slide_len (mS g), mY g)%Z
  | 6 => (mX g + slide_len (mS g), mY g)%Z
  | 7 => (mX g, mY g + slide_len (mS g))%Z
  | 8 => (mX g, mY g - slide_len (mS g))%Z
  | _ => (mX g, mY g)
  end.

Theorem allmoves_on_board p g : In g (all_moves p) ->
  2 <= mT g <= 8 /\ onb p (mX g, mY g) /\ onb p (dest_z g) /\ (5 <= mT g -> (1 <= slide_len (mS g))%Z).
Proof.
  intros H. apply in_all_moves in H as (x & y & Hx & Hy & H). apply in_cell in H as (EX & EY & H).
  unfold onb, dest_z, slide_len. cbn [fst snd]. rewrite EX, EY.
  destruct H as [(Ht & Hs)|(dc & Hdc & Hl)].
  - assert (E : mT g = 2 \/ mT g = 3 \/ mT g = 4) by lia.
    destruct E as [E|[E|E]]; rewrite E; cbn [fst snd]; lia.
  - cbn [In] in Hdc. destruct Hdc as [E|[E|[E|[E|[]]]]]; injection E as E1 E2; rewrite <- E1; cbn [fst snd]; lia.
Qed.
Print Assumptions allmoves_on_board.
