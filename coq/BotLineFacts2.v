(* BotLineFacts2.v: handleMove's classification of raw server lines (BotLine.classify).
   - the lines a protocol-conforming server sends for the bot's game are classified as the intended event, with the
     move Playtak.format_server printed (C11's server round trip), never LBad;
   - lines of other games and Shout / ShoutRoom lines are LOther WHATEVER their text; "Tell <...": likewise;
   - exactly which raw lines make the loop panic (LBad);
   - the chat callbacks made;
   - C07's bot_tracks_server lifted to raw lines. *)
From Coq Require Import NArith ZArith Bool Ascii Lia.
From Coq Require Import String.
From Coq Require Import List.
Local Close Scope string_scope.
Require Import PtnMove Playtak PtnMoveFacts Bot BotFacts BotLine BotLineFacts.
Import ListNotations.
Local Open Scope N_scope.

(* ---------- byte-string equality ---------- *)
Lemma bytes_eqb_eq : forall a b, bytes_eqb a b = true -> a = b.
Proof.
  induction a as [|x a IH]; destruct b as [|y b]; cbn [bytes_eqb]; intros H; try discriminate; [reflexivity|].
  apply andb_prop in H as [H1 H2]. apply N.eqb_eq in H1. subst. f_equal. now apply IH.
Qed.
Lemma bytes_eqb_refl : forall a, bytes_eqb a a = true.
Proof. induction a as [|x a IH]; cbn [bytes_eqb]; [reflexivity|]. now rewrite N.eqb_refl, IH. Qed.
Lemma bytes_eqb_neq a b : a <> b -> bytes_eqb a b = false.
Proof. intros H. destruct (bytes_eqb a b) eqn:E; [|reflexivity]. apply bytes_eqb_eq in E. contradiction. Qed.

(* ---------- strings.Split / strings.Join ---------- *)
Lemma split_on_nonempty sep : forall s cur, split_on sep s cur <> [].
Proof. induction s as [|c s IH]; intros cur; cbn [split_on]; [discriminate|]. destruct (c =? sep); [discriminate | apply IH]. Qed.

Lemma split_on_word sep : forall a cur, ~ In sep a -> split_on sep a cur = [rev cur ++ a].
Proof.
  induction a as [|c a IH]; intros cur H; cbn [split_on]; [now rewrite app_nil_r|].
  destruct (c =? sep) eqn:E; [apply N.eqb_eq in E; subst; exfalso; apply H; now left|].
  rewrite IH by (intros X; apply H; now right). cbn [rev]. now rewrite <- app_assoc.
Qed.
Lemma split_on_app sep : forall a r cur, ~ In sep a ->
  split_on sep (a ++ sep :: r) cur = (rev cur ++ a) :: split_on sep r [].
Proof.
  induction a as [|c a IH]; intros r cur H; cbn [split_on app].
  - now rewrite N.eqb_refl, app_nil_r.
  - destruct (c =? sep) eqn:E; [apply N.eqb_eq in E; subst; exfalso; apply H; now left|].
    rewrite IH by (intros X; apply H; now right). cbn [rev]. now rewrite <- app_assoc.
Qed.
Lemma words_word a : ~ In 32 a -> words a = [a].
Proof. intros H. unfold words. change (B " "%char) with 32. now rewrite split_on_word. Qed.
Lemma words_app a r : ~ In 32 a -> words (a ++ 32 :: r) = a :: words r.
Proof. intros H. unfold words. change (B " "%char) with 32. now rewrite split_on_app. Qed.
Lemma words_nonempty s : words s <> [].
Proof. apply split_on_nonempty. Qed.

Lemma join_split : forall s cur, join_sp (split_on 32 s cur) = rev cur ++ s.
Proof.
  induction s as [|c s IH]; intros cur; cbn [split_on]; [cbn; now rewrite app_nil_r|].
  destruct (c =? 32) eqn:E.
  - apply N.eqb_eq in E. subst c. specialize (IH []). destruct (split_on 32 s []) as [|w ws] eqn:S.
    + exfalso. now apply (split_on_nonempty 32 s []).
    + change (join_sp (rev cur :: w :: ws)) with (rev cur ++ 32 :: join_sp (w :: ws)). now rewrite IH.
  - rewrite IH. cbn [rev]. now rewrite <- app_assoc.
Qed.
Lemma join_words s : join_sp (words s) = s.
Proof. unfold words. change (B " "%char) with 32. apply join_split. Qed.

(* the first word of a line: everything before the first blank *)
Definition not_blank (c : N) : bool := negb (c =? 32).
Definition first_word (l : list N) : list N := fst (span not_blank l).
Lemma not_blanks a : forallb not_blank a = true -> ~ In 32 a.
Proof. intros H X. rewrite forallb_forall in H. specialize (H 32 X). discriminate. Qed.
Lemma not_blanks_rev a : ~ In 32 a -> forallb not_blank a = true.
Proof. intros H. apply forallb_forall. intros c Hc. apply negb_true_iff, N.eqb_neq. intros ->. contradiction. Qed.
Lemma words_first l : exists rest, words l = first_word l :: rest.
Proof.
  unfold first_word. destruct (span not_blank l) as [a b] eqn:S. apply span_spec in S as (-> & Ha & Hb).
  cbn [fst]. apply not_blanks in Ha. destruct b as [|c b].
  - rewrite app_nil_r. exists []. now apply words_word.
  - cbn [stops] in Hb. apply negb_false_iff, N.eqb_eq in Hb. subst c. exists (words b). now apply words_app.
Qed.
Definition tail_ok (t : list N) : Prop := t = [] \/ exists x, t = 32 :: x.
Lemma first_word_app a t : ~ In 32 a -> tail_ok t -> first_word (a ++ t) = a.
Proof.
  intros Ha Ht. unfold first_word. rewrite (span_app not_blank a t); [reflexivity | now apply not_blanks_rev|].
  destruct Ht as [->|[x ->]]; reflexivity.
Qed.
Lemma words_head a t : ~ In 32 a -> tail_ok t -> exists args, words (a ++ t) = a :: args.
Proof.
  intros Ha [->|[x ->]]; [rewrite app_nil_r; exists []; now apply words_word | exists (words x); now apply words_app].
Qed.

(* ---------- lines of the bot's own game ---------- *)
Definition game_res (rest : list (list N)) : lres :=
  let '(e, t) := second_switch rest in {| l_ev := e; l_chat := ChatNone; l_times := t |}.

Lemma classify_game gs s : ~ In 32 gs -> classify gs (gs ++ 32 :: s) = game_res (words s).
Proof. intros H. unfold classify. rewrite (words_app gs s H), bytes_eqb_refl. reflexivity. Qed.
Lemma classify_bare gs : ~ In 32 gs -> l_ev (classify gs gs) = LBad _.
Proof. intros H. unfold classify. rewrite (words_word gs H), bytes_eqb_refl. reflexivity. Qed.

Lemma parse_server_head s m : parse_server s = Ok m ->
  exists w0 r, words s = w0 :: r /\ bytes_eqb w0 (bs "P") || bytes_eqb w0 (bs "M") = true.
Proof.
  unfold parse_server. destruct (words s) as [|w0 r]; [discriminate|].
  change (bs "P") with [B "P"%char]. change (bs "M") with [B "M"%char].
  destruct (bytes_eqb w0 [B "P"%char]) eqn:EP; [intros _; exists w0, r; split; [reflexivity | now rewrite EP]|].
  destruct (bytes_eqb w0 [B "M"%char]) eqn:EM; [intros _; exists w0, r; split; [reflexivity | now rewrite EP, EM] | discriminate].
Qed.

(* every text ParseServer accepts, behind the game string, is that move *)
Lemma second_switch_move s m : parse_server s = Ok m -> second_switch (words s) = (LMove _ m, None).
Proof.
  intros H. destruct (parse_server_head s m H) as (w0 & r & W & T). unfold second_switch. rewrite W, T, <- W, join_words, H.
  reflexivity.
Qed.
(* ... and a P / M text it rejects is a panic *)
Lemma second_switch_bad_move s w0 r : words s = w0 :: r -> bytes_eqb w0 (bs "P") || bytes_eqb w0 (bs "M") = true ->
  parse_server s = Err -> second_switch (words s) = (LBad _, None).
Proof. intros W T H. unfold second_switch. rewrite W, T, <- W, join_words, H. reflexivity. Qed.

Lemma nb_time : ~ In 32 (bs "Time"). Proof. cbn. intuition discriminate. Qed.
Lemma nb_over : ~ In 32 (bs "Over"). Proof. cbn. intuition discriminate. Qed.
Lemma nb_abandoned : ~ In 32 (bs "Abandoned."). Proof. cbn. intuition discriminate. Qed.
Lemma nb_requndo : ~ In 32 (bs "RequestUndo"). Proof. cbn. intuition discriminate. Qed.
Lemma nb_undo : ~ In 32 (bs "Undo"). Proof. cbn. intuition discriminate. Qed.

Lemma second_switch_time w b t : ~ In 32 w -> ~ In 32 b -> tail_ok t ->
  second_switch (words (bs "Time" ++ 32 :: w ++ 32 :: b ++ t)) = (LTime _, Some (seconds (atoi_value w), seconds (atoi_value b))).
Proof.
  intros Hw Hb Ht. rewrite (words_app _ _ nb_time), (words_app _ _ Hw).
  destruct (words_head b t Hb Ht) as (args & ->). reflexivity.
Qed.
Lemma second_switch_over r : second_switch (words (bs "Over" ++ 32 :: r)) = (LOver _, None).
Proof.
  rewrite (words_app _ _ nb_over). destruct (words r) as [|x xs] eqn:W; [now apply words_nonempty in W|]. reflexivity.
Qed.
Lemma second_switch_abandoned t : tail_ok t -> second_switch (words (bs "Abandoned." ++ t)) = (LAbandoned _, None).
Proof. intros Ht. destruct (words_head _ t nb_abandoned Ht) as (args & ->). reflexivity. Qed.
Lemma second_switch_requndo t : tail_ok t -> second_switch (words (bs "RequestUndo" ++ t)) = (LReqUndo _, None).
Proof. intros Ht. destruct (words_head _ t nb_requndo Ht) as (args & ->). reflexivity. Qed.
Lemma second_switch_undo t : tail_ok t -> second_switch (words (bs "Undo" ++ t)) = (LUndo _, None).
Proof. intros Ht. destruct (words_head _ t nb_undo Ht) as (args & ->). reflexivity. Qed.

(* ---------- everything else is ignored ---------- *)
Lemma classify_other gs l : first_word l <> gs -> first_word l <> bs "Tell" ->
  l_ev (classify gs l) = LOther _ /\ l_times (classify gs l) = None.
Proof.
  intros H1 H2. destruct (words_first l) as (rest & W). unfold classify. rewrite W.
  rewrite (bytes_eqb_neq _ _ H1), (bytes_eqb_neq _ _ H2).
  destruct (bytes_eqb (first_word l) (bs "Shout")).
  - destruct (parse_shout l). now split.
  - destruct (bytes_eqb (first_word l) (bs "ShoutRoom")); [destruct (parse_shout_room l) as [[? ?] ?]|]; now split.
Qed.

(* a second word that starts with '<' is no protocol word *)
Lemma second_switch_lt a args : second_switch ((60 :: a) :: args) = (LOther _, None).
Proof. reflexivity. Qed.

Lemma first_word_cons c x : c <> 32 -> first_word (c :: x) = c :: first_word x.
Proof.
  intros H. unfold first_word. cbn [span]. unfold not_blank at 1. apply N.eqb_neq in H. rewrite H. cbn [negb].
  destruct (span not_blank x); reflexivity.
Qed.

Lemma classify_tell_lt gs x :
  l_ev (classify gs (bs "Tell <" ++ x)) = LOther _ /\ l_times (classify gs (bs "Tell <" ++ x)) = None.
Proof.
  assert (W : exists a args, words (bs "Tell <" ++ x) = bs "Tell" :: (60 :: a) :: args).
  { change (bs "Tell <" ++ x) with (bs "Tell" ++ 32 :: 60 :: x). rewrite words_app by (cbn; intuition discriminate).
    destruct (words_first (60 :: x)) as (args & ->). rewrite first_word_cons by discriminate.
    now exists (first_word x), args. }
  destruct W as (a & args & W). unfold classify. rewrite W.
  destruct (bytes_eqb (bs "Tell") gs).
  - rewrite second_switch_lt. now split.
  - change (bytes_eqb (bs "Tell") (bs "Tell")) with true. cbv iota.
    destruct (parse_tell (bs "Tell <" ++ x)). rewrite second_switch_lt. now split.
Qed.

Lemma ps_total s : parse_server s <> Panic.
Proof.
  unfold parse_server.
  repeat match goal with
         | |- context [match ?x with _ => _ end] => destruct x eqn:?
         | |- context [if ?b then _ else _] => destruct b eqn:?
         end; discriminate.
Qed.

(* ---------- exactly which lines panic ---------- *)
Definition panics (gs l : list N) : Prop :=
  exists b0 rest, words l = b0 :: rest /\ (b0 = gs \/ b0 = bs "Tell") /\
    (rest = [] \/
     (exists b1 args, rest = b1 :: args /\ (b1 = bs "P" \/ b1 = bs "M") /\ parse_server (join_sp rest) = Err) \/
     rest = [bs "Over"] \/ rest = [bs "Time"] \/ exists w, rest = [bs "Time"; w]).

Lemma second_switch_bad rest :
  fst (second_switch rest) = LBad _ <->
  (rest = [] \/
   (exists b1 args, rest = b1 :: args /\ (b1 = bs "P" \/ b1 = bs "M") /\ parse_server (join_sp rest) = Err) \/
   rest = [bs "Over"] \/ rest = [bs "Time"] \/ exists w, rest = [bs "Time"; w]).
Proof.
  split.
  - unfold second_switch. destruct rest as [|b1 args]; [now left|].
    destruct (bytes_eqb b1 (bs "P")) eqn:EP; [|destruct (bytes_eqb b1 (bs "M")) eqn:EM]; cbn [orb].
    + apply bytes_eqb_eq in EP. destruct (parse_server (join_sp (b1 :: args))) as [m| |] eqn:PS; cbn [fst]; try discriminate.
      * intros _. right. left. exists b1, args. repeat split; auto.
      * exfalso. revert PS. apply ps_total.
    + apply bytes_eqb_eq in EM. destruct (parse_server (join_sp (b1 :: args))) as [m| |] eqn:PS; cbn [fst]; try discriminate.
      * intros _. right. left. exists b1, args. repeat split; auto.
      * exfalso. revert PS. apply ps_total.
    + destruct (bytes_eqb b1 (bs "Abandoned.")); [discriminate|].
      destruct (bytes_eqb b1 (bs "Over")) eqn:EO.
      { apply bytes_eqb_eq in EO. subst. destruct args; [intros _; right; right; now left | discriminate]. }
      destruct (bytes_eqb b1 (bs "Time")) eqn:ET.
      { apply bytes_eqb_eq in ET. subst. destruct args as [|w [|b ?]]; try discriminate; intros _; right; right; right;
          [now left | right; now exists w]. }
      destruct (bytes_eqb b1 (bs "RequestUndo")); [discriminate|].
      destruct (bytes_eqb b1 (bs "Undo")); discriminate.
  - intros [->|[(b1 & args & -> & Hb & PS)|[->|[->|[w ->]]]]]; try reflexivity.
    unfold second_switch. destruct Hb as [->| ->].
    + change (bytes_eqb (bs "P") (bs "P")) with true. cbn [orb]. now rewrite PS.
    + change (bytes_eqb (bs "M") (bs "P") || bytes_eqb (bs "M") (bs "M")) with true. cbv iota. now rewrite PS.
Qed.

Theorem classify_bad_iff gs l : l_ev (classify gs l) = LBad _ <-> panics gs l.
Proof.
  unfold panics. split.
  - unfold classify. destruct (words l) as [|b0 rest] eqn:W; [discriminate|].
    destruct (bytes_eqb b0 gs) eqn:E1.
    + apply bytes_eqb_eq in E1. destruct (second_switch rest) as [e t] eqn:SS. cbn [l_ev]. intros ->.
      exists b0, rest. split; [reflexivity|]. split; [now left|]. apply second_switch_bad. now rewrite SS.
    + destruct (bytes_eqb b0 (bs "Tell")) eqn:E2.
      * apply bytes_eqb_eq in E2. destruct (parse_tell l) as [w0 m0]. destruct (second_switch rest) as [e t] eqn:SS.
        cbn [l_ev]. intros ->. exists b0, rest. split; [reflexivity|]. split; [now right|].
        apply second_switch_bad. now rewrite SS.
      * destruct (bytes_eqb b0 (bs "Shout")); [destruct (parse_shout l); discriminate|].
        destruct (bytes_eqb b0 (bs "ShoutRoom")); [destruct (parse_shout_room l) as [[? ?] ?]; discriminate | discriminate].
  - intros (b0 & rest & W & Hb0 & Hrest). apply second_switch_bad in Hrest. unfold classify. rewrite W.
    destruct Hb0 as [-> | ->].
    + rewrite bytes_eqb_refl. destruct (second_switch rest) as [e t]. exact Hrest.
    + destruct (bytes_eqb (bs "Tell") gs).
      * destruct (second_switch rest) as [e t]. exact Hrest.
      * change (bytes_eqb (bs "Tell") (bs "Tell")) with true. cbv iota.
        destruct (parse_tell l). destruct (second_switch rest) as [e t]. exact Hrest.
Qed.

(* ---------- what a protocol-conforming server says about game gs ---------- *)
Inductive server_says (gs : list N) : list N -> line move -> Prop :=
| SMove m : legal_shape m -> end_on_grid m = true ->
    server_says gs (gs ++ 32 :: format_server m) (LMove _ m)                     (* "Game#g P A1 C", "Game#g M A1 A3 1 2" *)
| STime w b t : ~ In 32 w -> ~ In 32 b -> tail_ok t ->
    server_says gs (gs ++ 32 :: bs "Time" ++ 32 :: w ++ 32 :: b ++ t) (LTime _)  (* "Game#g Time 593 600" *)
| SOver r : server_says gs (gs ++ 32 :: bs "Over" ++ 32 :: r) (LOver _)         (* "Game#g Over R-0" *)
| SAbandoned t : tail_ok t ->
    server_says gs (gs ++ 32 :: bs "Abandoned." ++ t) (LAbandoned _)             (* "Game#g Abandoned. x quit" *)
| SReqUndo t : tail_ok t -> server_says gs (gs ++ 32 :: bs "RequestUndo" ++ t) (LReqUndo _)
| SUndo t : tail_ok t -> server_says gs (gs ++ 32 :: bs "Undo" ++ t) (LUndo _)
| SOther l : first_word l <> gs -> first_word l <> bs "Tell" ->
    server_says gs l (LOther _)               (* other games, Shout / ShoutRoom with ANY text, OK, Online 12, "", ... *)
| STell x : server_says gs (bs "Tell <" ++ x) (LOther _).                       (* "Tell <who> text", ANY text *)

Theorem classify_server_lines gs l e : ~ In 32 gs -> server_says gs l e ->
  l_ev (classify gs l) = e /\ e <> LBad _.
Proof.
  intros Hg H. destruct H.
  - split; [|discriminate]. rewrite classify_game by assumption. unfold game_res.
    rewrite (second_switch_move _ m (server_roundtrip m H H0)). reflexivity.
  - split; [|discriminate]. rewrite classify_game by assumption. unfold game_res.
    rewrite (second_switch_time w b t H H0 H1). reflexivity.
  - split; [|discriminate]. rewrite classify_game by assumption. unfold game_res. rewrite second_switch_over. reflexivity.
  - split; [|discriminate]. rewrite classify_game by assumption. unfold game_res. rewrite second_switch_abandoned by assumption. reflexivity.
  - split; [|discriminate]. rewrite classify_game by assumption. unfold game_res. rewrite second_switch_requndo by assumption. reflexivity.
  - split; [|discriminate]. rewrite classify_game by assumption. unfold game_res. rewrite second_switch_undo by assumption. reflexivity.
  - split; [|discriminate]. now apply classify_other.
  - split; [|discriminate]. apply classify_tell_lt.
Qed.

(* the clocks of a Time line *)
Lemma classify_time gs w b t : ~ In 32 gs -> ~ In 32 w -> ~ In 32 b -> tail_ok t ->
  l_times (classify gs (gs ++ 32 :: bs "Time" ++ 32 :: w ++ 32 :: b ++ t)) = Some (seconds (atoi_value w), seconds (atoi_value b)).
Proof.
  intros Hg Hw Hb Ht. rewrite classify_game by assumption. unfold game_res. rewrite (second_switch_time w b t Hw Hb Ht). reflexivity.
Qed.

(* ---------- C07's theorem over raw lines ---------- *)
Inductive conforms (gs : list N) : raw_event -> event move -> Prop :=
| CLine l e : server_says gs l e -> conforms gs (RLine l) (Line _ e)
| CClosed : conforms gs RClosed (Closed _)
| CAnswer m : conforms gs (RAnswer m) (Answer _ m)
| CLate m : conforms gs (RLate m) (Late _ m)
| CGrace : conforms gs RGrace (Grace _).

Lemma conforms_ev_of gs : ~ In 32 gs -> forall revs evs, Forall2 (conforms gs) revs evs -> map (ev_of gs) revs = evs.
Proof.
  intros Hg. induction 1 as [|r e revs evs H _ IH]; [reflexivity|]. cbn [map]. rewrite IH. f_equal.
  destruct H; try reflexivity. cbn [ev_of]. f_equal. now apply classify_server_lines.
Qed.

Section Raw.
Variable pos : Type.
Variable apply : pos -> move -> option pos.
Variable bots_turn : pos -> bool.
Variable over : pos -> bool.
Variable start : pos.
Variable accept_undo : bool.
Variable gs : list N.
Hypothesis gs_word : ~ In 32 gs.

(* revs: what the loop really receives (raw byte lines, thinker returns, timer expiries); evs: the abstract events a
   conforming server means by them.  If the server keeps its contract on evs, the loop run on the RAW events - every line
   classified by handleMove's own switches - tracks the server. *)
Theorem bot_tracks_server_raw : forall revs evs,
  Forall2 (conforms gs) revs evs ->
  env_ok pos move apply bots_turn over start true accept_undo evs ->
  let s := run pos move apply bots_turn over start true accept_undo (map (ev_of gs) revs) in
  map (ev_of gs) revs = evs /\
  exists v, run2 pos move apply bots_turn over start true accept_undo (map (ev_of gs) revs) = Some (s, v) /\
    hist _ _ s = shist _ _ v /\ Bot.moves _ _ s = smoves _ _ v /\
    Forall (sent_ok pos move apply bots_turn) (out _ _ s) /\ noks _ _ v = 0%nat /\
    (ended _ _ s = true <-> existsb (is_end move) evs = true) /\
    crashed _ _ s = false.
Proof.
  intros revs evs HF Hok. rewrite (conforms_ev_of gs gs_word revs evs HF). split; [reflexivity|].
  exact (bot_tracks_server pos move apply bots_turn over start accept_undo evs Hok).
Qed.
End Raw.

(* ---------- strconv.Atoi on the clock fields a server writes: plain decimal numbers ---------- *)
Definition is_digit (d : N) : bool := in_range (B "0"%char) (B "9"%char) d.
Definition dec_val (s : list N) (acc : Z) : Z := fold_left (fun a d => (a * 10 + Z.of_N (d - 48))%Z) s acc.

Lemma dec_val_ge : forall s acc, (0 <= acc)%Z -> (acc <= dec_val s acc)%Z.
Proof.
  induction s as [|d s IH]; intros acc H; cbn [dec_val fold_left]; [lia|].
  specialize (IH (acc * 10 + Z.of_N (d - 48))%Z ltac:(lia)). unfold dec_val in IH. lia.
Qed.
Lemma uint_scan_digits : forall s acc, forallb is_digit s = true -> (0 <= acc)%Z -> (dec_val s acc < 2 ^ 64)%Z ->
  uint_scan s acc = UVal (dec_val s acc).
Proof.
  induction s as [|d s IH]; intros acc Hd Ha Hv; [reflexivity|].
  cbn [forallb] in Hd. apply andb_prop in Hd as [D1 D2]. cbn [uint_scan]. unfold is_digit in D1. rewrite D1.
  change (B "0"%char) with 48. cbn [dec_val fold_left] in Hv |- *.
  set (a := (acc * 10 + Z.of_N (d - 48))%Z) in *.
  assert (0 <= a)%Z by (subst a; lia).
  pose proof (dec_val_ge s a H) as G. unfold dec_val in G.
  destruct (2 ^ 64 <=? a)%Z eqn:E; [apply Z.leb_le in E; unfold dec_val in Hv; lia|].
  now apply IH.
Qed.
Theorem atoi_value_decimal s : s <> [] -> forallb is_digit s = true -> (dec_val s 0 < 2 ^ 63)%Z ->
  atoi_value s = dec_val s 0.
Proof.
  intros Hs Hd Hv. destruct s as [|c0 r]; [congruence|]. unfold atoi_value.
  assert (D0 : is_digit c0 = true) by (cbn [forallb] in Hd; now apply andb_prop in Hd as [? _]).
  assert (c0 =? B "-"%char = false /\ c0 =? B "+"%char = false) as [E1 E2].
  { unfold is_digit, in_range in D0. apply andb_prop in D0 as [L U]. apply N.leb_le in L, U.
    change (B "0"%char) with 48 in L. change (B "9"%char) with 57 in U. change (B "-"%char) with 45. change (B "+"%char) with 43.
    split; apply N.eqb_neq; lia. }
  rewrite E1, E2. cbn [orb is_nil].
  assert (0 <= dec_val (c0 :: r) 0)%Z by (apply dec_val_ge; lia).
  rewrite (uint_scan_digits (c0 :: r) 0%Z Hd ltac:(lia) ltac:(lia)).
  destruct (2 ^ 63 <=? dec_val (c0 :: r) 0)%Z eqn:E; [apply Z.leb_le in E; lia | reflexivity].
Qed.

(* ---------- examples ---------- *)
Example atoi_examples :
  atoi_value (bs "593") = 593%Z /\ atoi_value (bs "-5") = (-5)%Z /\ atoi_value (bs "+7") = 7%Z /\ atoi_value (bs "12abc") = 0%Z /\
  atoi_value (bs "") = 0%Z /\ atoi_value (bs "99999999999999999999") = (2 ^ 63 - 1)%Z /\
  atoi_value (bs "-99999999999999999999") = (- 2 ^ 63)%Z /\ atoi_value (bs "99999999999999999999x") = (2 ^ 63 - 1)%Z /\
  seconds 9223372037 = (-9223372036709551616)%Z /\ seconds 18446744074 = 290448384%Z.
Proof. repeat split; vm_compute; reflexivity. Qed.

Definition g7 : list N := bs "Game#7".
Lemma g7_word : ~ In 32 g7. Proof. cbn. intuition discriminate. Qed.

(* the raw lines on which the real loop panics, and protocol words behind "Tell" that it executes *)
Example panic_examples :
  panics g7 (bs "Game#7") /\ panics g7 (bs "Game#7 Over") /\ panics g7 (bs "Game#7 Time 5") /\ panics g7 (bs "Tell") /\
  panics g7 (bs "Game#7 P Z9") /\ panics g7 (bs "Game#7 P A1 ") /\ panics g7 (bs "Tell P A1 extra") /\
  ~ panics g7 (bs "Game#7  P Z9") /\ ~ panics g7 (bs "Game#8 Over").
Proof.
  repeat split; try (apply classify_bad_iff; vm_compute; reflexivity);
    (intros H; apply classify_bad_iff in H; vm_compute in H; discriminate).
Qed.
Example tell_falls_through :
  l_ev (classify g7 (bs "Tell Undo")) = LUndo _ /\ l_ev (classify g7 (bs "Tell Over x")) = LOver _ /\
  l_ev (classify g7 (bs "Tell P A1")) = LMove _ {| mX := 0; mY := 0; mT := PlaceFlat; mS := 0 |} /\
  l_times (classify g7 (bs "Tell Time 1 2")) = Some (1000000000, 2000000000)%Z.
Proof. repeat split; vm_compute; reflexivity. Qed.

(* non-vacuity of bot_tracks_server_raw: a toy game (position = ply counter, every move legal, bot on even plies) driven
   by raw lines; the chat lines carry protocol words and the game string *)
Definition mA1 : move := {| mX := 0; mY := 0; mT := PlaceFlat; mS := 0 |}.
Definition mB2c : move := {| mX := 1; mY := 1; mT := PlaceCapstone; mS := 0 |}.
Definition mSl : move := {| mX := 0; mY := 0; mT := SlideUp; mS := mk_slides [1; 2] |}.
Definition raw_apply (p : nat) (m : move) : option nat := Some (S p).
Definition raw_script : list raw_event :=
  [RAnswer mA1; RLine (bs "Shout <x> Game#7 Undo"); RLine (bs "Game#7 P B2 C"); RLine (bs "ShoutRoom Over <x> gg");
   RLine (bs "Game#7 Time 593 600"); RLine (bs "Tell <Undo> Game#7 Over 1-0"); RAnswer mSl; RLine (bs "Game#71 Undo");
   RLine (bs "Game#7 M A1 A3 1 2"); RGrace; RLine (bs "Game#7 RequestUndo"); RLine (bs "Game#7 Undo");
   RLine (bs "Game#7 Abandoned. x quit")].
Definition raw_meaning : list (event move) :=
  [Answer _ mA1; Line _ (LOther _); Line _ (LMove _ mB2c); Line _ (LOther _);
   Line _ (LTime _); Line _ (LOther _); Answer _ mSl; Line _ (LOther _);
   Line _ (LMove _ mSl); Grace _; Line _ (LReqUndo _); Line _ (LUndo _);
   Line _ (LAbandoned _)].

Lemma legal_mB2c : legal_shape mB2c /\ end_on_grid mB2c = true.
Proof.
  split; [|reflexivity]. unfold legal_shape, mB2c; cbv [mX mY mT mS]. repeat split; lia.
Qed.
Lemma legal_mSl : legal_shape mSl /\ end_on_grid mSl = true.
Proof.
  split; [|reflexivity]. unfold legal_shape, mSl; cbv [mX mY mT mS]. repeat split; try lia.
  right. split; [auto|]. exists [1; 2]. split; [|reflexivity].
  split; [discriminate|split; [repeat constructor; lia|cbn; lia]].
Qed.

Example raw_script_conforms : Forall2 (conforms g7) raw_script raw_meaning.
Proof.
  unfold raw_script, raw_meaning.
  repeat (apply Forall2_cons; [|]); try apply Forall2_nil; try (constructor; fail).
  - apply CLine. apply SOther; vm_compute; discriminate.
  - apply CLine. exact (SMove g7 mB2c (proj1 legal_mB2c) (proj2 legal_mB2c)).
  - apply CLine. apply SOther; vm_compute; discriminate.
  - apply CLine. apply (STime g7 (bs "593") (bs "600") []); [cbn; intuition discriminate | cbn; intuition discriminate | now left].
  - apply CLine. apply (STell g7 (bs "Undo> Game#7 Over 1-0")).
  - apply CLine. apply SOther; vm_compute; discriminate.
  - apply CLine. exact (SMove g7 mSl (proj1 legal_mSl) (proj2 legal_mSl)).
  - apply CLine. apply (SReqUndo g7 []). now left.
  - apply CLine. apply (SUndo g7 []). now left.
  - apply CLine. apply (SAbandoned g7 (bs " x quit")). right. now eexists.
Qed.
Example raw_script_env_ok : env_ok nat move raw_apply Nat.even (fun _ => false) 0%nat true true raw_meaning.
Proof. unfold env_ok. vm_compute. discriminate. Qed.
Example raw_script_result :
  let s := run nat move raw_apply Nat.even (fun _ => false) 0%nat true true (map (ev_of g7) raw_script) in
  (rev (Bot.moves _ _ s), length (out _ _ s), undo_acks _ _ s, ended _ _ s, crashed _ _ s) = ([mA1; mB2c; mSl], 2%nat, 1%nat, true, false).
Proof. vm_compute. reflexivity. Qed.

(* for statements in files that do not open string_scope *)
Definition w_time : list N := bs "Time".
Definition w_tell : list N := bs "Tell".
Definition w_shout : list N := bs "Shout".
Definition w_shoutroom : list N := bs "ShoutRoom".
