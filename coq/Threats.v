(* AI/Threats.v: the body of CountThreats' closure countOne, named piece by piece (definitions only).
   Eval.count_one keeps these as local lets; ThreatsFacts.count_one_eq shows that it is exactly the sum below. *)
From Coq Require Import NArith ZArith List Bool Lia.
Require Import Board Move GameOver Eval.
Import ListNotations.
Open Scope N_scope.

Definition t_empty (c : consts) (p : position) : N := andnot (cMask c) (N.lor (White p) (Black p)).
Definition t_nocs (c : consts) (p : position) : N := andnot (cMask c) (N.lor (Standing p) (Caps p)).
Definition t_singles (gs : list N) (pieces : N) : N := fold_left (fun s g => andnot s g) gs pieces.
Definition junction (c : consts) (g other : N) : bool :=
    (negb (N.land g (cL c) =? 0) && negb (N.land other (cR c) =? 0)) ||
    (negb (N.land g (cR c) =? 0) && negb (N.land other (cL c) =? 0)) ||
    (negb (N.land g (cB c) =? 0) && negb (N.land other (cT c) =? 0)) ||
    (negb (N.land g (cT c) =? 0) && negb (N.land other (cB c) =? 0)).

(* pmap and tmap of the i-th group g *)
Definition tmaps (c : consts) (p : position) (gs : list N) (pieces : N) (i : nat) (g : N) : N * N :=
  let empty := t_empty c p in
  let nocs := t_nocs c p in
  let singles := t_singles gs pieces in
    if N.land g (cEdge c) =? 0 then (0, 0) else
    let slides := grow c nocs (andnot pieces g) in
    let pm := 0 in let tm := 0 in
    let '(pm, tm) := if negb (N.land g (cL c) =? 0)
                     then (N.lor pm (N.land (N.land (N.shiftr g 1) empty) (cR c)), N.lor tm (N.land (N.land (N.shiftr g 1) slides) (cR c))) else (pm, tm) in
    let '(pm, tm) := if negb (N.land g (cR c) =? 0)
                     then (N.lor pm (N.land (N.land (u64 (N.shiftl g 1)) empty) (cL c)), N.lor tm (N.land (N.land (u64 (N.shiftl g 1)) slides) (cL c))) else (pm, tm) in
    let '(pm, tm) := if negb (N.land g (cT c) =? 0)
                     then (N.lor pm (N.land (N.land (N.shiftr g (Size c)) empty) (cB c)), N.lor tm (N.land (N.land (N.shiftr g (Size c)) slides) (cB c))) else (pm, tm) in
    let '(pm, tm) := if negb (N.land g (cB c) =? 0)
                     then (N.lor pm (N.land (N.land (u64 (N.shiftl g (Size c))) empty) (cT c)), N.lor tm (N.land (N.land (u64 (N.shiftl g (Size c))) slides) (cT c))) else (pm, tm) in
    let others := firstn i gs ++ lowest_bits 65 singles in
    fold_left (fun (acc : N * N) other =>
        if junction c g other then
          let slides2 := grow c nocs (andnot pieces (N.lor g other)) in
          let isect := N.land (grow c (cMask c) g) (grow c (cMask c) other) in
          (N.lor (fst acc) (N.land isect empty), N.lor (snd acc) (N.land isect slides2))
        else acc) others (pm, tm).

Definition tcount (c : consts) (p : position) (gs : list N) (pieces : N) (i : nat) (g : N) : Z * Z :=
  let '(pm, tm) := tmaps c p gs pieces i g in (pc pm, pc tm).

Fixpoint tsum (one : nat -> N -> Z * Z) (i : nat) (l : list N) (acc : Z * Z) : Z * Z :=
  match l with [] => acc | g :: r => let '(a, b) := one i g in tsum one (S i) r (fst acc + a, snd acc + b)%Z end.
