(* CountThreats, part 5 (C19): the one-step-slide map tmap.  Every set bit of a group's tmap is a square i that is not a
   wall or capstone and has a neighbour j carrying a flat of the mover outside the group(s), such that every set of road
   squares that keeps the mover's road squares other than j and contains i has a spanning group. *)
From Coq Require Import NArith ZArith List Bool Lia ZifyN ZifyBool ZifyNat.
Require Import Board Flood Masks LowBit Conn Move GameOver Groups1 Groups2 Groups3 Groups4 Eval EvalFacts1 Threats ThreatsFacts2 ThreatsFacts3.
Import ListNotations.
Open Scope N_scope.

(* ---- removing a square that is not connected to a ---- *)
Section Avoid.
Variable s : N.
Hypothesis Hs : 3 <= s <= 8.
Let c := precompute s.
Variable B : N.
Hypothesis HB : forall i, N.testbit B i = true -> i < s * s.
Variable j : N.
Let B0 := N.ldiff B (bit1 j).

Lemma B0_bit x : N.testbit B0 x = N.testbit B x && negb (x =? j).
Proof. unfold B0. now rewrite N.ldiff_spec, testbit_bit1. Qed.
Lemma HB0 : forall x, N.testbit B0 x = true -> x < s * s.
Proof. intros x H. rewrite B0_bit in H. apply andb_prop in H as [H _]. now apply HB. Qed.

Lemma conn_avoid a b : conn s B a b -> ~ conn s B a j -> conn s B0 a b.
Proof.
  unfold conn. fold c. intro H. induction H as [x Hx Hw|y x Hr IH Hn Hw]; intro Hnj.
  - apply reach_seed; [exact Hx|]. rewrite B0_bit, Hw. rewrite testbit_bit1 in Hx. apply N.eqb_eq in Hx. subst x.
    destruct (N.eqb_spec a j) as [->|]; [|reflexivity]. exfalso. apply Hnj. apply reach_seed; [now rewrite testbit_bit1, N.eqb_refl|assumption].
  - eapply reach_step; [apply IH; exact Hnj|exact Hn|]. rewrite B0_bit, Hw.
    destruct (N.eqb_spec x j) as [->|]; [|reflexivity]. exfalso. apply Hnj. eapply reach_step; eauto.
Qed.
End Avoid.

(* ---- neighbourhood facts of the four edge patterns ---- *)
Section Nb.
Variable s : N.
Hypothesis Hs : 3 <= s <= 8.
Let c := precompute s.
Variable i : N.
Hypothesis Hi : i < s * s.

Lemma masks_at0 x : x < s * s ->
  N.testbit (cR c) x = (x mod s =? 0) /\ N.testbit (cL c) x = (x mod s =? s - 1) /\
  N.testbit (cB c) x = (x <? s) /\ N.testbit (cT c) x = (s * (s - 1) <=? x).
Proof.
  intro H. destruct (precompute_masks s x Hs ltac:(nia)) as (A & B1 & C & D & _). fold c in A, B1, C, D.
  rewrite A, B1, C, D. replace (x <? s * s) with true by lia. rewrite !andb_true_r. cbn [andb]. auto.
Qed.

Lemma nb_right_of : N.testbit (cR c) i = true -> nb c (i + 1) i.
Proof. intro H. destruct (masks_at0 i Hi) as (ER & EL & _). right. left. split; [reflexivity|]. rewrite EL. rewrite ER in H. lia. Qed.
Lemma nb_left_of : N.testbit (cL c) i = true -> 1 <= i -> nb c (i - 1) i.
Proof. intros H H1. destruct (masks_at0 i Hi) as (ER & EL & _). left. rewrite ER. rewrite EL in H. repeat split; try lia. nia. Qed.
Lemma nb_above : nb c (i + Size c) i.
Proof. right. right. left. reflexivity. Qed.
Lemma nb_below : Size c <= i -> nb c (i - Size c) i.
Proof. intro H. right. right. right. repeat split; try lia. nia. Qed.

End Nb.

(* ---- the patterns over an arbitrary base set ---- *)
Section Pattern.
Variable s : N.
Hypothesis Hs : 3 <= s <= 8.
Let c := precompute s.
Variable B0 : N.
Hypothesis HB0 : forall i, N.testbit B0 i = true -> i < s * s.
Variable i : N.
Hypothesis Hi : i < s * s.

Definition cset0 (o : N) : Prop := forall x y, N.testbit o x = true -> N.testbit o y = true -> conn s B0 x y.

(* every superset (inside the board) of B0 + {i} has a spanning group *)
Definition bridged : Prop :=
  forall B2, (forall x, N.testbit B2 x = true -> x < s * s) -> (forall x, N.testbit B0 x = true -> N.testbit B2 x = true) ->
  N.testbit B2 i = true -> exists gs, groups c B2 = Some gs /\ existsb (spans c) gs = true.

Lemma bridge_sup a b : touches s B0 i a -> touches s B0 i b -> opp s a b -> bridged.
Proof.
  intros Ha Hb Ho B2 HB2 Hsub Hi2.
  set (B1 := N.lor B0 (bit1 i)).
  assert (HB1 : forall x, N.testbit B1 x = true -> x < s * s) by (apply ThreatsFacts2.HB'; assumption).
  assert (Hc : conn s B1 a b).
  { eapply conn_trans; [apply (touches_conn s Hs B0 HB0 i Hi); exact Ha|].
    apply (conn_sym s Hs B1 HB1). apply (touches_conn s Hs B0 HB0 i Hi); exact Hb. }
  assert (Hsub1 : sub B1 B2).
  { intros x Hx. unfold B1 in Hx. rewrite N.lor_spec, testbit_bit1 in Hx. apply orb_prop in Hx as [Hx|Hx]; [now apply Hsub|].
    apply N.eqb_eq in Hx. now subst. }
  destruct (spans_iff s Hs B2 HB2) as (gs & Hg & Hiff). exists gs. split; [exact Hg|]. apply Hiff.
  exists a, b. split; [|exact Ho]. unfold conn in *. eapply reach_mono; eauto.
Qed.

Lemma touches0 g t k : cset0 g -> N.testbit g t = true -> N.testbit g k = true -> (nb c k i \/ nb c i k) -> touches s B0 i t.
Proof. intros Hc Ht Hk Hn. right. right. exists k. split; [apply Hc; assumption|exact Hn]. Qed.

Lemma pat_L g t : cset0 g -> N.testbit g t = true -> N.testbit (cL c) t = true -> N.testbit g (i + 1) = true ->
  N.testbit (cR c) i = true -> bridged.
Proof.
  intros Hc Ht HtL Hg HR. apply (bridge_sup t i).
  - eapply touches0; eauto. left. now apply (nb_right_of s Hs i Hi).
  - now left.
  - right. split; assumption.
Qed.
Lemma pat_R g t : cset0 g -> N.testbit g t = true -> N.testbit (cR c) t = true -> 1 <= i -> N.testbit g (i - 1) = true ->
  N.testbit (cL c) i = true -> bridged.
Proof.
  intros Hc Ht HtR H1 Hg HL. apply (bridge_sup i t).
  - now left.
  - eapply touches0; eauto. left. now apply (nb_left_of s Hs i Hi).
  - right. split; assumption.
Qed.
Lemma pat_T g t : cset0 g -> N.testbit g t = true -> N.testbit (cT c) t = true -> N.testbit g (i + Size c) = true ->
  N.testbit (cB c) i = true -> bridged.
Proof.
  intros Hc Ht HtT Hg HBo. apply (bridge_sup t i).
  - eapply touches0; eauto. left. apply (nb_above s i).
  - now left.
  - left. split; assumption.
Qed.
Lemma pat_B g t : cset0 g -> N.testbit g t = true -> N.testbit (cB c) t = true -> Size c <= i -> N.testbit g (i - Size c) = true ->
  N.testbit (cT c) i = true -> bridged.
Proof.
  intros Hc Ht HtB H1 Hg HT. apply (bridge_sup i t).
  - now left.
  - eapply touches0; eauto. left. now apply (nb_below s Hs i Hi).
  - left. split; assumption.
Qed.

(* a square of Grow(mask, o): in o, or next to a square of o *)
Lemma touches_grow o t : cset0 o -> N.testbit o t = true -> N.testbit (grow c (cMask c) o) i = true -> touches s B0 i t.
Proof.
  intros Hc Ht H. apply grow_bit_iff in H as [_ [H|(k & Hk & Hn)]].
  - right. left. now apply Hc.
  - eapply touches0; eauto.
Qed.
End Pattern.

Lemma singles_notin gs pieces a g : N.testbit (t_singles gs pieces) a = true -> In g gs -> N.testbit g a = false.
Proof.
  unfold t_singles. revert pieces. induction gs as [|g0 gs IH]; intros pieces H Hin; [destruct Hin|].
  cbn [fold_left] in H. destruct Hin as [->|Hin]; [|eapply IH; eauto].
  assert (H' : N.testbit (andnot pieces g) a = true).
  { clear IH. revert H. generalize (andnot pieces g). induction gs as [|g1 gs IH]; intros w H; cbn [fold_left] in H; [exact H|].
    apply IH in H. unfold andnot in H. rewrite N.ldiff_spec in H. now apply andb_prop in H. }
  unfold andnot in H'. rewrite N.ldiff_spec in H'. apply andb_prop in H' as [_ H']. now apply negb_true_iff in H'.
Qed.

Section Tmap.
Variable s : N.
Hypothesis Hs : 3 <= s <= 8.
Let c := precompute s.
Variable p : position.
Variable B : N.
Hypothesis HB : forall i, N.testbit B i = true -> i < s * s.
Variable gs : list N.
Hypothesis Hg : groups c B = Some gs.
Variable pieces : N.
Hypothesis Hp : forall i, N.testbit pieces i = true -> N.testbit B i = true.
Hypothesis Hn : forall i, N.testbit (t_nocs c p) i = true -> i < s * s.
Notation conn := (conn s B).
Notation cset := (cset s B).

Definition closed (o : N) : Prop := forall x y, N.testbit o x = true -> conn x y -> N.testbit o y = true.

Lemma group_closed g : In g gs -> closed g.
Proof.
  intros Hin. destruct (groups_spec s Hs B HB) as (gs0 & Hg0 & Hsound & _). fold c in Hg0. rewrite Hg in Hg0. injection Hg0 as <-.
  destruct (Hsound g Hin) as (a0 & _ & Hiff & _). intros x y Hx Hc. apply Hiff. apply Hiff in Hx. eapply conn_trans; eauto.
Qed.
Lemma single_closed a : N.testbit (t_singles gs pieces) a = true -> closed (bit1 a).
Proof.
  intros Ha x y Hx Hc. rewrite testbit_bit1 in *. apply N.eqb_eq in Hx. subst x.
  destruct (N.eqb_spec y a) as [|Hne]; [reflexivity|]. exfalso.
  destruct (groups_spec s Hs B HB) as (gs0 & Hg0 & _ & Hcomplete). fold c in Hg0. rewrite Hg in Hg0. injection Hg0 as <-.
  destruct (conn_in_B s Hs B HB a y Hc) as [HaB _].
  destruct (Hcomplete a HaB (ex_intro _ y (conj Hne Hc))) as (g & Hin & Hiff).
  assert (N.testbit g a = true) by (apply Hiff, conn_refl; assumption).
  rewrite (singles_notin gs pieces a g Ha Hin) in H. discriminate.
Qed.
Lemma others_closed k other : In other (firstn k gs ++ lowest_bits 65 (t_singles gs pieces)) -> closed other.
Proof.
  intro H. apply in_app_or in H as [H|H].
  - apply group_closed. eapply in_firstn; exact H.
  - destruct (lowest_bits_spec _ _ _ H) as (a & -> & Ha). now apply single_closed.
Qed.

Lemma cset_avoid o j : cset o -> closed o -> N.testbit o j = false -> cset0 s (N.ldiff B (bit1 j)) o.
Proof.
  intros Hc Hcl Hj x y Hx Hy. apply (conn_avoid s B j); [now apply Hc|].
  intro Hxj. rewrite (Hcl x j Hx Hxj) in Hj. discriminate.
Qed.

Definition Q2 (i : N) : Prop :=
  i < s * s /\ N.testbit (t_nocs c p) i = true /\
  exists j, N.testbit pieces j = true /\ nb c j i /\ bridged s (N.ldiff B (bit1 j)) i.
Definition P2 (m : N) : Prop := forall i, N.testbit m i = true -> Q2 i.
Lemma P2_0 : P2 0. Proof. intros i H. rewrite N.bits_0 in H. discriminate. Qed.
Lemma P2_lor a b : P2 a -> P2 b -> P2 (N.lor a b).
Proof. intros Ha Hb i H. rewrite N.lor_spec in H. apply orb_prop in H as [H|H]; auto. Qed.

(* a square of Grow(nocs, pieces &^ X): not a wall/capstone, and itself a piece outside X or next to one *)
Lemma slides_split X i : N.testbit (grow c (t_nocs c p) (andnot pieces X)) i = true ->
  N.testbit (t_nocs c p) i = true /\
  ((N.testbit pieces i = true /\ N.testbit X i = false) \/
   exists j, N.testbit pieces j = true /\ N.testbit X j = false /\ nb c j i).
Proof.
  intro H. apply grow_bit_iff in H as [Hw H]. split; [exact Hw|].
  unfold andnot in H. destruct H as [H|(j & H & Hnb)]; rewrite N.ldiff_spec in H; apply andb_prop in H as [H1 H2]; apply negb_true_iff in H2.
  - left. now split.
  - right. exists j. repeat split; assumption.
Qed.

(* the generic edge step: g a group, k the neighbour of i inside g given by the pattern *)
Lemma edge_step g i k (pat : forall j, cset0 s (N.ldiff B (bit1 j)) g -> bridged s (N.ldiff B (bit1 j)) i) :
  In g gs -> N.testbit g k = true -> nb c k i ->
  N.testbit (grow c (t_nocs c p) (andnot pieces g)) i = true -> Q2 i.
Proof.
  intros Hin Hk Hnb Hsl. destruct (slides_split g i Hsl) as [Hno [[Hpi Hgi]|(j & Hpj & Hgj & Hnj)]].
  - exfalso. assert (HkB : N.testbit B k = true) by exact (cset_in_B s Hs B HB g k k (group_cset s Hs B HB gs Hg g Hin) Hk Hk).
    assert (Hc : conn k i) by (apply conn_step; auto).
    rewrite (group_closed g Hin k i Hk Hc) in Hgi. discriminate.
  - split; [now apply Hn|]. split; [exact Hno|]. exists j. repeat split; try assumption.
    apply pat. apply cset_avoid; [apply (group_cset s Hs B HB gs Hg g Hin)|now apply group_closed|exact Hgj].
Qed.

Lemma tedge_L g : In g gs -> negb (N.land g (cL c) =? 0) = true ->
  P2 (N.land (N.land (N.shiftr g 1) (grow c (t_nocs c p) (andnot pieces g))) (cR c)).
Proof.
  intros Hin Hl i H. rewrite !N.land_spec, N.shiftr_spec' in H.
  apply andb_prop in H as [H HR]. apply andb_prop in H as [Hgi Hsl].
  apply land_nonzero in Hl as (t & Ht & HtL).
  assert (Hi : i < s * s) by (apply Hn; apply grow_bit_iff in Hsl; tauto).
  apply (edge_step g i (i + 1)); auto.
  - intros j Hc. eapply (pat_L s Hs _ (HB0 s B HB j) i Hi g t); eauto.
  - now apply (nb_right_of s Hs i Hi).
Qed.
Lemma tedge_R g : In g gs -> negb (N.land g (cR c) =? 0) = true ->
  P2 (N.land (N.land (u64 (N.shiftl g 1)) (grow c (t_nocs c p) (andnot pieces g))) (cL c)).
Proof.
  intros Hin Hl i H. rewrite !N.land_spec, u64_bit, shl_bit in H.
  apply andb_prop in H as [H HL]. apply andb_prop in H as [Hgi Hsl].
  apply andb_prop in Hgi as [Hgi _]. apply andb_prop in Hgi as [H1 Hgi].
  apply land_nonzero in Hl as (t & Ht & HtR).
  assert (Hi : i < s * s) by (apply Hn; apply grow_bit_iff in Hsl; tauto).
  apply (edge_step g i (i - 1)); auto.
  - intros j Hc. eapply (pat_R s Hs _ (HB0 s B HB j) i Hi g t); eauto. lia.
  - apply (nb_left_of s Hs i Hi); [assumption|now apply N.leb_le].
Qed.
Lemma tedge_T g : In g gs -> negb (N.land g (cT c) =? 0) = true ->
  P2 (N.land (N.land (N.shiftr g (Size c)) (grow c (t_nocs c p) (andnot pieces g))) (cB c)).
Proof.
  intros Hin Hl i H. rewrite !N.land_spec, N.shiftr_spec' in H.
  apply andb_prop in H as [H HBo]. apply andb_prop in H as [Hgi Hsl].
  apply land_nonzero in Hl as (t & Ht & HtT).
  assert (Hi : i < s * s) by (apply Hn; apply grow_bit_iff in Hsl; tauto).
  apply (edge_step g i (i + Size c)); auto.
  - intros j Hc. eapply (pat_T s Hs _ (HB0 s B HB j) i Hi g t); eauto.
  - apply (nb_above s i).
Qed.
Lemma tedge_B g : In g gs -> negb (N.land g (cB c) =? 0) = true ->
  P2 (N.land (N.land (u64 (N.shiftl g (Size c))) (grow c (t_nocs c p) (andnot pieces g))) (cT c)).
Proof.
  intros Hin Hl i H. rewrite !N.land_spec, u64_bit, shl_bit in H.
  apply andb_prop in H as [H HT]. apply andb_prop in H as [Hgi Hsl].
  apply andb_prop in Hgi as [Hgi _]. apply andb_prop in Hgi as [H1 Hgi].
  apply land_nonzero in Hl as (t & Ht & HtB).
  assert (Hi : i < s * s) by (apply Hn; apply grow_bit_iff in Hsl; tauto).
  apply (edge_step g i (i - Size c)); auto.
  - intros j Hc. eapply (pat_B s Hs _ (HB0 s B HB j) i Hi g t); eauto. now apply N.leb_le.
  - apply (nb_below s Hs i Hi). now apply N.leb_le.
Qed.

Lemma tjunction g other : In g gs -> cset other -> closed other -> junction c g other = true ->
  P2 (N.land (N.land (grow c (cMask c) g) (grow c (cMask c) other)) (grow c (t_nocs c p) (andnot pieces (N.lor g other)))).
Proof.
  intros Hin Hco Hclo Hj i H. rewrite !N.land_spec in H.
  apply andb_prop in H as [H Hsl]. apply andb_prop in H as [Hg1 Hg2].
  assert (Hcg := group_cset s Hs B HB gs Hg g Hin). assert (Hclg := group_closed g Hin).
  destruct (slides_split _ i Hsl) as [Hno [[Hpi Hxi]|(j & Hpj & Hxj & Hnj)]];
    rewrite N.lor_spec in *; apply orb_false_elim in Hxi || apply orb_false_elim in Hxj.
  - (* i itself would be the slider: then it is a piece next to g, hence in g *)
    exfalso. destruct Hxi as [Hgi _]. apply grow_bit_iff in Hg1 as [_ [Hg1|(k & Hk & Hnk)]]; [congruence|].
    assert (HkB : N.testbit B k = true) by exact (cset_in_B s Hs B HB g k k Hcg Hk Hk).
    assert (Hc : conn k i) by (apply conn_step; auto).
    rewrite (Hclg k i Hk Hc) in Hgi. discriminate.
  - destruct Hxj as [Hgj Hoj].
    assert (Hi : i < s * s) by now apply Hn.
    split; [exact Hi|]. split; [exact Hno|]. exists j. repeat split; try assumption.
    set (B0 := N.ldiff B (bit1 j)).
    assert (HB0' := HB0 s B HB j). fold B0 in HB0'.
    assert (C1 : cset0 s B0 g) by (apply cset_avoid; assumption).
    assert (C2 : cset0 s B0 other) by (apply cset_avoid; assumption).
    unfold junction in Hj.
    repeat (apply orb_prop in Hj as [Hj|Hj]); apply andb_prop in Hj as [H1 H2];
      apply land_nonzero in H1 as (t & Ht & HtE); apply land_nonzero in H2 as (u & Hu & HuE).
    + apply (bridge_sup s Hs B0 HB0' i Hi t u); [exact (touches_grow s B0 i g t C1 Ht Hg1)|exact (touches_grow s B0 i other u C2 Hu Hg2)|right; split; assumption].
    + apply (bridge_sup s Hs B0 HB0' i Hi u t); [exact (touches_grow s B0 i other u C2 Hu Hg2)|exact (touches_grow s B0 i g t C1 Ht Hg1)|right; split; assumption].
    + apply (bridge_sup s Hs B0 HB0' i Hi u t); [exact (touches_grow s B0 i other u C2 Hu Hg2)|exact (touches_grow s B0 i g t C1 Ht Hg1)|left; split; assumption].
    + apply (bridge_sup s Hs B0 HB0' i Hi t u); [exact (touches_grow s B0 i g t C1 Ht Hg1)|exact (touches_grow s B0 i other u C2 Hu Hg2)|left; split; assumption].
Qed.

Theorem tmap_sound k g : nth_error gs k = Some g -> P2 (snd (tmaps c p gs pieces k g)).
Proof.
  intro Hk. assert (Hin : In g gs) by (eapply nth_error_In; exact Hk).
  unfold tmaps. cbv zeta.
  destruct (N.land g (cEdge c) =? 0). { apply P2_0. }
  destruct (negb (N.land g (cL c) =? 0)) eqn:E1; destruct (negb (N.land g (cR c) =? 0)) eqn:E2;
  destruct (negb (N.land g (cT c) =? 0)) eqn:E3; destruct (negb (N.land g (cB c) =? 0)) eqn:E4;
  (apply (fold_left_inv (fun acc : N * N => P2 (snd acc)));
   [ cbn [snd]; repeat apply P2_lor; try apply P2_0;
     first [apply tedge_L; assumption | apply tedge_R; assumption | apply tedge_T; assumption | apply tedge_B; assumption]
   | intros [a b] other Ha Hino; cbn [snd] in *;
     destruct (junction c g other) eqn:J; [|exact Ha];
     cbn [snd]; apply P2_lor; [exact Ha|]; apply tjunction; auto;
     [eapply (others_cset s Hs B HB gs Hg pieces Hp); exact Hino | eapply others_closed; exact Hino] ]).
Qed.
End Tmap.
