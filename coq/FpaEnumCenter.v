(* C20: complete enumeration (one VM evaluation at Qed: vm_cast_no_check) of the scripted opening with the repairs switched on: Center, sizes 4..8, both colours.
   The expected tallies are those the Go driver measured on the repaired implementation. GENERATED once, then kept. *)
From Coq Require Import NArith ZArith List Bool.
Require Import Board Move GameOver Tps Symmetry Fpa.
Import ListNotations.

Lemma enum_center_4_w : run [] repaired Center 4 true = {| nodes := 2; scripted := 1; illegal := 0; selfrej := 0; crash := 0 |}%N.
Proof. vm_cast_no_check (eq_refl ({| nodes := 2; scripted := 1; illegal := 0; selfrej := 0; crash := 0 |}%N)). Qed.
Lemma enum_center_4_b : run [] repaired Center 4 false = {| nodes := 5; scripted := 0; illegal := 0; selfrej := 0; crash := 0 |}%N.
Proof. vm_cast_no_check (eq_refl ({| nodes := 5; scripted := 0; illegal := 0; selfrej := 0; crash := 0 |}%N)). Qed.
Lemma enum_center_5_w : run [] repaired Center 5 true = {| nodes := 2; scripted := 1; illegal := 0; selfrej := 0; crash := 0 |}%N.
Proof. vm_cast_no_check (eq_refl ({| nodes := 2; scripted := 1; illegal := 0; selfrej := 0; crash := 0 |}%N)). Qed.
Lemma enum_center_5_b : run [] repaired Center 5 false = {| nodes := 2; scripted := 0; illegal := 0; selfrej := 0; crash := 0 |}%N.
Proof. vm_cast_no_check (eq_refl ({| nodes := 2; scripted := 0; illegal := 0; selfrej := 0; crash := 0 |}%N)). Qed.
Lemma enum_center_6_w : run [] repaired Center 6 true = {| nodes := 2; scripted := 1; illegal := 0; selfrej := 0; crash := 0 |}%N.
Proof. vm_cast_no_check (eq_refl ({| nodes := 2; scripted := 1; illegal := 0; selfrej := 0; crash := 0 |}%N)). Qed.
Lemma enum_center_6_b : run [] repaired Center 6 false = {| nodes := 5; scripted := 0; illegal := 0; selfrej := 0; crash := 0 |}%N.
Proof. vm_cast_no_check (eq_refl ({| nodes := 5; scripted := 0; illegal := 0; selfrej := 0; crash := 0 |}%N)). Qed.
Lemma enum_center_7_w : run [] repaired Center 7 true = {| nodes := 2; scripted := 1; illegal := 0; selfrej := 0; crash := 0 |}%N.
Proof. vm_cast_no_check (eq_refl ({| nodes := 2; scripted := 1; illegal := 0; selfrej := 0; crash := 0 |}%N)). Qed.
Lemma enum_center_7_b : run [] repaired Center 7 false = {| nodes := 2; scripted := 0; illegal := 0; selfrej := 0; crash := 0 |}%N.
Proof. vm_cast_no_check (eq_refl ({| nodes := 2; scripted := 0; illegal := 0; selfrej := 0; crash := 0 |}%N)). Qed.
Lemma enum_center_8_w : run [] repaired Center 8 true = {| nodes := 2; scripted := 1; illegal := 0; selfrej := 0; crash := 0 |}%N.
Proof. vm_cast_no_check (eq_refl ({| nodes := 2; scripted := 1; illegal := 0; selfrej := 0; crash := 0 |}%N)). Qed.
Lemma enum_center_8_b : run [] repaired Center 8 false = {| nodes := 5; scripted := 0; illegal := 0; selfrej := 0; crash := 0 |}%N.
Proof. vm_cast_no_check (eq_refl ({| nodes := 5; scripted := 0; illegal := 0; selfrej := 0; crash := 0 |}%N)). Qed.
