(* C04, Monte-Carlo player, part 3: descend returns a path into the tree and never panics; after one pass the root of a
   live position has a child and keeps it. *)
From Coq Require Import NArith ZArith List Bool Lia.
Require Import Board Move GameOver Refine RefinePlace RefinePlace2 LegalMoveLive Eval EvalInst Mcts MctsFacts MctsFacts2.
Import ListNotations.

Lemma tree_ind' (P : tree -> Prop) :
  (forall p m s v pr chs, Forall P chs -> P (T p m s v pr chs)) -> forall t, P t.
Proof.
  intros H.
  refine (fix IH (t : tree) : P t :=
            match t with
            | T p m s v pr chs =>
              H p m s v pr chs ((fix all (l : list tree) : Forall P l :=
                                   match l with [] => Forall_nil P | c :: r => Forall_cons c (IH c) (all r) end) chs)
            end).
Qed.

Lemma update_step_children t value : t_children (fst (fst (update_step t value))) = t_children t.
Proof. destruct t as [p m s v pr chs]. unfold update_step. destruct (negb (pr =? 0)%Z); [destruct (pr <? 0)%Z|]; reflexivity. Qed.

Lemma update_path_length : forall path t value t' vout act,
  update_path path t value = Ok (t', vout, act) -> length (t_children t') = length (t_children t).
Proof.
  intros [|k rest] t value t' vout act H; cbn [update_path] in H.
  - injection H as H. assert (C := update_step_children t value). rewrite H in C. cbn [fst] in C. now rewrite C.
  - destruct t as [p m s v pr chs]. destruct (nth_error chs k) as [c|]; [|discriminate].
    destruct (update_path rest c value) as [[[c' vo] ac]| |]; cbn [bind] in H; try discriminate.
    match type of H with Ok (update_step ?T0 ?V) = _ => assert (C := update_step_children T0 V);
      assert (H' : update_step T0 V = (t', vout, act)) by congruence end.
    rewrite H' in C. cbn [fst t_children] in C. rewrite C. cbn [t_children]. apply set_nth_length.
Qed.

Section Scores.
Variable F : Type.
Variables (f_neg_inf f_m100 f_p100 f_p10 : F).
Variable f_score : Z -> Z -> Z -> F.
Variables (f_gt f_eq : F -> F -> bool).
Local Notation select_loop := (Mcts.select_loop F f_m100 f_p100 f_p10 f_score f_gt f_eq).
Local Notation descend := (Mcts.descend F f_neg_inf f_m100 f_p100 f_p10 f_score f_gt f_eq).
Local Notation iter_step := (Mcts.iter_step F f_neg_inf f_m100 f_p100 f_p10 f_score f_gt f_eq).
Local Notation iterate := (Mcts.iterate F f_neg_inf f_m100 f_p100 f_p10 f_score f_gt f_eq).
Local Notation get_move := (Mcts.get_move F f_neg_inf f_m100 f_p100 f_p10 f_score f_gt f_eq).

(* the selection loop of descend: no panic, and the index it returns is inside the slice *)
Lemma select_loop_spec : forall chs k N best val i rs,
  (0 <= i)%Z -> (forall j, best = Some j -> (j < k)%nat) ->
  match select_loop chs k N best val i rs with
  | Ok (b, _) => forall j, b = Some j -> (j < k + length chs)%nat
  | Err => True
  | Panic => False
  end.
Proof.
  induction chs as [|c rest IH]; intros k N best val i rs Hi Hb; cbn [Mcts.select_loop].
  - intros j E. specialize (Hb j E). lia.
  - destruct (f_gt _ val).
    + specialize (IH (S k) N (Some k) (ucb F f_m100 f_p100 f_p10 f_score c N) 1%Z rs ltac:(lia)).
      match goal with |- match ?X with _ => _ end => destruct X as [[b r]| |] end; try exact I.
      * intros j E. assert (Q := IH ltac:(intros j' E'; injection E' as <-; lia) j E). cbn [length]. lia.
      * apply IH. intros j' E'; injection E' as <-; lia.
    + destruct (f_eq _ val).
      * assert (Sp := intn_spec (i + 1) rs ltac:(lia)).
        destruct (intn (i + 1) rs) as [[r rs1]| |]; cbn [bind]; [|exact I|exact Sp].
        specialize (IH (S k) N (if (r =? 0)%N then Some k else best) val (i + 1)%Z rs1 ltac:(lia)).
        assert (Hb' : forall j, (if (r =? 0)%N then Some k else best) = Some j -> (j < S k)%nat).
        { intros j E. destruct (r =? 0)%N; [injection E as <-; lia|specialize (Hb j E); lia]. }
        match goal with |- match ?X with _ => _ end => destruct X as [[b r']| |] end; try exact I.
        -- intros j E. assert (Q := IH Hb' j E). cbn [length]. lia.
        -- apply IH. exact Hb'.
      * specialize (IH (S k) N best val i rs Hi).
        assert (Hb' : forall j, best = Some j -> (j < S k)%nat) by (intros j E; specialize (Hb j E); lia).
        match goal with |- match ?X with _ => _ end => destruct X as [[b r']| |] end; try exact I.
        -- intros j E. assert (Q := IH Hb' j E). cbn [length]. lia.
        -- apply IH. exact Hb'.
Qed.

Lemma go_nth (rs1 : rstream) (k0 : nat) : forall (l : list tree) (j : nat),
  (fix go (l : list tree) (j : nat) {struct l} : res (list nat * rstream) :=
     match l, j with
     | c :: _, O => let* (path, rs2) := descend c rs1 in Ok (k0 :: path, rs2)
     | _ :: r, S j' => go r j'
     | [], _ => Panic
     end) l j =
  match nth_error l j with
  | Some c => let* (path, rs2) := descend c rs1 in Ok (k0 :: path, rs2)
  | None => Panic
  end.
Proof. induction l as [|c r IH]; intros [|j]; cbn [nth_error]; try reflexivity. apply IH. Qed.

Lemma descend_leaf p m s v pr rs : descend (T p m s v pr []) rs = Ok ([], rs).
Proof. reflexivity. Qed.

Lemma descend_eq p m s v pr c0 chs rs : descend (T p m s v pr (c0 :: chs)) rs =
  let* (best, rs1) := select_loop (c0 :: chs) 0 s None f_neg_inf 0%Z rs in
  let k := match best with Some k => k | None => 0%nat end in
  match nth_error (c0 :: chs) k with
  | Some c => let* (path, rs2) := descend c rs1 in Ok (k :: path, rs2)
  | None => Panic
  end.
Proof.
  cbn [Mcts.descend].
  destruct (select_loop (c0 :: chs) 0 s None f_neg_inf 0%Z rs) as [[best rs1]| |]; cbn [bind]; try reflexivity.
  destruct best as [[|j]|]; cbn [nth_error]; try reflexivity. apply go_nth.
Qed.

(* descend never panics and returns the path of a node of the tree (not the root when the root has children) *)
Theorem descend_spec : forall t rs,
  match descend t rs with
  | Ok (path, _) => (exists node, node_at path t = Some node) /\ (t_children t <> [] -> path <> [])
  | Err => True
  | Panic => False
  end.
Proof.
  induction t as [p m s v pr chs IH] using tree_ind'. intros rs.
  destruct chs as [|c0 chs].
  - rewrite descend_leaf. split; [eexists; reflexivity|]. cbn. congruence.
  - rewrite descend_eq.
    assert (Sp := select_loop_spec (c0 :: chs) 0 s None f_neg_inf 0%Z rs ltac:(lia) ltac:(discriminate)).
    destruct (select_loop (c0 :: chs) 0 s None f_neg_inf 0%Z rs) as [[best rs1]| |]; cbn [bind]; [|exact I|exact Sp].
    cbv zeta. set (k := match best with Some k => k | None => 0%nat end).
    assert (Hk : (k < length (c0 :: chs))%nat).
    { subst k. destruct best as [j|]; [apply (Sp j eq_refl)|cbn [length]; lia]. }
    destruct (nth_error (c0 :: chs) k) as [c|] eqn:E; [|apply nth_error_None in E; lia].
    assert (Hc : In c (c0 :: chs)) by (eapply nth_error_In; exact E).
    rewrite Forall_forall in IH. specialize (IH c Hc rs1).
    destruct (descend c rs1) as [[path rs2]| |]; cbn [bind]; [|exact I|exact IH].
    destruct IH as [[node Hn] _]. split; [|discriminate].
    exists node. cbn [node_at t_children]. rewrite E. exact Hn.
Qed.

(* ---------- the root keeps its children; after one pass on a live position it has one ---------- *)
Lemma iter_step_children_kept cfg t rs t' brk rs' :
  iter_step cfg t rs = Ok (t', brk, rs') -> t_children t <> [] -> length (t_children t') = length (t_children t).
Proof.
  intros H Hne. unfold Mcts.iter_step in H.
  assert (D := descend_spec t rs).
  destruct (descend t rs) as [[path rs1]| |]; cbn [bind] in H; try discriminate.
  destruct D as [_ Hp]. specialize (Hp Hne).
  destruct (node_at path t) as [node|]; [|discriminate].
  destruct (populate (t_pos node)) as [chs| |]; cbn [bind] in H; try discriminate.
  destruct (populate_at path t chs) as [t1| |] eqn:E1; cbn [bind] in H; try discriminate.
  assert (L1 := populate_at_length path t chs t1 Hp E1).
  destruct (negb (t_proven t1 =? 0)%Z).
  - injection H as <- _ _. exact L1.
  - destruct (if (t_proven node =? 0)%Z then rollout cfg (t_pos node) rs1 else Ok (0%Z, rs1)) as [[val rs2]| |];
      cbn [bind] in H; try discriminate.
    destruct (update_path path t1 val) as [[[t2 vo] ac]| |] eqn:E2; cbn [bind] in H; try discriminate.
    injection H as <- _ _. rewrite (update_path_length _ _ _ _ _ _ E2). exact L1.
Qed.

Lemma iter_step_first cfg p rs t' brk rs' :
  iter_step cfg (root_of p) rs = Ok (t', brk, rs') -> exists chs, populate p = Ok chs /\ length (t_children t') = length chs.
Proof.
  intros H. unfold Mcts.iter_step in H. unfold root_of in H at 1. rewrite descend_leaf in H. cbn [bind node_at] in H.
  cbn [root_of t_pos] in H.
  destruct (populate p) as [chs| |]; cbn [bind] in H; try discriminate.
  exists chs. split; [reflexivity|]. cbn [populate_at t_pos t_move t_sims t_value t_proven bind] in H.
  change (negb (0 =? 0)%Z) with false in H. cbv iota in H.
  change (0 =? 0)%Z with true in H. cbv iota in H.
  destruct (rollout cfg p rs) as [[val rs2]| |]; cbn [bind] in H; try discriminate.
  cbn [update_path bind] in H. injection H as <- _ _. reflexivity.
Qed.

Lemma populate_moves_nonempty p : forall ms m q chs,
  In m ms -> mv p m = Ok q -> populate_moves p ms = Ok chs -> chs <> [].
Proof.
  induction ms as [|m0 ms IH]; intros m q chs Hin Hm H; [contradiction|]. cbn [populate_moves] in H.
  destruct (mv p m0) as [child| |] eqn:E.
  - destruct (proven_of child); cbn [bind] in H; try discriminate.
    destruct (populate_moves p ms); cbn [bind] in H; try discriminate. injection H as <-. discriminate.
  - destruct Hin as [->|Hin]; [congruence|]. eapply IH; eassumption.
  - discriminate.
Qed.

(* After at least one pass over a position with a legal move in AllMoves the root has a child, for every random stream,
   scoring, configuration and number of further passes. *)
Lemma iterate_root_has_child_gen cfg p fuel rs t rs' :
  (exists m q, In m (all_moves p) /\ mv p m = Ok q) ->
  iterate cfg (S fuel) (root_of p) rs = Ok (t, rs') -> t_children t <> [].
Proof.
  intros (m & q & Hin & Hm) H. cbn [Mcts.iterate] in H.
  destruct (iter_step cfg (root_of p) rs) as [[[t1 brk] rs1]| |] eqn:E1; cbn [bind] in H; try discriminate.
  destruct (iter_step_first _ _ _ _ _ _ E1) as (chs & Ep & L).
  assert (Hne : chs <> []) by (eapply populate_moves_nonempty; eassumption).
  assert (H1 : t_children t1 <> []) by (intros Z0; rewrite Z0 in L; destruct chs; [congruence|discriminate]).
  destruct brk; [injection H as <- _; exact H1|]. clear E1 L.
  revert t1 rs1 H H1. induction fuel as [|f IH]; intros t1 rs1 H H1; cbn [Mcts.iterate] in H.
  - injection H as <- _. exact H1.
  - destruct (iter_step cfg t1 rs1) as [[[t2 brk] rs2]| |] eqn:E2; cbn [bind] in H; try discriminate.
    assert (L2 := iter_step_children_kept _ _ _ _ _ _ E2 H1).
    assert (H2 : t_children t2 <> []) by (intros Z0; rewrite Z0 in L2; destruct (t_children t1); [congruence|discriminate]).
    destruct brk; [injection H as <- _; exact H2|]. eapply IH; eassumption.
Qed.

(* ... in particular over a live position (so `tree.children[0]` does not panic) *)
Theorem iterate_root_has_child cfg p c fuel rs t rs' :
  wf p -> in_mask p -> opening_supply p -> game_over p = Some (false, c) ->
  iterate cfg (S fuel) (root_of p) rs = Ok (t, rs') -> t_children t <> [].
Proof.
  intros W M OS G. apply iterate_root_has_child_gen. exact (live_has_legal_move p c W M OS G).
Qed.
End Scores.
Print Assumptions descend_spec.
Print Assumptions iterate_root_has_child.
