(* TeiClientFacts3.v: client and engine composed for a whole NewGame ; TEIGetMove exchange, and totality of the client model.
     legal_wire_shape          a move the position-level move model accepts on a 3..8 board, whose Slides word is a uint32 and is 0 for
                               placements, is a legal-shaped move of C11 - so FormatMove's text parses back to it
     client_server_move_legal  NewGame(size p) ; TEIGetMove(p) against the engine model returns Ok m with m the searcher's move, legal in p
     tei_get_move_panics / client_total_*   the client model panics only as a dead player or on an engine line without a word *)
From Coq Require Import NArith ZArith List Bool Lia Ascii String ZifyN ZifyBool ZifyNat.
Require Import Board Move GameOver PtnMove Playtak Tps TeiBudget Tei TeiSpec TeiFacts TeiClient TeiClientFacts TeiClientFacts2.
Require Import PtnMoveFacts TeiClientFmt TpsFacts5 TpsFacts6 Preserve1 Import7.
Require Import Generated.Consts.
Import ListNotations.
Local Open Scope N_scope.

(* ---- the Slides word and its nibbles ---- *)
Lemma nibbles_same : forall f s, Move.nibbles f s = PtnMove.nibbles f s.
Proof. induction f as [|f IH]; intros s; [reflexivity|]. cbn [Move.nibbles PtnMove.nibbles]. now rewrite IH. Qed.

Lemma nibble_split s : N.lor (N.shiftl (N.shiftr s 4) 4) (N.land s 15) = s.
Proof.
  apply N.bits_inj. intros i. rewrite N.lor_spec, N.land_spec. change 15 with (N.ones 4).
  destruct (N.ltb_spec i 4) as [L|L].
  - rewrite N.shiftl_spec_low by exact L. rewrite N.ones_spec_low by exact L. cbn [orb]. now rewrite andb_true_r.
  - rewrite N.shiftl_spec_high' by exact L. rewrite N.shiftr_spec'. rewrite N.ones_spec_high by exact L.
    rewrite andb_false_r, orb_false_r. f_equal. lia.
Qed.

Lemma mk_slides_nibbles : forall f s, (f <= 8)%nat -> s < 2 ^ (4 * N.of_nat f) -> mk_slides (PtnMove.nibbles f s) = s.
Proof.
  induction f as [|f IH]; intros s Hf Hs.
  - change (2 ^ (4 * N.of_nat 0)) with 1 in Hs. cbn. lia.
  - cbn [PtnMove.nibbles]. destruct (N.eqb_spec s 0) as [->|Hne]; [reflexivity|].
    unfold mk_slides. cbn [fold_right]. fold (mk_slides (PtnMove.nibbles f (N.shiftr s 4))).
    assert (Hs' : N.shiftr s 4 < 2 ^ (4 * N.of_nat f)).
    { rewrite N.shiftr_div_pow2. apply N.div_lt_upper_bound; [discriminate|].
      replace (4 * N.of_nat (S f)) with (4 + 4 * N.of_nat f) in Hs by lia. now rewrite N.pow_add_r in Hs. }
    rewrite IH by (assumption || lia). rewrite nibble_split. rewrite N.land_ones. apply N.mod_small.
    eapply N.lt_le_trans; [exact Hs|]. apply N.pow_le_mono_r; lia.
Qed.

Lemma existsb_zero_false ds : existsb (N.eqb 0) ds = false -> Forall (fun d => 1 <= d) ds.
Proof.
  induction ds as [|d ds IH]; intros H; [constructor|]. cbn [existsb] in H. apply orb_false_iff in H as [H1 H2].
  constructor; [lia|now apply IH].
Qed.

(* the move values the wire can carry unchanged: Slides is a uint32, and 0 for placements (as every move generator produces them) *)
Definition wire_move (m : rmove) : Prop := Move.mS m < 2 ^ 32 /\ ((Move.mT m = 2 \/ Move.mT m = 3 \/ Move.mT m = 4) -> Move.mS m = 0).

Theorem legal_wire_shape basis p m q : 3 <= Move.size p <= 8 -> tmove basis p m = Move.Ok q -> wire_move m -> legal_shape (of_rmove m).
Proof.
  intros Hs H [W1 W2]. unfold tmove, move_prealloc in H.
  destruct ((Move.mX m <? 0)%Z || (Z.of_N (Move.size p) <=? Move.mX m)%Z || (Move.mY m <? 0)%Z || (Z.of_N (Move.size p) <=? Move.mY m)%Z) eqn:Hb.
  { cbn [andb] in H. destruct (negb (Move.mT m =? 1)) eqn:Hp; [discriminate H|].
    cbn [andb] in H. assert (E : Move.mT m = 1) by lia. rewrite E in H. cbn [bind] in H. discriminate H. }
  cbn [andb] in H.
  assert (Hxy : (0 <= Move.mX m < 8)%Z /\ (0 <= Move.mY m < 8)%Z) by lia.
  unfold legal_shape, of_rmove. cbn [PtnMove.mX PtnMove.mY PtnMove.mT PtnMove.mS].
  split; [tauto|]. split; [tauto|]. clear Hb.
  destruct (Move.mT m) as [|t] eqn:Et; [cbn [bind] in H; discriminate H|].
  do 4 (try destruct t as [t|t|]); cbn [bind] in H; try discriminate H.
  (* the types 2..8 are left; slides first *)
  all: try (left; split; [cbv; tauto|apply W2; cbv; tauto]).
  all: right; (split; [cbv; tauto|]).
  all: destruct (Move.move p <? 2)%Z; cbn [bind] in H; [discriminate H|].
  all: destruct (existsb (N.eqb 0) (Move.nibbles 8 (Move.mS m))) eqn:Hz; [discriminate H|].
  all: destruct ((Move.size p <? fold_right N.add 0 (Move.nibbles 8 (Move.mS m))) || (fold_right N.add 0 (Move.nibbles 8 (Move.mS m)) <? 1)) eqn:Hct; [discriminate H|].
  all: clear H; exists (PtnMove.nibbles 8 (Move.mS m)); rewrite nibbles_same in Hz, Hct.
  all: split; [|symmetry; apply mk_slides_nibbles; [lia|exact W1]].
  all: unfold goodN, sumN; split; [|split; [now apply existsb_zero_false|lia]].
  all: intros E; rewrite E in Hct; cbn in Hct; lia.
Qed.

Lemma to_of_rmove m : to_rmove (of_rmove m) = m.
Proof. destruct m; reflexivity. Qed.

(* ---- the reading loop on the engine's two lines ---- *)
Lemma s_bestmove_word : word s_bestmove. Proof. split; [discriminate|]. repeat constructor; unfold vis; cbn; lia. Qed.

Lemma fields_info_line pv v d n : exists ws, fields (info_line pv v d n) = str "info" :: ws.
Proof.
  unfold info_line.
  set (X := fmt_int d ++ str " time T nodes " ++ fmt_int n ++ str " score cp " ++ fmt_int v ++ str " pv" ++ flat_map (fun m => 32 :: fmt_move m) pv).
  change (str "info depth " ++ X) with (str "info" ++ 32 :: (str "depth " ++ X)).
  eexists. apply fields_first. split; [discriminate|]. repeat constructor; unfold vis; cbn; lia.
Qed.

Lemma fields_bestmove_line m : word (fmt_move m) -> fields (bestmove_line m) = [s_bestmove; fmt_move m].
Proof.
  intros H. change (bestmove_line m) with (join 32 [s_bestmove; fmt_move m]). apply fields_join.
  constructor; [apply s_bestmove_word|]. constructor; [exact H|constructor].
Qed.

Section Comp.
Variable SS : Type.
Variable mk_searcher : Z -> SS.
Variable search : SS -> option Z -> position -> SS * (list rmove * Z * Z * Z).
Notation basis := gen_basis.
Notation step := (Tei.step basis SS mk_searcher search).
Notation eng := (tei_proc basis SS mk_searcher search).

(* the hypothesis of tei_one_bestmove, with moves that fit the wire *)
Definition searcher_ok_wire : Prop :=
  forall s lim p, live p -> exists m rest v d n s', search s lim p = (s', (m :: rest, v, d, n)) /\ legal basis p m /\ wire_move m.

(* ... and only at one position: all that the composition needs *)
Definition searcher_ok_wire_at (p : position) : Prop :=
  forall s lim, exists m rest v d n s', search s lim p = (s', (m :: rest, v, d, n)) /\ legal basis p m /\ wire_move m.

Lemma searcher_ok_of_wire : searcher_ok_wire -> searcher_ok basis SS search.
Proof. intros H s lim p Hl. destruct (H s lim p Hl) as (m & rest & v & d & n & s' & E & L & _). now exists m, rest, v, d, n, s'. Qed.

Lemma classify_go line args : fields line = s_go :: args -> classify line = CGo args.
Proof. intros H. unfold classify. rewrite H. reflexivity. Qed.

(* a go line with well-formed arguments, read by an engine that holds a live position *)
Lemma step_go_answer (e : engine SS) line args p :
  searcher_ok_wire_at p -> wf_engine SS e -> fields line = s_go :: args -> e_pos e = Some p -> parse_go args targs0 <> None ->
  exists m rest v d n,
    sr_out (step e line) = [info_line (m :: rest) v d n; bestmove_line m] /\ sr_status (step e line) = Running /\
    legal basis p m /\ wire_move m /\ e_pos (sr_eng (step e line)) = Some p /\ wf_engine SS (sr_eng (step e line)).
Proof.
  intros Hs Hw Hf Ep Ha. pose proof (step_wf basis SS mk_searcher search e line Hw) as Hwf. revert Hwf.
  rewrite step_classify, (classify_go _ _ Hf). unfold step_go. cbn [sr_out sr_status sr_eng]. unfold Tei.do_go. rewrite Ep.
  destruct (parse_go args targs0) as [a|]; [|congruence].
  rewrite (wf_analyze SS mk_searcher search e p _ Hw Ep).
  destruct (Hs (snd (match e_mm e with Some s => s | None => (e_size e, mk_searcher (e_size e)) end)) (go_limit (to_move_white p) a))
    as (m & rest & v & d & n & s' & Hsr & Hleg & Hwire).
  rewrite Hsr. cbn. intros Hwf. exists m, rest, v, d, n.
  split; [reflexivity|]. split; [reflexivity|]. split; [exact Hleg|]. split; [exact Hwire|]. split; [reflexivity|exact Hwf].
Qed.

(* ---- sendCommand against the engine process ---- *)
Definition in_sync (c : client (proc SS)) : Prop :=
  c_buf c = [] /\ c_closed c = false /\ p_alive (c_es c) = true /\ wf_engine SS (p_eng (c_es c)).

Lemma proc_running (st : proc SS) line : p_alive st = true -> sr_status (step (p_eng st) line) = Running ->
  eng st line = Some {| er_state := {| p_eng := sr_eng (step (p_eng st) line); p_alive := true |};
                        er_out := sr_out (step (p_eng st) line); er_closed := false |}.
Proof. intros Ha Hr. unfold tei_proc. rewrite Ha. cbn [negb]. cbv zeta. rewrite Hr. reflexivity. Qed.

Lemma send_quiet (c : client (proc SS)) cmd : in_sync c ->
  sr_status (step (p_eng (c_es c)) cmd) = Running -> sr_out (step (p_eng (c_es c)) cmd) = [] ->
  send_command (proc SS) eng c cmd [] =
    ({| c_gameid := c_gameid c; c_es := {| p_eng := sr_eng (step (p_eng (c_es c)) cmd); p_alive := true |}; c_buf := []; c_closed := false |}, ROk []).
Proof.
  intros (Hb & Hc & Ha & _) Hr Ho. unfold send_command. rewrite (proc_running _ _ Ha Hr). cbn [er_state er_out er_closed].
  rewrite Hb, Hc, Ho. reflexivity.
Qed.

(* client_server_move_legal: a client in step with a running engine (nothing unread in the pipe) starts a game of p's size and asks
   for a move in p - a live position on the hypotheses of C10's exact round trip, with a deadline and clocks that can be said in
   milliseconds.  Against the engine model whose searcher answers live positions with a legal, wire-shaped first PV move
   (the hypothesis of C17_tei_one_bestmove), NewGame succeeds, TEIGetMove returns Ok m, m is accepted by the move model in p
   (it is the searcher's move, through FormatMove and ParseMove: C11), the engine holds exactly p, and client and engine are in
   step again. *)
Theorem client_server_move_legal_at (c : client (proc SS)) p dl tc :
  searcher_ok_wire_at p -> in_sync c ->
  pos_ok p -> reserves_match_board p -> Move.black_wins_ties p = false -> (0 <= Move.move p < 2 ^ 63)%Z ->
  (forall d, dl = Some d -> int64 d) -> (forall t, tc = Some t -> tc_int64 t) -> go_words dl tc <> None ->
  exists c1 g, new_game (proc SS) eng c (Z.of_N (Move.size p)) = (c1, ROk g) /\
  exists c2 m, tei_get_move (proc SS) eng c1 g p dl tc = (c2, ROk m) /\
    legal basis p (to_rmove m) /\ in_sync c2 /\ e_pos (p_eng (c_es c2)) = Some p.
Proof.
  intros Hs Hsync Hp RM Hb Hm Hdl Htc Hgo. pose proof (po_size _ Hp) as Hsz.
  destruct Hsync as (Hbuf & Hcl & Hal & Hwf).
  (* NewGame *)
  unfold new_game.
  set (c0 := {| c_gameid := wrap64 (c_gameid c + 1); c_es := c_es c; c_buf := c_buf c; c_closed := c_closed c |}).
  assert (S0 : in_sync c0) by (repeat split; assumption || apply Hwf).
  assert (N1 := step_newgame_line basis SS mk_searcher search (p_eng (c_es c0)) (Z.of_N (Move.size p)) ltac:(lia)).
  rewrite (send_quiet c0 _ S0) by (rewrite N1; reflexivity). rewrite N1. cbn [sr sr_eng].
  eexists _, _. split; [reflexivity|].
  (* TEIGetMove: the position line *)
  unfold tei_get_move. cbn [c_gameid]. rewrite Z.eqb_refl. cbn [negb].
  set (c1 := {| c_gameid := c_gameid c0; c_es := {| p_eng := {| e_mm := None; e_pos := None; e_size := Z.of_N (Move.size p) |}; p_alive := true |};
                c_buf := []; c_closed := false |}).
  assert (S1 : in_sync c1).
  { repeat split; try reflexivity; cbn; intros; discriminate. }
  assert (P1 := step_position_line basis SS mk_searcher search (p_eng (c_es c1)) p Hsz Hm eq_refl p (tps_round_trip_exact p Hp RM Hb Hm) eq_refl).
  rewrite (send_quiet c1 _ S1) by (rewrite P1; reflexivity). rewrite P1. clear S1 P1. subst c1. cbn [sr sr_eng p_eng c_es e_mm e_size c_gameid].
  (* the go line *)
  destruct (go_words dl tc) as [ws|] eqn:Egw; [|congruence].
  destruct (client_go_line dl tc ws Hdl Htc Egw) as (args & -> & Hfields & Hparse).
  set (e2 := ({| e_mm := None; e_pos := Some p; e_size := Z.of_N (Move.size p) |} : engine SS)).
  assert (W2 : wf_engine SS e2).
  { split; cbn; [intros q Hq; injection Hq as <-; reflexivity|intros; discriminate]. }
  destruct (step_go_answer e2 (go_line (s_go :: args)) args p Hs W2 Hfields eq_refl ltac:(rewrite Hparse; discriminate))
    as (m & rest & v & d & n & Hout & Hst & Hleg & Hwire & Hpos & Hwf3).
  unfold send_command. cbn [c_es c_buf c_closed c_gameid].
  rewrite (proc_running {| p_eng := e2; p_alive := true |} _ eq_refl Hst). cbn [er_state er_out er_closed app orb p_eng p_alive].
  rewrite Hout.
  assert (Hshape : legal_shape (of_rmove m)).
  { destruct Hleg as [q Hq]. exact (legal_wire_shape basis p m q Hsz Hq Hwire). }
  assert (Hword : word (fmt_move m)) by (unfold fmt_move; now apply format_move_word).
  destruct (fields_info_line (m :: rest) v d n) as (iw & Hinfo).
  assert (Hsb : s_bestmove <> []) by discriminate.
  destruct s_bestmove as [|b0 br] eqn:Esb; [congruence|]. rewrite <- Esb.
  cbn [wait_for]. rewrite Hinfo.
  change (bytes_eqb (str "info") s_bestmove) with false. cbv iota.
  rewrite (fields_bestmove_line m Hword).
  change (bytes_eqb s_bestmove s_bestmove) with true. cbv iota.
  cbn [List.length Nat.eqb negb nth].
  unfold fmt_move. rewrite (ptn_roundtrip false _ Hshape).
  eexists _, _. split; [reflexivity|]. rewrite to_of_rmove. split; [exact Hleg|].
  cbn [c_es p_eng c_buf c_closed p_alive]. split; [|exact Hpos].
  repeat split; try reflexivity; apply Hwf3.
Qed.

Theorem client_server_move_legal (c : client (proc SS)) p dl tc :
  searcher_ok_wire -> in_sync c ->
  pos_ok p -> reserves_match_board p -> Move.black_wins_ties p = false -> (0 <= Move.move p < 2 ^ 63)%Z -> live p ->
  (forall d, dl = Some d -> int64 d) -> (forall t, tc = Some t -> tc_int64 t) -> go_words dl tc <> None ->
  exists c1 g, new_game (proc SS) eng c (Z.of_N (Move.size p)) = (c1, ROk g) /\
  exists c2 m, tei_get_move (proc SS) eng c1 g p dl tc = (c2, ROk m) /\
    legal basis p (to_rmove m) /\ in_sync c2 /\ e_pos (p_eng (c_es c2)) = Some p.
Proof.
  intros Hs Hsync Hp RM Hb Hm Hl. apply client_server_move_legal_at; try assumption.
  intros s lim. exact (Hs s lim p Hl).
Qed.
End Comp.

(* ---- totality of the client model ---- *)
Section Total.
Variable ES : Type.
Variable eng : ES -> list N -> option (eresp ES).

Definition blank (l : list N) : Prop := fields l = [].

Lemma wait_for_panics expect : forall buf closed rest w, wait_for expect buf closed = (rest, RPanic w) ->
  w = PBlankLine /\ exists l, In l buf /\ blank l.
Proof.
  induction buf as [|l r IH]; intros closed rest w H; cbn [wait_for] in H.
  - destruct closed; discriminate H.
  - destruct (fields l) as [|w0 ws] eqn:E.
    + injection H as _ <-. split; [reflexivity|]. exists l. split; [now left|exact E].
    + destruct (bytes_eqb w0 expect); [discriminate H|]. destruct (IH _ _ _ H) as (-> & l' & Hin & Hb).
      split; [reflexivity|]. exists l'. split; [now right|exact Hb].
Qed.

(* what is in the pipe when sendCommand starts to read *)
Definition pipe_after (c : client ES) (cmd : list N) : list (list N) :=
  match eng (c_es c) cmd with
  | Some r => if c_closed c then c_buf c else c_buf c ++ er_out r
  | None => c_buf c
  end.

Lemma send_command_panics c cmd expect c' w : send_command ES eng c cmd expect = (c', RPanic w) ->
  w = PBlankLine /\ expect <> [] /\ exists l, In l (pipe_after c cmd) /\ blank l.
Proof.
  unfold send_command, pipe_after. destruct (eng (c_es c) cmd) as [r|]; [|discriminate].
  destruct expect as [|x xs]; [discriminate|].
  destruct (wait_for (x :: xs) (if c_closed c then c_buf c else c_buf c ++ er_out r) (c_closed c || er_closed r)) as [rest o] eqn:E.
  intros H. injection H as _ ->. destruct (wait_for_panics _ _ _ _ _ E) as (-> & l & Hin & Hb).
  split; [reflexivity|]. split; [discriminate|]. now exists l.
Qed.

Lemma send_quiet_no_panic c cmd c' w : send_command ES eng c cmd [] <> (c', RPanic w).
Proof. unfold send_command. destruct (eng (c_es c) cmd); discriminate. Qed.

(* client_total, TEIGetMove: the model panics only (1) when the player's game is not the client's current game - then at once, before
   anything is written - or (2) with `index out of range` in sendCommand's reading loop, and then the engine's output met by that
   loop contained a line without a word (empty or white space only). *)
Theorem tei_get_move_panics c pgid p dl tc c' w : tei_get_move ES eng c pgid p dl tc = (c', RPanic w) ->
  (w = PDeadPlayer /\ pgid <> c_gameid c /\ c' = c) \/
  (w = PBlankLine /\ pgid = c_gameid c /\
   exists c1 ws l, send_command ES eng c (position_line p) [] = (c1, ROk []) /\ go_words dl tc = Some ws /\
                   In l (pipe_after c1 (go_line ws)) /\ blank l).
Proof.
  unfold tei_get_move. destruct (Z.eqb_spec pgid (c_gameid c)) as [E|E]; cbn [negb].
  2:{ intros H. injection H as <- <-. left. auto. }
  intros H. right.
  destruct (send_command ES eng c (position_line p) []) as [c1 o1] eqn:S1.
  destruct o1 as [a| | |]; try discriminate H.
  2:{ injection H as -> ->. exfalso. exact (send_quiet_no_panic _ _ _ _ S1). }
  assert (a = []) as ->.
  { unfold send_command in S1. destruct (eng (c_es c) (position_line p)); [injection S1 as _ <-; reflexivity|discriminate S1]. }
  destruct (go_words dl tc) as [ws|] eqn:G; [|discriminate H].
  destruct (send_command ES eng c1 (go_line ws) s_bestmove) as [c2 o2] eqn:S2.
  destruct o2 as [bm| | |]; try discriminate H.
  - destruct (negb (List.length bm =? 2)%nat); [discriminate H|].
    pose proof (parse_move_total (nth 1 bm [])) as T. destruct (parse_move (nth 1 bm [])); try discriminate H. congruence.
  - injection H as -> ->. destruct (send_command_panics _ _ _ _ _ S2) as (-> & _ & l & Hin & Hb).
    split; [reflexivity|]. split; [exact E|]. exists c1, ws, l. auto.
Qed.

(* ... GetMove adds its own panic on every error; NewGame never panics or blocks; the handshake panics only on a blank line *)
Theorem get_move_panics c pgid p dl c' w : get_move ES eng c pgid p dl = (c', RPanic w) ->
  (w = PDeadPlayer /\ pgid <> c_gameid c) \/ (w = PBlankLine /\ pgid = c_gameid c) \/
  (exists e, w = PGetMove e /\ tei_get_move ES eng c pgid p dl None = (c', RErr e)).
Proof.
  unfold get_move. destruct (tei_get_move ES eng c pgid p dl None) as [c1 o] eqn:T. destruct o as [m|e|w'|]; try discriminate.
  - intros H. injection H as <- <-. right. right. now exists e.
  - intros H. injection H as <- <-. destruct (tei_get_move_panics _ _ _ _ _ _ _ T) as [(-> & H1 & _)|(-> & H1 & _)]; auto.
Qed.

Theorem new_game_total c size : (exists c' g, new_game ES eng c size = (c', ROk g)) \/ (exists c', new_game ES eng c size = (c', RErr EWrite)).
Proof.
  unfold new_game, send_command. cbn [c_es c_closed c_buf c_gameid].
  destruct (eng (c_es c) (newgame_line size)); [left|right]; eexists; try eexists; reflexivity.
Qed.

Theorem new_client_panics es0 c w : new_client ES eng es0 = (c, RPanic w) -> w = PBlankLine.
Proof.
  unfold new_client. destruct (send_command ES eng _ s_tei s_teiok) as [c1 o] eqn:S. destruct o; try discriminate.
  intros H. injection H as _ <-. now destruct (send_command_panics _ _ _ _ _ S).
Qed.

(* With an engine that never prints a line without a word, and nothing blank waiting in the pipe, a live player never panics. *)
Definition eng_clean : Prop := forall s line r, eng s line = Some r -> Forall (fun l => ~ blank l) (er_out r).

Lemma send_command_buf c cmd expect c' o : eng_clean -> Forall (fun l => ~ blank l) (c_buf c) ->
  send_command ES eng c cmd expect = (c', o) -> Forall (fun l => ~ blank l) (pipe_after c cmd) /\ Forall (fun l => ~ blank l) (c_buf c').
Proof.
  intros Hc Hb. unfold send_command, pipe_after. destruct (eng (c_es c) cmd) as [r|] eqn:E.
  2:{ intros H. injection H as <- _. auto. }
  assert (Hp : Forall (fun l => ~ blank l) (if c_closed c then c_buf c else c_buf c ++ er_out r)).
  { destruct (c_closed c); [exact Hb|]. apply Forall_app. split; [exact Hb|exact (Hc _ _ _ E)]. }
  split; [exact Hp|]. destruct expect as [|x xs].
  - injection H as <- _. exact Hp.
  - destruct (wait_for (x :: xs) _ _) as [rest o'] eqn:W. injection H as <- _. cbn [c_buf].
    revert Hp W. generalize (if c_closed c then c_buf c else c_buf c ++ er_out r). generalize (c_closed c || er_closed r).
    intros closed buf. revert rest o'. induction buf as [|l b IH]; intros rest o' Hp W; cbn [wait_for] in W.
    + injection W as <- _. constructor.
    + inversion Hp as [|? ? Hl Hb']; subst. destruct (fields l) as [|w0 ws]; [injection W as <- _; exact Hb'|].
      destruct (bytes_eqb w0 (x :: xs)); [injection W as <- _; exact Hb'|]. now apply (IH _ _ Hb' W).
Qed.

Theorem tei_get_move_no_panic c p dl tc c' w : eng_clean -> Forall (fun l => ~ blank l) (c_buf c) ->
  tei_get_move ES eng c (c_gameid c) p dl tc <> (c', RPanic w).
Proof.
  intros Hc Hb H. destruct (tei_get_move_panics _ _ _ _ _ _ _ H) as [(_ & Hne & _)|(_ & _ & c1 & ws & l & S1 & _ & Hin & Hbl)]; [congruence|].
  destruct (send_command_buf _ _ _ _ _ Hc Hb S1) as [_ Hb1].
  destruct (send_command ES eng c1 (go_line ws) s_bestmove) as [c2 o2] eqn:S2.
  destruct (send_command_buf _ _ _ _ _ Hc Hb1 S2) as [Hp _]. rewrite Forall_forall in Hp. exact (Hp l Hin Hbl).
Qed.
End Total.

(* the engine model never prints a blank line: every line of Run's output starts with a word *)
Lemma tei_proc_clean basis SS mk search : eng_clean (proc SS) (tei_proc basis SS mk search).
Proof.
  intros st line r H. unfold tei_proc in H. destruct (negb (p_alive st)); [discriminate H|]. injection H as <-. cbn [er_out].
  rewrite step_classify. destruct (classify line) as [| | |a|a|a| | |]; cbn [sr sr_out]; try apply Forall_nil.
  - repeat constructor; intros E; vm_compute in E; discriminate E.
  - unfold step_new. destruct a as [|a0 ar]; [constructor|]. destruct (atoi_go a0) as [n ok].
    destruct (negb ok || (n <? 3)%Z || (8 <? n)%Z); constructor.
  - unfold step_pos. destruct (parse_position basis (e_size (p_eng st)) a); constructor.
  - unfold step_go, Tei.do_go. cbn [sr_out]. destruct (e_pos (p_eng st)) as [p|]; [|constructor].
    destruct (parse_go a targs0) as [ta|]; [|constructor].
    destruct (analyze_mm SS search _ _ p) as [[s' [[[pv v] d] n]]| |]; try constructor.
    destruct pv as [|m pv]; [constructor|]. cbn [gr_out].
    constructor; [|constructor; [|constructor]].
    + destruct (fields_info_line (m :: pv) v d n) as (ws & E). unfold blank. rewrite E. discriminate.
    + unfold blank, bestmove_line. change (str "bestmove " ++ fmt_move m) with (str "bestmove" ++ 32 :: fmt_move m).
      rewrite fields_first by apply s_bestmove_word. discriminate.
  - repeat constructor; intros E; vm_compute in E; discriminate E.
Qed.

(* client_total for the composition: against the engine model a live player's TEIGetMove never panics, whatever the searcher does *)
Theorem client_tei_no_panic basis SS mk search (c : client (proc SS)) p dl tc c' w :
  Forall (fun l => ~ blank l) (c_buf c) ->
  tei_get_move (proc SS) (tei_proc basis SS mk search) c (c_gameid c) p dl tc <> (c', RPanic w).
Proof. apply tei_get_move_no_panic. apply tei_proc_clean. Qed.
