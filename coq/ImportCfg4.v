(* C14, custom configurations, part 4: the last clause for Symmetries under the position's own configuration
   (SymmetryCfg.symmetries_cfg): "each distinct image exactly once, each paired with the transform that produces it";
   and non-vacuity: a 5x5 game under an enlarged piece set with BlackWinsTies, a tied full 3x3 board under BlackWinsTies whose
   eight images all report Black's win (the default-configuration model of the image reported a draw there). *)
From Coq Require Import NArith ZArith Arith List Bool Lia ZifyN ZifyBool ZifyNat Permutation.
Require Import Rules Sym SymRules1 SymRules2 SymRules3 SymRules4.
Require Import Board Stack Move Refine Slide2 MoveRefines HashInv GameOver Preserve1 Preserve5 Preserve6 Reach1.
Require Import Alloc Generated.Consts.
Require Import Tps TpsCfg Symmetry SymmetryCfg SymCode1 Canon2.
Require Import TpsFacts TpsFacts2 TpsFacts3 TpsFacts4 TpsFacts5 TpsFacts6 TpsFacts8 TpsFacts9 Import1 Import3 Import4 Import5
  ImportCfg1 ImportCfg2 ImportCfg3.
Import ListNotations.
Close Scope Z_scope. Close Scope N_scope.

Definition imgck (stones caps : N) (p : position) (k : nat) : position :=
  image_cfg gen_basis stones caps p (csym (N.to_nat (size p)) k).
Definition all_images_cfg (stones caps : N) (p : position) : list (position * nat) :=
  map (fun i => (imgck stones caps p i, i)) (seq 0 8).

(* Symmetries(p) IS the list of the eight rebuilt images with every entry dropped whose Hash() occurred before: no hypothesis *)
Theorem symmetries_cfg_firsts stones caps p :
  symmetries_cfg gen_basis stones caps p = firsts hkey [] (all_images_cfg stones caps p).
Proof.
  rewrite <- (dedup_firsts hkey). unfold symmetries_cfg. cbv zeta. f_equal.
  transitivity (fold_left (dstep hkey)
    (map (fun i => (image_cfg gen_basis stones caps p (nth i (syms (Z.of_N (size p))) (fun x y => (x, y))), i)) (seq 0 8)) []).
  - apply fold_left_ext2. intros acc pi. unfold dstep, hkey. reflexivity.
  - f_equal. unfold all_images_cfg, imgck. apply map_ext. intros i. now rewrite nth_syms_csym.
Qed.

Lemma all_images_cfg_split stones caps p k : k < 8 ->
  all_images_cfg stones caps p = map (fun i => (imgck stones caps p i, i)) (seq 0 k) ++ (imgck stones caps p k, k) ::
                                 map (fun i => (imgck stones caps p i, i)) (seq (S k) (7 - k)).
Proof.
  intros Hk. unfold all_images_cfg. replace 8 with (k + S (7 - k)) by lia. rewrite seq_app, map_app. cbn [seq map plus]. reflexivity.
Qed.

Lemma all_images_cfg_inv stones caps p l1 x l2 : all_images_cfg stones caps p = l1 ++ x :: l2 ->
  exists k, k < 8 /\ x = (imgck stones caps p k, k) /\ l1 = map (fun i => (imgck stones caps p i, i)) (seq 0 k).
Proof.
  intros E. assert (Hl : length l1 < 8).
  { apply (f_equal (@length _)) in E. unfold all_images_cfg in E. rewrite map_length, seq_length, app_length in E. cbn [length] in E. lia. }
  exists (length l1). split; [exact Hl|]. rewrite (all_images_cfg_split stones caps p (length l1) Hl) in E.
  symmetry in E. apply app_inv_len in E; [|now rewrite map_length, seq_length].
  destruct E as [E1 E2]. injection E2 as E2 _. auto.
Qed.

(* hash and squares of an image do not depend on the configuration *)
Lemma imgck_hash stones caps p k : pos_ok p -> hash_of (imgck stones caps p k) = hash_of (imgk p k).
Proof. intros Hp. unfold imgck, imgk. now destruct (image_cfg_fields stones caps p (csym (N.to_nat (size p)) k) Hp) as (_ & _ & _ & _ & E). Qed.

Lemma imgck_sq stones caps p k : pos_ok p -> sq (abs (imgck stones caps p k)) = sq (abs (imgk p k)).
Proof. intros Hp. unfold imgck, imgk. rewrite (image_cfg_set stones caps p _ Hp). apply set_cfg_abs_sq. Qed.

(* two images showing the same squares are the same record: size, ply, flag and the (recomputed) reserves agree anyway *)
Lemma images_cfg_eq stones caps p i j : i < 8 -> j < 8 -> pos_ok p ->
  sq (abs (imgck stones caps p i)) = sq (abs (imgck stones caps p j)) -> imgck stones caps p i = imgck stones caps p j.
Proof.
  intros Hi Hj Hp Esq. rewrite !imgck_sq in Esq by exact Hp. pose proof (images_eq p i j Hi Hj Hp Esq) as E.
  unfold imgck, imgk in *. rewrite !image_cfg_csym by assumption. now rewrite E.
Qed.

(* two of the eight images with the same Hash() show the same squares; the same condition as Import5.no_collision *)
Definition no_collision_cfg (stones caps : N) (p : position) : Prop :=
  forall i j, i < 8 -> j < 8 -> hash_of (imgck stones caps p i) = hash_of (imgck stones caps p j) ->
              sq (abs (imgck stones caps p i)) = sq (abs (imgck stones caps p j)).

Lemma no_collision_cfg_iff stones caps p : pos_ok p -> (no_collision_cfg stones caps p <-> no_collision p).
Proof.
  intros Hp. unfold no_collision_cfg, no_collision. split; intros H i j Hi Hj E.
  - rewrite <- !(imgck_sq stones caps) by exact Hp. apply H; try assumption. now rewrite !imgck_hash.
  - rewrite !imgck_sq by exact Hp. apply H; try assumption. now rewrite !imgck_hash in E.
Qed.

Theorem symmetries_cfg_exact stones caps p : pos_ok p -> no_collision_cfg stones caps p ->
  let L := symmetries_cfg gen_basis stones caps p in
  (* (A) every entry is an image paired with its transform, the first one that produces it; it carries p's flag and a matching reserve *)
  (forall q k, In (q, k) L -> k < 8 /\ q = imgck stones caps p k /\ pos_ok q /\ Move.black_wins_ties q = Move.black_wins_ties p /\
                              reserves_match_cfg stones caps q /\ forall i, i < k -> imgck stones caps p i <> q) /\
  (* (B) every image is in the list *)
  (forall k, k < 8 -> exists j, j <= k /\ In (imgck stones caps p k, j) L) /\
  (* (C) exactly once *)
  NoDup (map (fun x => sq (abs (fst x))) L) /\ NoDup (map hkey L).
Proof.
  intros Hp NC L. subst L. rewrite symmetries_cfg_firsts.
  assert (Hsame : forall i j, i < 8 -> j < 8 -> hash_of (imgck stones caps p i) = hash_of (imgck stones caps p j) ->
                              imgck stones caps p i = imgck stones caps p j).
  { intros i j Hi Hj E. apply images_cfg_eq; auto. }
  split; [|split; [|split]].
  - intros q k Hin. apply firsts_In in Hin as (_ & l1 & l2 & E & Hfirst).
    apply all_images_cfg_inv in E as (k' & Hk' & Ex & ->). injection Ex as -> ->.
    split; [exact Hk'|]. split; [reflexivity|]. split; [apply image_cfg_pos_ok; exact Hp|].
    split; [now destruct (image_cfg_fields stones caps p (csym (N.to_nat (size p)) k') Hp) as (_ & _ & E & _)|].
    split; [now apply image_cfg_matches|].
    intros i Hi Eq. apply (Hfirst (imgck stones caps p i, i)).
    + apply in_map_iff. exists i. split; [reflexivity|apply in_seq; lia].
    + unfold hkey. cbn [fst]. now rewrite Eq.
  - intros k Hk.
    assert (Hex : exists j, j <= k /\ hash_of (imgck stones caps p j) = hash_of (imgck stones caps p k) /\
                            forall i, i < j -> hash_of (imgck stones caps p i) <> hash_of (imgck stones caps p k)).
    { clear Hk. induction k as [k IH] using lt_wf_ind.
      destruct (existsb (fun i => (hash_of (imgck stones caps p i) =? hash_of (imgck stones caps p k))%N) (seq 0 k)) eqn:Ex.
      - apply existsb_exists in Ex as (i & Hi & Ei). apply in_seq in Hi. apply N.eqb_eq in Ei.
        destruct (IH i ltac:(lia)) as (j & Hj & Ej & Hm). exists j. split; [lia|]. split; [congruence|].
        intros i' Hi'. rewrite <- Ei. now apply Hm.
      - exists k. split; [lia|]. split; [reflexivity|]. intros i Hi E.
        assert (Hn : existsb (fun i => (hash_of (imgck stones caps p i) =? hash_of (imgck stones caps p k))%N) (seq 0 k) = true).
        { apply existsb_exists. exists i. split; [apply in_seq; lia|now apply N.eqb_eq]. }
        congruence. }
    destruct Hex as (j & Hj & Ej & Hm). exists j. split; [exact Hj|].
    rewrite <- (Hsame j k ltac:(lia) Hk Ej).
    apply (firsts_keeps hkey _ [] _ _ _ (all_images_cfg_split stones caps p j ltac:(lia))); [intros []|].
    intros y Hy. apply in_map_iff in Hy as (i & <- & Hi). apply in_seq in Hi. unfold hkey. cbn [fst].
    rewrite Ej. apply Hm. lia.
  - apply (NoDup_map_coarser hkey); [|apply firsts_NoDup].
    intros [q1 k1] [q2 k2] H1 H2 E. cbn [fst] in E. unfold hkey. cbn [fst].
    apply firsts_In in H1 as (_ & a1 & a2 & E1 & _). apply all_images_cfg_inv in E1 as (i & Hi & Ex1 & _). injection Ex1 as -> ->.
    apply firsts_In in H2 as (_ & b1 & b2 & E2 & _). apply all_images_cfg_inv in E2 as (j & Hj & Ex2 & _). injection Ex2 as -> ->.
    f_equal. now apply images_cfg_eq.
  - apply firsts_NoDup.
Qed.
Print Assumptions symmetries_cfg_exact.

(* each listed position abstracts to the specification-level image under its transform: reserves and flag included *)
Corollary symmetries_cfg_abs stones caps p q k : pos_ok p -> reserves_match_cfg stones caps p ->
  In (q, k) (symmetries_cfg gen_basis stones caps p) -> k < 8 /\ q = imgck stones caps p k /\ abs q = img k (abs p).
Proof.
  intros Hp RM Hin. rewrite symmetries_cfg_firsts in Hin. apply firsts_In in Hin as (_ & l1 & l2 & E & _).
  apply all_images_cfg_inv in E as (k' & Hk' & Ex & _). injection Ex as -> ->.
  split; [exact Hk'|]. split; [reflexivity|]. now apply image_cfg_abs.
Qed.
Print Assumptions symmetries_cfg_abs.

(* the pairing does not depend on the configuration: the same indices as the default-configuration model lists *)
Lemma firsts_map_snd {A B} (key1 : A -> N) (key2 : B -> N) (f1 : A -> nat) (f2 : B -> nat) :
  forall (l1 : list A) (l2 : list B) seen, map key1 l1 = map key2 l2 -> map f1 l1 = map f2 l2 ->
  map f1 (firsts key1 seen l1) = map f2 (firsts key2 seen l2).
Proof.
  induction l1 as [|a l1 IH]; intros [|b l2] seen Hk Hf; try discriminate; [reflexivity|].
  cbn [map] in Hk, Hf. injection Hk as Hk1 Hk2. injection Hf as Hf1 Hf2. cbn [firsts]. rewrite Hk1.
  destruct (existsb (N.eqb (key2 b)) seen); [now apply IH|]. cbn [map]. f_equal; [exact Hf1|]. now apply IH.
Qed.

Theorem symmetries_cfg_indices stones caps p : pos_ok p ->
  map snd (symmetries_cfg gen_basis stones caps p) = map snd (symmetries gen_basis p).
Proof.
  intros Hp. rewrite symmetries_cfg_firsts, symmetries_firsts. apply firsts_map_snd.
  - unfold all_images_cfg, all_images. rewrite !map_map. apply map_ext. intros i. unfold hkey. cbn [fst]. now apply imgck_hash.
  - unfold all_images_cfg, all_images. rewrite !map_map. reflexivity.
Qed.

(* ==================== non-vacuity ==================== *)
Require Import PreserveEx.

(* the 14-ply 5x5 game of PreserveEx.v played with 25 stones and 2 capstones a side under BlackWinsTies *)
Definition start5c := Alloc.new_pos 5 true 25 2.
Definition p14c : position := match replay start5c ms14 with Ok p => p | _ => start5c end.
Lemma replay_ms14c : replay start5c ms14 = Ok p14c.
Proof. vm_compute. reflexivity. Qed.

Lemma p14c_hyps : pos_ok p14c /\ reserves_match_cfg 25 2 p14c /\ res_sums_ok p14c /\ Move.black_wins_ties p14c = true /\ size p14c = 5%N.
Proof. apply (reachable_matches_cfg 5 true 25 2 ms14 p14c); [lia|vm_compute; discriminate|exact no_pass_ms14|exact replay_ms14c]. Qed.

Example ex_image_cfg_move_commutes :
  exists m' p', transform_move (csym 5 6) m_long = Ok m' /\ m' <> m_long /\ mv p14c m_long = Ok p' /\
    mv (image_cfg gen_basis 25 2 p14c (csym 5 6)) m' = Ok (image_cfg gen_basis 25 2 p' (csym 5 6)) /\
    White (image_cfg gen_basis 25 2 p14c (csym 5 6)) <> White p14c /\
    Move.black_wins_ties (image_cfg gen_basis 25 2 p14c (csym 5 6)) = true /\
    whiteStones (image_cfg gen_basis 25 2 p14c (csym 5 6)) = 23%N /\ whiteStones (image gen_basis p14c (csym 5 6)) = 19%N /\
    game_over (image_cfg gen_basis 25 2 p14c (csym 5 6)) = game_over p14c.
Proof.
  destruct p14c_hyps as (A & B & C & D & S).
  assert (F : fits64 p14c m_long) by (intros s Hs; vm_compute in Hs; injection Hs as <-; repeat constructor).
  assert (M : mT m_long <> 1%N) by discriminate.
  assert (T : transformable m_long) by (unfold transformable; cbn; lia).
  pose proof (image_cfg_move_commutes 25 2 6 p14c m_long ltac:(lia) A B F T M) as H. cbv zeta in H.
  pose proof (image_cfg_gameover_invariant 25 2 6 p14c ltac:(lia) A B C) as G. cbv zeta in G.
  rewrite S in H, G. change (N.to_nat 5) with 5 in H, G.
  assert (Et : transform_move (csym 5 6) m_long = Ok {| mX := 1; mY := 0; mT := 7; mS := 4370 |}) by (vm_compute; reflexivity).
  rewrite Et in H.
  assert (E : exists p', mv p14c m_long = Ok p') by (eexists; vm_compute; reflexivity). destruct E as [p' E].
  rewrite E in H. destruct H as (H & _).
  exists {| mX := 1; mY := 0; mT := 7; mS := 4370 |}, p'. split; [exact Et|]. split; [discriminate|]. split; [exact E|]. split; [exact H|].
  split; [vm_compute; discriminate|]. split; [rewrite (proj1 G); exact D|].
  split; [vm_compute; reflexivity|]. split; [vm_compute; reflexivity|apply G].
Qed.

(* a full 3x3 board with four flats each (white corners, black edges), a black wall in the middle, a black captive under a1 and a white one under b1,
   6 stones a side, BlackWinsTies: the flat count is tied, Black wins; every one of the eight images rebuilt under the position's
   configuration says so, while the image rebuilt under the default configuration (the old model) reports a draw *)
Definition tie_board3 : list (list (list pc)) :=
  [ [[P false 1; P true 1]; [P true 1; P false 1]; [P false 1]];
    [[P true 1]; [P true 2]; [P true 1]];
    [[P false 1]; [P true 1]; [P false 1]] ].
Definition p_tie : position := from_squares_cfg gen_basis 3 6 0 true tie_board3 17.

Example ex_tie_black_wins :
  pos_ok p_tie /\ reserves_match_cfg 6 0 p_tie /\ res_sums_ok p_tie /\ game_over p_tie = Some (true, GBlack) /\
  (forall k, k < 8 -> game_over (imgck 6 0 p_tie k) = Some (true, GBlack) /\ game_over (imgk p_tie k) = Some (true, GNone)) /\
  map snd (symmetries_cfg gen_basis 6 0 p_tie) = [0; 1; 2; 3; 4; 5; 6; 7].
Proof.
  assert (FB : fit_board 3 tie_board3) by (apply fit_boardb_ok; vm_compute; reflexivity).
  assert (A : pos_ok p_tie) by (exact (from_squares_cfg_pos_ok 3 6 0 true tie_board3 17 FB)).
  assert (B : reserves_match_cfg 6 0 p_tie) by (exact (from_squares_cfg_matches 3 6 0 true tie_board3 17 FB)).
  assert (C : res_sums_ok p_tie) by (vm_compute; split; reflexivity).
  split; [exact A|]. split; [exact B|]. split; [exact C|]. split; [vm_compute; reflexivity|]. split.
  - intros k Hk. do 8 (destruct k as [|k]; [split; vm_compute; reflexivity|]). lia.
  - vm_compute. reflexivity.
Qed.
