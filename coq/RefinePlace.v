From Coq Require Import NArith ZArith List Bool Lia ZifyN ZifyBool ZifyNat.
Require Import Board Rules Move Refine.
Import ListNotations.
Ltac Zify.zify_post_hook ::= Z.div_mod_to_equations.

(* ---- small arithmetic facts ---- *)
Lemma wrap8_id z : (-128 <= z < 128)%Z -> wrap8 z = z.
Proof. unfold wrap8. intros. lia. Qed.

Lemma uint_of_int_id z : (0 <= z < 2^64)%Z -> uint_of_int z = Z.to_N z.
Proof. unfold uint_of_int. intros. f_equal. apply Z.mod_small. lia. Qed.

Lemma sq_index_on_board p x y :
  (3 <= size p <= 8)%N -> (0 <= x < Z.of_N (size p))%Z -> (0 <= y < Z.of_N (size p))%Z ->
  sq_index p x y = Z.to_N (x + y * Z.of_N (size p)) /\ (sq_index p x y < size p * size p)%N.
Proof.
  intros Hs Hx Hy. unfold sq_index.
  rewrite (wrap8_id (Z.of_N (size p))) by lia.
  rewrite (wrap8_id (y * Z.of_N (size p))) by nia.
  rewrite wrap8_id by nia. rewrite uint_of_int_id by nia. split; [reflexivity|]. nia.
Qed.

(* ---- bit facts ---- *)
Lemma bit_lt i : (i < 64)%N -> bit i = N.shiftl 1 i.
Proof. unfold bit. intros. destruct (N.ltb_spec i 64); [reflexivity|lia]. Qed.

Lemma testbit_bit i j : (i < 64)%N -> N.testbit (bit i) j = (j =? i)%N.
Proof.
  intros H. rewrite bit_lt by assumption. destruct (N.eqb_spec j i) as [->|Hn].
  - rewrite N.shiftl_spec_high' by lia. now rewrite N.sub_diag.
  - destruct (N.lt_ge_cases j i).
    + now rewrite N.shiftl_spec_low.
    + rewrite N.shiftl_spec_high' by lia. apply N.bits_above_log2. simpl. lia.
Qed.

Lemma has_spec b i : (i < 64)%N -> has b i = N.testbit b i.
Proof.
  intros H. unfold has.
  destruct (N.testbit b i) eqn:E.
  - destruct (N.eqb_spec (N.land b (bit i)) 0) as [Z|Z]; [|reflexivity].
    assert (N.testbit (N.land b (bit i)) i = true) by (rewrite N.land_spec, E, testbit_bit, N.eqb_refl; auto).
    rewrite Z in H0. now rewrite N.bits_0 in H0.
  - destruct (N.eqb_spec (N.land b (bit i)) 0) as [Z|Z]; [reflexivity|].
    exfalso. apply Z. apply N.bits_inj. intros j. rewrite N.land_spec, N.bits_0, testbit_bit by assumption.
    destruct (N.eqb_spec j i) as [->|]; [now rewrite E|now rewrite andb_false_r].
Qed.

Lemma has_setb b i j : (i < 64)%N -> (j < 64)%N -> has (setb b i) j = (has b j || (j =? i)%N).
Proof. intros. rewrite !has_spec by assumption. unfold setb. now rewrite N.lor_spec, testbit_bit. Qed.

Lemma has_lor a b i : (i < 64)%N -> has (N.lor a b) i = has a i || has b i.
Proof. intros. rewrite !has_spec by assumption. apply N.lor_spec. Qed.

