(* SearchPv4.v: SearchPv3.analyze_all_lines_replay instantiated (as SearchPv2.v): every line AnalyzeAll lists replays from p. *)
From Coq Require Import NArith ZArith List Bool Lia.
Require Import Board Stack Rules Move GameOver Refine Alloc Slide2 Slide6 Preserve1 Preserve5 Preserve6 Reach1 PreserveEx.
Require Import Eval EvalSpec Search NegamaxSpec SearchGen SearchExact SearchInst SearchC CancelEx SearchNeg1 SearchNeg2 SearchNeg3 SearchNeg4 SearchNeg5.
Require Import SearchAll1 SearchAll3 SearchPv1 SearchPv2 SearchPv3.
Require Import Generated.Consts.
Import ListNotations.
Open Scope Z_scope.

(* MakePrecise, no table, any sort setting, both evaluators, every board size, games of at most 64 pieces, cancelled at any point or never:
   every line of the (repaired) AnalyzeAll replays from p move by move *)
Theorem analyze_all_lines_replay_64 : forall cfg, precise cfg -> builtin_eval cfg ->
  forall k s p sk pvs v d c,
  SI s -> base_ok p -> (total p <= 64)%N -> move p + 16 <= max_terminal_ply ->
  analyze_all_cancel gen_basis cfg k s p = (sk, (pvs, v, d, c)) ->
  Forall (fun l => exists q, replay p l = Ok q) pvs.
Proof.
  intros cfg (P1 & P2 & P3) HE k s p sk pvs v d c HS Hb Ht Hm H. assert (NC : false = false \/ cancelled k sk = false) by (left; reflexivity).
  assert (W : forall n, within n p) by (intros n; apply within_total64; [apply Hb|exact Ht]).
  assert (R : Forall (legal_line gen_basis p) pvs).
  { destruct HE as [Hev|Hev].
    - apply (analyze_all_lines_replay false gen_basis cfg k P1 P2 P3 PosW PosW_closed
               (fun d p m q HP EO => base_ok_hint p m q (proj1 HP))
               (fun d p HP EO => base_ok_live p (proj1 HP) EO)
               ltac:(intros d0 p0 _; rewrite Hev; apply evaluate_winner_bounded)
               s p sk pvs v d c HS ltac:(intros d0 _ _; split; [exact Hb|apply W]) H NC).
    - apply (analyze_all_lines_replay false gen_basis cfg k P1 P2 P3 PosD PosD_closed
               (fun d p m q HP EO => base_ok_hint p m q (proj1 (proj1 HP)))
               (fun d p HP EO => base_ok_live p (proj1 (proj1 HP)) EO)
               ltac:(intros d0 p0 ((Hb0 & _) & Hm0); rewrite Hev; apply default_eval_bounded; [apply Hb0|destruct Hb0 as (_ & _ & M0 & _); lia])
               s p sk pvs v d c HS ltac:(intros d0 H1 _; split; [split; [exact Hb|apply W]|lia]) H NC). }
  rewrite Forall_forall in R |- *. intros l Hl. apply legal_line_replay. apply R. exact Hl.
Qed.

(* non-vacuity: the three lines of SearchAll4.ex_all_three (q4, EvaluateWinner, depth 3) all replay; their lengths *)
Example ex_all_lines_replay :
  let pvs := fst (fst (fst (snd (analyze_all gen_basis cfg3w (new_state 0) q4)))) in
  map (fun l => match replay q4 l with Ok _ => length l | _ => 0%nat end) pvs = [3%nat; 3%nat; 3%nat].
Proof. vm_compute. reflexivity. Qed.
