(* Non-vacuity of DfpnRep1.dfpn_disproven_sound_nohit: its hypotheses are met together by the enumerated game of
   DfpnExample.v (3x3, one stone per side) and an actual run with attacker White that took nothing from the table. *)
From Coq Require Import NArith ZArith List Bool Lia.
Require Import Board Move GameOver Eval Search AndOr Pn PnFacts Dfpn DfpnFacts DfpnFactsL DfpnExample DfpnRep1.
Require Import Generated.Consts.
Import ListNotations.
Open Scope N_scope.

Example dfpn_disproven_sound_nohit_applies :
  (let '(s, e, _) := prove gen_basis aw1 1000 1000 16 root0 in result_of aw1 root0 e = 2 /\ ds_hits (dst s) = 0) /\
  forall n, wn position (succs gen_basis) (terminal aw1) (attp aw1) n root0 = false.
Proof.
  assert (Hrun : let '(s, e, _) := prove gen_basis aw1 1000 1000 16 root0 in result_of aw1 root0 e = 2 /\ ds_hits (dst s) = 0) by (vm_compute; split; reflexivity).
  split; [exact Hrun|].
  destruct (prove gen_basis aw1 1000 1000 16 root0) as [[s e] w] eqn:E. destruct Hrun as [Hr Hhit].
  apply (dfpn_disproven_sound_nohit gen_basis aw1 Sp0) with (lfuel := 1000%nat) (dfuel := 1000%nat) (entries := 16%nat) (s := s) (e := e) (w := w);
    try assumption.
  - intros p m q Hp Ht Hm Eq. pose proof chk_step_ok as H. unfold chk_step in H. rewrite forallb_forall in H.
    specialize (H p Hp). apply orb_true_iff in H as [H|H]; [apply negb_true_iff in H; apply live_term1 in Ht; congruence|].
    rewrite forallb_forall in H. specialize (H m Hm). unfold Dfpn.dmv in Eq. unfold Dfpn.dmv in H. rewrite Eq in H.
    apply existsb_exists in H as (r & Hr' & Hq). apply pos_eqb_eq in Hq. subst q. exact Hr'.
  - intros p Hp. pose proof chk_small_ok as H. unfold chk_small in H. rewrite forallb_forall in H. apply N.leb_le. now apply H.
  - intros p q Hp Hq Eh. assert (p = q) by (eapply (nodupb_inj hash_of reach0 chk_hash_ok); eauto). subst q. reflexivity.
  - intros p Hp Ht. pose proof chk_moves_ok as H. unfold chk_moves in H. rewrite forallb_forall in H. specialize (H p Hp).
    apply orb_true_iff in H as [H|H]; [apply negb_true_iff in H; apply live_term1 in Ht; congruence|]. destruct (all_moves p); [discriminate|discriminate].
  - intros p Hp Ht Hs Ha. pose proof chk_threats_def_ok as H. unfold chk_threats_def in H. rewrite forallb_forall in H. specialize (H p Hp).
    apply orb_true_iff in H as [H|H]; [apply negb_true_iff in H; apply live_term1 in Ht; congruence|].
    destruct (solve p); [|now contradiction Hs]. apply orb_true_iff in H as [H|H]; [rewrite Ha in H; discriminate|].
    apply existsb_exists in H as (q & Hq & Hqt). exists q. split; [assumption|]. destruct (terminal aw1 q) as [[|]|]; [discriminate Hqt|reflexivity|discriminate Hqt].
  - assert (Hin : existsb (pos_eqb root0) reach0 = true) by (vm_compute; reflexivity).
    apply existsb_exists in Hin as (r & Hr' & Hq). apply pos_eqb_eq in Hq. subst r. exact Hr'.
Qed.
