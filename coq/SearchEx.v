(* SearchEx.v: the model exhibits the defect that commit 8daa71e repaired (DESIGN 5.5 F(a)), and the repaired model does not:
   a second Analyze of the same position on the same engine, with a table, default evaluator, empty 3x3 board, depth 2.
   Evaluated on the instantiated model (constants regenerated from /repo) by vm_compute. *)
From Coq Require Import NArith ZArith List Bool.
Require Import Board Move GameOver Eval Search SearchC SearchInst CancelEx.
Import ListNotations.
Open Scope Z_scope.

Definition cfg_tw := mk_cfg 2 true true true false 0.        (* depth 2, NoSort, precise, default evaluator *)
Definition twice (pinned : bool) : Z * Z :=
  let run := if pinned then run_analyze_pinned else run_analyze in
  let '(s1, (_, v1, _, _, _)) := run cfg_tw 0 (new_state 64) start3 in
  let '(_, (_, v2, _, _, _)) := run cfg_tw 0 s1 start3 in
  (v1, v2).

(* before the repair: the second call reports value 0 although the first reported a non-zero value *)
Lemma analyze_twice_refuted_pinned : exists v1, twice true = (v1, 0) /\ v1 <> 0.
Proof. eexists. split; [vm_compute; reflexivity|discriminate]. Qed.
(* after the repair: the same value again *)
Lemma analyze_twice_fixed : exists v1, twice false = (v1, v1) /\ v1 <> 0.
Proof. eexists. split; [vm_compute; reflexivity|discriminate]. Qed.
