(* TeiTotal.v: the premises of TeiFacts.tei_run_total discharged with the representation invariant `safe` of PtnFileSafe.v
   (every position the parsers return is safe; MovePreallocated preserves safe and does not panic on safe positions) and
   TotalFacts.parse_tps_total: the TEI command stream never crashes (the TEI part of C13). *)
From Coq Require Import NArith ZArith List Bool Lia.
Require Import Board Move GameOver PtnMove Playtak Tps TotalFacts PtnFileSafe TeiBudget Tei TeiSpec TeiFacts.
Import ListNotations.
Open Scope N_scope.

Section T.
Variable basis : list N.
Variable SS : Type.
Variable mk_searcher : Z -> SS.
Variable search : SS -> option Z -> position -> SS * (list rmove * Z * Z * Z).

Lemma new_pos_safe sz p : new_pos basis sz = Move.Ok p -> safe p.
Proof.
  unfold new_pos. destruct ((sz <? 0)%Z || (8 <? sz)%Z) eqn:E; [discriminate|]. destruct (sz <? 3)%Z eqn:E3; [discriminate|].
  intros H. inversion H. apply from_squares_safe.
  apply orb_false_iff in E as [E1 E2]. apply Z.ltb_ge in E1, E2, E3. lia.
Qed.

Lemma tmove_total p m : safe p -> tmove basis p m <> Move.Panic.
Proof. intros Hs H. pose proof (move_prealloc_safe (hash_sq basis) p m Hs) as K. unfold tmove in H. rewrite H in K. exact K. Qed.

Lemma tmove_safe p m q : safe p -> tmove basis p m = Move.Ok q -> safe q.
Proof. intros Hs H. pose proof (move_prealloc_safe (hash_sq basis) p m Hs) as K. unfold tmove in H. rewrite H in K. exact K. Qed.

(* Run on any list of lines, from any engine state whose sizes agree, never panics - whatever the searcher answers *)
Theorem tei_run_total_full lines e :
  wf_engine SS e -> snd (fst (run basis SS mk_searcher search lines e)) <> Crashed.
Proof.
  apply (tei_run_total basis SS mk_searcher search safe).
  - exact new_pos_safe.
  - exact (parse_tps_total basis).
  - exact (parse_tps_safe basis).
  - exact tmove_total.
  - exact tmove_safe.
Qed.

(* ... in particular Engine.Run of a new engine on any byte stream *)
Theorem tei_run_bytes_total (s : list N) :
  snd (fst (run_bytes basis SS mk_searcher search s (engine0 SS))) <> Crashed.
Proof. unfold run_bytes. apply tei_run_total_full. apply wf_engine0. Qed.
End T.
