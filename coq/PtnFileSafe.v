(* A representation invariant `safe` of positions that (1) holds of every position InitialPosition can return,
   (2) is preserved by the model of MovePreallocated, and (3) excludes every panic of MovePreallocated and GameOver
   (index out of range, flood-fill fuel).  No assumption on stack heights or reserves: TPS tags may describe
   arbitrarily tall stacks. *)
From Coq Require Import NArith ZArith List Bool Lia ZifyN ZifyBool ZifyNat.
Require Import Board Move GameOver Groups3 PtnMove Playtak Tps PtnFile.
Import ListNotations.
Local Open Scope N_scope.

Definition inmask (s b : N) : Prop := forall i, N.testbit b i = true -> i < s * s.

Record safe (p : position) : Prop := {
  sf_size : 3 <= size p <= 8;
  sf_h : length (Height p) = N.to_nat (size p * size p);
  sf_st : length (Stacks p) = N.to_nat (size p * size p);
  sf_w : inmask (size p) (White p);
  sf_b : inmask (size p) (Black p) }.

(* ---------- bits ---------- *)
Lemma bit_spec i j : N.testbit (bit i) j = (i <? 64) && (j =? i).
Proof.
  unfold bit. destruct (i <? 64); [|apply N.bits_0].
  rewrite N.shiftl_1_l. rewrite N.pow2_bits_eqb. cbn [andb]. apply N.eqb_sym.
Qed.
Lemma inmask_setb s b i : inmask s b -> i < s * s -> inmask s (setb b i).
Proof.
  intros H L j. unfold setb. rewrite N.lor_spec, bit_spec. intros T. apply orb_true_iff in T. destruct T as [T|T]; [apply H; exact T|].
  apply andb_true_iff in T. destruct T as [_ T]. apply N.eqb_eq in T. subst. exact L.
Qed.
Lemma inmask_clrb s b i : inmask s b -> inmask s (clrb b i).
Proof. intros H j. unfold clrb. rewrite N.ldiff_spec. intros T. apply andb_true_iff in T. apply H. tauto. Qed.
Lemma inmask_ldiff s b c : inmask s b -> inmask s (N.ldiff b c).
Proof. intros H j. rewrite N.ldiff_spec. intros T. apply andb_true_iff in T. apply H. tauto. Qed.
Lemma inmask_0 s : inmask s 0.
Proof. intros j. rewrite N.bits_0. discriminate. Qed.

(* ---------- GameOver never runs out of fuel ---------- *)
Lemma game_over_total p : safe p -> game_over p <> None.
Proof.
  intros [Hs _ _ Hw Hb]. unfold game_over, analyze.
  destruct (groups_spec (size p) Hs _ (inmask_ldiff _ _ (Standing p) Hw)) as (gw & Ew & _).
  destruct (groups_spec (size p) Hs _ (inmask_ldiff _ _ (Standing p) Hb)) as (gb & Eb & _).
  rewrite Ew, Eb. destruct (has_road p gw gb); [discriminate|].
  destruct (_ && _); discriminate.
Qed.

(* ---------- indices ---------- *)
Lemma idx_ok {A} (l : list A) i : i < N.of_nat (length l) -> exists a, idx l i = Ok a.
Proof.
  intros H. unfold idx. replace (i <? N.of_nat (length l)) with true by (symmetry; apply N.ltb_lt; exact H).
  destruct (nth_error l (N.to_nat i)) eqn:E; [eauto|]. apply nth_error_None in E. lia.
Qed.
Lemma updN_length l : forall i v, length (updN l i v) = length l.
Proof. induction l as [|h t IH]; intros [|j] v; cbn; auto. Qed.

Lemma wrap8_small z : (-128 <= z < 128)%Z -> wrap8 z = z.
Proof. intros H. unfold wrap8. rewrite Z.mod_small by lia. lia. Qed.

Lemma sq_index_bound p x y : 3 <= size p <= 8 -> (0 <= x < Z.of_N (size p))%Z -> (0 <= y < Z.of_N (size p))%Z ->
  sq_index p x y < size p * size p.
Proof.
  intros Hs Hx Hy. unfold sq_index.
  assert (E : size p = 3 \/ size p = 4 \/ size p = 5 \/ size p = 6 \/ size p = 7 \/ size p = 8) by lia.
  destruct E as [E|[E|[E|[E|[E|E]]]]]; rewrite E in *; cbn [Z.of_N] in *;
    match goal with |- context [wrap8 (Z.pos ?k)] => rewrite (wrap8_small (Z.pos k)) by lia end;
    rewrite (wrap8_small (y * _)) by lia; rewrite (wrap8_small (x + _)) by lia;
    unfold uint_of_int; rewrite Z.mod_small by lia; lia.
Qed.

Lemma in_board_bounds p x y : 3 <= size p <= 8 -> in_board p x y = true ->
  (0 <= x < Z.of_N (size p))%Z /\ (0 <= y < Z.of_N (size p))%Z.
Proof.
  intros Hs. unfold in_board. rewrite wrap8_small by lia. intros H. apply negb_true_iff in H.
  repeat (apply orb_false_iff in H; destruct H as [H ?]).
  apply Z.ltb_ge in H. apply Z.leb_gt in H2. apply Z.ltb_ge in H1. apply Z.leb_gt in H0. lia.
Qed.

(* ---------- the slide loop ---------- *)
Section Mv.
Variable hsq : N -> N -> N -> N.

Definition bsafe (s : N) (b : bstate) : Prop :=
  length (bhs b) = N.to_nat (s * s) /\ length (bst b) = N.to_nat (s * s) /\ inmask s (bw b) /\ inmask s (bb b).

Lemma drop_at_safe s topk stack ct cN i b : i < s * s -> bsafe s b ->
  match drop_at hsq topk stack ct cN i b with Panic => False | Err => True | Ok b' => bsafe s b' end.
Proof.
  intros Li (Lh & Ls & Mw & Mb). unfold drop_at, bind.
  destruct (idx_ok (bhs b) i ltac:(lia)) as [hi Eh]. destruct (idx_ok (bst b) i ltac:(lia)) as [sti Es].
  destruct (has (bc b) i); [exact I|].
  destruct (has (bs b) i).
  - destruct (negb (ct =? 1) || negb match topk with KCap => true | _ => false end); [exact I|].
    rewrite Eh, Es.
    destruct (ct - cN =? 0); destruct topk; cbn; unfold bsafe; cbn; rewrite !updN_length;
      (destruct (negb (N.land stack (bit (ct - cN)) =? 0)); repeat split; auto using inmask_setb, inmask_clrb).
  - rewrite Eh, Es.
    destruct (ct - cN =? 0); destruct topk; cbn; unfold bsafe; cbn; rewrite !updN_length;
      (destruct (negb (N.land stack (bit (ct - cN)) =? 0)); repeat split; auto using inmask_setb, inmask_clrb).
Qed.

Lemma drops_safe p topk stack dx dy : 3 <= size p <= 8 -> forall ds x y ct b, bsafe (size p) b ->
  match drops hsq p topk stack dx dy x y ct ds b with Panic => False | Err => True | Ok b' => bsafe (size p) b' end.
Proof.
  intros Hs. induction ds as [|cN ds IH]; intros x y ct b Sb; cbn [drops]; [exact Sb|].
  destruct (in_board p (wrap8 (x + dx)) (wrap8 (y + dy))) eqn:IB; cbn [negb]; [|exact I].
  destruct ((cN <? 1) || (ct <? cN)); [exact I|].
  destruct (in_board_bounds p _ _ Hs IB) as [Bx By].
  pose proof (drop_at_safe (size p) topk stack ct cN _ b (sq_index_bound p _ _ Hs Bx By) Sb) as D.
  unfold bind. destruct (drop_at hsq topk stack ct cN (sq_index p (wrap8 (x + dx)) (wrap8 (y + dy))) b) as [b'| |]; [|exact I|contradiction].
  apply IH. exact D.
Qed.
End Mv.

Section Mv2.
Variable hsq : N -> N -> N -> N.

Ltac fin := constructor; cbn; rewrite ?updN_length; auto using inmask_setb, inmask_clrb.

Lemma move_prealloc_safe p m : safe p ->
  match move_prealloc hsq true p m with Panic => False | Err => True | Ok q => safe q end.
Proof.
  intros [Hs Lh Ls Mw Mb]. unfold move_prealloc.
  destruct (Move.mT m =? 1) eqn:T1.
  { apply N.eqb_eq in T1. rewrite T1. destruct (_ && _ && _); exact I. }
  cbn [negb andb]. rewrite andb_true_r.
  destruct ((Move.mX m <? 0) || (Z.of_N (size p) <=? Move.mX m) || (Move.mY m <? 0) || (Z.of_N (size p) <=? Move.mY m))%Z eqn:BC; [exact I|].
  repeat (apply orb_false_iff in BC; destruct BC as [BC ?]).
  apply Z.ltb_ge in BC. apply Z.leb_gt in H1. apply Z.ltb_ge in H0. apply Z.leb_gt in H.
  pose proof (sq_index_bound p (Move.mX m) (Move.mY m) Hs ltac:(lia) ltac:(lia)) as Li.
  set (i := sq_index p (Move.mX m) (Move.mY m)) in *.
  destruct (idx_ok (Height p) i ltac:(lia)) as [hi Eh]. destruct (idx_ok (Stacks p) i ltac:(lia)) as [sti Es].
  unfold bind.
  set (kd := match Move.mT m with 1 => Err | 2 => Ok (inl KFlat) | 3 => Ok (inl KStanding) | 4 => Ok (inl KCap)
             | 5 => Ok (inr (-1, 0)%Z) | 6 => Ok (inr (1, 0)%Z) | 7 => Ok (inr (0, 1)%Z) | 8 => Ok (inr (0, -1)%Z) | _ => Err end).
  assert (KP : kd <> Panic).
  { subst kd. destruct (Move.mT m) as [|q]; [discriminate|]. do 4 (try (destruct q as [q|q|])); cbn; discriminate. }
  destruct kd as [[k|[dx dy]]| |]; [| |exact I|contradiction].
  - (* placement *)
    destruct (Move.move p <? 2)%Z.
    + destruct k; try exact I.
      destruct (has (N.lor (White p) (Black p)) i); [exact I|]. rewrite Eh.
      destruct (negb (to_move_white p)); (destruct (_ <=? 0); [exact I|]); fin.
    + destruct (has (N.lor (White p) (Black p)) i); [exact I|]. rewrite Eh.
      destruct k; destruct (to_move_white p); (destruct (_ <=? 0); [exact I|]); fin.
  - (* slide *)
    destruct (Move.move p <? 2)%Z; [exact I|].
    destruct (existsb (N.eqb 0) (Move.nibbles 8 (Move.mS m))); [exact I|].
    destruct ((size p <? _) || (_ <? 1)); [exact I|].
    rewrite Eh. destruct (hi <? _); [exact I|].
    destruct (to_move_white p && negb (has (White p) i)); [exact I|].
    destruct (negb (to_move_white p) && negb (has (Black p) i)); [exact I|].
    destruct (top_at p (Move.mX m) (Move.mY m)) as [tcol tkind]. rewrite Es.
    assert (FIN : forall w b, inmask (size p) w -> inmask (size p) b ->
      forall tk stk dx' dy' x y ct ds s c hs st h, length hs = N.to_nat (size p * size p) -> length st = N.to_nat (size p * size p) ->
      match (let* r := drops hsq p tk stk dx' dy' x y ct ds {| bw := w; bb := b; bs := s; bc := c; bhs := hs; bst := st; bh := h |} in
             Ok {| size := size p; black_wins_ties := black_wins_ties p;
                   whiteStones := whiteStones p; whiteCaps := whiteCaps p; blackStones := blackStones p; blackCaps := blackCaps p;
                   Move.move := (Move.move p + 1)%Z; White := bw r; Black := bb r; Standing := bs r; Caps := bc r;
                   Height := bhs r; Stacks := bst r; hash := bh r |})
      with Panic => False | Err => True | Ok q => safe q end).
    { intros w b Iw Ib tk stk dx' dy' x y ct ds s c hs st h L1 L2.
      pose proof (drops_safe hsq p tk stk dx' dy' Hs ds x y ct {| bw := w; bb := b; bs := s; bc := c; bhs := hs; bst := st; bh := h |}) as D.
      unfold bind. destruct (drops hsq p tk stk dx' dy' x y ct ds _) as [r| |].
      - destruct D as (R1 & R2 & R3 & R4); [unfold bsafe; cbn; auto|]. constructor; cbn; auto.
      - exact I.
      - apply D. unfold bsafe; cbn; auto. }
    destruct (hi =? _); [|destruct (N.land _ _ =? 0)]; apply FIN; rewrite ?updN_length; auto using inmask_setb, inmask_clrb.
Qed.
End Mv2.

(* ---------- the positions InitialPosition can return ---------- *)
Lemma fold_left_inv {A B} (f : A -> B -> A) (P : A -> Prop) (Q : B -> Prop) l :
  (forall a b, P a -> Q b -> P (f a b)) -> Forall Q l -> forall a, P a -> P (fold_left f l a).
Proof. intros H F. induction F as [|b l Hb F IH]; intros a Pa; cbn; [exact Pa|]. apply IH. apply H; assumption. Qed.

Definition J (sz : N) (acc : N * N * N * N * N * N * N * N * list N * list N * N) : Prop :=
  let '(w, b, s, c, ws, wc, bs, bc, hs, st, h) := acc in
  inmask sz w /\ inmask sz b /\ length hs = N.to_nat (sz * sz) /\ length st = N.to_nat (sz * sz).

Lemma from_squares_safe basis sz board mv : 3 <= sz <= 8 -> safe (from_squares basis sz board mv).
Proof.
  intros Hs. unfold from_squares. cbv zeta.
  match goal with |- context [fold_left ?f ?l ?a] =>
    assert (HJ : J sz (fold_left f l a)); [apply (fold_left_inv f (J sz) (fun ic => (fst ic < N.to_nat sz * N.to_nat sz)%nat))|
    destruct (fold_left f l a) as [[[[[[[[[[w b] s] c] ws] wc] bs] bc] hs] st] h]] end.
  - intros acc [i sq] Ja Hi. cbn [fst] in Hi.
    destruct acc as [[[[[[[[[[w b] s] c] ws] wc] bs] bc] hs] st] h].
    destruct sq as [|[tb tk] rest]; [exact Ja|].
    destruct (fold_left _ (P tb tk :: rest) (ws, wc, bs, bc)) as [[[ws' wc'] bs'] bc'].
    destruct Ja as (Jw & Jb & Jh & Jst).
    assert (Li : N.of_nat i < sz * sz) by lia.
    unfold J. rewrite !updN_length. repeat split; auto.
    + destruct tb; [exact Jw|]. apply (inmask_setb sz w (N.of_nat i) Jw Li).
    + destruct tb; [|exact Jb]. apply (inmask_setb sz b (N.of_nat i) Jb Li).
  - apply Forall_forall. intros [i sq] Hin. apply in_combine_l in Hin. apply in_seq in Hin. cbn [fst]. lia.
  - unfold J. rewrite !repeat_length. repeat split; try apply inmask_0; lia.
  - destruct HJ as (Jw & Jb & Jh & Jst). constructor; cbn; auto.
Qed.

Lemma parse_tps_safe basis s p : parse_tps basis s = Ok p -> safe p.
Proof.
  unfold parse_tps. destruct (negb (length (words s) =? 3)%nat); [discriminate|].
  destruct (atoi (nth 1 (words s) [])) as [turn|]; [|discriminate].
  destruct (atoi (nth 2 (words s) [])) as [mvn|]; [|destruct (negb _); discriminate].
  destruct (negb ((turn =? 1)%Z || (turn =? 2)%Z)); [discriminate|].
  destruct (parse_rows _ []) as [pieces| |]; try discriminate.
  destruct ((length pieces <? 3)%nat || (8 <? length pieces)%nat) eqn:R; [discriminate|].
  destruct (negb (forallb _ pieces)); [discriminate|].
  intros H. inversion H. apply from_squares_safe.
  apply orb_false_iff in R. destruct R as [R1 R2]. apply Nat.ltb_ge in R1, R2. lia.
Qed.

Lemma initial_position_safe basis g p0 : initial_position basis g = Ok p0 -> safe p0.
Proof.
  unfold initial_position. destruct (atoi _) as [sz|]; [|discriminate].
  destruct ((sz <? 3) || (8 <? sz))%Z eqn:R; [discriminate|].
  apply orb_false_iff in R. destruct R as [R1 R2]. apply Z.ltb_ge in R1, R2.
  destruct (find_tag tag_tps (tags g)) as [|c t] eqn:T.
  - unfold tak_new. replace ((sz <? 0) || (8 <? sz))%Z with false by (symmetry; apply orb_false_iff; split; [apply Z.ltb_ge|apply Z.ltb_ge]; lia).
    replace (sz <? 3)%Z with false by (symmetry; apply Z.ltb_ge; lia).
    intros H. inversion H. apply from_squares_safe. lia.
  - destruct (parse_tps basis (c :: t)) as [p| |] eqn:E; try discriminate.
    destruct (Z.of_N (size p) =? sz)%Z; [|discriminate]. intros H. inversion H; subst. eapply parse_tps_safe; eauto.
Qed.

Lemma initial_position_total basis g : parse_tps basis (find_tag tag_tps (tags g)) <> Panic -> initial_position basis g <> Panic.
Proof.
  intros HP. unfold initial_position. destruct (atoi _) as [sz|]; [|discriminate].
  destruct ((sz <? 3) || (8 <? sz))%Z eqn:R; [discriminate|].
  apply orb_false_iff in R. destruct R as [R1 R2]. apply Z.ltb_ge in R1, R2.
  destruct (find_tag tag_tps (tags g)) as [|c t] eqn:T.
  - unfold tak_new. replace ((sz <? 0) || (8 <? sz))%Z with false by (symmetry; apply orb_false_iff; split; [apply Z.ltb_ge|apply Z.ltb_ge]; lia).
    replace (sz <? 3)%Z with false by (symmetry; apply Z.ltb_ge; lia). discriminate.
  - destruct (parse_tps basis (c :: t)) as [p| |]; [|discriminate|contradiction].
    destruct (Z.of_N (size p) =? sz)%Z; discriminate.
Qed.
