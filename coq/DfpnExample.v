(* Non-vacuity of dfpn_proven_sound: all its hypotheses are met together by the set of positions reachable in the 3x3 game
   with ONE stone per side (the start and its nine finished successors - enumerated and checked by computation inside Coq),
   and the theorem then turns an actual run of the DFPN model on the start position with attacker Black (verdict: proven)
   into a forced win of Black.  (A larger game cannot be enumerated as a set of position RECORDS: the ply counter is part of
   the record and grows along every cycle of slides; identifying positions up to the ply counter needs the congruence that
   is also missing for the two _partial PN corollaries.) *)
From Coq Require Import NArith ZArith List Bool Lia.
Require Import Board Move GameOver Eval Search AndOr Pn PnFacts Dfpn DfpnFacts DfpnFactsL.
Require Import Generated.Consts.
Import ListNotations.
Open Scope N_scope.

Fixpoint nlist_eqb (a b : list N) : bool :=
  match a, b with
  | [], [] => true
  | x :: r, y :: s => (x =? y) && nlist_eqb r s
  | _, _ => false
  end.
Lemma nlist_eqb_eq a : forall b, nlist_eqb a b = true -> a = b.
Proof.
  induction a as [|x r IH]; intros [|y s] H; cbn in H; try discriminate; [reflexivity|].
  apply andb_true_iff in H as [H1 H2]. apply N.eqb_eq in H1. apply IH in H2. congruence.
Qed.

Definition pos_eqb (a b : position) : bool :=
  (White a =? White b) && (Black a =? Black b) && (Standing a =? Standing b) && (Caps a =? Caps b) &&
  (move a =? move b)%Z && (hash a =? hash b) && (size a =? size b) && Bool.eqb (black_wins_ties a) (black_wins_ties b) &&
  (whiteStones a =? whiteStones b) && (whiteCaps a =? whiteCaps b) && (blackStones a =? blackStones b) && (blackCaps a =? blackCaps b) &&
  nlist_eqb (Height a) (Height b) && nlist_eqb (Stacks a) (Stacks b).

Lemma pos_eqb_eq a b : pos_eqb a b = true -> a = b.
Proof.
  unfold pos_eqb. intros H.
  repeat (apply andb_true_iff in H as [H ?]).
  repeat match goal with
  | H : (_ =? _) = true |- _ => apply N.eqb_eq in H
  | H : (_ =? _)%Z = true |- _ => apply Z.eqb_eq in H
  | H : Bool.eqb _ _ = true |- _ => apply eqb_prop in H
  | H : nlist_eqb _ _ = true |- _ => apply nlist_eqb_eq in H
  end.
  destruct a, b; cbn in *; subst; reflexivity.
Qed.

Definition aw0 : bool := false.                      (* the attacker is Black; White is to move at the root *)
Definition live (p : position) : bool := match terminal aw0 p with None => true | Some _ => false end.

(* the start of the 3x3 game with one stone and no capstone per side: White must place Black's stone, which ends the game *)
Definition root0 : position :=
  {| size := 3; black_wins_ties := false; whiteStones := 1; whiteCaps := 0; blackStones := 1; blackCaps := 0; move := 0;
     White := 0; Black := 0; Standing := 0; Caps := 0; Height := [0;0;0;0;0;0;0;0;0]; Stacks := [0;0;0;0;0;0;0;0;0];
     hash := 14695981039346656037 |}.

(* breadth-first enumeration of everything reachable in the game (finished positions are not played on); the hash of
   every position is computed once and kept next to it *)
Definition known (h : N) (l : list (N * position)) : bool := existsb (fun r => fst r =? h) l.
Fixpoint add_all (qs : list position) (seen : list (N * position)) : list position * list (N * position) :=
  match qs with
  | [] => ([], seen)
  | q :: r => let h := hash_of q in
              if known h seen then add_all r seen
              else let '(n, s') := add_all r ((h, q) :: seen) in (q :: n, s')
  end.
Fixpoint bfs (fuel : nat) (frontier : list position) (seen : list (N * position)) : list (N * position) :=
  match fuel with
  | O => seen
  | S f =>
    match frontier with
    | [] => seen
    | _ => let '(news, seen') := add_all (flat_map (fun p => if live p then succs gen_basis p else []) frontier) seen in
           bfs f news seen'
    end
  end.

Definition reach0h : list (N * position) := Eval vm_compute in bfs 40 [root0] [(hash_of root0, root0)].
Definition reach0 : list position := Eval vm_compute in map snd reach0h.
Definition Sp0 (p : position) : Prop := In p reach0.

(* the hypotheses of the theorem as boolean checks over the enumerated set *)
Definition chk_step : bool :=
  forallb (fun p => negb (live p) ||
                    forallb (fun m => match dmv gen_basis p m with Ok q => existsb (pos_eqb q) reach0 | _ => true end) (all_moves p)) reach0.
Definition chk_small : bool := forallb (fun p => size p <=? 8) reach0.
Fixpoint nodupb (l : list N) : bool := match l with [] => true | x :: r => negb (existsb (N.eqb x) r) && nodupb r end.
Definition chk_hash : bool := nodupb (map hash_of reach0).
Definition chk_nonzero : bool := forallb (fun p => negb (hash_of p =? 0)) reach0.
Definition chk_moves : bool := forallb (fun p => negb (live p) || match all_moves p with [] => false | _ => true end) reach0.
Definition chk_threats : bool :=
  forallb (fun p => negb (live p) || match solve p with None => true | Some _ => negb (attp aw0 p) || wn position (succs gen_basis) (terminal aw0) (attp aw0) 1 p end) reach0.

Lemma chk_step_ok : chk_step = true. Proof. vm_compute. reflexivity. Qed.
Lemma chk_small_ok : chk_small = true. Proof. vm_compute. reflexivity. Qed.
Lemma chk_hash_ok : chk_hash = true. Proof. vm_compute. reflexivity. Qed.
Lemma chk_nonzero_ok : chk_nonzero = true. Proof. vm_compute. reflexivity. Qed.
Lemma chk_moves_ok : chk_moves = true. Proof. vm_compute. reflexivity. Qed.
Lemma chk_threats_ok : chk_threats = true. Proof. vm_compute. reflexivity. Qed.

Lemma reach0_size : length reach0 = 10%nat. Proof. vm_compute. reflexivity. Qed.

Lemma nodupb_inj {A} (f : A -> N) (l : list A) : nodupb (map f l) = true -> forall x y, In x l -> In y l -> f x = f y -> x = y.
Proof.
  induction l as [|a l IH]; intros H x y Hx Hy E; [contradiction|].
  cbn in H. apply andb_true_iff in H as [H1 H2]. apply negb_true_iff in H1.
  assert (Hno : forall z, In z l -> f a <> f z).
  { intros z Hz Ef. assert (existsb (N.eqb (f a)) (map f l) = true); [|congruence].
    apply existsb_exists. exists (f z). split; [now apply in_map|now apply N.eqb_eq]. }
  destruct Hx as [<-|Hx], Hy as [<-|Hy]; auto.
  - now contradiction (Hno y Hy).
  - symmetry in E. now contradiction (Hno x Hx).
Qed.

Lemma live_term p : live p = true <-> terminal aw0 p = None.
Proof. unfold live. destruct (terminal aw0 p); split; auto; discriminate. Qed.

(* the theorem applied to an actual run: DFPN (16 table entries, attacker Black) proves the start position, hence Black has a forced win *)
Example dfpn_proven_sound_applies :
  (let '(_, e, _) := prove gen_basis aw0 1000 1000 16 root0 in result_of aw0 root0 e = 1) /\
  exists n, wn position (succs gen_basis) (terminal aw0) (attp aw0) n root0 = true.
Proof.
  assert (Hrun : let '(_, e, _) := prove gen_basis aw0 1000 1000 16 root0 in result_of aw0 root0 e = 1) by (vm_compute; reflexivity).
  split; [exact Hrun|].
  destruct (prove gen_basis aw0 1000 1000 16 root0) as [[s e] w] eqn:E.
  apply (dfpn_proven_sound gen_basis aw0 Sp0) with (lfuel := 1000%nat) (dfuel := 1000%nat) (entries := 16%nat) (g := root0) (s := s) (e := e) (w := w);
    try assumption.
  - (* closed under the generated legal moves of live positions *)
    intros p m q Hp Ht Hm Eq. pose proof chk_step_ok as H. unfold chk_step in H. rewrite forallb_forall in H.
    specialize (H p Hp). apply orb_true_iff in H as [H|H]; [apply negb_true_iff in H; apply live_term in Ht; congruence|].
    rewrite forallb_forall in H. specialize (H m Hm). unfold Dfpn.dmv in Eq. unfold Dfpn.dmv in H. rewrite Eq in H.
    apply existsb_exists in H as (r & Hr & Hq). apply pos_eqb_eq in Hq. subst q. exact Hr.
  - intros p Hp. pose proof chk_small_ok as H. unfold chk_small in H. rewrite forallb_forall in H. apply N.leb_le. now apply H.
  - (* no collision: equal hash = same position *)
    intros p q Hp Hq Eh. assert (p = q) by (eapply (nodupb_inj hash_of reach0 chk_hash_ok); eauto). subst q. repeat split; auto.
  - intros p Hp. pose proof chk_nonzero_ok as H. unfold chk_nonzero in H. rewrite forallb_forall in H. specialize (H p Hp).
    apply negb_true_iff in H. now apply N.eqb_neq.
  - intros p Hp Ht. pose proof chk_moves_ok as H. unfold chk_moves in H. rewrite forallb_forall in H. specialize (H p Hp).
    apply orb_true_iff in H as [H|H]; [apply negb_true_iff in H; apply live_term in Ht; congruence|]. destruct (all_moves p); [discriminate|discriminate].
  - (* C19 on this set: every reported threat of the attacker is a win in one ply *)
    intros p Hp Ht Hs Ha. pose proof chk_threats_ok as H. unfold chk_threats in H. rewrite forallb_forall in H. specialize (H p Hp).
    apply orb_true_iff in H as [H|H]; [apply negb_true_iff in H; apply live_term in Ht; congruence|].
    destruct (solve p); [|now contradiction Hs]. apply orb_true_iff in H as [H|H]; [rewrite Ha in H; discriminate|]. exists 1%nat. exact H.
  - assert (Hin : existsb (pos_eqb root0) reach0 = true) by (vm_compute; reflexivity).
    apply existsb_exists in Hin as (r & Hr & Hq). apply pos_eqb_eq in Hq. subst r. exact Hr.
Qed.

(* ---------- the same set with attacker White: DFPN disproves the start position without meeting a repetition, and
   dfpn_disproven_sound_norep turns that into "White has no forced win" ---------- *)
Definition aw1 : bool := true.
Lemma live_term1 p : live p = true <-> terminal aw1 p = None.
Proof.
  unfold live, terminal. destruct (game_over p) as [[[|] who]|]; split; auto; try discriminate;
    destruct who; cbn; intros; discriminate.
Qed.
Definition chk_threats_def : bool :=
  forallb (fun p => negb (live p) || match solve p with None => true | Some _ => attp aw1 p || existsb (fun q => match terminal aw1 q with Some false => true | _ => false end) (succs gen_basis p) end) reach0.
Lemma chk_threats_def_ok : chk_threats_def = true. Proof. vm_compute. reflexivity. Qed.

Example dfpn_disproven_sound_applies :
  (let '(s, e, _) := prove gen_basis aw1 1000 1000 16 root0 in result_of aw1 root0 e = 2 /\ ds_rep (dst s) = 0) /\
  forall n, wn position (succs gen_basis) (terminal aw1) (attp aw1) n root0 = false.
Proof.
  assert (Hrun : let '(s, e, _) := prove gen_basis aw1 1000 1000 16 root0 in result_of aw1 root0 e = 2 /\ ds_rep (dst s) = 0) by (vm_compute; split; reflexivity).
  split; [exact Hrun|].
  destruct (prove gen_basis aw1 1000 1000 16 root0) as [[s e] w] eqn:E. destruct Hrun as [Hr Hrep].
  apply (dfpn_disproven_sound_norep gen_basis aw1 Sp0) with (lfuel := 1000%nat) (dfuel := 1000%nat) (entries := 16%nat) (s := s) (e := e) (w := w);
    try assumption.
  - intros p m q Hp Ht Hm Eq. pose proof chk_step_ok as H. unfold chk_step in H. rewrite forallb_forall in H.
    specialize (H p Hp). apply orb_true_iff in H as [H|H]; [apply negb_true_iff in H; apply live_term1 in Ht; congruence|].
    rewrite forallb_forall in H. specialize (H m Hm). unfold Dfpn.dmv in Eq. unfold Dfpn.dmv in H. rewrite Eq in H.
    apply existsb_exists in H as (r & Hr' & Hq). apply pos_eqb_eq in Hq. subst q. exact Hr'.
  - intros p Hp. pose proof chk_small_ok as H. unfold chk_small in H. rewrite forallb_forall in H. apply N.leb_le. now apply H.
  - intros p q Hp Hq Eh. assert (p = q) by (eapply (nodupb_inj hash_of reach0 chk_hash_ok); eauto). subst q. repeat split; auto.
  - intros p Hp. pose proof chk_nonzero_ok as H. unfold chk_nonzero in H. rewrite forallb_forall in H. specialize (H p Hp).
    apply negb_true_iff in H. now apply N.eqb_neq.
  - intros p Hp Ht. pose proof chk_moves_ok as H. unfold chk_moves in H. rewrite forallb_forall in H. specialize (H p Hp).
    apply orb_true_iff in H as [H|H]; [apply negb_true_iff in H; apply live_term1 in Ht; congruence|]. destruct (all_moves p); [discriminate|discriminate].
  - intros p Hp Ht Hs Ha. pose proof chk_threats_def_ok as H. unfold chk_threats_def in H. rewrite forallb_forall in H. specialize (H p Hp).
    apply orb_true_iff in H as [H|H]; [apply negb_true_iff in H; apply live_term1 in Ht; congruence|].
    destruct (solve p); [|now contradiction Hs]. apply orb_true_iff in H as [H|H]; [rewrite Ha in H; discriminate|].
    apply existsb_exists in H as (q & Hq & Hqt). exists q. split; [assumption|]. destruct (terminal aw1 q) as [[|]|]; [discriminate Hqt|reflexivity|discriminate Hqt].
  - assert (Hin : existsb (pos_eqb root0) reach0 = true) by (vm_compute; reflexivity).
    apply existsb_exists in Hin as (r & Hr' & Hq). apply pos_eqb_eq in Hq. subst r. exact Hr'.
Qed.
