(* WeightsJsonRt.v: marshal then unmarshal gives back EVERY weight set (any 36 int64 values), from the agreement of the two
   regenerated tables (the name table is the inverse of the stringer on 0 .. MaxFeature-1). *)
From Coq Require Import NArith ZArith List Bool Lia.
Require Import PtnMove Playtak WeightsJson WeightsJsonFacts.
Require Import Generated.Consts.
Import ListNotations.
Local Open Scope N_scope.

Lemma set_nth_app v : forall (pre : list Z) x r, set_nth (length pre) v (pre ++ x :: r) = pre ++ v :: r.
Proof. induction pre as [|p pre IH]; intros x r; cbn [length app set_nth]; [reflexivity|]. now rewrite IH. Qed.

Section RT.
Variables (names : list (list N * N)) (maxf : N).

Lemma roundtrip_from : forall strs ws pre,
  length strs = length ws ->
  (length pre + length ws <= N.to_nat maxf)%nat ->
  (forall j, (j < length strs)%nat -> lookup names (nth j strs []) = Some (N.of_nat (length pre + j))) ->
  unmarshal_post names maxf (marshal_from strs ws) (pre ++ repeat 0%Z (length ws)) = Ok (pre ++ ws).
Proof.
  induction strs as [|s sr IH]; intros ws pre Hl Hb Hk; destruct ws as [|v wr]; try discriminate.
  - reflexivity.
  - cbn [length] in Hl, Hb. injection Hl as Hl.
    assert (Hk' : forall j, (j < length sr)%nat -> lookup names (nth j sr []) = Some (N.of_nat (length (pre ++ [v]) + j))).
    { intros j Hj. specialize (Hk (S j) ltac:(cbn [length]; lia)). cbn [nth] in Hk. rewrite Hk. f_equal. f_equal.
      rewrite app_length. cbn [length]. lia. }
    assert (Hb' : (length (pre ++ [v]) + length wr <= N.to_nat maxf)%nat) by (rewrite app_length; cbn [length]; lia).
    cbn [marshal_from length repeat]. destruct (v =? 0)%Z eqn:E.
    + apply Z.eqb_eq in E. subst v.
      replace (pre ++ 0%Z :: repeat 0%Z (length wr)) with ((pre ++ [0%Z]) ++ repeat 0%Z (length wr)) by (now rewrite <- app_assoc).
      rewrite (IH wr (pre ++ [0%Z]) Hl Hb' Hk'). now rewrite <- app_assoc.
    + cbn [unmarshal_post]. specialize (Hk 0%nat ltac:(cbn [length]; lia)). cbn [nth] in Hk. rewrite Hk. rewrite Nat.add_0_r.
      assert (N.of_nat (length pre) <? maxf = true) as -> by (apply N.ltb_lt; lia).
      rewrite Nnat.Nat2N.id, set_nth_app.
      replace (pre ++ v :: repeat 0%Z (length wr)) with ((pre ++ [v]) ++ repeat 0%Z (length wr)) by (now rewrite <- app_assoc).
      rewrite (IH wr (pre ++ [v]) Hl Hb' Hk'). now rewrite <- app_assoc.
Qed.
End RT.

Theorem weights_roundtrip : forall ws : list Z, length ws = gen_MaxFeature ->
  unmarshal_post gen_featureNames gen_maxf (marshal_pre gen_featureStrings ws) (zeros gen_maxf) = Ok ws.
Proof.
  intros ws Hl. pose proof weights_tables_agree as T. unfold tables_agree in T.
  apply andb_prop in T as [T T3]. apply andb_prop in T as [T1 T2]. apply Nat.eqb_eq in T1, T2.
  unfold marshal_pre, zeros, gen_maxf. rewrite Nnat.Nat2N.id.
  replace (repeat 0%Z gen_MaxFeature) with (repeat 0%Z (length ws)) by (now rewrite Hl).
  apply (roundtrip_from gen_featureNames (N.of_nat gen_MaxFeature) gen_featureStrings ws []).
  - congruence.
  - rewrite Nnat.Nat2N.id. cbn [length]. lia.
  - intros j Hj. rewrite forallb_forall in T3. specialize (T3 j). rewrite in_seq in T3. specialize (T3 ltac:(lia)).
    destruct (lookup gen_featureNames (nth j gen_featureStrings [])) as [f|]; [|discriminate].
    apply N.eqb_eq in T3. now subst f.
Qed.
