(* SearchDedupLegal.v: C04 for the engine model WITH Cfg.DedupSymmetry (SearchDedup.v), EVERY configuration: any table, null move,
   slide reduction, multi-cut, sorting, any cancellation point, the option on or off: the state invariant SJ is preserved by every
   search, every returned value lies in [MinEval, MaxEval], and the line Analyze reports starts with a move that MovePreallocated
   accepts at the root (or is still the seed).  The de-duplication cannot break this: the node's cache is empty when the first
   successor arrives, so the first successor is always searched (and raises alpha above the root's MinEval - 1), and a skipped
   successor is never searched, so it cannot become best[0].  SearchLegal2.v is the same development for Search.v; its lemmas about
   zwSearch, pv_child and the generator are reused as they are (they take the child search as a parameter). *)
From Coq Require Import NArith ZArith List Bool Lia Permutation.
Require Import Board Stack Rules Move GameOver Refine Preserve1 Eval EvalSpec Search NegamaxSpec SearchGen SearchExact CancelFacts SearchLegal1 SearchLegal2.
Require Import SearchInst SearchNeg2 SearchNeg3 SearchNeg4 SearchNeg5 SearchLegal3 SearchDedup.
Require Import Generated.Consts.
Import ListNotations.
Open Scope Z_scope.

Section BndD.
Variable basis : list N.
Variable cfg : config.
Variable k : Z.
Variable dedup : bool.
Let eval := c_eval cfg.

Variable Pos : nat -> position -> Prop.
Hypothesis Hanti : forall d p, Pos (S d) p -> Pos d p.
Hypothesis Hstep : forall d p m q, Pos (S d) p -> is_over p = false -> okm m -> try_move basis p m = Some q -> Pos d q.
Hypothesis Hpass : forall d p, Pos (S d) p -> is_over p = false -> Pos d (pass_move p).
Hypothesis Hlive : forall d p, Pos (S d) p -> is_over p = false -> exists m q, In m (all_moves p) /\ try_move basis p m = Some q.
Hypothesis Hbound : forall d p, Pos d p -> okv (eval p).

Section Node.
Variable rec : rec_t.
Hypothesis Hrec : bnd_ok Pos rec.
Variable p : position.
Variable d0 : nat.
Hypothesis Hp : Pos (S d0) p.
Hypothesis Hover : is_over p = false.

Let len := Z.of_nat (length (all_moves p)).

Lemma gen_stepj f g seen s : GJ basis p seen g -> SJ s -> len + 6 - g_i g < Z.of_nat f ->
  stepj basis p seen g (mg_next false basis cfg f s g).
Proof. intros G (_ & R & _) F. exact (mg_next_stepj basis cfg p f g seen s G R F). Qed.
Lemma f700 g seen : GJ basis p seen g -> len + 6 - g_i g < Z.of_nat (gfuel g).
Proof. intros G. exact (gfuel_okj basis p seen g G). Qed.
Lemma nasn : ~ (forall m q, In m (all_moves p) -> try_move basis p m = Some q -> In q (@nil position)).
Proof. intros H. destruct (Hlive d0 p Hp Hover) as (m & q & Hm & T). exact (H m q Hm T). Qed.
Lemma gj_new s te pv ply depth : SJ s -> okl pv -> GJ basis p [] (new_gen s te pv ply depth p).
Proof. intros HS Hpv. apply GJ_new; [|exact Hpv]. intros i _. apply (SJ_te s i HS). Qed.

(* ---- the child loop of pvSearch with the cache ---- *)
Lemma pv_loop_d_bnd ply depth a0 b dd : b <= MaxEval + 1 -> (Z.to_nat (depth - 1) <= d0)%nat ->
  forall n s g i best a improved seen cache,
  SJ s -> GJ basis p seen g -> okl best -> len + 6 - g_i g < Z.of_nat n ->
  MinEval - 1 <= a < b -> (seen <> [] -> MinEval <= a) -> (cache <> [] -> seen <> []) ->
  (improved = true -> head_ok basis p best) -> (improved = false -> a = a0) ->
  let '(s', best', a', improved', aborted) := pv_loop_d basis cfg k rec n ply depth b dd s g i best a improved cache in
  SJ s' /\ okl best' /\ (aborted = true -> cancelled k s' = true) /\
  (aborted = false -> okv a' /\ (improved' = true -> head_ok basis p best') /\ (improved' = false -> a' = a0)).
Proof.
  intros Hb Hd. induction n; intros s g i best a improved seen cache HS G HB HF Hab HSEEN HCACHE HIMP HNI.
  { cbn [pv_loop_d]. refine (conj HS (conj HB (conj _ _))); [discriminate|]. intros _.
    pose proof (gen_stepj 0 g seen s G HS HF) as ST. cbn [mg_next stepj] in ST. destruct ST as (_ & ST).
    assert (MinEval <= a) by (apply HSEEN; intros ->; exact (nasn ST)). unfold okv. repeat split; try assumption; lia. }
  cbn [pv_loop_d].
  pose proof (gen_stepj (gfuel g) g seen s G HS (f700 g seen G)) as ST.
  destruct (mg_next false basis cfg (gfuel g) s g) as [g' [[m q]|]]; cbn [stepj] in ST.
  2:{ refine (conj HS (conj HB (conj _ _))); [discriminate|]. intros _. destruct ST as (_ & ST).
      assert (MinEval <= a) by (apply HSEEN; intros ->; exact (nasn ST)). unfold okv. repeat split; try assumption; lia. }
  destruct ST as (Hm & HT & G' & HLT & _).
  assert (HF' : len + 6 - g_i g' < Z.of_nat n) by (clear - HF HLT; lia).
  assert (NE : q :: seen <> []) by discriminate.
  destruct (dd && in_cache (phash q) cache) eqn:ESK.
  { (* skipped: the cache is not empty, so a successor has been searched before and alpha is already a value *)
    apply andb_true_iff in ESK. destruct ESK as (_ & EC). unfold in_cache in EC. apply existsb_exists in EC. destruct EC as (h & Hh & _).
    assert (CN : cache <> []) by (intros F; rewrite F in Hh; destruct Hh).
    pose proof (HSEEN (HCACHE CN)) as AM.
    refine (IHn s g' i best a improved (q :: seen) cache HS G' HB HF' Hab (fun _ => AM) (fun _ => NE) HIMP HNI). }
  set (cache' := if dd then sym_hashes basis q ++ cache else cache). clearbody cache'.
  pose proof (pv_child_bnd basis cfg Pos) as PC.
  assert (R : let r := pv_child rec (set_fm s ply m) q ply depth best a b (i + 1) in SJ (fst r) /\ okl (fst (snd r)) /\ okv (snd (snd r))).
  { apply (pv_child_bnd basis cfg Pos) with (p := p) (d0 := d0) (m := m); try assumption; try (apply SJ_set_fm; exact HS). }
  clear PC. cbv zeta in R.
  destruct (pv_child rec (set_fm s ply m) q ply depth best a b (i + 1)) as [s1 [ms v]].
  cbn [fst snd] in R. destruct R as (HS1 & Hms & Hv). unfold okv in Hv. destruct minmax as (MM & _).
  destruct (a <? - v) eqn:EA.
  - apply Z.ltb_lt in EA.
    assert (HB' : okl (m :: ms)) by (constructor; assumption).
    assert (HH : head_ok basis p (m :: ms)) by (exists m, ms, q; auto).
    assert (HS2 : SJ (set_fpv s1 ply (set_prefix (znth (fpv s1) ply []) (m :: ms)))).
    { apply SJ_set_fpv; [assumption|]. apply okl_set_prefix; [apply okl_frameJ; assumption|assumption]. }
    destruct (b <=? - v) eqn:EB.
    + refine (conj (SJ_record_cut _ m _ _ _ HS2 Hm) (conj HB' (conj _ _))); [discriminate|]. intros _.
      unfold okv. split; [lia|]. split; [intros _; exact HH|discriminate].
    + apply Z.leb_gt in EB.
      destruct (cancelled k (set_fpv s1 ply (set_prefix (znth (fpv s1) ply []) (m :: ms)))) eqn:EK.
      * refine (conj HS2 (conj HB' (conj _ _))); [intros _; exact EK|discriminate].
      * assert (Hab' : MinEval - 1 <= - v < b) by lia. assert (AM : MinEval <= - v) by lia.
        refine (IHn _ g' (i + 1) (m :: ms) (- v) true (q :: seen) cache' HS2 G' HB' HF' Hab' (fun _ => AM) (fun _ => NE) (fun _ => HH) _). discriminate.
  - apply Z.ltb_ge in EA. destruct (cancelled k s1) eqn:EK.
    + refine (conj HS1 (conj HB (conj _ _))); [intros _; exact EK|discriminate].
    + assert (AM : MinEval <= a) by lia.
      refine (IHn s1 g' (i + 1) best a improved (q :: seen) cache' HS1 G' HB HF' Hab (fun _ => AM) (fun _ => NE) HIMP HNI).
Qed.

Lemma pv_node_d_bnd s te ply depth pv a b : SJ s -> okl pv -> MinEval - 1 <= a < b -> b <= MaxEval + 1 -> (Z.to_nat (depth - 1) <= d0)%nat ->
  let r := pv_node_d basis cfg k dedup rec s te p ply depth pv a b in
  SJ (fst r) /\ okl (fst (snd r)) /\ okv (snd (snd r)) /\
  (cancelled k (fst r) = false -> a = MinEval - 1 -> head_ok basis p (fst (snd r))).
Proof.
  intros HS Hpv Hab Hb Hd. unfold pv_node_d.
  set (dd := dedup && (move p <? max_dedup)). clearbody dd.
  set (best0 := match pv with [] => firstn 1 (znth (fpv s) ply []) | _ :: _ => pv end).
  assert (HB0 : okl best0) by (subst best0; destruct pv; [apply Forall_firstn; apply okl_frameJ; assumption|assumption]).
  set (s2 := set_fpv s ply (set_prefix (znth (fpv s) ply []) best0)).
  assert (HS2 : SJ s2) by (apply SJ_set_fpv; [assumption|apply okl_set_prefix; [apply okl_frameJ; assumption|assumption]]).
  pose proof (gj_new s te pv ply depth HS Hpv) as G0.
  pose proof (pv_loop_d_bnd ply depth a b dd Hb Hd (gfuel (new_gen s te pv ply depth p)) s2 (new_gen s te pv ply depth p) 0 best0 a false [] [] HS2 G0 HB0 (f700 _ _ G0) Hab
                ltac:(intros F; contradiction) ltac:(intros F; contradiction) ltac:(discriminate) ltac:(reflexivity)) as LP.
  destruct (pv_loop_d basis cfg k rec (gfuel (new_gen s te pv ply depth p)) ply depth b dd s2 (new_gen s te pv ply depth p) 0 best0 a false []) as [[[[s3 best] a'] improved] ab].
  destruct LP as (HS3 & HB3 & L1 & L2). destruct ab; cbn [fst snd].
  - split; [exact HS3|]. split; [constructor|]. split; [apply okv0|]. intros NC. rewrite (L1 eq_refl) in NC. discriminate NC.
  - destruct (L2 eq_refl) as (V & H1 & H2).
    split; [apply SJ_pv_store; assumption|]. split; [exact HB3|]. split; [exact V|]. intros _ E.
    apply H1. destruct improved; [reflexivity|]. specialize (H2 eq_refl). unfold okv in V. lia.
Qed.
End Node.

(* ---- one node ---- *)
Lemma srch_step_d_bnd rec : bnd_ok Pos rec -> bnd_ok Pos (srch_step_d basis cfg k dedup rec).
Proof.
  intros Hrec zw s p ply depth pv a b cut HS Hp Hpv (Ha & Hw). cbv zeta. unfold srch_step_d.
  destruct ((depth <=? 0) || is_over p) eqn:EL.
  { cbn [fst snd]. split; [apply SJ_count_eval; apply SJ_bump; exact HS|]. split; [constructor|apply (Hbound _ p Hp)]. }
  apply orb_false_iff in EL. destruct EL as (ED & EO). apply Z.leb_gt in ED.
  assert (Hp' : Pos (S (Z.to_nat (depth - 1))) p) by (replace (S (Z.to_nat (depth - 1))) with (Z.to_nat depth) by lia; exact Hp).
  match goal with |- context [tt_probe basis ?s1 p ply depth a ?bb] =>
    assert (HS1 : SJ s1) by (apply SJ_bump; exact HS);
    pose proof (tt_probe_ok basis s1 p ply depth a bb HS1 ltac:(destruct zw; lia)) as TP;
    destruct (tt_probe basis s1 p ply depth a bb) as [[s2 te] ret] end.
  destruct TP as (HS2 & TR). destruct ret as [[pv' v]|].
  { cbn [fst snd]. destruct TR as (A & B & _). auto. }
  destruct zw.
  - apply (zw_node_bnd basis cfg k Pos) with (d0 := Z.to_nat (depth - 1)); try assumption; lia.
  - destruct Hw as (Hab & Hb).
    destruct (pv_node_d_bnd rec Hrec p (Z.to_nat (depth - 1)) Hp' EO s2 te ply depth pv a b HS2 Hpv ltac:(lia) Hb ltac:(lia)) as (A & B & C & _).
    auto.
Qed.

Lemma srch_d_bnd : forall f, bnd_ok Pos (srch_d basis cfg k dedup f).
Proof.
  induction f; [|cbn [srch_d]; apply srch_step_d_bnd; exact IHf].
  intros zw s p ply depth pv a b cut HS _ _ _. cbn [srch_d fst snd]. split; [exact HS|]. split; [constructor|apply okv0].
Qed.

(* the root search of Analyze *)
Lemma srch_d_root f s p depth pv : SJ s -> Pos (Z.to_nat depth) p -> okl pv -> is_over p = false -> 0 < depth ->
  let r := srch_d basis cfg k dedup (S f) false s p 0 depth pv (MinEval - 1) (MaxEval + 1) true in
  SJ (fst r) /\ okl (fst (snd r)) /\ okv (snd (snd r)) /\ (cancelled k (fst r) = false -> head_ok basis p (fst (snd r))).
Proof.
  intros HS Hp Hpv EO ED. cbv zeta. cbn [srch_d]. unfold srch_step_d.
  replace (depth <=? 0) with false by (symmetry; apply Z.leb_gt; lia). rewrite EO. cbn [orb].
  assert (Hp' : Pos (S (Z.to_nat (depth - 1))) p) by (replace (S (Z.to_nat (depth - 1))) with (Z.to_nat depth) by lia; exact Hp).
  destruct minmax as (MM & MP).
  match goal with |- context [tt_probe basis ?s1 p 0 depth ?aa ?bb] =>
    assert (HS1 : SJ s1) by (apply SJ_bump; exact HS);
    pose proof (tt_probe_ok basis s1 p 0 depth aa bb HS1 ltac:(lia)) as TP;
    destruct (tt_probe basis s1 p 0 depth aa bb) as [[s2 te] ret] end.
  destruct TP as (HS2 & TR). destruct ret as [[pv' v]|].
  { cbn [fst snd]. destruct TR as (A & B & C). auto. }
  destruct (pv_node_d_bnd (srch_d basis cfg k dedup f) (srch_d_bnd f) p (Z.to_nat (depth - 1)) Hp' EO s2 te 0 depth pv (MinEval - 1) (MaxEval + 1)
              HS2 Hpv ltac:(lia) ltac:(lia) ltac:(lia)) as (A & B & C & D).
  split; [exact A|]. split; [exact B|]. split; [exact C|]. intros NC. apply D; [exact NC|reflexivity].
Qed.

Lemma srch_d_leaf f zw s p ply depth pv a b cut : depth <= 0 ->
  srch_d basis cfg k dedup (S f) zw s p ply depth pv a b cut = (count_eval (bump s (st_eval (is_over p))), ([], c_eval cfg p)).
Proof. intros H. cbn [srch_d]. unfold srch_step_d. replace (depth <=? 0) with true by (symmetry; apply Z.leb_le; lia). reflexivity. Qed.

(* ---- Analyze ---- *)
Lemma az_iter_d_depth_ge D base p : forall n i s ms v acc d s' pv vv d' acc' c',
  az_iter_d basis cfg k dedup D base p n i s ms v acc d = (s', (pv, vv, d', acc', c')) -> d <= i + base -> d <= d'.
Proof.
  induction n; cbn [az_iter_d]; intros i s ms v acc d s' pv vv d' acc' c' H L.
  - inversion H; lia.
  - destruct (D <? i + base); [inversion H; lia|].
    destruct (srch_d basis cfg k dedup 40 false (reset_st s) p 0 (i + base) ms (MinEval - 1) (MaxEval + 1) true) as [s1 [next nv]].
    destruct (if cancelled k s1 then [] else next); [inversion H; lia|].
    destruct ((WinThreshold <? nv) || (nv <? - WinThreshold)); [inversion H; lia|].
    apply IHn in H; lia.
Qed.

Section Az.
Variable p : position.
Variable D : Z.
Hypothesis HP : forall d, Z.of_nat d <= D -> Pos d p.
Hypothesis HO : is_over p = false.
Variable base : Z.
Variable ms0 : list rmove.

Lemma az_iter_d_legal : forall n i s ms v acc d,
  SJ s -> okl ms -> 1 <= i -> d = i + base - 1 -> line_ok basis p base ms0 ms d ->
  forall sk pv' v' d' acc' c', az_iter_d basis cfg k dedup D base p n i s ms v acc d = (sk, (pv', v', d', acc', c')) ->
  SJ sk /\ okl pv' /\ line_ok basis p base ms0 pv' d' /\ (c' = false -> (0 < n)%nat -> i + base <= D -> base < d').
Proof.
  induction n; intros i s ms v acc d HS Hms Hi Hd HL sk pv' v' d' acc' c' H; cbn [az_iter_d] in H.
  { inversion H; subst. split; [exact HS|]. split; [exact Hms|]. split; [exact HL|]. intros _ F. inversion F. }
  destruct (D <? i + base) eqn:ED.
  { inversion H; subst. apply Z.ltb_lt in ED. split; [exact HS|]. split; [exact Hms|]. split; [exact HL|]. intros _ _ F. lia. }
  apply Z.ltb_ge in ED.
  destruct (Z_le_gt_dec (i + base) 0) as [NEG|POSD].
  { assert (E : srch_d basis cfg k dedup 40 false (reset_st s) p 0 (i + base) ms (MinEval - 1) (MaxEval + 1) true =
                (count_eval (bump (reset_st s) (st_eval (is_over p))), ([], c_eval cfg p))).
    { apply (srch_d_leaf 39). exact NEG. }
    rewrite E in H. destruct (cancelled k _) in H; inversion H; subst; (split; [apply SJ_count_eval, SJ_bump, SJ_reset_st; exact HS|]);
      (split; [exact Hms|]); (split; [exact HL|]); intros F; discriminate F. }
  assert (HPd : Pos (Z.to_nat (i + base)) p) by (apply HP; lia).
  pose proof (srch_d_root 39 (reset_st s) p (i + base) ms (SJ_reset_st s HS) HPd Hms HO ltac:(lia)) as R.
  cbv zeta in R. change (S 39) with 40%nat in R.
  destruct (srch_d basis cfg k dedup 40 false (reset_st s) p 0 (i + base) ms (MinEval - 1) (MaxEval + 1) true) as [s1 [next nv]].
  cbn [fst snd] in R. destruct R as (HS1 & Hnext & _ & HH).
  destruct (cancelled k s1) eqn:EK.
  { inversion H; subst. split; [exact HS1|]. split; [exact Hms|]. split; [exact HL|]. intros F; discriminate F. }
  specialize (HH eq_refl). destruct HH as (m & rest & q & -> & Hm & HT).
  assert (HL' : line_ok basis p base ms0 (m :: rest) (i + base)) by (right; split; [lia|exists m, rest, q; auto]).
  destruct ((WinThreshold <? nv) || (nv <? - WinThreshold)).
  - inversion H; subst. split; [exact HS1|]. split; [exact Hnext|]. split; [exact HL'|]. intros _ _ _. lia.
  - destruct (IHn (i + 1) s1 (m :: rest) nv _ (i + base) HS1 Hnext ltac:(lia) ltac:(lia) HL' _ _ _ _ _ _ H) as (A & B & C & E).
    split; [exact A|]. split; [exact B|]. split; [exact C|]. intros _ _ _.
    destruct C as [(C1 & C2)|(C1 & _)]; [|exact C1].
    exfalso. pose proof (az_iter_d_depth_ge D base p _ _ _ _ _ _ _ _ _ _ _ _ _ H ltac:(lia)). lia.
Qed.
End Az.

Theorem analyze_d_legal : forall s p sk pv v d acc c, SJ s -> (forall d, Z.of_nat d <= c_depth cfg -> Pos d p) -> is_over p = false ->
  analyze_gen_d basis cfg k dedup s p = (sk, (pv, v, d, acc, c)) ->
  let '(base, ms0, v0) := az_root false (az_start s) p in
  SJ sk /\ okl pv /\ ((d = base /\ pv = ms0) \/ (base < d /\ head_ok basis p pv)) /\ (c = false -> base < c_depth cfg -> base < d).
Proof.
  intros s p sk pv v d acc c HS HP HO H. unfold analyze_gen_d, analyze_depth_d in H.
  assert (SEED : forall b m0 vv, az_root false (az_start s) p = (b, m0, vv) -> okl m0).
  { unfold az_root. intros b m0 vv E. destruct (tt_get (az_start s) (phash p)) as [i|]; [|inversion E; constructor].
    destruct (e_bound (nth i (table (az_start s)) entry0) =? 1)%N; inversion E; [|constructor].
    constructor; [apply (SJ_te (az_start s) i (SJ_az_start s HS))|constructor]. }
  destruct (az_root false (az_start s) p) as [[base ms0] v0].
  destruct (az_iter_d_legal p (c_depth cfg) HP HO base ms0 16 1 (az_start s) ms0 v0 stats0 base (SJ_az_start s HS) (SEED _ _ _ eq_refl)
              ltac:(lia) ltac:(lia) ltac:(left; split; reflexivity) _ _ _ _ _ _ H) as (A & B & C & E).
  split; [exact A|]. split; [exact B|]. split; [exact C|]. intros F L. apply E; [exact F|lia|lia].
Qed.
End BndD.

(* ---- C04, executed model with the option: every configuration, either built-in evaluator ---- *)
Theorem analyze_d_first_move_legal : forall cfg, builtin_eval cfg ->
  forall k dedup s p sk pv v d acc c,
  SJ s -> base_ok p -> is_over p = false -> withinP (Z.to_nat (c_depth cfg)) p -> move p + c_depth cfg <= max_terminal_ply ->
  analyze_gen_d gen_basis cfg k dedup s p = (sk, (pv, v, d, acc, c)) ->
  let '(base, ms0, v0) := az_root false (az_start s) p in
  SJ sk /\ ((d = base /\ pv = ms0) \/ (base < d /\ head_legal p pv)) /\ (c = false -> base < c_depth cfg -> base < d).
Proof.
  intros cfg HE k dedup s p sk pv v d acc c HS Hb HO HW Hm H.
  pose proof (analyze_d_legal gen_basis cfg k dedup PosL PosL_anti PosL_step PosL_pass PosL_live (PosL_bound cfg HE)
                s p sk pv v d acc c HS) as R.
  assert (HP : forall d0, Z.of_nat d0 <= c_depth cfg -> PosL d0 p).
  { intros d0 L. split; [exact Hb|]. split; [apply (withinP_mono _ p HW); lia|lia]. }
  specialize (R HP HO H). destruct (az_root false (az_start s) p) as [[base ms0] v0].
  destruct R as (A & _ & [C|(C1 & C2)] & E); (split; [exact A|]); (split; [|exact E]); [left; exact C|right; split; [exact C1|apply head_ok_legal; exact C2]].
Qed.

(* without a table: every reported line starts with a legal move; an uncancelled call with a positive depth reports one *)
Corollary analyze_d_first_move_legal_notable : forall cfg, builtin_eval cfg ->
  forall k dedup s p sk pv v d acc c,
  SI s -> base_ok p -> is_over p = false -> withinP (Z.to_nat (c_depth cfg)) p -> move p + c_depth cfg <= max_terminal_ply ->
  analyze_gen_d gen_basis cfg k dedup s p = (sk, (pv, v, d, acc, c)) ->
  (pv = [] \/ head_legal p pv) /\ (c = false -> 0 < c_depth cfg -> head_legal p pv).
Proof.
  intros cfg HE k dedup s p sk pv v d acc c HS Hb HO HW Hm H.
  pose proof (analyze_d_first_move_legal cfg HE k dedup s p sk pv v d acc c (SI_SJ s HS) Hb HO HW Hm H) as R.
  assert (ER : az_root false (az_start s) p = (0, [], 0)).
  { unfold az_root, tt_get. rewrite (proj1 (SI_az_start s HS)). reflexivity. }
  rewrite ER in R. destruct R as (_ & [(C1 & C2)|(C1 & C2)] & E).
  - split; [left; exact C2|]. intros F L. specialize (E F L). lia.
  - split; [right; exact C2|]. intros _ _. exact C2.
Qed.
