(* SearchC.v: cancellation.  The cancellation machinery (the flag that flips inside the k-th leaf evaluation of an Analyze call)
   is part of the single engine model Search.v, so that the cancelled and the uninterrupted run are the same function applied to
   two values of [cancel_at]; this file only names the entry points used by property C16. *)
From Coq Require Import NArith ZArith List Bool.
Require Import Board Move GameOver Eval.
Require Export Search.
Import ListNotations.
Open Scope Z_scope.

(* result projections of an Analyze call: (pv, value, Stats.Depth, Stats, Stats.Canceled) *)
Definition r_pv (r : list rmove * Z * Z * stats * bool) : list rmove := let '(pv, _, _, _, _) := r in pv.
Definition r_value (r : list rmove * Z * Z * stats * bool) : Z := let '(_, v, _, _, _) := r in v.
Definition r_depth (r : list rmove * Z * Z * stats * bool) : Z := let '(_, _, d, _, _) := r in d.
Definition r_canceled (r : list rmove * Z * Z * stats * bool) : bool := let '(_, _, _, _, c) := r in c.
Definition with_depth (cfg : config) (d : Z) : config :=
  {| c_depth := d; c_nosort := c_nosort cfg; c_nonull := c_nonull cfg; c_noreduce := c_noreduce cfg; c_multicut := c_multicut cfg; c_eval := c_eval cfg |}.
