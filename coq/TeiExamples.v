(* TeiExamples.v: non-vacuity of the hypotheses of the C17 theorems, by computation on the engine model run with a
   one-line searcher (the theorems are generic in the searcher): it always proposes the flat placement b2. *)
From Coq Require Import NArith ZArith List Bool String.
Require Import Board Move GameOver PtnMove Playtak Tps TeiBudget Tei TeiSpec TeiFacts.
Require Import Generated.Consts.
Import ListNotations.
Open Scope N_scope.

Definition ex_mk (size : Z) : unit := tt.
Definition ex_search (s : unit) (limit : option Z) (p : position) : unit * (list rmove * Z * Z * Z) :=
  (tt, ([{| Move.mX := 1; Move.mY := 1; Move.mT := 2; Move.mS := 0 |}], 0%Z, 1%Z, 1%Z)).
Definition ex_pre : list (list N) := [str "teinewgame 3"; str "position startpos moves a1 c3"].
Definition ex_go : list N := str "go wtime 60000 btime 60000".
Definition ex_exec := Eval vm_compute in exec gen_basis unit ex_mk ex_search (engine0 unit) ex_pre.
Definition ex_e' : engine unit := match ex_exec with Some e => e | None => engine0 unit end.
Definition ex_step := Eval vm_compute in step gen_basis unit ex_mk ex_search ex_e' ex_go.

(* Run gets through ex_pre (premise of tei_position_exact) *)
Example tei_example_exec : exec gen_basis unit ex_mk ex_search (engine0 unit) ex_pre = Some ex_e'.
Proof. vm_compute. reflexivity. Qed.

Example tei_example_step : step gen_basis unit ex_mk ex_search ex_e' ex_go = ex_step.
Proof. vm_compute. reflexivity. Qed.

(* the go that follows searches (premise of tei_position_exact, tei_fresh_searcher, tei_limit_within_clock), the position it
   searches is live and the searcher's move is legal there (premises of tei_go_answered, locally), it gets the side to move's
   budget (60 s / 5 = 12 s), and the engine prints the two lines *)
Definition ex_m : rmove := {| Move.mX := 1; Move.mY := 1; Move.mT := 2; Move.mS := 0 |}.
Definition ex_p : position := Eval vm_compute in match e_pos ex_e' with Some p => p | None => from_squares gen_basis 3 [] 0 end.
Definition ex_q : position := Eval vm_compute in match tmove gen_basis ex_p ex_m with Move.Ok q => q | _ => ex_p end.

Example tei_example_pos : e_pos ex_e' = Some ex_p /\ e_mm ex_e' = None /\ e_size ex_e' = 3%Z.
Proof. vm_compute. repeat split; reflexivity. Qed.
Example tei_example_searched : sr_go ex_step = Some {| g_pos := ex_p; g_limit := Some 12000000000%Z; g_fresh := true |}.
Proof. vm_compute. reflexivity. Qed.
Example tei_example_live : live ex_p.
Proof. eexists. vm_compute. reflexivity. Qed.
Example tei_example_legal : legal gen_basis ex_p ex_m.
Proof. exists ex_q. vm_compute. reflexivity. Qed.
Example tei_example_out : sr_out ex_step = [info_line [ex_m] 0 1 1; bestmove_line ex_m] /\ bestmove_line ex_m = str "bestmove b2".
Proof. vm_compute. split; reflexivity. Qed.
