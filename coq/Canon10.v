(* C15, layer 10: non-vacuity of canonical_class_invariant and canonical_idempotent on the 5x5 game of Canon5.v:
   the image of the game under rotCW (k = 6) is a different list of moves with the same canonical form; the canonical form is a fixed point. *)
From Coq Require Import NArith ZArith Arith List Bool Lia.
Require Import Rules Sym SymRules2.
Require Import Board Move GameOver Tps Symmetry Refine SymCode1 Canon1 Canon2 Canon2b Canon3 Canon4 Canon5 Canon9.
Require Import Generated.Consts.
Import ListNotations.
Close Scope Z_scope. Close Scope N_scope.

Example ex_class_invariant :
  map (tmr 6 5) ex_ms <> ex_ms /\ canonical gen_basis 5 (map (tmr 6 5) ex_ms) = Ok ex_cs /\ canonical gen_basis 5 ex_ms = Ok ex_cs.
Proof.
  split; [vm_compute; discriminate|]. split; [|exact ex_canonical].
  exact (canonical_class_invariant 5 ltac:(lia) 6 ex_ms ex_cs ltac:(lia) ex_input ex_nocoll ex_canonical).
Qed.

Example ex_idempotent : ex_cs <> ex_ms /\ canonical gen_basis 5 ex_cs = Ok ex_cs.
Proof.
  split; [vm_compute; discriminate|].
  exact (canonical_idempotent 5 ltac:(lia) ex_ms ex_cs ex_input ex_nocoll ex_canonical).
Qed.

(* the same conclusions, recomputed directly (a cross-check of the theorems against the model) *)
Example ex_class_invariant_computed : forall g, g < 8 -> canonical gen_basis 5 (map (tmr g 5) ex_ms) = Ok ex_cs.
Proof. intros g Hg. do 8 (destruct g as [|g]; [vm_compute; reflexivity|]). lia. Qed.
