(* C14, custom configurations, part 5: the game invariant PnCong3.cinv (C06: C01's invariant, at most 64 pieces, reserve + pieces on
   the board = configuration, tie-break flag) implies every hypothesis of the image theorems of ImportCfg2-4.v; it holds at tak.New
   and is preserved by every accepted move (PnCong3.cinv_new, cinv_step), so the image theorems hold along every game of at most 64
   pieces under any configuration. *)
From Coq Require Import NArith ZArith Arith List Bool Lia ZifyN ZifyBool ZifyNat.
Require Import Rules Board Stack Move Refine GameOver Preserve1.
Require Import Generated.Consts.
Require Import TpsCfg TpsFacts9 PnCong3 ImportCfg1 ImportCfg2 ImportCfg3.
Import ListNotations.
Close Scope Z_scope. Close Scope N_scope.

Theorem cinv_matches stones caps b p :
  let n := N.to_nat (size p) in
  cinv (cfgS n stones, cfgC n caps, cfgS n stones, cfgC n caps) b p ->
  pos_ok p /\ reserves_match_cfg stones caps p /\ res_sums_ok p /\ Move.black_wins_ties p = b.
Proof.
  intros n [Hp Ht Hc Hb _]. split; [exact Hp|]. split; [now apply cons4_matches|]. split; [|exact Hb].
  unfold total in Ht. unfold res_sums_ok. lia.
Qed.
Print Assumptions cinv_matches.
