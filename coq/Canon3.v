(* C15, layer 3: the invariant of Canonical's loop and canonical_legal_images, generic in the invariant BI of the replay boards
   under which Position.Move is a rules move (instances in Canon5.v: C01's invariant with at most 64 pieces in the game; C01's
   invariant with the exact limit `no stack above 64` SC on the boards reached).
   Invariant after the moves `done`: the eight replay boards are the eight images of board 0; tfn (= compose rots) is one of the
   eight symmetries, and board 0 is the image under it of the position the ORIGINAL game has reached; board 0's move list
   replays (by the rules) to board 0. *)
From Coq Require Import NArith ZArith Arith List Bool Lia ZifyN ZifyBool ZifyNat.
Require Import Rules Sym SymRules1 SymRules2 SymRules3 SymRules4.
Require Import Board Stack Move GameOver Tps Symmetry CanonFacts Refine Slide2 Slide6 Slide8 MoveRefines SymCode1 Canon1 Canon2 Canon2b.
Require Import Generated.Consts.
Import ListNotations.
Close Scope Z_scope. Close Scope N_scope.

Lemma some_inj {A} (a b : A) : Some a = Some b -> a = b.
Proof. now inversion 1. Qed.

Lemma play_app p l m : play p (l ++ [m]) = match play p l with Some q => rules_move q m | None => None end.
Proof. unfold play. now rewrite fold_left_app. Qed.

Lemma play_snoc p l m : play p (map raw (l ++ [m])) = match play p (map raw l) with Some q => rules_move q (raw m) | None => None end.
Proof. rewrite map_app. apply play_app. Qed.

Lemma firstn_app_le {A} (l1 l2 : list A) k : k <= length l1 -> firstn k (l1 ++ l2) = firstn k l1.
Proof. intros H. rewrite firstn_app. replace (k - length l1) with 0 by lia. now rewrite firstn_O, app_nil_r. Qed.

Lemma sym_range s j x y : j < 8 -> size_ok s -> (-80 <= x <= 80)%Z -> (-80 <= y <= 80)%Z ->
  (-100 <= fst (sym (Z.of_nat s) j (x, y)) <= 100 /\ -100 <= snd (sym (Z.of_nat s) j (x, y)) <= 100)%Z.
Proof. intros Hj Hs Hx Hy. unfold size_ok in Hs. do 8 (destruct j as [|j]; [cbn [sym fst snd]; unfold f; lia|]). lia. Qed.

(* what Canonical is given: ANY int8 coordinates (the Go fields are int8), a type code <= 8, and at least one drop in a slide
   (TransformMove panics on the rest) *)
Definition canon_input (m : rmove) : Prop := int8 (mX m) /\ int8 (mY m) /\ movelike m.

Section Canon.
Variable sz : N.
Hypothesis Hsz : (3 <= sz <= 8)%N.
Let s := N.to_nat sz.
Let d := cstate0 sz.

Lemma Hs : size_ok s.
Proof. unfold size_ok, s. lia. Qed.

(* BI: an invariant of positions under which a successful Position.Move whose result satisfies the side condition SC
   is the rules' move, and which holds again *)
Variable BI SC : position -> Prop.
Hypothesis BI_move : forall p m q, BI p -> cmv p m = Ok q -> SC q -> rules_move (abs p) (raw m) = Some (abs q) /\ BI q.
Hypothesis BI_new : BI (new_pos gen_basis sz).

Definition agree (t : symfn) (j : nat) : Prop :=
  forall x y, (-80 <= x <= 80)%Z -> (-80 <= y <= 80)%Z -> t x y = sym (Z.of_nat s) j (x, y).

Definition board0 (boards : list cstate) : cstate := hd d boards.
Definition A_of (boards : list cstate) : apos := abs (cp (board0 boards)).

(* NoCollision: in the state (eight boards) the loop has reached BEFORE a move, a board whose hash equals board 0's hash
   - the comparison Canonical makes - shows the same position as board 0 *)
Definition nocoll_state (st : cst) : Prop :=
  let boards := fst (fst st) in
  forall b, In b boards -> hash_of (cp b) = hash_of (cp (board0 boards)) -> abs (cp b) = A_of boards.
Definition nocoll_trace (ms : list rmove) : Prop :=
  forall k st, k < length ms -> fold_left (cstep sz) (firstn k ms) (cinit sz) = Ok st -> nocoll_state st.

(* the side condition on every board the loop produces *)
Definition sc_state (st : cst) : Prop := forall b, In b (fst (fst st)) -> SC (cp b).
Definition sc_trace (ms : list rmove) : Prop :=
  forall k st, 0 < k <= length ms -> fold_left (cstep sz) (firstn k ms) (cinit sz) = Ok st -> sc_state st.

Definition images_at (done cs : list rmove) (k : nat) : Prop :=
  exists j A B, j < 8 /\ play (P0 sz) (map raw (firstn k cs)) = Some A /\ play (P0 sz) (map raw (firstn k done)) = Some B /\ A = img j B.

Record cinv (done : list rmove) (st : cst) : Prop := {
  ci_len : length (fst (fst st)) = 8;
  ci_bi : forall b, In b (fst (fst st)) -> BI (cp b);
  ci_rots : rots_ok s (snd (fst st));
  ci_img : forall i, i < 8 -> abs (cp (nth i (fst (fst st)) d)) = img i (A_of (fst (fst st)));
  ci_tfn : exists j B, j < 8 /\ agree (snd st) j /\ (forall x y, compose (snd (fst st)) x y = snd st x y) /\
             play (P0 sz) (map raw done) = Some B /\ well_shaped B /\ Rules.n B = s /\ A_of (fst (fst st)) = img j B;
  ci_cs : play (P0 sz) (map raw (cms (board0 (fst (fst st))))) = Some (A_of (fst (fst st))) /\
          length (cms (board0 (fst (fst st)))) = length done;
  ci_pref : forall k, k <= length done -> images_at done (cms (board0 (fst (fst st)))) k }.

Lemma cinv_init0 : cinv [] (repeat (cstate0 sz) 8, [], nth 0 (syms (Z.of_N sz)) (fun x y => (x, y))).
Proof.
  assert (HA : A_of (repeat (cstate0 sz) 8) = P0 sz) by reflexivity.
  constructor; cbn [fst snd].
  - reflexivity.
  - intros b Hb. apply repeat_spec in Hb. subst b. exact BI_new.
  - constructor.
  - intros i Hi. rewrite HA. rewrite start_symmetric by assumption.
    fold d. rewrite nth_repeat_nil. reflexivity.
  - exists 0, (P0 sz). split; [lia|]. split; [intros x y _ _; reflexivity|]. split; [intros x y; reflexivity|].
    split; [reflexivity|]. split; [now apply P0_well_shaped|]. split; [apply (P0_facts sz Hsz)|].
    rewrite HA. symmetry. apply img_id. now apply P0_well_shaped.
  - split; reflexivity.
  - intros k Hk. cbn [length] in Hk. replace k with 0 by lia. exists 0, (P0 sz), (P0 sz).
    split; [lia|]. split; [reflexivity|]. split; [reflexivity|]. symmetry. apply img_id. now apply P0_well_shaped.
Qed.

Lemma cinv_init st : cinit sz = Ok st -> cinv [] st.
Proof.
  intros H. assert (E : st = (repeat (cstate0 sz) 8, [], nth 0 (syms (Z.of_N sz)) (fun x y => (x, y)))) by (unfold cinit in H; congruence).
  rewrite E. apply cinv_init0.
Qed.

Lemma hd_nth0 {A} (l : list A) x : hd x l = nth 0 l x.
Proof. destruct l; reflexivity. Qed.

(* a move that Canonical accepts has its origin on the board, whatever int8 coordinates it has *)
Lemma cstep_onboard done boards rots tfn m st' :
  cinv done (boards, rots, tfn) -> canon_input m -> cstep sz (Ok (boards, rots, tfn)) m = Ok st' -> onbz s (mX m) (mY m).
Proof.
  intros [Hlen _ Hrots _ (j & B & _ & _ & Hcomp & _ & _ & HnB & HA) _ _] (Hx & Hy & _) Hstep.
  cbn [fst snd] in *. assert (Hs := Hs).
  unfold cstep in Hstep. rewrite <- (N_nat_Z sz) in Hstep. fold s in Hstep.
  destruct (transform_move tfn m) as [m1| |] eqn:E1; try discriminate.
  set (L := combine (seq 0 8) boards) in *.
  assert (HL : forall ib, In ib L -> fst ib < 8).
  { intros [i b] Hin. apply (in_combine_seq d) in Hin. cbn [fst]. lia. }
  destruct (fold_left _ L _) as [[best rot]| |] eqn:Ec; try discriminate.
  (* the chosen move m2 is m1 or an image of m1 *)
  assert (Hm2 : exists m2 rots' tfn', (m2 = m1 \/ exists i, i < 8 /\ transform_move (csym s i) m1 = Ok m2) /\
      match all_res (map (move_board (syms (Z.of_nat s)) m2) L) with Ok bs => Ok (bs, rots', tfn') | Err => Err | Panic => Panic end = Ok st').
  { destruct rot as [r|].
    - exists best, (r :: rots), (compose (r :: rots)). split; [|exact Hstep].
      apply (cand_fold_weak s _ m1 L _ best (Some r) HL) in Ec.
      + destruct Ec as [E|E]; [discriminate|right; exact E].
      + intros b r0 E. inversion E. left. reflexivity.
    - exists m1, rots, tfn. split; [left; reflexivity|exact Hstep]. }
  destruct Hm2 as (m2 & rots' & tfn' & Hm2 & Hst). clear Hstep Ec.
  destruct (all_res _) as [bs| |] eqn:Eall; try discriminate. apply all_res_ok in Eall.
  (* board 0 is moved by the identity image of m2 and accepts it *)
  destruct boards as [|b0 rest]; [discriminate Hlen|]. subst L. cbn [seq combine map] in Eall.
  assert (E0 := f_equal (hd Err) Eall). cbn [hd] in E0.
  destruct bs as [|c0 bs']; [discriminate|]. cbn [map hd] in E0.
  unfold move_board in E0. cbn [fst snd] in E0.
  destruct (transform_move _ m2) as [rm| |] eqn:Erm; try discriminate.
  destruct (cmv (cp b0) rm) as [q| |] eqn:Eq; try discriminate.
  apply cmv_ok_onboard in Eq. apply transform_move_origin in Erm. cbn [nth syms] in Erm.
  assert (Esz : size (cp b0) = sz).
  { apply (f_equal Rules.n) in HA. unfold A_of, board0 in HA. cbn [hd] in HA. rewrite abs_n in HA. cbn [img Rules.n] in HA.
    rewrite HnB in HA. unfold s in HA. lia. }
  rewrite Esz, <- (N_nat_Z sz) in Eq. fold s in Eq.
  assert (Hon2 : onbz s (mX m2) (mY m2)).
  { injection Erm as Ex Ey. rewrite <- Ex, <- Ey. exact Eq. }
  (* back through the candidate symmetry *)
  apply transform_move_origin in E1. rewrite <- Hcomp in E1.
  destruct (compose_int8 s rots Hrots (mX m) (mY m) Hx Hy) as [I1 I2]. rewrite <- E1 in I1, I2. cbn [fst snd] in I1, I2.
  assert (Hon1 : onbz s (mX m1) (mY m1)).
  { destruct Hm2 as [->|(i & Hi & Et)]; [exact Hon2|].
    apply transform_move_origin in Et. apply (csym_onboard_inv s i (mX m1) (mY m1) Hi Hs I1 I2).
    rewrite <- Et. exact Hon2. }
  (* back through tfn = compose rots *)
  apply (compose_onboard_inv s rots Hs Hrots (mX m) (mY m) Hx Hy). rewrite <- E1. exact Hon1.
Qed.

(* the move appended to board 0's list is the image of the input move under the (new) symmetry that maps the original position onto board 0 *)
Definition last_is_image (done : list rmove) (boards : list cstate) (m : rmove) (st' : cst) : Prop :=
  exists j', j' < 8 /\ (forall B0, play (P0 sz) (map raw done) = Some B0 -> A_of boards = img j' B0) /\
             cms (board0 (fst (fst st'))) = cms (board0 boards) ++ [tmr j' s m].

Lemma cstep_inv_ext done boards rots tfn m st' :
  cinv done (boards, rots, tfn) -> nocoll_state (boards, rots, tfn) -> canon_input m ->
  cstep sz (Ok (boards, rots, tfn)) m = Ok st' -> sc_state st' -> cinv (done ++ [m]) st' /\ last_is_image done boards m st'.
Proof.
  intros Hcinv Hnc Hin Hstep Hsc. assert (Hs := Hs).
  assert (Hr : inrange 20 m).
  { destruct (cstep_onboard _ _ _ _ _ _ Hcinv Hin Hstep) as [H1 H2]. unfold size_ok in Hs. split; lia. }
  destruct Hin as (_ & _ & Hml).
  destruct Hcinv as [Hlen Hbi Hrots Himg (j & B & Hj & Hag & Hcomp & HplayB & HwB & HnB & HA) [HplayA HlenA] Hpref].
  unfold nocoll_state in Hnc. cbn [fst snd] in *.
  unfold cstep in Hstep. rewrite <- (N_nat_Z sz) in Hstep. fold s in Hstep.
  (* 1. the move in canonical coordinates *)
  assert (Em1 : transform_move tfn m = Ok (tmr j s m)).
  { rewrite (transform_move_ext tfn (csym s j)).
    - apply transform_move_tm; try assumption. apply transformable_of; [|assumption]. destruct Hr; split; lia.
    - intros x y Hx Hy. rewrite Hag by assumption. symmetry. apply csym_sym; try assumption; lia.
    - destruct Hr; split; lia. }
  rewrite Em1 in Hstep.
  assert (Hm1r : inrange 27 (tmr j s m)) by (apply (tmr_inrange j s m 20); try assumption; lia).
  assert (Hm1l : movelike (tmr j s m)) by now apply tmr_movelike.
  assert (Hm1t : transformable (tmr j s m)) by (apply transformable_of; [destruct Hm1r; split; lia|assumption]).
  (* 2. the candidate loop *)
  set (L := combine (seq 0 8) boards) in *.
  assert (HL : forall ib, In ib L -> fst ib < 8).
  { intros [i b] Hin. apply (in_combine_seq d) in Hin. cbn [fst]. lia. }
  assert (Hcand := cand_fold_spec s Hs (hash_of (cp (hd (cstate0 sz) boards))) (tmr j s m) Hm1t L HL L (Ok (tmr j s m, None)) (incl_refl L)).
  match type of Hcand with ?P -> _ => assert (Hp : P) by (exists (tmr j s m), None; split; [reflexivity|left; split; reflexivity]) end.
  specialize (Hcand Hp). clear Hp. destruct Hcand as (best & rot & Ec & Hcase). rewrite Ec in Hstep. clear Ec.
  (* 3. the common continuation: board 0 is the image under j' of B, the boards are moved by the images of tmr j' s m *)
  assert (Hfin : forall j' rots' tfn', j' < 8 -> A_of boards = img j' B -> agree tfn' j' -> (forall x y, compose rots' x y = tfn' x y) -> rots_ok s rots' ->
            match all_res (map (move_board (syms (Z.of_nat s)) (tmr j' s m)) L) with Ok bs => Ok (bs, rots', tfn') | Err => Err | Panic => Panic end = Ok st' ->
            cinv (done ++ [m]) st' /\ last_is_image done boards m st').
  { clear Hstep Hcase best rot. intros j' rots' tfn' Hj' HA' Hag' Hcomp' Hrots' Hstep.
    destruct (all_res _) as [bs| |] eqn:Eall; try discriminate. inversion Hstep; subst st'; clear Hstep.
    unfold sc_state in Hsc. cbn [fst snd] in Hsc.
    set (m2 := tmr j' s m) in *.
    assert (Hm2r : inrange 27 m2) by (apply (tmr_inrange j' s m 20); try assumption; lia).
    assert (Hm2l : movelike m2) by now apply tmr_movelike.
    assert (Hm2t : transformable m2) by (apply transformable_of; [destruct Hm2r; split; lia|assumption]).
    destruct (move_boards_spec s m2 boards bs d Hs Hm2t Hlen Eall) as [Hlbs Hq].
    assert (HnA : Rules.n (A_of boards) = s) by (rewrite HA'; exact HnB).
    assert (HwA : well_shaped (A_of boards)) by (rewrite HA'; now apply img_well_shaped).
    assert (Hin : forall i, i < 8 -> In (nth i boards d) boards) by (intros i Hi; apply nth_In; lia).
    (* every board: the code's move is the rules' move, and the invariant holds again *)
    assert (Hq' : forall i, i < 8 -> exists q, nth i bs d = {| cp := q; cms := cms (nth i boards d) ++ [tmr i s m2] |} /\
                    rules_move (abs (cp (nth i boards d))) (raw (tmr i s m2)) = Some (abs q) /\ BI q).
    { intros i Hi. destruct (Hq i Hi) as (q & Hmv & Enth). exists q. split; [exact Enth|].
      apply (BI_move _ _ _ (Hbi _ (Hin i Hi)) Hmv).
      assert (Hsq := Hsc (nth i bs d) ltac:(apply nth_In; lia)). rewrite Enth in Hsq. exact Hsq. }
    clear Hq.
    (* board 0 *)
    destruct (Hq' 0 ltac:(lia)) as (q0 & Enth0 & R0' & _).
    rewrite <- hd_nth0 in R0'. fold (board0 boards) in R0'. fold (A_of boards) in R0'.
    assert (R0 := R0'). rewrite raw_tmr in R0. rewrite <- HnA in R0. rewrite (rules_move_tm0 _ _ HwA) in R0.
    (* the original game *)
    assert (RB := rules_equivariant j' B (raw m) Hj' HwB). rewrite HnB, <- raw_tmr, <- HA' in RB. fold m2 in RB. rewrite R0 in RB.
    destruct (rules_move B (raw m)) as [B'|] eqn:EB; [|discriminate]. cbn [option_map] in RB. apply some_inj in RB. rename RB into EA'.
    assert (Hbs0 : board0 bs = {| cp := q0; cms := cms (board0 boards) ++ [tmr 0 s m2] |}).
    { unfold board0. rewrite !hd_nth0. exact Enth0. }
    assert (HA2 : A_of bs = abs q0) by (unfold A_of; rewrite Hbs0; reflexivity).
    split; [|exists j'; split; [exact Hj'|]; split;
              [intros B0 HB0; rewrite HplayB in HB0; apply some_inj in HB0; subst B0; exact HA'
              |cbn [fst]; rewrite Hbs0; cbn [cms]; unfold m2; now rewrite (tmr_comp 0 j' s m ltac:(lia) Hj'), comp_0_l]].
    constructor; cbn [fst snd].
    - exact Hlbs.
    - intros b Hb. destruct (In_nth _ _ d Hb) as (i & Hi & <-). rewrite Hlbs in Hi.
      destruct (Hq' i Hi) as (qi & Enthi & _ & Hbq). rewrite Enthi. exact Hbq.
    - exact Hrots'.
    - intros i Hi. destruct (Hq' i Hi) as (qi & Enthi & Ri & _). rewrite Enthi. cbn [cp]. rewrite HA2.
      rewrite (Himg i Hi), raw_tmr, <- HnA in Ri. rewrite (rules_equivariant i _ (raw m2) Hi HwA), R0 in Ri.
      cbn [option_map] in Ri. apply some_inj in Ri. symmetry. exact Ri.
    - exists j', B'. split; [exact Hj'|]. split; [exact Hag'|]. split; [exact Hcomp'|].
      split; [rewrite play_snoc, HplayB; exact EB|].
      split; [apply (rules_move_well_shaped B (raw m) B' HwB EB)|].
      split; [apply rules_move_shape in EB; destruct EB as [E1 _]; now rewrite E1|].
      rewrite HA2. exact EA'.
    - rewrite Hbs0. cbn [cms]. split.
      + rewrite play_snoc, HplayA, HA2. exact R0'.
      + rewrite !app_length, HlenA. reflexivity.
    - intros k Hk. rewrite app_length in Hk. cbn [length] in Hk. rewrite Hbs0. cbn [cms].
      destruct (Nat.le_gt_cases k (length done)) as [Hle|Hgt].
      + unfold images_at. rewrite !firstn_app_le by lia. apply Hpref. exact Hle.
      + exists j', (abs q0), B'. rewrite !firstn_all2 by (rewrite app_length; cbn [length]; lia).
        split; [exact Hj'|]. split; [rewrite play_snoc, HplayA; exact R0'|].
        split; [rewrite play_snoc, HplayB; exact EB|]. exact EA'. }
  (* 4. the two cases of the candidate loop *)
  destruct Hcase as [[-> ->]|(i & b & Hi & Hinb & Hh & -> & ->)].
  - apply (Hfin j rots tfn Hj HA Hag Hcomp Hrots). exact Hstep.
  - cbv zeta in Hstep. rewrite (tmr_comp i j s m ltac:(lia) Hj) in Hstep.
    apply (Hfin (comp i j) (csym s i :: rots) (compose (csym s i :: rots))); try assumption.
    + apply comp_lt; lia.
    + (* symmetry i fixes board 0: its board has the same hash, hence (NoCollision) shows the same position *)
      apply (in_combine_seq d) in Hinb. destruct Hinb as [_ Eb]. rewrite Nat.sub_0_r in Eb.
      assert (Hbin : In b boards) by (rewrite <- Eb; apply nth_In; lia).
      assert (Hfix := Hnc b Hbin Hh). rewrite <- Eb, (Himg i ltac:(lia)) in Hfix.
      rewrite <- Hfix. rewrite HA. apply img_comp; try lia. rewrite HnB. exact Hs.
    + intros x y Hx Hy. rewrite compose_cons, Hcomp. rewrite Hag by assumption.
      destruct (sym_range s j x y Hj Hs Hx Hy) as [R1 R2].
      destruct (sym (Z.of_nat s) j (x, y)) as [a c] eqn:E. cbn [fst snd] in R1, R2.
      rewrite csym_sym by (assumption || lia). rewrite <- E. apply comp_ok; lia.
    + reflexivity.
    + constructor; [exists i; split; [lia|reflexivity]|exact Hrots].
Qed.

Lemma cstep_inv done boards rots tfn m st' :
  cinv done (boards, rots, tfn) -> nocoll_state (boards, rots, tfn) -> canon_input m ->
  cstep sz (Ok (boards, rots, tfn)) m = Ok st' -> sc_state st' -> cinv (done ++ [m]) st'.
Proof. intros H1 H2 H3 H4 H5. exact (proj1 (cstep_inv_ext _ _ _ _ _ _ H1 H2 H3 H4 H5)). Qed.

Lemma canonical_inv : forall ms, Forall canon_input ms -> nocoll_trace ms -> sc_trace ms ->
  forall st, fold_left (cstep sz) ms (cinit sz) = Ok st -> cinv ms st.
Proof.
  induction ms as [|m ms IH] using rev_ind; intros Hall Hnc Hsc st Hf.
  - apply cinv_init. exact Hf.
  - assert (Hf' := Hf). rewrite fold_cstep_app in Hf. destruct (cstep_not_ok _ _ _ _ Hf) as [[[boards rots] tfn] E0].
    apply Forall_app in Hall. destruct Hall as [Hall Hm]. inversion Hm as [|? ? Hm' _]; subst.
    assert (Hnc' : nocoll_trace ms).
    { intros k st0 Hk Hf0. apply (Hnc k st0); [rewrite app_length; cbn; lia|]. now rewrite firstn_app_le by lia. }
    assert (Hsc' : sc_trace ms).
    { intros k st0 Hk Hf0. apply (Hsc k st0); [rewrite app_length; cbn; lia|]. now rewrite firstn_app_le by lia. }
    assert (Hinv := IH Hall Hnc' Hsc' _ E0).
    assert (Hgood : nocoll_state (boards, rots, tfn)).
    { apply (Hnc (length ms)); [rewrite app_length; cbn; lia|]. rewrite firstn_app_le by lia. now rewrite firstn_all. }
    assert (Hscst : sc_state st).
    { apply (Hsc (length (ms ++ [m]))); [rewrite app_length; cbn; lia|]. now rewrite firstn_all. }
    rewrite E0 in Hf. exact (cstep_inv ms boards rots tfn m st Hinv Hgood Hm' Hf Hscst).
Qed.

(* DESIGN 5.15, canonical_legal_images, generic in BI / SC: the canonical game has the length of the input, and for every k the first k
   moves of both are legal games (by the rules of Rules.v, from the start position of the model), the canonical one ending in an image of
   the other. *)
Theorem canonical_legal_images_gen : forall ms cs,
  Forall canon_input ms -> nocoll_trace ms -> sc_trace ms -> canonical gen_basis sz ms = Ok cs ->
  length cs = length ms /\ forall k, k <= length ms -> images_at ms cs k.
Proof.
  intros ms cs Hall Hnc Hsc H. rewrite canonical_unfold in H.
  destruct (fold_left (cstep sz) ms (cinit sz)) as [[[boards rots] tfn]| |] eqn:Ef; try discriminate.
  inversion H; subst cs; clear H.
  destruct (canonical_inv ms Hall Hnc Hsc _ Ef) as [_ _ _ _ _ [_ Hl] Hp]. cbn [fst snd] in *. split; [exact Hl|exact Hp].
Qed.
End Canon.
