(* C08 core: the incremental hash equals the from-scratch value after every mutation of one square *)
From Coq Require Import NArith ZArith Arith List Bool Lia ZifyN ZifyBool ZifyNat.
Require Import Board Stack Rules Move Refine RefinePlace RefinePlace2 RefinePlace3 Slide1 Slide2 Slide3 Slide4 Slide5 Slide6 Slide7.
Import ListNotations.

Section H.
Variable hf : N -> N -> N -> N.            (* any per-square hash: the proof uses only the XOR algebra *)
Variable base : N.

Ltac xor_solve := apply N.bits_inj; intro; rewrite ?N.lxor_spec, ?N.bits_0;
  repeat match goal with |- context [N.testbit ?a ?k] => destruct (N.testbit a k) end; reflexivity.

Definition xsum (f : nat -> N) (n : nat) : N := fold_right (fun j acc => N.lxor (f j) acc) 0%N (seq 0 n).

Lemma xsum_S f n : xsum f (S n) = N.lxor (xsum f n) (f n).
Proof.
  unfold xsum. rewrite seq_S, fold_right_app. cbn [fold_right plus].
  generalize (seq 0 n). induction l as [|a l IH]; cbn [fold_right].
  - now rewrite N.lxor_0_r, N.lxor_0_l.
  - rewrite IH. now rewrite N.lxor_assoc.
Qed.

Lemma xsum_ext f g n : (forall j, (j < n)%nat -> f j = g j) -> xsum f n = xsum g n.
Proof.
  induction n as [|n IH]; intros H; [reflexivity|]. rewrite !xsum_S.
  rewrite IH by (intros; apply H; lia). rewrite (H n) by lia. reflexivity.
Qed.

(* changing one summand *)
Lemma xsum_update f g n i : (i < n)%nat -> (forall j, (j < n)%nat -> j <> i -> g j = f j) ->
  xsum g n = N.lxor (N.lxor (xsum f n) (f i)) (g i).
Proof.
  induction n as [|n IH]; intros Hi H; [lia|]. rewrite !xsum_S.
  destruct (Nat.eq_dec i n) as [->|Hn].
  - rewrite (xsum_ext g f n) by (intros; apply H; lia). xor_solve.
  - rewrite IH by (try lia; intros; apply H; lia). rewrite (H n) by lia. xor_solve.
Qed.

Definition hsum (hs st : list N) (n : nat) : N := xsum (fun j => hash_at hf hs st (N.of_nat j)) n.
Definition hash_inv (n : nat) (b : bstate) : Prop := bh b = N.lxor base (hsum (bhs b) (bst b) n).

(* the bracket  h ^= hashAt(i); mutate square i; h ^= hashAt(i)  preserves the invariant *)
Lemma bracket_preserves n b hs' st' i :
  (N.to_nat i < n)%nat -> hash_inv n b ->
  (forall j, (j < n)%nat -> j <> N.to_nat i -> nthN hs' (N.of_nat j) = nthN (bhs b) (N.of_nat j) /\ nthN st' (N.of_nat j) = nthN (bst b) (N.of_nat j)) ->
  N.lxor (N.lxor (bh b) (hash_at hf (bhs b) (bst b) i)) (hash_at hf hs' st' i) = N.lxor base (hsum hs' st' n).
Proof.
  intros Hi Hinv Hoth. rewrite Hinv. unfold hsum.
  rewrite (xsum_update (fun j => hash_at hf (bhs b) (bst b) (N.of_nat j)) (fun j => hash_at hf hs' st' (N.of_nat j)) n (N.to_nat i) Hi).
  - rewrite !N2Nat.id. xor_solve.
  - intros j Hj Hn. destruct (Hoth j Hj Hn) as [A B]. unfold hash_at. now rewrite A, B.
Qed.
End H.
Print Assumptions bracket_preserves.
