(* C10: first layer of the TPS round trip: one square's text parses back to the square. *)
From Coq Require Import NArith ZArith List Bool Lia Ascii ZifyN ZifyBool ZifyNat.
Require Import Board Move GameOver PtnMove Playtak Tps.
Import ListNotations.
Local Open Scope N_scope.

Definition flat_pc (pp : pc) : Prop := match pp with P _ k => k = 1 end.
(* a square as Position.At returns it on a well-formed board: non-empty, top of kind 1..3, flats below *)
Definition wf_square (sq : list pc) : Prop :=
  match sq with
  | [] => False
  | P _ k :: below => (k = 1 \/ k = 2 \/ k = 3) /\ Forall flat_pc below
  end.

Definition digit (pp : pc) : N := match pp with P false _ => B "1" | P true _ => B "2" end.
Definition flatten_pc (pp : pc) : pc := match pp with P b _ => P b 1 end.

Lemma parse_stack_digits : forall l len i rest acc,
  parse_stack len i (map digit l ++ rest) acc = parse_stack len (i + length l) rest (rev (map flatten_pc l) ++ acc).
Proof.
  induction l as [|[b k] l IH]; intros len i rest acc; cbn [map app length rev].
  - now rewrite Nat.add_0_r.
  - cbn [parse_stack digit]. destruct b.
    + change (B "2" =? B "1") with false. change (B "2" =? B "2") with true. cbv iota.
      rewrite IH. cbn [flatten_pc]. rewrite <- app_assoc. cbn [app]. f_equal. lia.
    + change (B "1" =? B "1") with true. cbv iota.
      rewrite IH. cbn [flatten_pc]. rewrite <- app_assoc. cbn [app]. f_equal. lia.
Qed.

Lemma flatten_flats l : Forall flat_pc l -> map flatten_pc l = l.
Proof. induction 1 as [|[b k] l Hk _ IH]; cbn; [reflexivity|]. cbn in Hk. subst. now rewrite IH. Qed.

Lemma cell_rt_aux tb k below mark : Forall flat_pc below ->
  (mark = [] /\ k = 1 \/ mark = [B "S"] /\ k = 2 \/ mark = [B "C"] /\ k = 3) ->
  parse_cell (map digit (rev below ++ [P tb k]) ++ mark) = Ok [P tb k :: below].
Proof.
  intros Hbelow Hk.
  assert (Hne : exists c0 r, map digit (rev below ++ [P tb k]) ++ mark = c0 :: r /\ (c0 = B "1" \/ c0 = B "2")).
  { destruct (rev below) as [|[b0 k0] r0] eqn:E; cbn [map app].
    - destruct tb; eexists _, _; split; try reflexivity; cbn; auto.
    - destruct b0; eexists _, _; split; try reflexivity; cbn; auto. }
  destruct Hne as (c0 & r & Hcr & Hc0). unfold parse_cell. rewrite Hcr.
  replace (c0 =? B "x") with false by (destruct Hc0 as [-> | ->]; reflexivity).
  rewrite <- Hcr. rewrite parse_stack_digits. cbn [Nat.add].
  replace (rev (map flatten_pc (rev below ++ [P tb k])) ++ []) with (P tb 1 :: below).
  2:{ rewrite app_nil_r, map_app, rev_app_distr. cbn [map rev app flatten_pc].
      now rewrite map_rev, rev_involutive, (flatten_flats below Hbelow). }
  rewrite !app_length, map_length, app_length. cbn [length].
  destruct Hk as [[-> ->]|[[-> ->]|[-> ->]]]; cbn [parse_stack app length].
  - reflexivity.
  - change (B "S" =? B "1") with false. change (B "S" =? B "2") with false.
    change ((B "S" =? B "C") || (B "S" =? B "S")) with true. cbv iota.
    replace (length (rev below) + 1 =? length (rev below) + 1 + 1 - 1)%nat with true by (symmetry; apply Nat.eqb_eq; lia).
    cbn [negb]. change (B "S" =? B "S") with true. reflexivity.
  - change (B "C" =? B "1") with false. change (B "C" =? B "2") with false.
    change ((B "C" =? B "C") || (B "C" =? B "S")) with true. cbv iota.
    replace (length (rev below) + 1 =? length (rev below) + 1 + 1 - 1)%nat with true by (symmetry; apply Nat.eqb_eq; lia).
    cbn [negb]. change (B "C" =? B "S") with false. reflexivity.
Qed.

(* tpsSquare then the stack branch of parseRow: the identity on well-formed squares *)
Theorem cell_roundtrip sq : wf_square sq -> parse_cell (tps_square sq) = Ok [sq].
Proof.
  destruct sq as [|[tb k] below]; [intros []|]. intros [Hk Hbelow].
  destruct Hk as [->|[->| ->]].
  - apply (cell_rt_aux tb 1 below []); auto.
  - apply (cell_rt_aux tb 2 below [B "S"]); auto.
  - apply (cell_rt_aux tb 3 below [B "C"]); auto.
Qed.

Example wf_square_example : wf_square [P true 3; P false 1; P true 1].
Proof. cbn. split; [auto|repeat constructor]. Qed.
