(* MctsFacts6.v: "GetMove never panics" for the Monte-Carlo player without the evaluator-totality assumption of MctsFacts5.v:
   the built-in evaluator returns a value on every position of the invariant (EvalTotal.evaluate_never_panics). *)
From Coq Require Import NArith ZArith List Bool Lia.
Require Import Board Move GameOver Refine Slide2 Preserve1 Eval EvalInst EvalTotal GameOverFacts2 Mcts MctsFacts5.
Import ListNotations.

Lemma G0_inv p : G0 p -> inv p.
Proof.
  intros ([Hs Hb Hr [_ _ _ (Mw & Mb & _ & _) _]] & Ht & _). cbn [Slide2.bview Move.bw Move.bb] in *. unfold total in Ht.
  destruct Hr as (R1 & R2 & R3 & R4).
  constructor; try assumption; try lia.
  - intros i Hi. destruct (N.lt_ge_cases i (size p * size p)) as [L|L]; [exact L|]. rewrite (Mw i L) in Hi. discriminate.
  - intros i Hi. destruct (N.lt_ge_cases i (size p * size p)) as [L|L]; [exact L|]. rewrite (Mb i L) in Hi. discriminate.
Qed.

Lemma eval_default_total p : G0 p -> eval_default p <> Panic.
Proof.
  intros G. unfold eval_default. destruct (evaluate_never_panics (default_weights (size p)) p (G0_inv p G)) as (v & E). rewrite E. discriminate.
Qed.

(* GetMove does not panic on a live position of the invariant G0 (C01's pos_ok, a game of at most 64 pieces, the opening stones
   exist): no hypothesis about the evaluator is left; any random stream, any score function, any clock (fuel), any policy options *)
Theorem getmove_no_panic :
  forall (F : Type) (f_neg_inf f_m100 f_p100 f_p10 : F) (f_score : Z -> Z -> Z -> F) (f_gt f_eq : F -> F -> bool)
         cfg fuel perm p c rs,
  G0 p -> game_over p = Some (false, c) ->
  get_move F f_neg_inf f_m100 f_p100 f_p10 f_score f_gt f_eq cfg (S fuel) perm p rs <> Panic.
Proof. exact (getmove_no_panic_partial eval_default_total). Qed.
Print Assumptions getmove_no_panic.
