(* Proofs about the tokeniser half of PtnFile.v: parsing the rendering of a well-formed game gives the game back
   (ptn_render_parse), and the parser never panics (parse_ptn_total). *)
From Coq Require Import NArith ZArith List Bool Lia Ascii.
Require Import Board Move GameOver PtnMove Playtak Tps PtnFile.
Import ListNotations.
Local Open Scope char_scope.
Local Open Scope N_scope.

Ltac bn := change (B " ") with 32 in *; change (B """") with 34 in *; change (B "[") with 91 in *; change (B "]") with 93 in *;
  change (B "{") with 123 in *; change (B "}") with 125 in *; change (B ".") with 46 in *; change (B "-") with 45 in *;
  change (B "+") with 43 in *; change (B "0") with 48 in *; change (B "9") with 57 in *; change (B "?") with 63 in *;
  change (B "!") with 33 in *; change (B "'") with 39 in *; change (B "F") with 70 in *; change (B "R") with 82 in *;
  change (B "1") with 49 in *; change (B "2") with 50 in *; change (B "/") with 47 in *.

(* ---------- generic scanning lemmas ---------- *)
Definition nospace (l : list N) := forall b, In b l -> is_space b = false.

Lemma skip_ws_nonspace c r : is_space c = false -> skip_ws (c :: r) = c :: r.
Proof. intros H. cbn. rewrite H. reflexivity. Qed.
Lemma skip_ws_space c r : is_space c = true -> skip_ws (c :: r) = skip_ws r.
Proof. intros H. cbn. rewrite H. reflexivity. Qed.
Lemma skip_ws_idem s : skip_ws (skip_ws s) = skip_ws s.
Proof. induction s as [|c r IH]; [reflexivity|]. cbn. destruct (is_space c) eqn:E; [exact IH|]. cbn. rewrite E. reflexivity. Qed.
Lemma skip_ws_head s : match skip_ws s with [] => True | c :: _ => is_space c = false end.
Proof. induction s as [|c r IH]; [exact I|]. cbn. destruct (is_space c) eqn:E; [exact IH|exact E]. Qed.
Lemma skip_ws_len s : (length (skip_ws s) <= length s)%nat.
Proof. induction s as [|c r IH]; [cbn; lia|]. cbn. destruct (is_space c); cbn; lia. Qed.

Lemma take_until_space_app u : forall sp t acc, nospace u -> is_space sp = true ->
  take_until_space (u ++ sp :: t) acc = (rev acc ++ u, t).
Proof.
  induction u as [|c u IH]; intros sp t acc N S; cbn.
  - rewrite S, app_nil_r. reflexivity.
  - rewrite (N c) by (left; reflexivity). rewrite IH; auto. + cbn. rewrite <- app_assoc. reflexivity. + intros b Hb. apply N. right; exact Hb.
Qed.

Lemma take_comment_app c : forall t acc, ~ In 125 c -> take_comment (c ++ 125 :: t) acc = (rev acc ++ c ++ [125], t).
Proof.
  induction c as [|x c IH]; intros t acc N; cbn; bn.
  - reflexivity.
  - destruct (x =? 125) eqn:E. { apply N.eqb_eq in E. exfalso. apply N. left. auto. }
    rewrite IH by (intros H; apply N; right; exact H). cbn. rewrite <- app_assoc. reflexivity.
Qed.

Lemma read_until_app d s : forall t acc, ~ In d s -> read_until d (s ++ d :: t) acc = Some (rev acc ++ s, t).
Proof.
  induction s as [|x s IH]; intros t acc N; cbn.
  - rewrite N.eqb_refl, app_nil_r. reflexivity.
  - destruct (x =? d) eqn:E. { apply N.eqb_eq in E. exfalso. apply N. left. auto. }
    rewrite IH by (intros H; apply N; right; exact H). cbn. rewrite <- app_assoc. reflexivity.
Qed.

Lemma split_n2_app nm : forall rest acc, ~ In 32 nm -> split_n2 (nm ++ 32 :: rest) acc = [rev acc ++ nm; rest].
Proof.
  induction nm as [|x s IH]; intros t acc N; cbn; bn.
  - rewrite app_nil_r. reflexivity.
  - destruct (x =? 32) eqn:E. { apply N.eqb_eq in E. exfalso. apply N. left. auto. }
    rewrite IH by (intros H; apply N; right; exact H). cbn. rewrite <- app_assoc. reflexivity.
Qed.

Lemma trim_left_notin q l : ~ In q l -> trim_left q l = l.
Proof. destruct l as [|c r]; [reflexivity|]. intros N. cbn. destruct (c =? q) eqn:E; [|reflexivity]. apply N.eqb_eq in E. exfalso. apply N. left; auto. Qed.

Lemma trim_quoted v : ~ In 34 v -> trim 34 (34 :: v ++ [34]) = v.
Proof.
  intros N. unfold trim. cbn [trim_left]. rewrite N.eqb_refl.
  destruct v as [|c r].
  - cbn. reflexivity.
  - change ((c :: r) ++ [34]) with (c :: (r ++ [34])). cbn [trim_left].
    destruct (c =? 34) eqn:E. { apply N.eqb_eq in E. exfalso. apply N. left; auto. }
    change (c :: r ++ [34]) with ((c :: r) ++ [34]). rewrite rev_unit. cbn [trim_left]. rewrite N.eqb_refl.
    rewrite trim_left_notin. + apply rev_involutive. + intros H. apply N. apply in_rev. exact H.
Qed.

Lemma filter_noq v : ~ In 34 v -> filter (fun c => negb (c =? B """")) v = v.
Proof.
  bn. induction v as [|c r IH]; intros N; [reflexivity|]. cbn.
  destruct (c =? 34) eqn:E. { apply N.eqb_eq in E. exfalso. apply N. left; auto. }
  cbn. rewrite IH; [reflexivity|]. intros H; apply N; right; exact H.
Qed.

(* ---------- decimal numbers: strconv.Atoi (fmt %d) ---------- *)
Definition alldig (l : list N) : bool := forallb (in_range 48 57) l.
Fixpoint val (l : list N) : Z := match l with [] => 0%Z | d :: r => (Z.of_N (d - 48) * 10 ^ Z.of_nat (length r) + val r)%Z end.

Lemma digits_spec l : forall a, alldig l = true -> digits l a = Some (a * 10 ^ Z.of_nat (length l) + val l)%Z.
Proof.
  induction l as [|d r IH]; intros a H; cbn [digits val length].
  - f_equal. cbn. lia.
  - cbn in H. apply andb_true_iff in H. destruct H as [H1 H2]. bn. rewrite H1. rewrite IH by exact H2.
    f_equal. rewrite Nat2Z.inj_succ, Z.pow_succ_r by lia. ring.
Qed.

Lemma dec_nonempty f : forall n acc, acc <> [] -> dec f n acc <> [].
Proof. induction f as [|f IH]; intros n acc H; cbn; [exact H|]. destruct (n / 10 =? 0); [discriminate|]. apply IH. discriminate. Qed.

Lemma dec_S_nonempty f n acc : dec (S f) n acc <> [].
Proof. cbn [dec]. destruct (n / 10 =? 0); [discriminate|]. apply dec_nonempty. discriminate. Qed.

Lemma dec_spec f : forall n acc, n < 10 ^ N.of_nat f -> alldig acc = true ->
  alldig (dec f n acc) = true /\ val (dec f n acc) = (Z.of_N n * 10 ^ Z.of_nat (length acc) + val acc)%Z.
Proof.
  induction f as [|f IH]; intros n acc L A.
  - cbn in L. assert (n = 0) by lia. subst. cbn. split; [exact A|]. lia.
  - cbn [dec]. bn.
    assert (A' : alldig ((48 + n mod 10) :: acc) = true).
    { unfold alldig in *. cbn [forallb]. rewrite A. unfold in_range. pose proof (N.mod_lt n 10 ltac:(lia)).
      replace (48 <=? 48 + n mod 10) with true by (symmetry; apply N.leb_le; lia).
      replace (48 + n mod 10 <=? 57) with true by (symmetry; apply N.leb_le; lia). reflexivity. }
    pose proof (N.div_mod' n 10) as DM.
    destruct (n / 10 =? 0) eqn:E.
    + apply N.eqb_eq in E. split; [exact A'|]. cbn [val length]. replace (48 + n mod 10 - 48) with (n mod 10) by lia.
      rewrite E in DM. replace (n mod 10) with n by lia. reflexivity.
    + apply N.eqb_neq in E.
      assert (L' : n / 10 < 10 ^ N.of_nat f).
      { rewrite Nat2N.inj_succ, N.pow_succ_r' in L. apply N.div_lt_upper_bound; lia. }
      destruct (IH (n / 10) _ L' A') as [I1 I2]. split; [exact I1|]. rewrite I2.
      cbn [val length]. replace (48 + n mod 10 - 48) with (n mod 10) by lia.
      rewrite Nat2Z.inj_succ, Z.pow_succ_r by lia.
      rewrite DM at 3. rewrite N2Z.inj_add, N2Z.inj_mul. change (Z.of_N 10) with 10%Z. ring.
Qed.

Lemma digit_facts d : in_range 48 57 d = true -> is_space d = false /\ d <> 91 /\ d <> 123 /\ d <> 43 /\ d <> 45.
Proof.
  unfold in_range. intros H. apply andb_true_iff in H. destruct H as [H1 H2]. apply N.leb_le in H1, H2.
  split; [|lia]. unfold is_space. repeat (apply orb_false_iff; split); apply N.eqb_neq; lia.
Qed.

Lemma alldig_nospace l : alldig l = true -> nospace l.
Proof. intros H b Hb. unfold alldig in H. rewrite forallb_forall in H. apply digit_facts. apply H. exact Hb. Qed.

Definition in64 (z : Z) := (- 2 ^ 63 <= z < 2 ^ 63)%Z.

Lemma dec25 n : n <= 2 ^ 63 -> exists d r, dec 25 n [] = d :: r /\ alldig (d :: r) = true /\ val (d :: r) = Z.of_N n.
Proof.
  intros H. assert (L : n < 10 ^ N.of_nat 25) by (change (10 ^ N.of_nat 25) with 10000000000000000000000000; change (2^63) with 9223372036854775808 in H; lia).
  destruct (dec_spec 25 n [] L eq_refl) as [A V].
  destruct (dec 25 n []) as [|d r] eqn:E.
  - exfalso. exact (dec_S_nonempty 24 n [] E).
  - exists d, r. split; [reflexivity|]. split; [exact A|]. rewrite V. cbn. lia.
Qed.

Lemma in_int64_in z : in64 z -> in_int64 z = Some z.
Proof.
  unfold in64, in_int64. intros [Lo Hi].
  replace ((- 2 ^ 63 <=? z) && (z <? 2 ^ 63))%Z with true; [reflexivity|].
  symmetry. apply andb_true_iff. split; [apply Z.leb_le|apply Z.ltb_lt]; assumption.
Qed.

Lemma atoi_fmt_int z : in64 z -> atoi (fmt_int z) = Some z.
Proof.
  unfold in64. intros [Lo Hi]. unfold fmt_int. change (2^63)%Z with 9223372036854775808%Z in *.
  destruct (z <? 0)%Z eqn:S.
  - apply Z.ltb_lt in S. destruct (dec25 (Z.to_N (- z))) as (d & r & E & A & V).
    { change (2^63) with 9223372036854775808. lia. }
    rewrite E. unfold atoi. bn. change (45 =? 43) with false. change (45 =? 45) with true. cbv iota.
    rewrite (digits_spec _ 0%Z A). rewrite V. cbn [option_map].
    match goal with |- in_int64 ?x = _ => replace x with z by lia end.
    apply in_int64_in. unfold in64. change (2^63)%Z with 9223372036854775808%Z. lia.
  - apply Z.ltb_ge in S. destruct (dec25 (Z.to_N z)) as (d & r & E & A & V).
    { change (2^63) with 9223372036854775808. lia. }
    rewrite E. unfold atoi. bn.
    assert (D : in_range 48 57 d = true) by (cbn in A; apply andb_true_iff in A; tauto).
    destruct (digit_facts d D) as (_ & _ & _ & P & M).
    apply N.eqb_neq in P, M. rewrite P, M.
    rewrite (digits_spec _ 0%Z A). rewrite V.
    match goal with |- in_int64 ?x = _ => replace x with z by lia end.
    apply in_int64_in. unfold in64. change (2^63)%Z with 9223372036854775808%Z. lia.
Qed.

(* the rendered move number: digits (or '-' digits) then '.' *)
Lemma fmt_int_shape z : in64 z -> exists h tl, fmt_int z = h :: tl /\ is_space h = false /\ h <> 91 /\ h <> 123 /\ nospace (fmt_int z).
Proof.
  unfold in64. intros [Lo Hi]. unfold fmt_int. change (2^63)%Z with 9223372036854775808%Z in *.
  destruct (z <? 0)%Z eqn:S.
  - apply Z.ltb_lt in S. destruct (dec25 (Z.to_N (- z))) as (d & r & E & A & V).
    { change (2^63) with 9223372036854775808. lia. }
    rewrite E. bn. exists 45, (d :: r). split; [reflexivity|]. split; [reflexivity|]. split; [lia|]. split; [lia|].
    intros b [Hb|Hb]; [subst; reflexivity|]. eapply alldig_nospace; eauto.
  - apply Z.ltb_ge in S. destruct (dec25 (Z.to_N z)) as (d & r & E & A & V).
    { change (2^63) with 9223372036854775808. lia. }
    rewrite E. exists d, r. split; [reflexivity|].
    assert (D : in_range 48 57 d = true) by (cbn in A; apply andb_true_iff in A; tauto).
    destruct (digit_facts d D) as (F1 & F2 & F3 & _). repeat split; auto. apply alldig_nospace; exact A.
Qed.

