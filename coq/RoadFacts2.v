From Coq Require Import NArith ZArith List Bool Lia ZifyN ZifyBool ZifyNat.
Require Import Board Flood Masks LowBit Conn Move GameOver Groups1 Groups2 Groups3 Groups4 Rules RoadFacts.
Import ListNotations.
Ltac Zify.zify_post_hook ::= Z.div_mod_to_equations.

Section R2.
Variable s : N.
Hypothesis Hs : (3 <= s <= 8)%N.
Let c := precompute s.
Variable B : N.
Hypothesis HB : forall i, N.testbit B i = true -> (i < s * s)%N.

Ltac sizes := assert (s = 3 \/ s = 4 \/ s = 5 \/ s = 6 \/ s = 7 \/ s = 8)%N as Hcase by lia;
              destruct Hcase as [->|[->|[->|[->|[->| ->]]]]].

Definition ends (path : list (Z * Z)) : Prop :=
  let a := hd (0, 0)%Z path in let b := last path (0, 0)%Z in let m := (Z.of_N s - 1)%Z in
  ((fst a = 0 /\ fst b = m) \/ (snd a = 0 /\ snd b = m))%Z.

Lemma edge_coords i : (i < s * s)%N ->
  (N.testbit (cR c) i = true <-> fst (coord s i) = 0%Z) /\
  (N.testbit (cL c) i = true <-> fst (coord s i) = (Z.of_N s - 1)%Z) /\
  (N.testbit (cB c) i = true <-> snd (coord s i) = 0%Z) /\
  (N.testbit (cT c) i = true <-> snd (coord s i) = (Z.of_N s - 1)%Z).
Proof.
  intros Hi. destruct (precompute_masks s i Hs ltac:(nia)) as (ER & EL & EB & ET & _). fold c in ER, EL, EB, ET.
  rewrite ER, EL, EB, ET. unfold coord; cbn [fst snd]. clear c HB ER EL EB ET. sizes; lia.
Qed.

Theorem road_bits_iff : exists gs, groups c B = Some gs /\
  (existsb (spans c) gs = true <->
   exists path, path <> [] /\ chain path /\ Forall (in_B s B) path /\ ends path).
Proof.
  destruct (spans_iff s Hs B HB) as (gs & Hg & Hiff). fold c in Hg, Hiff.
  exists gs. split; [exact Hg|]. rewrite Hiff. split.
  - intros (a & b & Hc & Ho).
    destruct (conn_in_B s Hs B HB a b Hc) as [HaB HbB].
    assert (Hc' : conn s B b a) by (apply conn_sym; assumption).
    destruct (conn_path s Hs B HB b a Hc') as (path & Hhd & Hlast & Hne & Hch & Hall).
    exists path. repeat split; auto. unfold ends. rewrite Hhd, Hlast.
    destruct (edge_coords a (HB a HaB)) as (_ & La & _ & Ta). destruct (edge_coords b (HB b HbB)) as (Rb & _ & Bb & _).
    destruct Ho as [[H1 H2]|[H1 H2]]; [right|left]; split; tauto.
  - intros (path & Hne & Hch & Hall & He).
    assert (Hc : conn s B (toidx s (hd (0, 0)%Z path)) (toidx s (last path (0, 0)%Z))) by (apply path_conn; assumption).
    set (a := hd (0, 0)%Z path) in *. set (b := last path (0, 0)%Z) in *.
    assert (Ha : in_B s B a) by (subst a; destruct path; [congruence|inversion Hall; assumption]).
    assert (Hb : in_B s B b).
    { subst b. rewrite Forall_forall in Hall. apply Hall. clear -Hne. induction path as [|p [|q l] IH]; [congruence|now left|].
      right. apply IH. discriminate. }
    destruct Ha as [Oa Ba]. destruct Hb as [Ob Bb].
    destruct (coord_toidx s Hs a Oa) as [Ea La]. destruct (coord_toidx s Hs b Ob) as [Eb Lb].
    exists (toidx s b), (toidx s a). split; [apply conn_sym; auto|].
    destruct (edge_coords (toidx s a) La) as (Ra & _ & Bta & _). destruct (edge_coords (toidx s b) Lb) as (_ & Lbb & _ & Tb).
    rewrite Ea in Ra, Bta. rewrite Eb in Lbb, Tb. unfold ends in He. fold a b in He. cbv zeta in He.
    destruct He as [[H1 H2]|[H1 H2]]; [right|left]; split; tauto.
Qed.
End R2.
Print Assumptions road_bits_iff.
