From Coq Require Import NArith ZArith List Bool Lia.
Require Import Board Rules Move.
Import ListNotations.

(* ---- abstraction ---- *)
Definition abs_stack (p : position) (i : N) : list piece :=
  let h := nthN (Height p) i in
  if (h =? 0)%N then [] else
  let col := if has (Move.Black p) i then Rules.Black else Rules.White in
  let k := if has (Standing p) i then Rules.Standing else if has (Caps p) i then Rules.Cap else Rules.Flat in
  (col, k) :: map (fun j => ((if N.testbit (nthN (Stacks p) i) (N.of_nat j) then Rules.Black else Rules.White), Rules.Flat))
                  (seq 0 (N.to_nat h - 1)).

Definition abs (p : position) : apos :=
  let n := N.to_nat (size p) in
  {| Rules.n := n; sq := map (fun i => abs_stack p (N.of_nat i)) (seq 0 (n * n));
     wstones := whiteStones p; wcaps := whiteCaps p; bstones := blackStones p; bcaps := blackCaps p;
     ply := move p; Rules.black_wins_ties := Move.black_wins_ties p |}.

Definition raw (m : rmove) : rawmove := {| mx := mX m; my := mY m; mtype := mT m; mslides := mS m |}.

(* ---- decidable equality of abstract positions ---- *)
Definition kind_eqb a b := match a, b with Flat, Flat | Rules.Standing, Rules.Standing | Cap, Cap => true | _, _ => false end.
Definition piece_eqb (a b : piece) := colour_eqb (fst a) (fst b) && kind_eqb (snd a) (snd b).
Fixpoint list_eqb {A} (e : A -> A -> bool) (l1 l2 : list A) : bool :=
  match l1, l2 with [], [] => true | x :: a, y :: b => e x y && list_eqb e a b | _, _ => false end.
Definition apos_eqb (a b : apos) : bool :=
  Nat.eqb (Rules.n a) (Rules.n b) && list_eqb (list_eqb piece_eqb) (sq a) (sq b) &&
  (wstones a =? wstones b)%N && (wcaps a =? wcaps b)%N && (bstones a =? bstones b)%N && (bcaps a =? bcaps b)%N &&
  (ply a =? ply b)%Z && Bool.eqb (Rules.black_wins_ties a) (Rules.black_wins_ties b).

Definition hsq (i h s : N) : N := (i * 1000003 + h * 10007 + s) mod 2^64.     (* any function will do here *)
Definition mv := move_prealloc hsq true.

Definition agree (p : position) (m : rmove) : bool :=
  match mv p m, rules_move (abs p) (raw m) with
  | Ok p', Some a => apos_eqb (abs p') a
  | Err, None => true
  | _, _ => false
  end.

Definition new (sz pieces caps : N) : position :=
  {| size := sz; Move.black_wins_ties := false; whiteStones := pieces; whiteCaps := caps; blackStones := pieces; blackCaps := caps;
     move := 0; White := 0; Black := 0; Standing := 0; Caps := 0;
     Height := repeat 0%N (N.to_nat (sz * sz)); Stacks := repeat 0%N (N.to_nat (sz * sz)); hash := 0 |}.

(* a dense grid of raw moves *)
Definition coordsZ : list Z := [-128; -2; -1; 0; 1; 2; 3; 4; 5; 6; 8; 51; 127]%Z.
Definition types : list N := [0; 2; 3; 4; 5; 6; 7; 8; 9; 255]%N.
Definition slidesL : list N := [0; 1; 2; 3; 5; 17; 18; 33; 273; 257; 16; 4369; 34; 19; 49; 4096+1]%N.
Definition grid : list rmove :=
  flat_map (fun x => flat_map (fun y => flat_map (fun t => map (fun s => {| mX := x; mY := y; mT := t; mS := s |}) slidesL) types) coordsZ) coordsZ.

(* play a scripted line, checking agreement of every grid move at every position on the way *)
Fixpoint walk (p : position) (line : list rmove) : bool :=
  forallb (agree p) grid &&
  match line with
  | [] => true
  | m :: rest => match mv p m with Ok p' => agree p m && walk p' rest | _ => false end
  end.

Definition M t x y s := {| mX := x; mY := y; mT := t; mS := s |}.
Definition line5 : list rmove :=
  [M 2 0 0 0; M 2 4 4 0; M 2 1 0 0; M 6 0 0 1; M 4 2 2 0; M 3 1 1 0; M 8 2 2 1; M 2 0 0 0; M 5 2 1 1; M 5 1 0 2;
   M 2 3 3 0; M 4 2 0 0; M 2 1 0 0; M 7 0 0 273; M 2 0 0 0; M 8 0 3 1]%Z%N.

Time Eval vm_compute in length grid.
Time Eval vm_compute in walk (new 5 21 1) line5.
Time Eval vm_compute in walk (new 3 10 0) [M 2 0 0 0; M 2 2 2 0; M 2 1 0 0; M 6 0 0 1; M 5 2 2 1; M 7 1 0 2; M 3 0 0 0; M 8 1 1 1]%Z%N.

Fixpoint diag (k : nat) (p : position) (line : list rmove) : list (nat * rmove * bool) :=
  let bad := filter (fun m => negb (agree p m)) grid in
  match bad with
  | m :: _ => [(k, m, true)]
  | [] =>
    match line with
    | [] => []
    | m :: rest => match mv p m with Ok p' => diag (S k) p' rest | _ => [(k, m, false)] end
    end
  end.
Eval vm_compute in diag 0 (new 5 21 1) line5.

(* the pinned code (no bounds check) is refuted by the model: *)
Definition agree_pinned (p : position) (m : rmove) : bool :=
  match move_prealloc hsq false p m, rules_move (abs p) (raw m) with
  | Ok p', Some a => apos_eqb (abs p') a | Err, None => true | _, _ => false end.
Definition p2 := match mv (new 5 21 1) (M 2 0 0 0) with Ok q => match mv q (M 2 4 4 0) with Ok r => r | _ => new 5 21 1 end | _ => new 5 21 1 end.
Eval vm_compute in (agree_pinned p2 (M 2 (-1) 1 0)%Z, move_prealloc hsq false p2 (M 2 5 5 0)%Z).
