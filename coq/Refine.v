From Coq Require Import NArith ZArith List Bool Lia.
Require Import Board Rules Move GameOver.
Require Import Generated.Consts.
Import ListNotations.

(* ---- abstraction ---- *)
Definition abs_stack (p : position) (i : N) : list piece :=
  let h := nthN (Height p) i in
  if (h =? 0)%N then [] else
  let col := if has (Move.Black p) i then Rules.Black else Rules.White in
  let k := if has (Standing p) i then Rules.Standing else if has (Caps p) i then Rules.Cap else Rules.Flat in
  (col, k) :: map (fun j => ((if N.testbit (nthN (Stacks p) i) (N.of_nat j) then Rules.Black else Rules.White), Rules.Flat))
                  (seq 0 (N.to_nat h - 1)).

Definition abs (p : position) : apos :=
  let n := N.to_nat (size p) in
  {| Rules.n := n; sq := map (fun i => abs_stack p (N.of_nat i)) (seq 0 (n * n));
     wstones := whiteStones p; wcaps := whiteCaps p; bstones := blackStones p; bcaps := blackCaps p;
     ply := move p; Rules.black_wins_ties := Move.black_wins_ties p |}.

Definition raw (m : rmove) : rawmove := {| mx := mX m; my := mY m; mtype := mT m; mslides := mS m |}.

(* ---- decidable equality of abstract positions ---- *)
Definition kind_eqb a b := match a, b with Flat, Flat | Rules.Standing, Rules.Standing | Cap, Cap => true | _, _ => false end.
Definition piece_eqb (a b : piece) := colour_eqb (fst a) (fst b) && kind_eqb (snd a) (snd b).
Fixpoint list_eqb {A} (e : A -> A -> bool) (l1 l2 : list A) : bool :=
  match l1, l2 with [], [] => true | x :: a, y :: b => e x y && list_eqb e a b | _, _ => false end.
Definition apos_eqb (a b : apos) : bool :=
  Nat.eqb (Rules.n a) (Rules.n b) && list_eqb (list_eqb piece_eqb) (sq a) (sq b) &&
  (wstones a =? wstones b)%N && (wcaps a =? wcaps b)%N && (bstones a =? bstones b)%N && (bcaps a =? bcaps b)%N &&
  (ply a =? ply b)%Z && Bool.eqb (Rules.black_wins_ties a) (Rules.black_wins_ties b).

(* the per-square hash of the implementation: hash64(hash8(basis[i], height), stack bits), with the
   basis table regenerated from /repo (Generated/Consts.v).  The refinement proofs never unfold it. *)
Definition hsq (i h s : N) : N := hash_sq gen_basis i h s.
Definition mv := move_prealloc hsq true.
Definition mv_pinned := move_prealloc hsq false.

Definition new (sz pieces caps : N) : position :=
  {| size := sz; Move.black_wins_ties := false; whiteStones := pieces; whiteCaps := caps; blackStones := pieces; blackCaps := caps;
     move := 0; White := 0; Black := 0; Standing := 0; Caps := 0;
     Height := repeat 0%N (N.to_nat (sz * sz)); Stacks := repeat 0%N (N.to_nat (sz * sz)); hash := 0 |}.

