(* CountThreats, part 1: Eval.count_one is the sum of Threats.tcount over the groups; the maps fit the board; count bounds. *)
From Coq Require Import NArith ZArith List Bool Lia ZifyN ZifyBool ZifyNat.
Require Import Board Move GameOver Eval EvalSpec EvalFacts1 Threats.
Import ListNotations.
Open Scope N_scope.

Lemma tsum_fix (one : nat -> N -> Z * Z) i l acc :
  (fix go (i : nat) (l : list N) (acc : Z * Z) {struct l} : Z * Z :=
     match l with [] => acc | g :: r => let '(a, b) := one i g in go (S i) r (fst acc + a, snd acc + b)%Z end) i l acc
  = tsum one i l acc.
Proof. revert i acc; induction l as [|g l IH]; intros; [reflexivity|]. cbn. destruct (one i g). apply IH. Qed.
Lemma tsum_ext one one' i l acc : (forall i g, one i g = one' i g) -> tsum one i l acc = tsum one' i l acc.
Proof. intro H. revert i acc; induction l as [|g l IH]; intros; [reflexivity|]. cbn. rewrite H. destruct (one' i g). apply IH. Qed.

Lemma count_one_eq c p gs pieces : count_one c p gs pieces = tsum (tcount c p gs pieces) 0 gs (0, 0)%Z.
Proof.
  unfold count_one. cbv zeta. rewrite tsum_fix. apply tsum_ext. intros i g.
  unfold tcount, tmaps, t_empty, t_nocs, t_singles, junction. cbv zeta.
  destruct (N.land g (cEdge c) =? 0); [reflexivity|].
  destruct (negb (N.land g (cL c) =? 0)), (negb (N.land g (cR c) =? 0)), (negb (N.land g (cT c) =? 0)), (negb (N.land g (cB c) =? 0)); reflexivity.
Qed.

(* both maps lie inside the board mask *)
Lemma tmaps_hi0 c p gs pieces i g : hi0 64 (cMask c) -> hi0 64 (fst (tmaps c p gs pieces i g)) /\ hi0 64 (snd (tmaps c p gs pieces i g)).
Proof.
  intro Hm. unfold tmaps. cbv zeta.
  assert (He : hi0 64 (t_empty c p)) by (apply hi0_andnot, Hm).
  assert (Hn : hi0 64 (t_nocs c p)) by (apply hi0_andnot, Hm).
  destruct (N.land g (cEdge c) =? 0). { split; apply hi0_0. }
  set (slides := grow c (t_nocs c p) (andnot pieces g)).
  assert (Hs : hi0 64 slides) by (apply hi0_grow, Hn).
  set (P := fun ab : N * N => hi0 64 (fst ab) /\ hi0 64 (snd ab)).
  assert (step : forall (b : bool) x pm tm, P (pm, tm) ->
     P (if b then (N.lor pm (N.land (N.land x (t_empty c p)) (cR c)), N.lor tm (N.land (N.land x slides) (cR c))) else (pm, tm))).
  { intros b x pm tm [A B]. destruct b; [|split; assumption].
    split; cbn [fst snd]; apply hi0_lor; try assumption; apply hi0_land_l, hi0_land_r; assumption. }
  assert (stepg : forall (b : bool) x m pm tm, P (pm, tm) ->
     P (if b then (N.lor pm (N.land (N.land x (t_empty c p)) m), N.lor tm (N.land (N.land x slides) m)) else (pm, tm))).
  { intros b x m pm tm [A B]. destruct b; [|split; assumption].
    split; cbn [fst snd]; apply hi0_lor; try assumption; apply hi0_land_l, hi0_land_r; assumption. }
  clear step.
  match goal with |- hi0 64 (fst ?t) /\ hi0 64 (snd ?t) => change (P t) end.
  assert (P0 : P (0, 0)) by (split; apply hi0_0).
  pose proof (stepg (negb (N.land g (cL c) =? 0)) (N.shiftr g 1) (cR c) 0 0 P0) as P1.
  destruct (if negb (N.land g (cL c) =? 0) then _ else _) as [pm1 tm1].
  pose proof (stepg (negb (N.land g (cR c) =? 0)) (u64 (N.shiftl g 1)) (cL c) pm1 tm1 P1) as P2.
  destruct (if negb (N.land g (cR c) =? 0) then _ else _) as [pm2 tm2].
  pose proof (stepg (negb (N.land g (cT c) =? 0)) (N.shiftr g (Size c)) (cB c) pm2 tm2 P2) as P3.
  destruct (if negb (N.land g (cT c) =? 0) then _ else _) as [pm3 tm3].
  pose proof (stepg (negb (N.land g (cB c) =? 0)) (u64 (N.shiftl g (Size c))) (cT c) pm3 tm3 P3) as P4.
  destruct (if negb (N.land g (cB c) =? 0) then _ else _) as [pm4 tm4].
  apply fold_left_inv; [assumption|].
  intros [a b] other [A B] _. destruct (junction c g other); [|split; assumption].
  split; cbn [fst snd]; apply hi0_lor; try assumption.
  - apply hi0_land_r, He.
  - apply hi0_land_r, hi0_grow, Hn.
Qed.

Open Scope Z_scope.
Lemma tcount_bounds c p gs pieces i g : hi0 64 (cMask c) ->
  0 <= fst (tcount c p gs pieces i g) <= 64 /\ 0 <= snd (tcount c p gs pieces i g) <= 64.
Proof.
  intro Hm. unfold tcount. destruct (tmaps_hi0 c p gs pieces i g Hm) as [A B].
  destruct (tmaps c p gs pieces i g) as [pm tm]. cbn [fst snd] in *. split; apply pc64; assumption.
Qed.
Lemma tsum_bounds one l : (forall i g, 0 <= fst (one i g) <= 64 /\ 0 <= snd (one i g) <= 64) ->
  forall i acc, fst acc <= fst (tsum one i l acc) <= fst acc + 64 * Z.of_nat (length l) /\
                snd acc <= snd (tsum one i l acc) <= snd acc + 64 * Z.of_nat (length l).
Proof.
  intro H. induction l as [|g l IH]; intros i acc; cbn [tsum length]. { lia. }
  specialize (H i g). destruct (one i g) as [a b]. cbn [fst snd] in H.
  specialize (IH (S i) (fst acc + a, snd acc + b)). cbn [fst snd] in IH. lia.
Qed.
Lemma count_one_bounds c p gs pieces : hi0 64 (cMask c) -> (length gs <= 64)%nat ->
  0 <= fst (count_one c p gs pieces) <= 4096 /\ 0 <= snd (count_one c p gs pieces) <= 4096.
Proof.
  intros Hm Hl. rewrite count_one_eq.
  pose proof (tsum_bounds (tcount c p gs pieces) gs (fun i g => tcount_bounds c p gs pieces i g Hm) 0%nat (0, 0)) as B.
  cbn [fst snd] in B. lia.
Qed.

Lemma score_threats_bound c w p wg bg : hi0 64 (cMask c) -> (length wg <= 64)%nat -> (length bg <= 64)%nat ->
  Z.abs (score_threats c w p wg bg) <= bound_threats w.
Proof.
  intros Hm Hw Hb. unfold score_threats, bound_threats, count_threats.
  pose proof (aw_nonneg w Potential). pose proof (aw_nonneg w Threat).
  assert (0 < ForcedWin) by reflexivity.
  destruct ((wt w Potential =? 0) && (wt w Threat =? 0)). { lia. }
  pose proof (count_one_bounds c p wg (andnot (White p) (N.lor (Standing p) (Caps p))) Hm Hw) as [A1 A2].
  pose proof (count_one_bounds c p bg (andnot (Black p) (N.lor (Standing p) (Caps p))) Hm Hb) as [B1 B2].
  destruct (count_one c p wg _) as [wp wtt]. destruct (count_one c p bg _) as [bp btt]. cbn [fst snd] in *.
  destruct ((0 <? wp + wtt) && to_move_white p). { lia. }
  destruct ((0 <? bp + btt) && negb (to_move_white p)). { lia. }
  pose proof (mulb (wt w Potential) (wp - bp) 4096 ltac:(lia)).
  pose proof (mulb (wt w Threat) (wtt - btt) 4096 ltac:(lia)). unfold aw in *. lia.
Qed.
