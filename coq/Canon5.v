(* C15, layer 5: non-vacuity of canonical_legal_images and canonical_legal_images64: a 5x5 game with two placements and a slide in which
   Canonical really rotates twice (rot180, then the diagonal flip), and its 8x8 analogue with the height condition checked. *)
From Coq Require Import NArith ZArith Arith List Bool Lia ZifyN ZifyBool ZifyNat.
Require Import Rules Sym SymRules1 SymRules2 SymRules3 SymRules4.
Require Import Board Stack Move GameOver Tps Symmetry CanonFacts Refine SymCode1 Canon1 Canon2 Canon3.
Require Import Preserve1 Preserve5 Canon4.
Require Import Generated.Consts.
Import ListNotations.
Close Scope Z_scope. Close Scope N_scope.

Lemma ok_inj {A} (a b : A) : Ok a = Ok b -> a = b.
Proof. now inversion 1. Qed.

Definition heights64b (p : position) : bool :=
  forallb (fun k => (nthN (Height p) (N.of_nat k) <=? 64)%N) (seq 0 (N.to_nat (size p * size p))).
Lemma heights64b_ok p : heights64b p = true -> heights64 p.
Proof.
  unfold heights64b. intros H j Hj. rewrite forallb_forall in H.
  specialize (H (N.to_nat j) ltac:(apply in_seq; lia)). rewrite N2Nat.id in H. lia.
Qed.

(* equality of the fields abs reads *)
Fixpoint listN_eqb (a b : list N) : bool :=
  match a, b with [], [] => true | x :: a', y :: b' => (x =? y)%N && listN_eqb a' b' | _, _ => false end.
Lemma listN_eqb_eq a : forall b, listN_eqb a b = true -> a = b.
Proof.
  induction a as [|x a IH]; intros [|y b] H; cbn in H; try discriminate; [reflexivity|].
  apply andb_prop in H. destruct H as [H1 H2]. apply N.eqb_eq in H1. subst. f_equal. now apply IH.
Qed.

Definition pos_eqb (p q : position) : bool :=
  (size p =? size q)%N && listN_eqb (Height p) (Height q) && listN_eqb (Stacks p) (Stacks q) &&
  (Move.Black p =? Move.Black q)%N && (Standing p =? Standing q)%N && (Caps p =? Caps q)%N &&
  (whiteStones p =? whiteStones q)%N && (whiteCaps p =? whiteCaps q)%N && (blackStones p =? blackStones q)%N && (blackCaps p =? blackCaps q)%N &&
  (move p =? move q)%Z && Bool.eqb (Move.black_wins_ties p) (Move.black_wins_ties q).

Lemma pos_eqb_abs p q : pos_eqb p q = true -> abs p = abs q.
Proof.
  unfold pos_eqb. intros H. repeat (apply andb_prop in H; destruct H as [H ?]).
  repeat match goal with
         | H : (_ =? _)%N = true |- _ => apply N.eqb_eq in H
         | H : (_ =? _)%Z = true |- _ => apply Z.eqb_eq in H
         | H : listN_eqb _ _ = true |- _ => apply listN_eqb_eq in H
         | H : Bool.eqb _ _ = true |- _ => apply Bool.eqb_prop in H
         end.
  destruct p, q. cbn in *.
  subst. reflexivity.
Qed.

(* boolean checks of the trace hypotheses, evaluated once *)
Definition nocoll_stateb (sz : N) (st : cst) : bool :=
  let boards := fst (fst st) in
  forallb (fun b => negb (hash_of (cp b) =? hash_of (cp (board0 sz boards)))%N || pos_eqb (cp b) (cp (board0 sz boards))) boards.
Definition nocoll_traceb (sz : N) (ms : list rmove) : bool :=
  forallb (fun k => match fold_left (cstep sz) (firstn k ms) (cinit sz) with Ok st => nocoll_stateb sz st | _ => true end) (seq 0 (length ms)).

Lemma nocoll_traceb_ok sz ms : nocoll_traceb sz ms = true -> nocoll_trace sz ms.
Proof.
  unfold nocoll_traceb. intros H k st Hk Hf. rewrite forallb_forall in H.
  specialize (H k ltac:(apply in_seq; lia)). rewrite Hf in H. unfold nocoll_stateb in H. rewrite forallb_forall in H.
  intros b Hb Hh. specialize (H b Hb). apply N.eqb_eq in Hh. rewrite Hh in H. cbn [negb orb] in H.
  unfold A_of. now apply pos_eqb_abs.
Qed.

Definition heights_traceb (sz : N) (ms : list rmove) : bool :=
  forallb (fun k => match fold_left (cstep sz) (firstn k ms) (cinit sz) with
                    | Ok st => forallb (fun b => heights64b (cp b)) (fst (fst st)) | _ => true end) (seq 1 (length ms)).

Lemma heights_traceb_ok sz ms : heights_traceb sz ms = true -> sc_trace sz heights64 ms.
Proof.
  unfold heights_traceb. intros H k st Hk Hf. rewrite forallb_forall in H.
  specialize (H k ltac:(apply in_seq; lia)). rewrite Hf in H. rewrite forallb_forall in H.
  intros b Hb. apply heights64b_ok. now apply H.
Qed.

(* ---------- 5x5 ---------- *)
Definition ex_ms : list rmove :=
  [ {| mX := 4; mY := 4; mT := 2; mS := 0 |};      (* a flat on e5 *)
    {| mX := 4; mY := 3; mT := 2; mS := 0 |};      (* a flat on e4 *)
    {| mX := 4; mY := 3; mT := 7; mS := 1 |} ].    (* e4 slides up onto e5 *)
(* Canonical: a1; b1 (after rot180 the stabiliser of the position is {id, diagonal}, and b1 is preferred to a2); b1 slides left onto a1 *)
Definition ex_cs : list rmove :=
  [ {| mX := 0; mY := 0; mT := 2; mS := 0 |};
    {| mX := 1; mY := 0; mT := 2; mS := 0 |};
    {| mX := 1; mY := 0; mT := 5; mS := 1 |} ].

Example ex_canonical : canonical gen_basis 5 ex_ms = Ok ex_cs.
Proof. vm_compute. reflexivity. Qed.

Example ex_input : Forall canon_input ex_ms.
Proof. repeat constructor; cbn; try lia; intros; discriminate. Qed.

Example ex_nocoll : nocoll_trace 5 ex_ms.
Proof. apply nocoll_traceb_ok. vm_compute. reflexivity. Qed.

Example ex_hypotheses_hold : Forall canon_input ex_ms /\ nocoll_trace 5 ex_ms /\ canonical gen_basis 5 ex_ms = Ok ex_cs.
Proof. exact (conj ex_input (conj ex_nocoll ex_canonical)). Qed.

Example ex_legal_images :
  length ex_cs = length ex_ms /\ (forall k, k <= length ex_ms -> images_at 5 ex_ms ex_cs k).
Proof. exact (canonical_legal_images 5 ltac:(lia) ex_ms ex_cs ex_input ex_nocoll ex_canonical). Qed.

(* ---------- 8x8 ---------- *)
Definition ex8_ms : list rmove :=
  [ {| mX := 7; mY := 7; mT := 2; mS := 0 |};
    {| mX := 7; mY := 6; mT := 2; mS := 0 |};
    {| mX := 7; mY := 6; mT := 7; mS := 1 |} ].

Example ex8_canonical : canonical gen_basis 8 ex8_ms = Ok ex_cs.
Proof. vm_compute. reflexivity. Qed.

Example ex8_input : Forall canon_input ex8_ms.
Proof. repeat constructor; cbn; try lia; intros; discriminate. Qed.

Example ex8_nocoll : nocoll_trace 8 ex8_ms.
Proof. apply nocoll_traceb_ok. vm_compute. reflexivity. Qed.

Example ex8_heights : sc_trace 8 heights64 ex8_ms.
Proof. apply heights_traceb_ok. vm_compute. reflexivity. Qed.

Example ex8_hypotheses_hold :
  Forall canon_input ex8_ms /\ nocoll_trace 8 ex8_ms /\ sc_trace 8 heights64 ex8_ms /\ canonical gen_basis 8 ex8_ms = Ok ex_cs.
Proof. exact (conj ex8_input (conj ex8_nocoll (conj ex8_heights ex8_canonical))). Qed.
