(* C15, layer 4: non-vacuity of canonical_legal_images_partial.  A boolean checker for the C01 invariant (sound: c01_invb_ok),
   and a 5x5 game with two placements and a slide in which Canonical really rotates twice (rot180, then the diagonal flip). *)
From Coq Require Import NArith ZArith Arith List Bool Lia ZifyN ZifyBool ZifyNat.
Require Import Rules Sym SymRules1 SymRules2 SymRules3 SymRules4.
Require Import Board Stack Move GameOver Tps Symmetry CanonFacts Refine Slide2 Slide3 Slide6 Slide8 MoveRefines SymCode1 Canon1 Canon2 Canon3.
Require Import Generated.Consts.
Import ListNotations.
Close Scope Z_scope. Close Scope N_scope.

Definition sq_okb (b : bstate) (i : N) : bool :=
  let h := nthN (bhs b) i in
  (h <=? 64)%N && Bool.eqb (h =? 0)%N (negb (has (bw b) i) && negb (has (bb b) i)) && negb (has (bw b) i && has (bb b) i) &&
  (negb (h =? 0)%N || (negb (has (bs b) i) && negb (has (bc b) i))) && negb (has (bs b) i && has (bc b) i).

Lemma sq_okb_ok b i : sq_okb b i = true -> sq_ok b i.
Proof.
  unfold sq_okb. cbv zeta. intros H. repeat (apply andb_prop in H; destruct H as [H ?]).
  destruct (N.eqb_spec (nthN (bhs b) i) 0) as [E|E];
  destruct (has (bw b) i) eqn:Ew, (has (bb b) i) eqn:Eb, (has (bs b) i) eqn:Es, (has (bc b) i) eqn:Ec; cbn in *; try discriminate;
  constructor; rewrite ?Ew, ?Eb, ?Es, ?Ec; cbn; try reflexivity; try lia; try tauto;
  try (split; [intros ?; first [contradiction|lia|split; reflexivity] | intros [? ?]; first [discriminate|assumption]]);
  try (intros ?; first [contradiction|lia|split; reflexivity]).
Qed.

Definition c01_invb (p : position) : bool :=
  let n := nsq (size p) in
  (3 <=? size p)%N && (size p <=? 8)%N &&
  (length (Height p) =? n) && (length (Stacks p) =? n) &&
  forallb (fun k => sq_okb (bview p) (N.of_nat k)) (seq 0 n) &&
  (whiteStones p <? 256)%N && (whiteCaps p <? 256)%N && (blackStones p <? 256)%N && (blackCaps p <? 256)%N &&
  forallb (fun k => (nthN (Height p) (N.of_nat k) + size p <=? 64)%N) (seq 0 n).

Lemma c01_invb_ok p : c01_invb p = true -> c01_inv p.
Proof.
  unfold c01_invb. cbv zeta. intros H. repeat (apply andb_prop in H; destruct H as [H ?]).
  assert (Hidx : forall i, (i < size p * size p)%N -> In (N.to_nat i) (seq 0 (nsq (size p)))).
  { intros i Hi. apply in_seq. unfold nsq. split; [lia|]. cbn [plus]. rewrite <- N2Nat.inj_mul. lia. }
  split; [lia|]. split; [|split].
  - constructor; cbn [bview bhs bst].
    + now apply Nat.eqb_eq.
    + now apply Nat.eqb_eq.
    + intros i Hi. apply sq_okb_ok. rewrite forallb_forall in H5. specialize (H5 _ (Hidx i Hi)). now rewrite N2Nat.id in H5.
  - unfold reserves_ok. lia.
  - intros i Hi. rewrite forallb_forall in H0. specialize (H0 _ (Hidx i Hi)). rewrite N2Nat.id in H0. lia.
Qed.

(* ---------- the example ---------- *)
Definition ex_ms : list rmove :=
  [ {| mX := 4; mY := 4; mT := 2; mS := 0 |};      (* a flat on e5 *)
    {| mX := 4; mY := 3; mT := 2; mS := 0 |};      (* a flat on e4 *)
    {| mX := 4; mY := 3; mT := 7; mS := 1 |} ].    (* e4 slides up onto e5 *)
(* Canonical: a1; b1 (after rot180 the stabiliser of the position is {id, diagonal}, and b1 is preferred to a2); b1 slides left onto a1 *)
Definition ex_cs : list rmove :=
  [ {| mX := 0; mY := 0; mT := 2; mS := 0 |};
    {| mX := 1; mY := 0; mT := 2; mS := 0 |};
    {| mX := 1; mY := 0; mT := 5; mS := 1 |} ].

Lemma ok_inj {A} (a b : A) : Ok a = Ok b -> a = b.
Proof. now inversion 1. Qed.

Example ex_canonical : canonical gen_basis 5 ex_ms = Ok ex_cs.
Proof. vm_compute. reflexivity. Qed.

Example ex_input : Forall canon_input ex_ms.
Proof. repeat constructor; cbn; try lia; intros; discriminate. Qed.

Ltac good_board :=
  split; [apply c01_invb_ok; vm_compute; reflexivity
         |intros Hh; first [vm_compute; reflexivity | exfalso; vm_compute in Hh; discriminate]].

Example ex_trace_ok : trace_ok 5 ex_ms.
Proof.
  intros k st Hk Hf. cbn [length ex_ms] in Hk.
  assert (Hc : k = 0 \/ k = 1 \/ k = 2) by lia.
  assert (Hgood : forall boards rots tfn, (forall b, In b boards -> c01_inv (cp b) /\
              (hash_of (cp b) = hash_of (cp (board0 5 boards)) -> abs (cp b) = A_of 5 boards)) -> good_state 5 (boards, rots, tfn)).
  { intros boards rots tfn H. split; intros b Hb; now apply H. }
  destruct Hc as [->|[->| ->]]; vm_compute in Hf; apply ok_inj in Hf; subst st; apply Hgood;
    intros b Hb; cbn [In] in Hb; repeat (destruct Hb as [<-|Hb]; [good_board|]); destruct Hb.
Qed.

(* the conclusion of the theorem on the example, and that its images are not all trivial *)
Example ex_legal_images :
  length ex_cs = length ex_ms /\ (forall k, k <= length ex_ms -> images_at 5 ex_ms ex_cs k).
Proof. exact (canonical_legal_images_partial 5 ltac:(lia) ex_ms ex_cs ex_input ex_trace_ok ex_canonical). Qed.

Example ex_hypotheses_hold : Forall canon_input ex_ms /\ trace_ok 5 ex_ms /\ canonical gen_basis 5 ex_ms = Ok ex_cs.
Proof. exact (conj ex_input (conj ex_trace_ok ex_canonical)). Qed.
