(* CancelFacts.v: cancellation only truncates (C16), proved over the engine model Search.v.
   The cancelled run (cancel_at = k) and the uninterrupted run (cancel_at = 0) are the same functions; they differ only where the
   flag is read.  As long as the state reached has not seen the flag set (evals < k), nothing that has been computed depends on k. *)
From Coq Require Import NArith ZArith List Bool Lia.
Require Import Board Move GameOver Eval Search.
Import ListNotations.
Open Scope Z_scope.

Ltac break_match :=
  match goal with
  | |- context [match ?x with _ => _ end] => destruct x eqn:?
  end.

Section Cancel.
Variable pinned : bool.
Variable basis : list N.
Variable cfg : config.
Variables c1 c2 : Z.       (* the cancellation points of the two runs that are compared *)

(* neither run has seen its flag set in state s *)
Definition loud (s : sstate) : bool := cancelled c1 s || cancelled c2 s.

Definition mono (r : rec_t) : Prop :=
  forall zw s p ply depth pv a b cut, evals s <= evals (fst (r zw s p ply depth pv a b cut)).
(* r0: a search function of run 1 (cancel_at = c1); rk: the same of run 2 (cancel_at = c2) *)
Definition indep (r0 rk : rec_t) : Prop :=
  forall zw s p ply depth pv a b cut,
    loud (fst (rk zw s p ply depth pv a b cut)) = false -> r0 zw s p ply depth pv a b cut = rk zw s p ply depth pv a b cut.

Lemma canc_le c s s' : cancelled c s' = false -> evals s <= evals s' -> cancelled c s = false.
Proof.
  unfold cancelled. intros H L. destruct (0 <? c); [|reflexivity]. simpl in *.
  apply Z.leb_gt in H. apply Z.leb_gt. lia.
Qed.
Lemma nc_le s s' : loud s' = false -> evals s <= evals s' -> loud s = false.
Proof.
  unfold loud. intros H L. apply orb_false_elim in H. destruct H as [H1 H2].
  rewrite (canc_le c1 s s' H1 L), (canc_le c2 s s' H2 L). reflexivity.
Qed.
Lemma quiet1 s : loud s = false -> cancelled c1 s = false.
Proof. unfold loud. intros H. apply orb_false_elim in H. tauto. Qed.
Lemma quiet2 s : loud s = false -> cancelled c2 s = false.
Proof. unfold loud. intros H. apply orb_false_elim in H. tauto. Qed.

(* ---- state helpers do not touch the evaluation counter ---- *)
Lemma evals_tt_put c s h : evals (fst (tt_put c s h)) = evals s.
Proof. unfold tt_put. repeat break_match; reflexivity. Qed.
Lemma evals_zw_store c s p depth best a d : evals (zw_store c s p depth best a d) = evals s.
Proof.
  unfold zw_store. pose proof (evals_tt_put c s (phash p)) as H.
  destruct (tt_put c s (phash p)) as [s1 slot]. simpl in H. destruct slot; [|assumption]. destruct d; simpl; assumption.
Qed.
Lemma evals_pv_store c s p depth best a b i : evals (pv_store c s p depth best a b i) = evals s.
Proof.
  unfold pv_store. pose proof (evals_tt_put c s (phash p)) as H.
  destruct (tt_put c s (phash p)) as [s1 slot]. simpl in H. destruct slot; [|assumption].
  repeat break_match; simpl; assumption.
Qed.
Lemma evals_tt_probe s p ply depth a b : evals (fst (fst (tt_probe basis s p ply depth a b))) = evals s.
Proof. unfold tt_probe. repeat break_match; reflexivity. Qed.
Lemma evals_reduce_slide s p ply depth : evals (fst (reduce_slide cfg s p ply depth)) = evals s.
Proof. unfold reduce_slide. repeat break_match. all: reflexivity. Qed.
Lemma evals_record_cut s m i d ply : evals (record_cut s m i d ply) = evals s.
Proof. reflexivity. Qed.

(* ---- the evaluation counter never decreases ---- *)
Ltac sev := cbn [evals fst snd set_fm set_fpv set_table bump upd_st record_cut write_entry count_eval] in *.
(* destruct the first child search in the goal, keeping its monotonicity fact *)
Ltac drec rec Hm s1 ms v :=
  match goal with |- context [rec ?zw ?s ?p ?ply ?d ?pv ?a ?b ?cut] =>
    let M := fresh "M" in pose proof (Hm zw s p ply d pv a b cut) as M;
    destruct (rec zw s p ply d pv a b cut) as [s1 [ms v]]; sev
  end.

Lemma mc_loop_mono rec : mono rec -> forall n ply depth a cut m s g child i cuts,
  evals s <= evals (fst (fst (mc_loop pinned basis cfg rec n ply depth a cut m s g child i cuts))).
Proof.
  intros Hm. induction n; intros; cbn [mc_loop]; [sev; lia|].
  destruct (6 <=? i); [sev; lia|].
  drec rec Hm s1 ms v.
  destruct ((a <? - v) && (3 <=? (if a <? - v then cuts + 1 else cuts))); [sev; lia|].
  destruct (mg_next pinned basis cfg (gfuel g) s1 g) as [g' nx]. destruct nx as [[m' c']|]; [|sev; lia].
  etransitivity; [|apply IHn]. sev; lia.
Qed.

Lemma zw_loop_mono c rec : mono rec -> forall n ply depth a cut s g i best,
  evals s <= evals (fst (fst (fst (zw_loop pinned basis cfg c rec n ply depth a cut s g i best)))).
Proof.
  intros Hm. induction n; intros; cbn [zw_loop]; [sev; lia|].
  destruct (mg_next pinned basis cfg (gfuel g) s g) as [g' nx]. destruct nx as [[m child]|]; [|sev; lia].
  drec rec Hm s1 ms v.
  destruct (a <? - v); [sev; lia|]. destruct (cancelled c s1); [sev; lia|].
  etransitivity; [|apply IHn]. sev; lia.
Qed.

Lemma pv_child_mono rec : mono rec -> forall s child ply depth best a b i,
  evals s <= evals (fst (pv_child rec s child ply depth best a b i)).
Proof.
  intros Hm; intros. unfold pv_child. destruct (1 <? i); [|apply Hm].
  drec rec Hm s1 ms v.
  destruct ((a <? - v) && (- v <? b)); [|sev; lia].
  etransitivity; [|apply Hm]. sev; lia.
Qed.

Lemma pv_loop_mono c rec : mono rec -> forall n ply depth b s g i best a improved,
  evals s <= evals (fst (fst (fst (fst (pv_loop pinned basis cfg c rec n ply depth b s g i best a improved))))).
Proof.
  intros Hm. induction n; intros; cbn [pv_loop]; [sev; lia|].
  destruct (mg_next pinned basis cfg (gfuel g) s g) as [g' nx]. destruct nx as [[m child]|]; [|sev; lia].
  pose proof (pv_child_mono rec Hm (set_fm s ply m) child ply depth best a b (i + 1)) as M.
  destruct (pv_child rec (set_fm s ply m) child ply depth best a b (i + 1)) as [s1 [ms v]]. sev.
  destruct (a <? - v).
  - destruct (b <=? - v); [sev; lia|].
    match goal with |- context [cancelled c ?x] => destruct (cancelled c x) end; [sev; lia|].
    etransitivity; [|apply IHn]. sev; lia.
  - destruct (cancelled c s1); [sev; lia|].
    etransitivity; [|apply IHn]. sev; lia.
Qed.

Lemma zw_tail_mono c rec : mono rec -> forall s g p ply depth a cut,
  evals s <= evals (fst (zw_tail pinned basis cfg c rec s g p ply depth a cut)).
Proof.
  intros Hm; intros. unfold zw_tail.
  pose proof (zw_loop_mono c rec Hm (gfuel (set_i g 0)) ply depth a cut s (set_i g 0) 0 (firstn 1 (znth (fpv s) ply []))) as M.
  destruct (zw_loop pinned basis cfg c rec (gfuel (set_i g 0)) ply depth a cut s (set_i g 0) 0 (firstn 1 (znth (fpv s) ply []))) as [[[s1 best] didcut] ab].
  sev. destruct ab; sev; [lia|]. rewrite evals_zw_store. lia.
Qed.

Lemma zw_mc_mono c rec : mono rec -> forall s g p ply depth a cut,
  evals s <= evals (fst (zw_mc pinned basis cfg c rec s g p ply depth a cut)).
Proof.
  intros Hm; intros. unfold zw_mc. destruct (c_multicut cfg && cut && (3 <? depth)); [|apply zw_tail_mono; assumption].
  destruct (mg_next pinned basis cfg (gfuel g) _ g) as [g1 first]. destruct first as [[m child0]|].
  - match goal with |- context [mc_loop pinned basis cfg rec ?n ?ply ?d ?a ?cut ?m ?s ?g ?ch ?i ?cu] =>
      pose proof (mc_loop_mono rec Hm n ply d a cut m s g ch i cu) as M;
      destruct (mc_loop pinned basis cfg rec n ply d a cut m s g ch i cu) as [[s1 g2] mccut] end.
    sev. destruct mccut; [sev; lia|].
    etransitivity; [|apply zw_tail_mono; assumption]. lia.
  - etransitivity; [|apply zw_tail_mono; assumption]. sev; lia.
Qed.

Lemma zw_reduce_mono c rec : mono rec -> forall s te p ply depth pv a cut,
  evals s <= evals (fst (zw_reduce pinned basis cfg c rec s te p ply depth pv a cut)).
Proof.
  intros Hm; intros. unfold zw_reduce.
  pose proof (evals_reduce_slide s p ply depth) as HX.
  destruct (reduce_slide cfg s p ply depth) as [s1 d1]. sev. etransitivity; [|apply zw_mc_mono; assumption]. lia.
Qed.

Lemma zw_node_mono c rec : mono rec -> forall s te p ply depth pv a cut,
  evals s <= evals (fst (zw_node pinned basis cfg c rec s te p ply depth pv a cut)).
Proof.
  intros Hm; intros. unfold zw_node. destruct (null_move_ok cfg s ply depth p); [|apply zw_reduce_mono; assumption].
  match goal with |- context [rec true ?s1 ?p1 ?pl ?d ?pv ?a1 ?b1 ?c1] =>
    pose proof (Hm true s1 p1 pl d pv a1 b1 c1) as M; destruct (rec true s1 p1 pl d pv a1 b1 c1) as [s2 [ms v]] end.
  sev. destruct (a + 1 <=? - v); [sev; lia|].
  etransitivity; [|apply zw_reduce_mono; assumption]. lia.
Qed.

Lemma pv_node_mono c rec : mono rec -> forall s te p ply depth pv a b,
  evals s <= evals (fst (pv_node pinned basis cfg c rec s te p ply depth pv a b)).
Proof.
  intros Hm; intros. unfold pv_node.
  match goal with |- context [pv_loop pinned basis cfg c rec ?n ?ply ?d ?b ?s1 ?g ?i ?best ?a ?im] =>
    pose proof (pv_loop_mono c rec Hm n ply d b s1 g i best a im) as M;
    destruct (pv_loop pinned basis cfg c rec n ply d b s1 g i best a im) as [[[[s2 best'] a'] im'] ab] end.
  sev. destruct ab; sev; [lia|]. rewrite evals_pv_store. lia.
Qed.

Lemma srch_step_mono c rec : mono rec -> mono (srch_step pinned basis cfg c rec).
Proof.
  intros Hm zw s p ply depth pv a b cut. unfold srch_step.
  destruct ((depth <=? 0) || is_over p); [sev; lia|].
  match goal with |- context [tt_probe basis ?s1 ?p ?ply ?d ?a ?b] =>
    pose proof (evals_tt_probe s1 p ply d a b) as M; destruct (tt_probe basis s1 p ply d a b) as [[s2 te] ret] end.
  sev. destruct ret; [sev; lia|]. destruct zw.
  - etransitivity; [|apply zw_node_mono; assumption]. lia.
  - etransitivity; [|apply pv_node_mono; assumption]. lia.
Qed.

Lemma srch_mono c fuel : mono (srch pinned basis cfg c fuel).
Proof.
  induction fuel; cbn [srch]; [intros zw s p ply depth pv a b cut; sev; lia|].
  apply srch_step_mono. assumption.
Qed.

(* ---- independence: as long as run 2 has not seen either flag set, run 1 (cancel_at = c1) IS run 2 (cancel_at = c2) ---- *)
Lemma tt_put_indep s h : loud s = false -> tt_put c1 s h = tt_put c2 s h.
Proof. intros H. unfold tt_put. rewrite (quiet1 s H), (quiet2 s H). reflexivity. Qed.
Lemma zw_store_indep s p depth best a d : loud s = false -> zw_store c1 s p depth best a d = zw_store c2 s p depth best a d.
Proof. intros H. unfold zw_store. rewrite (tt_put_indep s _ H). reflexivity. Qed.
Lemma pv_store_indep s p depth best a b i : loud s = false -> pv_store c1 s p depth best a b i = pv_store c2 s p depth best a b i.
Proof. intros H. unfold pv_store. rewrite (tt_put_indep s _ H). reflexivity. Qed.

(* destruct the first child search of the k-run found in hypothesis H, keeping its monotonicity and independence facts *)
Tactic Notation "drk" constr(rk) constr(Hm) constr(Hi) ident(s1) ident(ms) ident(v) ident(M) ident(I) :=
  match goal with H : context [rk ?zw ?s ?p ?ply ?d ?pv ?a ?b ?cut] |- _ =>
    pose proof (Hm zw s p ply d pv a b cut) as M; pose proof (Hi zw s p ply d pv a b cut) as I;
    destruct (rk zw s p ply d pv a b cut) as [s1 [ms v]]; sev
  end.

Section Indep.
Variables r0 rk : rec_t.
Hypothesis Hm : mono rk.
Hypothesis Hi : indep r0 rk.

Lemma mc_loop_indep : forall n ply depth a cut m s g child i cuts,
  loud (fst (fst (mc_loop pinned basis cfg rk n ply depth a cut m s g child i cuts))) = false ->
  mc_loop pinned basis cfg r0 n ply depth a cut m s g child i cuts = mc_loop pinned basis cfg rk n ply depth a cut m s g child i cuts.
Proof.
  induction n; intros until cuts; cbn [mc_loop]; [reflexivity|].
  destruct (6 <=? i); [reflexivity|]. intros H.
  drk rk Hm Hi s1 ms v M I.
  assert (NC : loud s1 = false).
  { apply (nc_le s1 _ H). clear H I.
    destruct ((a <? - v) && (3 <=? (if a <? - v then cuts + 1 else cuts))); [sev; lia|].
    destruct (mg_next pinned basis cfg (gfuel g) s1 g) as [g' nx]. destruct nx as [[m' c']|]; [apply mc_loop_mono; assumption|sev; lia]. }
  rewrite (I NC).
  destruct ((a <? - v) && (3 <=? (if a <? - v then cuts + 1 else cuts))); [reflexivity|].
  destruct (mg_next pinned basis cfg (gfuel g) s1 g) as [g' nx]. destruct nx as [[m' c']|]; [apply IHn; exact H|reflexivity].
Qed.

Lemma zw_loop_indep : forall n ply depth a cut s g i best,
  loud (fst (fst (fst (zw_loop pinned basis cfg c2 rk n ply depth a cut s g i best)))) = false ->
  zw_loop pinned basis cfg c1 r0 n ply depth a cut s g i best = zw_loop pinned basis cfg c2 rk n ply depth a cut s g i best.
Proof.
  induction n; intros until best; cbn [zw_loop]; [reflexivity|].
  destruct (mg_next pinned basis cfg (gfuel g) s g) as [g' nx]. destruct nx as [[m child]|]; [|reflexivity]. intros H.
  drk rk Hm Hi s1 ms v M I.
  assert (NC : loud s1 = false).
  { apply (nc_le s1 _ H). clear H I. destruct (a <? - v); [sev; lia|]. destruct (cancelled c2 s1); [sev; lia|].
    apply zw_loop_mono; assumption. }
  rewrite (I NC). destruct (a <? - v); [reflexivity|]. rewrite (quiet2 s1 NC) in *. rewrite (quiet1 s1 NC). apply IHn; exact H.
Qed.

Lemma pv_child_indep : forall s child ply depth best a b i,
  loud (fst (pv_child rk s child ply depth best a b i)) = false ->
  pv_child r0 s child ply depth best a b i = pv_child rk s child ply depth best a b i.
Proof.
  intros until i. unfold pv_child. destruct (1 <? i); [|apply Hi]. intros H.
  drk rk Hm Hi s1 ms v M I.
  assert (NC : loud s1 = false).
  { apply (nc_le s1 _ H). clear H I. destruct ((a <? - v) && (- v <? b)); [|sev; lia].
    etransitivity; [|apply Hm]. sev; lia. }
  rewrite (I NC). destruct ((a <? - v) && (- v <? b)); [apply Hi; exact H|reflexivity].
Qed.

Lemma pv_loop_indep : forall n ply depth b s g i best a improved,
  loud (fst (fst (fst (fst (pv_loop pinned basis cfg c2 rk n ply depth b s g i best a improved))))) = false ->
  pv_loop pinned basis cfg c1 r0 n ply depth b s g i best a improved = pv_loop pinned basis cfg c2 rk n ply depth b s g i best a improved.
Proof.
  induction n; intros until improved; cbn [pv_loop]; [reflexivity|].
  destruct (mg_next pinned basis cfg (gfuel g) s g) as [g' nx]. destruct nx as [[m child]|]; [|reflexivity]. intros H.
  pose proof (pv_child_mono rk Hm (set_fm s ply m) child ply depth best a b (i + 1)) as M.
  pose proof (pv_child_indep (set_fm s ply m) child ply depth best a b (i + 1)) as I.
  destruct (pv_child rk (set_fm s ply m) child ply depth best a b (i + 1)) as [s1 [ms v]]. sev.
  assert (NC : loud s1 = false).
  { apply (nc_le s1 _ H). clear H I. destruct (a <? - v).
    - destruct (b <=? - v); [sev; lia|].
      match goal with |- context [cancelled c2 ?x] => destruct (cancelled c2 x) end; [sev; lia|].
      etransitivity; [|apply pv_loop_mono; assumption]. sev; lia.
    - destruct (cancelled c2 s1); [sev; lia|]. apply pv_loop_mono; assumption. }
  rewrite (I NC). destruct (a <? - v).
  - destruct (b <=? - v); [reflexivity|].
    change (cancelled c2 (set_fpv s1 ply (set_prefix (znth (fpv s1) ply []) (m :: ms)))) with (cancelled c2 s1) in *.
    change (cancelled c1 (set_fpv s1 ply (set_prefix (znth (fpv s1) ply []) (m :: ms)))) with (cancelled c1 s1).
    rewrite (quiet2 s1 NC) in *. rewrite (quiet1 s1 NC). apply IHn; exact H.
  - rewrite (quiet2 s1 NC) in *. rewrite (quiet1 s1 NC). apply IHn; exact H.
Qed.

Lemma zw_tail_indep : forall s g p ply depth a cut,
  loud (fst (zw_tail pinned basis cfg c2 rk s g p ply depth a cut)) = false ->
  zw_tail pinned basis cfg c1 r0 s g p ply depth a cut = zw_tail pinned basis cfg c2 rk s g p ply depth a cut.
Proof.
  intros until cut. unfold zw_tail. intros H.
  pose proof (zw_loop_mono c2 rk Hm (gfuel (set_i g 0)) ply depth a cut s (set_i g 0) 0 (firstn 1 (znth (fpv s) ply []))) as M.
  pose proof (zw_loop_indep (gfuel (set_i g 0)) ply depth a cut s (set_i g 0) 0 (firstn 1 (znth (fpv s) ply []))) as I.
  destruct (zw_loop pinned basis cfg c2 rk (gfuel (set_i g 0)) ply depth a cut s (set_i g 0) 0 (firstn 1 (znth (fpv s) ply []))) as [[[s1 best] didcut] ab].
  sev. assert (NC : loud s1 = false).
  { apply (nc_le s1 _ H). destruct ab; sev; [lia|]. rewrite evals_zw_store. lia. }
  rewrite (I NC). destruct ab; [reflexivity|]. rewrite (zw_store_indep _ _ _ _ _ _ NC). reflexivity.
Qed.

Lemma zw_mc_indep : forall s g p ply depth a cut,
  loud (fst (zw_mc pinned basis cfg c2 rk s g p ply depth a cut)) = false ->
  zw_mc pinned basis cfg c1 r0 s g p ply depth a cut = zw_mc pinned basis cfg c2 rk s g p ply depth a cut.
Proof.
  intros until cut. unfold zw_mc. destruct (c_multicut cfg && cut && (3 <? depth)); [|apply zw_tail_indep].
  destruct (mg_next pinned basis cfg (gfuel g) _ g) as [g1 first]. destruct first as [[m child0]|]; [|apply zw_tail_indep].
  intros H.
  match type of H with context [mc_loop pinned basis cfg rk ?n ?ply ?d ?a ?cut ?m ?s ?g ?ch ?i ?cu] =>
    pose proof (mc_loop_mono rk Hm n ply d a cut m s g ch i cu) as M;
    pose proof (mc_loop_indep n ply d a cut m s g ch i cu) as I;
    destruct (mc_loop pinned basis cfg rk n ply d a cut m s g ch i cu) as [[s1 g2] mccut] end.
  sev. assert (NC : loud s1 = false).
  { apply (nc_le s1 _ H). destruct mccut; [sev; lia|]. apply zw_tail_mono; assumption. }
  rewrite (I NC). destruct mccut; [reflexivity|]. apply zw_tail_indep; exact H.
Qed.

Lemma zw_reduce_indep : forall s te p ply depth pv a cut,
  loud (fst (zw_reduce pinned basis cfg c2 rk s te p ply depth pv a cut)) = false ->
  zw_reduce pinned basis cfg c1 r0 s te p ply depth pv a cut = zw_reduce pinned basis cfg c2 rk s te p ply depth pv a cut.
Proof.
  intros until cut. unfold zw_reduce. destruct (reduce_slide cfg s p ply depth) as [s1 d1]. apply zw_mc_indep.
Qed.

Lemma zw_node_indep : forall s te p ply depth pv a cut,
  loud (fst (zw_node pinned basis cfg c2 rk s te p ply depth pv a cut)) = false ->
  zw_node pinned basis cfg c1 r0 s te p ply depth pv a cut = zw_node pinned basis cfg c2 rk s te p ply depth pv a cut.
Proof.
  intros until cut. unfold zw_node. destruct (null_move_ok cfg s ply depth p); [|apply zw_reduce_indep]. intros H.
  drk rk Hm Hi s1 ms v M I.
  assert (NC : loud s1 = false).
  { apply (nc_le s1 _ H). clear H I. destruct (a + 1 <=? - v); [sev; lia|]. etransitivity; [|apply zw_reduce_mono; assumption]. lia. }
  rewrite (I NC). destruct (a + 1 <=? - v); [reflexivity|]. apply zw_reduce_indep; exact H.
Qed.

Lemma pv_node_indep : forall s te p ply depth pv a b,
  loud (fst (pv_node pinned basis cfg c2 rk s te p ply depth pv a b)) = false ->
  pv_node pinned basis cfg c1 r0 s te p ply depth pv a b = pv_node pinned basis cfg c2 rk s te p ply depth pv a b.
Proof.
  intros until b. unfold pv_node. intros H.
  match type of H with context [pv_loop pinned basis cfg c2 rk ?n ?ply ?d ?b ?s1 ?g ?i ?best ?a ?im] =>
    pose proof (pv_loop_mono c2 rk Hm n ply d b s1 g i best a im) as M;
    pose proof (pv_loop_indep n ply d b s1 g i best a im) as I;
    destruct (pv_loop pinned basis cfg c2 rk n ply d b s1 g i best a im) as [[[[s2 best'] a'] im'] ab] end.
  sev. assert (NC : loud s2 = false).
  { apply (nc_le s2 _ H). destruct ab; sev; [lia|]. rewrite evals_pv_store. lia. }
  rewrite (I NC). destruct ab; [reflexivity|]. rewrite (pv_store_indep _ _ _ _ _ _ _ NC). reflexivity.
Qed.

Lemma srch_step_indep : indep (srch_step pinned basis cfg c1 r0) (srch_step pinned basis cfg c2 rk).
Proof.
  intros zw s p ply depth pv a b cut. unfold srch_step.
  destruct ((depth <=? 0) || is_over p); [reflexivity|].
  destruct (tt_probe basis _ p ply depth a (if zw then a + 1 else b)) as [[s2 te] ret].
  destruct ret; [reflexivity|]. destruct zw; [apply zw_node_indep|apply pv_node_indep].
Qed.
End Indep.

Lemma srch_indep fuel : indep (srch pinned basis cfg c1 fuel) (srch pinned basis cfg c2 fuel).
Proof.
  induction fuel; cbn [srch]; [intros zw s p ply depth pv a b cut _; reflexivity|].
  apply srch_step_indep; [apply srch_mono|assumption].
Qed.
End Cancel.

(* ---- Analyze: the cancelled call against the uninterrupted call limited to the depth the cancelled call reports ---- *)
Section Trunc.
Variable pinned : bool.
Variable basis : list N.
Variable cfg : config.
Variable k : Z.                 (* the context is cancelled inside the k-th leaf evaluation; 0 = never *)

Lemma canc0 s : cancelled 0 s = false.
Proof. reflexivity. Qed.

Lemma az_iter_depth_ge c D base p : forall n i s ms v acc d s' pv vv d' acc' c',
  az_iter pinned basis cfg c D base p n i s ms v acc d = (s', (pv, vv, d', acc', c')) -> d <= i + base -> d <= d'.
Proof.
  induction n; cbn [az_iter]; intros i s ms v acc d s' pv vv d' acc' c' H L.
  - inversion H; lia.
  - destruct (D <? i + base); [inversion H; lia|].
    destruct (srch pinned basis cfg c 40 false (reset_st s) p 0 (i + base) ms (MinEval - 1) (MaxEval + 1) true) as [s1 [next nv]].
    destruct (if cancelled c s1 then [] else next); [inversion H; lia|].
    destruct ((WinThreshold <? nv) || (nv <? - WinThreshold)); [inversion H; lia|].
    apply IHn in H; lia.
Qed.

Lemma trunc_iter D base p : forall n i s ms v acc d, d = i + base - 1 -> cancelled k s = false ->
  forall sk pv vv dk acck ck, az_iter pinned basis cfg k D base p n i s ms v acc d = (sk, (pv, vv, dk, acck, ck)) ->
  exists s0, az_iter pinned basis cfg 0 dk base p n i s ms v acc d = (s0, (pv, vv, dk, acck, false)) /\ cancelled k s0 = false.
Proof.
  induction n; intros i s ms v acc d Hd Hq sk pv vv dk acck ck H; cbn [az_iter] in *.
  - inversion H; subst. exists sk. split; [reflexivity|assumption].
  - assert (STOP : forall dk', dk' = d -> dk' <? i + base = true) by (intros; apply Z.ltb_lt; lia).
    destruct (D <? i + base) eqn:EL.
    { inversion H; subst. rewrite (STOP _ eq_refl). exists sk. split; [reflexivity|assumption]. }
    destruct (srch pinned basis cfg k 40 false (reset_st s) p 0 (i + base) ms (MinEval - 1) (MaxEval + 1) true) as [s1 [next nv]] eqn:Ek.
    destruct (cancelled k s1) eqn:Ec.
    { inversion H; subst. rewrite (STOP _ eq_refl). exists s. split; [reflexivity|assumption]. }
    assert (E0 : srch pinned basis cfg 0 40 false (reset_st s) p 0 (i + base) ms (MinEval - 1) (MaxEval + 1) true = (s1, (next, nv))).
    { rewrite <- Ek. apply (srch_indep pinned basis cfg 0 k 40). rewrite Ek. unfold loud. cbn [fst]. rewrite Ec. reflexivity. }
    destruct next as [|m nx].
    { inversion H; subst. rewrite (STOP _ eq_refl). exists s. split; [reflexivity|assumption]. }
    destruct ((WinThreshold <? nv) || (nv <? - WinThreshold)) eqn:EW.
    + inversion H; subst. rewrite Z.ltb_irrefl, E0, canc0, EW. exists sk. split; [reflexivity|assumption].
    + pose proof (az_iter_depth_ge _ _ _ _ _ _ _ _ _ _ _ _ _ _ _ _ _ H ltac:(lia)) as GE.
      assert (EL' : dk <? i + base = false) by (apply Z.ltb_ge; lia).
      rewrite EL', E0, canc0, EW. apply (IHn (i + 1) s1 (m :: nx) nv _ (i + base) ltac:(lia) Ec sk pv vv dk acck ck H).
Qed.

(* C16, the truncation clause.  If the Analyze call whose context is cancelled inside its k-th leaf evaluation (any k; configured
   depth D; any engine state s: table, history and response tables of earlier calls) returns (pv, value, Stats.Depth = d, stats), then
   the uninterrupted call (never cancelled) limited to depth d on the same engine state returns exactly the same pv, value, depth
   and merged statistics, is not flagged cancelled, and ends before the k-th leaf evaluation (every iteration it made was complete
   before the flag was set). *)
Theorem cancel_truncates : forall D s p sk pv v d acc c,
  analyze_depth pinned basis cfg k D s p = (sk, (pv, v, d, acc, c)) ->
  exists s0, analyze_depth pinned basis cfg 0 d s p = (s0, (pv, v, d, acc, false)) /\ cancelled k s0 = false.
Proof.
  unfold analyze_depth. intros D s p sk pv v d acc c H.
  destruct (az_root pinned (az_start s) p) as [[base ms0] v0].
  apply (trunc_iter D base p 16 1 (az_start s) ms0 v0 stats0 base ltac:(lia)) in H; [exact H|].
  unfold cancelled, az_start. cbn [evals]. destruct (0 <? k) eqn:E; [|reflexivity]. apply Z.ltb_lt in E.
  cbn [andb]. apply Z.leb_gt. lia.
Qed.

(* no iteration completed on an engine without an exact root entry (in particular a fresh engine): no move *)
Theorem cancel_no_iteration : forall D s p sk pv v acc c,
  az_root pinned (az_start s) p = (0, [], 0) ->
  analyze_depth pinned basis cfg k D s p = (sk, (pv, v, 0, acc, c)) -> pv = [] /\ v = 0.
Proof.
  intros D s p sk pv v acc c HR H. apply cancel_truncates in H. destruct H as (s0 & H & _).
  unfold analyze_depth in H. rewrite HR in H. cbn [az_iter] in H. change (0 <? 1 + 0) with true in H. cbv iota in H.
  inversion H; subst. split; reflexivity.
Qed.

Lemma az_iter_evals_mono c D base p : forall n i s ms v acc d,
  evals s <= evals (fst (az_iter pinned basis cfg c D base p n i s ms v acc d)).
Proof.
  induction n; cbn [az_iter]; intros i s ms v acc d; [cbn [fst]; lia|].
  destruct (D <? i + base); [cbn [fst]; lia|].
  pose proof (srch_mono pinned basis cfg c 40 false (reset_st s) p 0 (i + base) ms (MinEval - 1) (MaxEval + 1) true) as M.
  destruct (srch pinned basis cfg c 40 false (reset_st s) p 0 (i + base) ms (MinEval - 1) (MaxEval + 1) true) as [s1 [next nv]].
  cbn [fst reset_st evals] in M.
  destruct (if cancelled c s1 then [] else next); [cbn [fst]; lia|].
  destruct ((WinThreshold <? nv) || (nv <? - WinThreshold)); [cbn [fst]; lia|].
  etransitivity; [exact M|apply IHn].
Qed.

Lemma deepest_iter D D' base p : forall n i s ms v acc d, d = i + base - 1 ->
  forall s0 pv' v' d' acc' c' sk pv vv dk acck,
  az_iter pinned basis cfg 0 D' base p n i s ms v acc d = (s0, (pv', v', d', acc', c')) -> cancelled k s0 = false ->
  az_iter pinned basis cfg k D base p n i s ms v acc d = (sk, (pv, vv, dk, acck, true)) -> d' <= dk.
Proof.
  induction n; intros i s ms v acc d Hd s0 pv' v' d' acc' c' sk pv vv dk acck H0 Hq Hk.
  - cbn [az_iter] in Hk. discriminate Hk.
  - pose proof (az_iter_depth_ge k D base p _ _ _ _ _ _ _ _ _ _ _ _ _ Hk ltac:(lia)) as GE.
    pose proof (az_iter_evals_mono 0 D' base p (S n) i s ms v acc d) as MONO. rewrite H0 in MONO. cbn [fst] in MONO.
    cbn [az_iter] in *.
    destruct (D' <? i + base); [inversion H0; subst; lia|].
    pose proof (srch_mono pinned basis cfg 0 40 false (reset_st s) p 0 (i + base) ms (MinEval - 1) (MaxEval + 1) true) as M.
    destruct (srch pinned basis cfg 0 40 false (reset_st s) p 0 (i + base) ms (MinEval - 1) (MaxEval + 1) true) as [s1 [next nv]] eqn:E0.
    rewrite canc0 in H0. destruct next as [|m nx]; [inversion H0; subst; lia|].
    destruct (D <? i + base); [discriminate Hk|].
    assert (Q1 : cancelled k s1 = false).
    { apply (canc_le k s1 s0 Hq).
      destruct ((WinThreshold <? nv) || (nv <? - WinThreshold)); [inversion H0; subst; lia|].
      pose proof (az_iter_evals_mono 0 D' base p n (i + 1) s1 (m :: nx) nv (st_merge (st s1) acc) (i + base)) as M2.
      rewrite H0 in M2. exact M2. }
    assert (Ek : srch pinned basis cfg k 40 false (reset_st s) p 0 (i + base) ms (MinEval - 1) (MaxEval + 1) true = (s1, (m :: nx, nv))).
    { rewrite <- E0. apply (srch_indep pinned basis cfg k 0 40). rewrite E0. unfold loud. cbn [fst]. rewrite Q1. reflexivity. }
    rewrite Ek, Q1 in Hk.
    destruct ((WinThreshold <? nv) || (nv <? - WinThreshold)); [discriminate Hk|].
    apply (IHn (i + 1) s1 (m :: nx) nv _ (i + base) ltac:(lia) _ _ _ _ _ _ _ _ _ _ _ H0 Hq Hk).
Qed.

(* C16, "the deepest iteration it had completed": when the cancelled call reports depth d and is flagged cancelled, every uninterrupted
   depth-limited call on the same engine state that ends before the k-th leaf evaluation reports a depth <= d.  (With cancel_truncates:
   d is the largest depth whose uninterrupted run is over before the flag is set.) *)
Theorem cancel_deepest : forall D s p sk pv v d acc,
  analyze_depth pinned basis cfg k D s p = (sk, (pv, v, d, acc, true)) ->
  forall D' s0 pv' v' d' acc' c',
  analyze_depth pinned basis cfg 0 D' s p = (s0, (pv', v', d', acc', c')) -> cancelled k s0 = false -> d' <= d.
Proof.
  unfold analyze_depth. intros D s p sk pv v d acc Hk D' s0 pv' v' d' acc' c' H0 Hq.
  destruct (az_root pinned (az_start s) p) as [[base ms0] v0].
  exact (deepest_iter D D' base p 16 1 (az_start s) ms0 v0 stats0 base ltac:(lia) _ _ _ _ _ _ _ _ _ _ _ H0 Hq Hk).
Qed.

Lemma az_root_fresh n p : az_root pinned (az_start (new_state n)) p = (0, [], 0).
Proof.
  unfold az_root, tt_get, az_start, new_state. cbn [table].
  destruct (repeat entry0 n) eqn:E; [reflexivity|]. rewrite <- E.
  destruct (tt_slots _ _) as [i1 i2]. rewrite !nth_repeat. cbn [e_hash entry0].
  destruct (0 =? phash p)%N; cbv beta zeta; cbn [table]; rewrite ?nth_repeat; reflexivity.
Qed.
End Trunc.

(* ---- the statements exported to Properties/C16.v: the repaired code (pinned = false), entry points of Search.v ---- *)
Lemma cancel_truncates_fixed : forall basis cfg k s p sk pv v d acc c,
  analyze_cancel basis cfg k s p = (sk, (pv, v, d, acc, c)) ->
  exists s0, analyze_limited basis cfg d s p = (s0, (pv, v, d, acc, false)) /\ cancelled k s0 = false.
Proof. intros basis cfg k s p sk pv v d acc c. apply cancel_truncates. Qed.

Lemma cancel_deepest_fixed : forall basis cfg k s p sk pv v d acc,
  analyze_cancel basis cfg k s p = (sk, (pv, v, d, acc, true)) ->
  forall D' s0 pv' v' d' acc' c',
  analyze_limited basis cfg D' s p = (s0, (pv', v', d', acc', c')) -> cancelled k s0 = false -> d' <= d.
Proof. intros basis cfg k s p sk pv v d acc H. exact (cancel_deepest false basis cfg k _ _ _ _ _ _ _ _ H). Qed.

Lemma cancel_no_move_fresh : forall basis cfg k n p sk pv v acc c,
  analyze_cancel basis cfg k (new_state n) p = (sk, (pv, v, 0, acc, c)) -> pv = [] /\ v = 0.
Proof.
  intros basis cfg k n p sk pv v acc c H.
  exact (cancel_no_iteration false basis cfg k _ _ _ _ _ _ _ _ (az_root_fresh false n p) H).
Qed.
