(* OpeningFacts2.v (C04, opening book): position-level lemmas.
   lm q m: Position.Move accepts m on q with a successor inside the C01 invariant.
   lm_transfer: two positions satisfying the invariant whose reserves match their boards, which show the same squares and
     the same side to move and are both on the same side of the opening (opening_consistent), accept the same moves -
     the hash of a position does not see its ply counter, so a book entry and the queried position may differ in it.
   good_move / good_image / new_pos_good: the facts BuildOpeningBook's loop keeps true (C14's commuting square
     Import4.image_move_commutes gives: every image of the line position accepts the transformed move). *)
From Coq Require Import NArith ZArith Arith List Bool Lia ZifyN ZifyBool ZifyNat Permutation.
Require Import Rules Sym SymRules1 SymRules2 SymRules3 SymRules4.
Require Import Board Stack Move Refine RefinePlace RefinePlace2 RefinePlace3 Slide1 Slide2 Slide3 Slide4 Slide5 Slide6 Slide7 Slide8
  MoveRefines HashInv GameOver Preserve1 Preserve2 PreserveExt Preserve3 Preserve4 Preserve5 Preserve6 Reach1.
Require Import Alloc Generated.Consts.
Require Import Tps Symmetry SymCode1 Canon2 Canon4.
Require Import TpsFacts TpsFacts2 TpsFacts3 TpsFacts4 TpsFacts5 TpsFacts6 TpsFacts8 TpsFacts9 Import1 Import3 Import4 Import5.
Require PtnMove PtnMoveFacts PtnMoveFacts2.
Require Import Opening OpeningFacts1.
Import ListNotations.

(* ---- reserves against the ply counter ---- *)
Definition rsum_p (p : position) : N := (whiteStones p + whiteCaps p + blackStones p + blackCaps p)%N.
Definition rfull (p : position) : N := (2 * (dflt_pieces p + dflt_caps p))%N.

(* the ply counter is below 2 exactly when fewer than two pieces have left the reserves *)
Definition opening_consistent (p : position) : Prop := (Move.move p < 2)%Z <-> (rfull p < rsum_p p + 2)%N.

(* the inductive form: what holds along every game from tak.New *)
Definition opening_inv (p : position) : Prop :=
  (0 <= Move.move p)%Z /\ ((Move.move p < 2)%Z -> Z.of_N (rsum_p p) = (Z.of_N (rfull p) - Move.move p)%Z) /\
  ((2 <= Move.move p)%Z -> (rsum_p p + 2 <= rfull p)%N).

Lemma opening_inv_consistent p : opening_inv p -> opening_consistent p.
Proof. intros (A & B & C). unfold opening_consistent. split; intros H; [specialize (B H)|]; lia. Qed.

(* a move the position accepts, with a successor inside the representation *)
Definition lm (q : position) (m : rmove) : Prop := exists q', mv q m = Ok q' /\ pos_ok q'.

Lemma pos_ok_heights64 p : pos_ok p -> heights64 p.
Proof. intros [_ [_ _ H] _ _] j Hj. destruct (H j Hj) as [A _ _ _ _]. exact A. Qed.

Lemma pos_ok_stacks64 p : pos_ok p -> Forall (fun st => (length st <= 64)%nat) (sq (abs p)).
Proof.
  intros Hp. pose proof (pos_ok_heights64 p Hp) as H. rewrite sq_abs_board. unfold abs_board.
  apply Forall_forall. intros st Hin. apply in_map_iff in Hin as (i & <- & Hi). apply in_seq in Hi.
  rewrite length_abs_stack_b. cbn [bview bhs]. unfold nsq in Hi. specialize (H (N.of_nat i) ltac:(lia)). lia.
Qed.

Lemma abs_sq_length p : length (sq (abs p)) = (N.to_nat (size p) * N.to_nat (size p))%nat.
Proof. unfold abs. cbn [sq]. now rewrite map_length, seq_length. Qed.

Lemma mv_not_pass p m q : mv p m = Ok q -> mT m <> 1%N.
Proof. exact (cmv_not_pass p m q). Qed.

(* mv succeeds with a successor inside the representation: the rules succeed with its abstraction *)
Lemma lm_rules q m q' : pos_ok q -> mv q m = Ok q' -> pos_ok q' -> rules_move (abs q) (raw m) = Some (abs q').
Proof.
  intros Hq E Hq'. pose proof (move_exact q m Hq (mv_not_pass q m q' E)) as R. rewrite E in R.
  destruct R as (s & R1 & _ & _ & R4). destruct (R4 (pos_ok_heights64 q' Hq')) as [-> _]. exact R1.
Qed.

Lemma lm_fits64 q m q' : pos_ok q -> mv q m = Ok q' -> pos_ok q' -> fits64 q m.
Proof.
  intros Hq E Hq' s Hs. rewrite (lm_rules q m q' Hq E Hq') in Hs. injection Hs as <-. now apply pos_ok_stacks64.
Qed.

(* ---- legality transfers between two positions that show the same squares and the same side to move ---- *)
Lemma lm_transfer q1 q2 m : pos_ok q1 -> pos_ok q2 -> reserves_match_board q1 -> reserves_match_board q2 ->
  opening_consistent q1 -> opening_consistent q2 ->
  sq (abs q1) = sq (abs q2) -> Z.even (Move.move q1) = Z.even (Move.move q2) -> lm q1 m -> lm q2 m.
Proof.
  intros H1 H2 R1 R2 O1 O2 Esq Eev (q1' & E1 & H1').
  assert (Es : size q1 = size q2).
  { pose proof (abs_sq_length q1) as L1. pose proof (abs_sq_length q2) as L2. rewrite Esq in L1.
    pose proof (po_size _ H1). pose proof (po_size _ H2).
    assert (Ha : (3 <= N.to_nat (size q1) <= 8)%nat) by lia. assert (Hb : (3 <= N.to_nat (size q2) <= 8)%nat) by lia.
    assert (N.to_nat (size q1) = N.to_nat (size q2)); [|lia].
    revert L1 L2 Ha Hb. generalize (N.to_nat (size q1)) (N.to_nat (size q2)) (length (sq (abs q2))). clear. intros a b l. nia. }
  apply (rmb_cons4 q1 H1) in R1. apply (rmb_cons4 q2 H2) in R2.
  unfold dflt_pieces, dflt_caps in R1, R2. rewrite Es in R1. rewrite <- R2 in R1. unfold cons4 in R1. rewrite Esq in R1.
  injection R1 as C1 C2 C3 C4.
  assert (S : same_but_ply (abs q1) (abs q2)).
  { constructor; try exact Esq; unfold abs; cbn [Rules.n wstones wcaps bstones bcaps ply]; try lia; try exact Eev.
    unfold opening_consistent, rfull, rsum_p, dflt_pieces, dflt_caps in O1, O2. rewrite Es in O1.
    destruct (Z.ltb_spec (Move.move q1) 2), (Z.ltb_spec (Move.move q2) 2); try reflexivity; exfalso; lia. }
  pose proof (lm_rules q1 m q1' H1 E1 H1') as Rm.
  destruct (rules_move_transfer _ _ _ _ S Rm) as (s2 & Rm2 & Esq2).
  pose proof (move_exact q2 m H2 (mv_not_pass q1 m q1' E1)) as X.
  destruct (mv q2 m) as [q2'| |] eqn:E2; [|congruence|contradiction].
  destruct X as (s & X1 & _ & X3 & X4). assert (s = s2) by congruence. subst s.
  exists q2'. split; [exact E2|]. apply X4. apply (shape_heights64 s2 q2' X3). rewrite Esq2. now apply pos_ok_stacks64.
Qed.

(* what the build keeps true of every position it walks through or stores *)
Record good (q : position) : Prop := {
  g_ok : pos_ok q; g_rm : reserves_match_board q; g_bwt : Move.black_wins_ties q = false; g_op : opening_inv q }.

Lemma good_image k p : k < 8 -> good p -> good (imgk p k).
Proof.
  intros Hk [Hp RM Hb Ho]. unfold imgk.
  destruct (image_fields p (csym (N.to_nat (size p)) k) Hp) as (E1 & E2 & E3).
  pose proof (image_abs k p Hk Hp RM Hb) as A.
  constructor; [now apply image_pos_ok|now apply image_reserves_match|exact E3|].
  assert (W1 := f_equal wstones A). assert (W2 := f_equal wcaps A). assert (W3 := f_equal bstones A). assert (W4 := f_equal bcaps A).
  unfold abs, img in W1, W2, W3, W4. cbn [wstones wcaps bstones bcaps] in W1, W2, W3, W4.
  unfold opening_inv, rsum_p, rfull, dflt_pieces, dflt_caps in *. rewrite E1, E2, W1, W2, W3, W4. exact Ho.
Qed.

Lemma opening_inv_step p m p' : opening_inv p -> size p' = size p -> rules_move (abs p) (raw m) = Some (abs p') -> opening_inv p'.
Proof.
  intros Ho Es R. destruct (rules_move_rsum _ _ _ R) as (P & _ & Q1 & Q2).
  unfold abs, rsum in P, Q1, Q2. cbn [ply wstones wcaps bstones bcaps] in P, Q1, Q2.
  unfold opening_inv, rsum_p, rfull, dflt_pieces, dflt_caps in *. rewrite Es, P.
  set (rf := (2 * (nth (N.to_nat (size p)) default_pieces 0 + nth (N.to_nat (size p)) default_caps 0))%N) in *. clearbody rf.
  set (rs := (whiteStones p + whiteCaps p + blackStones p + blackCaps p)%N) in *. clearbody rs.
  set (rs' := (whiteStones p' + whiteCaps p' + blackStones p' + blackCaps p')%N) in *. clearbody rs'.
  clear R Es. lia.
Qed.

(* one move of a book line: the successor is good again, and every image of the position accepts the transformed move *)
Lemma good_move p m p' : good p -> mv p m = Ok p' -> heights64 p' ->
  ((-64 <= mX m < 64)%Z /\ (-64 <= mY m < 64)%Z /\ (mT m <= 8)%N) ->
  good p' /\ forall k, k < 8 -> exists sm, transform_move (csym (N.to_nat (size p)) k) m = Ok sm /\ lm (imgk p k) sm.
Proof.
  intros [Hp RM Hb Ho] E H64 (Hx & Hy & Hty).
  pose proof (mv_not_pass _ _ _ E) as Hnp.
  pose proof (move_exact p m Hp Hnp) as X. rewrite E in X. destruct X as (s & X1 & X2 & _ & X4).
  destruct (X4 H64) as [-> Hp'].
  assert (Ht : transformable m).
  { unfold transformable. repeat split; try lia. intros H5. exact (rules_slide_nonzero _ _ _ X1 H5). }
  assert (Hf : fits64 p m) by (eapply lm_fits64; eassumption).
  assert (C : forall k, k < 8 -> exists sm, transform_move (csym (N.to_nat (size p)) k) m = Ok sm /\
                 mv (image gen_basis p (csym (N.to_nat (size p)) k)) sm = Ok (image gen_basis p' (csym (N.to_nat (size p)) k)) /\
                 reserves_match_board p' /\ Move.black_wins_ties p' = false).
  { intros k Hk. pose proof (image_move_commutes k p m Hk Hp RM Hb Hf Ht Hnp) as C. cbv zeta in C.
    destruct (transform_move (csym (N.to_nat (size p)) k) m) as [sm| |]; try contradiction.
    rewrite E in C. destruct C as (C1 & _ & C3 & C4). exists sm. auto. }
  split.
  - destruct (C 0 ltac:(lia)) as (_ & _ & _ & RM' & Hb'). constructor; try assumption.
    apply (opening_inv_step p m p' Ho); [now destruct X2|exact X1].
  - intros k Hk. destruct (C k Hk) as (sm & T & M & _). exists sm. split; [exact T|].
    eexists. split; [exact M|]. now apply image_pos_ok.
Qed.

(* tak.New(tak.Config{Size: size}) *)
Lemma new_pos_good sz p0 : new_pos gen_basis sz = Ok p0 -> good p0 /\ Z.of_N (size p0) = sz /\ (3 <= sz <= 8)%Z.
Proof.
  intros H. unfold new_pos in H.
  destruct ((sz <? 0) || (8 <? sz))%Z eqn:A; [discriminate|]. destruct (sz <? 3)%Z eqn:B; [discriminate|].
  injection H as <-.
  assert (Hs : (sz = 3 \/ sz = 4 \/ sz = 5 \/ sz = 6 \/ sz = 7 \/ sz = 8)%Z) by lia.
  assert (G : forall n, In n [3; 4; 5; 6; 7; 8]%N ->
     good (Alloc.new_pos n false (nth (N.to_nat n) gen_defaultPieces 0%N) (nth (N.to_nat n) gen_defaultCaps 0%N))).
  { intros n Hn. cbn [In] in Hn.
    assert (Hr : (3 <= n <= 8)%N) by lia.
    assert (Hlt : (nth (N.to_nat n) gen_defaultPieces 0 < 256 /\ nth (N.to_nat n) gen_defaultCaps 0 < 256)%N)
      by (repeat (destruct Hn as [<-|Hn]; [vm_compute; split; reflexivity|]); contradiction).
    destruct (new_ok n false _ _ Hr (proj1 Hlt) (proj2 Hlt)) as (N1 & _ & _).
    constructor; [exact N1| |reflexivity|].
    - repeat (destruct Hn as [<-|Hn]; [repeat split; vm_compute; congruence|]); contradiction.
    - repeat (destruct Hn as [<-|Hn]; [unfold opening_inv; vm_compute; repeat split; congruence|]); contradiction. }
  split; [|split; [|lia]].
  - destruct Hs as [->|[->|[->|[->|[->| ->]]]]].
    1: change (Z.to_N 3) with 3%N; change (Z.to_nat 3) with (N.to_nat 3); rewrite (from_squares_empty_is_new 3%N) by (cbn; tauto); apply G; cbn; tauto.
    1: change (Z.to_N 4) with 4%N; change (Z.to_nat 4) with (N.to_nat 4); rewrite (from_squares_empty_is_new 4%N) by (cbn; tauto); apply G; cbn; tauto.
    1: change (Z.to_N 5) with 5%N; change (Z.to_nat 5) with (N.to_nat 5); rewrite (from_squares_empty_is_new 5%N) by (cbn; tauto); apply G; cbn; tauto.
    1: change (Z.to_N 6) with 6%N; change (Z.to_nat 6) with (N.to_nat 6); rewrite (from_squares_empty_is_new 6%N) by (cbn; tauto); apply G; cbn; tauto.
    1: change (Z.to_N 7) with 7%N; change (Z.to_nat 7) with (N.to_nat 7); rewrite (from_squares_empty_is_new 7%N) by (cbn; tauto); apply G; cbn; tauto.
    1: change (Z.to_N 8) with 8%N; change (Z.to_nat 8) with (N.to_nat 8); rewrite (from_squares_empty_is_new 8%N) by (cbn; tauto); apply G; cbn; tauto.
  - destruct Hs as [->|[->|[->|[->|[->| ->]]]]]; reflexivity.
Qed.
