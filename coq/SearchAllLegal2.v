(* SearchAllLegal2.v: SearchAllLegal.analyze_all_legal with its hypotheses about the rules engine and the evaluator discharged
   (instantiated model, both evaluators of the check, every board size, games of at most 64 pieces), as SearchLegal3/4.v do for Analyze. *)
From Coq Require Import NArith ZArith List Bool Lia.
Require Import Board Stack Rules Move GameOver Refine Alloc Slide2 Slide6 Preserve1 Preserve5 Preserve6 Reach1 PreserveEx.
Require Import Eval EvalSpec Search NegamaxSpec SearchGen SearchExact SearchInst SearchC CancelEx.
Require Import SearchNeg2 SearchNeg3 SearchNeg4 SearchNeg5 SearchLegal1 SearchLegal2 SearchLegal3 SearchLegal4 SearchAll1 SearchAll3 SearchAllLegal.
Require Import Generated.Consts.
Import ListNotations.
Open Scope Z_scope.

(* the depth of the exact root entry Analyze would start from (0 without one) *)
Definition seed_depth (s : sstate) (p : position) : Z := fst (fst (az_root false (az_start s) p)).

(* Every line AnalyzeAll reports starts with a move that MovePreallocated accepts - every configuration, any table, any cancellation
   point.  seed_legal (SearchLegal3.v): the move of an exact root entry, which Analyze reports without re-validating it when no iteration
   runs, is legal at the root (NoCollision at the root). *)
Theorem analyze_all_heads_legal_64 : forall cfg, builtin_eval cfg ->
  forall k s p sk pvs v d c,
  SJ s -> base_ok p -> is_over p = false -> (total p <= 64)%N ->
  move p + Z.max 1 (Z.max (c_depth cfg) (seed_depth s p)) <= max_terminal_ply ->
  seed_legal s p ->
  analyze_all_cancel gen_basis cfg k s p = (sk, (pvs, v, d, c)) ->
  SJ sk /\ Forall (head_legal p) pvs /\ Forall (fun l => l <> []) pvs.
Proof.
  intros cfg HE k s p sk pvs v d c HS Hb HO Ht Hm HSEED H.
  pose proof (analyze_all_legal gen_basis cfg k PosL PosL_anti PosL_step PosL_pass PosL_live (PosL_bound cfg HE) s p sk pvs v d c HS HO) as R.
  assert (SEED : let '(base, ms0, v0) := az_root false (az_start s) p in (ms0 = [] \/ head_legal p ms0)).
  { unfold az_root. destruct (tt_get (az_start s) (phash p)) as [i|] eqn:ET; [|left; reflexivity].
    destruct (e_bound (nth i (table (az_start s)) entry0) =? 1)%N eqn:EB; [|left; reflexivity].
    right. destruct (HSEED i ET EB) as (q & E). eexists _, [], q. split; [reflexivity|exact E]. }
  unfold seed_depth in Hm.
  destruct (az_root false (az_start s) p) as [[base ms0] v0]. cbn [fst] in Hm.
  destruct (R ltac:(intros d0 L; split; [exact Hb|split; [apply withinP_total64; [apply Hb|exact Ht]|lia]]) H) as (A & B).
  split; [exact A|]. destruct pvs as [|l0 tails]; [split; constructor|].
  destruct B as (NE & LINE & TL).
  assert (TL' : Forall (head_legal p) tails /\ Forall (fun l => l <> []) tails).
  { split; apply Forall_forall; intros l Hl; rewrite Forall_forall in TL; destruct (TL l Hl) as (HH & _).
    - apply head_ok_legal. exact HH.
    - destruct HH as (m & rest & q & -> & _). discriminate. }
  destruct TL' as (T1 & T2). split; constructor; try assumption.
  destruct LINE as [(_ & ->)|(_ & HH)]; [|apply head_ok_legal; exact HH].
  destruct SEED as [->|S1]; [contradiction|exact S1].
Qed.

(* without a table there is no seed *)
Corollary analyze_all_heads_legal_notable_64 : forall cfg, builtin_eval cfg ->
  forall k s p sk pvs v d c,
  SI s -> base_ok p -> is_over p = false -> (total p <= 64)%N -> move p + Z.max 1 (c_depth cfg) <= max_terminal_ply ->
  analyze_all_cancel gen_basis cfg k s p = (sk, (pvs, v, d, c)) ->
  Forall (head_legal p) pvs /\ Forall (fun l => l <> []) pvs.
Proof.
  intros cfg HE k s p sk pvs v d c HS Hb HO Ht Hm H.
  assert (ER : az_root false (az_start s) p = (0, [], 0)).
  { unfold az_root, tt_get. rewrite (proj1 (SI_az_start s HS)). reflexivity. }
  apply (analyze_all_heads_legal_64 cfg HE k s p sk pvs v d c (SI_SJ s HS) Hb HO Ht); [|intros i E; unfold tt_get in E; rewrite (proj1 (SI_az_start s HS)) in E; discriminate E|exact H].
  unfold seed_depth. rewrite ER. cbn [fst]. lia.
Qed.

(* ... in particular on every live position of a game replayed from tak.New *)
Theorem analyze_all_heads_legal_game64 : forall cfg, builtin_eval cfg ->
  forall sz bwt stones caps ms p, (3 <= sz <= 8)%N -> (0 < stones)%N -> (2 * (stones + caps) <= 64)%N ->
  replay (new_pos sz bwt stones caps) ms = Ok p -> is_over p = false ->
  forall k s sk pvs v d c, SJ s -> seed_legal s p ->
  Z.of_nat (length ms) + Z.max 1 (Z.max (c_depth cfg) (seed_depth s p)) <= max_terminal_ply ->
  analyze_all_cancel gen_basis cfg k s p = (sk, (pvs, v, d, c)) ->
  SJ sk /\ Forall (head_legal p) pvs /\ Forall (fun l => l <> []) pvs.
Proof.
  intros cfg HE sz bwt stones caps ms p Hsz Hst Hsum HR HO k s sk pvs v d c HS HSD Hlen H.
  pose proof (base_ok_new sz bwt stones caps ltac:(lia) ltac:(lia) ltac:(lia) ltac:(lia)) as B0.
  destruct (new_ok sz bwt stones caps ltac:(lia) ltac:(lia) ltac:(lia)) as (_ & _ & T0).
  destruct (base_ok_replay ms _ p B0 ltac:(rewrite T0; lia) HR) as (Hb & Em & Es & Et).
  apply (analyze_all_heads_legal_64 cfg HE k s p sk pvs v d c HS Hb HO); [rewrite Et, T0; lia| |exact HSD|exact H].
  rewrite Em. cbn [new_pos move]. lia.
Qed.

(* computed: depth 3, sorted, null move, slide reduction and multi-cut on, a 64-entry table, built-in evaluator, q4 (3x3 after a1 c3 b2 b1):
   the hypotheses hold and AnalyzeAll reports one line *)
Definition cfgB := mk_cfg 3 false false false true 0.
Example ex_all_table :
  builtin_eval cfgB /\ SJ (new_state 64) /\ seed_legal (new_state 64) q4 /\ seed_depth (new_state 64) q4 = 0 /\
  (let '(s1, (pvs, v, d, c)) := analyze_all gen_basis cfgB (new_state 64) q4 in
   (map (hd move0) pvs, v, d, c) = ([{| mX := 2; mY := 0; mT := 2; mS := 0 |}], 960, 3, false)).
Proof.
  split; [right; reflexivity|]. split; [apply SJ_new|]. split.
  - intros i _ EB. unfold az_start, new_state in EB. cbn [table] in EB. rewrite nth_repeat in EB. discriminate EB.
  - split; vm_compute; reflexivity.
Qed.
